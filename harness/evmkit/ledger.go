package evmkit

import (
	"math/rand"

	"github.com/ethereum/go-ethereum/common"
	"github.com/ethereum/go-ethereum/core/vm"
)

// LedgerContract generates a contract that moves ether around (for c32): value-carrying
// calls to the given targets, creations with endowment, self-destructs to others / to
// itself, nested frames that revert or fail after having moved ether.
func LedgerContract(r *rand.Rand, targets []common.Address, depth int) []byte {
	a := NewAsm()
	var datas [][]byte
	target := func() common.Address { return targets[r.Intn(len(targets))] }
	sendValue := func() {
		// value: a few wei, half of what was received, or the whole balance (+1: must fail)
		a.Push(0).Push(0).Push(0).Push(0)
		switch r.Intn(6) {
		case 0:
			a.Push(2).Op(vm.CALLVALUE, vm.DIV)
		case 1:
			a.Op(vm.ADDRESS, vm.BALANCE)
		case 2:
			a.Push(1).Op(vm.ADDRESS, vm.BALANCE, vm.ADD)
		default:
			a.Push(uint64(1 + r.Intn(40)))
		}
		a.PushAddr(target())
		if r.Intn(3) == 0 {
			a.Push(uint64(r.Intn(9000)))
		} else {
			a.Push(uint64(20000 + r.Intn(80000)))
		}
		op := vm.CALL
		if r.Intn(6) == 0 {
			op = vm.CALLCODE
		}
		a.Op(op, vm.POP)
	}
	n := 1 + r.Intn(4)
	for i := 0; i < n; i++ {
		switch k := r.Intn(12); {
		case k < 6:
			sendValue()
		case k < 8 && depth > 0: // creation with endowment
			var init []byte
			switch r.Intn(5) {
			case 0:
				init = Initcode(nil, LedgerContract(r, targets, 0))
			case 1: // constructor that sweeps the endowment away
				init = NewAsm().PushAddr(target()).Op(vm.SELFDESTRUCT).Bytes()
			case 2: // constructor that destroys itself in favour of itself
				init = NewAsm().Op(vm.ADDRESS, vm.SELFDESTRUCT).Bytes()
			case 3:
				init = LedgerContract(r, targets, 0) // moves ether, then ends somehow
			default:
				init = NewAsm().Push(0).Push(0).Op(vm.REVERT).Bytes()
			}
			name := "d" + string(rune('0'+len(datas)))
			datas = append(datas, init)
			a.Push(uint64(len(init))).PushLabel(name).Push(1).Op(vm.ADD).Push(0).Op(vm.CODECOPY)
			if r.Intn(2) == 0 {
				a.Push(uint64(len(init))).Push(0).Push(uint64(r.Intn(30))).Op(vm.CREATE, vm.POP)
			} else {
				a.Push(uint64(r.Intn(3))).Push(uint64(len(init))).Push(0).Push(uint64(r.Intn(30))).Op(vm.CREATE2, vm.POP)
			}
		case k < 9: // zero-value call (DELEGATECALL / STATICCALL / CALL) into another contract
			op := []vm.OpCode{vm.DELEGATECALL, vm.STATICCALL, vm.CALL}[r.Intn(3)]
			a.Push(0).Push(0).Push(0).Push(0)
			if op == vm.CALL {
				a.Push(0)
			}
			a.PushAddr(target()).Push(uint64(30000+r.Intn(100000))).Op(op, vm.POP)
		case k < 10:
			a.Push(uint64(1 + r.Intn(3))).Push(uint64(r.Intn(3))).Op(vm.SSTORE)
		default:
			sendValue()
		}
	}
	switch r.Intn(10) {
	case 0, 1:
		a.PushAddr(target()).Op(vm.SELFDESTRUCT)
	case 2:
		a.Op(vm.ADDRESS, vm.SELFDESTRUCT)
	case 3:
		a.Push(0).Push(0).Op(vm.REVERT)
	case 4:
		a.Op(vm.INVALID)
	default:
		a.Op(vm.STOP)
	}
	a.Op(vm.STOP)
	for i, d := range datas {
		a.Label("d" + string(rune('0'+i)))
		a.Raw(d...)
	}
	return a.Bytes()
}

// PhoenixFeeder creates a child contract, makes it self-destruct (call with value 0), then
// sends it `gift` wei in the same transaction.  The child is destroyed at the end of the
// transaction (also under EIP-6780: it was created in the same transaction), so the gift is
// burned with it before Amsterdam and kept on a balance-only account from Amsterdam on (EIP-8246).
func PhoenixFeeder(beneficiary common.Address, gift uint64) []byte {
	// child runtime: value == 0 -> SELFDESTRUCT(beneficiary); otherwise just accept the ether
	c := NewAsm()
	c.Op(vm.CALLVALUE, vm.ISZERO).Jumpi("die").Op(vm.STOP)
	c.Label("die").PushAddr(beneficiary).Op(vm.SELFDESTRUCT)
	init := Initcode(nil, c.Bytes())

	a := NewAsm()
	a.Push(uint64(len(init))).PushLabel("d").Push(1).Op(vm.ADD).Push(0).Op(vm.CODECOPY)
	a.Push(uint64(len(init))).Push(0).Push(3).Op(vm.CREATE)                                   // endowment 3 wei; stack: [child]
	a.Push(0).Push(0).Push(0).Push(0).Push(0).Op(vm.DUP6).Push(100000).Op(vm.CALL, vm.POP)    // child self-destructs
	a.Push(0).Push(0).Push(0).Push(0).Push(gift).Op(vm.DUP6).Push(100000).Op(vm.CALL, vm.POP) // gift to the destroyed child
	a.Op(vm.STOP)
	a.Label("d")
	a.Raw(init...)
	return a.Bytes()
}
