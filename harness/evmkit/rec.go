package evmkit

import (
	"errors"
	"math/big"

	"github.com/ethereum/go-ethereum/common"
	"github.com/ethereum/go-ethereum/core/tracing"
	"github.com/ethereum/go-ethereum/core/vm"
	tl "verif/harness/tracelib"
)

// Big is the largest number written into a trace (TLC integers are 32 bit).  Larger values
// are clipped to it; the specifications only ever compare such values with smaller ones.
const Big = 1<<31 - 1

func Clip(x uint64) int64 {
	if x > Big {
		return Big
	}
	return int64(x)
}

// ErrClass maps an EVM error to the coarse class used by the specifications (never the text).
func ErrClass(err error) string {
	if err == nil {
		return ""
	}
	var (
		under *vm.ErrStackUnderflow
		over  *vm.ErrStackOverflow
		inv   *vm.ErrInvalidOpCode
	)
	switch {
	case errors.Is(err, vm.ErrExecutionReverted):
		return "revert"
	case errors.Is(err, vm.ErrOutOfGas):
		return "oog"
	case errors.Is(err, vm.ErrCodeStoreOutOfGas):
		return "codestore"
	case errors.Is(err, vm.ErrDepth):
		return "depth"
	case errors.Is(err, vm.ErrInsufficientBalance):
		return "balance"
	case errors.Is(err, vm.ErrNonceUintOverflow):
		return "nonce"
	case errors.Is(err, vm.ErrContractAddressCollision):
		return "collision"
	case errors.Is(err, vm.ErrWriteProtection):
		return "writeprot"
	case errors.Is(err, vm.ErrInvalidJump):
		return "jump"
	case errors.Is(err, vm.ErrReturnDataOutOfBounds):
		return "rdoob"
	case errors.Is(err, vm.ErrGasUintOverflow):
		return "gasoverflow"
	case errors.Is(err, vm.ErrMaxCodeSizeExceeded), errors.Is(err, vm.ErrMaxInitCodeSizeExceeded), errors.Is(err, vm.ErrInvalidCode):
		return "code"
	case errors.As(err, &under):
		return "underflow"
	case errors.As(err, &over):
		return "overflow"
	case errors.As(err, &inv):
		return "invalid"
	}
	return "other"
}

// AddrClass maps an address to a small number: its value when below 2^16 (precompile range), else -1.
func AddrClass(a common.Address) int64 {
	for _, b := range a[:18] {
		if b != 0 {
			return -1
		}
	}
	return int64(a[18])<<8 | int64(a[19])
}

// MetaRecorder turns the callbacks of core/tracing.Hooks into the event vocabulary of
// spec/evm/EVMMetaTrace.tla: reset, enter, step, fault, exit, end (+ trunc when the
// per-execution event budget is used up: the rest of that execution is not logged).
type MetaRecorder struct {
	T         *tl.Trace
	MaxEvents int // per execution; 0 = unlimited
	n         int
	trunc     bool
	Steps     int            // steps seen in the current execution (logged or not)
	MaxDepth  int            // deepest OnEnter depth seen in the current execution
	MaxStack  int            // largest operand stack seen
	Ops       map[byte]int   // executed opcodes (all executions)
	Errs      map[string]int // error classes seen (all executions)
	topGiven  uint64
	TopLeft   uint64 // given - used of the outermost frame (for entry points that return no gas figure)
}

func NewMetaRecorder(t *tl.Trace, maxEvents int) *MetaRecorder {
	return &MetaRecorder{T: t, MaxEvents: maxEvents, Ops: map[byte]int{}, Errs: map[string]int{}}
}

func (r *MetaRecorder) emit(ev tl.M) {
	if r.trunc {
		return
	}
	if r.MaxEvents > 0 && r.n >= r.MaxEvents {
		r.trunc = true
		r.T.Emit(tl.M{"op": "trunc"})
		return
	}
	r.n++
	r.T.Emit(ev)
}

// Reset starts a new execution: rule set, gas handed to the top frame, call or create.
func (r *MetaRecorder) Reset(fork int, gas uint64, mode string) {
	r.n, r.trunc, r.Steps, r.MaxDepth, r.MaxStack = 0, false, 0, 0, 0
	r.T.Emit(tl.M{"op": "reset", "fork": fork, "gas": Clip(gas), "mode": mode})
}

// End closes an execution: leftover gas returned by the entry point, error class, panic flag.
func (r *MetaRecorder) End(left uint64, err error, panicked bool) {
	if panicked {
		// a panic is a violation in itself: always logged, even after truncation
		r.T.Emit(tl.M{"op": "end", "left": Clip(left), "err": "panic", "panic": true})
		return
	}
	r.emit(tl.M{"op": "end", "left": Clip(left), "err": ErrClass(err), "panic": false})
}

func (r *MetaRecorder) Truncated() bool { return r.trunc }

func (r *MetaRecorder) Hooks() *tracing.Hooks {
	return &tracing.Hooks{
		OnEnter: func(depth int, typ byte, from, to common.Address, input []byte, gas uint64, value *big.Int) {
			if depth > r.MaxDepth {
				r.MaxDepth = depth
			}
			if depth == 0 {
				r.topGiven = gas
			}
			r.emit(tl.M{"op": "enter", "d": depth, "typ": int(typ), "gas": Clip(gas), "to": AddrClass(to)})
		},
		OnExit: func(depth int, output []byte, gasUsed uint64, err error, reverted bool) {
			c := ErrClass(err)
			if c != "" {
				r.Errs[c]++
			}
			if depth == 0 {
				r.TopLeft = r.topGiven - gasUsed
			}
			r.emit(tl.M{"op": "exit", "d": depth, "used": Clip(gasUsed), "out": Clip(uint64(len(output))), "err": c, "rev": reverted})
		},
		OnOpcode: func(pc uint64, op byte, gas, cost uint64, scope tracing.OpContext, rData []byte, depth int, err error) {
			r.Steps++
			r.Ops[op]++
			st := scope.StackData()
			if len(st) > r.MaxStack {
				r.MaxStack = len(st)
			}
			mem := uint64(len(scope.MemoryData()))
			cv := 0
			if vm.OpCode(op) == vm.CALL && len(st) >= 3 && !st[len(st)-3].IsZero() {
				cv = 1
			}
			r.emit(tl.M{"op": "step", "d": depth, "pc": Clip(pc), "o": int(op), "gas": Clip(gas), "cost": Clip(cost),
				"sl": len(st), "mw": Clip(mem / 32), "ma": mem%32 == 0, "cv": cv, "err": ErrClass(err)})
		},
		OnFault: func(pc uint64, op byte, gas, cost uint64, scope tracing.OpContext, depth int, err error) {
			r.emit(tl.M{"op": "fault", "d": depth, "o": int(op), "err": ErrClass(err)})
		},
	}
}
