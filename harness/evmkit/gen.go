package evmkit

import (
	"math/rand"

	"github.com/ethereum/go-ethereum/common"
	"github.com/ethereum/go-ethereum/core/vm"
)

// Program is one generated test program with the world it runs in.
type Program struct {
	Name    string
	Code    []byte                    // code of the entry contract (or initcode when Create)
	Input   []byte                    // call data
	Helpers map[common.Address][]byte // other contracts present in the state
	Create  bool                      // run as contract creation
	Value   uint64                    // wei sent with the top-level call
}

// Fixed addresses of the small universe.
var (
	Origin  = common.HexToAddress("0x00000000000000000000000000000000000a11ce")
	Main    = common.BytesToAddress([]byte("contract")) // the address runtime.Execute uses
	HelperA = common.HexToAddress("0x000000000000000000000000000000000000aaaa")
	HelperB = common.HexToAddress("0x000000000000000000000000000000000000bbbb")
	HelperC = common.HexToAddress("0x000000000000000000000000000000000000cccc")
	NoSuch  = common.HexToAddress("0x000000000000000000000000000000000000dead") // never has an account
)

var Helpers = []common.Address{HelperA, HelperB, HelperC}

// interesting 256-bit operand values
func operand(r *rand.Rand, a *Asm) {
	switch r.Intn(12) {
	case 0:
		a.Push(0)
	case 1:
		a.Push(1)
	case 2:
		a.Push(32)
	case 3:
		a.Push(uint64(r.Intn(2048)))
	case 4:
		a.Push(uint64(r.Intn(1 << 20)))
	case 5:
		a.Push(1 << 32)
	case 6:
		a.Push(1<<63 + uint64(r.Intn(5)))
	case 7:
		a.Push(^uint64(0) - uint64(r.Intn(40)))
	case 8:
		a.PushMax()
	case 9:
		b := make([]byte, 1+r.Intn(32))
		r.Read(b)
		a.PushBytes(b)
	case 10:
		a.PushAddr(pickAddr(r))
	default:
		a.Push(uint64(r.Intn(256)))
	}
}

func pickAddr(r *rand.Rand) common.Address {
	switch r.Intn(10) {
	case 0:
		return Main
	case 1, 2:
		return HelperA
	case 3:
		return HelperB
	case 4:
		return HelperC
	case 5:
		return NoSuch
	case 6:
		return Origin
	case 7:
		return common.BytesToAddress([]byte{1, 0}) // 0x100 (P256VERIFY from Osaka)
	default:
		return common.BytesToAddress([]byte{byte(1 + r.Intn(18))}) // precompile range
	}
}

// RandomBytes: uniformly random code.
func RandomBytes(r *rand.Rand) []byte {
	b := make([]byte, 1+r.Intn(96))
	r.Read(b)
	return b
}

// opPool: every byte value appears, the interesting ones more often.
var hot = []vm.OpCode{vm.ADD, vm.MUL, vm.SUB, vm.EXP, vm.ADDMOD, vm.ISZERO, vm.KECCAK256, vm.BALANCE, vm.CALLDATALOAD, vm.CALLDATACOPY,
	vm.CODECOPY, vm.EXTCODESIZE, vm.EXTCODECOPY, vm.EXTCODEHASH, vm.RETURNDATASIZE, vm.RETURNDATACOPY, vm.BLOCKHASH, vm.SELFBALANCE,
	vm.POP, vm.MLOAD, vm.MSTORE, vm.MSTORE8, vm.SLOAD, vm.SSTORE, vm.PC, vm.MSIZE, vm.GAS, vm.TLOAD, vm.TSTORE, vm.MCOPY, vm.PUSH0,
	vm.DUP1, vm.DUP2, vm.DUP16, vm.SWAP1, vm.SWAP16, vm.LOG0, vm.LOG2, vm.LOG4, vm.CREATE, vm.CALL, vm.CALLCODE, vm.DELEGATECALL,
	vm.CREATE2, vm.STATICCALL, vm.SHL, vm.SAR, vm.CLZ, vm.BLOBHASH, vm.BLOBBASEFEE, vm.SLOTNUM, vm.DUPN, vm.SWAPN, vm.EXCHANGE,
	vm.ADDRESS, vm.CALLER, vm.CALLVALUE, vm.ORIGIN, vm.CHAINID, vm.BASEFEE, vm.JUMPDEST}

// RandomOps: a straight-line program of random instructions (any byte value), with operands
// pushed first most of the time so that many instructions actually execute.
func RandomOps(r *rand.Rand, n int) []byte {
	a := NewAsm()
	for i := 0; i < n; i++ {
		var op vm.OpCode
		if r.Intn(4) == 0 {
			op = vm.OpCode(r.Intn(256))
		} else {
			op = hot[r.Intn(len(hot))]
		}
		if op >= vm.PUSH1 && op <= vm.PUSH32 {
			operand(r, a)
			continue
		}
		if op == vm.JUMP || op == vm.JUMPI || op == vm.STOP || op == vm.RETURN || op == vm.REVERT || op == vm.SELFDESTRUCT || op == vm.INVALID {
			if r.Intn(6) != 0 {
				continue // keep terminators rare so the program goes on
			}
		}
		need := r.Intn(8)
		if r.Intn(5) != 0 {
			need = stackNeed(op)
		}
		for k := 0; k < need; k++ {
			operand(r, a)
		}
		a.Op(op)
		if op == vm.DUPN || op == vm.SWAPN || op == vm.EXCHANGE {
			a.Raw(byte(r.Intn(256)))
		}
	}
	return a.Bytes()
}

// stackNeed is only a generator heuristic (how many operands to push first); it is not an oracle.
func stackNeed(op vm.OpCode) int {
	switch {
	case op >= vm.DUP1 && op <= vm.DUP16:
		return int(op-vm.DUP1) + 1
	case op >= vm.SWAP1 && op <= vm.SWAP16:
		return int(op-vm.SWAP1) + 2
	case op >= vm.LOG0 && op <= vm.LOG4:
		return int(op-vm.LOG0) + 2
	}
	switch op {
	case vm.CALL, vm.CALLCODE:
		return 7
	case vm.DELEGATECALL, vm.STATICCALL:
		return 6
	case vm.CREATE2, vm.EXTCODECOPY:
		return 4
	case vm.CREATE, vm.ADDMOD, vm.MULMOD, vm.CALLDATACOPY, vm.CODECOPY, vm.RETURNDATACOPY, vm.MCOPY:
		return 3
	case vm.DUPN, vm.SWAPN, vm.EXCHANGE:
		return 20
	}
	if op < 0x20 || op == vm.KECCAK256 || op == vm.MSTORE || op == vm.MSTORE8 || op == vm.SSTORE || op == vm.TSTORE || op == vm.JUMPI || op == vm.RETURN || op == vm.REVERT {
		return 2
	}
	return 1
}

// PushFlood fills the stack to n items and then runs a few instructions at that height.
func PushFlood(r *rand.Rand, n int) []byte {
	a := NewAsm()
	for i := 0; i < n; i++ {
		a.Push(uint64(i & 0xff))
	}
	for i := 0; i < 6; i++ {
		a.Op(hot[r.Intn(len(hot))])
	}
	return a.Bytes()
}

// FloodLoop reaches the stack limit with a loop (DUP1 repeated), cheap in code size.
func FloodLoop() []byte {
	a := NewAsm()
	a.Push(1)
	a.Label("l").Op(vm.DUP1).Jump("l")
	return a.Bytes()
}

// MemoryProbe touches memory at interesting offsets/sizes with every memory-expanding instruction.
func MemoryProbe(r *rand.Rand) []byte {
	a := NewAsm()
	off := func() {
		switch r.Intn(9) {
		case 0:
			a.Push(0)
		case 1:
			a.Push(uint64(r.Intn(100)))
		case 2:
			a.Push(uint64(r.Intn(40000)))
		case 3:
			a.Push(uint64(r.Intn(3 << 20)))
		case 4:
			a.Push(0x1FFFFFFFE0 - uint64(r.Intn(64)))
		case 5:
			a.Push(0x1FFFFFFFE0 + uint64(r.Intn(64)))
		case 6:
			a.Push(^uint64(0) - uint64(r.Intn(64)))
		case 7:
			a.PushMax()
		default:
			a.Push(1 << 32)
		}
	}
	size := func() {
		switch r.Intn(7) {
		case 0:
			a.Push(0)
		case 1:
			a.Push(1)
		case 2:
			a.Push(uint64(r.Intn(70)))
		case 3:
			a.Push(uint64(r.Intn(70000)))
		case 4:
			a.Push(^uint64(0))
		case 5:
			a.PushMax()
		default:
			a.Push(32)
		}
	}
	for i := 0; i < 2+r.Intn(8); i++ {
		switch r.Intn(16) {
		case 0:
			off()
			a.Op(vm.MLOAD, vm.POP)
		case 1:
			a.Push(7)
			off()
			a.Op(vm.MSTORE)
		case 2:
			a.Push(7)
			off()
			a.Op(vm.MSTORE8)
		case 3:
			size()
			off()
			a.Op(vm.KECCAK256, vm.POP)
		case 4:
			size()
			off()
			off()
			a.Op(vm.CALLDATACOPY)
		case 5:
			size()
			off()
			off()
			a.Op(vm.CODECOPY)
		case 6:
			size()
			off()
			off()
			a.PushAddr(pickAddr(r)).Op(vm.EXTCODECOPY)
		case 7:
			size()
			off()
			off()
			a.Op(vm.MCOPY)
		case 8:
			size()
			off()
			a.Op(vm.LOG0)
		case 9:
			size()
			off()
			off()
			a.Op(vm.RETURNDATACOPY)
		case 10: // CALL with in/out areas
			size()
			off()
			size()
			off()
			a.Push(0).PushAddr(pickAddr(r)).Push(uint64(r.Intn(100000))).Op(vm.CALL, vm.POP)
		case 11:
			size()
			off()
			size()
			off()
			a.PushAddr(pickAddr(r)).Op(vm.GAS, vm.STATICCALL, vm.POP)
		case 12:
			size()
			off()
			a.Push(0).Op(vm.CREATE, vm.POP)
		case 13:
			a.Op(vm.MSIZE, vm.POP)
		case 14:
			size()
			off()
			if r.Intn(2) == 0 {
				a.Op(vm.RETURN)
			} else {
				a.Op(vm.REVERT)
			}
		default:
			a.Push(uint64(r.Intn(9))).Push(uint64(r.Intn(1 << 16))).Op(vm.MSTORE)
		}
	}
	return a.Bytes()
}

// GrowLoop stores to memory at a growing offset until gas runs out (memory growth paid each round).
func GrowLoop(stride uint64) []byte {
	a := NewAsm()
	a.Push(0)                                    // i
	a.Label("l").Op(vm.DUP1, vm.DUP1, vm.MSTORE) // mem[i] = i
	a.Push(stride).Op(vm.ADD)                    // i += stride
	a.Jump("l")
	return a.Bytes()
}

// SelfRecursion calls its own address again with all gas, via the given call instruction,
// until the depth limit or the gas runs out; the innermost frames fail, the others return.
func SelfRecursion(op vm.OpCode) []byte {
	a := NewAsm()
	a.Push(0).Push(0).Push(0).Push(0) // out size, out off, in size, in off
	if op == vm.CALL || op == vm.CALLCODE {
		a.Push(0) // value
	}
	a.Op(vm.ADDRESS, vm.GAS).Op(op)
	a.Op(vm.POP, vm.STOP)
	return a.Bytes()
}

// CreateRecursion: initcode that copies itself to memory and CREATEs it again (nested creation frames).
func CreateRecursion() []byte {
	a := NewAsm()
	a.Op(vm.CODESIZE).Push(0).Push(0).Op(vm.CODECOPY) // mem[0..codesize) = code
	a.Op(vm.CODESIZE).Push(0).Push(0).Op(vm.CREATE)   // create(value 0, off 0, size codesize)
	a.Op(vm.POP, vm.STOP)
	return a.Bytes()
}

// CallMix calls the helpers, precompiles and missing accounts with every call instruction,
// with and without value, with random gas, and ends in a random way.
func CallMix(r *rand.Rand) []byte {
	a := NewAsm()
	for i := 0; i < 1+r.Intn(6); i++ {
		op := []vm.OpCode{vm.CALL, vm.CALLCODE, vm.DELEGATECALL, vm.STATICCALL, vm.CALL}[r.Intn(5)]
		a.Push(uint64(r.Intn(64))).Push(uint64(r.Intn(64))).Push(uint64(r.Intn(200))).Push(0)
		if op == vm.CALL || op == vm.CALLCODE {
			a.Push(uint64(r.Intn(3))) // value 0..2 wei
		}
		a.PushAddr(pickAddr(r))
		switch r.Intn(4) {
		case 0:
			a.Op(vm.GAS)
		case 1:
			a.Push(uint64(r.Intn(3000)))
		case 2:
			a.PushMax()
		default:
			a.Push(uint64(r.Intn(200000)))
		}
		a.Op(op)
		if r.Intn(2) == 0 {
			a.Op(vm.POP)
		}
		if r.Intn(3) == 0 {
			a.Op(vm.RETURNDATASIZE).Push(0).Push(0).Op(vm.RETURNDATACOPY)
		}
	}
	Ending(r, a)
	return a.Bytes()
}

// Ending appends a random way to finish a frame.
func Ending(r *rand.Rand, a *Asm) {
	switch r.Intn(8) {
	case 0:
		a.Op(vm.STOP)
	case 1:
		a.Push(uint64(r.Intn(64))).Push(0).Op(vm.RETURN)
	case 2:
		a.Push(uint64(r.Intn(64))).Push(0).Op(vm.REVERT)
	case 3:
		a.Op(vm.INVALID)
	case 4:
		a.PushAddr(pickAddr(r)).Op(vm.SELFDESTRUCT)
	case 5:
		a.Push(uint64(r.Intn(300))).Op(vm.JUMP) // most likely an invalid jump
	case 6:
		a.Label("spin").Jump("spin") // burn all gas
	default:
		// fall off the end of the code
	}
}

// StateWriter does a few state-modifying instructions, then ends randomly.
func StateWriter(r *rand.Rand) []byte {
	a := NewAsm()
	for i := 0; i < 1+r.Intn(5); i++ {
		switch r.Intn(6) {
		case 0, 1:
			a.Push(uint64(r.Intn(3))).Push(uint64(r.Intn(3))).Op(vm.SSTORE)
		case 2:
			a.Push(uint64(r.Intn(3))).Push(uint64(r.Intn(3))).Op(vm.TSTORE)
		case 3:
			a.Push(uint64(r.Intn(5))).Push(uint64(r.Intn(33))).Push(0).Op(vm.LOG1)
		case 4:
			a.Push(uint64(r.Intn(3))).Op(vm.SLOAD, vm.POP)
		default:
			a.Push(0).Push(0).Push(0).Push(0).Push(uint64(r.Intn(3))).PushAddr(pickAddr(r)).Push(uint64(r.Intn(50000))).Op(vm.CALL, vm.POP)
		}
	}
	Ending(r, a)
	return a.Bytes()
}

// Creator runs CREATE / CREATE2 with various initcodes (returning code, 0xEF code, too much
// code, reverting, failing, colliding on the second CREATE2).
func Creator(r *rand.Rand) []byte {
	var init []byte
	switch r.Intn(7) {
	case 0:
		init = Initcode(nil, StateWriter(r))
	case 1:
		init = Initcode(nil, []byte{0xEF, 0x00})
	case 2: // returns a lot of (zero) code: size chosen around the code-size limits
		ia := NewAsm()
		ia.Push(uint64([]int{0x6000, 0x6001, 0x5fff, 0x8000, 0xC000, 0x10000, 1000}[r.Intn(7)])).Push(0).Op(vm.RETURN)
		init = ia.Bytes()
	case 3:
		init = NewAsm().Push(0).Push(0).Op(vm.REVERT).Bytes()
	case 4:
		init = []byte{byte(vm.INVALID)}
	case 5:
		init = StateWriter(r)
	default:
		init = nil
	}
	a := NewAsm()
	// copy initcode into memory with a sequence of MSTORE8 (short codes) or CODECOPY from the tail
	a.Push(uint64(len(init))).PushLabel("data").Push(0).Op(vm.CODECOPY)
	n := 1 + r.Intn(2)
	for i := 0; i < n; i++ {
		if r.Intn(2) == 0 {
			a.Push(uint64(len(init))).Push(0).Push(uint64(r.Intn(2))).Op(vm.CREATE, vm.POP)
		} else {
			a.Push(5).Push(uint64(len(init))).Push(0).Push(uint64(r.Intn(2))).Op(vm.CREATE2, vm.POP) // same salt twice: collision
		}
	}
	a.Op(vm.STOP)
	a.Label("data") // the label's JUMPDEST byte is replaced by the first byte of the data
	code := a.Bytes()
	return append(code[:len(code)-1:len(code)-1], init...)
}

// DepthProbe recurses into itself with CALL, asking for (gas left - 2000) so that the request is
// affordable under every rule set (before EIP-150 a request for all remaining gas fails).  A frame
// whose CALL succeeded stops; the frame whose CALL was refused -- the deepest one, at the call
// depth limit -- also tries CALLCODE, DELEGATECALL and CREATE from there, so that every
// depth check reachable without the 63/64 rule is exercised at the limit in one run.
func DepthProbe() []byte {
	a := NewAsm()
	gasArg := func() { a.Push(2000).Op(vm.GAS, vm.SUB) }
	a.Push(0).Push(0).Push(0).Push(0).Push(0).Op(vm.ADDRESS)
	gasArg()
	a.Op(vm.CALL).Jumpi("end")
	// only reached when the CALL failed
	a.Push(0).Push(0).Push(0).Push(0).Push(0).Op(vm.ADDRESS)
	gasArg()
	a.Op(vm.CALLCODE, vm.POP)
	a.Push(0).Push(0).Push(0).Push(0).Op(vm.ADDRESS)
	gasArg()
	a.Op(vm.DELEGATECALL, vm.POP)
	a.Push(0).Push(0).Push(0).Op(vm.CREATE, vm.POP)
	a.Label("end").Op(vm.STOP)
	return a.Bytes()
}

// MemoryMatrix: one tiny program per (memory-touching instruction, offset, size) at the boundaries
// (zero / one byte / word / word+1 / large-but-affordable; destination below or above the source),
// including a source range that lies beyond the current memory.
func MemoryMatrix() [][]byte {
	offs := []uint64{0, 31, 32, 1000, 70000}
	sizes := []uint64{0, 1, 32, 33, 4000}
	var out [][]byte
	add := func(build func(a *Asm)) {
		a := NewAsm()
		build(a)
		a.Op(vm.MSIZE, vm.POP, vm.STOP) // one more instruction: the growth of the probed one becomes observable
		out = append(out, a.Bytes())
	}
	for _, o := range offs {
		o := o
		add(func(a *Asm) { a.Push(o).Op(vm.MLOAD, vm.POP) })
		add(func(a *Asm) { a.Push(7).Push(o).Op(vm.MSTORE) })
		add(func(a *Asm) { a.Push(7).Push(o).Op(vm.MSTORE8) })
		for _, s := range sizes {
			s := s
			add(func(a *Asm) { a.Push(s).Push(o).Op(vm.KECCAK256, vm.POP) })
			add(func(a *Asm) { a.Push(s).Push(3).Push(o).Op(vm.CALLDATACOPY) })
			add(func(a *Asm) { a.Push(s).Push(3).Push(o).Op(vm.CODECOPY) })
			add(func(a *Asm) { a.Push(s).Push(3).Push(o).PushAddr(HelperA).Op(vm.EXTCODECOPY) })
			add(func(a *Asm) { a.Push(s).Push(o).Op(vm.LOG0) })
			add(func(a *Asm) { a.Push(s).Push(o).Push(0).Op(vm.CREATE, vm.POP) })
			add(func(a *Asm) { // CALL with input area at o and output area at 2*o
				a.Push(s).Push(2*o).Push(s).Push(o).Push(0).PushAddr(common.BytesToAddress([]byte{4})).Push(50000).Op(vm.CALL, vm.POP)
			})
			for _, o2 := range offs { // MCOPY: every (destination, source) pair, source may lie beyond memory
				o2 := o2
				add(func(a *Asm) { a.Push(s).Push(o2).Push(o).Op(vm.MCOPY) })
			}
		}
	}
	return out
}
