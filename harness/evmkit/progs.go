package evmkit

import (
	"math/rand"

	"github.com/ethereum/go-ethereum/common"
	"github.com/ethereum/go-ethereum/core/vm"
)

// HelpersFor draws the code of the helper contracts.
func HelpersFor(r *rand.Rand) map[common.Address][]byte {
	h := map[common.Address][]byte{}
	for _, a := range Helpers {
		switch r.Intn(5) {
		case 0:
			h[a] = StateWriter(r)
		case 1:
			h[a] = CallMix(r)
		case 2:
			h[a] = RandomOps(r, 5+r.Intn(20))
		case 3:
			h[a] = MemoryProbe(r)
		default:
			h[a] = RandomBytes(r)
		}
	}
	return h
}

// GenProgram draws one program of the generic mix used by c27.
func GenProgram(r *rand.Rand) *Program {
	p := &Program{Helpers: HelpersFor(r)}
	in := make([]byte, r.Intn(70))
	r.Read(in)
	p.Input = in
	if r.Intn(4) == 0 {
		p.Value = uint64(r.Intn(3))
	}
	switch k := r.Intn(20); {
	case k < 3:
		p.Name, p.Code = "bytes", RandomBytes(r)
	case k < 8:
		p.Name, p.Code = "ops", RandomOps(r, 5+r.Intn(60))
	case k < 11:
		p.Name, p.Code = "mem", MemoryProbe(r)
	case k < 14:
		p.Name, p.Code = "calls", CallMix(r)
	case k < 16:
		p.Name, p.Code = "state", StateWriter(r)
	case k < 18:
		p.Name, p.Code = "creator", Creator(r)
	case k < 19:
		p.Name, p.Code = "flood", PushFlood(r, 1015+r.Intn(14))
	default:
		p.Name, p.Code, p.Create = "initcode", Initcode(nil, StateWriter(r)), true
		if r.Intn(2) == 0 {
			p.Code = Creator(r)
		}
	}
	if !p.Create && r.Intn(12) == 0 {
		p.Create = true // any program as initcode
	}
	return p
}

// ---- programs for frame isolation (c29): wrappers around callees ----

// writes appends a few state-modifying instructions (storage, transient storage, logs, value transfer).
func writes(r *rand.Rand, a *Asm, n int) {
	for i := 0; i < n; i++ {
		switch r.Intn(7) {
		case 0, 1:
			a.Push(uint64(1 + r.Intn(3))).Push(uint64(r.Intn(3))).Op(vm.SSTORE)
		case 2:
			a.Push(0).Push(uint64(r.Intn(3))).Op(vm.SSTORE) // clear: refund counter moves
		case 3:
			a.Push(uint64(1 + r.Intn(3))).Push(uint64(r.Intn(3))).Op(vm.TSTORE)
		case 4:
			a.Push(uint64(r.Intn(5))).Push(uint64(r.Intn(33))).Push(0).Op(vm.LOG1)
		case 5:
			a.Push(uint64(r.Intn(3))).Op(vm.SLOAD, vm.POP) // warms a slot
		default: // send 1 wei
			a.Push(0).Push(0).Push(0).Push(0).Push(1).PushAddr(pickAddr(r)).Push(0).Op(vm.CALL, vm.POP)
		}
	}
}

// pickCallee prefers the helper contracts (which hold code) over the other accounts.
func pickCallee(r *rand.Rand) common.Address {
	switch k := r.Intn(20); {
	case k < 5:
		return HelperA
	case k < 10:
		return HelperB
	case k < 14:
		return HelperC
	case k < 15:
		return Main
	default:
		return pickAddr(r)
	}
}

// FrameWrapper: optional writes, then 1..3 sub-frames of random kinds (CALL, STATICCALL,
// DELEGATECALL, CALLCODE to the helpers / itself / missing accounts / precompiles, CREATE and
// CREATE2 of embedded initcode) with random gas, more writes, and a random ending.
func FrameWrapper(r *rand.Rand, depth int) []byte {
	a := NewAsm()
	var datas [][]byte
	writes(r, a, r.Intn(3))
	for i := 0; i < 1+r.Intn(3); i++ {
		gas := func() {
			switch r.Intn(5) {
			case 0:
				a.Push(uint64(r.Intn(2500)))
			case 1:
				a.Push(uint64(2300 + r.Intn(30000)))
			case 2:
				if r.Intn(4) == 0 {
					a.Op(vm.GAS)
				} else {
					a.Push(uint64(r.Intn(400000)))
				}
			default:
				a.Push(uint64(20000 + r.Intn(120000)))
			}
		}
		switch k := r.Intn(10); {
		case k < 6:
			op := []vm.OpCode{vm.CALL, vm.STATICCALL, vm.DELEGATECALL, vm.CALLCODE, vm.STATICCALL, vm.CALL}[k]
			a.Push(0).Push(0).Push(uint64(r.Intn(40))).Push(0)
			if op == vm.CALL || op == vm.CALLCODE {
				a.Push(uint64(r.Intn(3)))
			}
			a.PushAddr(pickCallee(r))
			gas()
			a.Op(op, vm.POP)
		default: // creation of embedded initcode
			var init []byte
			switch r.Intn(5) {
			case 0:
				init = Initcode(nil, StateWriter(r))
			case 1:
				init = StateWriter(r) // writes, then random ending: often fails
			case 2:
				if depth > 0 {
					init = FrameWrapper(r, depth-1)
				} else {
					init = CallMix(r)
				}
			case 3:
				ia := NewAsm()
				writes(r, ia, 1+r.Intn(3))
				ia.Op(vm.INVALID)
				init = ia.Bytes()
			default:
				ia := NewAsm()
				writes(r, ia, 1+r.Intn(3))
				ia.Push(0).Push(0).Op(vm.REVERT)
				init = ia.Bytes()
			}
			name := "d" + string(rune('0'+len(datas)))
			datas = append(datas, init)
			// mem[0..len) = code[label+1 ..)
			a.Push(uint64(len(init))).PushLabel(name).Push(1).Op(vm.ADD).Push(0).Op(vm.CODECOPY)
			if k < 8 {
				a.Push(uint64(len(init))).Push(0).Push(uint64(r.Intn(2))).Op(vm.CREATE, vm.POP)
			} else {
				a.Push(uint64(r.Intn(2))).Push(uint64(len(init))).Push(0).Push(uint64(r.Intn(2))).Op(vm.CREATE2, vm.POP)
			}
		}
		writes(r, a, r.Intn(2))
	}
	Ending(r, a)
	a.Op(vm.STOP)
	for i, d := range datas {
		a.Label("d" + string(rune('0'+i)))
		a.Raw(d...)
	}
	return a.Bytes()
}

// GenFramesProgram draws a wrapper program and helper callees for c29.
func GenFramesProgram(r *rand.Rand) *Program {
	p := &Program{Name: "wrapper", Helpers: map[common.Address][]byte{}}
	for _, h := range Helpers {
		switch r.Intn(6) {
		case 0, 1:
			p.Helpers[h] = StateWriter(r)
		case 2:
			p.Helpers[h] = FrameWrapper(r, 1)
		case 3:
			p.Helpers[h] = CallMix(r)
		case 4:
			p.Helpers[h] = Creator(r)
		default:
			p.Helpers[h] = RandomOps(r, 5+r.Intn(25))
		}
	}
	p.Code = FrameWrapper(r, 1)
	in := make([]byte, r.Intn(40))
	r.Read(in)
	p.Input = in
	if r.Intn(3) == 0 {
		p.Value = uint64(r.Intn(3))
	}
	if r.Intn(8) == 0 {
		p.Create = true
	}
	return p
}
