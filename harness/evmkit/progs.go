package evmkit

import (
	"math/rand"

	"github.com/ethereum/go-ethereum/common"
	"github.com/ethereum/go-ethereum/core/vm"
)

// HelpersFor draws the code of the helper contracts.
func HelpersFor(r *rand.Rand) map[common.Address][]byte {
	h := map[common.Address][]byte{}
	for _, a := range Helpers {
		switch r.Intn(5) {
		case 0:
			h[a] = StateWriter(r)
		case 1:
			h[a] = CallMix(r)
		case 2:
			h[a] = RandomOps(r, 5+r.Intn(20))
		case 3:
			h[a] = MemoryProbe(r)
		default:
			h[a] = RandomBytes(r)
		}
	}
	return h
}

// GenProgram draws one program of the generic mix used by c27.
func GenProgram(r *rand.Rand) *Program {
	p := &Program{Helpers: HelpersFor(r)}
	in := make([]byte, r.Intn(70))
	r.Read(in)
	p.Input = in
	if r.Intn(4) == 0 {
		p.Value = uint64(r.Intn(3))
	}
	switch k := r.Intn(20); {
	case k < 3:
		p.Name, p.Code = "bytes", RandomBytes(r)
	case k < 8:
		p.Name, p.Code = "ops", RandomOps(r, 5+r.Intn(60))
	case k < 11:
		p.Name, p.Code = "mem", MemoryProbe(r)
	case k < 14:
		p.Name, p.Code = "calls", CallMix(r)
	case k < 16:
		p.Name, p.Code = "state", StateWriter(r)
	case k < 18:
		p.Name, p.Code = "creator", Creator(r)
	case k < 19:
		p.Name, p.Code = "flood", PushFlood(r, 1015+r.Intn(14))
	default:
		p.Name, p.Code, p.Create = "initcode", Initcode(nil, StateWriter(r)), true
		if r.Intn(2) == 0 {
			p.Code = Creator(r)
		}
	}
	if !p.Create && r.Intn(12) == 0 {
		p.Create = true // any program as initcode
	}
	return p
}

// ---- programs for frame isolation (c29): wrappers around callees ----

// writes appends a few state-modifying instructions (storage, transient storage, logs, value transfer).
func writes(r *rand.Rand, a *Asm, n int) {
	for i := 0; i < n; i++ {
		switch r.Intn(7) {
		case 0, 1:
			a.Push(uint64(1 + r.Intn(3))).Push(uint64(r.Intn(3))).Op(vm.SSTORE)
		case 2:
			a.Push(0).Push(uint64(r.Intn(3))).Op(vm.SSTORE) // clear: refund counter moves
		case 3:
			a.Push(uint64(1 + r.Intn(3))).Push(uint64(r.Intn(3))).Op(vm.TSTORE)
		case 4:
			a.Push(uint64(r.Intn(5))).Push(uint64(r.Intn(33))).Push(0).Op(vm.LOG1)
		case 5:
			a.Push(uint64(r.Intn(3))).Op(vm.SLOAD, vm.POP) // warms a slot
		default: // send 1 wei
			a.Push(0).Push(0).Push(0).Push(0).Push(1).PushAddr(pickAddr(r)).Push(0).Op(vm.CALL, vm.POP)
		}
	}
}

// pickCallee prefers the helper contracts (which hold code) over the other accounts.
func pickCallee(r *rand.Rand) common.Address {
	switch k := r.Intn(20); {
	case k < 5:
		return HelperA
	case k < 10:
		return HelperB
	case k < 14:
		return HelperC
	case k < 15:
		return Main
	default:
		return pickAddr(r)
	}
}

// FrameWrapper: optional writes, then 1..3 sub-frames of random kinds (CALL, STATICCALL,
// DELEGATECALL, CALLCODE to the helpers / itself / missing accounts / precompiles, CREATE and
// CREATE2 of embedded initcode) with random gas, more writes, and a random ending.
func FrameWrapper(r *rand.Rand, depth int) []byte {
	a := NewAsm()
	var datas [][]byte
	writes(r, a, r.Intn(3))
	for i := 0; i < 1+r.Intn(3); i++ {
		gas := func() {
			switch r.Intn(5) {
			case 0:
				a.Push(uint64(r.Intn(2500)))
			case 1:
				a.Push(uint64(2300 + r.Intn(30000)))
			case 2:
				if r.Intn(4) == 0 {
					a.Op(vm.GAS)
				} else {
					a.Push(uint64(r.Intn(400000)))
				}
			default:
				a.Push(uint64(20000 + r.Intn(120000)))
			}
		}
		switch k := r.Intn(10); {
		case k < 6:
			op := []vm.OpCode{vm.CALL, vm.STATICCALL, vm.DELEGATECALL, vm.CALLCODE, vm.STATICCALL, vm.CALL}[k]
			a.Push(0).Push(0).Push(uint64(r.Intn(40))).Push(0)
			if op == vm.CALL || op == vm.CALLCODE {
				a.Push(uint64(r.Intn(3)))
			}
			a.PushAddr(pickCallee(r))
			gas()
			a.Op(op, vm.POP)
		default: // creation of embedded initcode
			var init []byte
			switch r.Intn(5) {
			case 0:
				init = Initcode(nil, StateWriter(r))
			case 1:
				init = StateWriter(r) // writes, then random ending: often fails
			case 2:
				if depth > 0 {
					init = FrameWrapper(r, depth-1)
				} else {
					init = CallMix(r)
				}
			case 3:
				ia := NewAsm()
				writes(r, ia, 1+r.Intn(3))
				ia.Op(vm.INVALID)
				init = ia.Bytes()
			default:
				ia := NewAsm()
				writes(r, ia, 1+r.Intn(3))
				ia.Push(0).Push(0).Op(vm.REVERT)
				init = ia.Bytes()
			}
			name := "d" + string(rune('0'+len(datas)))
			datas = append(datas, init)
			// mem[0..len) = code[label+1 ..)
			a.Push(uint64(len(init))).PushLabel(name).Push(1).Op(vm.ADD).Push(0).Op(vm.CODECOPY)
			if k < 8 {
				a.Push(uint64(len(init))).Push(0).Push(uint64(r.Intn(2))).Op(vm.CREATE, vm.POP)
			} else {
				a.Push(uint64(r.Intn(2))).Push(uint64(len(init))).Push(0).Push(uint64(r.Intn(2))).Op(vm.CREATE2, vm.POP)
			}
		}
		writes(r, a, r.Intn(2))
	}
	Ending(r, a)
	a.Op(vm.STOP)
	for i, d := range datas {
		a.Label("d" + string(rune('0'+i)))
		a.Raw(d...)
	}
	return a.Bytes()
}

// GenFramesProgram draws a wrapper program and helper callees for c29.
func GenFramesProgram(r *rand.Rand) *Program {
	p := &Program{Name: "wrapper", Helpers: map[common.Address][]byte{}}
	for _, h := range Helpers {
		switch r.Intn(6) {
		case 0, 1:
			p.Helpers[h] = StateWriter(r)
		case 2:
			p.Helpers[h] = FrameWrapper(r, 1)
		case 3:
			p.Helpers[h] = CallMix(r)
		case 4:
			p.Helpers[h] = Creator(r)
		default:
			p.Helpers[h] = RandomOps(r, 5+r.Intn(25))
		}
	}
	p.Code = FrameWrapper(r, 1)
	in := make([]byte, r.Intn(40))
	r.Read(in)
	p.Input = in
	if r.Intn(3) == 0 {
		p.Value = uint64(r.Intn(3))
	}
	if r.Intn(8) == 0 {
		p.Create = true
	}
	return p
}

// ---- directed frame scenarios (c29): call kind x effect x ending, systematically ----

// FrameKinds are the instructions that open a frame.
var FrameKinds = []vm.OpCode{vm.CALL, vm.STATICCALL, vm.DELEGATECALL, vm.CALLCODE, vm.CREATE, vm.CREATE2}

// FrameEffects name what the inner frame does before it ends.
var FrameEffects = []string{"sstore-set", "sstore-clear", "sstore-clear-reset", "sstore-reset-original", "sstore-recreate", "tstore", "log",
	"send", "sload-cold", "balance-cold", "create", "selfdestruct", "nested-ok-write",
	// the outer frame performs the same write on the same slot immediately before it opens the inner frame on an
	// already warm callee (no other journalled change lies between the two writes)
	"tstore-same-slot", "sstore-same-slot"}

// FrameEndings name how the inner frame ends.
var FrameEndings = []string{"stop", "revert", "invalid", "oog"}

func effect(a *Asm, e string) {
	switch e {
	case "sstore-set":
		a.Push(7).Push(2).Op(vm.SSTORE) // slot 2: 0 -> 7
	case "sstore-clear":
		a.Push(0).Push(1).Op(vm.SSTORE) // slot 1 holds 5 in the pre-state: refund counter grows
	case "sstore-clear-reset":
		a.Push(0).Push(1).Op(vm.SSTORE).Push(9).Push(1).Op(vm.SSTORE) // refund granted, then taken back
	case "sstore-reset-original":
		a.Push(6).Push(1).Op(vm.SSTORE).Push(5).Push(1).Op(vm.SSTORE) // dirty, then back to the original value
	case "sstore-recreate":
		// the OUTER frame cleared slot 1 (refund granted there); re-creating it here takes the refund
		// back inside the inner frame (same storage under DELEGATECALL / CALLCODE)
		a.Push(9).Push(1).Op(vm.SSTORE)
	case "tstore", "tstore-same-slot":
		a.Push(3).Push(1).Op(vm.TSTORE)
	case "sstore-same-slot":
		a.Push(8).Push(2).Op(vm.SSTORE)
	case "log":
		a.Push(4).Push(8).Push(0).Op(vm.LOG1)
	case "send":
		a.Push(0).Push(0).Push(0).Push(0).Push(2).PushAddr(HelperC).Push(0).Op(vm.CALL, vm.POP)
	case "sload-cold":
		a.Push(3).Op(vm.SLOAD, vm.POP)
	case "balance-cold":
		a.PushAddr(NoSuch).Op(vm.BALANCE, vm.POP)
	case "create":
		// mem[0] = PUSH1 1 PUSH1 2 SSTORE STOP (initcode writing a slot of the new account)
		a.PushBytes([]byte{0x60, 0x01, 0x60, 0x02, 0x55, 0x00}).Push(0).Op(vm.MSTORE)
		a.Push(6).Push(26).Push(0).Op(vm.CREATE, vm.POP)
	case "selfdestruct":
		// nothing here: the ending is replaced by SELFDESTRUCT (see DirectedCallee)
	case "nested-ok-write":
		// a successful inner CALL to HelperB (which writes and stops), then this frame ends
		a.Push(0).Push(0).Push(0).Push(0).Push(0).PushAddr(HelperB).Push(60000).Op(vm.CALL, vm.POP)
	}
}

// DirectedCallee is the code run by the inner frame.
func DirectedCallee(e, ending string) []byte {
	a := NewAsm()
	effect(a, e)
	if e == "selfdestruct" && ending == "stop" {
		return a.PushAddr(HelperC).Op(vm.SELFDESTRUCT).Bytes()
	}
	if e == "selfdestruct" {
		// sweep first through a nested successful frame is not possible; do a value send instead, then fail
		effect(a, "send")
	}
	switch ending {
	case "stop":
		a.Op(vm.STOP)
	case "revert":
		a.Push(0).Push(0).Op(vm.REVERT)
	case "invalid":
		a.Op(vm.INVALID)
	case "oog":
		a.Label("spin").Jump("spin")
	}
	return a.Bytes()
}

// DirectedFrames builds the wrapper (run at Main) and the helper set of one scenario: Main does
// an effect of its own, opens the inner frame with `kind`, and then stops or fails itself
// (outerFails), so that both the inner and the outer restore are exercised.
func DirectedFrames(kind vm.OpCode, e, ending string, outerFails bool) *Program {
	callee := DirectedCallee(e, ending)
	p := &Program{Name: "directed", Helpers: map[common.Address][]byte{
		HelperA: callee,
		HelperB: NewAsm().Push(1).Push(0).Op(vm.SSTORE, vm.STOP).Bytes(), // writes slot 0 and stops
		HelperC: {byte(vm.STOP)},
	}}
	a := NewAsm()
	a.Push(2).Push(0).Op(vm.SSTORE) // the outer frame's own effect
	if e == "sstore-recreate" {
		a.Push(0).Push(1).Op(vm.SSTORE) // clear a slot that holds 5 in the pre-state: refund granted in the outer frame
	}
	switch e {
	case "tstore-same-slot":
		a.PushAddr(HelperA).Op(vm.BALANCE, vm.POP) // warm the callee first
		a.Push(2).Push(1).Op(vm.TSTORE)
	case "sstore-same-slot":
		a.PushAddr(HelperA).Op(vm.BALANCE, vm.POP)
		a.Push(7).Push(2).Op(vm.SSTORE)
	}
	gas := uint64(120000)
	switch kind {
	case vm.CREATE, vm.CREATE2:
		// the inner frame runs `callee` as initcode: mem[0..len) = code tail
		a.Push(uint64(len(callee))).PushLabel("d").Push(1).Op(vm.ADD).Push(0).Op(vm.CODECOPY)
		if kind == vm.CREATE2 {
			a.Push(1)
		}
		a.Push(uint64(len(callee))).Push(0).Push(1).Op(kind, vm.POP)
	default:
		a.Push(0).Push(0).Push(0).Push(0)
		if kind == vm.CALL || kind == vm.CALLCODE {
			a.Push(1)
		}
		a.PushAddr(HelperA).Push(gas).Op(kind, vm.POP)
	}
	a.Push(4).Push(3).Op(vm.SSTORE) // something after the inner frame
	if outerFails {
		a.Push(0).Push(0).Op(vm.REVERT)
	}
	a.Op(vm.STOP)
	a.Label("d")
	a.Raw(callee...)
	p.Code = a.Bytes()
	return p
}

// MinFork is the first rule set on which every instruction of the scenario exists.
func MinFork(kind vm.OpCode, e, ending string) int {
	m := Frontier
	up := func(f int) {
		if f > m {
			m = f
		}
	}
	switch kind {
	case vm.DELEGATECALL:
		up(Homestead)
	case vm.STATICCALL:
		up(Byzantium)
	case vm.CREATE2:
		up(Constantinople)
	}
	if ending == "revert" {
		up(Byzantium)
	}
	if e == "tstore" || e == "tstore-same-slot" {
		up(Cancun)
	}
	return m
}
