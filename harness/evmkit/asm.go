package evmkit

import (
	"github.com/ethereum/go-ethereum/common"
	"github.com/ethereum/go-ethereum/core/vm"
)

// Asm is a minimal EVM assembler with labels (PUSH2 fix-ups).
type Asm struct {
	b      []byte
	labels map[string]int
	fixups map[int]string
}

func NewAsm() *Asm { return &Asm{labels: map[string]int{}, fixups: map[int]string{}} }

// Op appends raw opcode bytes.
func (a *Asm) Op(ops ...vm.OpCode) *Asm {
	for _, o := range ops {
		a.b = append(a.b, byte(o))
	}
	return a
}

// Raw appends raw bytes.
func (a *Asm) Raw(bs ...byte) *Asm { a.b = append(a.b, bs...); return a }

// Push pushes v with the shortest PUSHn (PUSH1 0 for zero: valid on every rule set).
func (a *Asm) Push(v uint64) *Asm {
	var buf []byte
	for x := v; x > 0; x >>= 8 {
		buf = append([]byte{byte(x)}, buf...)
	}
	if len(buf) == 0 {
		buf = []byte{0}
	}
	return a.PushBytes(buf)
}

// PushBytes pushes 1..32 bytes with PUSHn.
func (a *Asm) PushBytes(bs []byte) *Asm {
	if len(bs) == 0 || len(bs) > 32 {
		panic("evmkit: bad push size")
	}
	a.b = append(a.b, byte(vm.PUSH1)+byte(len(bs)-1))
	a.b = append(a.b, bs...)
	return a
}

// PushMax pushes 2^256-1.
func (a *Asm) PushMax() *Asm {
	bs := make([]byte, 32)
	for i := range bs {
		bs[i] = 0xff
	}
	return a.PushBytes(bs)
}

func (a *Asm) PushAddr(addr common.Address) *Asm { return a.PushBytes(addr[:]) }

// Label defines a jump target here (emits JUMPDEST).
func (a *Asm) Label(name string) *Asm {
	a.labels[name] = len(a.b)
	return a.Op(vm.JUMPDEST)
}

// PushLabel pushes the (later resolved) position of a label with PUSH2.
func (a *Asm) PushLabel(name string) *Asm {
	a.b = append(a.b, byte(vm.PUSH2))
	a.fixups[len(a.b)] = name
	a.b = append(a.b, 0, 0)
	return a
}

func (a *Asm) Jump(name string) *Asm  { return a.PushLabel(name).Op(vm.JUMP) }
func (a *Asm) Jumpi(name string) *Asm { return a.PushLabel(name).Op(vm.JUMPI) }

// Len is the current code size.
func (a *Asm) Len() int { return len(a.b) }

// Bytes resolves the labels and returns the code.
func (a *Asm) Bytes() []byte {
	out := append([]byte(nil), a.b...)
	for pos, name := range a.fixups {
		t, ok := a.labels[name]
		if !ok {
			panic("evmkit: undefined label " + name)
		}
		out[pos] = byte(t >> 8)
		out[pos+1] = byte(t)
	}
	return out
}

// Initcode returns creation code that deploys `runtime` (CODECOPY + RETURN), preceded by
// the optional constructor prefix (which must leave the stack empty and not terminate).
func Initcode(prefix, runtime []byte) []byte {
	a := NewAsm()
	a.Raw(prefix...)
	// PUSH2 len, PUSH2 off, PUSH1 0, CODECOPY, PUSH2 len, PUSH1 0, RETURN
	head := len(prefix) + 3 + 3 + 2 + 1 + 3 + 2 + 1
	a.PushBytes([]byte{byte(len(runtime) >> 8), byte(len(runtime))})
	a.PushBytes([]byte{byte(head >> 8), byte(head)})
	a.Push(0).Op(vm.CODECOPY)
	a.PushBytes([]byte{byte(len(runtime) >> 8), byte(len(runtime))})
	a.Push(0).Op(vm.RETURN)
	if a.Len() != head {
		panic("evmkit: initcode header size")
	}
	a.Raw(runtime...)
	return a.Bytes()
}
