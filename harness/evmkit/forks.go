// Package evmkit is the shared plumbing of the EVM-family drivers c27/c29/c32: the list of
// rule sets (Frontier .. latest), a tiny assembler, seeded bytecode generators and the
// tracing.Hooks -> ndjson event recorder.
package evmkit

import (
	"math/big"

	"github.com/ethereum/go-ethereum/params"
)

// Fork is one rule set.  Idx is the index used by spec/evm/EVMMeta.tla (Frontier = 0).
type Fork struct {
	Name   string
	Idx    int
	Config *params.ChainConfig
	Merge  bool // rule set is post-merge (block context carries a Random value, difficulty 0)
}

// Indexes of the rule sets; must agree with the fork constants in EVMMeta.tla.
const (
	Frontier = iota
	Homestead
	Tangerine
	Spurious
	Byzantium
	Constantinople
	Petersburg
	Istanbul
	Berlin
	London
	Paris
	Shanghai
	Cancun
	Prague
	Osaka
	Amsterdam
	Bogota
	NumForks
)

var forkNames = []string{"Frontier", "Homestead", "TangerineWhistle", "SpuriousDragon", "Byzantium", "Constantinople",
	"Petersburg", "Istanbul", "Berlin", "London", "Paris", "Shanghai", "Cancun", "Prague", "Osaka", "Amsterdam", "Bogota"}

func u64(v uint64) *uint64 { return &v }

// Forks returns every rule set from Frontier to the newest one the code base knows.
// All forks of a rule set are active from block 0 / time 0, later ones are nil.
func Forks() []Fork {
	out := make([]Fork, 0, NumForks)
	for i := 0; i < NumForks; i++ {
		out = append(out, Fork{Name: forkNames[i], Idx: i, Config: configFor(i), Merge: i >= Paris})
	}
	return out
}

func configFor(i int) *params.ChainConfig {
	z := func() *big.Int { return new(big.Int) }
	c := &params.ChainConfig{ChainID: big.NewInt(1), Ethash: new(params.EthashConfig)}
	if i >= Homestead {
		c.HomesteadBlock = z()
	}
	if i >= Tangerine {
		c.EIP150Block = z()
	}
	if i >= Spurious {
		c.EIP155Block = z()
		c.EIP158Block = z()
	}
	if i >= Byzantium {
		c.ByzantiumBlock = z()
	}
	if i >= Constantinople {
		c.ConstantinopleBlock = z()
	}
	if i >= Petersburg {
		c.PetersburgBlock = z()
	}
	if i >= Istanbul {
		c.IstanbulBlock = z()
		c.MuirGlacierBlock = z()
	}
	if i >= Berlin {
		c.BerlinBlock = z()
	}
	if i >= London {
		c.LondonBlock = z()
		c.ArrowGlacierBlock = z()
		c.GrayGlacierBlock = z()
	}
	if i >= Paris {
		c.TerminalTotalDifficulty = z()
		c.MergeNetsplitBlock = z()
	}
	if i >= Shanghai {
		c.ShanghaiTime = u64(0)
	}
	if i >= Cancun {
		c.CancunTime = u64(0)
	}
	if i >= Prague {
		c.PragueTime = u64(0)
	}
	if i >= Osaka {
		c.OsakaTime = u64(0)
	}
	if i >= Amsterdam {
		c.AmsterdamTime = u64(0)
	}
	if i >= Bogota {
		c.BogotaTime = u64(0)
	}
	if i >= Cancun {
		c.BlobScheduleConfig = &params.BlobScheduleConfig{
			Cancun: params.DefaultCancunBlobConfig,
		}
		if i >= Prague {
			c.BlobScheduleConfig.Prague = params.DefaultPragueBlobConfig
		}
	}
	return c
}
