// Package triekit is the shared binding layer of the trie family drivers (C06-C09, and
// usable by C11/C12): it maps the abstract keys / values / node trees of spec/trie/MPT.tla
// to real bytes, and contains a reference node encoder written from the Yellow Paper
// (appendix B: RLP, appendix C: hex-prefix, appendix D: trie node composition) that is
// independent of package trie.
package triekit

import (
	"bytes"
	"fmt"
	"sort"

	"github.com/ethereum/go-ethereum/common"
	"github.com/ethereum/go-ethereum/crypto"
	"github.com/ethereum/go-ethereum/triedb/database"
)

// ---------------------------------------------------------------- keys and values

// KeyBytes maps a model key (nibbles) to the real key: the nibbles followed by pad zero
// nibbles, packed two per byte (len(nibs)+pad must be even).
func KeyBytes(nibs []int, pad int) []byte {
	n := len(nibs) + pad
	if n%2 != 0 {
		panic("triekit: odd nibble count")
	}
	out := make([]byte, n/2)
	for i, x := range nibs {
		if i%2 == 0 {
			out[i/2] |= byte(x) << 4
		} else {
			out[i/2] |= byte(x)
		}
	}
	return out
}

// KeyNibs is the inverse of KeyBytes (drops the pad).
func KeyNibs(key []byte, pad int) []int {
	out := make([]int, 0, 2*len(key))
	for _, b := range key {
		out = append(out, int(b>>4), int(b&15))
	}
	return out[:len(out)-pad]
}

// ValBytes maps a value id of the model to real bytes: id/10 bytes, each equal to
// 0x05 (tag 0) or 0x80+tag; id 0 is the empty value (deletion).
func ValBytes(id int) []byte {
	if id == 0 {
		return nil
	}
	size, tag := id/10, id%10
	b := byte(0x80 + tag)
	if tag == 0 {
		b = 0x05
	}
	return bytes.Repeat([]byte{b}, size)
}

// ValID is the inverse of ValBytes; -1 if the bytes are not a model value.
func ValID(v []byte) int {
	if len(v) == 0 {
		return 0
	}
	tag := 0
	if v[0] != 0x05 {
		tag = int(v[0]) - 0x80
	}
	if tag < 0 || tag > 9 || !bytes.Equal(v, ValBytes(len(v)*10+tag)) {
		return -1
	}
	return len(v)*10 + tag
}

// KV is one entry of the model's key-value list (ascending key order).
type KV struct {
	K []int `json:"k"`
	V int   `json:"v"`
}

// ---------------------------------------------------------------- model trees

// SNode is the JSON form of a model node (MCTrie!TreeJ).
type SNode struct {
	T     string   `json:"t"` // nil | leaf | ext | br
	Path  []int    `json:"path,omitempty"`
	Val   int      `json:"val,omitempty"`
	Size  int      `json:"size,omitempty"` // RlpSize predicted by the specification
	Child *SNode   `json:"child,omitempty"`
	Ch    []SChild `json:"ch,omitempty"`
}

type SChild struct {
	I int    `json:"i"`
	N *SNode `json:"n"`
}

// ---------------------------------------------------------------- reference encoding

func rlpString(b []byte) []byte {
	if len(b) == 1 && b[0] < 0x80 {
		return []byte{b[0]}
	}
	return append(rlpHeader(0x80, len(b)), b...)
}

func rlpHeader(base byte, n int) []byte {
	if n < 56 {
		return []byte{base + byte(n)}
	}
	var be []byte
	for x := n; x > 0; x >>= 8 {
		be = append([]byte{byte(x)}, be...)
	}
	return append([]byte{base + 55 + byte(len(be))}, be...)
}

func rlpList(items ...[]byte) []byte {
	var payload []byte
	for _, it := range items {
		payload = append(payload, it...)
	}
	return append(rlpHeader(0xc0, len(payload)), payload...)
}

// HexPrefix is the hex-prefix encoding HP(nibbles, t) of Yellow Paper appendix C.
func HexPrefix(nibs []int, term bool) []byte {
	f := 0
	if term {
		f = 2
	}
	var out []byte
	if len(nibs)%2 == 1 {
		out = append(out, byte(16*(f+1)+nibs[0]))
		nibs = nibs[1:]
	} else {
		out = append(out, byte(16*f))
	}
	for i := 0; i < len(nibs); i += 2 {
		out = append(out, byte(16*nibs[i]+nibs[i+1]))
	}
	return out
}

// RefNode is one node of the reference walk.
type RefNode struct {
	Path   []byte // nibbles from the root
	Kind   string // leaf | ext | br
	Blob   []byte // reference RLP encoding
	Hash   common.Hash
	Stored bool // root, or len(Blob) >= 32
	Spec   *SNode
}

// Ref is the reference encoder for one trie: Pad zero nibbles are appended to leaf paths.
type Ref struct {
	Pad   int
	Nodes []RefNode // pre-order
	// SizeMismatch lists nodes whose reference encoding size differs from the size the
	// specification predicted (binding check of MPT!RlpSize).
	SizeMismatch []string
}

// Encode returns the reference RLP blob of n (sitting at path) and records all nodes.
func (r *Ref) encode(n *SNode, path []byte) []byte {
	idx := len(r.Nodes)
	r.Nodes = append(r.Nodes, RefNode{Path: append([]byte{}, path...), Kind: n.T, Spec: n})
	var blob []byte
	switch n.T {
	case "leaf":
		nibs := append(append([]int{}, n.Path...), make([]int, r.Pad)...)
		blob = rlpList(rlpString(HexPrefix(nibs, true)), rlpString(ValBytes(n.Val)))
	case "ext":
		cp := append([]byte{}, path...)
		for _, x := range n.Path {
			cp = append(cp, byte(x))
		}
		blob = rlpList(rlpString(HexPrefix(n.Path, false)), r.ref(n.Child, cp))
	case "br":
		items := make([][]byte, 17)
		for i := range items {
			items[i] = []byte{0x80}
		}
		for _, c := range n.Ch {
			items[c.I] = r.ref(c.N, append(append([]byte{}, path...), byte(c.I)))
		}
		blob = rlpList(items...)
	default:
		panic("triekit: cannot encode node type " + n.T)
	}
	r.Nodes[idx].Blob = blob
	r.Nodes[idx].Hash = crypto.Keccak256Hash(blob)
	r.Nodes[idx].Stored = len(path) == 0 || len(blob) >= 32
	if n.Size != 0 && n.Size != len(blob) {
		r.SizeMismatch = append(r.SizeMismatch, fmt.Sprintf("path %x kind %s: spec RlpSize %d, reference encoding %d bytes", path, n.T, n.Size, len(blob)))
	}
	return blob
}

// ref is the reference of a child inside its parent: the blob itself if shorter than
// 32 bytes, else the RLP string of its Keccak-256 hash.
func (r *Ref) ref(n *SNode, path []byte) []byte {
	blob := r.encode(n, path)
	if len(blob) < 32 {
		return blob
	}
	return rlpString(crypto.Keccak256(blob))
}

// EmptyRoot is Keccak256(RLP("")).
var EmptyRoot = crypto.Keccak256Hash([]byte{0x80})

// NewRef walks the model tree and encodes every node. Root is the reference root hash.
func NewRef(tree *SNode, pad int) (*Ref, common.Hash) {
	r := &Ref{Pad: pad}
	if tree == nil || tree.T == "nil" {
		return r, EmptyRoot
	}
	blob := r.encode(tree, nil)
	return r, crypto.Keccak256Hash(blob)
}

// StoredByPath returns the stored nodes keyed by path.
func (r *Ref) StoredByPath() map[string]RefNode {
	m := map[string]RefNode{}
	for _, n := range r.Nodes {
		if n.Stored {
			m[string(n.Path)] = n
		}
	}
	return m
}

// ---------------------------------------------------------------- path-keyed node store

// PathStore is a minimal path-scheme node store: path -> blob, with the hash checked on
// every read. It implements database.NodeDatabase for one trie (owner ignored).
// Reads are safe for concurrent use as long as nobody writes (UpdateBatch workers resolve
// nodes concurrently); writes happen only between trie operations.
type PathStore struct {
	Nodes map[string][]byte
}

func NewPathStore() *PathStore { return &PathStore{Nodes: map[string][]byte{}} }

func (s *PathStore) NodeReader(root common.Hash) (database.NodeReader, error) { return s, nil }

func (s *PathStore) Node(owner common.Hash, path []byte, hash common.Hash) ([]byte, error) {
	blob := s.Nodes[string(path)]
	if len(blob) == 0 {
		return nil, nil
	}
	if crypto.Keccak256Hash(blob) != hash {
		return nil, fmt.Errorf("pathstore: node at %x has hash %x, want %x", path, crypto.Keccak256Hash(blob), hash)
	}
	return blob, nil
}

func (s *PathStore) Copy() *PathStore {
	c := NewPathStore()
	for k, v := range s.Nodes {
		c.Nodes[k] = v
	}
	return c
}

func (s *PathStore) Paths() []string {
	out := make([]string, 0, len(s.Nodes))
	for k := range s.Nodes {
		out = append(out, k)
	}
	sort.Strings(out)
	return out
}

// HashStore is a minimal hash-scheme node store: hash -> blob (never deletes).
type HashStore struct {
	Nodes map[common.Hash][]byte
}

func NewHashStore() *HashStore { return &HashStore{Nodes: map[common.Hash][]byte{}} }

func (s *HashStore) NodeReader(root common.Hash) (database.NodeReader, error) { return s, nil }

func (s *HashStore) Node(owner common.Hash, path []byte, hash common.Hash) ([]byte, error) {
	return s.Nodes[hash], nil
}
