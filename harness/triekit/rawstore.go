package triekit

import (
	"github.com/ethereum/go-ethereum/common"
	"github.com/ethereum/go-ethereum/core/rawdb"
	"github.com/ethereum/go-ethereum/ethdb"
	"github.com/ethereum/go-ethereum/trie/trienode"
	"github.com/ethereum/go-ethereum/triedb/database"
)

// RawStore is a trie node store on a raw key-value database using go-ethereum's own key
// schema (rawdb.WriteTrieNode / DeleteTrieNode / ReadTrieNode), for one account trie.
type RawStore struct {
	DB     ethdb.Database
	Scheme string // rawdb.PathScheme or rawdb.HashScheme
}

func NewRawStore(scheme string) *RawStore {
	return &RawStore{DB: rawdb.NewMemoryDatabase(), Scheme: scheme}
}

func (s *RawStore) NodeReader(root common.Hash) (database.NodeReader, error) { return s, nil }

func (s *RawStore) Node(owner common.Hash, path []byte, hash common.Hash) ([]byte, error) {
	return rawdb.ReadTrieNode(s.DB, owner, path, hash, s.Scheme), nil
}

// Apply writes a commit's node set the way a path / hash scheme owner does: bottom-up,
// deletions honoured under the path scheme only.
func (s *RawStore) Apply(set *trienode.NodeSet) {
	if set == nil {
		return
	}
	set.ForEachWithOrder(func(path string, n *trienode.Node) {
		if n.IsDeleted() {
			if s.Scheme == rawdb.PathScheme {
				rawdb.DeleteTrieNode(s.DB, set.Owner, []byte(path), n.Hash, s.Scheme)
			}
			return
		}
		rawdb.WriteTrieNode(s.DB, set.Owner, []byte(path), n.Hash, n.Blob, s.Scheme)
	})
}

// Listing returns the account trie node key space of a path-scheme store: path -> blob.
// The database holds nothing but this trie, so every key under the account-trie-node prefix
// is a node (rawdb.ResolveAccountTrieNodeKey is not used: it rejects 64-nibble paths, which a
// trie over 32-byte keys produces when two keys differ in their last nibble only).
func (s *RawStore) Listing() map[string][]byte {
	out := map[string][]byte{}
	it := s.DB.NewIterator(rawdb.TrieNodeAccountPrefix, nil)
	defer it.Release()
	for it.Next() {
		out[string(it.Key()[len(rawdb.TrieNodeAccountPrefix):])] = common.CopyBytes(it.Value())
	}
	return out
}

// Get returns the blob stored at path ("" if none) of a path-scheme store.
func (s *RawStore) Get(path []byte) []byte { return rawdb.ReadAccountTrieNode(s.DB, path) }
