package statekit

import (
	"bytes"
	"fmt"

	"github.com/ethereum/go-ethereum/common"
	"github.com/ethereum/go-ethereum/core/state"
	"github.com/ethereum/go-ethereum/core/tracing"
	"github.com/ethereum/go-ethereum/core/types"
	"github.com/ethereum/go-ethereum/crypto"
	"github.com/ethereum/go-ethereum/rlp"
	"github.com/holiman/uint256"
)

// Clone returns a machine around StateDB.Copy().  The snapshot ids of the original are not
// valid on the copy (statedb.go), everything else is.
func (m *Machine) Clone() *Machine {
	c := *m
	c.SDB = m.SDB.Copy()
	c.SnapIDs = nil
	c.LastBAL = nil
	return &c
}

// Release stops background work of a machine that is going to be dropped.
func (m *Machine) Release() {
	if m.SDB != nil {
		m.SDB.StopPrefetcher()
	}
}

// Reopen replaces the StateDB by state.New(root, db) for the next block.
func (m *Machine) Reopen(root common.Hash, prefetch bool) error {
	sdb, err := m.Env.Open(root)
	if err != nil {
		return err
	}
	m.SDB = sdb
	if m.Counter != nil {
		m.Sentinel = sdb.GetNonce(SentinelAddr)
	}
	m.Tx, m.InTx, m.SnapIDs, m.LastBAL, m.LastRoot = 0, false, nil, nil, root
	if prefetch {
		sdb.StartPrefetcher("c14", nil)
	}
	return nil
}

// Commit commits the machine's StateDB the way the block processor does and reopens the
// state at the new root.  problems: IntermediateRoot of a copy taken just before differs
// from the committed root, commit error, reopen error.
func (m *Machine) Commit(prefetch bool) (common.Hash, []string) {
	var problems []string
	if m.Counter != nil {
		// the "sender nonce" of this block: makes the post-state root unique, as in a real chain
		*m.Counter++
		m.Sentinel = *m.Counter
		m.SDB.SetNonce(SentinelAddr, m.Sentinel, tracing.NonceChangeUnspecified)
	}
	pre := m.SDB.Copy()
	iroot := pre.IntermediateRoot(m.R)
	root, err := m.SDB.Commit(m.R, uint64(m.Blk))
	if err != nil {
		return common.Hash{}, []string{fmt.Sprintf("Commit failed: %v", err)}
	}
	if root != iroot {
		problems = append(problems, fmt.Sprintf("Commit returned %x, IntermediateRoot of a copy taken just before %x", root, iroot))
	}
	m.Blk++
	if err := m.Reopen(root, prefetch); err != nil {
		problems = append(problems, fmt.Sprintf("state.New at the committed root %x: %v", root, err))
	}
	return root, problems
}

func stBytes(v int64) []byte { return common.TrimLeftZeroes(Val(v).Bytes()) }

// VerifyReaders reads the state at root through every reader the environment offers,
// bypassing StateDB: the account trie and storage tries, the flat reader of the path
// database or the snapshot tree, the code database and the state iterators.  Every read must
// return exactly the model world w.
func (u *Universe) VerifyReaders(env *Env, root common.Hash, w World, sentinel uint64) []string {
	var problems []string
	bad := func(f string, a ...any) { problems = append(problems, fmt.Sprintf(f, a...)) }
	if want := u.RefRootS(w, sentinel); root != want {
		bad("root %x is not the reference root %x of the world", root, want)
	}
	codes := state.NewCodeDB(env.Disk).Reader()
	checkAcct := func(via string, a int, nonce uint64, bal *uint256.Int, sroot common.Hash, codeHash []byte) {
		ac := w[a-1]
		if nonce != uint64(ac.Nonce) || bal == nil || !bal.IsUint64() || bal.Uint64() != uint64(ac.Bal) {
			bad("%s: a%d reads nonce=%d balance=%v, committed nonce=%d balance=%d", via, a, nonce, bal, ac.Nonce, ac.Bal)
		}
		if want := u.StorageRoot(ac.St); sroot != want {
			bad("%s: a%d storage root %x, committed storage has root %x", via, a, sroot, want)
		}
		if want := crypto.Keccak256(Code(ac.Code)); !bytes.Equal(codeHash, want) {
			bad("%s: a%d code hash %x, committed code has hash %x", via, a, codeHash, want)
		}
	}
	// (1) tries
	tr, err := env.DB.OpenTrie(root)
	if err != nil {
		bad("OpenTrie(%x): %v", root, err)
	} else {
		for a := 1; a <= u.NA; a++ {
			addr := u.Addr(a)
			acct, err := tr.GetAccount(addr)
			if err != nil {
				bad("trie: GetAccount(a%d): %v", a, err)
				continue
			}
			if (acct != nil) != w[a-1].Ex {
				bad("trie: a%d present=%v, committed present=%v", a, acct != nil, w[a-1].Ex)
				continue
			}
			if acct == nil {
				continue
			}
			checkAcct("trie", a, acct.Nonce, acct.Balance, acct.Root, acct.CodeHash)
			st, err := env.DB.OpenStorageTrie(root, addr, acct.Root, tr)
			if err != nil {
				bad("trie: OpenStorageTrie(a%d): %v", a, err)
				continue
			}
			for k := 1; k <= u.NS; k++ {
				val, err := st.GetStorage(addr, u.Slot(k).Bytes())
				if err != nil || !bytes.Equal(val, stBytes(w[a-1].St[k-1])) {
					bad("trie: a%d/s%d reads %x (err %v), committed %d", a, k, val, err, w[a-1].St[k-1])
				}
			}
			if w[a-1].Code != 0 {
				if code := codes.Code(addr, common.BytesToHash(acct.CodeHash)); !bytes.Equal(code, Code(w[a-1].Code)) {
					bad("code db: a%d code %x, committed %x", a, code, Code(w[a-1].Code))
				}
			}
		}
	}
	// (2) flat state
	type flat interface {
		Account(hash common.Hash) (*types.SlimAccount, error)
		Storage(accountHash, storageHash common.Hash) ([]byte, error)
	}
	var (
		fr   flat
		name string
	)
	if env.Scheme == "path" {
		r, err := env.TDB.StateReader(root)
		if err != nil {
			bad("pathdb StateReader(%x): %v", root, err)
		} else {
			fr, name = r, "pathdb flat reader"
		}
	} else if env.Snaps != nil {
		if s := env.Snaps.Snapshot(root); s == nil {
			bad("snapshot tree has no layer for the committed root %x", root)
		} else {
			fr, name = s, "snapshot tree"
		}
	}
	if fr != nil {
		for a := 1; a <= u.NA; a++ {
			ah := crypto.Keccak256Hash(u.Addr(a).Bytes())
			acct, err := fr.Account(ah)
			if err != nil {
				bad("%s: Account(a%d): %v", name, a, err)
				continue
			}
			if (acct != nil) != w[a-1].Ex {
				bad("%s: a%d present=%v, committed present=%v", name, a, acct != nil, w[a-1].Ex)
				continue
			}
			if acct != nil {
				sroot, ch := types.EmptyRootHash, types.EmptyCodeHash.Bytes()
				if len(acct.Root) != 0 {
					sroot = common.BytesToHash(acct.Root)
				}
				if len(acct.CodeHash) != 0 {
					ch = acct.CodeHash
				}
				checkAcct(name, a, acct.Nonce, acct.Balance, sroot, ch)
			}
			for k := 1; k <= u.NS; k++ {
				blob, err := fr.Storage(ah, crypto.Keccak256Hash(u.Slot(k).Bytes()))
				var content []byte
				if err == nil && len(blob) > 0 {
					_, content, _, err = rlp.Split(blob)
				}
				want := int64(0)
				if w[a-1].Ex {
					want = w[a-1].St[k-1]
				}
				if err != nil || !bytes.Equal(content, stBytes(want)) {
					bad("%s: a%d/s%d reads %x (err %v), committed %d", name, a, k, content, err, want)
				}
			}
		}
	}
	// (3) iterators enumerate exactly the committed accounts and slots
	if it, err := env.DB.Iteratee(root); err != nil {
		bad("Iteratee(%x): %v", root, err)
	} else {
		want := map[common.Hash]int{}
		if sentinel != 0 {
			want[crypto.Keccak256Hash(SentinelAddr.Bytes())] = 0
		}
		for a := 1; a <= u.NA; a++ {
			if w[a-1].Ex {
				want[crypto.Keccak256Hash(u.Addr(a).Bytes())] = a
			}
		}
		ai, err := it.NewAccountIterator(common.Hash{})
		if err != nil {
			bad("NewAccountIterator: %v", err)
		} else {
			seen := 0
			for ai.Next() {
				if _, ok := want[ai.Hash()]; !ok {
					bad("account iterator yields an account %x that was not committed", ai.Hash())
				}
				seen++
			}
			if err := ai.Error(); err != nil {
				bad("account iterator: %v", err)
			}
			ai.Release()
			if seen != len(want) {
				bad("account iterator yields %d accounts, %d were committed", seen, len(want))
			}
		}
		for ah, a := range want {
			if a == 0 {
				continue
			}
			si, err := it.NewStorageIterator(ah, common.Hash{})
			if err != nil {
				bad("NewStorageIterator(a%d): %v", a, err)
				continue
			}
			slots := map[common.Hash]int64{}
			for k := 1; k <= u.NS; k++ {
				if v := w[a-1].St[k-1]; v != 0 {
					slots[crypto.Keccak256Hash(u.Slot(k).Bytes())] = v
				}
			}
			seen := 0
			for si.Next() {
				v, ok := slots[si.Hash()]
				if !ok || si.Slot() != Val(v) {
					bad("storage iterator of a%d yields %x=%x, committed %d (present %v)", a, si.Hash(), si.Slot(), v, ok)
				}
				seen++
			}
			if err := si.Error(); err != nil {
				bad("storage iterator of a%d: %v", a, err)
			}
			si.Release()
			if seen != len(slots) {
				bad("storage iterator of a%d yields %d slots, %d were committed", a, seen, len(slots))
			}
		}
	}
	return problems
}
