package statekit

import (
	"bytes"
	"encoding/json"
	"fmt"
	"sort"

	"github.com/ethereum/go-ethereum/common"
	"github.com/ethereum/go-ethereum/core/state"
	"github.com/ethereum/go-ethereum/core/types/bal"
	"github.com/ethereum/go-ethereum/crypto"
	"github.com/ethereum/go-ethereum/rlp"
	"github.com/holiman/uint256"
)

// None is BAL.tla's "no change recorded".
const None = -1

// BalAcc mirrors ExpectedAccount(S, a): the per-transaction list of one account.
type BalAcc struct {
	In    bool    `json:"in"`
	Bal   int64   `json:"bal"`
	Nonce int64   `json:"nonce"`
	Code  int64   `json:"code"`
	Wr    []int64 `json:"wr"`
	Rd    []bool  `json:"rd"`
}

func (u *Universe) addrIndex() map[common.Address]int {
	m := map[common.Address]int{}
	for a := 1; a <= u.NA; a++ {
		m[u.Addr(a)] = a
	}
	return m
}

func (u *Universe) slotIndex() map[common.Hash]int {
	m := map[common.Hash]int{}
	for k := 1; k <= u.NS; k++ {
		m[u.Slot(k)] = k
	}
	return m
}

func smallU256(x *uint256.Int) (int64, bool) {
	if x == nil || !x.IsUint64() || x.Uint64() >= 1<<31 {
		return -1, false
	}
	return int64(x.Uint64()), true
}

// ProjectTxBAL projects the list returned by Finalise for the transaction with block access
// index idx.  problems: entries that have no place in the model (foreign addresses, slots,
// indexes) - each one is a divergence.
func (u *Universe) ProjectTxBAL(l *bal.ConstructionBlockAccessList, idx uint32) ([]BalAcc, []string) {
	var problems []string
	bad := func(f string, a ...any) { problems = append(problems, fmt.Sprintf(f, a...)) }
	out := make([]BalAcc, u.NA)
	for i := range out {
		out[i] = BalAcc{Bal: None, Nonce: None, Code: None, Wr: make([]int64, u.NS), Rd: make([]bool, u.NS)}
		for k := range out[i].Wr {
			out[i].Wr[k] = None
		}
	}
	if l == nil {
		bad("Finalise returned no access list")
		return out, problems
	}
	ai, si := u.addrIndex(), u.slotIndex()
	for addr, acc := range l.Accounts {
		a, ok := ai[addr]
		if !ok {
			bad("access list contains foreign address %x", addr)
			continue
		}
		o := &out[a-1]
		o.In = true
		for i, v := range acc.BalanceChanges {
			if i != idx {
				bad("a%d: balance change at index %d, transaction has index %d", a, i, idx)
				continue
			}
			if o.Bal, ok = smallU256(v); !ok {
				bad("a%d: balance change out of range %v", a, v)
			}
		}
		for i, v := range acc.NonceChanges {
			if i != idx {
				bad("a%d: nonce change at index %d, transaction has index %d", a, i, idx)
				continue
			}
			o.Nonce = int64(v)
		}
		for i, c := range acc.CodeChange {
			if i != idx {
				bad("a%d: code change at index %d, transaction has index %d", a, i, idx)
				continue
			}
			id := CodeID(c)
			if id < 0 {
				bad("a%d: code change to foreign code %x", a, c)
			}
			o.Code = int64(id)
		}
		for slot, writes := range acc.StorageWrites {
			k, ok := si[slot]
			if !ok {
				bad("a%d: write to foreign slot %x", a, slot)
				continue
			}
			if len(writes) == 0 {
				bad("a%d/s%d: empty write entry", a, k)
			}
			for i, v := range writes {
				if i != idx {
					bad("a%d/s%d: write at index %d, transaction has index %d", a, k, i, idx)
					continue
				}
				if o.Wr[k-1], ok = ValOf(v); !ok {
					bad("a%d/s%d: written value out of range %x", a, k, v)
				}
			}
		}
		for slot := range acc.StorageReads {
			k, ok := si[slot]
			if !ok {
				bad("a%d: read of foreign slot %x", a, slot)
				continue
			}
			o.Rd[k-1] = true
		}
	}
	return out, problems
}

// Pair is <<block access index, value>>.
type Pair [2]int64

// BlkAcc mirrors one account of the projected encoding object (EncodingMatches in BAL.tla).
type BlkAcc struct {
	In    bool     `json:"in"`
	Bal   []Pair   `json:"bal"`
	Nonce []Pair   `json:"nonce"`
	Code  []Pair   `json:"code"`
	Wr    [][]Pair `json:"wr"`
	Rd    []bool   `json:"rd"`
}

// ProjectBlockBAL projects the encoding object of a block-level list, keeping the order of
// the real lists (the specification checks that they are strictly increasing by index).
// order problems of addresses / slots (which the projection cannot keep) are reported.
func (u *Universe) ProjectBlockBAL(enc *bal.BlockAccessList) ([]BlkAcc, []string) {
	var problems []string
	bad := func(f string, a ...any) { problems = append(problems, fmt.Sprintf(f, a...)) }
	out := make([]BlkAcc, u.NA)
	for i := range out {
		out[i] = BlkAcc{Bal: []Pair{}, Nonce: []Pair{}, Code: []Pair{}, Wr: make([][]Pair, u.NS), Rd: make([]bool, u.NS)}
		for k := range out[i].Wr {
			out[i].Wr[k] = []Pair{}
		}
	}
	ai := u.addrIndex()
	var prev *common.Address
	for i := range *enc {
		acc := &(*enc)[i]
		if prev != nil && bytes.Compare(prev[:], acc.Address[:]) >= 0 {
			bad("accounts not strictly increasing at %x", acc.Address)
		}
		p := acc.Address
		prev = &p
		a, ok := ai[acc.Address]
		if !ok {
			bad("block list contains foreign address %x", acc.Address)
			continue
		}
		o := &out[a-1]
		if o.In {
			bad("a%d appears twice", a)
		}
		o.In = true
		for _, c := range acc.BalanceChanges {
			v, ok := smallU256(c.PostBalance)
			if !ok {
				bad("a%d: balance out of range", a)
			}
			o.Bal = append(o.Bal, Pair{int64(c.BlockAccessIndex), v})
		}
		for _, c := range acc.NonceChanges {
			o.Nonce = append(o.Nonce, Pair{int64(c.BlockAccessIndex), int64(c.PostNonce)})
		}
		for _, c := range acc.CodeChanges {
			id := CodeID(c.NewCode)
			if id < 0 {
				bad("a%d: foreign code %x", a, c.NewCode)
			}
			o.Code = append(o.Code, Pair{int64(c.BlockAccessIndex), int64(id)})
		}
		var prevSlot *uint256.Int
		for _, sc := range acc.StorageChanges {
			if prevSlot != nil && prevSlot.Cmp(sc.Slot) >= 0 {
				bad("a%d: written slots not strictly increasing", a)
			}
			prevSlot = sc.Slot
			k, ok := smallU256(sc.Slot)
			if !ok || k < 1 || int(k) > u.NS {
				bad("a%d: foreign written slot %v", a, sc.Slot)
				continue
			}
			if len(sc.SlotChanges) == 0 {
				bad("a%d/s%d: slot change entry without changes", a, k)
			}
			if len(o.Wr[k-1]) != 0 {
				bad("a%d/s%d appears twice in the storage changes", a, k)
			}
			for _, w := range sc.SlotChanges {
				v, ok := smallU256(w.PostValue)
				if !ok {
					bad("a%d/s%d: value out of range", a, k)
				}
				o.Wr[k-1] = append(o.Wr[k-1], Pair{int64(w.BlockAccessIndex), v})
			}
		}
		prevSlot = nil
		for _, rs := range acc.StorageReads {
			if prevSlot != nil && prevSlot.Cmp(rs) >= 0 {
				bad("a%d: read slots not strictly increasing", a)
			}
			prevSlot = rs
			k, ok := smallU256(rs)
			if !ok || k < 1 || int(k) > u.NS {
				bad("a%d: foreign read slot %v", a, rs)
				continue
			}
			o.Rd[k-1] = true
		}
	}
	return out, problems
}

// CheckEncoding exercises the encoded form of a block-level list built by the real code:
// it must validate, survive an RLP round trip byte for byte, hash to the keccak of its
// encoding independently of how the construction list was assembled, and simple corruptions
// (swapped neighbours, duplicated entries) must be rejected by Validate.
func CheckEncoding(l *bal.ConstructionBlockAccessList, txCount int) []string {
	var problems []string
	bad := func(f string, a ...any) { problems = append(problems, fmt.Sprintf(f, a...)) }
	const gasLimit = 1 << 40
	enc := l.ToEncodingObj()
	if err := enc.Validate(gasLimit, txCount); err != nil {
		bad("Validate rejects the list built by the StateDB: %v", err)
	}
	blob, err := rlp.EncodeToBytes(enc)
	if err != nil {
		bad("EncodeRLP: %v", err)
		return problems
	}
	var dec bal.BlockAccessList
	if err := rlp.DecodeBytes(blob, &dec); err != nil {
		bad("DecodeRLP of the encoded list: %v", err)
		return problems
	}
	blob2, err := rlp.EncodeToBytes(&dec)
	if err != nil || !bytes.Equal(blob, blob2) {
		bad("RLP round trip changes the encoding (err=%v)", err)
	}
	// (an empty list decodes to a nil slice: normalise before comparing the JSON renderings)
	j1, _ := json.Marshal(enc)
	j2, _ := json.Marshal(&dec)
	j1 = bytes.ReplaceAll(j1, []byte(":null"), []byte(":[]"))
	j2 = bytes.ReplaceAll(j2, []byte(":null"), []byte(":[]"))
	if !bytes.Equal(j1, j2) {
		bad("decoded list differs from the encoded one:\n %s\n %s", j1, j2)
	}
	if err := dec.Validate(gasLimit, txCount); err != nil {
		bad("Validate rejects the decoded list: %v", err)
	}
	h := enc.Hash()
	if h != crypto.Keccak256Hash(blob) {
		bad("Hash() is not the keccak of the RLP encoding")
	}
	if h2 := dec.Hash(); h2 != h {
		bad("hash of the decoded list differs")
	}
	if h3 := l.Copy().ToEncodingObj().Hash(); h3 != h {
		bad("hash of a copy of the list differs")
	}
	var viaConstruction bytes.Buffer
	if err := l.EncodeRLP(&viaConstruction); err != nil || !bytes.Equal(viaConstruction.Bytes(), blob) {
		bad("ConstructionBlockAccessList.EncodeRLP differs from the encoding object's (err=%v)", err)
	}
	// the size rule: accepted iff items <= gasLimit / BALItemCost
	items := uint64(len(*enc))
	for i := range *enc {
		items += uint64(len((*enc)[i].StorageChanges) + len((*enc)[i].StorageReads))
	}
	if items > 0 {
		if err := enc.ValidateSize(items * 2000); err != nil {
			bad("ValidateSize rejects %d items at the exact limit: %v", items, err)
		}
		if err := enc.ValidateSize(items*2000 - 1); err == nil {
			bad("ValidateSize accepts %d items below the limit", items)
		}
	}
	// index bound: the largest index used must be accepted, one less rejected
	maxIdx := -1
	for i := range *enc {
		ac := &(*enc)[i]
		for _, c := range ac.BalanceChanges {
			maxIdx = max(maxIdx, int(c.BlockAccessIndex))
		}
		for _, c := range ac.NonceChanges {
			maxIdx = max(maxIdx, int(c.BlockAccessIndex))
		}
		for _, c := range ac.CodeChanges {
			maxIdx = max(maxIdx, int(c.BlockAccessIndex))
		}
		for _, sc := range ac.StorageChanges {
			for _, w := range sc.SlotChanges {
				maxIdx = max(maxIdx, int(w.BlockAccessIndex))
			}
		}
	}
	if maxIdx >= 1 {
		if err := enc.Validate(gasLimit, maxIdx-1); err != nil {
			bad("Validate rejects index %d with %d transactions: %v", maxIdx, maxIdx-1, err)
		}
		if maxIdx >= 2 {
			if err := enc.Validate(gasLimit, maxIdx-2); err == nil {
				bad("Validate accepts index %d with %d transactions", maxIdx, maxIdx-2)
			}
		}
	}
	// corruptions
	corrupt := func(what string, f func(c bal.BlockAccessList) bool) {
		c := *enc.Copy()
		if !f(c) {
			return
		}
		if err := c.Validate(gasLimit, txCount); err == nil {
			bad("Validate accepts a corrupted list (%s)", what)
		}
	}
	corrupt("accounts swapped", func(c bal.BlockAccessList) bool {
		if len(c) < 2 {
			return false
		}
		c[0], c[1] = c[1], c[0]
		return true
	})
	corrupt("account duplicated", func(c bal.BlockAccessList) bool {
		if len(c) < 2 {
			return false
		}
		c[1] = c[0].Copy()
		return true
	})
	for i := range *enc {
		i := i
		corrupt("balance changes swapped", func(c bal.BlockAccessList) bool {
			if len(c[i].BalanceChanges) < 2 {
				return false
			}
			b := c[i].BalanceChanges
			b[0], b[1] = b[1], b[0]
			return true
		})
		corrupt("nonce change duplicated", func(c bal.BlockAccessList) bool {
			if len(c[i].NonceChanges) < 1 {
				return false
			}
			c[i].NonceChanges = append(c[i].NonceChanges, c[i].NonceChanges[len(c[i].NonceChanges)-1])
			return true
		})
		corrupt("code changes swapped", func(c bal.BlockAccessList) bool {
			if len(c[i].CodeChanges) < 2 {
				return false
			}
			b := c[i].CodeChanges
			b[0], b[1] = b[1], b[0]
			return true
		})
		corrupt("written slots swapped", func(c bal.BlockAccessList) bool {
			if len(c[i].StorageChanges) < 2 {
				return false
			}
			b := c[i].StorageChanges
			b[0], b[1] = b[1], b[0]
			return true
		})
		corrupt("slot writes duplicated", func(c bal.BlockAccessList) bool {
			if len(c[i].StorageChanges) < 1 {
				return false
			}
			sc := &c[i].StorageChanges[0]
			sc.SlotChanges = append(sc.SlotChanges, sc.SlotChanges[0])
			return true
		})
		corrupt("slot entry without writes", func(c bal.BlockAccessList) bool {
			if len(c[i].StorageChanges) < 1 {
				return false
			}
			c[i].StorageChanges[0].SlotChanges = c[i].StorageChanges[0].SlotChanges[:0]
			return true
		})
		corrupt("read slots swapped", func(c bal.BlockAccessList) bool {
			if len(c[i].StorageReads) < 2 {
				return false
			}
			b := c[i].StorageReads
			b[0], b[1] = b[1], b[0]
			return true
		})
		corrupt("written slot also read", func(c bal.BlockAccessList) bool {
			if len(c[i].StorageChanges) < 1 {
				return false
			}
			reads := append([]*uint256.Int{}, c[i].StorageReads...)
			reads = append(reads, c[i].StorageChanges[0].Slot.Clone())
			sort.Slice(reads, func(x, y int) bool { return reads[x].Cmp(reads[y]) < 0 })
			c[i].StorageReads = reads
			return true
		})
	}
	return problems
}

// CheckLookup compares the index-addressable view of a block-level list with the worlds the
// block went through: worlds[0] is the world before the block, worlds[i] the world after the
// transaction with block access index i.  The value observed at index L (latest change
// strictly before L) must be the value in worlds[L-1]; if no change is recorded before L the
// value must still be the one of worlds[0].
func (u *Universe) CheckLookup(enc *bal.BlockAccessList, worlds []World) []string {
	var problems []string
	bad := func(f string, a ...any) { problems = append(problems, fmt.Sprintf(f, a...)) }
	lk := enc.Lookup()
	for a := 1; a <= u.NA; a++ {
		addr := u.Addr(a)
		for L := 1; L <= len(worlds); L++ {
			cur, base := worlds[L-1][a-1], worlds[0][a-1]
			b, n, c, hb, hn, hc := lk.AccountChanges(addr, uint32(L))
			if hb {
				if v, ok := smallU256(b); !ok || v != cur.Bal {
					bad("Lookup: balance of a%d at index %d is %v, the world before that index has %d", a, L, b, cur.Bal)
				}
			} else if cur.Bal != base.Bal {
				bad("Lookup: no balance change of a%d before index %d, but the balance went from %d to %d", a, L, base.Bal, cur.Bal)
			}
			if hn {
				if int64(n) != cur.Nonce {
					bad("Lookup: nonce of a%d at index %d is %d, the world before that index has %d", a, L, n, cur.Nonce)
				}
			} else if cur.Nonce != base.Nonce {
				bad("Lookup: no nonce change of a%d before index %d, but the nonce went from %d to %d", a, L, base.Nonce, cur.Nonce)
			}
			if hc {
				if CodeID(c) != cur.Code {
					bad("Lookup: code of a%d at index %d is %x, the world before that index has code %d", a, L, c, cur.Code)
				}
				if c2, ok := lk.Code(addr, uint32(L)); !ok || !bytes.Equal(c, c2) {
					bad("Lookup.Code and Lookup.AccountChanges disagree for a%d at index %d", a, L)
				}
			} else if cur.Code != base.Code {
				bad("Lookup: no code change of a%d before index %d, but the code went from %d to %d", a, L, base.Code, cur.Code)
			}
			for k := 1; k <= u.NS; k++ {
				v, has := lk.Storage(addr, u.Slot(k), uint32(L))
				cv, bv := cur.St[k-1], base.St[k-1]
				if has {
					if x, ok := ValOf(v); !ok || x != cv {
						bad("Lookup: slot a%d/s%d at index %d is %x, the world before that index has %d", a, k, L, v, cv)
					}
				} else if cv != bv {
					bad("Lookup: no write of a%d/s%d before index %d, but the slot went from %d to %d", a, k, L, bv, cv)
				}
			}
		}
	}
	return problems
}

// CheckOverlay opens, for every block access index L, a StateDB on the PARENT state through
// state.NewReaderWithBlockLevelAccessList(parent reader, list, L) - the "unified view" that
// parallel execution gives transaction L - and compares every account field and slot with
// worlds[L-1], the world the sequential execution had before index L.  An absent account and
// an empty one are identified (the overlay cannot express the EIP-161 removal of an emptied
// account; under EIP-7523 the two are indistinguishable to the EVM).
func (u *Universe) CheckOverlay(env *Env, parentRoot common.Hash, enc *bal.BlockAccessList, worlds []World) []string {
	var problems []string
	bad := func(f string, a ...any) { problems = append(problems, fmt.Sprintf(f, a...)) }
	lk := enc.Lookup()
	for L := 1; L <= len(worlds); L++ {
		base, err := env.DB.Reader(parentRoot)
		if err != nil {
			return append(problems, fmt.Sprintf("reader of the parent state: %v", err))
		}
		sdb, err := state.NewWithReader(parentRoot, env.DB, state.NewReaderWithBlockLevelAccessList(base, lk, L))
		if err != nil {
			return append(problems, fmt.Sprintf("state with access-list overlay at index %d: %v", L, err))
		}
		for a := 1; a <= u.NA; a++ {
			addr, want := u.Addr(a), worlds[L-1][a-1]
			bal, nonce, code := sdb.GetBalance(addr), sdb.GetNonce(addr), CodeID(sdb.GetCode(addr))
			if !bal.IsUint64() || int64(bal.Uint64()) != want.Bal || int64(nonce) != want.Nonce || code != want.Code {
				bad("overlay reader at index %d: a%d reads nonce=%d balance=%v code=%d, sequential execution had nonce=%d balance=%d code=%d",
					L, a, nonce, bal, code, want.Nonce, want.Bal, want.Code)
			}
			if sdb.Empty(addr) != (!want.Ex || (want.Nonce == 0 && want.Bal == 0 && want.Code == 0)) {
				bad("overlay reader at index %d: Empty(a%d)=%v, sequential execution had %+v", L, a, sdb.Empty(addr), want)
			}
			for k := 1; k <= u.NS; k++ {
				if v, ok := ValOf(sdb.GetState(addr, u.Slot(k))); !ok || v != want.St[k-1] {
					bad("overlay reader at index %d: a%d/s%d reads %d, sequential execution had %d", L, a, k, v, want.St[k-1])
				}
			}
		}
	}
	return problems
}
