package statekit

import "math/rand"

// GenCfg parametrises the random history generator of the recording drivers.
type GenCfg struct {
	Vals    []int64 // storage / transient values
	Amounts []int64 // balance amounts
	MaxCode int
	MaxSnap int
	TxLen   int  // average number of operations per transaction
	Reads   bool // generate explicit reads (ReadAccount / ReadSlot)
	Aux     bool // transient storage, access list, refund, logs
	MaxLogs int
	NoIRoot bool // end transactions with Finalise only

	recent map[[2]int][]int64 // last values written per slot: slots revisit a few values across transactions
}

// DefaultGen is the generator configuration used by the V drivers.
func DefaultGen() *GenCfg {
	return &GenCfg{Vals: []int64{0, 0, 1, 2, 3, 7, 1 << 20}, Amounts: []int64{0, 0, 1, 1, 2, 5, 100}, MaxCode: 3,
		MaxSnap: 6, TxLen: 14, Reads: true, Aux: true, MaxLogs: 12}
}

func pick(r *rand.Rand, xs []int64) int64 { return xs[r.Intn(len(xs))] }

// Next chooses the next action for machine m whose last projection is p.  Only actions that
// satisfy the preconditions and the EVM-feasibility guards of StateDB.tla are produced
// (the trace specification re-checks them).
func (g *GenCfg) Next(r *rand.Rand, m *Machine, p *Proj) Act {
	u := m.U
	if !m.InTx {
		if r.Intn(3) == 0 {
			return Act{Op: "BeginTxL", A: 1 + r.Intn(u.NA), I: 1 + r.Intn(u.NA), K: 1 + r.Intn(u.NS), Tx: m.Tx}
		}
		return Act{Op: "BeginTx", A: 1 + r.Intn(u.NA), Tx: m.Tx}
	}
	feas := Is6780(m.Rules)
	if r.Intn(max(g.TxLen, 1)) == 0 {
		if g.NoIRoot || r.Intn(3) > 0 {
			return Act{Op: "Finalise"}
		}
		return Act{Op: "IntermediateRoot"}
	}
	for {
		a := 1 + r.Intn(u.NA)
		k := 1 + r.Intn(u.NS)
		if r.Intn(8) == 0 {
			// prefer an existing empty account if there is one: operations that change nothing there
			// decide whether it counts as touched (EIP-161)
			for i, x := range p.Acc {
				if x.Ex && x.Nonce == 0 && x.Bal == 0 && x.Code == 0 {
					a = i + 1
					switch r.Intn(4) {
					case 0:
						return Act{Op: "SubBalance", A: a, V: 0}
					case 1:
						if !feas || x.Nw {
							return Act{Op: "SetState", A: a, K: k, V: x.St[k-1]}
						}
					case 2:
						return Act{Op: "AddBalance", A: a, V: 0}
					}
					break
				}
			}
		}
		ac := p.Acc[a-1]
		c := 10 + r.Intn(90)
		switch {
		case c < 18:
			return Act{Op: "AddBalance", A: a, V: pick(r, g.Amounts)}
		case c < 26:
			v := pick(r, g.Amounts)
			if r.Intn(3) == 0 {
				v = ac.Bal // drain
			}
			if v > ac.Bal {
				continue
			}
			return Act{Op: "SubBalance", A: a, V: v}
		case c < 30:
			v := pick(r, g.Amounts)
			if r.Intn(3) == 0 {
				v = ac.Bal // same value again
			}
			return Act{Op: "SetBalance", A: a, V: v}
		case c < 36:
			n := int64(r.Intn(4))
			if feas || r.Intn(2) == 0 {
				n = ac.Nonce + 1 + int64(r.Intn(2))
			}
			return Act{Op: "SetNonce", A: a, V: n}
		case c < 41:
			code := int64(r.Intn(g.MaxCode + 1))
			if feas && code == 0 && ac.Nonce < 1 {
				continue
			}
			return Act{Op: "SetCode", A: a, V: code}
		case c < 56:
			if feas && !(ac.Code != 0 || ac.Nw) {
				continue
			}
			v := pick(r, g.Vals)
			key := [2]int{a, k}
			switch r.Intn(6) {
			case 0:
				v = ac.Cst[k-1] // restore the value of the transaction start
			case 1:
				v = ac.St[k-1] // same value again
			case 2, 3:
				// a value this slot held earlier in the block (A -> B -> A across transactions that end
				// with Finalise or with IntermediateRoot)
				if h := g.recent[key]; len(h) > 0 {
					v = h[r.Intn(len(h))]
				}
			}
			if g.recent == nil {
				g.recent = map[[2]int][]int64{}
			}
			if h := g.recent[key]; len(h) == 0 || h[len(h)-1] != v {
				g.recent[key] = append(h, v)
				if len(g.recent[key]) > 3 {
					g.recent[key] = g.recent[key][1:]
				}
			}
			return Act{Op: "SetState", A: a, K: k, V: v}
		case c < 61:
			if feas && !ac.Nw {
				continue
			}
			return Act{Op: "SelfDestruct", A: a}
		case c < 64:
			if ac.Ex {
				continue
			}
			return Act{Op: "CreateAccount", A: a}
		case c < 72:
			if ac.Nonce != 0 || ac.Code != 0 {
				continue
			}
			return Act{Op: "EvmCreate", A: a}
		case c < 80:
			if len(m.SnapIDs) >= g.MaxSnap {
				continue
			}
			return Act{Op: "Snapshot"}
		case c < 86:
			if len(m.SnapIDs) == 0 {
				continue
			}
			i := len(m.SnapIDs)
			if r.Intn(3) == 0 {
				i = 1 + r.Intn(len(m.SnapIDs))
			}
			return Act{Op: "Revert", I: i}
		case c < 90:
			if !g.Reads {
				continue
			}
			if r.Intn(2) == 0 {
				return Act{Op: "ReadAccount", A: a}
			}
			return Act{Op: "ReadSlot", A: a, K: k}
		default:
			if !g.Aux {
				continue
			}
			switch r.Intn(6) {
			case 0:
				return Act{Op: "SetTransient", A: a, K: k, V: pick(r, g.Vals)}
			case 1:
				return Act{Op: "AddAddress", A: a}
			case 2:
				return Act{Op: "AddSlot", A: a, K: k}
			case 3:
				return Act{Op: "AddRefund", V: 1 + int64(r.Intn(5))}
			case 4:
				if p.Ref == 0 {
					continue
				}
				return Act{Op: "SubRefund", V: 1 + r.Int63n(p.Ref)}
			default:
				if len(p.Logs) >= g.MaxLogs {
					continue
				}
				return Act{Op: "AddLog", V: int64(len(p.Logs) + 1)}
			}
		}
	}
}

// RandomWorld draws a committed base world that satisfies FeasibleWorld of StateDB.tla.
func (u *Universe) RandomWorld(r *rand.Rand, maxCode int) World {
	return u.RandomWorldX(r, maxCode, true)
}

// RandomWorldX is RandomWorld; with empties=false no empty account is generated (EIP-7523: no
// empty accounts exist in post-merge states, which EIP-7928 lists rely on: the deletion of a
// touched empty account is not a balance/nonce/code/storage change).
func (u *Universe) RandomWorldX(r *rand.Rand, maxCode int, empties bool) World {
	w := make(World, u.NA)
	for i := range w {
		ac := Account{St: make([]int64, u.NS)}
		switch r.Intn(7) {
		case 0, 1: // absent
		case 2, 6: // empty account (pre EIP-158 leftover)
			ac.Ex = true
			if !empties {
				ac.Bal = int64(1 + r.Intn(3))
			}
		case 3: // funded EOA
			ac.Ex, ac.Bal = true, int64(1+r.Intn(50))
			ac.Nonce = int64(r.Intn(3))
		default: // contract with storage
			ac.Ex, ac.Bal, ac.Nonce, ac.Code = true, int64(r.Intn(20)), int64(1+r.Intn(2)), 1+r.Intn(maxCode)
			for k := range ac.St {
				if r.Intn(3) > 0 {
					ac.St[k] = int64(1 + r.Intn(9))
				}
			}
		}
		w[i] = ac
	}
	return w
}
