// Package statekit binds spec/state/StateDB.tla to the real core/state.StateDB:
// the small universe (addresses, slots, values, code ids), the projection of every
// observable of a StateDB into the record Proj(S) of the specification, the execution of
// one specification action on the real object, and the reference state root that is
// computed from a MODEL world with a StackTrie (independent of statedb.go, journal.go,
// state_object.go).  Shared by the drivers c13, c14 and c15.
package statekit

import (
	"bytes"
	"encoding/json"
	"fmt"
	"math/big"
	"sort"

	"github.com/ethereum/go-ethereum/common"
	"github.com/ethereum/go-ethereum/core/rawdb"
	"github.com/ethereum/go-ethereum/core/state"
	"github.com/ethereum/go-ethereum/core/state/snapshot"
	"github.com/ethereum/go-ethereum/core/tracing"
	"github.com/ethereum/go-ethereum/core/types"
	"github.com/ethereum/go-ethereum/core/types/bal"
	"github.com/ethereum/go-ethereum/crypto"
	"github.com/ethereum/go-ethereum/ethdb"
	"github.com/ethereum/go-ethereum/params"
	"github.com/ethereum/go-ethereum/rlp"
	"github.com/ethereum/go-ethereum/trie"
	"github.com/ethereum/go-ethereum/triedb"
	"github.com/ethereum/go-ethereum/triedb/hashdb"
	"github.com/ethereum/go-ethereum/triedb/pathdb"
	"github.com/holiman/uint256"
)

// ---------------------------------------------------------------- universe

// Universe maps the model's small integers to real addresses, slots and code.
type Universe struct {
	NA, NS int
	Ripemd int // model address that is mapped to 0x03 (0 = none)
}

// Addr returns the real address of model address a (1-based).
func (u *Universe) Addr(a int) common.Address {
	if a == u.Ripemd {
		return common.BytesToAddress([]byte{3})
	}
	// spread over the trie: the hashed keys of these addresses share no long prefix by design of keccak
	return common.BytesToAddress([]byte{0xa0, byte(a), 0x55, byte(a * 7)})
}

// Slot returns the real storage key of model slot k (1-based).
func (u *Universe) Slot(k int) common.Hash { return common.BigToHash(big.NewInt(int64(k))) }

// Val maps a model value to a 32-byte word.
func Val(v int64) common.Hash { return common.BigToHash(big.NewInt(v)) }

// ValOf maps a word back; ok=false if it does not fit the model's integers.
func ValOf(h common.Hash) (int64, bool) {
	b := new(big.Int).SetBytes(h[:])
	if !b.IsInt64() || b.Int64() >= 1<<31 {
		return -1, false
	}
	return b.Int64(), true
}

// Code returns the byte code of code id c (0 = no code).
func Code(c int) []byte {
	if c == 0 {
		return nil
	}
	// PUSH1 c STOP plus padding that depends on c, so that different ids have different lengths
	out := []byte{0x60, byte(c), 0x00}
	for i := 0; i < c%5; i++ {
		out = append(out, 0x5b)
	}
	return out
}

// CodeID is the inverse of Code (-1 = not a code of the universe).
func CodeID(b []byte) int {
	if len(b) == 0 {
		return 0
	}
	if len(b) >= 3 && b[0] == 0x60 && bytes.Equal(Code(int(b[1])), b) {
		return int(b[1])
	}
	return -1
}

// TxHash is the transaction hash the drivers pass to SetTxContext for transaction number tx
// of block blk.
func TxHash(blk, tx int) common.Hash {
	return crypto.Keccak256Hash([]byte(fmt.Sprintf("tx-%d-%d", blk, tx)))
}

// Rules builds the fork rules of a rule-set name of StateDB.tla.
func Rules(name string) (params.Rules, error) {
	switch name {
	case "pre158":
		return params.Rules{}, nil
	case "eip158":
		return params.Rules{IsHomestead: true, IsEIP150: true, IsEIP155: true, IsEIP158: true}, nil
	case "cancun":
		return params.Rules{IsHomestead: true, IsEIP150: true, IsEIP155: true, IsEIP158: true, IsByzantium: true,
			IsConstantinople: true, IsPetersburg: true, IsIstanbul: true, IsBerlin: true, IsEIP2929: true, IsLondon: true,
			IsMerge: true, IsShanghai: true, IsCancun: true}, nil
	case "amsterdam":
		return params.Rules{IsHomestead: true, IsEIP150: true, IsEIP155: true, IsEIP158: true, IsByzantium: true,
			IsConstantinople: true, IsPetersburg: true, IsIstanbul: true, IsBerlin: true, IsEIP2929: true, IsLondon: true,
			IsMerge: true, IsShanghai: true, IsCancun: true, IsPrague: true, IsOsaka: true, IsAmsterdam: true}, nil
	}
	return params.Rules{}, fmt.Errorf("unknown rule set %q", name)
}

// RuleNames lists the rule sets of StateDB.tla.
var RuleNames = []string{"pre158", "eip158", "cancun", "amsterdam"}

// Is6780 reports whether the rule set has EIP-6780 (and therefore the feasibility guards).
func Is6780(name string) bool { return name == "cancun" || name == "amsterdam" }

// ---------------------------------------------------------------- model world and reference root

// Account is one account of a model world (JSON-compatible with StateDB.tla accounts).
type Account struct {
	Ex    bool    `json:"ex"`
	Nonce int64   `json:"nonce"`
	Bal   int64   `json:"bal"`
	Code  int     `json:"code"`
	St    []int64 `json:"st"`
}

// World is a model world: index a-1 holds the account of model address a.
type World []Account

// StorageRoot computes the storage root of a model storage with a StackTrie.
func (u *Universe) StorageRoot(st []int64) common.Hash {
	type kv struct{ k, v []byte }
	var items []kv
	for i, v := range st {
		if v == 0 {
			continue
		}
		key := crypto.Keccak256(u.Slot(i + 1).Bytes())
		enc, _ := rlp.EncodeToBytes(common.TrimLeftZeroes(Val(v).Bytes()))
		items = append(items, kv{key, enc})
	}
	sort.Slice(items, func(i, j int) bool { return bytes.Compare(items[i].k, items[j].k) < 0 })
	st2 := trie.NewStackTrie(nil)
	for _, it := range items {
		if err := st2.Update(it.k, it.v); err != nil {
			panic(err)
		}
	}
	return st2.Hash()
}

// SentinelAddr is an account outside the universe whose nonce the C14 driver bumps before
// every commit (like the sender nonce of a real block), so that no state root ever recurs.
var SentinelAddr = common.HexToAddress("0xfe00000000000000000000000000000000000001")

// RefRoot computes the state root of a model world: storage tries first, then the account
// trie, both with an ordered StackTrie over the hashed keys.
func (u *Universe) RefRoot(w World) common.Hash { return u.RefRootS(w, 0) }

// RefRootS is RefRoot for a world that additionally holds the sentinel account with the
// given nonce (0 = no sentinel).
func (u *Universe) RefRootS(w World, sentinel uint64) common.Hash {
	type kv struct{ k, v []byte }
	var items []kv
	if sentinel != 0 {
		sa := types.StateAccount{Nonce: sentinel, Balance: uint256.NewInt(0), Root: types.EmptyRootHash, CodeHash: types.EmptyCodeHash.Bytes()}
		enc, _ := rlp.EncodeToBytes(&sa)
		items = append(items, kv{crypto.Keccak256(SentinelAddr.Bytes()), enc})
	}
	for i, ac := range w {
		if !ac.Ex {
			continue
		}
		sa := types.StateAccount{
			Nonce:    uint64(ac.Nonce),
			Balance:  uint256.NewInt(uint64(ac.Bal)),
			Root:     u.StorageRoot(ac.St),
			CodeHash: crypto.Keccak256(Code(ac.Code)),
		}
		enc, err := rlp.EncodeToBytes(&sa)
		if err != nil {
			panic(err)
		}
		items = append(items, kv{crypto.Keccak256(u.Addr(i + 1).Bytes()), enc})
	}
	sort.Slice(items, func(i, j int) bool { return bytes.Compare(items[i].k, items[j].k) < 0 })
	st := trie.NewStackTrie(nil)
	for _, it := range items {
		if err := st.Update(it.k, it.v); err != nil {
			panic(err)
		}
	}
	return st.Hash()
}

// ---------------------------------------------------------------- projection

// AccProj mirrors ProjAcc(S, a).
type AccProj struct {
	Ex    bool    `json:"ex"`
	Nonce int64   `json:"nonce"`
	Bal   int64   `json:"bal"`
	Code  int     `json:"code"`
	St    []int64 `json:"st"`
	Cst   []int64 `json:"cst"`
	Sd    bool    `json:"sd"`
	Nw    bool    `json:"nw"`
}

// LogProj mirrors one element of S.logs.
type LogProj struct {
	Tx  int `json:"tx"`
	Tag int `json:"tag"`
}

// Proj mirrors Proj(S).
type Proj struct {
	Acc  []AccProj `json:"acc"`
	Trn  [][]int64 `json:"trn"`
	Ala  []bool    `json:"ala"`
	Als  [][]bool  `json:"als"`
	Ref  int64     `json:"ref"`
	Logs []LogProj `json:"logs"`
}

// World extracts the model world contained in a projection.
func (p *Proj) World() World {
	w := make(World, len(p.Acc))
	for i, a := range p.Acc {
		w[i] = Account{Ex: a.Ex, Nonce: a.Nonce, Bal: a.Bal, Code: a.Code, St: append([]int64{}, a.St...)}
	}
	return w
}

// Key is a canonical text of the projection (used for comparison and distinct counting).
func (p *Proj) Key() string {
	b, _ := json.Marshal(p)
	return string(b)
}

// Project reads every observable of sdb for every address and slot of the universe through
// the public getters.  problems lists observations that are inconsistent among themselves or
// have no counterpart in the model (each one is a divergence from the reference model).
// blk is the current block number of the driver (transaction hashes depend on it).
func (u *Universe) Project(sdb *state.StateDB, rules string, blk int) (Proj, []string) {
	var (
		p        Proj
		problems []string
		bad      = func(f string, a ...any) { problems = append(problems, fmt.Sprintf(f, a...)) }
	)
	p.Acc = make([]AccProj, u.NA)
	p.Trn = make([][]int64, u.NA)
	p.Ala = make([]bool, u.NA)
	p.Als = make([][]bool, u.NA)
	for a := 1; a <= u.NA; a++ {
		addr := u.Addr(a)
		ap := AccProj{St: make([]int64, u.NS), Cst: make([]int64, u.NS)}
		ap.Ex = sdb.Exist(addr)
		bal := sdb.GetBalance(addr)
		if !bal.IsUint64() || bal.Uint64() >= 1<<31 {
			bad("balance of a%d out of the model range: %v", a, bal)
		} else {
			ap.Bal = int64(bal.Uint64())
		}
		n := sdb.GetNonce(addr)
		if n >= 1<<31 {
			bad("nonce of a%d out of the model range: %d", a, n)
		} else {
			ap.Nonce = int64(n)
		}
		code := sdb.GetCode(addr)
		ap.Code = CodeID(code)
		if ap.Code < 0 {
			bad("code of a%d is not a code of the universe: %x", a, code)
		}
		// derived observables must agree with the primary ones
		if sz := sdb.GetCodeSize(addr); sz != len(code) {
			bad("GetCodeSize(a%d)=%d but len(GetCode)=%d", a, sz, len(code))
		}
		ch := sdb.GetCodeHash(addr)
		switch {
		case !ap.Ex && ch != (common.Hash{}):
			bad("GetCodeHash(a%d)=%x for a non-existent account", a, ch)
		case ap.Ex && ch != crypto.Keccak256Hash(code):
			bad("GetCodeHash(a%d)=%x is not the hash of GetCode", a, ch)
		}
		if e := sdb.Empty(addr); e != (!ap.Ex || (ap.Nonce == 0 && bal.IsZero() && len(code) == 0)) {
			bad("Empty(a%d)=%v inconsistent with exist=%v nonce=%d balance=%v codelen=%d", a, e, ap.Ex, ap.Nonce, bal, len(code))
		}
		if !ap.Ex && (ap.Nonce != 0 || !bal.IsZero() || len(code) != 0) {
			bad("non-existent a%d reads nonce=%d balance=%v codelen=%d", a, ap.Nonce, bal, len(code))
		}
		ap.Sd = sdb.HasSelfDestructed(addr)
		if Is6780(rules) {
			ap.Nw = sdb.IsNewContract(addr)
		}
		p.Trn[a-1] = make([]int64, u.NS)
		p.Als[a-1] = make([]bool, u.NS)
		p.Ala[a-1] = sdb.AddressInAccessList(addr)
		for k := 1; k <= u.NS; k++ {
			slot := u.Slot(k)
			cur, com := sdb.GetState(addr, slot), sdb.GetCommittedState(addr, slot)
			c2, o2 := sdb.GetStateAndCommittedState(addr, slot)
			if c2 != cur || o2 != com {
				bad("GetStateAndCommittedState(a%d,s%d)=(%x,%x) but GetState=%x GetCommittedState=%x", a, k, c2, o2, cur, com)
			}
			var ok bool
			if ap.St[k-1], ok = ValOf(cur); !ok {
				bad("storage a%d/s%d out of range: %x", a, k, cur)
			}
			if ap.Cst[k-1], ok = ValOf(com); !ok {
				bad("committed storage a%d/s%d out of range: %x", a, k, com)
			}
			if p.Trn[a-1][k-1], ok = ValOf(sdb.GetTransientState(addr, slot)); !ok {
				bad("transient a%d/s%d out of range", a, k)
			}
			ain, sin := sdb.SlotInAccessList(addr, slot)
			if ain != p.Ala[a-1] {
				bad("SlotInAccessList(a%d,s%d) address flag %v differs from AddressInAccessList %v", a, k, ain, p.Ala[a-1])
			}
			p.Als[a-1][k-1] = sin
		}
		p.Acc[a-1] = ap
	}
	r := sdb.GetRefund()
	if r >= 1<<31 {
		bad("refund out of range: %d", r)
	} else {
		p.Ref = int64(r)
	}
	p.Logs = []LogProj{}
	perTx := map[int]int{}
	for i, l := range sdb.Logs() {
		if int(l.Index) != i {
			bad("log %d has Index %d", i, l.Index)
		}
		tag := -1
		if len(l.Data) == 1 {
			tag = int(l.Data[0])
		}
		if l.TxHash != TxHash(blk, int(l.TxIndex)) {
			bad("log %d: TxHash does not belong to TxIndex %d", i, l.TxIndex)
		}
		perTx[int(l.TxIndex)]++
		p.Logs = append(p.Logs, LogProj{Tx: int(l.TxIndex), Tag: tag})
	}
	for tx, n := range perTx {
		if got := len(sdb.GetLogs(TxHash(blk, tx), uint64(blk), common.Hash{}, 0)); got != n {
			bad("GetLogs(tx %d) returns %d logs, Logs() has %d for it", tx, got, n)
		}
	}
	return p, problems
}

// ---------------------------------------------------------------- databases

// Env is one storage configuration under a StateDB.
type Env struct {
	Scheme string // "hash" | "path"
	Snap   bool   // legacy snapshot tree attached
	Disk   ethdb.Database
	TDB    *triedb.Database
	Snaps  *snapshot.Tree
	DB     state.Database
	MDB    *state.MPTDatabase

	CachedReader bool // open states through the cache-sharing readers (C14 matrix)
	opens        int
	persists     int
	diskRoot     common.Hash // root of the path database's disk layer as far as this harness moved it
}

// NewEnv creates an empty in-memory environment.
func NewEnv(scheme string, snap bool) *Env {
	e := &Env{Scheme: scheme, Snap: snap, Disk: rawdb.NewMemoryDatabase(), diskRoot: types.EmptyRootHash}
	e.open(types.EmptyRootHash)
	return e
}

func (e *Env) config() *triedb.Config {
	if e.Scheme == "path" {
		c := *pathdb.Defaults
		c.NoAsyncFlush = true
		c.NoAsyncGeneration = true
		return &triedb.Config{PathDB: &c}
	}
	return &triedb.Config{HashDB: &hashdb.Config{}}
}

func (e *Env) open(root common.Hash) {
	e.TDB = triedb.NewDatabase(e.Disk, e.config())
	e.Snaps = nil
	if e.Snap {
		e.Snaps, _ = snapshot.New(snapshot.Config{CacheSize: 1, AsyncBuild: false}, e.Disk, e.TDB, root)
	}
	mdb := state.NewMPTDatabase(e.TDB, nil)
	e.MDB = mdb
	if e.Snaps != nil {
		e.DB = mdb.WithSnapshot(e.Snaps)
	} else {
		e.DB = mdb
	}
}

// Open opens a StateDB at root.  With CachedReader the state reads through one of the two
// readers with a shared account/storage cache that block processing uses (prefetcher and
// processor share the cache), otherwise through the plain multi-reader of state.New.
func (e *Env) Open(root common.Hash) (*state.StateDB, error) {
	if e.CachedReader {
		ra, rb, err := e.MDB.ReadersWithCacheStats(root)
		if err != nil {
			return nil, err
		}
		e.opens++
		if e.opens%2 == 0 {
			ra = rb
		}
		return state.NewWithReader(root, e.DB, ra)
	}
	return state.New(root, e.DB)
}

// Close releases the trie database.
func (e *Env) Close() {
	if e.Snaps != nil {
		e.Snaps.Release()
	}
	e.TDB.Close()
}

// Persist writes the state at root to the key-value store (triedb.Commit for the hash
// scheme, journal for the path scheme), closes the trie database and reopens everything on
// the same key-value store.
func (e *Env) Persist(root common.Hash) error {
	if e.Snaps != nil {
		if _, err := e.Snaps.Journal(root); err != nil {
			return fmt.Errorf("snapshot journal: %w", err)
		}
		e.Snaps.Release()
	}
	if e.Scheme == "path" {
		// alternate between the two ways a path database reaches the key-value store: flattening all
		// layers into the disk layer (Commit) and journalling the diff layers (Journal, as on shutdown)
		e.persists++
		if e.persists%2 == 0 && root != e.diskRoot { // (flattening onto itself is refused by pathdb)
			if err := e.TDB.Commit(root, false); err != nil {
				return fmt.Errorf("pathdb commit: %w", err)
			}
			e.diskRoot = root
		}
		if err := e.TDB.Journal(root); err != nil {
			return fmt.Errorf("pathdb journal: %w", err)
		}
	} else {
		if err := e.TDB.Commit(root, false); err != nil {
			return fmt.Errorf("triedb commit: %w", err)
		}
	}
	if err := e.TDB.Close(); err != nil {
		return err
	}
	e.open(root)
	return nil
}

// ---------------------------------------------------------------- machine: one real StateDB driven by model actions

// Act is one labelled action of the specification (the `act` records of MCStateDB.tla and
// the events of the trace specification share this shape).
type Act struct {
	Op    string `json:"op"`
	A     int    `json:"a,omitempty"`
	K     int    `json:"k,omitempty"`
	V     int64  `json:"v,omitempty"`
	I     int    `json:"i,omitempty"`
	Tx    int    `json:"tx,omitempty"`
	Rules string `json:"rules,omitempty"`
}

// Machine is a real StateDB together with the little bookkeeping a caller of the StateDB
// interface has to do itself (snapshot ids, transaction numbering).
type Machine struct {
	U       *Universe
	Env     *Env
	SDB     *state.StateDB
	Rules   string
	R       params.Rules
	Blk     int
	Tx      int   // transactions finalised in this block
	SnapIDs []int // real revision ids, parallel to the model's snapshot stack
	InTx    bool

	Counter  *uint64 // C14: shared commit counter, the sentinel nonce of the next commit (nil = no sentinel)
	Sentinel uint64  // C14: sentinel nonce in the state this StateDB was opened on

	LastBAL  *bal.ConstructionBlockAccessList // returned by the last Finalise
	LastRoot common.Hash                      // returned by the last IntermediateRoot / Commit
	Reader   int                              // rotates the getter used by ReadAccount / ReadSlot
}

// BuildBase writes the model world w into a fresh state of env, commits it (pre-EIP-158
// rules, so that empty accounts survive) and returns the root.
func (u *Universe) BuildBase(env *Env, w World) (common.Hash, error) {
	sdb, err := env.Open(types.EmptyRootHash)
	if err != nil {
		return common.Hash{}, err
	}
	for i, ac := range w {
		if !ac.Ex {
			continue
		}
		addr := u.Addr(i + 1)
		sdb.CreateAccount(addr)
		sdb.SetNonce(addr, uint64(ac.Nonce), tracing.NonceChangeGenesis)
		sdb.SetBalance(addr, uint256.NewInt(uint64(ac.Bal)), tracing.BalanceIncreaseGenesisBalance)
		if ac.Code != 0 {
			sdb.SetCode(addr, Code(ac.Code), tracing.CodeChangeGenesis)
		}
		for k, v := range ac.St {
			if v != 0 {
				sdb.SetState(addr, u.Slot(k+1), Val(v))
			}
		}
	}
	return sdb.Commit(params.Rules{}, 0)
}

// NewMachine builds the committed base world in env and opens a StateDB on it.
// The returned error is a divergence of the real code (root of the committed base differs
// from the reference root, or the state cannot be opened).
func NewMachine(u *Universe, env *Env, rules string, w World) (*Machine, error) {
	r, err := Rules(rules)
	if err != nil {
		return nil, err
	}
	root, err := u.BuildBase(env, w)
	if err != nil {
		return nil, fmt.Errorf("commit of the base world failed: %v", err)
	}
	if want := u.RefRoot(w); root != want {
		return nil, fmt.Errorf("root of the committed base world %x differs from the reference root %x", root, want)
	}
	sdb, err := env.Open(root)
	if err != nil {
		return nil, fmt.Errorf("open committed base: %v", err)
	}
	return &Machine{U: u, Env: env, SDB: sdb, Rules: rules, R: r, Blk: 1, LastRoot: root}, nil
}

// Apply executes one specification action on the real StateDB, the way the EVM calls it.
func (m *Machine) Apply(act Act) error {
	var (
		s    = m.SDB
		addr = m.U.Addr(act.A)
		slot = m.U.Slot(act.K)
		amt  = uint256.NewInt(uint64(act.V))
	)
	switch act.Op {
	case "BeginTx":
		s.SetTxContext(TxHash(m.Blk, m.Tx), m.Tx, uint32(m.Tx+1))
		s.Prepare(m.R, addr, addr, nil, nil, nil)
		m.InTx = true
	case "BeginTxL":
		dst := m.U.Addr(act.I)
		s.SetTxContext(TxHash(m.Blk, m.Tx), m.Tx, uint32(m.Tx+1))
		s.Prepare(m.R, addr, addr, &dst, nil, types.AccessList{{Address: dst, StorageKeys: []common.Hash{slot}}})
		m.InTx = true
	case "AddBalance":
		s.AddBalance(addr, amt, tracing.BalanceChangeTransfer)
	case "SubBalance":
		s.SubBalance(addr, amt, tracing.BalanceChangeTransfer)
	case "SetBalance":
		s.SetBalance(addr, amt, tracing.BalanceChangeUnspecified)
	case "SetNonce":
		s.SetNonce(addr, uint64(act.V), tracing.NonceChangeUnspecified)
	case "SetCode":
		// deliberately WITHOUT reading the code first: the journal must record the account's code even
		// if this state object has not loaded it yet (finding C13-F1, fixed in /repo 986a824788)
		s.SetCode(addr, Code(int(act.V)), tracing.CodeChangeUnspecified)
	case "SetState":
		s.SetState(addr, slot, Val(act.V))
	case "SelfDestruct":
		s.SelfDestruct(addr)
	case "CreateAccount":
		if !s.Exist(addr) {
			s.CreateAccount(addr)
		}
	case "EvmCreate":
		s.GetCodeHash(addr)
		s.GetNonce(addr)
		if !s.Exist(addr) {
			s.CreateAccount(addr)
		}
		s.CreateContract(addr)
		if m.R.IsEIP158 {
			s.SetNonce(addr, 1, tracing.NonceChangeNewContract)
		}
	case "ReadAccount":
		m.Reader++
		switch m.Reader % 6 {
		case 0:
			s.GetBalance(addr)
		case 1:
			s.Exist(addr)
		case 2:
			s.GetNonce(addr)
		case 3:
			s.GetCodeHash(addr)
		case 4:
			s.Empty(addr)
		case 5:
			s.GetCodeSize(addr)
		}
	case "ReadSlot":
		m.Reader++
		switch m.Reader % 3 {
		case 0:
			s.GetState(addr, slot)
		case 1:
			s.GetCommittedState(addr, slot)
		case 2:
			s.GetStateAndCommittedState(addr, slot)
		}
	case "SetTransient":
		s.SetTransientState(addr, slot, Val(act.V))
	case "AddAddress":
		s.AddAddressToAccessList(addr)
	case "AddSlot":
		s.AddSlotToAccessList(addr, slot)
	case "AddRefund":
		s.AddRefund(uint64(act.V))
	case "SubRefund":
		s.SubRefund(uint64(act.V))
	case "AddLog":
		s.AddLog(&types.Log{Address: m.U.Addr(1), Topics: []common.Hash{Val(act.V)}, Data: []byte{byte(act.V)}})
	case "Snapshot":
		m.SnapIDs = append(m.SnapIDs, s.Snapshot())
	case "Revert":
		if act.I < 1 || act.I > len(m.SnapIDs) {
			return fmt.Errorf("driver: revert to snapshot %d of %d", act.I, len(m.SnapIDs))
		}
		s.RevertToSnapshot(m.SnapIDs[act.I-1])
		m.SnapIDs = m.SnapIDs[:act.I-1]
	case "Finalise":
		m.LastBAL = s.Finalise(m.R)
		m.endTx()
	case "IntermediateRoot":
		m.LastRoot = s.IntermediateRoot(m.R)
		m.endTx()
	default:
		return fmt.Errorf("driver: unknown action %q", act.Op)
	}
	return nil
}

func (m *Machine) endTx() {
	m.SnapIDs = nil
	if m.InTx {
		m.Tx++
	}
	m.InTx = false
}

// Project projects the machine's StateDB.  cold=true projects a Copy() of it, leaving the
// caches of the original (loaded objects, origin storage, cached code, EIP-7928 reads)
// untouched.
func (m *Machine) Project(cold bool) (Proj, []string) {
	if cold {
		return m.U.Project(m.SDB.Copy(), m.Rules, m.Blk)
	}
	return m.U.Project(m.SDB, m.Rules, m.Blk)
}

// CheckRoots compares the root returned by the last IntermediateRoot and the storage roots
// of all accounts with the reference roots of the model world w.
func (m *Machine) CheckRoots(w World) []string {
	var out []string
	if want := m.U.RefRootS(w, m.Sentinel); m.LastRoot != want {
		out = append(out, fmt.Sprintf("IntermediateRoot returned %x, the root of the model world is %x", m.LastRoot, want))
	}
	for i, ac := range w {
		got := m.SDB.GetStorageRoot(m.U.Addr(i + 1))
		want := common.Hash{}
		if ac.Ex {
			want = m.U.StorageRoot(ac.St)
		}
		if got != want {
			out = append(out, fmt.Sprintf("GetStorageRoot(a%d)=%x after IntermediateRoot, the model storage has root %x", i+1, got, want))
		}
	}
	return out
}
