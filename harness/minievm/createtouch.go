package minievm

import (
	"math/rand"

	"github.com/ethereum/go-ethereum/common"
	"github.com/ethereum/go-ethereum/crypto"
)

// Init codes of the create-then-touch programs: what matters is how creation ends.
var touchInits = [][]byte{
	{PUSH0, PUSH0, REVERT}, // reverts
	{INVALID},              // halts exceptionally
	{PUSH1, 0xef, PUSH0, MSTORE8, PUSH1, 1, PUSH0, RETURN}, // returns code starting with 0xEF (EIP-3541)
	{PUSH1, 0x00, PUSH0, MSTORE8, PUSH1, 1, PUSH0, RETURN}, // succeeds with the one-byte code 0x00
	{STOP}, // succeeds with empty code
	{PUSH1, 1, PUSH0, SSTORE, PUSH0, PUSH0, REVERT}, // writes, then reverts
}

// CreateTouchProgram builds code for the contract at self (whose nonce is startNonce) that
// performs a few CREATE / CREATE2 operations - most of them failing - and after each one
// touches the address the creation was aimed at (BALANCE / EXTCODESIZE / EXTCODEHASH / CALL).
// EIP-2929: that address is warm from the CREATE on, whatever the outcome of the creation.
func CreateTouchProgram(r *rand.Rand, self common.Address, startNonce uint64) []byte {
	a := NewAsm()
	type blob struct {
		label string
		code  []byte
	}
	var blobs []blob
	nonce := startNonce
	var lastC2 struct {
		salt uint64
		init []byte
		ok   bool
	}
	n := 1 + r.Intn(3)
	for i := 0; i < n; i++ {
		init := touchInits[r.Intn(len(touchInits))]
		useC2 := r.Intn(2) == 0
		salt := uint64(r.Intn(3))
		if lastC2.ok && r.Intn(3) == 0 {
			// repeat the previous CREATE2: an address collision if that one succeeded
			useC2, salt, init = true, lastC2.salt, lastC2.init
		}
		lbl := a.NewLabel() + "i"
		blobs = append(blobs, blob{lbl, init})
		a.Push(uint64(len(init))).PushLabel(lbl).Push(0).Op(CODECOPY)
		var target common.Address
		if useC2 {
			a.Push(salt).Push(uint64(len(init))).Push(0).Push(0).Op(CREATE2)
			var s32 [32]byte
			s32[31] = byte(salt)
			target = crypto.CreateAddress2(self, s32, crypto.Keccak256(init))
			lastC2.salt, lastC2.init, lastC2.ok = salt, init, true
		} else {
			a.Push(uint64(len(init))).Push(0).Push(0).Op(CREATE)
			target = crypto.CreateAddress(self, nonce)
		}
		nonce++
		a.Op(POP)
		for k, m := 0, 1+r.Intn(2); k < m; k++ {
			switch r.Intn(4) {
			case 0:
				a.PushBytes(target[:]).Op(BALANCE, POP)
			case 1:
				a.PushBytes(target[:]).Op(EXTCODESIZE, POP)
			case 2:
				a.PushBytes(target[:]).Op(EXTCODEHASH, POP)
			default:
				a.Push(0).Push(0).Push(0).Push(0).Push(0).PushBytes(target[:]).Push(50000).Op(CALL, POP)
			}
		}
	}
	a.Op(STOP)
	for _, b := range blobs {
		a.Mark(b.label)
		a.Op(b.code...)
	}
	return a.Bytes()
}
