package minievm

import (
	"crypto/ecdsa"
	"fmt"
	"math/rand"
	"os"
	"sort"

	"github.com/ethereum/go-ethereum/common"
	"github.com/ethereum/go-ethereum/core"
	"github.com/ethereum/go-ethereum/core/state"
	"github.com/ethereum/go-ethereum/core/tracing"
	"github.com/ethereum/go-ethereum/core/types"
	"github.com/ethereum/go-ethereum/core/vm"
	"github.com/ethereum/go-ethereum/crypto"
	"github.com/holiman/uint256"
)

// Tx is the transaction + block context of one case (all numbers < 2^31).
type Tx struct {
	Fork      string    `json:"fork"`
	From      int64     `json:"from"`
	To        int64     `json:"to"`
	IsCreate  bool      `json:"isCreate"`
	Value     uint64    `json:"value"`
	Gas       uint64    `json:"gas"`
	Price     uint64    `json:"price"`
	FeeCap    uint64    `json:"feeCap"`
	Tip       uint64    `json:"tip"`
	BaseFee   uint64    `json:"baseFee"`
	Nonce     uint64    `json:"nonce"`
	Data      []int     `json:"data"`
	DataW     []int64   `json:"dataw"`
	AlAddrs   []int64   `json:"alAddrs"`
	AlKeys    [][]int64 `json:"alKeys"`
	Coinbase  int64     `json:"coinbase"`
	BlockGas  uint64    `json:"blockGas"`
	SkipNonce bool      `json:"skipNonce"`

	FromReal *common.Address `json:"-"` // sender address when it is not a small integer (From holds its token)

	// EIP-4844 envelope (no blob data): version bytes of the blob hashes, fee cap, base fee
	BlobTx      bool   `json:"blobTx"`
	BlobVers    []int  `json:"blobVers"`
	BlobFeeCap  uint64 `json:"blobFeeCap"`
	BlobBaseFee uint64 `json:"blobBaseFee"`
	// EIP-7702 authorisation list as the specification sees it, and the signed tuples
	SetCode   bool                         `json:"setCode"`
	Auths     []AuthEv                     `json:"auths"`
	AuthList  []types.SetCodeAuthorization `json:"-"`
	ToReal    *common.Address              `json:"-"` // recipient when it is a token (To < 0)
	PreIntern []common.Address             `json:"-"` // addresses interned (in this order) before execution
}

type Acct struct {
	Addr  int64     `json:"addr"`
	Bal   uint64    `json:"bal"`
	Nonce uint64    `json:"nonce"`
	Code  []int     `json:"code"`
	Stor  [][]int64 `json:"stor"`
}

func AcctsOf(w *World) []Acct {
	out := []Acct{}
	for _, a := range w.Accounts {
		st := [][]int64{}
		for _, k := range a.SortedSlots() {
			if a.Storage[k] != 0 {
				st = append(st, []int64{int64(k), int64(a.Storage[k])})
			}
		}
		out = append(out, Acct{a.ID(), a.Balance, a.Nonce, Bytes(a.Code), st})
	}
	return out
}

type Result struct {
	Valid   bool
	Ok      bool
	GasUsed uint64
	Ret     []byte
	St      *state.StateDB
	Tr      *Tracer
}

// execute runs one transaction on a fresh state; traced selects full event recording.
func Execute(w *World, tx *Tx, data []byte, traced bool) *Result {
	return ExecuteWith(w, tx, data, &ExecOpts{Traced: traced})
}

// AuthKeys are the fixed keys of the EIP-7702 authorities of generated worlds.
var AuthKeys = func() []*ecdsa.PrivateKey {
	var out []*ecdsa.PrivateKey
	for _, h := range []string{"8a1f9a8f95be41cd7ccb6168179afb4504aefe388d1e14474d32c45c72ce7b7a", "49a7b37aa6f6645917e7b807e9d1c00d4fa71f18343b0d4122a4d2df64dd6fee"} {
		k, err := crypto.HexToECDSA(h)
		if err != nil {
			panic(err)
		}
		out = append(out, k)
	}
	return out
}()

// AuthAddr returns the address of authority i.
func AuthAddr(i int) common.Address { return crypto.PubkeyToAddress(AuthKeys[i].PublicKey) }

// SignAuths builds the signed tuples described by evs (authority token -2-i = AuthKeys[i]).
func SignAuths(evs []AuthEv) []types.SetCodeAuthorization {
	out := []types.SetCodeAuthorization{}
	for _, ev := range evs {
		chain, key := uint64(1), AuthKeys[0]
		if !ev.ChainOk {
			chain = 5
		}
		if ev.Authority <= -2 {
			key = AuthKeys[-2-ev.Authority]
		}
		au, err := types.SignSetCode(key, types.SetCodeAuthorization{ChainID: *uint256.NewInt(chain), Address: Addr(uint64(ev.Target)), Nonce: ev.Nonce})
		if err != nil {
			panic(err)
		}
		if ev.Authority == -1 {
			au.V = 4 // does not recover
		}
		out = append(out, au)
	}
	return out
}

// AuthEv is one authorisation tuple: chain id acceptable, nonce, delegation target (small
// address, 0 = clear) and the recovered authority (token; -1 = signature does not recover).
type AuthEv struct {
	ChainOk   bool   `json:"chainOk"`
	Nonce     uint64 `json:"nonce"`
	Target    int64  `json:"target"`
	Authority int64  `json:"authority"`
}

// Sender returns the 20-byte sender address.
func (tx *Tx) Sender() common.Address {
	if tx.FromReal != nil {
		return *tx.FromReal
	}
	return Addr(uint64(tx.From))
}

// ExecOpts selects the resources an execution shares with others (C28).
type ExecOpts struct {
	Traced    bool                // record full events (otherwise only the digest)
	JumpCache vm.JumpDestCache    // shared jump-destination analysis cache (nil: per EVM)
	PreCache  *vm.PrecompileCache // shared precompile result cache (nil: none)
	EVM       *vm.EVM             // reuse this EVM instance (its arena, its caches); not released
	Gate      func(t *Tracer, op byte, addr common.Address)
	Hash      common.Hash // hash of the result digest input (unused)
}

// NewEVMFor builds an EVM for the fork of tx over a throw-away state (used to hold an arena
// across several executions).
func NewEVMFor(fork string) *vm.EVM {
	cfg := ChainConfig(fork)
	header := Header(30_000_000, 0)
	rules := cfg.Rules(header.Number, true, header.Time)
	st := (&World{}).NewState(rules)
	return vm.NewEVM(core.NewEVMBlockContext(header, NewChain(cfg), nil), st, cfg, vm.Config{})
}

func ExecuteWith(w *World, tx *Tx, data []byte, o *ExecOpts) *Result {
	traced := o.Traced
	cfg := ChainConfig(tx.Fork)
	header := Header(tx.BlockGas, tx.BaseFee)
	rules := cfg.Rules(header.Number, true, header.Time)
	st := w.NewState(rules)
	tr := NewTracer()
	tr.Light = !traced
	if tx.FromReal != nil {
		tr.In.Addr(*tx.FromReal) // the sender is always token -2
	}
	for _, a := range tx.PreIntern {
		tr.In.Addr(a)
	}
	bctx := core.NewEVMBlockContext(header, NewChain(cfg), nil)
	hooks := tr.Hooks()
	if o.Gate != nil {
		inner := hooks.OnOpcode
		hooks.OnOpcode = func(pc uint64, op byte, gas, cost uint64, scope tracing.OpContext, rData []byte, depth int, err error) {
			inner(pc, op, gas, cost, scope, rData, depth, err)
			o.Gate(tr, op, scope.Address())
		}
	}
	var evm *vm.EVM
	if o.EVM != nil {
		// same instance (same arena); point it at this execution's state and tracer
		evm = o.EVM
		evm.Context = bctx
		evm.SetStateDB(st)
		evm.Config.Tracer = hooks
	} else {
		evm = vm.NewEVM(bctx, st, cfg, vm.Config{Tracer: hooks})
		defer evm.Release()
	}
	if o.JumpCache != nil {
		evm.SetJumpDestCache(o.JumpCache)
	}
	if o.PreCache != nil {
		evm.SetPrecompileCache(o.PreCache)
	}
	msg := &core.Message{
		From:            tx.Sender(),
		Nonce:           tx.Nonce,
		Value:           uint256.NewInt(tx.Value),
		GasLimit:        tx.Gas,
		GasPrice:        uint256.NewInt(tx.Price),
		GasFeeCap:       uint256.NewInt(tx.FeeCap),
		GasTipCap:       uint256.NewInt(tx.Tip),
		Data:            data,
		SkipNonceChecks: tx.SkipNonce,
	}
	if tx.BlobTx {
		msg.BlobGasFeeCap = uint256.NewInt(tx.BlobFeeCap)
		msg.BlobHashes = []common.Hash{}
		for i, v := range tx.BlobVers {
			msg.BlobHashes = append(msg.BlobHashes, common.Hash{byte(v), 0xb1, byte(i)})
		}
	}
	if tx.SetCode {
		msg.SetCodeAuthorizations = tx.AuthList
		if msg.SetCodeAuthorizations == nil {
			msg.SetCodeAuthorizations = []types.SetCodeAuthorization{}
		}
	}
	if !tx.IsCreate {
		a := Addr(uint64(tx.To))
		if tx.ToReal != nil {
			a = *tx.ToReal
		}
		msg.To = &a
	}
	for i, a := range tx.AlAddrs {
		tup := types.AccessTuple{Address: Addr(uint64(a))}
		for _, k := range tx.AlKeys {
			if k[0] == a && firstIndex(tx.AlAddrs, a) == i {
				tup.StorageKeys = append(tup.StorageKeys, U2H(uint64(k[1])))
			}
		}
		msg.AccessList = append(msg.AccessList, tup)
	}
	st.SetTxContext(common.Hash{1}, 0, 0)
	gp := core.NewGasPool(tx.BlockGas)
	res, err := core.ApplyMessage(evm, msg, gp)
	out := &Result{St: st, Tr: tr}
	if err != nil {
		if os.Getenv("C26_DEBUG") != "" {
			fmt.Fprintln(os.Stderr, "invalid:", err)
		}
		return out
	}
	st.Finalise(rules)
	out.Valid, out.Ok, out.GasUsed, out.Ret = true, !res.Failed(), res.UsedGas, res.ReturnData
	return out
}

func firstIndex(xs []int64, x int64) int {
	for i, y := range xs {
		if y == x {
			return i
		}
	}
	return -1
}

// post dumps the accounts the specification is asked about.
func Post(r *Result, w *World, tx *Tx) ([]map[string]any, bool) {
	in := r.Tr.In
	addrs := map[int64]common.Address{}
	for _, a := range w.Accounts {
		addrs[a.ID()] = a.Address()
	}
	addrs[tx.Coinbase] = Addr(uint64(tx.Coinbase))
	if !tx.IsCreate {
		addrs[tx.To] = Addr(uint64(tx.To))
	}
	// created contracts / callees / beneficiaries seen by the tracer
	for k := range r.Tr.Addrs {
		if _, ok := addrs[k]; !ok {
			if a, ok := in.RealAddr(k); ok {
				addrs[k] = a
			}
		}
	}
	keys := make([]int64, 0, len(addrs))
	for k := range addrs {
		keys = append(keys, k)
	}
	sort.Slice(keys, func(i, j int) bool { return keys[i] < keys[j] })
	out := []map[string]any{}
	fits := true
	for _, k := range keys {
		a := addrs[k]
		bal := r.St.GetBalance(a)
		if !bal.IsUint64() || bal.Uint64() >= 1<<31 {
			fits = false
			continue
		}
		slots := map[int64]bool{}
		if pa := w.Get(uint64(k)); pa != nil && k >= 0 {
			for s := range pa.Storage {
				slots[int64(s)] = true
			}
		}
		for s := range r.Tr.Slots[k] {
			slots[s] = true
		}
		sk := make([]int64, 0, len(slots))
		for s := range slots {
			sk = append(sk, s)
		}
		sort.Slice(sk, func(i, j int) bool { return sk[i] < sk[j] })
		stor := [][]int64{}
		for _, s := range sk {
			key, ok := in.RealWord(s)
			if !ok {
				continue
			}
			v := r.St.GetState(a, key)
			stor = append(stor, []int64{s, in.Word(new(uint256.Int).SetBytes(v[:]))})
		}
		out = append(out, map[string]any{"addr": k, "bal": bal.Uint64(), "nonce": r.St.GetNonce(a), "clen": len(r.St.GetCode(a)), "stor": stor})
	}
	return out, fits
}

func LogsOf(r *Result) []map[string]any {
	out := []map[string]any{}
	for _, l := range r.St.Logs() {
		tops := []int64{}
		for _, t := range l.Topics {
			tops = append(tops, r.Tr.In.Word(new(uint256.Int).SetBytes(t[:])))
		}
		out = append(out, map[string]any{"addr": r.Tr.In.Addr(l.Address), "topics": tops, "data": r.Tr.In.Words(l.Data), "dlen": len(l.Data)})
	}
	return out
}

// ---------------------------------------------------------------- scenario generation

type Scenario struct {
	W    *World
	Tx   *Tx
	Data []byte
	Kind string
}

func GenScenario(r *rand.Rand) *Scenario {
	w := &World{}
	fork := Forks[r.Intn(3)]
	rich := r.Intn(3) != 0
	withAuth := fork != "cancun" && r.Intn(5) == 0
	var bigTargets [][]byte
	if withAuth {
		for i := 0; i < 2; i++ {
			a := AuthAddr(i)
			bigTargets = append(bigTargets, a[:])
		}
	}
	leaf := Opts{MaxDepth: 1, Stmts: 4, FailBias: 3, AllowOpaque: rich, AllowBig: r.Intn(2) == 0, AllowGas: r.Intn(2) == 0,
		AllowDestruct: r.Intn(3) == 0, IgnoreCallFail: true}
	mid := leaf
	mid.Targets = []uint64{AddrC3, AddrC1, AddrDeleg}
	mid.BigTargets = bigTargets
	top := Opts{MaxDepth: 2, Stmts: 6, FailBias: 1, Targets: []uint64{AddrC2, AddrC3, AddrDeleg}, BigTargets: bigTargets, AllowOpaque: rich, AllowBig: r.Intn(2) == 0,
		AllowGas: r.Intn(2) == 0, AllowCreate: r.Intn(3) == 0, AllowDestruct: r.Intn(4) == 0, IgnoreCallFail: true}
	code := func(o Opts) []byte {
		if r.Intn(12) == 0 {
			return RawProgram(r, 10+r.Intn(40))
		}
		return Generate(r, o).Code
	}
	mkStore := func() map[uint64]uint64 {
		m := map[uint64]uint64{}
		for s := uint64(0); s < 3; s++ {
			if r.Intn(2) == 0 {
				m[s] = uint64(1 + r.Intn(2))
			}
		}
		return m
	}
	bal := func() uint64 {
		if r.Intn(3) == 0 {
			return 0 // zero balances matter: SELFDESTRUCT / CALL new-account charges depend on them
		}
		return uint64(r.Intn(3000))
	}
	w.Add(&Account{Addr: AddrC1, Balance: bal(), Nonce: 1, Code: code(top), Storage: mkStore()})
	w.Add(&Account{Addr: AddrC2, Balance: bal(), Nonce: 1, Code: code(mid), Storage: mkStore()})
	w.Add(&Account{Addr: AddrC3, Balance: bal(), Nonce: 1, Code: code(leaf), Storage: mkStore()})
	w.Add(&Account{Addr: AddrEOA2, Balance: uint64(r.Intn(10)), Nonce: uint64(r.Intn(2))})
	hasDeleg := r.Intn(2) == 0
	if hasDeleg {
		// an EIP-7702 delegated account (plain invalid code 0xEF.. before Prague)
		tgt := []uint64{AddrC3, AddrC3, AddrC2, AddrEOA2, AddrEmpty, 4, AddrDeleg}[r.Intn(7)]
		w.Add(&Account{Addr: AddrDeleg, Balance: uint64(r.Intn(5)), Nonce: 1, Code: Delegation(tgt)})
	}
	if r.Intn(3) == 0 {
		w.Add(&Account{Addr: AddrCoinbase, Balance: uint64(r.Intn(10))})
	}
	if withAuth {
		for i := 0; i < 2; i++ {
			a := AuthAddr(i)
			switch r.Intn(5) {
			case 0: // funded EOA
				w.Add(&Account{Real: &a, Tok: int64(-2 - i), Balance: uint64(1 + r.Intn(50)), Nonce: uint64(r.Intn(2))})
			case 1: // already delegated
				w.Add(&Account{Real: &a, Tok: int64(-2 - i), Balance: uint64(r.Intn(3)), Nonce: 1, Code: Delegation([]uint64{AddrC3, AddrC2}[r.Intn(2)])})
			case 2: // a contract: authorisations for it are invalid
				w.Add(&Account{Real: &a, Tok: int64(-2 - i), Nonce: 1, Code: []byte{PUSH0, PUSH0, SSTORE, STOP}})
			}
		}
	}
	tx := &Tx{Fork: fork, From: AddrSender, Coinbase: AddrCoinbase, BlockGas: 30_000_000, AlAddrs: []int64{}, AlKeys: [][]int64{}, Data: []int{}, DataW: []int64{},
		BlobVers: []int{}, BlobBaseFee: 1, Auths: []AuthEv{}}
	tx.BaseFee = uint64(r.Intn(8))
	tx.Tip = uint64(r.Intn(4))
	tx.FeeCap = tx.BaseFee + tx.Tip + uint64(r.Intn(3))
	if r.Intn(4) == 0 {
		tx.FeeCap = tx.BaseFee + uint64(r.Intn(3)) // price capped by the fee cap
		tx.Tip = min(tx.Tip, tx.FeeCap)
	}
	tx.Price = min(tx.FeeCap, tx.BaseFee+tx.Tip)
	tx.Nonce = uint64(r.Intn(3))
	if r.Intn(3) == 0 {
		tx.Value = uint64(r.Intn(2000))
	}
	sc := &Scenario{W: w, Tx: tx}
	switch k := r.Intn(20); {
	case k < 1:
		sc.Kind = "transfer"
		tx.To = []int64{AddrEOA2, AddrEmpty, 4, 2}[r.Intn(4)]
	case k < 4:
		sc.Kind = "create"
		tx.IsCreate = true
		rt := Generate(r, leaf).Code
		if r.Intn(3) == 0 {
			sc.Data = InitCode(Generate(r, top).Code, rt, true)
		} else {
			sc.Data = InitCode(nil, rt, false)
		}
	default:
		sc.Kind = "call"
		tx.To = AddrC1
		if hasDeleg && r.Intn(8) == 0 {
			sc.Kind = "call-deleg"
			tx.To = AddrDeleg
		}
		if sc.Kind == "call" && r.Intn(9) == 0 {
			// failed (and successful) creations followed by accesses to the aimed-at address
			sc.Kind = "create-touch"
			w.Get(AddrC1).Code = CreateTouchProgram(r, Addr(AddrC1), 1)
		}
		nw := r.Intn(4)
		for i := 0; i < nw; i++ {
			word := make([]byte, 32)
			word[31] = byte(r.Intn(4))
			if r.Intn(6) == 0 {
				word[r.Intn(32)] = byte(r.Intn(256))
			}
			sc.Data = append(sc.Data, word...)
		}
		if r.Intn(6) == 0 {
			sc.Data = append(sc.Data, byte(r.Intn(3)), 7)
		}
		if r.Intn(8) == 0 {
			// calldata-heavy: the EIP-7623 floor comes close to (or above) the execution gas
			for k, m := 0, 64+32*r.Intn(14); k < m; k++ {
				sc.Data = append(sc.Data, byte(1+r.Intn(255)))
			}
		}
	}
	tx.Data = Bytes(sc.Data)
	// access list
	if r.Intn(3) == 0 {
		for _, a := range []int64{AddrC1, AddrC2, AddrC3, AddrEOA2, AddrEmpty} {
			if r.Intn(3) == 0 {
				tx.AlAddrs = append(tx.AlAddrs, a)
				for s := int64(0); s < 3; s++ {
					if r.Intn(3) == 0 {
						tx.AlKeys = append(tx.AlKeys, []int64{a, s})
					}
				}
			}
		}
	}
	if withAuth {
		tx.PreIntern = []common.Address{AuthAddr(0), AuthAddr(1)} // their tokens are -2 and -3 in every trace of this world
	}
	// EIP-4844 envelope
	if sc.Kind == "call" && r.Intn(10) == 0 {
		tx.BlobTx = true
		n := 1 + r.Intn(3)
		if fork == "osaka" && r.Intn(8) == 0 {
			n = 7
		}
		for i := 0; i < n; i++ {
			v := 1
			if r.Intn(25) == 0 {
				v = 2
			}
			tx.BlobVers = append(tx.BlobVers, v)
		}
		tx.BlobFeeCap = []uint64{1, 1, 5, 40, 0}[r.Intn(5)]
		if r.Intn(30) == 0 {
			tx.BlobVers = []int{}
		}
	}
	// EIP-7702 authorisation list
	if (sc.Kind == "call" || sc.Kind == "call-deleg") && fork != "cancun" && !tx.BlobTx && withAuth {
		tx.SetCode = true
		nonces := map[int]uint64{}
		for i := 0; i < 2; i++ {
			if a := w.GetReal(AuthAddr(i)); a != nil {
				nonces[i] = a.Nonce
			}
		}
		for k, n := 0, 1+r.Intn(3); k < n; k++ {
			i := r.Intn(2)
			ev := AuthEv{ChainOk: true, Nonce: nonces[i], Target: []int64{AddrC3, AddrC3, AddrC2, 0, AddrDeleg, AddrEOA2}[r.Intn(6)], Authority: int64(-2 - i)}
			chain := uint64(r.Intn(2))
			if r.Intn(10) == 0 {
				chain, ev.ChainOk = 5, false
			}
			if r.Intn(8) == 0 {
				ev.Nonce += uint64(1 + r.Intn(2))
			}
			au, err := types.SignSetCode(AuthKeys[i], types.SetCodeAuthorization{ChainID: *uint256.NewInt(chain), Address: Addr(uint64(ev.Target)), Nonce: ev.Nonce})
			if err != nil {
				panic(err)
			}
			if r.Intn(12) == 0 {
				au.V = 4 // does not recover
				ev.Authority = -1
			}
			tx.AuthList = append(tx.AuthList, au)
			tx.Auths = append(tx.Auths, ev)
			// what a valid tuple does to the authority's nonce (for the following tuples)
			if a := w.GetReal(AuthAddr(i)); ev.ChainOk && ev.Authority != -1 && ev.Nonce == nonces[i] && (a == nil || len(a.Code) == 0 || len(a.Code) == 23) {
				nonces[i]++
			}
		}
		if r.Intn(40) == 0 {
			tx.AuthList, tx.Auths = nil, []AuthEv{}
		}
	}
	w.Add(&Account{Addr: AddrSender, Balance: 900_000_000 + uint64(r.Intn(100_000_000)), Nonce: tx.Nonce})
	// occasionally an invalid transaction
	switch r.Intn(40) {
	case 0:
		tx.Nonce++
	case 1:
		w.Get(AddrSender).Balance = uint64(r.Intn(50000))
	case 2:
		tx.FeeCap = tx.BaseFee - min(tx.BaseFee, 1)
		tx.Tip = min(tx.Tip, tx.FeeCap)
		tx.Price = tx.FeeCap
	case 3:
		tx.BlockGas = 100_000
	}
	return sc
}

// chooseGas picks the gas limit: generous, or somewhere below what a generous run used
// (so that execution runs out of gas at an arbitrary point).
func ChooseGas(r *rand.Rand, sc *Scenario) {
	sc.Tx.Gas = 1_000_000 + uint64(r.Intn(2_000_000))
	if r.Intn(5) < 2 {
		return
	}
	probe := Execute(sc.W, sc.Tx, sc.Data, false)
	if !probe.Valid {
		return
	}
	used := probe.GasUsed
	switch r.Intn(4) {
	case 0:
		sc.Tx.Gas = used + uint64(r.Intn(3000))
	case 1:
		sc.Tx.Gas = 20000 + uint64(r.Int63n(int64(used)))
	default:
		lo := uint64(21000)
		if used > lo {
			sc.Tx.Gas = lo + uint64(r.Int63n(int64(used-lo+1)))
		} else {
			sc.Tx.Gas = used
		}
	}
	if sc.Tx.Fork == "osaka" && r.Intn(60) == 0 {
		sc.Tx.Gas = 16_777_217 + uint64(r.Intn(3)) // above the EIP-7825 cap: invalid
	}
}
