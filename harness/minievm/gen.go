package minievm

import (
	"math/rand"
)

// Opts steers the structured program generator.
type Opts struct {
	AllowGas       bool     // GAS opcode may influence control flow / call gas (=> not gas-monotone)
	AllowOpaque    bool     // sprinkle opcodes outside the MiniEVM fragment
	AllowCreate    bool     // CREATE / CREATE2 statements
	AllowDestruct  bool     // SELFDESTRUCT terminals
	AllowBig       bool     // constants >= 2^30 (tokens for the specification)
	IgnoreCallFail bool     // call results may be ignored (=> not gas-monotone)
	NoSenderBal    bool     // never read the sender's balance (depends on the gas limit)
	Targets        []uint64 // callable addresses
	BigTargets     [][]byte // callable 20-byte addresses (tokens for the specification)
	MaxDepth       int      // nesting of if / loop blocks
	Stmts          int      // statements per block (upper bound)
	Slots          int      // number of storage slots used (0..Slots-1)
	FailBias       int      // 0..10: how often blocks end in REVERT / INVALID
}

// Prog is a generated program and what the generator knows about it.
type Prog struct {
	Code     []byte
	Monotone bool           // success is monotone in the gas limit (by construction)
	Feat     map[string]int // feature counters (statement kinds emitted)
}

type gen struct {
	r    *rand.Rand
	o    Opts
	a    *Asm
	mono bool
	feat map[string]int
	data []dataBlob // initcode blobs appended after the program
}

type dataBlob struct {
	label string
	bytes []byte
}

// Generate builds one program.
func Generate(r *rand.Rand, o Opts) *Prog {
	if o.Stmts == 0 {
		o.Stmts = 5
	}
	if o.Slots == 0 {
		o.Slots = 3
	}
	g := &gen{r: r, o: o, a: NewAsm(), mono: true, feat: map[string]int{}}
	terminated := g.block(0, o.Stmts)
	if !terminated {
		g.terminal(true)
	}
	for _, d := range g.data {
		g.a.Mark(d.label)
		g.a.Op(d.bytes...)
	}
	return &Prog{Code: g.a.Bytes(), Monotone: g.mono, Feat: g.feat}
}

func (g *gen) count(k string) { g.feat[k]++ }

func (g *gen) smallConst() uint64 {
	switch g.r.Intn(10) {
	case 0, 1, 2:
		return 0
	case 3, 4:
		return 1
	case 5:
		return 2
	case 6:
		return uint64(g.r.Intn(8))
	case 7:
		return uint64(g.r.Intn(300))
	case 8:
		return uint64(g.r.Intn(70000))
	default:
		if g.o.AllowBig {
			return []uint64{1<<30 - 1, 1 << 30, 1<<31 - 1, 1 << 31, 1<<32 - 1, 0x3fffffff + 2}[g.r.Intn(6)]
		}
		return uint64(g.r.Intn(1 << 20))
	}
}

func (g *gen) memOff() uint64 {
	switch g.r.Intn(12) {
	case 0:
		return uint64(g.r.Intn(200)) // unaligned (opaque for the specification)
	case 1:
		return uint64(32 * (8 + g.r.Intn(40)))
	default:
		return uint64(32 * g.r.Intn(8))
	}
}

func (g *gen) slot() uint64 { return uint64(g.r.Intn(g.o.Slots)) }

func (g *gen) anyAddr() uint64 {
	c := []uint64{AddrC1, AddrC2, AddrC3, AddrEmpty, AddrEOA2, AddrCoinbase, 1, 2, 4, 9}
	if !g.o.NoSenderBal {
		c = append(c, AddrSender)
	}
	return c[g.r.Intn(len(c))]
}

// expr emits code pushing exactly one word.
func (g *gen) expr(d int) {
	a := g.a
	if d <= 0 || g.r.Intn(3) == 0 {
		// leaves
		switch g.r.Intn(14) {
		case 0, 1, 2, 3:
			a.Push(g.smallConst())
		case 4:
			a.Push(g.slot()).Op(SLOAD)
			g.count("SLOAD")
		case 5:
			a.Push(g.slot()).Op(TLOAD)
			g.count("TLOAD")
		case 6:
			a.Push(g.memOff()).Op(MLOAD)
			g.count("MLOAD")
		case 7:
			a.Op([]byte{CALLVALUE, CALLER, ADDRESS, SELFBALANCE, PC}[g.r.Intn(5)])
		case 8:
			a.Push(uint64(32 * g.r.Intn(4))).Op(CALLDATALOAD)
		case 9:
			a.Push(g.anyAddr()).Op(BALANCE)
			g.count("BALANCE")
		case 10:
			if g.o.AllowGas && g.r.Intn(2) == 0 {
				a.Op(GAS)
				g.mono = false
				g.count("GAS")
			} else {
				a.Push(g.smallConst())
			}
		case 11:
			if g.o.AllowOpaque {
				switch g.r.Intn(4) {
				case 0:
					a.Op([]byte{CODESIZE, CALLDATASIZE, RETURNDATASIZE, TIMESTAMP, NUMBER, GASLIMIT, CHAINID, BASEFEE, COINBASE, ORIGIN, GASPRICE, MSIZE}[g.r.Intn(12)])
				case 1:
					a.Push(g.anyAddr()).Op([]byte{EXTCODESIZE, EXTCODEHASH}[g.r.Intn(2)])
				case 2:
					a.Push(uint64(g.r.Intn(100))).Push(g.memOff()).Op(KECCAK256)
				default:
					a.Push(g.smallConst())
				}
				g.count("opaque")
			} else {
				a.Push(g.smallConst())
			}
		default:
			a.Push(uint64(g.r.Intn(4)))
		}
		return
	}
	switch g.r.Intn(12) {
	case 0, 1:
		g.expr(d - 1)
		g.expr(d - 1)
		a.Op(ADD)
	case 2:
		g.expr(d - 1)
		g.expr(d - 1)
		a.Op(SUB)
	case 3:
		g.expr(d - 1)
		g.expr(d - 1)
		a.Op([]byte{LT, GT, EQ}[g.r.Intn(3)])
	case 4:
		g.expr(d - 1)
		a.Op(ISZERO)
	case 5:
		g.expr(d - 1)
		g.expr(d - 1)
		a.Op([]byte{AND, OR}[g.r.Intn(2)])
	case 6:
		// DUP / SWAP exercise: a b -> dup2 ... pop
		g.expr(d - 1)
		g.expr(d - 1)
		n := 1 + g.r.Intn(2)
		a.Op(byte(DUP1 + n - 1))
		a.Op(byte(SWAP1 + g.r.Intn(2)))
		a.Op(POP, POP)
	case 7:
		if g.o.AllowOpaque {
			g.expr(d - 1)
			g.expr(d - 1)
			a.Op([]byte{MUL, DIV, MOD, XOR, SHL, SHR, EXP}[g.r.Intn(7)])
			g.count("opaque")
		} else {
			g.expr(d - 1)
		}
	case 8:
		if g.o.AllowOpaque {
			g.expr(d - 1)
			a.Op(NOT)
			g.count("opaque")
		} else {
			g.expr(d - 1)
		}
	default:
		g.expr(d - 1)
	}
}

// smallExpr pushes a value that is usually a small storage-friendly number.
func (g *gen) valExpr() {
	if g.r.Intn(3) == 0 {
		g.expr(2)
	} else {
		g.a.Push(uint64(g.r.Intn(3)))
	}
}

// terminal emits a frame-ending statement.
func (g *gen) terminal(preferOK bool) {
	a := g.a
	k := g.r.Intn(10)
	if !preferOK && k < g.o.FailBias {
		switch g.r.Intn(3) {
		case 0:
			a.Push(uint64(32 * g.r.Intn(3))).Push(g.memOff()).Op(REVERT)
			g.count("REVERT")
		case 1:
			a.Op(INVALID)
			g.count("INVALID")
		default:
			a.Push(0).Push(0).Op(REVERT)
			g.count("REVERT")
		}
		return
	}
	switch g.r.Intn(6) {
	case 0, 1:
		a.Op(STOP)
	case 2, 3:
		a.Push(uint64(32 * g.r.Intn(4))).Push(g.memOff()).Op(RETURN)
		g.count("RETURN")
	case 4:
		if g.o.AllowDestruct {
			a.Push(g.anyAddr()).Op(SELFDESTRUCT)
			g.count("SELFDESTRUCT")
		} else {
			a.Op(STOP)
		}
	default:
		a.Op(STOP)
	}
}

// block emits up to n statements; reports whether the block ended with a terminal.
func (g *gen) block(depth, n int) bool {
	cnt := 1 + g.r.Intn(n)
	for i := 0; i < cnt; i++ {
		if g.stmt(depth) {
			return true
		}
	}
	return false
}

// stmt emits one stack-neutral statement; reports true if it was a terminal.
func (g *gen) stmt(depth int) bool {
	a := g.a
	k := g.r.Intn(100)
	switch {
	case k < 22:
		g.valExpr()
		a.Push(g.slot()).Op(SSTORE)
		g.count("SSTORE")
	case k < 27:
		g.valExpr()
		a.Push(g.slot()).Op(TSTORE)
		g.count("TSTORE")
	case k < 37:
		g.expr(2)
		a.Push(g.memOff()).Op(MSTORE)
		g.count("MSTORE")
	case k < 42:
		g.expr(3)
		a.Op(POP)
	case k < 47:
		if g.r.Intn(2) == 0 {
			a.Push(uint64(32 * g.r.Intn(3))).Push(g.memOff()).Op(LOG0)
		} else {
			g.expr(1)
			a.Push(uint64(32 * g.r.Intn(3))).Push(g.memOff()).Op(LOG1)
		}
		g.count("LOG")
	case k < 57:
		if depth >= g.o.MaxDepth {
			g.expr(2)
			a.Op(POP)
			break
		}
		// if (expr) { block }
		end := a.NewLabel()
		g.expr(2)
		a.Op(ISZERO).PushLabel(end).Op(JUMPI)
		g.count("IF")
		if !g.block(depth+1, g.o.Stmts) && g.r.Intn(3) == 0 {
			g.terminal(false)
		}
		a.Label(end)
	case k < 63:
		if depth >= g.o.MaxDepth {
			break
		}
		// loop n times { block }: the counter lives on the stack below the body
		top := a.NewLabel()
		a.Push(uint64(1 + g.r.Intn(4)))
		a.Label(top)
		g.count("LOOP")
		saved := g.o.FailBias
		g.o.FailBias = 0
		term := g.block(depth+1, 2)
		g.o.FailBias = saved
		if term {
			// body ended the frame; the rest is dead code but must stay well-formed
			a.Label(a.NewLabel())
		}
		a.Push(1).Op(SWAP1, SUB, DUP1).PushLabel(top).Op(JUMPI, POP)
	case k < 80:
		if len(g.o.Targets) == 0 {
			break
		}
		g.call()
	case k < 84:
		if g.o.AllowCreate {
			g.create()
		}
	case k < 88:
		if g.o.AllowOpaque {
			switch g.r.Intn(4) {
			case 0:
				a.Push(uint64(g.r.Intn(64))).Push(uint64(g.r.Intn(64))).Push(g.memOff()).Op(CALLDATACOPY)
			case 1:
				a.Push(uint64(g.r.Intn(64))).Push(uint64(g.r.Intn(64))).Push(g.memOff()).Op(CODECOPY)
			case 2:
				a.Push(uint64(g.r.Intn(64))).Push(g.memOff()).Push(g.memOff()).Op(MCOPY)
			default:
				g.expr(1)
				a.Push(g.memOff()).Op(MSTORE8)
			}
			g.count("opaque")
		}
	case k < 92:
		if depth > 0 {
			g.terminal(false)
			return true
		}
	default:
		g.valExpr()
		a.Push(g.slot()).Op(SSTORE)
		g.count("SSTORE")
	}
	return false
}

// call emits a call-family statement and the handling of its result.
func (g *gen) call() {
	a := g.a
	kind := []byte{CALL, CALL, CALL, STATICCALL, DELEGATECALL, CALLCODE}[g.r.Intn(6)]
	target := g.o.Targets[g.r.Intn(len(g.o.Targets))]
	if g.r.Intn(8) == 0 {
		target = g.anyAddr()
	}
	// retLen retOff argsLen argsOff [value] addr gas
	a.Push(uint64(32 * g.r.Intn(3))).Push(uint64(32 * g.r.Intn(6)))
	a.Push(uint64(32 * g.r.Intn(3))).Push(uint64(32 * g.r.Intn(6)))
	if kind == CALL || kind == CALLCODE {
		switch g.r.Intn(6) {
		case 0:
			a.Push(1)
		case 1:
			a.Push(uint64(g.r.Intn(2000)))
		case 2:
			a.Push(1 << 29) // more than any balance of the generated worlds
		default:
			a.Push(0)
		}
	}
	if len(g.o.BigTargets) > 0 && g.r.Intn(4) == 0 {
		a.PushBytes(g.o.BigTargets[g.r.Intn(len(g.o.BigTargets))])
	} else {
		a.Push(target)
	}
	switch g.r.Intn(8) {
	case 0:
		a.Push(uint64(g.r.Intn(3000)))
	case 1:
		a.Push(uint64(2300 + g.r.Intn(30000)))
	case 2:
		if g.o.AllowGas {
			a.Op(GAS)
			g.count("GAS")
			// forwarding "all gas" is capped by the 63/64 rule: monotone in itself
		} else {
			a.Push(1 << 24)
		}
	default:
		a.Push(uint64(100000 + g.r.Intn(3000000)))
	}
	a.Op(kind)
	g.count("CALL")
	g.resultHandling()
}

// resultHandling consumes the success flag / created address on the stack top.
func (g *gen) resultHandling() {
	a := g.a
	h := g.r.Intn(3)
	if h == 0 && !g.o.IgnoreCallFail {
		h = 1
	}
	switch h {
	case 0:
		// ignore the outcome (possibly storing it)
		if g.r.Intn(2) == 0 {
			a.Op(POP)
		} else {
			a.Op(ISZERO, ISZERO).Push(g.slot()).Op(SSTORE)
		}
		g.mono = false
	default:
		// revert the frame if the callee failed
		ok := a.NewLabel()
		a.PushLabel(ok).Op(JUMPI)
		a.Push(0).Push(0).Op(REVERT)
		a.Label(ok)
	}
}

// create emits CREATE / CREATE2 of a generated init program appended as data.
func (g *gen) create() {
	a := g.a
	sub := g.o
	sub.AllowCreate = false
	sub.MaxDepth = 1
	sub.Stmts = 3
	ctor := Generate(g.r, sub)
	var rt []byte
	if g.r.Intn(5) != 0 {
		rsub := sub
		rsub.Targets = nil
		rt = Generate(g.r, rsub).Code
		if len(rt) > 200 {
			rt = rt[:0]
		}
	}
	init := InitCode(ctor.Code, rt, g.r.Intn(6) == 0)
	if !ctor.Monotone {
		g.mono = false
	}
	lbl := a.NewLabel() + "d"
	g.data = append(g.data, dataBlob{lbl, init})
	dst := uint64(32 * g.r.Intn(4))
	// CODECOPY(dst, codeOffset, len)
	a.Push(uint64(len(init))).PushLabel(lbl).Push(dst).Op(CODECOPY)
	if g.r.Intn(2) == 0 {
		a.Push(uint64(len(init))).Push(dst).Push(uint64(g.r.Intn(2))).Op(CREATE)
	} else {
		a.Push(uint64(g.r.Intn(3))).Push(uint64(len(init))).Push(dst).Push(uint64(g.r.Intn(2))).Op(CREATE2)
	}
	g.count("CREATE")
	switch g.r.Intn(3) {
	case 0:
		g.resultHandling()
	default:
		// call the created contract (address on the stack; zero if creation failed)
		a.Push(0).Push(0).Push(0).Push(0).Push(0) // retLen retOff argsLen argsOff value
		a.Op(byte(DUP1 + 5))                      // addr
		a.Push(200000).Op(CALL)
		if g.o.IgnoreCallFail {
			a.Op(POP, POP)
		} else {
			a.Op(POP) // call result ignored but the created address is checked below
			g.resultHandling()
		}
		g.mono = false // calling a possibly-zero address with ignored result
	}
}

// InitCode wraps constructor statements and a runtime body into init code:
// <ctor (non-terminating part)> ; CODECOPY(0, off, len) ; RETURN(0, len) ; <runtime>.
// When ctorEnds is set the constructor's own terminal is kept (it may STOP: empty code).
func InitCode(ctor, runtime []byte, ctorEnds bool) []byte {
	a := NewAsm()
	if ctorEnds {
		a.Op(ctor...)
	} else {
		// strip nothing: run a tiny fixed constructor instead of arbitrary code whose
		// terminal would prevent reaching the RETURN
		a.Push(1).Push(7).Op(SSTORE)
	}
	rt := a.NewLabel() + "rt"
	a.Push(uint64(len(runtime))).PushLabel(rt).Push(0).Op(CODECOPY)
	a.Push(uint64(len(runtime))).Push(0).Op(RETURN)
	a.Mark(rt)
	a.Op(runtime...)
	return a.Bytes()
}

// RawProgram produces byte soup over (mostly) fragment opcodes: exercises stack
// underflow, bad jumps, truncated pushes and every fault path.
func RawProgram(r *rand.Rand, n int) []byte {
	ops := []byte{STOP, ADD, SUB, LT, GT, EQ, ISZERO, AND, OR, POP, MLOAD, MSTORE, SLOAD, SSTORE, TLOAD, TSTORE,
		JUMP, JUMPI, PC, GAS, JUMPDEST, PUSH0, PUSH1, PUSH1, PUSH1, PUSH2, PUSH4, DUP1, DUP1 + 1, DUP1 + 3, SWAP1, SWAP1 + 2,
		ADDRESS, CALLER, CALLVALUE, BALANCE, SELFBALANCE, CALLDATALOAD, LOG0, LOG1, RETURN, REVERT, INVALID,
		CALL, STATICCALL, DELEGATECALL, CALLCODE, MUL, DIV, NOT, 0x0c, 0xef}
	out := make([]byte, 0, n+4)
	for len(out) < n {
		op := ops[r.Intn(len(ops))]
		// bias towards pushes so that the stack is usually deep enough
		if r.Intn(3) == 0 {
			op = PUSH1
		}
		out = append(out, op)
		if op >= PUSH1 && op <= PUSH32 {
			k := int(op-PUSH1) + 1
			for i := 0; i < k; i++ {
				if i == k-1 {
					out = append(out, byte(r.Intn(40)))
				} else {
					out = append(out, 0)
				}
			}
		}
	}
	return out
}
