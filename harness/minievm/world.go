package minievm

import (
	"math/big"
	"sort"

	"github.com/ethereum/go-ethereum/common"
	"github.com/ethereum/go-ethereum/consensus"
	"github.com/ethereum/go-ethereum/consensus/ethash"
	"github.com/ethereum/go-ethereum/core/state"
	"github.com/ethereum/go-ethereum/core/tracing"
	"github.com/ethereum/go-ethereum/core/types"
	"github.com/ethereum/go-ethereum/params"
	"github.com/holiman/uint256"
)

// Well-known small addresses of the generated worlds.
const (
	AddrC1       = 0x1001 // contracts
	AddrC2       = 0x1002
	AddrC3       = 0x1003
	AddrEmpty    = 0x1009 // never exists in the pre-state
	AddrEOA2     = 0x1010 // existing account without code
	AddrDeleg    = 0x1020 // EIP-7702 delegated account (code 0xef0100 ++ target)
	AddrSender   = 0x2001
	AddrCoinbase = 0x3001
)

// Addr maps a small integer to the 20-byte address with that big-endian value.
func Addr(n uint64) common.Address { return common.BigToAddress(new(big.Int).SetUint64(n)) }

// Account is one pre-state account of a generated world.
type Account struct {
	Addr    uint64            `json:"addr"`
	Balance uint64            `json:"bal"`
	Nonce   uint64            `json:"nonce"`
	Code    []byte            `json:"-"`
	Storage map[uint64]uint64 `json:"-"`
	Real    *common.Address   `json:"-"` // the actual 20-byte address when it is not a small integer
	Tok     int64             `json:"-"` // ... and the token that stands for it in traces
}

// ID returns the specification value of the account's address.
func (a *Account) ID() int64 {
	if a.Real != nil {
		return a.Tok
	}
	return int64(a.Addr)
}

// Address returns the 20-byte address of the account.
func (a *Account) Address() common.Address {
	if a.Real != nil {
		return *a.Real
	}
	return Addr(a.Addr)
}

// World is a generated pre-state.
type World struct {
	Accounts []*Account
}

func (w *World) Get(addr uint64) *Account {
	for _, a := range w.Accounts {
		if a.Addr == addr {
			return a
		}
	}
	return nil
}

// GetReal finds an account by its 20-byte address.
func (w *World) GetReal(addr common.Address) *Account {
	for _, a := range w.Accounts {
		if a.Address() == addr {
			return a
		}
	}
	return nil
}

func (w *World) Add(a *Account) *Account {
	if a.Storage == nil {
		a.Storage = map[uint64]uint64{}
	}
	w.Accounts = append(w.Accounts, a)
	return a
}

// SortedSlots returns the storage keys of an account in increasing order.
func (a *Account) SortedSlots() []uint64 {
	ks := make([]uint64, 0, len(a.Storage))
	for k := range a.Storage {
		ks = append(ks, k)
	}
	sort.Slice(ks, func(i, j int) bool { return ks[i] < ks[j] })
	return ks
}

func U2H(v uint64) common.Hash { return common.BigToHash(new(big.Int).SetUint64(v)) }

// NewState materialises the world as a committed StateDB (committed, so that the
// "original" storage values of EIP-2200 are the generated ones).
func (w *World) NewState(rules params.Rules) *state.StateDB {
	db := state.NewDatabaseForTesting()
	sdb, err := state.New(types.EmptyRootHash, db)
	if err != nil {
		panic(err)
	}
	for _, a := range w.Accounts {
		ad := a.Address()
		sdb.CreateAccount(ad)
		sdb.SetBalance(ad, uint256.NewInt(a.Balance), tracing.BalanceChangeUnspecified)
		sdb.SetNonce(ad, a.Nonce, tracing.NonceChangeUnspecified)
		if len(a.Code) > 0 {
			sdb.SetCode(ad, a.Code, tracing.CodeChangeUnspecified)
		}
		for k, v := range a.Storage {
			if v != 0 {
				sdb.SetState(ad, U2H(k), U2H(v))
			}
		}
	}
	root, err := sdb.Commit(rules, 0)
	if err != nil {
		panic(err)
	}
	out, err := state.New(root, db)
	if err != nil {
		panic(err)
	}
	return out
}

// Delegation returns the EIP-7702 delegation designator for a small target address.
func Delegation(target uint64) []byte {
	a := Addr(target)
	return append([]byte{0xef, 0x01, 0x00}, a[:]...)
}

func u64p(v uint64) *uint64 { return &v }

// ChainConfig returns the configuration with exactly the named rule set active
// ("cancun", "prague", "osaka") at time 0.
func ChainConfig(fork string) *params.ChainConfig {
	c := *params.MergedTestChainConfig
	c.PragueTime, c.OsakaTime, c.AmsterdamTime, c.BogotaTime, c.UBTTime = nil, nil, nil, nil, nil
	c.BPO1Time, c.BPO2Time, c.BPO3Time, c.BPO4Time, c.BPO5Time = nil, nil, nil, nil, nil
	switch fork {
	case "cancun":
	case "prague":
		c.PragueTime = u64p(0)
	case "osaka":
		c.PragueTime = u64p(0)
		c.OsakaTime = u64p(0)
	default:
		panic("minievm: unknown fork " + fork)
	}
	bs := *params.MergedTestChainConfig.BlobScheduleConfig
	c.BlobScheduleConfig = &bs
	return &c
}

var Forks = []string{"cancun", "prague", "osaka"}

// Header returns a post-merge header for the generated worlds.
func Header(gasLimit uint64, baseFee uint64) *types.Header {
	zero := uint64(0)
	return &types.Header{
		Number:        big.NewInt(1),
		Time:          10,
		Difficulty:    new(big.Int),
		GasLimit:      gasLimit,
		BaseFee:       new(big.Int).SetUint64(baseFee),
		Coinbase:      Addr(AddrCoinbase),
		ExcessBlobGas: &zero,
		BlobGasUsed:   &zero,
	}
}

// Chain is a minimal core.ChainContext (no ancestors).
type Chain struct {
	Cfg *params.ChainConfig
	eng consensus.Engine
}

func NewChain(cfg *params.ChainConfig) *Chain { return &Chain{Cfg: cfg, eng: ethash.NewFaker()} }

func (c *Chain) Engine() consensus.Engine                    { return c.eng }
func (c *Chain) Config() *params.ChainConfig                 { return c.Cfg }
func (c *Chain) CurrentHeader() *types.Header                { return nil }
func (c *Chain) GetHeader(common.Hash, uint64) *types.Header { return nil }
func (c *Chain) GetHeaderByNumber(uint64) *types.Header      { return nil }
func (c *Chain) GetHeaderByHash(common.Hash) *types.Header   { return nil }
