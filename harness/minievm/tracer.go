package minievm

import (
	"errors"
	"math/big"

	"github.com/ethereum/go-ethereum/common"
	"github.com/ethereum/go-ethereum/core/tracing"
	"github.com/ethereum/go-ethereum/core/vm"
	"github.com/holiman/uint256"
)

// W30 is the bound below which word values are exact for the specification.
const W30 = 1 << 30

// Interner maps 256-bit values to the integers of the specification: exact below 2^30,
// otherwise a token id <= -2 (first occurrence order).
type Interner struct {
	ids  map[[32]byte]int64
	Rev  map[int64][32]byte // token id -> the value
	next int64
}

func NewInterner() *Interner {
	return &Interner{ids: map[[32]byte]int64{}, Rev: map[int64][32]byte{}, next: -2}
}

// RealAddr returns the address denoted by a specification value (false if the value does
// not fit 160 bits).
func (in *Interner) RealAddr(v int64) (common.Address, bool) {
	if v >= 0 {
		return Addr(uint64(v)), true
	}
	b, ok := in.Rev[v]
	if !ok {
		return common.Address{}, false
	}
	for _, x := range b[:12] {
		if x != 0 {
			return common.Address{}, false
		}
	}
	return common.BytesToAddress(b[12:]), true
}

// RealWord returns the 32-byte value denoted by a specification value.
func (in *Interner) RealWord(v int64) (common.Hash, bool) {
	if v >= 0 {
		return U2H(uint64(v)), true
	}
	b, ok := in.Rev[v]
	return common.Hash(b), ok
}

func (in *Interner) Word(v *uint256.Int) int64 {
	if v.IsUint64() && v.Uint64() < W30 {
		return int64(v.Uint64())
	}
	k := v.Bytes32()
	if id, ok := in.ids[k]; ok {
		return id
	}
	id := in.next
	in.next--
	in.ids[k] = id
	in.Rev[id] = k
	return id
}

func (in *Interner) Addr(a common.Address) int64 {
	return in.Word(new(uint256.Int).SetBytes(a[:]))
}

func (in *Interner) Big(b *big.Int) int64 {
	if b == nil {
		return 0
	}
	v, _ := uint256.FromBig(b)
	return in.Word(v)
}

// Words splits a byte string into zero-padded 32-byte words.
func (in *Interner) Words(b []byte) []int64 {
	out := make([]int64, 0, (len(b)+31)/32)
	for i := 0; i < len(b); i += 32 {
		var w [32]byte
		copy(w[:], b[i:min(i+32, len(b))])
		out = append(out, in.Word(new(uint256.Int).SetBytes(w[:])))
	}
	return out
}

func Bytes(b []byte) []int {
	out := make([]int, len(b))
	for i, x := range b {
		out[i] = int(x)
	}
	return out
}

type Ev = map[string]any

// modeled[op] is true for the opcodes MiniEVM.tla gives semantics to (mirror of Arity in
// the specification; a transaction executing anything else is left out of the trace).
var modeled [256]bool

func init() {
	for _, r := range [][2]int{{0x00, 0x0b}, {0x10, 0x1e}, {0x20, 0x20}, {0x30, 0x3b}, {0x3d, 0x3f}, {0x41, 0x48}, {0x4a, 0x4a},
		{0x50, 0x5f}, {0x60, 0xa4}, {0xf0, 0xf5}, {0xfa, 0xfa}, {0xfd, 0xff}} {
		for op := r[0]; op <= r[1]; op++ {
			modeled[op] = true
		}
	}
	modeled[0x0c], modeled[0x0d], modeled[0x0e], modeled[0x0f] = true, true, true, true // undefined: must fault
	modeled[0x1f] = true
	modeled[0xf6] = true
}

// Tracer records one transaction as MiniEVMTrace events.
type Tracer struct {
	In        *Interner
	Events    []Ev
	Unmodeled string // non-empty: why the transaction is outside the modelled fragment
	Slots     map[int64]map[int64]bool
	Addrs     map[int64]bool
	NOps      int
	lastOp    []int
	kinds     []string
	Digest    uint64           // running FNV-style digest of every event (used by C28)
	Light     bool             // only compute the digest
	Created   []common.Address // addresses of creation frames entered
}

func NewTracer() *Tracer {
	return &Tracer{In: NewInterner(), Slots: map[int64]map[int64]bool{}, Addrs: map[int64]bool{}, Digest: 1469598103934665603}
}

func (t *Tracer) mix(vs ...uint64) {
	for _, v := range vs {
		t.Digest ^= v
		t.Digest *= 1099511628211
	}
}

func (t *Tracer) slot(addr, key int64) {
	m := t.Slots[addr]
	if m == nil {
		m = map[int64]bool{}
		t.Slots[addr] = m
	}
	m[key] = true
}

func (t *Tracer) Hooks() *tracing.Hooks {
	return &tracing.Hooks{OnEnter: t.onEnter, OnExit: t.onExit, OnOpcode: t.onOpcode, OnFault: t.onFault}
}

func kindName(typ byte) string {
	switch typ {
	case CREATE:
		return "CREATE"
	case CREATE2:
		return "CREATE2"
	case CALL:
		return "CALL"
	case CALLCODE:
		return "CALLCODE"
	case DELEGATECALL:
		return "DELEGATECALL"
	case STATICCALL:
		return "STATICCALL"
	case SELFDESTRUCT:
		return "SELFDESTRUCT"
	}
	return "?"
}

func (t *Tracer) onEnter(depth int, typ byte, from, to common.Address, input []byte, gas uint64, value *big.Int) {
	for len(t.lastOp) <= depth {
		t.lastOp = append(t.lastOp, -1)
		t.kinds = append(t.kinds, "")
	}
	t.lastOp[depth] = -1
	k := kindName(typ)
	t.kinds[depth] = k
	t.mix(uint64(depth), uint64(typ), gas)
	t.mix(new(big.Int).SetBytes(from[12:]).Uint64(), new(big.Int).SetBytes(to[12:]).Uint64())
	for _, b := range input {
		t.mix(uint64(b))
	}
	if k == "CREATE" || k == "CREATE2" {
		t.Created = append(t.Created, to)
	}
	if t.Light {
		return
	}
	if k == "?" || k == "SELFDESTRUCT" {
		t.Unmodeled = "frame type " + k
	}
	code := []int{}
	if k == "CREATE" || k == "CREATE2" {
		code = Bytes(input)
	}
	toI := t.In.Addr(to)
	t.Addrs[toI] = true
	t.Events = append(t.Events, Ev{"op": "enter", "depth": depth, "typ": k, "from": t.In.Addr(from), "to": toI,
		"gas": gas, "value": t.In.Big(value), "code": code})
}

func (t *Tracer) onExit(depth int, output []byte, gasUsed uint64, err error, reverted bool) {
	t.mix(uint64(depth), gasUsed, uint64(len(output)))
	for _, b := range output {
		t.mix(uint64(b))
	}
	if err != nil {
		if errors.Is(err, vm.ErrExecutionReverted) {
			t.mix(2)
		} else {
			t.mix(3)
		}
	}
	if t.Light {
		return
	}
	code := []int{}
	if depth < len(t.kinds) && (t.kinds[depth] == "CREATE" || t.kinds[depth] == "CREATE2") {
		code = Bytes(output)
	}
	t.Events = append(t.Events, Ev{"op": "exit", "depth": depth, "gasUsed": gasUsed, "ok": err == nil,
		"rev": err != nil && errors.Is(err, vm.ErrExecutionReverted), "code": code, "out": t.In.Words(output), "outLen": len(output)})
}

func (t *Tracer) onOpcode(pc uint64, op byte, gas, cost uint64, scope tracing.OpContext, rData []byte, depth int, err error) {
	d := depth - 1
	st := scope.StackData()
	t.NOps++
	t.mix(pc, uint64(op), gas, cost, uint64(d), uint64(len(scope.MemoryData())))
	for i := range st {
		t.mix(st[i][0], st[i][1], st[i][2], st[i][3])
	}
	if err != nil {
		t.mix(7)
	}
	if t.Light {
		return
	}
	stack := make([]int64, len(st))
	for i := range st {
		stack[i] = t.In.Word(&st[i])
	}
	for len(t.lastOp) <= d {
		t.lastOp = append(t.lastOp, -1)
		t.kinds = append(t.kinds, "")
	}
	if j := t.lastOp[d]; j >= 0 && len(stack) > 0 {
		t.Events[j]["top"] = stack[len(stack)-1]
	}
	if !modeled[op] {
		t.Unmodeled = "opcode " + vm.OpCode(op).String()
	}
	if op == EXP && len(stack) >= 2 && stack[len(stack)-2] < 0 {
		t.Unmodeled = "EXP with a large exponent"
	}
	self := t.In.Addr(scope.Address())
	if (op == SLOAD || op == SSTORE) && len(stack) >= 1 {
		t.slot(self, stack[len(stack)-1])
	}
	if (op == SELFDESTRUCT || op == BALANCE) && len(stack) >= 1 {
		t.Addrs[stack[len(stack)-1]] = true
	}
	if (op == CALL || op == CALLCODE || op == DELEGATECALL || op == STATICCALL) && len(stack) >= 2 {
		t.Addrs[stack[len(stack)-2]] = true
	}
	t.lastOp[d] = len(t.Events)
	t.Events = append(t.Events, Ev{"op": "opc", "depth": d, "pc": pc, "opc": int(op), "gas": gas, "cost": cost,
		"stack": stack, "msize": len(scope.MemoryData()), "top": 0, "err": err != nil})
}

func (t *Tracer) onFault(pc uint64, op byte, gas, cost uint64, scope tracing.OpContext, depth int, err error) {
	if errors.Is(err, vm.ErrExecutionReverted) {
		return
	}
	t.mix(9, pc)
	if t.Light {
		return
	}
	d := depth - 1
	if d < len(t.lastOp) && t.lastOp[d] >= 0 {
		t.Events[t.lastOp[d]]["err"] = true
	}
}
