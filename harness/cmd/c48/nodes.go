package main

import (
	"bytes"
	"encoding/json"
	"fmt"
	"math/rand"
	"os"
	"time"

	"github.com/ethereum/go-ethereum/common"
	"github.com/ethereum/go-ethereum/core/rawdb"
	"github.com/ethereum/go-ethereum/eth/protocols/snap"
	"github.com/ethereum/go-ethereum/rlp"
	"github.com/ethereum/go-ethereum/trie"
	tl "verif/harness/tracelib"
)

func jsonUnmarshal(b []byte, v any) error { return json.Unmarshal(b, v) }
func writeJSON(path string, v any) {
	b, _ := json.Marshal(v)
	if err := os.WriteFile(path, b, 0o644); err != nil {
		tl.Fatal("write %s: %v", path, err)
	}
}

// hexToCompact is the hex-prefix encoding of a nibble path (terminator 16 allowed at the end).
func hexToCompact(hex []byte) []byte {
	term := byte(0)
	if len(hex) > 0 && hex[len(hex)-1] == 16 {
		term, hex = 1, hex[:len(hex)-1]
	}
	buf := make([]byte, len(hex)/2+1)
	buf[0] = term << 5
	if len(hex)&1 == 1 {
		buf[0] |= 1<<4 | hex[0]
		hex = hex[1:]
	}
	for i := 0; i < len(hex); i += 2 {
		buf[i/2+1] = hex[i]<<4 | hex[i+1]
	}
	return buf
}

// loadNodes walks a trie of the chain with the node iterator (independent of Trie.GetNode) and
// records every hashed or embedded interior node by hex path.
func (w *world) loadNodes(owner string, id *trie.ID) map[string]nodeInfo {
	if m, ok := w.nodes[owner]; ok {
		return m
	}
	m := map[string]nodeInfo{}
	t, err := trie.New(id, w.chains[rawdb.HashScheme].TrieDB())
	if err != nil {
		tl.Fatal("open trie %v: %v", id, err)
	}
	it := t.MustNodeIterator(nil)
	for it.Next(true) {
		if it.Leaf() || it.Hash() == (common.Hash{}) {
			// value nodes (path ends with the terminator) and embedded nodes have no hash
			m[string(it.Path())] = nodeInfo{embedded: true}
		} else {
			m[string(it.Path())] = nodeInfo{blob: common.CopyBytes(it.NodeBlob())}
		}
	}
	if it.Error() != nil {
		tl.Fatal("iterate trie: %v", it.Error())
	}
	w.nodes[owner] = m
	return m
}

// trieNodes issues random GetTrieNodes requests (valid node paths, paths off the trie, malformed
// compact encodings, unknown accounts, empty path sets, non-string items) and checks the response
// positionally against the node-iterator oracle: for the answered prefix every blob is the node
// at that path (empty blob where there is none), the byte budget is exceeded by at most the last
// answered item, malformed requests are refused with an error, and nothing panics.
func (c *checker) trieNodes(r *rand.Rand, n int) {
	w := c.w
	acc := w.loadNodes("", trie.StateTrieID(w.root))
	var accPaths [][]byte
	for p := range acc {
		accPaths = append(accPaths, []byte(p))
	}
	randPath := func(known [][]byte) []byte {
		switch r.Intn(6) {
		case 0: // random nibble path
			p := make([]byte, r.Intn(6))
			for i := range p {
				p[i] = byte(r.Intn(16))
			}
			return hexToCompact(p)
		case 1: // arbitrary bytes, possibly an invalid compact encoding
			p := make([]byte, r.Intn(40))
			r.Read(p)
			return p
		default:
			if len(known) == 0 {
				return hexToCompact(nil)
			}
			return hexToCompact(known[r.Intn(len(known))])
		}
	}
	type want struct {
		blob []byte
		skip bool // embedded node: the server cannot serve it and skips / stops the set
	}
	for i := 0; i < n; i++ {
		scheme := []string{rawdb.HashScheme, rawdb.PathScheme}[r.Intn(2)]
		var sets []snap.TrieNodePathSet
		var expect [][]want // per set
		var setOK []bool    // storage sets: account resolvable
		malformed := false
		for s := r.Intn(6); s > 0; s-- {
			switch k := r.Intn(10); {
			case k == 0 && r.Intn(3) == 0:
				sets = append(sets, snap.TrieNodePathSet{})
				malformed = true
			case k < 5:
				p := randPath(accPaths)
				sets = append(sets, snap.TrieNodePathSet{p})
				expect = append(expect, []want{lookup(acc, p)})
				setOK = append(setOK, true)
				continue
			default:
				a := w.accts[r.Intn(len(w.accts))]
				set := snap.TrieNodePathSet{a.hash[:]}
				ok := true
				var st map[string]nodeInfo
				var stPaths [][]byte
				if r.Intn(8) == 0 {
					h := c.unknownHash()
					set[0] = h[:]
					ok = false
				} else {
					st = w.loadNodes(a.hash.Hex(), trie.StorageTrieID(w.root, a.hash, a.stRoot))
					for p := range st {
						stPaths = append(stPaths, []byte(p))
					}
				}
				var ws []want
				for j := 1 + r.Intn(4); j > 0; j-- {
					p := randPath(stPaths)
					set = append(set, p)
					if ok {
						ws = append(ws, lookup(st, p))
					}
				}
				sets = append(sets, set)
				expect = append(expect, ws)
				setOK = append(setOK, ok)
				continue
			}
			break
		}
		enc, err := rlp.EncodeToBytes(sets)
		if err != nil {
			tl.Fatal("encode paths: %v", err)
		}
		var paths rlp.RawList[snap.TrieNodePathSet]
		if err := rlp.DecodeBytes(enc, &paths); err != nil {
			tl.Fatal("decode paths: %v", err)
		}
		total := 0
		for _, ws := range expect {
			for _, x := range ws {
				total += len(x.blob)
			}
		}
		budget := []int{0, total / 2, total, total + 100, 3 * 1024 * 1024, r.Intn(total + 2)}[r.Intn(6)]
		req := &snap.GetTrieNodesPacket{ID: 1, Root: w.root, Paths: paths, Bytes: uint64(budget)}
		if r.Intn(15) == 0 {
			req.Root = c.unknownHash()
		}
		var nodes [][]byte
		var serr error
		began := time.Now()
		desc := tl.M{"kind": "trienodes", "scheme": scheme, "sets": fmt.Sprintf("%x", sets), "bytes": budget}
		if !c.guard("GetTrieNodes/"+scheme, desc, func() { nodes, serr = snap.ServiceGetTrieNodesQuery(w.chains[scheme], req) }) {
			continue
		}
		c.sum.Count("trienodes/" + scheme)
		c.sum.Steps++
		if req.Root != w.root {
			if len(nodes) != 0 || serr != nil {
				c.sum.Violate("GetTrieNodes for an unknown root served something", desc)
			}
			continue
		}
		// expected answer: flatten in order, following the serving rules; an empty path set (always
		// the last one here) is refused with an error if the server gets that far
		var flat [][]byte
		size := 0
		stopped := false
		for si, ws := range expect {
			if !setOK[si] {
				continue
			}
			single := len(sets[si]) == 1
			for _, x := range ws {
				if x.skip {
					break
				}
				flat = append(flat, x.blob)
				size += len(x.blob)
				if !single && size > budget {
					break
				}
			}
			if size > budget {
				stopped = true
				break
			}
		}
		if malformed && !stopped {
			if serr == nil {
				c.sum.Violate("GetTrieNodes with an empty path set was not refused", desc)
			}
			continue
		}
		if serr != nil {
			c.sum.Violate(fmt.Sprintf("GetTrieNodes refused a well-formed request: %v", serr), desc)
			continue
		}
		same := len(flat) == len(nodes)
		for j := 0; same && j < len(flat); j++ {
			same = bytes.Equal(flat[j], nodes[j])
		}
		if !same && time.Since(began) > 3*time.Second && len(nodes) < len(flat) {
			c.sum.Count("trienodes:inconclusive-slow-call") // the server has a 5 s wall-clock cut-off
			continue
		}
		if !same {
			desc["got"] = fmt.Sprintf("%d nodes %x", len(nodes), sizes(nodes))
			desc["want"] = fmt.Sprintf("%d nodes %x", len(flat), sizes(flat))
			c.sum.Violate("GetTrieNodes response is not the positional answer to a prefix of the request", desc)
		}
	}
}

func sizes(b [][]byte) []int {
	out := make([]int, len(b))
	for i := range b {
		out[i] = len(b[i])
	}
	return out
}

// lookup resolves a compact path against the oracle the way the protocol defines it.
func lookup(m map[string]nodeInfo, compact []byte) (w struct {
	blob []byte
	skip bool
}) {
	hex := compactToHexRef(compact)
	if ni, ok := m[string(hex)]; ok {
		if ni.embedded {
			w.skip = true
			return
		}
		w.blob = ni.blob
	}
	return
}

// compactToHexRef decodes a hex-prefix path (without insisting on a valid flag nibble, like the server).
func compactToHexRef(compact []byte) []byte {
	if len(compact) == 0 {
		return compact
	}
	base := make([]byte, len(compact)*2+1)
	for i, b := range compact {
		base[i*2], base[i*2+1] = b/16, b%16
	}
	base[len(base)-1] = 16
	if base[0] < 2 {
		base = base[:len(base)-1]
	}
	chop := 2 - base[0]&1
	return base[chop:]
}
