// c48 drives the serving side of the snap protocol (eth/protocols/snap ServiceGet*Query) on
// harness-built chains (hash scheme with snapshots, and path scheme) for property C48.
//
//	-mode world  -world w.json     build the seeded small world and write its abstraction
//	                               (account/slot/code wire sizes in hash order) for TLC
//	-mode cases  -in cases.json    execute every TLC-enumerated request (MCSnapServe) on the real
//	                               handlers: response must be the specification's run (rank
//	                               compressed), bodies must be the world's, and the real client-side
//	                               trie.VerifyRangeProof must accept it (R)
//	-mode record -trace t.ndjson   random requests (incl. inverted ranges, odd origins, huge budgets,
//	                               missing roots, malformed trie-node paths) on larger worlds,
//	                               recorded in rank-compressed form and validated by
//	                               SnapServeTrace.tla (V); same real-side checks
//
// A panic inside a Service function is caught and reported as a violation (C48: never panics).
package main

import (
	"bytes"
	"encoding/binary"
	"flag"
	"fmt"
	"math/big"
	"os"
	"sort"

	"github.com/ethereum/go-ethereum/common"
	"github.com/ethereum/go-ethereum/consensus/ethash"
	"github.com/ethereum/go-ethereum/core"
	"github.com/ethereum/go-ethereum/core/rawdb"
	"github.com/ethereum/go-ethereum/core/types"
	"github.com/ethereum/go-ethereum/crypto"
	"github.com/ethereum/go-ethereum/eth/protocols/snap"
	"github.com/ethereum/go-ethereum/params"
	"github.com/ethereum/go-ethereum/rlp"
	"github.com/ethereum/go-ethereum/trie"
	"github.com/ethereum/go-ethereum/trie/trienode"
	"github.com/ethereum/go-ethereum/triedb"
	"github.com/holiman/uint256"
	tl "verif/harness/tracelib"
)

// ---------------------------------------------------------------- world (oracle side)

type acct struct {
	addr     common.Address
	hash     common.Hash
	nonce    uint64
	balance  *big.Int
	code     []byte
	codeIdx  int // 1-based index into world.codes, 0 = none
	storage  map[common.Hash]common.Hash
	slotKeys []common.Hash          // hashed slot keys, sorted
	slotVal  map[common.Hash][]byte // hashed key -> rlp(trimmed value)
	stRoot   common.Hash
	slim     []byte
	full     []byte
}

type world struct {
	accts  []*acct // sorted by hash
	codes  [][]byte
	rankOf map[common.Hash]int
	root   common.Hash
	chains map[string]*core.BlockChain
	nodes  map[string]map[string]nodeInfo // trie owner ("" = account trie, else account hash hex) -> hex path -> node
}

type nodeInfo struct {
	blob     []byte
	embedded bool
}

type worldSpec struct {
	naccts   int
	storages []int // slot counts handed out round-robin to the first accounts
	ncodes   int
	maxCode  int
}

func buildWorld(seed int64, sp worldSpec) *world {
	r := tl.Rand(seed)
	w := &world{rankOf: map[common.Hash]int{}, chains: map[string]*core.BlockChain{}, nodes: map[string]map[string]nodeInfo{}}
	for i := 0; i < sp.ncodes; i++ {
		c := make([]byte, 1+r.Intn(sp.maxCode))
		r.Read(c)
		c[0] = 0x60 // not the EOF magic
		w.codes = append(w.codes, c)
	}
	alloc := types.GenesisAlloc{}
	for i := 0; i < sp.naccts; i++ {
		a := &acct{storage: map[common.Hash]common.Hash{}, slotVal: map[common.Hash][]byte{}}
		r.Read(a.addr[:])
		a.hash = crypto.Keccak256Hash(a.addr[:])
		a.nonce = uint64(r.Intn(3)) * uint64(r.Intn(1000))
		bal := make([]byte, r.Intn(20))
		r.Read(bal)
		a.balance = new(big.Int).SetBytes(bal)
		// every code is deployed at least once (the database only knows deployed code)
		if i < sp.ncodes {
			a.codeIdx = i + 1
			a.code = w.codes[a.codeIdx-1]
		} else if sp.ncodes > 0 && r.Intn(2) == 0 {
			a.codeIdx = 1 + r.Intn(sp.ncodes)
			a.code = w.codes[a.codeIdx-1]
		}
		if i < len(sp.storages) {
			for j := 0; j < sp.storages[i]; j++ {
				var k, v common.Hash
				r.Read(k[:])
				n := 1 + r.Intn(32)
				r.Read(v[32-n:])
				if v[32-n] == 0 {
					v[32-n] = 1
				}
				a.storage[k] = v
			}
		}
		// oracle view of the storage trie
		st := trie.NewEmpty(triedb.NewDatabase(rawdb.NewMemoryDatabase(), nil))
		for k, v := range a.storage {
			hk := crypto.Keccak256Hash(k[:])
			enc, _ := rlp.EncodeToBytes(common.TrimLeftZeroes(v[:]))
			a.slotKeys = append(a.slotKeys, hk)
			a.slotVal[hk] = enc
			st.MustUpdate(hk[:], enc)
		}
		sort.Slice(a.slotKeys, func(x, y int) bool { return bytes.Compare(a.slotKeys[x][:], a.slotKeys[y][:]) < 0 })
		a.stRoot = st.Hash()
		sa := types.StateAccount{Nonce: a.nonce, Balance: uint256.MustFromBig(a.balance), Root: a.stRoot, CodeHash: crypto.Keccak256(a.code)}
		a.slim = types.SlimAccountRLP(sa)
		a.full, _ = rlp.EncodeToBytes(&sa)
		w.accts = append(w.accts, a)
		alloc[a.addr] = types.Account{Nonce: a.nonce, Balance: a.balance, Code: a.code, Storage: a.storage}
	}
	sort.Slice(w.accts, func(x, y int) bool { return bytes.Compare(w.accts[x].hash[:], w.accts[y].hash[:]) < 0 })
	at := trie.NewEmpty(triedb.NewDatabase(rawdb.NewMemoryDatabase(), nil))
	for i, a := range w.accts {
		w.rankOf[a.hash] = i + 1
		at.MustUpdate(a.hash[:], a.full)
	}
	w.root = at.Hash()
	gspec := &core.Genesis{Config: params.TestChainConfig, Alloc: alloc, BaseFee: big.NewInt(params.InitialBaseFee)}
	for _, scheme := range []string{rawdb.HashScheme, rawdb.PathScheme} {
		bc, err := core.NewBlockChain(rawdb.NewMemoryDatabase(), gspec, ethash.NewFaker(), core.DefaultConfig().WithStateScheme(scheme))
		if err != nil {
			tl.Fatal("new blockchain (%s): %v", scheme, err)
		}
		if got := bc.Genesis().Root(); got != w.root {
			tl.Fatal("oracle state root %x differs from the chain's %x", w.root, got)
		}
		w.chains[scheme] = bc
	}
	return w
}

func (w *world) close() {
	for _, bc := range w.chains {
		bc.Stop()
	}
}

// abstraction handed to TLC
func (w *world) abstract() tl.M {
	accs := []any{}
	for _, a := range w.accts {
		st := []int{}
		for _, k := range a.slotKeys {
			st = append(st, 32+len(a.slotVal[k]))
		}
		accs = append(accs, tl.M{"sz": 32 + len(a.slim), "st": st, "code": a.codeIdx})
	}
	codes := []int{}
	for _, c := range w.codes {
		codes = append(codes, len(c))
	}
	return tl.M{"acc": accs, "codes": codes}
}

// ---------------------------------------------------------------- positions <-> hashes

func addOne(h common.Hash, d int64) common.Hash {
	x := new(big.Int).SetBytes(h[:])
	x.Add(x, big.NewInt(d))
	if x.Sign() < 0 || x.BitLen() > 256 {
		return h
	}
	return common.BigToHash(x)
}

// hashAt realises a rank-compressed position over the sorted key list; sel picks among the
// hashes that have this position.
func hashAt(keys []common.Hash, pos int, sel int) common.Hash {
	n := len(keys)
	if pos > 2*n+1 {
		pos = 2*n + 1 // beyond every key
	}
	switch {
	case pos <= 0:
		return common.Hash{}
	case pos%2 == 0:
		return keys[pos/2-1]
	case n == 0:
		return [][32]byte{common.MaxHash, {31: 1}, crypto.Keccak256Hash([]byte{byte(sel)})}[sel%3]
	case pos == 1:
		return [][32]byte{{31: 1}, addOne(keys[0], -1)}[sel%2]
	case pos >= 2*n+1:
		return [][32]byte{common.MaxHash, addOne(keys[n-1], 1)}[sel%2]
	default:
		lo, hi := keys[pos/2-1], keys[pos/2]
		mid := new(big.Int).Add(new(big.Int).SetBytes(lo[:]), new(big.Int).SetBytes(hi[:]))
		mid.Rsh(mid, 1)
		c := [][32]byte{addOne(lo, 1), addOne(hi, -1), common.BigToHash(mid)}[sel%3]
		if bytes.Compare(c[:], lo[:]) <= 0 || bytes.Compare(c[:], hi[:]) >= 0 {
			return addOne(lo, 1)
		}
		return c
	}
}

// posOf is the inverse: the position of an arbitrary hash.
func posOf(keys []common.Hash, h common.Hash) int {
	if h == (common.Hash{}) {
		return 0
	}
	i := sort.Search(len(keys), func(i int) bool { return bytes.Compare(keys[i][:], h[:]) >= 0 })
	if i < len(keys) && keys[i] == h {
		return 2 * (i + 1)
	}
	return 2*i + 1
}

func (w *world) acctKeys() []common.Hash {
	ks := make([]common.Hash, len(w.accts))
	for i, a := range w.accts {
		ks[i] = a.hash
	}
	return ks
}

// ---------------------------------------------------------------- requests in model form

type accReq struct {
	Known  bool `json:"known"`
	Origin int  `json:"origin"`
	Limit  int  `json:"limit"`
	Bytes  int  `json:"bytes"`
}
type accResp struct {
	Keys  []int `json:"keys"`
	Proof bool  `json:"proof"`
}
type storReq struct {
	Known    bool  `json:"known"`
	Accounts []int `json:"accounts"`
	Origin   int   `json:"origin"`
	Limit    int   `json:"limit"`
	Bytes    int   `json:"bytes"`
}
type slotList struct {
	Acct int   `json:"acct"`
	Keys []int `json:"keys"`
}
type storResp struct {
	Slots   []slotList `json:"slots"`
	Proof   bool       `json:"proof"`
	Dropped bool       `json:"dropped"`
}
type codeReq struct {
	Hashes []int `json:"hashes"`
	Bytes  int   `json:"bytes"`
}
type codeResp struct {
	Codes []int `json:"codes"`
}

type checker struct {
	w      *world
	sum    *tl.Summary
	sel    int
	unkown int
}

func (c *checker) nextSel() int { c.sel++; return c.sel*7 + c.sel/3 }

func (c *checker) unknownHash() common.Hash {
	c.unkown++
	var b [8]byte
	binary.BigEndian.PutUint64(b[:], uint64(c.unkown))
	return crypto.Keccak256Hash([]byte("unknown"), b[:])
}

// guard runs fn and converts a panic of the code under test into a violation.
func (c *checker) guard(what string, req any, fn func()) (ok bool) {
	defer func() {
		if r := recover(); r != nil {
			c.sum.Violate(fmt.Sprintf("snap %s panicked: %v", what, r), tl.M{"kind": what, "req": req, "panic": fmt.Sprint(r)})
			ok = false
		}
	}()
	fn()
	return true
}

func eqInts(a, b []int) bool {
	if len(a) != len(b) {
		return false
	}
	for i := range a {
		if a[i] != b[i] {
			return false
		}
	}
	return true
}

// account executes an account range request given in model form and returns the response in
// model form, after all real-side checks.
func (c *checker) account(scheme string, q accReq, origin, limit common.Hash) (accResp, bool) {
	w := c.w
	root := w.root
	if !q.Known {
		root = c.unknownHash()
	}
	var accs []*snap.AccountData
	var proof [][]byte
	req := &snap.GetAccountRangePacket{ID: 1, Root: root, Origin: origin, Limit: limit, Bytes: uint64(q.Bytes)}
	if !c.guard("GetAccountRange/"+scheme, q, func() { accs, proof = snap.ServiceGetAccountRangeQuery(w.chains[scheme], req) }) {
		return accResp{}, false
	}
	resp := accResp{Keys: []int{}, Proof: len(proof) > 0}
	keys, vals := [][]byte{}, [][]byte{}
	for _, a := range accs {
		rk := w.rankOf[a.Hash]
		resp.Keys = append(resp.Keys, rk)
		if rk == 0 || !bytes.Equal(a.Body, w.accts[rk-1].slim) {
			c.sum.Violate(fmt.Sprintf("GetAccountRange/%s %+v: account %x served with a body that is not the state's", scheme, q, a.Hash), tl.M{"kind": "account", "req": q})
			return resp, false
		}
		full, err := types.FullAccountRLP(a.Body)
		if err != nil {
			c.sum.Violate(fmt.Sprintf("GetAccountRange/%s %+v: undecodable body", scheme, q), tl.M{"kind": "account", "req": q})
			return resp, false
		}
		keys, vals = append(keys, common.CopyBytes(a.Hash[:])), append(vals, full)
	}
	if q.Known {
		// the client's check (snap syncer OnAccounts)
		nodes := make(trienode.ProofList, 0, len(proof))
		for _, n := range proof {
			nodes = append(nodes, n)
		}
		cont, err := trie.VerifyRangeProof(root, origin[:], keys, vals, nodes.Set())
		last := 0
		if len(resp.Keys) > 0 {
			last = resp.Keys[len(resp.Keys)-1]
		} else {
			last = len(w.accts) // nothing at or after origin
		}
		if err != nil || cont != (last < len(w.accts)) {
			c.sum.Violate(fmt.Sprintf("GetAccountRange/%s %+v: client-side VerifyRangeProof err=%v cont=%v (ranks served %v of %d)", scheme, q, err, cont, resp.Keys, len(w.accts)),
				tl.M{"kind": "account", "req": q, "resp": resp})
			return resp, false
		}
	}
	return resp, true
}

func (c *checker) storage(scheme string, q storReq, accounts []common.Hash, origin, limit []byte) (storResp, bool) {
	w := c.w
	root := w.root
	if !q.Known {
		root = c.unknownHash()
	}
	var slots [][]*snap.StorageData
	var proof [][]byte
	req := &snap.GetStorageRangesPacket{ID: 1, Root: root, Accounts: accounts, Origin: origin, Limit: limit, Bytes: uint64(q.Bytes)}
	if !c.guard("GetStorageRanges/"+scheme, q, func() { slots, proof = snap.ServiceGetStorageRangesQuery(w.chains[scheme], req) }) {
		return storResp{}, false
	}
	resp := storResp{Slots: []slotList{}, Proof: len(proof) > 0}
	// which requested accounts do the returned lists belong to: the lists come in request order and
	// only for accounts that have something to return; identify each by its first slot hash
	k := 0
	for x, list := range slots {
		if len(list) == 0 {
			c.sum.Violate(fmt.Sprintf("GetStorageRanges/%s %+v: empty slot list in response", scheme, q), tl.M{"kind": "storage", "req": q})
			return resp, false
		}
		found := false
		for ; k < len(q.Accounts); k++ {
			if rk := q.Accounts[k]; rk > 0 {
				if _, ok := w.accts[rk-1].slotVal[list[0].Hash]; ok {
					found = true
					break
				}
			}
		}
		if !found {
			c.sum.Violate(fmt.Sprintf("GetStorageRanges/%s %+v: list %d does not belong to any remaining requested account", scheme, q, x), tl.M{"kind": "storage", "req": q})
			return resp, false
		}
		a := w.accts[q.Accounts[k]-1]
		sl := slotList{Acct: k + 1, Keys: []int{}}
		keys, vals := [][]byte{}, [][]byte{}
		for _, s := range list {
			p := posOf(a.slotKeys, s.Hash)
			if p%2 != 0 || p == 0 || !bytes.Equal(s.Body, a.slotVal[s.Hash]) {
				c.sum.Violate(fmt.Sprintf("GetStorageRanges/%s %+v: slot %x of account #%d is not the state's", scheme, q, s.Hash, k+1), tl.M{"kind": "storage", "req": q})
				return resp, false
			}
			sl.Keys = append(sl.Keys, p/2)
			keys, vals = append(keys, common.CopyBytes(s.Hash[:])), append(vals, s.Body)
		}
		resp.Slots = append(resp.Slots, sl)
		// the client's check (snap syncer OnStorage): the proof belongs to the last list
		var err error
		var how string
		if x == len(slots)-1 && len(proof) > 0 {
			nodes := make(trienode.ProofList, 0, len(proof))
			for _, n := range proof {
				nodes = append(nodes, n)
			}
			var o common.Hash
			if k == 0 && len(origin) > 0 {
				o = common.BytesToHash(origin)
			}
			var cont bool
			cont, err = trie.VerifyRangeProof(a.stRoot, o[:], keys, vals, nodes.Set())
			how = "range proof"
			if err == nil && cont != (sl.Keys[len(sl.Keys)-1] < len(a.slotKeys)) {
				err = fmt.Errorf("continuation flag %v wrong", cont)
			}
		} else {
			_, err = trie.VerifyRangeProof(a.stRoot, nil, keys, vals, nil)
			how = "whole-trie check"
		}
		if err != nil {
			c.sum.Violate(fmt.Sprintf("GetStorageRanges/%s %+v: client-side %s of list %d (account #%d, slots %v of %d) fails: %v", scheme, q, how, x, k+1, sl.Keys, len(a.slotKeys), err),
				tl.M{"kind": "storage", "req": q, "resp": resp})
			return resp, false
		}
		k++
	}
	if len(slots) == 0 && len(proof) > 0 && q.Known && len(q.Accounts) > 0 && q.Accounts[0] > 0 {
		// proof of an empty range: the client finalises the range with an empty list
		a := w.accts[q.Accounts[0]-1]
		nodes := make(trienode.ProofList, 0, len(proof))
		for _, n := range proof {
			nodes = append(nodes, n)
		}
		o := common.BytesToHash(origin)
		if cont, err := trie.VerifyRangeProof(a.stRoot, o[:], nil, nil, nodes.Set()); err != nil || cont {
			c.sum.Violate(fmt.Sprintf("GetStorageRanges/%s %+v: empty range with proof rejected by the client: cont=%v err=%v", scheme, q, cont, err), tl.M{"kind": "storage", "req": q})
			return resp, false
		}
	}
	return resp, true
}

func (c *checker) codes(scheme string, q codeReq, hashes []common.Hash) (codeResp, bool) {
	var out [][]byte
	req := &snap.GetByteCodesPacket{ID: 1, Hashes: hashes, Bytes: uint64(q.Bytes)}
	if !c.guard("GetByteCodes/"+scheme, q, func() { out = snap.ServiceGetByteCodesQuery(c.w.chains[scheme], req) }) {
		return codeResp{}, false
	}
	// map every returned blob back to the index of the request it answers (in order)
	resp := codeResp{Codes: []int{}}
	i := 0
	for _, blob := range out {
		h := crypto.Keccak256Hash(blob)
		for i < len(hashes) && hashes[i] != h {
			i++
		}
		if i == len(hashes) {
			c.sum.Violate(fmt.Sprintf("GetByteCodes/%s %+v: returned code %x.. answers none of the remaining hashes", scheme, q, h[:4]), tl.M{"kind": "code", "req": q})
			return resp, false
		}
		resp.Codes = append(resp.Codes, i+1)
		i++
	}
	return resp, true
}

func (c *checker) realAccounts(ranks []int) []common.Hash {
	out := make([]common.Hash, len(ranks))
	for i, rk := range ranks {
		if rk == 0 {
			out[i] = c.unknownHash()
		} else {
			out[i] = c.w.accts[rk-1].hash
		}
	}
	return out
}
func (c *checker) realCodeHashes(refs []int) []common.Hash {
	out := make([]common.Hash, len(refs))
	for i, k := range refs {
		switch {
		case k == -1:
			out[i] = types.EmptyCodeHash
		case k == 0:
			out[i] = c.unknownHash()
		default:
			out[i] = crypto.Keccak256Hash(c.w.codes[k-1])
		}
	}
	return out
}
func posBytes(keys []common.Hash, pos, sel int) []byte {
	if pos < 0 {
		return nil
	}
	h := hashAt(keys, pos, sel)
	return h[:]
}
func firstSlots(w *world, accounts []int) []common.Hash {
	if len(accounts) > 0 && accounts[0] > 0 {
		return w.accts[accounts[0]-1].slotKeys
	}
	return nil
}

// ---------------------------------------------------------------- cases (R)

type tcase struct {
	Kind string          `json:"kind"`
	Req  jsonRaw         `json:"req"`
	Resp jsonRaw         `json:"resp"`
}
type jsonRaw []byte

func (j *jsonRaw) UnmarshalJSON(b []byte) error { *j = append((*j)[:0], b...); return nil }
func (j jsonRaw) MarshalJSON() ([]byte, error)  { return j, nil }

func runCases(in string, w *world, sum *tl.Summary) {
	var cases []tcase
	tl.ReadJSON(in, &cases)
	c := &checker{w: w, sum: sum}
	keys := w.acctKeys()
	for i, tc := range cases {
		for _, scheme := range []string{rawdb.HashScheme, rawdb.PathScheme} {
			sel := c.nextSel()
			switch tc.Kind {
			case "account":
				var q accReq
				var want accResp
				mustJSON(tc.Req, &q)
				mustJSON(tc.Resp, &want)
				got, ok := c.account(scheme, q, hashAt(keys, q.Origin, sel), hashAt(keys, q.Limit, sel/3))
				if ok && (!eqInts(got.Keys, want.Keys) || got.Proof != want.Proof) {
					sum.Violate(fmt.Sprintf("GetAccountRange/%s %+v: served ranks %v proof=%v, specification %v proof=%v", scheme, q, got.Keys, got.Proof, want.Keys, want.Proof),
						tl.M{"kind": "account", "req": q, "got": got, "want": want})
				}
			case "storage":
				var q storReq
				var want storResp
				mustJSON(tc.Req, &q)
				mustJSON(tc.Resp, &want)
				fs := firstSlots(w, q.Accounts)
				got, ok := c.storage(scheme, q, c.realAccounts(q.Accounts), posBytes(fs, q.Origin, sel), posBytes(fs, q.Limit, sel/3))
				if ok {
					// a proof over an empty storage trie has no nodes
					wantProof := want.Proof
					if wantProof && len(want.Slots) == 0 && len(fs) == 0 {
						wantProof = false
					}
					same := len(got.Slots) == len(want.Slots) && got.Proof == wantProof
					for x := 0; same && x < len(got.Slots); x++ {
						same = got.Slots[x].Acct == want.Slots[x].Acct && eqInts(got.Slots[x].Keys, want.Slots[x].Keys)
					}
					if !same {
						sum.Violate(fmt.Sprintf("GetStorageRanges/%s %+v: served %+v proof=%v, specification %+v proof=%v", scheme, q, got.Slots, got.Proof, want.Slots, wantProof),
							tl.M{"kind": "storage", "req": q, "got": got, "want": want})
					}
				}
			case "code":
				var q codeReq
				var want codeResp
				mustJSON(tc.Req, &q)
				mustJSON(tc.Resp, &want)
				got, ok := c.codes(scheme, q, c.realCodeHashes(q.Hashes))
				if ok && !eqInts(got.Codes, want.Codes) {
					sum.Violate(fmt.Sprintf("GetByteCodes/%s %+v: answered request indices %v, specification %v", scheme, q, got.Codes, want.Codes),
						tl.M{"kind": "code", "req": q, "got": got, "want": want})
				}
			default:
				tl.Fatal("unknown case kind %q", tc.Kind)
			}
			sum.Steps++
			sum.Count(tc.Kind + "/" + scheme)
		}
		sum.Evaluations++
		sum.Distinct++
		if i%20000 == 0 {
			sum.Sample(tc)
		}
	}
	sum.Rule = "every request enumerated by TLC over the small world (all origin/limit positions incl. inverted, byte budgets around every cumulative size, unknown roots/accounts/codes) executed on both state schemes; distinct = distinct requests"
}

func mustJSON(b []byte, v any) {
	if err := jsonUnmarshal(b, v); err != nil {
		tl.Fatal("bad case json %s: %v", b, err)
	}
}

// ---------------------------------------------------------------- record (V)

func runRecord(path string, seed int64, nworlds, nreq int, sum *tl.Summary) {
	r := tl.Rand(seed)
	tr := tl.NewTrace(path)
	defer tr.Close()
	for t := 0; t < nworlds; t++ {
		sp := worldSpec{naccts: 20 + r.Intn(60), ncodes: 2 + r.Intn(6), maxCode: []int{50, 3000, 30000}[r.Intn(3)]}
		for i := 0; i < 10+r.Intn(10); i++ {
			sp.storages = append(sp.storages, []int{0, 1, 2, 3, 8, 30, 120, 400}[r.Intn(8)])
		}
		w := buildWorld(seed*1000+int64(t), sp)
		c := &checker{w: w, sum: sum}
		tr.Emit(tl.M{"op": "world", "w": w.abstract()})
		keys := w.acctKeys()
		n := len(keys)
		budget := func(total int) int {
			switch r.Intn(8) {
			case 0:
				return 0
			case 1:
				return 3*1024*1024 + r.Intn(1000) // above the soft response limit
			case 2:
				return total + r.Intn(100)
			default:
				return r.Intn(total + 2)
			}
		}
		randHash := func(ks []common.Hash) common.Hash {
			switch r.Intn(6) {
			case 0:
				var h common.Hash
				r.Read(h[:])
				return h
			case 1:
				return common.Hash{}
			case 2:
				return common.MaxHash
			default:
				return hashAt(ks, r.Intn(2*len(ks)+2), r.Intn(100))
			}
		}
		for i := 0; i < nreq; i++ {
			scheme := []string{rawdb.HashScheme, rawdb.PathScheme}[r.Intn(2)]
			var ev tl.M
			switch k := r.Intn(10); {
			case k < 3:
				o, l := randHash(keys), randHash(keys)
				if r.Intn(3) == 0 {
					l = common.MaxHash
				}
				total := 0
				for _, a := range w.accts {
					total += 32 + len(a.slim)
				}
				q := accReq{Known: r.Intn(12) != 0, Origin: posOf(keys, o), Limit: posOf(keys, l), Bytes: budget(total)}
				got, ok := c.account(scheme, q, o, l)
				if !ok {
					continue
				}
				ev = tl.M{"op": "account", "req": q, "resp": got}
			case k < 7:
				var ranks []int
				total := 0
				for j := 1 + r.Intn(5); j > 0; j-- {
					rk := 1 + r.Intn(n)
					if r.Intn(3) != 0 { // prefer accounts with storage
						rk = w.rankOf[w.accts[r.Intn(n)].hash]
						for tries := 0; tries < 5 && len(w.accts[rk-1].slotKeys) == 0; tries++ {
							rk = 1 + r.Intn(n)
						}
					}
					if r.Intn(15) == 0 {
						rk = 0
					}
					ranks = append(ranks, rk)
					if rk > 0 {
						for _, sk := range w.accts[rk-1].slotKeys {
							total += 32 + len(w.accts[rk-1].slotVal[sk])
						}
					}
				}
				if r.Intn(20) == 0 {
					ranks = nil
				}
				fs := firstSlots(w, ranks)
				q := storReq{Known: r.Intn(12) != 0, Accounts: ranks, Origin: -1, Limit: -1, Bytes: budget(total)}
				if q.Accounts == nil {
					q.Accounts = []int{}
				}
				var ob, lb []byte
				if r.Intn(2) == 0 {
					h := randHash(fs)
					ob = h[:]
					if r.Intn(10) == 0 { // short byte strings are left-padded by the server
						ob = common.TrimLeftZeroes(ob)
						if len(ob) == 0 {
							ob = []byte{0}
						}
					}
					q.Origin = posOf(fs, common.BytesToHash(ob))
				}
				if r.Intn(2) == 0 {
					h := randHash(fs)
					lb = h[:]
					q.Limit = posOf(fs, h)
				}
				got, ok := c.storage(scheme, q, c.realAccounts(ranks), ob, lb)
				if !ok {
					continue
				}
				ev = tl.M{"op": "storage", "req": q, "resp": got, "first": len(fs)}
			default:
				var refs []int
				total := 0
				for j := r.Intn(8); j > 0; j-- {
					ref := r.Intn(len(w.codes)+2) - 1
					refs = append(refs, ref)
					if ref > 0 {
						total += len(w.codes[ref-1])
					}
				}
				q := codeReq{Hashes: refs, Bytes: budget(total)}
				if q.Hashes == nil {
					q.Hashes = []int{}
				}
				got, ok := c.codes(scheme, q, c.realCodeHashes(refs))
				if !ok {
					continue
				}
				ev = tl.M{"op": "code", "req": q, "resp": got.Codes}
			}
			tr.Emit(ev)
			sum.Count(ev["op"].(string) + "/" + scheme)
			sum.Distinct++
			if t == 0 && i < 3 {
				sum.Sample(ev)
			}
		}
		c.trieNodes(r, nreq/4)
		w.close()
		sum.Traces++
		sum.Evaluations++
	}
	sum.Steps = tr.N
	sum.Rule = "seeded random requests on random worlds (20-80 accounts, storage tries up to 400 slots, shared codes up to 30 kB); distinct = requests recorded"
}

func main() {
	mode := flag.String("mode", "record", "world|cases|record")
	in := flag.String("in", "", "cases json")
	worldOut := flag.String("world", "world.json", "abstract world output (mode world)")
	trace := flag.String("trace", "trace.ndjson", "output trace (mode record)")
	out := flag.String("out", "summary.json", "summary output")
	n := flag.Int("n", 3, "number of worlds (record)")
	nreq := flag.Int("req", 400, "requests per world (record)")
	flag.Parse()
	seed := int64(tl.EnvInt("VERIF_SEED", 1))
	sum := tl.NewSummary("c48", *mode, seed)
	small := worldSpec{naccts: 5, storages: []int{4, 0, 1, 6, 0}, ncodes: 2, maxCode: 400}
	switch *mode {
	case "world":
		w := buildWorld(seed, small)
		writeJSON(*worldOut, w.abstract())
		w.close()
	case "cases":
		w := buildWorld(seed, small)
		runCases(*in, w, sum)
		w.close()
	case "record":
		runRecord(*trace, seed, *n, *nreq, sum)
	default:
		tl.Fatal("bad mode")
	}
	sum.Write(*out)
	if len(sum.Violations) > 0 {
		os.Exit(1)
	}
}
