// c31 drives core/vm.GasBudget for property C31 (two-dimensional gas accounting).
//
//	-mode edges  -in edges.json   replay every transition of the TLC state graph (R)
//	-mode record -trace t.ndjson  run seeded random operation sequences on a frame stack
//	                               and record one event per GasBudget method call (V)
package main

import (
	"encoding/json"
	"errors"
	"flag"
	"fmt"
	"os"
	"reflect"

	"github.com/ethereum/go-ethereum/core/vm"
	tl "verif/harness/tracelib"
)

type frame struct {
	Exec      int64 `json:"exec"`
	State     int64 `json:"state"`
	UsedExec  int64 `json:"usedExec"`
	UsedState int64 `json:"usedState"`
	Spilled   int64 `json:"spilled"`
}

func proj(g vm.GasBudget) frame {
	return frame{int64(g.ExecutionGas), int64(g.StateGas), int64(g.UsedExecutionGas), g.UsedStateGas, int64(g.Spilled)}
}
func unproj(f frame) vm.GasBudget {
	return vm.GasBudget{ExecutionGas: uint64(f.Exec), StateGas: uint64(f.State), UsedExecutionGas: uint64(f.UsedExec), UsedStateGas: f.UsedState, Spilled: uint64(f.Spilled)}
}
func projStack(st []vm.GasBudget) []frame {
	out := make([]frame, len(st))
	for i, g := range st {
		out[i] = proj(g)
	}
	return out
}

var errHalt = errors.New("halt")

func exitErr(kind string) error {
	switch kind {
	case "ok":
		return nil
	case "revert":
		return vm.ErrExecutionReverted
	}
	return errHalt
}

type edge struct {
	From []frame        `json:"from"`
	Act  map[string]any `json:"act"`
	To   []frame        `json:"to"`
}

func num(m map[string]any, k string) uint64 { return uint64(m[k].(float64)) }

// apply executes one model action on the real frame stack; ok is the reported success.
func apply(st []vm.GasBudget, act map[string]any) (res []vm.GasBudget, ok bool, left *vm.GasBudget) {
	top := &st[len(st)-1]
	ok = true
	switch act["op"].(string) {
	case "Charge":
		can := top.CanAfford(vm.GasCosts{ExecutionGas: num(act, "e"), StateGas: num(act, "s")})
		_, ok = top.Charge(vm.GasCosts{ExecutionGas: num(act, "e"), StateGas: num(act, "s")})
		if can != ok {
			ok = !act["ok"].(bool) // force a mismatch: CanAfford and Charge disagree
		}
	case "ChargeExecOnly":
		ok = top.ChargeExecutionOnly(num(act, "r"))
	case "RefundState":
		top.RefundState(num(act, "s"))
	case "Drain":
		top.DrainExecution()
	case "Forward":
		child := top.Forward(num(act, "x"))
		st = append(st, child)
	case "Exit":
		l := top.Exit(exitErr(act["kind"].(string)))
		left = &l
		st = st[:len(st)-1]
		st[len(st)-1].Absorb(l)
	default:
		tl.Fatal("unknown op %v", act["op"])
	}
	return st, ok, left
}

func runEdges(in string, sum *tl.Summary) {
	var edges []edge
	tl.ReadJSON(in, &edges)
	seen := map[string]bool{}
	for _, e := range edges {
		st := make([]vm.GasBudget, len(e.From))
		for i, f := range e.From {
			st[i] = unproj(f)
		}
		st, ok, _ := apply(st, e.Act)
		got := projStack(st)
		sum.Evaluations++
		sum.Steps++
		sum.Count(e.Act["op"].(string))
		key := fmt.Sprint(e.From, e.Act)
		if !seen[key] && !reflect.DeepEqual(e.From, e.To) {
			seen[key] = true
			sum.Distinct++
		}
		wantOK := true
		if v, has := e.Act["ok"]; has {
			wantOK = v.(bool)
		}
		if ok != wantOK || !reflect.DeepEqual(got, e.To) {
			sum.Violate(fmt.Sprintf("GasBudget.%v from %v: implementation gives ok=%v %v, specification ok=%v %v", e.Act, e.From, ok, got, wantOK, e.To),
				tl.M{"edge": e, "got": got, "got_ok": ok})
		}
		if sum.Evaluations%5000 == 1 {
			sum.Sample(e)
		}
	}
	sum.Rule = "every transition (state, action, successor) of the TLC state graph of MCGasBudgetEdges.cfg is executed on vm.GasBudget; distinct = distinct (state, action) pairs that change the state"
}

func runRecord(path string, seed int64, ntraces, steps int, maxv int64, sum *tl.Summary) {
	r := tl.Rand(seed)
	tr := tl.NewTrace(path)
	defer tr.Close()
	pick := func(hi int64) uint64 {
		if hi <= 0 {
			return 0
		}
		switch r.Intn(6) {
		case 0:
			return uint64(hi) // boundary
		case 1:
			return 0
		case 2:
			return uint64(r.Int63n(hi+1)) / 10
		default:
			return uint64(r.Int63n(hi + 1))
		}
	}
	shapes := map[string]bool{}
	for t := 0; t < ntraces; t++ {
		e0, s0 := uint64(r.Int63n(maxv)), uint64(r.Int63n(maxv))
		if r.Intn(4) == 0 {
			s0 = 0
		}
		st := []vm.GasBudget{vm.NewGasBudget(e0, s0)}
		tr.Emit(tl.M{"op": "reset", "e": e0, "s": s0})
		shape := ""
		for i := 0; i < steps; i++ {
			top := &st[len(st)-1]
			var ev tl.M
			switch c := r.Intn(20); {
			case c < 6:
				ce, cs := pick(int64(top.ExecutionGas)+int64(top.ExecutionGas)/8+1), pick(int64(top.StateGas)+int64(top.ExecutionGas)+2)
				if r.Intn(3) == 0 {
					cs = pick(int64(top.StateGas))
				}
				can := top.CanAfford(vm.GasCosts{ExecutionGas: ce, StateGas: cs})
				tr.Emit(tl.M{"op": "CanAfford", "e": ce, "s": cs, "ok": can})
				sum.Count("CanAfford")
				_, ok := top.Charge(vm.GasCosts{ExecutionGas: ce, StateGas: cs})
				ev = tl.M{"op": "Charge", "e": ce, "s": cs, "ok": ok}
			case c < 8:
				x := pick(int64(top.ExecutionGas) + int64(top.ExecutionGas)/8 + 1)
				ok := top.ChargeExecutionOnly(x)
				ev = tl.M{"op": "ChargeExecOnly", "r": x, "ok": ok}
			case c < 11:
				s := pick(int64(top.Spilled) + int64(top.StateGas)/2 + 3)
				if r.Intn(2) == 0 && top.UsedStateGas > 0 {
					s = pick(top.UsedStateGas)
				}
				if s == 0 {
					s = 1
				}
				top.RefundState(s)
				ev = tl.M{"op": "RefundState", "s": s}
			case c < 12:
				if r.Intn(4) != 0 {
					continue
				}
				top.DrainExecution()
				ev = tl.M{"op": "Drain"}
			case c < 16:
				if len(st) >= 12 {
					continue
				}
				x := pick(int64(top.ExecutionGas))
				if r.Intn(2) == 0 {
					x = top.ExecutionGas - top.ExecutionGas/64 // the 63/64 rule
				}
				child := top.Forward(x)
				st = append(st, child)
				ev = tl.M{"op": "Forward", "x": x}
			default:
				if len(st) == 1 {
					continue
				}
				kind := []string{"ok", "revert", "halt"}[r.Intn(3)]
				left := top.Exit(exitErr(kind))
				st = st[:len(st)-1]
				st[len(st)-1].Absorb(left)
				ev = tl.M{"op": "Exit", "kind": kind, "left": proj(left)}
			}
			ev["stack"] = projStack(st)
			tr.Emit(ev)
			sum.Count(ev["op"].(string))
			shape += ev["op"].(string)[:1]
			if t == 0 && i < 6 {
				sum.Sample(ev)
			}
		}
		sum.Traces++
		if !shapes[shape] {
			shapes[shape] = true
			sum.Distinct++
		}
		sum.Evaluations++
	}
	sum.Steps = tr.N
	sum.Rule = "seeded random operation sequences on a real vm.GasBudget frame stack (depth<=12, values<" + fmt.Sprint(maxv) + "); distinct = distinct operation-name sequences"
}

func main() {
	mode := flag.String("mode", "record", "edges|record")
	in := flag.String("in", "", "edges json (mode edges)")
	trace := flag.String("trace", "trace.ndjson", "output trace (mode record)")
	out := flag.String("out", "summary.json", "summary output")
	n := flag.Int("n", 50, "number of traces")
	steps := flag.Int("steps", 60, "steps per trace")
	maxv := flag.Int64("max", 100000, "largest initial gas value")
	flag.Parse()
	seed := int64(tl.EnvInt("VERIF_SEED", 1))
	sum := tl.NewSummary("c31", *mode, seed)
	switch *mode {
	case "edges":
		runEdges(*in, sum)
	case "record":
		runRecord(*trace, seed, *n, *steps, *maxv, sum)
	default:
		tl.Fatal("bad mode")
	}
	sum.Write(*out)
	_ = json.Marshal
	if len(sum.Violations) > 0 {
		os.Exit(1)
	}
}
