package main

// World construction for C21: small histories of account/storage tries are built with the
// real trie package over a never-collected node store; the resulting node DAG (hashes,
// children, external storage-root edges, sizes) and the per-version dirty node sets are
// what HashDB.tla is instantiated with, and what is replayed on hashdb.Database.

import (
	"bytes"
	"fmt"
	"math/big"
	"math/rand"
	"sort"

	"github.com/ethereum/go-ethereum/common"
	"github.com/ethereum/go-ethereum/core/types"
	"github.com/ethereum/go-ethereum/crypto"
	"github.com/ethereum/go-ethereum/rlp"
	"github.com/ethereum/go-ethereum/trie"
	"github.com/ethereum/go-ethereum/trie/trienode"
	"github.com/ethereum/go-ethereum/triedb/database"
	"github.com/holiman/uint256"
	tl "verif/harness/tracelib"
)

// mapStore is a node database that never forgets: the client's view while it builds states.
type mapStore struct{ nodes map[common.Hash][]byte }

type mapReader struct{ s *mapStore }

func (r mapReader) Node(owner common.Hash, path []byte, hash common.Hash) ([]byte, error) {
	return r.s.nodes[hash], nil
}
func (s *mapStore) NodeReader(root common.Hash) (database.NodeReader, error) { return mapReader{s}, nil }

// account content of a client state
type acct struct {
	Nonce   uint64
	Balance uint64
	Slots   map[common.Hash]byte // slot key -> one-byte value (0 = absent)
}

func (a *acct) clone() *acct {
	c := &acct{Nonce: a.Nonce, Balance: a.Balance, Slots: map[common.Hash]byte{}}
	for k, v := range a.Slots {
		c.Slots[k] = v
	}
	return c
}

type content map[common.Hash]*acct

func (c content) clone() content {
	o := content{}
	for k, a := range c {
		o[k] = a.clone()
	}
	return o
}

// one built version
type version struct {
	Root    common.Hash
	Parent  int // index+1 of the parent version, 0 = empty state
	Merged  *trienode.MergedNodeSet
	Content content
	Roots   map[common.Hash]common.Hash // account -> storage root
	Touch   []common.Hash               // accounts rewritten with identical content
}

// slotPadding enlarges every storage value (record mode -fat): a few dozen storage leaves then
// exceed ethdb.IdealBatchSize, so that Commit writes and uncaches in several batches.
var slotPadding = 0

type world struct {
	store    *mapStore
	versions []*version
	ids      map[common.Hash]int
	hashes   []common.Hash // id-1 -> hash
	kids     [][]int
	ext      []map[int]bool
}

func key(prefix ...byte) common.Hash {
	// 32-byte trie key with the given leading nibbles, padded with a fixed pattern
	var h common.Hash
	for i := range h {
		h[i] = 0x5a
	}
	for i, n := range prefix {
		if i%2 == 0 {
			h[i/2] = n<<4 | h[i/2]&0x0f
		} else {
			h[i/2] = h[i/2]&0xf0 | n
		}
	}
	return h
}

func sortedHashes[V any](m map[common.Hash]V) []common.Hash {
	out := make([]common.Hash, 0, len(m))
	for k := range m {
		out = append(out, k)
	}
	sort.Slice(out, func(i, j int) bool { return bytes.Compare(out[i][:], out[j][:]) < 0 })
	return out
}

// build derives the next version from parent content by committing real tries.
func (w *world) build(parent int, next content, touch []common.Hash) *version {
	var (
		proot  = types.EmptyRootHash
		pcont  = content{}
		proots = map[common.Hash]common.Hash{}
	)
	if parent > 0 {
		p := w.versions[parent-1]
		proot, pcont, proots = p.Root, p.Content, p.Roots
	}
	at, err := trie.New(trie.StateTrieID(proot), w.store)
	if err != nil {
		tl.Fatal("open account trie: %v", err)
	}
	merged := trienode.NewMergedNodeSet()
	roots := map[common.Hash]common.Hash{}
	touched := map[common.Hash]bool{}
	for _, t := range touch {
		touched[t] = true
	}
	all := map[common.Hash]bool{}
	for k := range pcont {
		all[k] = true
	}
	for k := range next {
		all[k] = true
	}
	for _, k := range sortedHashes(all) {
		na, pa := next[k], pcont[k]
		if na == nil {
			if err := at.Delete(k[:]); err != nil {
				tl.Fatal("delete account: %v", err)
			}
			continue
		}
		sroot := types.EmptyRootHash
		if pa != nil {
			sroot = proots[k]
		}
		changed := pa == nil || pa.Nonce != na.Nonce || pa.Balance != na.Balance || touched[k]
		// storage
		diff := false
		var pslots map[common.Hash]byte
		if pa != nil {
			pslots = pa.Slots
		}
		slots := map[common.Hash]bool{}
		for s := range pslots {
			slots[s] = true
		}
		for s := range na.Slots {
			slots[s] = true
		}
		for s := range slots {
			if pslots[s] != na.Slots[s] {
				diff = true
			}
		}
		if diff || (touched[k] && len(na.Slots) > 0) {
			st, err := trie.New(trie.StorageTrieID(proot, k, sroot), w.store)
			if err != nil {
				tl.Fatal("open storage trie: %v", err)
			}
			for _, s := range sortedHashes(slots) {
				nv := na.Slots[s]
				if touched[k] && nv != 0 {
					// rewrite with a different value first so that the path is dirtied
					st.Update(s[:], []byte{nv ^ 0x40, 1, 2, 3})
				}
				if nv == 0 {
					if pslots[s] != 0 {
						st.Delete(s[:])
					}
				} else if nv != pslots[s] || touched[k] {
					st.Update(s[:], append([]byte{nv, 0xaa, 0xbb, 0xcc, 0xdd, 0xee, 0xff, 0x11, 0x22}, make([]byte, slotPadding)...))
				}
			}
			nr, set := st.Commit(false)
			if set != nil {
				if err := merged.Merge(set); err != nil {
					tl.Fatal("merge: %v", err)
				}
				for _, n := range set.Nodes {
					if len(n.Blob) > 0 {
						w.store.nodes[n.Hash] = n.Blob
					}
				}
			}
			if nr != sroot {
				changed = true
			}
			sroot = nr
		}
		roots[k] = sroot
		if changed {
			enc := encodeAccount(na, sroot)
			if touched[k] {
				at.Update(k[:], append([]byte{}, enc[:len(enc)-1]...)) // dirty the path with other bytes first
			}
			if err := at.Update(k[:], enc); err != nil {
				tl.Fatal("update account: %v", err)
			}
		}
	}
	root, set := at.Commit(true)
	if set != nil {
		if err := merged.Merge(set); err != nil {
			tl.Fatal("merge: %v", err)
		}
		for _, n := range set.Nodes {
			if len(n.Blob) > 0 {
				w.store.nodes[n.Hash] = n.Blob
			}
		}
	}
	v := &version{Root: root, Parent: parent, Merged: merged, Content: next.clone(), Roots: roots, Touch: touch}
	w.versions = append(w.versions, v)
	return v
}

func encodeAccount(a *acct, sroot common.Hash) []byte {
	enc, err := rlp.EncodeToBytes(&types.StateAccount{Nonce: a.Nonce, Balance: uint256.NewInt(a.Balance), Root: sroot, CodeHash: types.EmptyCodeHash[:]})
	if err != nil {
		tl.Fatal("encode account: %v", err)
	}
	return enc
}

// index assigns ids and derives the DAG once all versions are built.
func (w *world) index() {
	w.ids = map[common.Hash]int{}
	add := func(h common.Hash) {
		if _, ok := w.ids[h]; !ok {
			w.hashes = append(w.hashes, h)
			w.ids[h] = len(w.hashes)
		}
	}
	for _, v := range w.versions {
		for _, owner := range v.owners() {
			set := v.Merged.Sets[owner]
			for _, p := range sortedPaths(set) {
				if n := set.Nodes[p]; len(n.Blob) > 0 {
					add(n.Hash)
				}
			}
		}
	}
	w.kids = make([][]int, len(w.hashes))
	w.ext = make([]map[int]bool, len(w.hashes))
	for i, h := range w.hashes {
		w.ext[i] = map[int]bool{}
		trie.ForGatherChildren(w.store.nodes[h], func(c common.Hash) {
			id, ok := w.ids[c]
			if !ok {
				tl.Fatal("child %x of node %d unknown", c, i+1)
			}
			w.kids[i] = append(w.kids[i], id)
		})
	}
	for _, v := range w.versions {
		for _, l := range v.leaves(w) {
			w.ext[l[1]-1][l[0]] = true
		}
	}
}

func sortedPaths(set *trienode.NodeSet) []string {
	out := make([]string, 0, len(set.Nodes))
	for p := range set.Nodes {
		out = append(out, p)
	}
	sort.Strings(out)
	return out
}

// owners lists the storage owners (sorted) followed by the account trie, if present.
func (v *version) owners() []common.Hash {
	var out []common.Hash
	for _, o := range sortedHashes(v.Merged.Sets) {
		if o != (common.Hash{}) {
			out = append(out, o)
		}
	}
	if _, ok := v.Merged.Sets[common.Hash{}]; ok {
		out = append(out, common.Hash{})
	}
	return out
}

// leaves returns <<storage root id, leaf node id>> for the account leaves of the update.
func (v *version) leaves(w *world) [][2]int {
	var out [][2]int
	set := v.Merged.Sets[common.Hash{}]
	if set == nil {
		return nil
	}
	for _, l := range set.Leaves {
		var a types.StateAccount
		if err := rlp.DecodeBytes(l.Blob, &a); err != nil {
			tl.Fatal("decode leaf: %v", err)
		}
		if a.Root == types.EmptyRootHash {
			continue
		}
		c, ok1 := w.ids[a.Root]
		p, ok2 := w.ids[l.Parent]
		if !ok1 || !ok2 {
			tl.Fatal("leaf refers to unknown node")
		}
		out = append(out, [2]int{c, p})
	}
	sort.Slice(out, func(i, j int) bool { return out[i][0] < out[j][0] || out[i][0] == out[j][0] && out[i][1] < out[j][1] })
	return out
}

type entryJSON struct {
	ID   int   `json:"id"`
	Path []int `json:"path"`
}
type versionJSON struct {
	Root   int           `json:"root"`
	Parent int           `json:"parent"`
	Sets   [][]entryJSON `json:"sets"`
	Acct   []entryJSON   `json:"acct"`
	Leaves [][2]int      `json:"leaves"`
}
type worldJSON struct {
	N        int           `json:"n"`
	Kids     [][]int       `json:"kids"`
	Ext      [][]int       `json:"ext"`
	Size     []int         `json:"size"`
	Meta     int           `json:"meta"`
	Versions []versionJSON `json:"versions"`
}

func entries(w *world, set *trienode.NodeSet) []entryJSON {
	out := []entryJSON{}
	for _, p := range sortedPaths(set) {
		n := set.Nodes[p]
		if len(n.Blob) == 0 {
			continue
		}
		e := entryJSON{ID: w.ids[n.Hash], Path: []int{}}
		for _, b := range []byte(p) {
			e.Path = append(e.Path, int(b))
		}
		out = append(out, e)
	}
	return out
}

func (w *world) json(meta int) worldJSON {
	j := worldJSON{N: len(w.hashes), Meta: meta, Kids: make([][]int, len(w.hashes)), Ext: make([][]int, len(w.hashes)), Size: make([]int, len(w.hashes))}
	for i, h := range w.hashes {
		j.Kids[i] = append([]int{}, w.kids[i]...)
		j.Ext[i] = []int{}
		for e := range w.ext[i] {
			j.Ext[i] = append(j.Ext[i], e)
		}
		sort.Ints(j.Ext[i])
		j.Size[i] = common.HashLength + len(w.store.nodes[h])
	}
	for _, v := range w.versions {
		vj := versionJSON{Root: w.ids[v.Root], Parent: v.Parent, Sets: [][]entryJSON{}, Acct: []entryJSON{}, Leaves: v.leaves(w)}
		if vj.Leaves == nil {
			vj.Leaves = [][2]int{}
		}
		for _, o := range v.owners() {
			if o == (common.Hash{}) {
				vj.Acct = entries(w, v.Merged.Sets[o])
			} else if e := entries(w, v.Merged.Sets[o]); len(e) > 0 {
				vj.Sets = append(vj.Sets, e)
			}
		}
		j.Versions = append(j.Versions, vj)
	}
	return j
}

// reach returns the ids reachable from id (through children and external edges).
func (w *world) reach(id int) []int {
	seen := map[int]bool{}
	var walk func(int)
	walk = func(n int) {
		if n == 0 || seen[n] {
			return
		}
		seen[n] = true
		for _, c := range w.kids[n-1] {
			walk(c)
		}
		for c := range w.ext[n-1] {
			walk(c)
		}
	}
	walk(id)
	out := make([]int, 0, len(seen))
	for n := range seen {
		out = append(out, n)
	}
	sort.Ints(out)
	return out
}

func newWorld() *world { return &world{store: &mapStore{nodes: map[common.Hash][]byte{}}} }

// ---------------------------------------------------------------- scenarios

// account and slot keys with controlled nibble structure: A and B share the first nibble
// (an internal branch below the root), C and D sit elsewhere.
var (
	acctKeys = []common.Hash{key(1, 0), key(1, 1), key(7), key(0xc), key(1, 1, 4), key(7, 3), key(7, 3, 0xf), key(0xc, 0), key(2), key(0xe, 0xe)}
	slotKeys = []common.Hash{key(2, 0), key(2, 1), key(9), key(2, 1, 8), key(9, 9), key(0)}
)

type edit struct {
	Acct  int  // index into acctKeys
	Kind  int  // 0 set slot, 1 bump balance, 2 delete account, 3 restore from version, 4 touch, 5 copy storage of another account
	Slot  int  // index into slotKeys
	Val   byte // slot value (0 clears)
	From  int  // version index (restore) / account index (copy)
	Nonce uint64
}
type vspec struct {
	Parent int
	Edits  []edit
}

func buildScenario(specs []vspec) *world {
	w := newWorld()
	for _, s := range specs {
		base := content{}
		if s.Parent > 0 {
			base = w.versions[s.Parent-1].Content.clone()
		}
		var touch []common.Hash
		for _, e := range s.Edits {
			k := acctKeys[e.Acct]
			a := base[k]
			switch e.Kind {
			case 0:
				if a == nil {
					a = &acct{Balance: 1000 + uint64(e.Acct), Slots: map[common.Hash]byte{}}
					base[k] = a
				}
				if e.Val == 0 {
					delete(a.Slots, slotKeys[e.Slot])
				} else {
					a.Slots[slotKeys[e.Slot]] = e.Val
				}
			case 1:
				if a == nil {
					a = &acct{Balance: 1000 + uint64(e.Acct), Slots: map[common.Hash]byte{}}
					base[k] = a
				}
				a.Balance += 7
			case 2:
				delete(base, k)
			case 3:
				if e.From >= 1 && e.From <= len(w.versions) {
					if old := w.versions[e.From-1].Content[k]; old != nil {
						base[k] = old.clone()
					} else {
						delete(base, k)
					}
				}
			case 4:
				if a != nil {
					touch = append(touch, k)
				}
			case 5:
				if src := base[acctKeys[e.From]]; src != nil {
					if a == nil {
						a = &acct{Balance: 1000 + uint64(e.Acct), Slots: map[common.Hash]byte{}}
						base[k] = a
					}
					a.Slots = src.clone().Slots
				}
			}
		}
		w.build(s.Parent, base, touch)
	}
	w.index()
	return w
}

// fixed scenarios: the sharing patterns named in the design
var fixedScenarios = [][]vspec{
	// 0: storage trie shared by two accounts; b changes and changes back (A -> B -> A)
	{
		{0, []edit{{Acct: 0, Kind: 0, Slot: 0, Val: 1}, {Acct: 1, Kind: 5, From: 0}}},
		{1, []edit{{Acct: 1, Kind: 1}}},
		{2, []edit{{Acct: 1, Kind: 3, From: 1}}},
	},
	// 1: two roots sharing a subtree (A,B below one branch; C changes), then a fork that deletes C
	{
		{0, []edit{{Acct: 0, Kind: 1}, {Acct: 1, Kind: 1}, {Acct: 2, Kind: 1}}},
		{1, []edit{{Acct: 2, Kind: 1}}},
		{1, []edit{{Acct: 2, Kind: 2}}},
	},
	// 2: storage toggled S -> S' -> S with unchanged balances (re-delivered storage root and leaf)
	{
		{0, []edit{{Acct: 0, Kind: 0, Slot: 0, Val: 1}, {Acct: 2, Kind: 1}}},
		{1, []edit{{Acct: 0, Kind: 0, Slot: 0, Val: 2}}},
		{2, []edit{{Acct: 0, Kind: 0, Slot: 0, Val: 1}}},
	},
	// 3: two-level storage trie, one slot rewritten
	{
		{0, []edit{{Acct: 0, Kind: 0, Slot: 0, Val: 1}, {Acct: 0, Kind: 0, Slot: 1, Val: 2}}},
		{1, []edit{{Acct: 0, Kind: 0, Slot: 1, Val: 3}}},
	},
	// 4: rewrite with identical content (dirty-but-equal nodes re-delivered), two storage owners in one update
	{
		{0, []edit{{Acct: 0, Kind: 0, Slot: 0, Val: 1}, {Acct: 2, Kind: 0, Slot: 2, Val: 5}}},
		{1, []edit{{Acct: 0, Kind: 4}}},
		{2, []edit{{Acct: 2, Kind: 0, Slot: 2, Val: 6}}},
	},
}

// fatScenario (record mode with -fat): three storage leaves in the first state, rewritten,
// toggled back and forked afterwards.
var fatScenario = []vspec{
	{0, []edit{{Acct: 0, Kind: 0, Slot: 0, Val: 1}, {Acct: 0, Kind: 0, Slot: 1, Val: 2}, {Acct: 2, Kind: 0, Slot: 2, Val: 5}, {Acct: 1, Kind: 1}}},
	{1, []edit{{Acct: 0, Kind: 0, Slot: 0, Val: 2}}},
	{2, []edit{{Acct: 0, Kind: 0, Slot: 0, Val: 1}, {Acct: 2, Kind: 0, Slot: 2, Val: 6}}},
	{1, []edit{{Acct: 1, Kind: 5, From: 0}}},
	{3, []edit{{Acct: 0, Kind: 2}}},
}

// randomScenario draws a small history; maxNodes bounds the DAG so that TLC stays exhaustive.
func randomScenario(r *rand.Rand, nver, maxNodes int) (*world, []vspec) {
	return randomScenarioN(r, nver, 4, maxNodes, 2+r.Intn(2), 2, 2)
}

func randomScenarioN(r *rand.Rand, nver, minNodes, maxNodes, na, nslots, maxEdits int) (*world, []vspec) {
	for {
		var specs []vspec
		for v := 0; v < nver; v++ {
			s := vspec{}
			if v > 0 {
				s.Parent = v
				if r.Intn(3) == 0 {
					s.Parent = 1 + r.Intn(v)
				}
			}
			ne := 1 + r.Intn(maxEdits)
			if v == 0 {
				ne = na
			}
			for i := 0; i < ne; i++ {
				e := edit{Acct: r.Intn(na)}
				if v == 0 {
					e.Acct = i
				}
				switch c := r.Intn(14); {
				case c < 4:
					e.Kind, e.Slot, e.Val = 0, r.Intn(nslots), byte(r.Intn(3))
				case c < 5:
					e.Kind = 1
				case c < 6:
					e.Kind = 2
				case c < 10:
					e.Kind, e.From = 3, 1+r.Intn(v+1) // back to an earlier content: A -> B -> A re-delivery
				case c < 12:
					e.Kind = 4 // rewritten with equal content
				default:
					e.Kind, e.From = 5, r.Intn(na)
				}
				if v == 0 && e.Kind >= 2 && e.Kind != 5 {
					e.Kind = 1
				}
				s.Edits = append(s.Edits, e)
			}
			specs = append(specs, s)
		}
		w := buildScenario(specs)
		distinct := map[common.Hash]bool{}
		for _, v := range w.versions {
			distinct[v.Root] = true
		}
		if len(w.hashes) <= maxNodes && len(w.hashes) >= minNodes && len(distinct) >= 2 {
			return w, specs
		}
	}
}

var _ = fmt.Sprint
var _ = big.NewInt
var _ = crypto.Keccak256
