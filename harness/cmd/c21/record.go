package main

import (
	"encoding/json"
	"fmt"
	"os"

	"github.com/ethereum/go-ethereum/common"
	"github.com/ethereum/go-ethereum/core/types"
	tl "verif/harness/tracelib"
)

// readable reports, through the public reader only, whether every node below root can be read.
func (s *sut) readable(root int) bool {
	if root == 0 {
		return true
	}
	rd, err := s.db.NodeReader(types.EmptyRootHash)
	if err != nil {
		return false
	}
	for _, n := range s.w.reach(root) {
		if blob, _ := rd.Node(common.Hash{}, nil, s.w.hashes[n-1]); len(blob) == 0 {
			return false
		}
	}
	return true
}

// runRecord builds one larger world and drives random client histories over it (V): chains and
// forks of updates, references, releases in random order, caps at random and boundary limits,
// commits.  The client only does what a client can do: it builds a state on a parent it can
// read, references states it can read, and releases references it holds.
func runRecord(tracePath, worldPath string, seed int64, nhist, nsteps, cleans int, sum *tl.Summary) {
	r := tl.Rand(seed)
	w, _ := randomScenarioN(r, 10+r.Intn(5), 25, 400, 5+r.Intn(5), 3+r.Intn(3), 3)
	if slotPadding > 0 {
		// large storage values: a fixed history whose first state alone holds three large storage
		// leaves, so that Commit of its root writes (and uncaches) in more than one batch
		w = buildScenario(fatScenario)
	}
	multiBatch := 0
	meta := metaSize()
	b, _ := json.Marshal(w.json(meta))
	if err := os.WriteFile(worldPath, b, 0o644); err != nil {
		tl.Fatal("write world: %v", err)
	}
	sum.Extra["nodes"] = len(w.hashes)
	sum.Extra["versions"] = len(w.versions)
	rootOf := func(v int) int {
		if v == 0 {
			return 0
		}
		return w.ids[w.versions[v-1].Root]
	}
	tr := tl.NewTrace(tracePath)
	defer tr.Close()
	shapes := map[string]bool{}
	for h := 0; h < nhist; h++ {
		s := newSut(w, cleans)
		tr.Emit(tl.M{"op": "reset"})
		done := map[int]bool{}
		live := make([]int, len(w.hashes))
		var held []int // roots the client holds references on, in acquisition order
		shape := ""
		for i := 0; i < nsteps; i++ {
			var a action
			switch c := r.Intn(20); {
			case slotPadding > 0 && i == 0: // (large values) every history starts by building the first state ...
				a = action{Op: "Update", V: 1}
			case slotPadding > 0 && i == 1: // ... and committing it while all of it is cached
				a = action{Op: "Commit", R: rootOf(1)}
			case c < 7: // build a state
				var cand []int
				for v := range w.versions {
					p := w.versions[v].Parent
					if (p == 0 || done[p]) && (!done[v+1] || !s.readable(rootOf(v+1))) && s.readable(rootOf(p)) {
						cand = append(cand, v+1)
					}
				}
				if len(cand) == 0 {
					continue
				}
				a = action{Op: "Update", V: cand[r.Intn(len(cand))]}
				if r.Intn(3) > 0 {
					a.V = cand[0] // mostly extend in order, like a chain
				}
			case c < 11: // reference a known, readable root
				var cand []int
				for v := range done {
					if rt := rootOf(v); rt != 0 && live[rt-1] < 3 && s.readable(rt) {
						cand = append(cand, rt)
					}
				}
				if len(cand) == 0 {
					continue
				}
				sortInts(cand)
				a = action{Op: "Reference", R: cand[r.Intn(len(cand))]}
			case c < 15: // release
				if len(held) == 0 {
					continue
				}
				j := 0
				if r.Intn(2) == 0 {
					j = r.Intn(len(held))
				}
				a = action{Op: "Dereference", R: held[j]}
				held = append(held[:j], held[j+1:]...)
			case c < 18: // cap
				st, _ := s.project()
				_, size := s.db.Size()
				switch r.Intn(4) {
				case 0:
					a = action{Op: "Cap", Limit: 0}
				case 1:
					a = action{Op: "Cap", Limit: int(size) / 2}
				default:
					// a boundary: exactly what remains after flushing k entries, sometimes one less
					k := 0
					if len(st.F) > 0 {
						k = r.Intn(len(st.F) + 1)
					}
					lim := int(size)
					extOf := map[int]int{}
					for _, e := range st.D {
						extOf[e.ID] = len(e.Ext)
					}
					for _, id := range st.F[:k] {
						lim -= common.HashLength + len(w.store.nodes[w.hashes[id-1]]) + meta + common.HashLength*extOf[id]
					}
					if r.Intn(3) == 0 && lim > 0 {
						lim--
					}
					a = action{Op: "Cap", Limit: lim}
				}
			default: // commit
				var cand []int
				for v := range done {
					if rt := rootOf(v); rt != 0 {
						cand = append(cand, rt)
					}
				}
				if len(cand) == 0 {
					continue
				}
				sortInts(cand)
				a = action{Op: "Commit", R: cand[r.Intn(len(cand))]}
			}
			if a.Op == "Commit" {
				// bytes this commit writes: cached nodes reachable from the root through cached nodes
				before, _ := s.project()
				cached := map[int]bool{}
				for _, e := range before.D {
					cached[e.ID] = true
				}
				bytes, seen := 0, map[int]bool{}
				var walk func(int)
				walk = func(n int) {
					if n == 0 || seen[n] || !cached[n] {
						return
					}
					seen[n] = true
					bytes += common.HashLength + len(w.store.nodes[w.hashes[n-1]])
					for _, c := range w.kids[n-1] {
						walk(c)
					}
					for c := range w.ext[n-1] {
						walk(c)
					}
				}
				walk(a.R)
				if bytes > 100*1024 {
					multiBatch++
				}
			}
			if err := s.apply(a); err != nil {
				sum.Violate(fmt.Sprintf("%s returned error %v", actStr(a), err), tl.M{"history": h, "step": i})
				return
			}
			switch a.Op {
			case "Update":
				done[a.V] = true
			case "Reference":
				live[a.R-1]++
				held = append(held, a.R)
			case "Dereference":
				live[a.R-1]--
			}
			st, defect := s.project()
			if defect != "" {
				sum.Violate("hashdb internal structure after "+actStr(a)+": "+defect, tl.M{"history": h, "step": i, "seed": seed})
				return
			}
			if msg := s.blackbox(st, live); msg != "" {
				sum.Violate("after hashdb."+actStr(a)+": "+msg, tl.M{"history": h, "step": i, "seed": seed, "state": st})
				return
			}
			_, size := s.db.Size()
			tr.Emit(tl.M{"op": a.Op, "v": a.V, "r": a.R, "limit": a.Limit, "state": norm(st), "size": int(size)})
			sum.Count(a.Op)
			shape += a.Op[:2]
			if h == 0 && i < 4 {
				sum.Sample(tl.M{"op": a.Op, "v": a.V, "r": a.R, "limit": a.Limit, "cached": len(st.D), "persisted": len(st.Disk)})
			}
		}
		s.db.Close()
		sum.Traces++
		sum.Evaluations++
		if !shapes[shape] {
			shapes[shape] = true
			sum.Distinct++
		}
	}
	sum.Steps = tr.N
	sum.Extra["commits_spanning_batches"] = multiBatch
	sum.Rule = fmt.Sprintf("random client histories over a world of %d nodes / %d versions built from real tries; every database call is logged with the full white-box state; distinct = distinct operation sequences", len(w.hashes), len(w.versions))
}

func sortInts(a []int) {
	for i := 1; i < len(a); i++ {
		for j := i; j > 0 && a[j] < a[j-1]; j-- {
			a[j], a[j-1] = a[j-1], a[j]
		}
	}
}
