// c21 binds spec/state/HashDB.tla to triedb/hashdb.Database (property C21: hash-scheme
// garbage collection never drops live nodes).
//
//	-mode world  -scenario K -world w.json       build a history of real account/storage tries and
//	                                             write its node DAG + update sets as TLC constants
//	-mode edges  -scenario K -in edges.json      replay every transition of the TLC state graph of
//	                                             that world on a real hashdb.Database (R)
//	-mode path   -scenario K -in path.json       replay one TLC behaviour (counter-example) and report
//	                                             whether the real database reaches the same states
//	-mode record -trace t.ndjson -world w.json   random long histories on larger tries, one event per
//	                                             database call with the full white-box state (V)
package main

import (
	"bytes"
	"encoding/json"
	"flag"
	"fmt"
	"os"
	"reflect"
	"sort"

	"github.com/ethereum/go-ethereum/common"
	"github.com/ethereum/go-ethereum/core/rawdb"
	"github.com/ethereum/go-ethereum/core/types"
	"github.com/ethereum/go-ethereum/crypto"
	"github.com/ethereum/go-ethereum/ethdb"
	"github.com/ethereum/go-ethereum/triedb/hashdb"
	tl "verif/harness/tracelib"
)

type dEntry struct {
	ID      int   `json:"id"`
	Parents int   `json:"parents"`
	Ext     []int `json:"ext"`
}

// implState is the projection of hashdb.Database compared with the specification state.
type implState struct {
	D    []dEntry `json:"d"`
	F    []int    `json:"f"`
	Disk []int    `json:"disk"`
	DS   int      `json:"ds"`
	CS   int      `json:"cs"`
}

type modelState struct {
	implState
	Live  []int `json:"live"`
	Fresh []int `json:"fresh"`
	Done  []int `json:"done"`
}

func (s implState) key() string {
	b, _ := json.Marshal(norm(s))
	return string(b)
}
func (s modelState) key() string {
	b, _ := json.Marshal(struct {
		I implState
		L []int
		F []int
		D []int
	}{norm(s.implState), nz(s.Live), nz(s.Fresh), nz(s.Done)})
	return string(b)
}
func nz(a []int) []int {
	if a == nil {
		return []int{}
	}
	return a
}
func norm(s implState) implState {
	o := implState{D: make([]dEntry, len(s.D)), F: nz(s.F), Disk: nz(s.Disk), DS: s.DS, CS: s.CS}
	for i, e := range s.D {
		o.D[i] = dEntry{e.ID, e.Parents, nz(e.Ext)}
	}
	return o
}

// sut is a real hashdb.Database over a memory store plus the id mapping of a world.
type sut struct {
	w    *world
	disk ethdb.Database
	db   *hashdb.Database
}

func newSut(w *world, cleans int) *sut {
	disk := rawdb.NewMemoryDatabase()
	return &sut{w: w, disk: disk, db: hashdb.New(disk, &hashdb.Config{CleanCacheSize: cleans})}
}

// project reads the white-box state; structural defects of the flush-list are returned as text.
func (s *sut) project() (implState, string) {
	st := s.db.VerifGCState()
	var out implState
	out.DS, out.CS = int(st.DirtiesSize), int(st.ChildrenSize)
	for h, n := range st.Dirties {
		id, ok := s.w.ids[h]
		if !ok {
			return out, fmt.Sprintf("unknown hash %x in dirties", h)
		}
		e := dEntry{ID: id, Parents: int(n.Parents), Ext: []int{}}
		for _, x := range n.External {
			xid, ok := s.w.ids[x]
			if !ok {
				return out, fmt.Sprintf("unknown external hash %x", x)
			}
			e.Ext = append(e.Ext, xid)
		}
		sort.Ints(e.Ext)
		if n.BlobLen != len(s.w.store.nodes[h]) {
			return out, fmt.Sprintf("blob length of node %d differs", id)
		}
		out.D = append(out.D, e)
	}
	sort.Slice(out.D, func(i, j int) bool { return out.D[i].ID < out.D[j].ID })
	// flush-list: follow the links from the oldest entry, checking the back links
	out.F = []int{}
	prev := common.Hash{}
	for h := st.Oldest; h != (common.Hash{}); {
		n, ok := st.Dirties[h]
		if !ok {
			return out, fmt.Sprintf("flush-list reaches %x which is not cached", h)
		}
		// (the head's back link is never read by the code: an entry inserted into an emptied
		// list inherits the dangling db.newest as flushPrev)
		if h != st.Oldest && n.FlushPrev != prev {
			return out, fmt.Sprintf("flush-list back link of node %d is wrong", s.w.ids[h])
		}
		out.F = append(out.F, s.w.ids[h])
		if len(out.F) > len(st.Dirties) {
			return out, "flush-list is cyclic"
		}
		prev, h = h, n.FlushNext
	}
	// (when the list is empty the code leaves db.newest dangling; insert then resets both ends)
	if len(out.F) > 0 && st.Newest != prev {
		return out, "flush-list tail pointer is wrong"
	}
	// persistent store: legacy trie nodes are keyed by their hash
	out.Disk = []int{}
	it := s.disk.NewIterator(nil, nil)
	for it.Next() {
		if len(it.Key()) != common.HashLength {
			continue
		}
		h := common.BytesToHash(it.Key())
		id, ok := s.w.ids[h]
		if !ok {
			it.Release()
			return out, fmt.Sprintf("unknown hash %x on disk", h)
		}
		if crypto.Keccak256Hash(it.Value()) != h {
			it.Release()
			return out, fmt.Sprintf("node %d on disk has a blob with another hash", id)
		}
		out.Disk = append(out.Disk, id)
	}
	it.Release()
	sort.Ints(out.Disk)
	return out, ""
}

// blackbox checks, through the public reader only, that exactly the nodes the white-box state
// claims are readable, that every node below a referenced root is readable with the right
// content, and that the reported size is the sum over the cached contents.
func (s *sut) blackbox(st implState, live []int) string {
	avail := map[int]bool{}
	for _, e := range st.D {
		avail[e.ID] = true
	}
	for _, d := range st.Disk {
		avail[d] = true
	}
	rd, err := s.db.NodeReader(types.EmptyRootHash)
	if err != nil {
		return "no reader: " + err.Error()
	}
	for i, h := range s.w.hashes {
		blob, _ := rd.Node(common.Hash{}, nil, h)
		if (len(blob) > 0) != avail[i+1] {
			return fmt.Sprintf("node %d readable=%v but cached-or-persisted=%v", i+1, len(blob) > 0, avail[i+1])
		}
		if len(blob) > 0 && !bytes.Equal(blob, s.w.store.nodes[h]) {
			return fmt.Sprintf("node %d read back with different content", i+1)
		}
	}
	for r, c := range live {
		if c == 0 {
			continue
		}
		if _, err := s.db.NodeReader(s.w.hashes[r]); err != nil {
			return fmt.Sprintf("referenced root %d is not available: %v", r+1, err)
		}
		for _, n := range s.w.reach(r + 1) {
			if blob, _ := rd.Node(common.Hash{}, nil, s.w.hashes[n-1]); len(blob) == 0 {
				return fmt.Sprintf("node %d below referenced root %d is not readable", n, r+1)
			}
		}
	}
	_, size := s.db.Size()
	meta := s.db.VerifGCState().CachedNodeSize
	want := st.DS + st.CS + len(st.D)*meta
	sum, ext := 0, 0
	for _, e := range st.D {
		sum += common.HashLength + len(s.w.store.nodes[s.w.hashes[e.ID-1]])
		ext += common.HashLength * len(e.Ext)
	}
	if int(size) != want || st.DS != sum || st.CS != ext {
		return fmt.Sprintf("reported size %d (dirties %d, children %d) but cached contents sum to %d + %d + %d", int(size), st.DS, st.CS, sum, ext, len(st.D)*meta)
	}
	return ""
}

type action struct {
	Op    string `json:"op"`
	V     int    `json:"v,omitempty"`
	R     int    `json:"r,omitempty"`
	Limit int    `json:"limit,omitempty"`
	K     int    `json:"k,omitempty"`
	Perm  []int  `json:"perm,omitempty"`
}

func (s *sut) apply(a action) error {
	switch a.Op {
	case "Update":
		v := s.w.versions[a.V-1]
		parent := types.EmptyRootHash
		if v.Parent > 0 {
			parent = s.w.versions[v.Parent-1].Root
		}
		return s.db.Update(v.Root, parent, uint64(a.V), v.Merged)
	case "Reference":
		s.db.Reference(s.w.hashes[a.R-1], common.Hash{})
	case "Dereference":
		s.db.Dereference(s.w.hashes[a.R-1])
	case "Cap":
		return s.db.Cap(common.StorageSize(a.Limit))
	case "Commit":
		return s.db.Commit(s.w.hashes[a.R-1], false)
	default:
		tl.Fatal("unknown op %q", a.Op)
	}
	return nil
}

func (a action) sameCall(b action) bool {
	return a.Op == b.Op && a.V == b.V && a.R == b.R && a.Limit == b.Limit
}

type edge struct {
	From modelState `json:"from"`
	Act  action     `json:"act"`
	To   modelState `json:"to"`
}

func getWorld(scenario int, seed int64, nver, maxNodes int) *world {
	if scenario >= 0 {
		if scenario >= len(fixedScenarios) {
			tl.Fatal("no such scenario %d", scenario)
		}
		return buildScenario(fixedScenarios[scenario])
	}
	// random scenario number -k: derived from the seed and k
	w, _ := randomScenario(tl.Rand(seed*1000+int64(-scenario)), nver, maxNodes)
	return w
}

func metaSize() int {
	return hashdb.New(rawdb.NewMemoryDatabase(), nil).VerifGCState().CachedNodeSize
}

// ---------------------------------------------------------------- edges (R)

func runEdges(w *world, in string, cleans int, sum *tl.Summary) {
	var edges []edge
	tl.ReadJSON(in, &edges)
	// build the graph
	type node struct {
		out    []int // edge indices
		parent int   // edge index by which BFS reached it, -1 for init
		depth  int
	}
	g := map[string]*node{}
	keys := make([]string, len(edges))
	tokeys := make([]string, len(edges))
	for i, e := range edges {
		keys[i], tokeys[i] = e.From.key(), e.To.key()
		if g[keys[i]] == nil {
			g[keys[i]] = &node{parent: -2}
		}
		g[keys[i]].out = append(g[keys[i]].out, i)
	}
	initKey := modelState{Live: make([]int, len(w.hashes))}.key()
	if g[initKey] == nil {
		tl.Fatal("initial state not among the edges")
	}
	g[initKey].parent = -1
	queue := []string{initKey}
	for len(queue) > 0 {
		k := queue[0]
		queue = queue[1:]
		for _, ei := range g[k].out {
			tk := tokeys[ei]
			if g[tk] == nil {
				g[tk] = &node{parent: -2}
			}
			if g[tk].parent == -2 {
				g[tk].parent, g[tk].depth = ei, g[k].depth+1
				queue = append(queue, tk)
			}
		}
	}
	covered := make([]bool, len(edges))
	unreached := 0
	maxDepth := 0
	for target := range edges {
		if covered[target] {
			continue
		}
		if g[keys[target]].parent == -2 {
			tl.Fatal("edge %d starts in a state that is not reachable from the initial state", target)
		}
		// path of edge indices from init to the target edge
		var path []int
		for k := keys[target]; g[k].parent >= 0; k = keys[g[k].parent] {
			path = append([]int{g[k].parent}, path...)
		}
		path = append(path, target)
		if len(path) > maxDepth {
			maxDepth = len(path)
		}
		ok := false
		for attempt := 0; attempt < 40 && !ok; attempt++ {
			s := newSut(w, cleans)
			cur := initKey
			diverged := false
			for _, ei := range path {
				want := edges[ei]
				if err := s.apply(want.Act); err != nil {
					sum.Violate(fmt.Sprintf("%s returned error %v", want.Act.Op, err), tl.M{"path": pathActs(edges, path), "at": want.Act})
					return
				}
				got, defect := s.project()
				sum.Steps++
				if defect != "" {
					sum.Violate("hashdb internal structure: "+defect, tl.M{"path": pathActs(edges, path), "at": want.Act, "world": w.json(metaSize())})
					return
				}
				// which model transitions explain the observed successor?
				match := -1
				for _, cand := range g[cur].out {
					if edges[cand].Act.sameCall(want.Act) && reflect.DeepEqual(norm(edges[cand].To.implState), norm(got)) {
						if match == -1 || cand == ei {
							match = cand
						}
					}
				}
				if match == -1 {
					sum.Violate(fmt.Sprintf("hashdb.%s from model state %s: implementation state %s is no successor allowed by HashDB.tla (specification: %s)",
						actStr(want.Act), edges[ei].From.implState.key(), got.key(), want.To.implState.key()),
						tl.M{"path": pathActs(edges, path), "at": want.Act, "got": got, "want": want.To, "world": w.json(metaSize())})
					return
				}
				if msg := s.blackbox(got, edges[match].To.Live); msg != "" {
					sum.Violate("after hashdb."+actStr(want.Act)+": "+msg, tl.M{"path": pathActs(edges, path), "at": want.Act, "state": got, "live": edges[match].To.Live, "world": w.json(metaSize())})
					return
				}
				if !covered[match] {
					covered[match] = true
					sum.Distinct++
					sum.Count(edges[match].Act.Op)
				}
				if tokeys[match] != tokeys[ei] {
					diverged = true // the Go map order picked another storage-set order: retry
					break
				}
				cur = tokeys[ei]
			}
			s.db.Close()
			sum.Evaluations++
			ok = !diverged
		}
		if !ok {
			unreached++
		}
		if target%997 == 0 {
			sum.Sample(tl.M{"path": pathActs(edges, path), "to": edges[target].To.implState})
		}
	}
	sum.Extra["edges"] = len(edges)
	sum.Extra["states"] = len(g)
	sum.Extra["edges_not_forced_by_map_order"] = unreached
	sum.Extra["max_path"] = maxDepth
	sum.Rule = "every transition of the TLC state graph of the world is reached by replaying a shortest path from the initial state on a fresh hashdb.Database; after every step the white-box state must equal a specification successor, exactly the cached-or-persisted nodes must be readable, every node below a referenced root must be readable, Size() must equal the sum over the cache; distinct = transitions covered"
}

func actStr(a action) string {
	switch a.Op {
	case "Update":
		return fmt.Sprintf("Update(version %d)", a.V)
	case "Cap":
		return fmt.Sprintf("Cap(%d)", a.Limit)
	}
	return fmt.Sprintf("%s(root %d)", a.Op, a.R)
}
func pathActs(edges []edge, path []int) []action {
	out := make([]action, len(path))
	for i, ei := range path {
		out[i] = edges[ei].Act
	}
	return out
}

// ---------------------------------------------------------------- path (counter-example replay)

// runPath replays one behaviour printed by TLC (the action labels from the initial state and
// the final model state) and reports, in Extra["reproduced"], whether the real database ends
// in exactly that state, and which cached nodes hang below no referenced or fresh root.
func runPath(w *world, in string, sum *tl.Summary) {
	var cex struct {
		Acts  []action   `json:"acts"`
		Final modelState `json:"final"`
	}
	tl.ReadJSON(in, &cex)
	s := newSut(w, 0)
	for i, a := range cex.Acts {
		if err := s.apply(a); err != nil {
			tl.Fatal("step %d: %v", i, err)
		}
		sum.Steps++
	}
	last, defect := s.project()
	reproduced := defect == "" && reflect.DeepEqual(norm(last), norm(cex.Final.implState))
	if !reproduced {
		sum.Notes = append(sum.Notes, fmt.Sprintf("implementation %s, specification %s %s", last.key(), cex.Final.implState.key(), defect))
	}
	sum.Evaluations = 1
	sum.Extra["reproduced"] = reproduced
	if reproduced {
		fin := cex.Final
		pinned := map[int]bool{}
		for r, c := range fin.Live {
			if c > 0 {
				for _, n := range w.reach(r + 1) {
					pinned[n] = true
				}
			}
		}
		for _, r := range fin.Fresh {
			for _, n := range w.reach(r) {
				pinned[n] = true
			}
		}
		garbage := []int{}
		persisted := map[int]bool{}
		for _, d := range last.Disk {
			persisted[d] = true
		}
		allPersisted := true
		for _, e := range last.D {
			if !pinned[e.ID] {
				garbage = append(garbage, e.ID)
				if !persisted[e.ID] {
					allPersisted = false
				}
			}
		}
		sum.Extra["garbage"] = garbage
		sum.Extra["garbage_all_persisted"] = allPersisted
		sum.Sample(tl.M{"behaviour": cex.Acts, "cached_garbage": garbage, "final": last})
	}
	sum.Rule = "one TLC behaviour replayed step by step on hashdb.Database"
}

func main() {
	mode := flag.String("mode", "world", "world|edges|path|record")
	scenario := flag.Int("scenario", 0, "fixed scenario index, or -k for the k-th random scenario of the seed")
	nver := flag.Int("versions", 3, "versions of a random scenario")
	maxNodes := flag.Int("maxnodes", 9, "largest node DAG of a random scenario")
	worldOut := flag.String("world", "world.json", "world file (TLC constants)")
	in := flag.String("in", "", "edges / path json")
	trace := flag.String("trace", "trace.ndjson", "output trace (mode record)")
	out := flag.String("out", "summary.json", "summary output")
	n := flag.Int("n", 20, "number of histories (mode record)")
	steps := flag.Int("steps", 60, "steps per history (mode record)")
	cleans := flag.Int("cleans", 0, "clean cache size in bytes (0 = disabled)")
	fat := flag.Int("fat", 0, "extra bytes per storage value (mode record): large enough values make Commit span several batches")
	flag.Parse()
	seed := int64(tl.EnvInt("VERIF_SEED", 1))
	slotPadding = *fat
	sum := tl.NewSummary("c21", *mode, seed)
	switch *mode {
	case "world":
		w := getWorld(*scenario, seed, *nver, *maxNodes)
		j := w.json(metaSize())
		b, _ := json.Marshal(j)
		if err := os.WriteFile(*worldOut, b, 0o644); err != nil {
			tl.Fatal("write world: %v", err)
		}
		sum.Extra["nodes"] = j.N
		sum.Extra["versions"] = len(j.Versions)
		sum.Evaluations = 1
		sum.Sample(j)
		sum.Rule = "node DAG and update sets of a history of real account/storage tries"
	case "edges":
		runEdges(getWorld(*scenario, seed, *nver, *maxNodes), *in, *cleans, sum)
	case "path":
		runPath(getWorld(*scenario, seed, *nver, *maxNodes), *in, sum)
	case "record":
		runRecord(*trace, *worldOut, seed, *n, *steps, *cleans, sum)
	default:
		tl.Fatal("bad mode")
	}
	sum.Write(*out)
	if len(sum.Violations) > 0 {
		os.Exit(1)
	}
}
