// c25 binds spec/store/ChainFreezer.tla (property C25) to core/rawdb's chain freezer.
//
//	-mode run    build block trees with side branches (seeded, or the trees given with -trees), write them
//	             with the rawdb accessors into a key-value store opened with rawdb.Open(.., Ancient: dir),
//	             advance the finalized block and drive freeze cycles.  The freeze loop is parked at the
//	             gate hooks of chain_freezer.freeze (freeze-gate-1..5: after the copy, after SyncAncient,
//	             after each deletion batch); at every gate all chain accessors are projected for all blocks
//	             and crash images (key-value snapshot + freezer directory cut at fsync positions) are
//	             reopened with rawdb.Open in a child process, projected, driven through one more complete
//	             cycle and projected again.  Everything is recorded for ChainFreezerTrace.tla.
//	-mode child  reopen one crash image.
package main

import (
	"bytes"
	"context"
	"encoding/hex"
	"encoding/json"
	"flag"
	"fmt"
	"math/big"
	"math/rand"
	"os"
	"os/exec"
	"path/filepath"
	"sort"
	"strings"
	"sync"
	"time"

	"github.com/ethereum/go-ethereum/common"
	"github.com/ethereum/go-ethereum/core/rawdb"
	"github.com/ethereum/go-ethereum/core/types"
	"github.com/ethereum/go-ethereum/ethdb"
	"github.com/ethereum/go-ethereum/ethdb/memorydb"
	tl "verif/harness/tracelib"
)

// ---------------------------------------------------------------- block trees

type node struct {
	N int  `json:"n"`
	P int  `json:"p"` // 1-based index of the parent, 0 for genesis
	C bool `json:"c"`
}

type chain struct {
	tree   []node
	blocks []*types.Block // blocks[i] is tree[i]
	rcpts  []types.Receipts
	head   int // canonical head number
}

// randomTree: a canonical chain 0..h and side branches of depth 1..3 forking anywhere (also off side blocks).
func randomTree(r *rand.Rand) []node {
	h := 3 + r.Intn(5)
	t := []node{{0, 0, true}}
	prev := 1
	for n := 1; n <= h; n++ {
		t = append(t, node{n, prev, true})
		prev = len(t)
	}
	for f := r.Intn(4); f > 0 && len(t) < 14; f-- {
		p := 1 + r.Intn(len(t)) // fork off any existing block
		depth := 1 + r.Intn(3)
		for d := 0; d < depth && len(t) < 14; d++ {
			t = append(t, node{t[p-1].N + 1, p, false})
			p = len(t)
		}
	}
	return t
}

func build(t []node, salt int64) *chain {
	c := &chain{tree: t}
	nonce := uint64(salt) * 1000
	for i, nd := range t {
		hdr := &types.Header{Number: big.NewInt(int64(nd.N)), Difficulty: big.NewInt(1), GasLimit: 8_000_000,
			Time: uint64(1000 + 12*nd.N), Extra: []byte(fmt.Sprintf("blk-%d-%d", salt, i+1))}
		if nd.P > 0 {
			hdr.ParentHash = c.blocks[nd.P-1].Hash()
		}
		if nd.C && nd.N > c.head {
			c.head = nd.N
		}
		var txs []*types.Transaction
		var rs types.Receipts
		ntx := 1 + (i % 2)
		if nd.N == 0 {
			ntx = 0 // genesis carries no transactions (a lookup entry for number 0 is the empty value = absent)
		}
		for k := 0; k < ntx; k++ {
			nonce++
			to := common.BigToAddress(big.NewInt(int64(0x1000 + i)))
			tx := types.NewTx(&types.LegacyTx{Nonce: nonce, GasPrice: big.NewInt(1), Gas: 21000, To: &to, Value: big.NewInt(int64(k)), Data: []byte{byte(i), byte(k)}})
			txs = append(txs, tx)
			rs = append(rs, &types.Receipt{Type: types.LegacyTxType, Status: 1, CumulativeGasUsed: uint64(21000 * (k + 1)), Logs: []*types.Log{}})
		}
		blk := types.NewBlockWithHeader(hdr).WithBody(types.Body{Transactions: txs})
		c.blocks = append(c.blocks, blk)
		c.rcpts = append(c.rcpts, rs)
	}
	return c
}

func (c *chain) write(db ethdb.KeyValueStore) {
	var headBlk *types.Block
	for i, nd := range c.tree {
		b := c.blocks[i]
		rawdb.WriteHeader(db, b.Header())
		rawdb.WriteBody(db, b.Hash(), b.NumberU64(), b.Body())
		rawdb.WriteReceipts(db, b.Hash(), b.NumberU64(), c.rcpts[i])
		if nd.C {
			rawdb.WriteCanonicalHash(db, b.Hash(), b.NumberU64())
			rawdb.WriteTxLookupEntriesByBlock(db, b)
			if nd.N == c.head {
				headBlk = b
			}
		}
	}
	rawdb.WriteHeadHeaderHash(db, headBlk.Hash())
	rawdb.WriteHeadBlockHash(db, headBlk.Hash())
	rawdb.WriteHeadFastBlockHash(db, headBlk.Hash())
}

// ---------------------------------------------------------------- projection

type bproj struct {
	Canon bool `json:"canon"` // ReadCanonicalHash(number) is this block
	Hdr   bool `json:"hdr"`   // ReadHeader/HasHeader give this block's header
	Body  bool `json:"body"`  // ReadBody/HasBody give this block's transactions
	Rcpt  bool `json:"rcpt"`  // ReadRawReceipts/HasReceipts give this block's receipts
	Num   bool `json:"num"`   // ReadHeaderNumber(hash) is the number
	Tx    bool `json:"tx"`    // ReadCanonicalTransaction finds every transaction of the block at its place
	KvH   bool `json:"kvh"`   // header stored in the key-value store (ReadAllHashes)
	KvB   bool `json:"kvb"`   // body stored in the key-value store
	KvR   bool `json:"kvr"`   // receipts stored in the key-value store
}

type projection struct {
	F      int     `json:"f"` // Ancients()
	Blocks []bproj `json:"blocks"`
	Note   string  `json:"note"`
}

func project(db ethdb.Database, kv ethdb.KeyValueStore, c *chain) projection {
	var p projection
	f, err := db.Ancients()
	if err != nil {
		p.Note = "Ancients: " + err.Error()
	}
	p.F = int(f)
	nof := rawdb.NewDatabase(kv) // the key-value store alone (no freezer behind it)
	for i := range c.tree {
		b := c.blocks[i]
		h, n := b.Hash(), b.NumberU64()
		var bp bproj
		bp.Canon = rawdb.ReadCanonicalHash(db, n) == h
		hd := rawdb.ReadHeader(db, h, n)
		bp.Hdr = hd != nil && hd.Hash() == h && rawdb.HasHeader(db, h, n) && bytes.Equal(hd.Extra, b.Extra())
		body := rawdb.ReadBody(db, h, n)
		bp.Body = body != nil && len(body.Transactions) == len(b.Transactions()) && rawdb.HasBody(db, h, n)
		if bp.Body {
			for k, tx := range body.Transactions {
				if tx.Hash() != b.Transactions()[k].Hash() {
					bp.Body = false
				}
			}
		}
		rs := rawdb.ReadRawReceipts(db, h, n)
		bp.Rcpt = rs != nil && len(rs) == len(c.rcpts[i]) && rawdb.HasReceipts(db, h, n)
		if bp.Rcpt {
			for k, r := range rs {
				if r.CumulativeGasUsed != c.rcpts[i][k].CumulativeGasUsed || r.Status != 1 {
					bp.Rcpt = false
				}
			}
		}
		num, ok := rawdb.ReadHeaderNumber(db, h)
		bp.Num = ok && num == n
		bp.Tx = true
		for k, tx := range b.Transactions() {
			got, bh, bn, idx := rawdb.ReadCanonicalTransaction(db, tx.Hash())
			if got == nil || got.Hash() != tx.Hash() || bh != h || bn != n || idx != uint64(k) {
				bp.Tx = false
			}
		}
		for _, x := range rawdb.ReadAllHashes(kv, n) {
			if x == h {
				bp.KvH = true
			}
		}
		bp.KvB = len(rawdb.ReadBodyRLP(nof, h, n)) > 0
		bp.KvR = len(rawdb.ReadReceiptsRLP(nof, h, n)) > 0
		p.Blocks = append(p.Blocks, bp)
	}
	return p
}

// ---------------------------------------------------------------- gates

// gater parks the freezer goroutine at the gate hooks.  Nothing freezes unless a Freeze() call of the
// driver is outstanding (the loop's own timer-triggered cycles wait at gate 0).
type gater struct {
	mu       sync.Mutex
	inFreeze bool
	closing  bool // the database is being closed: nothing is parked any more
	cond     *sync.Cond
	gateCh   chan int      // gate reached (1..5)
	release  chan struct{} // driver lets it continue
	dur      map[string][]byte
	dir      string
}

func newGater() *gater {
	g := &gater{gateCh: make(chan int), release: make(chan struct{}), dur: map[string][]byte{}}
	g.cond = sync.NewCond(&g.mu)
	return g
}

func (g *gater) hook(ev string, kv ...any) {
	switch {
	case ev == "fsync":
		if b, err := os.ReadFile(kv[0].(string)); err == nil {
			g.mu.Lock()
			g.dur[kv[0].(string)] = b
			g.mu.Unlock()
		}
	case ev == "rename":
		if b, err := os.ReadFile(kv[1].(string)); err == nil {
			g.mu.Lock()
			g.dur[kv[1].(string)] = b
			delete(g.dur, kv[0].(string))
			g.mu.Unlock()
		}
	case ev == "freeze-gate-0":
		g.mu.Lock()
		for !g.inFreeze && !g.closing {
			g.cond.Wait()
		}
		g.mu.Unlock()
	case strings.HasPrefix(ev, "freeze-gate-"):
		g.mu.Lock()
		closing := g.closing
		g.mu.Unlock()
		if closing {
			return
		}
		k := int(ev[len(ev)-1] - '0')
		g.gateCh <- k
		<-g.release
	}
}

// shutdown lets a timer-started cycle that is parked at gate 0 go on, so that Close (which waits for the
// freezer goroutine) can finish.
func (g *gater) shutdown() {
	g.mu.Lock()
	g.closing = true
	g.cond.Broadcast()
	g.mu.Unlock()
}

func (g *gater) setFreeze(v bool) {
	g.mu.Lock()
	g.inFreeze = v
	g.cond.Broadcast()
	g.mu.Unlock()
}

// ---------------------------------------------------------------- crash images

type kvDump [][2]string

func dumpKV(kv ethdb.KeyValueStore) kvDump {
	var out kvDump
	it := kv.NewIterator(nil, nil)
	defer it.Release()
	for it.Next() {
		out = append(out, [2]string{hex.EncodeToString(it.Key()), hex.EncodeToString(it.Value())})
	}
	return out
}

func loadKV(d kvDump) ethdb.KeyValueStore {
	m := memorydb.New()
	for _, e := range d {
		k, _ := hex.DecodeString(e[0])
		v, _ := hex.DecodeString(e[1])
		m.Put(k, v)
	}
	return m
}

type childIn struct {
	KV    kvDump `json:"kv"`
	Anc   string `json:"anc"`
	Tree  []node `json:"tree"`
	Salt  int64  `json:"salt"`
	Final int    `json:"final"`
}

type childOut struct {
	OK    bool       `json:"ok"`
	Err   string     `json:"err"`
	Open  projection `json:"open"`  // right after rawdb.Open
	After projection `json:"after"` // after one more freeze cycle ran to completion
	Gates []int      `json:"gates"` // gates that cycle passed
}

type freezer interface{ Freeze() error }

// freezeCycle runs db.Freeze() and calls at(k) at every gate the cycle passes.
func freezeCycle(db ethdb.Database, g *gater, at func(k int)) []int {
	done := make(chan error, 1)
	g.setFreeze(true)
	go func() { done <- db.(freezer).Freeze() }()
	var gates []int
	deadline := time.After(30 * time.Minute)
	for {
		select {
		case k := <-g.gateCh:
			gates = append(gates, k)
			if at != nil {
				at(k)
			}
			g.release <- struct{}{}
		case err := <-done:
			g.setFreeze(false)
			if err != nil {
				tl.Fatal("Freeze: %v", err)
			}
			return gates
		case <-deadline:
			tl.Fatal("freeze cycle did not finish")
		}
	}
}

func runChild(in, out string) {
	var ci childIn
	tl.ReadJSON(in, &ci)
	res := childOut{}
	write := func() {
		b, _ := json.Marshal(res)
		os.WriteFile(out, b, 0o644)
	}
	write() // if rawdb.Open exits the process the parent sees ok=false
	c := build(ci.Tree, ci.Salt)
	g := newGater()
	rawdb.VerifHook = g.hook
	kv := loadKV(ci.KV)
	db, err := rawdb.Open(kv, rawdb.OpenOptions{Ancient: ci.Anc})
	if err != nil {
		res.Err = "open: " + err.Error()
		write()
		return
	}
	res.OK = true
	res.Open = project(db, kv, c)
	write()
	res.Gates = freezeCycle(db, g, nil)
	if res.Gates == nil {
		res.Gates = []int{}
	}
	res.After = project(db, kv, c)
	write()
	g.shutdown()
	db.Close()
}

// ---------------------------------------------------------------- the runner

type runner struct {
	self    string
	scratch string
	r       *rand.Rand
	tr      *tl.Trace
	sum     *tl.Summary
	images  int
	seq     int
}

func copyTree(src, dst string, pick func(path string, cur []byte) []byte) {
	filepath.Walk(src, func(p string, info os.FileInfo, err error) error {
		if err != nil {
			return nil
		}
		rel, _ := filepath.Rel(src, p)
		if info.IsDir() {
			os.MkdirAll(filepath.Join(dst, rel), 0o755)
			return nil
		}
		if info.Name() == "FLOCK" {
			return nil
		}
		b, err := os.ReadFile(p)
		if err != nil {
			return nil
		}
		os.WriteFile(filepath.Join(dst, rel), pick(p, b), 0o644)
		return nil
	})
}

// image materialises a crash image of the present moment and has a child reopen it.
func (rn *runner) image(kv ethdb.KeyValueStore, anc string, g *gater, c *chain, salt int64, final int, variant string) (childOut, string) {
	rn.seq++
	dir := filepath.Join(rn.scratch, fmt.Sprintf("img-%05d", rn.seq))
	os.MkdirAll(dir, 0o755)
	g.mu.Lock()
	dur := map[string][]byte{}
	for k, v := range g.dur {
		dur[k] = v
	}
	g.mu.Unlock()
	copyTree(anc, filepath.Join(dir, "anc"), func(path string, cur []byte) []byte {
		d, ok := dur[path]
		if !ok {
			d = []byte{}
		}
		switch variant {
		case "durable": // everything not fsynced is lost
			return d
		case "mixed": // per file: lost, kept, or cut in between (metadata: old or new)
			if bytes.Equal(d, cur) {
				return cur
			}
			switch rn.r.Intn(3) {
			case 0:
				return d
			case 1:
				return cur
			}
			if strings.HasSuffix(path, ".meta") || !bytes.HasPrefix(cur, d) {
				return d
			}
			return cur[:len(d)+rn.r.Intn(len(cur)-len(d)+1)]
		}
		return cur
	})
	in := filepath.Join(dir, "in.json")
	out := filepath.Join(dir, "out.json")
	b, _ := json.Marshal(childIn{KV: dumpKV(kv), Anc: filepath.Join(dir, "anc"), Tree: c.tree, Salt: salt, Final: final})
	os.WriteFile(in, b, 0o644)
	ctx, cancel := context.WithTimeout(context.Background(), 30*time.Minute)
	defer cancel()
	cmd := exec.CommandContext(ctx, rn.self, "-mode", "child", "-in", in, "-res", out)
	var stderr bytes.Buffer
	cmd.Stderr, cmd.Stdout = &stderr, &stderr
	runErr := cmd.Run()
	if ctx.Err() != nil {
		tl.Fatal("child process did not finish within 30 minutes")
	}
	var co childOut
	if rb, err := os.ReadFile(out); err == nil {
		json.Unmarshal(rb, &co)
	}
	if runErr != nil {
		tail := stderr.String()
		if len(tail) > 500 {
			tail = tail[len(tail)-500:]
		}
		co.OK = false
		co.Err = "child terminated: " + tail
	}
	os.RemoveAll(dir)
	return co, variant
}

func emptyProj(n int) projection {
	return projection{Blocks: make([]bproj, n)}
}

func (rn *runner) history(h int, tree []node) {
	salt := int64(h + 1)
	c := build(tree, salt)
	anc := filepath.Join(rn.scratch, fmt.Sprintf("anc-%d", h))
	g := newGater()
	g.dir = anc
	rawdb.VerifHook = g.hook
	kv := memorydb.New()
	c.write(kv)
	db, err := rawdb.Open(kv, rawdb.OpenOptions{Ancient: anc})
	if err != nil {
		tl.Fatal("open: %v", err)
	}
	rn.tr.Emit(tl.M{"op": "init", "tree": tree})
	rn.tr.Emit(tl.M{"op": "check", "proj": project(db, kv, c)})
	// finality schedule: strictly increasing numbers up to the head
	var finals []int
	for f := 0; f < c.head; {
		f += 1 + rn.r.Intn(3)
		if f > c.head {
			f = c.head
		}
		finals = append(finals, f)
	}
	shape := fmt.Sprint(len(tree))
	for _, fin := range finals {
		rawdb.WriteFinalizedBlockHash(kv, c.canonAt(fin).Hash())
		rn.tr.Emit(tl.M{"op": "final", "n": fin})
		gates := freezeCycle(db, g, func(k int) {
			rn.tr.Emit(tl.M{"op": "gate", "k": k, "proj": project(db, kv, c)})
			rn.sum.Count(fmt.Sprintf("gate-%d", k))
			variants := []string{"current"}
			if k == 1 {
				variants = []string{"durable", "current"}
				for i := 0; i < rn.images; i++ {
					variants = append(variants, "mixed")
				}
			}
			for _, v := range variants {
				co, _ := rn.image(kv, anc, g, c, salt, fin, v)
				if !co.OK {
					co.Open, co.After = emptyProj(len(tree)), emptyProj(len(tree))
				}
				if co.Gates == nil {
					co.Gates = []int{}
				}
				rn.tr.Emit(tl.M{"op": "crashopen", "k": k, "variant": v, "ok": co.OK, "err": co.Err, "open": co.Open, "after": co.After, "gates": co.Gates})
				rn.sum.Count("crashopen")
				rn.sum.Evaluations++
				if rn.sum.Evaluations%37 == 1 {
					rn.sum.Sample(tl.M{"tree": tree, "final": fin, "gate": k, "variant": v, "ancients_after_reopen": co.Open.F})
				}
			}
		})
		rn.tr.Emit(tl.M{"op": "freezeret", "proj": project(db, kv, c), "gates": append([]int{}, gates...)})
		shape += fmt.Sprintf("-f%d:%d", fin, len(gates))
	}
	g.shutdown()
	db.Close()
	rn.sum.Traces++
	rn.sum.Extra["shape-"+shape] = 1
}

func (c *chain) canonAt(n int) *types.Block {
	for i, nd := range c.tree {
		if nd.C && nd.N == n {
			return c.blocks[i]
		}
	}
	tl.Fatal("no canonical block %d", n)
	return nil
}

func main() {
	mode := flag.String("mode", "run", "run|child")
	in := flag.String("in", "", "child input / trees file")
	resPath := flag.String("res", "", "child: result file")
	trace := flag.String("trace", "trace.ndjson", "output trace")
	dir := flag.String("dir", "", "scratch directory")
	n := flag.Int("n", 4, "random histories")
	images := flag.Int("images", 2, "mixed crash images per unsynced gate")
	trees := flag.String("trees", "", "JSON file with a list of trees ([[{n,p,c}..]..]) to run instead of / before random ones")
	out := flag.String("out", "summary.json", "summary output")
	flag.Parse()
	if *mode == "child" {
		runChild(*in, *resPath)
		return
	}
	seed := int64(tl.EnvInt("VERIF_SEED", 1))
	sum := tl.NewSummary("c25", *mode, seed)
	if *dir == "" {
		d, err := os.MkdirTemp("", "c25-")
		if err != nil {
			tl.Fatal("tempdir: %v", err)
		}
		defer os.RemoveAll(d)
		*dir = d
	}
	self, err := os.Executable()
	if err != nil {
		tl.Fatal("executable: %v", err)
	}
	rn := &runner{self: self, scratch: *dir, r: tl.Rand(seed), sum: sum, images: *images}
	rn.tr = tl.NewTrace(*trace)
	h := 0
	if *trees != "" {
		var ts [][]node
		tl.ReadJSON(*trees, &ts)
		for _, t := range ts {
			rn.history(h, t)
			h++
		}
	}
	for i := 0; i < *n; i++ {
		rn.history(h, randomTree(rn.r))
		h++
	}
	rn.tr.Close()
	sum.Steps = rn.tr.N
	shapes := []string{}
	for k := range sum.Extra {
		if strings.HasPrefix(k, "shape-") {
			shapes = append(shapes, k)
		}
	}
	sort.Strings(shapes)
	sum.Distinct = len(shapes)
	for _, k := range shapes {
		delete(sum.Extra, k)
	}
	sum.Rule = "block trees with side branches written through rawdb, finality advanced stepwise, every freeze cycle parked at gates 1..5; evaluations = crash images (key-value snapshot + freezer directory) reopened with rawdb.Open; distinct = distinct (tree size, finality schedule, gates passed) shapes"
	sum.Write(*out)
}
