// c27 binds spec/evm/EVMMeta.tla to the real interpreter (property C27: EVM execution is
// total and within resource bounds).
//
//	-mode cases  -in cases.json    R: every (rule set, opcode byte, stack height) boundary case
//	                               enumerated by TLC from the specification's opcode table is
//	                               executed; the outcome class must be the one the table implies
//	-mode record -trace t.ndjson   V: seeded random and structured bytecode under every rule set
//	                               through runtime.Execute/Call/Create and evm.Call with a tracer;
//	                               every callback becomes an event validated by EVMMetaTrace.tla
package main

import (
	"flag"
	"fmt"
	"math/big"
	"math/rand"
	"os"
	"sort"

	"github.com/ethereum/go-ethereum/common"
	"github.com/ethereum/go-ethereum/core"
	"github.com/ethereum/go-ethereum/core/state"
	"github.com/ethereum/go-ethereum/core/tracing"
	"github.com/ethereum/go-ethereum/core/types"
	"github.com/ethereum/go-ethereum/core/vm"
	"github.com/ethereum/go-ethereum/core/vm/runtime"
	"github.com/ethereum/go-ethereum/crypto"
	"github.com/ethereum/go-ethereum/params"
	"github.com/holiman/uint256"

	ek "verif/harness/evmkit"
	tl "verif/harness/tracelib"
)

func newState(p *ek.Program) *state.StateDB {
	db, err := state.New(types.EmptyRootHash, state.NewDatabaseForTesting())
	if err != nil {
		tl.Fatal("state.New: %v", err)
	}
	db.SetBalance(ek.Origin, uint256.NewInt(1_000_000), tracing.BalanceChangeUnspecified)
	for a, c := range p.Helpers {
		db.CreateAccount(a)
		db.SetCode(a, c, tracing.CodeChangeUnspecified)
		db.SetBalance(a, uint256.NewInt(1000), tracing.BalanceChangeUnspecified)
	}
	return db
}

func baseCfg(f ek.Fork, gas uint64, db *state.StateDB, hooks *tracing.Hooks, value uint64) *runtime.Config {
	return &runtime.Config{
		ChainConfig: f.Config,
		Origin:      ek.Origin,
		Coinbase:    common.HexToAddress("0xc0ffee"),
		BlockNumber: big.NewInt(1),
		Time:        1,
		GasLimit:    gas,
		Value:       new(big.Int).SetUint64(value),
		Difficulty:  big.NewInt(1),
		State:       db,
		BlobHashes:  []common.Hash{{1}},
		EVMConfig:   vm.Config{Tracer: hooks},
	}
}

type outcome struct {
	left     uint64
	err      error
	panicked bool
	pval     any
}

// entry points
const (
	viaExecute = iota // runtime.Execute
	viaCall           // runtime.Call on a prepared state
	viaCreate         // runtime.Create
	viaEVM            // vm.NewEVM + evm.Call / evm.Create (pre-merge rule sets keep their exact rules)
	numVia
)

// run executes the program once; a panic is caught and reported (it is a violation of C27).
func run(f ek.Fork, p *ek.Program, gas uint64, via int, hooks *tracing.Hooks) (out outcome) {
	defer func() {
		if x := recover(); x != nil {
			out.panicked, out.pval = true, x
		}
	}()
	db := newState(p)
	cfg := baseCfg(f, gas, db, hooks, p.Value)
	switch {
	case p.Create && via != viaEVM:
		_, _, left, err := runtime.Create(p.Code, cfg)
		return outcome{left: left, err: err}
	case via == viaExecute:
		// runtime.Execute returns no gas figure: take it from the top-level OnExit via the recorder
		_, _, err := runtime.Execute(p.Code, p.Input, cfg)
		return outcome{left: ^uint64(0), err: err}
	case via == viaCall:
		db.CreateAccount(ek.Main)
		db.SetCode(ek.Main, p.Code, tracing.CodeChangeUnspecified)
		_, left, err := runtime.Call(ek.Main, p.Input, cfg)
		return outcome{left: left, err: err}
	default:
		rules := f.Config.Rules(cfg.BlockNumber, f.Merge, cfg.Time)
		var random *common.Hash
		if f.Merge {
			random = new(common.Hash)
		}
		bctx := vm.BlockContext{
			CanTransfer: core.CanTransfer, Transfer: core.Transfer,
			GetHash:  func(n uint64) common.Hash { return crypto.Keccak256Hash([]byte{byte(n)}) },
			Coinbase: cfg.Coinbase, BlockNumber: cfg.BlockNumber, Time: cfg.Time, Difficulty: cfg.Difficulty,
			GasLimit: gas, BaseFee: big.NewInt(7), BlobBaseFee: big.NewInt(1), Random: random,
			CostPerStateByte: params.CostPerStateByte,
		}
		evm := vm.NewEVM(bctx, db, f.Config, vm.Config{Tracer: hooks})
		evm.SetTxContext(vm.TxContext{Origin: ek.Origin, GasPrice: uint256.NewInt(1), BlobHashes: cfg.BlobHashes})
		db.Prepare(rules, ek.Origin, cfg.Coinbase, &ek.Main, vm.ActivePrecompiles(rules), nil)
		budget := vm.NewGasBudget(gas, 0)
		if p.Create {
			_, _, res, err := evm.Create(ek.Origin, p.Code, budget, uint256.NewInt(p.Value))
			return outcome{left: res.ExecutionGas, err: err}
		}
		db.CreateAccount(ek.Main)
		db.SetCode(ek.Main, p.Code, tracing.CodeChangeUnspecified)
		_, res, err := evm.Call(ek.Origin, ek.Main, p.Input, budget, uint256.NewInt(p.Value))
		return outcome{left: res.ExecutionGas, err: err}
	}
}

// ---------------------------------------------------------------- R: table boundary cases

type tcase struct {
	Fork   int    `json:"fork"`
	Op     int    `json:"o"`
	Sl     int    `json:"sl"`
	Expect string `json:"expect"` // "invalid" | "underflow" | "overflow" | "run"
}

// caseTracer remembers what happened to the instruction at the target pc.
type caseTracer struct {
	pc    uint64
	seen  bool
	sl    int
	class string
}

func (c *caseTracer) hooks() *tracing.Hooks {
	return &tracing.Hooks{
		OnOpcode: func(pc uint64, op byte, gas, cost uint64, scope tracing.OpContext, rData []byte, depth int, err error) {
			if depth == 1 && pc == c.pc && !c.seen {
				c.seen, c.sl, c.class = true, len(scope.StackData()), ek.ErrClass(err)
			}
		},
		OnFault: func(pc uint64, op byte, gas, cost uint64, scope tracing.OpContext, depth int, err error) {
			if depth == 1 && pc == c.pc && c.seen && c.class == "" {
				c.class = ek.ErrClass(err)
			}
		},
	}
}

func runCases(in string, sum *tl.Summary) {
	var cases []tcase
	tl.ReadJSON(in, &cases)
	forks := ek.Forks()
	for i, c := range cases {
		a := ek.NewAsm()
		for k := 0; k < c.Sl; k++ {
			a.Push(1)
		}
		pc := uint64(a.Len())
		a.Raw(byte(c.Op))
		// EIP-8024 instructions: the immediate selecting the smallest depth (DUPN 17, SWAPN 17, EXCHANGE 1<->2),
		// for which the table's arity is exact
		switch vm.OpCode(c.Op) {
		case vm.DUPN, vm.SWAPN:
			a.Raw(0x80)
		case vm.EXCHANGE:
			a.Raw(0x8e)
		}
		ct := &caseTracer{pc: pc}
		p := &ek.Program{Code: a.Bytes()}
		out := run(forks[c.Fork], p, 10_000_000, viaExecute, ct.hooks())
		sum.Evaluations++
		sum.Steps++
		sum.Count(c.Expect)
		got := ct.class
		if out.panicked {
			got = fmt.Sprint("panic: ", out.pval)
		} else if !ct.seen {
			got = "not-reached"
		} else if ct.sl != c.Sl {
			got = fmt.Sprintf("stack-height-%d", ct.sl)
		}
		ok := false
		switch c.Expect {
		case "invalid", "underflow", "overflow":
			ok = got == c.Expect
		case "run":
			ok = ct.seen && ct.sl == c.Sl && !out.panicked && got != "invalid" && got != "underflow" && got != "overflow"
		}
		if !ok {
			sum.Violate(fmt.Sprintf("rule set %s opcode 0x%02x at stack height %d: implementation outcome %q, specification table implies %q",
				forks[c.Fork].Name, c.Op, c.Sl, got, c.Expect), tl.M{"case": c, "got": got})
		}
		if i%4000 == 7 {
			sum.Sample(tl.M{"case": c, "got": got})
		}
	}
	sum.Distinct = len(cases)
	sum.Rule = "every (rule set, opcode byte, stack height at the arity boundaries) case enumerated by TLC from EVMMeta!OpInfo, executed by runtime.Execute; distinct = number of cases"
}

// ---------------------------------------------------------------- V: recorded executions

type job struct {
	p    *ek.Program
	gas  uint64
	via  int
	fork int
}

func gasFor(r *rand.Rand) uint64 {
	switch r.Intn(10) {
	case 0:
		return uint64(r.Intn(60))
	case 1:
		return uint64(r.Intn(3000))
	case 2, 3:
		return uint64(20000 + r.Intn(100000))
	case 4:
		return 16_777_216 + uint64(r.Intn(3)) - 1 // around the per-transaction cap of the newest rule sets
	case 5:
		return uint64(r.Intn(40_000_000))
	default:
		return uint64(100000 + r.Intn(2_000_000))
	}
}

func runRecord(path string, seed int64, n, maxEvents, deep int, sum *tl.Summary) {
	r := tl.Rand(seed)
	tr := tl.NewTrace(path)
	defer tr.Close()
	rec := ek.NewMetaRecorder(tr, maxEvents)
	hooks := rec.Hooks()
	forks := ek.Forks()
	shapes := map[string]bool{}
	maxDepth, maxStack, truncated, panics := 0, 0, 0, 0

	exec := func(j job, label string) (used uint64) {
		f := forks[j.fork]
		mode := "call"
		if j.p.Create {
			mode = "create"
		}
		rec.Reset(f.Idx, j.gas, mode)
		out := run(f, j.p, j.gas, j.via, hooks)
		left := out.left
		if left == ^uint64(0) { // runtime.Execute: no gas returned by the API
			left = rec.TopLeft
		}
		rec.End(left, out.err, out.panicked)
		if out.panicked {
			// C27: a runtime panic is a violation in itself (the trace is rejected as well: event end{panic})
			panics++
			sum.Notes = append(sum.Notes, fmt.Sprintf("panic in %s/%s gas=%d: %v", f.Name, label, j.gas, out.pval))
			sum.Violate(fmt.Sprintf("EVM execution panicked under rule set %s (program kind %s, gas %d): %v", f.Name, label, j.gas, out.pval),
				tl.M{"fork": f.Name, "program": label, "code": common.Bytes2Hex(j.p.Code), "input": common.Bytes2Hex(j.p.Input),
					"gas": j.gas, "via": j.via, "create": j.p.Create, "value": j.p.Value, "panic": fmt.Sprint(out.pval)})
		}
		if rec.Truncated() {
			truncated++
		}
		if rec.MaxDepth > maxDepth {
			maxDepth = rec.MaxDepth
		}
		if rec.MaxStack > maxStack {
			maxStack = rec.MaxStack
		}
		sum.Traces++
		sum.Evaluations++
		sum.Count(label)
		sum.Count("via" + fmt.Sprint(j.via))
		key := fmt.Sprintf("%s/%d/%s/%d/%d", label, j.fork, ek.ErrClass(out.err), rec.Steps, rec.MaxDepth)
		if !shapes[key] && rec.Steps > 1 {
			shapes[key] = true
			sum.Distinct++
		}
		if sum.Traces%97 == 1 {
			sum.Sample(tl.M{"fork": f.Name, "program": label, "code": common.Bytes2Hex(j.p.Code), "gas": j.gas, "via": j.via,
				"err": ek.ErrClass(out.err), "steps": rec.Steps, "depth": rec.MaxDepth})
		}
		if j.gas >= left {
			return j.gas - left
		}
		return 0
	}

	for i := 0; i < n; i++ {
		p := ek.GenProgram(r)
		gas := gasFor(r)
		via := r.Intn(numVia)
		// every program under a (seeded) choice of rule sets; each rule set is hit evenly over the run
		nf := 2 + r.Intn(2)
		for k := 0; k < nf; k++ {
			fi := (i*3 + k*7 + int(seed)) % len(forks)
			used := exec(job{p, gas, via, fi}, p.Name)
			// near-exhaustion limits: exactly what the run needed, one less, one more
			if k == 0 && used > 0 && used < gas && r.Intn(3) == 0 {
				for _, g := range []uint64{used - 1, used, used + 1} {
					exec(job{p, g, via, fi}, p.Name+"-edge")
				}
			}
		}
	}
	// structured long runs: stack limit by loop, memory growth loops, deep recursion
	type long struct {
		name string
		p    *ek.Program
		gas  uint64
		fork int
	}
	var longs []long
	pick := func(k int) int { return (int(seed)*5 + k*3) % len(forks) }
	longs = append(longs,
		long{"flood-1025", &ek.Program{Code: ek.PushFlood(r, 1025)}, 100000, pick(0)},
		long{"growloop", &ek.Program{Code: ek.GrowLoop(32)}, 7000, pick(1)},
		long{"growloop-wide", &ek.Program{Code: ek.GrowLoop(3000)}, 200000, pick(2)},
		// the call depth limit, reached before EIP-150 (Homestead: DELEGATECALL exists); the deepest
		// frame tries CALL, CALLCODE, DELEGATECALL and CREATE there
		long{"depth-limit", &ek.Program{Code: ek.DepthProbe()}, 400_000_000, ek.Homestead},
		long{"recurse-create", &ek.Program{Code: ek.CreateRecursion(), Create: true}, 5_000_000, pick(5)},
	)
	for k := 0; k < deep; k++ {
		ops := []vm.OpCode{vm.CALL, vm.CALLCODE, vm.DELEGATECALL, vm.STATICCALL}
		op := ops[(int(seed)+k)%4]
		fi := pick(3 + k)
		if op == vm.DELEGATECALL && fi < ek.Homestead {
			fi = ek.Homestead
		}
		if op == vm.STATICCALL && fi < ek.Byzantium {
			fi = ek.Byzantium
		}
		// with the 63/64 rule the recursion ends by gas exhaustion a few hundred frames deep
		longs = append(longs, long{"recurse-" + op.String(), &ek.Program{Code: ek.SelfRecursion(op)}, 600_000, fi})
	}
	// boundary matrix of the memory-touching instructions, under a seeded rule set from Cancun on (MCOPY exists)
	for i, code := range ek.MemoryMatrix() {
		fi := ek.Cancun + (int(seed)+i)%(len(forks)-ek.Cancun)
		longs = append(longs, long{"memory-matrix", &ek.Program{Code: code, Helpers: map[common.Address][]byte{ek.HelperA: {1, 2, 3, 4, 5, 6, 7, 8}}}, 300000, fi})
	}
	saved := rec.MaxEvents
	rec.MaxEvents = 0 // the long runs are logged completely
	for _, l := range longs {
		exec(job{l.p, l.gas, viaCall, l.fork}, l.name)
	}
	rec.MaxEvents = saved

	sum.Steps = tr.N
	sum.Extra["max_depth"] = maxDepth
	sum.Extra["max_stack"] = maxStack
	sum.Extra["truncated_executions"] = truncated
	sum.Extra["panics"] = panics
	sum.Extra["distinct_opcodes_executed"] = len(rec.Ops)
	errs := []string{}
	for k, v := range rec.Errs {
		errs = append(errs, fmt.Sprintf("%s:%d", k, v))
	}
	sort.Strings(errs)
	sum.Extra["frame_error_classes"] = errs
	sum.Rule = "seeded random/structured programs x rule sets x gas limits through runtime.Execute/Call/Create and evm.Call/Create; distinct = distinct (program kind, rule set, result class, steps, depth) with more than one step"
}

func main() {
	mode := flag.String("mode", "record", "cases|record")
	in := flag.String("in", "", "cases json (mode cases)")
	trace := flag.String("trace", "trace.ndjson", "output trace (mode record)")
	out := flag.String("out", "summary.json", "summary output")
	n := flag.Int("n", 60, "number of generated programs")
	maxEvents := flag.Int("maxevents", 400, "logged events per execution (0 = all)")
	deep := flag.Int("deep", 1, "number of deep-recursion rounds")
	flag.Parse()
	seed := int64(tl.EnvInt("VERIF_SEED", 1))
	sum := tl.NewSummary("c27", *mode, seed)
	switch *mode {
	case "cases":
		runCases(*in, sum)
	case "record":
		runRecord(*trace, seed, *n, *maxEvents, *deep, sum)
	default:
		tl.Fatal("bad mode")
	}
	sum.Write(*out)
	if len(sum.Violations) > 0 {
		os.Exit(1)
	}
}
