// c50 drives event.Feed and event.FeedOf[int] for property C50 (event feeds deliver every
// value exactly once to active subscribers, under all schedules).
//
//	-mode record -trace t.ndjson   goroutine stress runs; every goroutine logs CALL and RETURN of
//	                               each operation with a global atomic sequence number; the merged
//	                               history is validated by spec/net/FeedTrace.tla (V)
//	-mode replay -in edges.json    schedules chosen by TLC (MCFeedSched) are forced on the real feed
//	                               inside a testing/synctest bubble: after every environment step
//	                               the driver waits until all goroutines are durably blocked and
//	                               compares the observable state with the model's (R)
//
// Build with GOEXPERIMENT=synctest (go1.24).
package main

import (
	"flag"
	"fmt"
	"hash/fnv"
	"math/rand"
	"os"
	"runtime"
	"sort"
	"strconv"
	"strings"
	"sync"
	"sync/atomic"
	"time"

	"github.com/ethereum/go-ethereum/event"
	tl "verif/harness/tracelib"
)

// feedI abstracts over the two implementations under test.
type feedI interface {
	Subscribe(ch chan int) event.Subscription
	Send(v int) int
	lens() (inbox, cases int) // reflection on unexported fields, read-only (replay mode)
}

func newFeed(kind string) feedI {
	if kind == "feedof" {
		return &feedOf{}
	}
	return &feedAny{}
}

type event_ struct {
	Seq int64  `json:"-"`
	Op  string `json:"op"`
	P   int    `json:"p"`
	V   int    `json:"v"`
	N   int    `json:"n"`
}

var seq atomic.Int64

// plog is a per-goroutine event log; the sequence number is taken before a call starts
// ("...Begin") and after it returned ("...End"), so every internal step of the operation
// lies between its two events in the global order.
type plog struct{ evs []event_ }

func (l *plog) log(op string, p, v, n int) {
	l.evs = append(l.evs, event_{Seq: seq.Add(1), Op: op, P: p, V: v, N: n})
}

func pause(r *rand.Rand, heavy bool) {
	switch r.Intn(8) {
	case 0, 1:
	case 2, 3:
		runtime.Gosched()
	case 4:
		for i := 0; i < r.Intn(200); i++ {
			runtime.Gosched()
		}
	case 5:
		x := 0
		for i := 0; i < r.Intn(3000); i++ {
			x += i
		}
		_ = x
	case 6:
		time.Sleep(time.Duration(r.Intn(30)) * time.Microsecond)
	case 7:
		if heavy {
			time.Sleep(time.Duration(r.Intn(300)) * time.Microsecond)
		}
	}
}

type runStats struct {
	ops, races int
	sig        uint64
}

// oneRun executes one concurrent scenario and returns the merged history.
func oneRun(kind string, r *rand.Rand, ns, nc int, caps []int, maxSends, maxCycles int) ([]event_, runStats) {
	f := newFeed(kind)
	chs := make([]chan int, nc+1)
	for c := 1; c <= nc; c++ {
		chs[c] = make(chan int, caps[c-1])
	}
	quit := make(chan struct{})
	var logs []*plog
	newLog := func() *plog { l := &plog{}; logs = append(logs, l); return l }
	var work, recv sync.WaitGroup
	start := make(chan struct{})

	for s := 1; s <= ns; s++ {
		if r.Intn(5) == 0 && s > 1 {
			continue
		}
		s, l, rr, m := s, newLog(), rand.New(rand.NewSource(r.Int63())), 1+r.Intn(maxSends)
		work.Add(1)
		go func() {
			defer work.Done()
			<-start
			for k := 1; k <= m; k++ {
				pause(rr, true)
				v := s*1000 + k
				l.log("SendBegin", s, v, 0)
				n := f.Send(v)
				l.log("SendEnd", s, v, n)
			}
		}()
	}
	for c := 1; c <= nc; c++ {
		if r.Intn(6) == 0 && c > 1 {
			continue
		}
		c, l, rr, cycles, leave := c, newLog(), rand.New(rand.NewSource(r.Int63())), 1+r.Intn(maxCycles), r.Intn(3) == 0
		l2, rr2seed := newLog(), r.Int63()
		work.Add(1)
		go func() {
			defer work.Done()
			<-start
			for j := 1; j <= cycles; j++ {
				pause(rr, false)
				l.log("SubBegin", c, 0, 0)
				sub := f.Subscribe(chs[c])
				l.log("SubEnd", c, 0, 0)
				if j == cycles && leave {
					return
				}
				pause(rr, true)
				pause(rr, true)
				// sometimes a second owner of the subscription unsubscribes concurrently
				var twin sync.WaitGroup
				if rr.Intn(2) == 0 {
					twin.Add(1)
					go func() {
						defer twin.Done()
						if rr2seed%2 == 0 {
							runtime.Gosched()
						}
						l2.log("UnsubBegin", c, 0, 2)
						sub.Unsubscribe()
						l2.log("UnsubEnd", c, 0, 2)
					}()
				}
				l.log("UnsubBegin", c, 0, 1)
				sub.Unsubscribe()
				l.log("UnsubEnd", c, 0, 1)
				twin.Wait()
			}
		}()
		lr, rr2, slow := newLog(), rand.New(rand.NewSource(r.Int63())), r.Intn(3) == 0
		recv.Add(1)
		go func() {
			defer recv.Done()
			<-start
			for {
				pause(rr2, slow)
				lr.log("RecvBegin", c, 0, 0)
				select {
				case v := <-chs[c]:
					lr.log("RecvEnd", c, v, 0)
				case <-quit:
					lr.log("RecvAbort", c, 0, 0)
					return
				}
			}
		}()
	}
	close(start)
	work.Wait()
	close(quit)
	recv.Wait()
	// drain what is still buffered (delivered but not yet received)
	final := newLog()
	for c := 1; c <= nc; c++ {
		for done := false; !done; {
			final.log("RecvBegin", c, 0, 0)
			select {
			case v := <-chs[c]:
				final.log("RecvEnd", c, v, 0)
			default:
				final.log("RecvAbort", c, 0, 0)
				done = true
			}
		}
	}
	final.log("reset", 0, 0, 0)
	var all []event_
	for _, l := range logs {
		all = append(all, l.evs...)
	}
	sort.Slice(all, func(i, j int) bool { return all[i].Seq < all[j].Seq })
	return all, stats(all)
}

// stats counts operations and Unsubscribe calls overlapping a Send (the racing schedules the
// property is about) and computes a signature of the history shape.
func stats(all []event_) runStats {
	var st runStats
	h := fnv.New64a()
	sending := map[int]bool{}
	unsubbing := map[int]bool{}
	for _, e := range all {
		fmt.Fprintf(h, "%s%d;", e.Op, e.P)
		switch e.Op {
		case "SendBegin":
			sending[e.P] = true
			st.races += len(unsubbing)
			st.ops++
		case "SendEnd":
			delete(sending, e.P)
		case "UnsubBegin":
			unsubbing[e.P*10+e.N] = true
			st.races += len(sending)
			st.ops++
		case "UnsubEnd":
			delete(unsubbing, e.P*10+e.N)
		case "SubBegin", "RecvEnd":
			st.ops++
		}
	}
	st.sig = h.Sum64()
	return st
}

func parseCaps(s string) []int {
	var out []int
	for _, x := range strings.Split(s, ",") {
		n, err := strconv.Atoi(strings.TrimSpace(x))
		if err != nil {
			tl.Fatal("bad -caps: %v", err)
		}
		out = append(out, n)
	}
	return out
}

func runRecord(path, kind string, seed int64, runs, ns int, caps []int, maxSends, maxCycles int, sum *tl.Summary) {
	r := tl.Rand(seed)
	tr := tl.NewTrace(path)
	defer tr.Close()
	nc := len(caps)
	tr.Emit(tl.M{"op": "config", "ns": ns, "nc": nc, "caps": caps, "kind": kind})
	sigs := map[uint64]bool{}
	races := 0
	for i := 0; i < runs; i++ {
		runtime.GOMAXPROCS(1 + r.Intn(8))
		evs, st := oneRun(kind, r, ns, nc, caps, maxSends, maxCycles)
		for _, e := range evs {
			tr.Emit(e)
			sum.Count(e.Op)
		}
		sum.Steps += len(evs)
		sum.Evaluations += st.ops
		sum.Traces++
		races += st.races
		if st.races > 0 && !sigs[st.sig] {
			sigs[st.sig] = true
			sum.Distinct++
			if len(sigs)%50 == 1 {
				sum.Sample(tl.M{"kind": kind, "run": i, "events": len(evs), "racing_unsub_send_pairs": st.races, "first_events": evs[:min(12, len(evs))]})
			}
		}
	}
	// XF: two owners unsubscribe the same subscription while its removal is held up (see forced.go)
	forced := 0
	for i := 0; i < 6 && caps[0] == 0; i++ {
		evs, returnedEarly := forcedDoubleUnsub(kind)
		if evs == nil {
			continue
		}
		for _, e := range evs {
			tr.Emit(e)
			sum.Count(e.Op)
		}
		sum.Steps += len(evs)
		sum.Traces++
		forced++
		if returnedEarly {
			sum.Count("second-unsubscribe-returned-before-removal")
		}
	}
	sum.Extra["forced_double_unsubscribe_runs"] = forced
	sum.Extra["racing_unsub_send_pairs"] = races
	sum.Rule = "evaluations = Subscribe/Unsubscribe/Send calls and channel receives executed on the real feed; distinct = distinct logged histories (sequence of op,process) that contain at least one Unsubscribe overlapping a Send"
}

func main() {
	mode := flag.String("mode", "record", "record|replay")
	trace := flag.String("trace", "", "ndjson output (record)")
	in := flag.String("in", "", "TLC edge list (replay)")
	kind := flag.String("kind", "feed", "feed|feedof")
	runs := flag.Int("runs", 100, "number of concurrent runs (record)")
	ns := flag.Int("ns", 3, "senders")
	capsS := flag.String("caps", "0,1,2,0", "channel capacities")
	maxSends := flag.Int("sends", 3, "max sends per sender per run")
	maxCycles := flag.Int("cycles", 2, "max subscribe/unsubscribe cycles per channel per run")
	out := flag.String("out", "", "summary output")
	flag.Parse()
	seed := int64(tl.EnvInt("VERIF_SEED", 1))
	sum := tl.NewSummary("c50", *mode, seed)
	switch *mode {
	case "record":
		runRecord(*trace, *kind, seed*7919+int64(len(*kind)), *runs, *ns, parseCaps(*capsS), *maxSends, *maxCycles, sum)
	case "replay":
		runReplay(*in, *kind, sum)
	default:
		tl.Fatal("unknown mode %s", *mode)
	}
	if *out != "" {
		sum.Write(*out)
	}
	if len(sum.Violations) > 0 {
		os.Exit(1)
	}
}
