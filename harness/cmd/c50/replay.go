package main

import (
	"fmt"
	"reflect"
	"sort"
	"sync"
	"testing/synctest"

	"github.com/ethereum/go-ethereum/event"
	tl "verif/harness/tracelib"
)

// ---- the TLC schedule graph (spec/net/MCFeedSched.tla), preprocessed by checks/C50.py ----

type senderObs struct {
	Busy  bool `json:"busy"`
	Count int  `json:"count"`
	N     int  `json:"n"`
}
type chanObs struct {
	Sub     string `json:"sub"`
	Waiting bool   `json:"waiting"`
	Got     []int  `json:"got"`
}
type obsT struct {
	Inbox  int         `json:"inbox"`
	Cases  int         `json:"cases"`
	Sender []senderObs `json:"sender"`
	Chan   []chanObs   `json:"chan"`
}
type stateT struct {
	Obs   obsT `json:"obs"`
	Quiet bool `json:"quiet"`
}
type graphT struct {
	NS     int      `json:"ns"`
	NC     int      `json:"nc"`
	Caps   []int    `json:"caps"`
	Init   int      `json:"init"`
	States []stateT `json:"states"`
	Edges  [][]any  `json:"edges"` // [from, to, op, p]
}
type envAct struct {
	Op string `json:"op"`
	P  int    `json:"p"`
}
type envEdge struct {
	a  envAct
	to int
}

func norm(o *obsT) {
	for i := range o.Chan {
		if o.Chan[i].Got == nil {
			o.Chan[i].Got = []int{}
		}
	}
}

type sched struct {
	g     *graphT
	tau   [][]int
	env   [][]envEdge
	macro map[[2]int][]int // (quiet state, action index) -> quiet successors
	acts  []envAct
	actIx map[envAct]int
}

func loadSched(path string) *sched {
	g := &graphT{}
	tl.ReadJSON(path, g)
	sc := &sched{g: g, tau: make([][]int, len(g.States)), env: make([][]envEdge, len(g.States)), macro: map[[2]int][]int{}, actIx: map[envAct]int{}}
	for i := range g.States {
		norm(&g.States[i].Obs)
	}
	for _, e := range g.Edges {
		from, to, op, p := int(e[0].(float64)), int(e[1].(float64)), e[2].(string), int(e[3].(float64))
		if op == "tau" {
			sc.tau[from] = append(sc.tau[from], to)
			continue
		}
		a := envAct{op, p}
		if _, ok := sc.actIx[a]; !ok {
			sc.actIx[a] = len(sc.acts)
			sc.acts = append(sc.acts, a)
		}
		sc.env[from] = append(sc.env[from], envEdge{a, to})
	}
	return sc
}

// closure returns the quiescent states reachable from the given states by internal steps.
func (sc *sched) closure(start []int) []int {
	seen := map[int]bool{}
	var out []int
	stack := append([]int{}, start...)
	for len(stack) > 0 {
		s := stack[len(stack)-1]
		stack = stack[:len(stack)-1]
		if seen[s] {
			continue
		}
		seen[s] = true
		if sc.g.States[s].Quiet {
			out = append(out, s)
			continue
		}
		stack = append(stack, sc.tau[s]...)
	}
	sort.Ints(out)
	return out
}

func (sc *sched) step(q int, a envAct) []int {
	k := [2]int{q, sc.actIx[a]}
	if r, ok := sc.macro[k]; ok {
		return r
	}
	var first []int
	for _, e := range sc.env[q] {
		if e.a == a {
			first = append(first, e.to)
		}
	}
	r := sc.closure(first)
	sc.macro[k] = r
	return r
}

// ---- the real feed inside a synctest bubble ----

type world struct {
	mu      sync.Mutex
	f       feedI
	ns, nc  int
	chs     []chan int
	subs    []event.Subscription
	substat []string
	quit    chan struct{}
	recvCmd []chan struct{}
	waiting []bool
	got     [][]int
	busy    []bool
	count   []int
	lastN   []int
	wg      sync.WaitGroup
}

func newWorld(kind string, ns, nc int, caps []int) *world {
	w := &world{f: newFeed(kind), ns: ns, nc: nc, quit: make(chan struct{})}
	w.chs = make([]chan int, nc+1)
	w.subs = make([]event.Subscription, nc+1)
	w.substat = make([]string, nc+1)
	w.recvCmd = make([]chan struct{}, nc+1)
	w.waiting = make([]bool, nc+1)
	w.got = make([][]int, nc+1)
	w.busy = make([]bool, ns+1)
	w.count = make([]int, ns+1)
	w.lastN = make([]int, ns+1)
	for c := 1; c <= nc; c++ {
		c := c
		w.chs[c] = make(chan int, caps[c-1])
		w.substat[c] = "idle"
		w.recvCmd[c] = make(chan struct{})
		w.got[c] = []int{}
		w.wg.Add(1)
		go func() { // the receiver of channel c: one receive per command
			defer w.wg.Done()
			for {
				select {
				case <-w.recvCmd[c]:
				case <-w.quit:
					return
				}
				w.mu.Lock()
				w.waiting[c] = true
				w.mu.Unlock()
				select {
				case v := <-w.chs[c]:
					w.mu.Lock()
					w.got[c] = append(w.got[c], v)
					w.waiting[c] = false
					w.mu.Unlock()
				case <-w.quit:
					return
				}
			}
		}()
	}
	return w
}

func (w *world) do(a envAct) {
	switch a.Op {
	case "Sub":
		w.subs[a.P] = w.f.Subscribe(w.chs[a.P])
		w.mu.Lock()
		w.substat[a.P] = "active"
		w.mu.Unlock()
	case "Unsub":
		c := a.P
		w.mu.Lock()
		w.substat[c] = "unsubbing"
		w.mu.Unlock()
		w.wg.Add(1)
		go func() {
			defer w.wg.Done()
			w.subs[c].Unsubscribe()
			w.mu.Lock()
			w.substat[c] = "unsubbed"
			w.mu.Unlock()
		}()
	case "Send":
		s := a.P
		w.mu.Lock()
		w.count[s]++
		w.busy[s] = true
		v := s*1000 + w.count[s]
		w.mu.Unlock()
		w.wg.Add(1)
		go func() {
			defer w.wg.Done()
			n := w.f.Send(v)
			w.mu.Lock()
			w.busy[s] = false
			w.lastN[s] = n
			w.mu.Unlock()
		}()
	case "Recv":
		w.recvCmd[a.P] <- struct{}{}
	default:
		tl.Fatal("unknown env action %v", a)
	}
	synctest.Wait()
}

func (w *world) observe() obsT {
	w.mu.Lock()
	defer w.mu.Unlock()
	var o obsT
	o.Inbox, o.Cases = w.f.lens()
	if o.Cases < 0 {
		o.Cases = 0 // before init() the slice is nil
	}
	for s := 1; s <= w.ns; s++ {
		n := w.lastN[s]
		if w.busy[s] {
			n = -1
		}
		o.Sender = append(o.Sender, senderObs{w.busy[s], w.count[s], n})
	}
	for c := 1; c <= w.nc; c++ {
		o.Chan = append(o.Chan, chanObs{w.substat[c], w.waiting[c], append([]int{}, w.got[c]...)})
	}
	return o
}

// cleanup unblocks everything so that the bubble can end: drain all channels until every Send
// returned, then stop the receivers.
func (w *world) cleanup() {
	stop := make(chan struct{})
	var dg sync.WaitGroup
	for c := 1; c <= w.nc; c++ {
		c := c
		dg.Add(1)
		go func() {
			defer dg.Done()
			for {
				select {
				case <-w.chs[c]:
				case <-stop:
					return
				}
			}
		}()
	}
	synctest.Wait()
	close(w.quit)
	close(stop)
	dg.Wait()
	w.wg.Wait()
}

type pathStep struct {
	Act  envAct `json:"act"`
	Real obsT   `json:"real"`
}

func runReplay(in, kind string, sum *tl.Summary) {
	sc := loadSched(in)
	g := sc.g
	initQ := sc.closure([]int{g.Init})
	if len(initQ) != 1 {
		tl.Fatal("initial state not quiescent/unique: %v", initQ)
	}
	// all reachable quiet states and their enabled actions
	type key = [2]int
	covered := map[key]bool{}
	reach := map[int]bool{initQ[0]: true}
	parent := map[int]struct {
		q int
		a envAct
	}{}
	queue := []int{initQ[0]}
	total := 0
	for len(queue) > 0 {
		q := queue[0]
		queue = queue[1:]
		seenA := map[envAct]bool{}
		for _, e := range sc.env[q] {
			if seenA[e.a] {
				continue
			}
			seenA[e.a] = true
			total++
			for _, t := range sc.step(q, e.a) {
				if !reach[t] {
					reach[t] = true
					parent[t] = struct {
						q int
						a envAct
					}{q, e.a}
					queue = append(queue, t)
				}
			}
		}
	}
	pathTo := func(q int) []envAct {
		var rev []envAct
		for q != initQ[0] {
			p := parent[q]
			rev = append(rev, p.a)
			q = p.q
		}
		for i, j := 0, len(rev)-1; i < j; i, j = i+1, j-1 {
			rev[i], rev[j] = rev[j], rev[i]
		}
		return rev
	}
	uncoveredAct := func(q int) (envAct, bool) {
		for _, e := range sc.env[q] {
			if !covered[key{q, sc.actIx[e.a]}] {
				return e.a, true
			}
		}
		return envAct{}, false
	}
	// worklist of quiet states that still have uncovered actions, in BFS order
	var order []int
	for q := range reach {
		order = append(order, q)
	}
	sort.Ints(order)
	nondet := 0
	unreached := 0
	paths := 0
	maxPaths := 4 * total
	for _, target := range order {
		for {
			if _, ok := uncoveredAct(target); !ok || paths >= maxPaths || len(sum.Violations) > 0 {
				break
			}
			paths++
			prefix := pathTo(target)
			var hist []pathStep
			progressed := false
			synctest.Run(func() {
				w := newWorld(kind, g.NS, g.NC, g.Caps)
				defer w.cleanup()
				synctest.Wait()
				cand := initQ
				pi := 0
				for steps := 0; steps < 200; steps++ {
					var a envAct
					if pi < len(prefix) {
						a = prefix[pi]
						pi++
					} else {
						if len(cand) == 0 {
							return
						}
						var ok bool
						a, ok = uncoveredAct(cand[0])
						if !ok {
							return
						}
					}
					w.do(a)
					real := w.observe()
					hist = append(hist, pathStep{a, real})
					var next []int
					var expected []obsT
					seen := map[int]bool{}
					for _, q := range cand {
						succ := sc.step(q, a)
						matched := false
						for _, t := range succ {
							if reflect.DeepEqual(g.States[t].Obs, real) {
								matched = true
								if !seen[t] {
									seen[t] = true
									next = append(next, t)
								}
							} else if len(expected) < 4 {
								expected = append(expected, g.States[t].Obs)
							}
						}
						if matched {
							if !covered[key{q, sc.actIx[a]}] {
								covered[key{q, sc.actIx[a]}] = true
								progressed = true
								sum.Distinct++
							}
						}
						if len(succ) > 1 {
							nondet++
						}
					}
					sum.Steps++
					sum.Count(a.Op)
					if len(next) == 0 {
						sum.Violate(fmt.Sprintf("event.%s after %d scheduled steps: %s(%d) leads to an observable state the specification does not allow", kindName(kind), len(hist), a.Op, a.P),
							tl.M{"kind": kind, "path": hist, "expected_one_of": expected})
						return
					}
					cand = next
				}
			})
			sum.Evaluations++
			if paths%200 == 1 && len(hist) > 0 {
				sum.Sample(tl.M{"kind": kind, "schedule": hist[:min(len(hist), 8)]})
			}
			if !progressed {
				// the real scheduler resolved a model nondeterminism differently: target not reached this way
				covered[key{target, -1}] = true
				if a, ok := uncoveredAct(target); ok {
					covered[key{target, sc.actIx[a]}] = true
					unreached++
				}
			}
		}
	}
	sum.Traces = 0
	sum.Extra["macro_steps_total"] = total
	sum.Extra["macro_steps_covered"] = sum.Distinct
	sum.Extra["quiet_states"] = len(reach)
	sum.Extra["macro_steps_not_taken_by_runtime"] = unreached
	sum.Extra["nondeterministic_macro_steps_seen"] = nondet
	sum.Rule = "evaluations = TLC-derived schedules executed on the real feed under synctest; distinct = covered (quiescent model state, environment step) pairs of MCFeedSched whose observable outcome (inbox/sendCases lengths, Send results, subscription states, values received per channel) matched the specification"
}

func kindName(kind string) string {
	if kind == "feedof" {
		return "FeedOf"
	}
	return "Feed"
}
