package main

import (
	"reflect"
	"sort"
	"sync"
	"sync/atomic"
	"time"
	"unsafe"
)

// feedMutex returns the feed's unexported mutex "mu" (it protects the inbox; remove() takes it first).
func feedMutex(f feedI) *sync.Mutex {
	var v reflect.Value
	switch x := f.(type) {
	case *feedAny:
		v = reflect.ValueOf(&x.f).Elem()
	case *feedOf:
		v = reflect.ValueOf(&x.f).Elem()
	}
	fld := v.FieldByName("mu")
	if !fld.IsValid() || fld.Type() != reflect.TypeOf(sync.Mutex{}) {
		return nil
	}
	return (*sync.Mutex)(unsafe.Pointer(fld.UnsafeAddr()))
}

func pollUntil(cond func() bool, d time.Duration) bool {
	deadline := time.Now().Add(d)
	for !cond() {
		if time.Now().After(deadline) {
			return false
		}
		time.Sleep(50 * time.Microsecond)
	}
	return true
}

// forcedDoubleUnsub forces the schedule "two owners call Unsubscribe on the same subscription while a
// Send is blocked on its (unbuffered) channel and the removal is held up": the harness holds the feed's
// inbox mutex so that the first Unsubscribe stops inside remove(); the second Unsubscribe must not return
// before the removal has happened (sync.Once).  If it does return, the channel's receiver starts a receive:
// the blocked Send then delivers a value after an Unsubscribe has returned.  The verdict is not taken
// here: the history (call/return events by sequence number) goes to FeedTrace.tla like any other.
// Waiting for something that must NOT happen uses a bounded wait; a too short wait can only miss the
// early return, never invent one.
func forcedDoubleUnsub(kind string) (evs []event_, returnedEarly bool) {
	f := newFeed(kind)
	mu := feedMutex(f)
	if mu == nil {
		return nil, false
	}
	ch := make(chan int) // channel 1 of the trace configuration is unbuffered
	var logs []*plog
	var lmu sync.Mutex
	newLog := func() *plog { l := &plog{}; lmu.Lock(); logs = append(logs, l); lmu.Unlock(); return l }
	main := newLog()
	main.log("SubBegin", 1, 0, 0)
	sub := f.Subscribe(ch)
	main.log("SubEnd", 1, 0, 0)
	var wg sync.WaitGroup
	ls := newLog()
	wg.Add(1)
	go func() {
		defer wg.Done()
		ls.log("SendBegin", 1, 1001, 0)
		n := f.Send(1001)
		ls.log("SendEnd", 1, 1001, n)
	}()
	// the Send has taken the inbox (it then blocks in its select: nobody receives)
	if !pollUntil(func() bool { in, cs := f.lens(); return in == 0 && cs == 1 }, 60*time.Second) {
		<-ch // let the Send finish; scenario not established
		wg.Wait()
		return nil, false
	}
	mu.Lock()
	l1, l2 := newLog(), newLog()
	u2done := make(chan struct{})
	wg.Add(2)
	go func() {
		defer wg.Done()
		l1.log("UnsubBegin", 1, 0, 1)
		sub.Unsubscribe()
		l1.log("UnsubEnd", 1, 0, 1)
	}()
	// wait until the first caller is queued on the mutex inside remove() (sync.Mutex state: waiters >> 3)
	state := (*int32)(unsafe.Pointer(mu))
	queued := pollUntil(func() bool { return atomic.LoadInt32(state)>>3 >= 1 }, 10*time.Second)
	go func() {
		defer wg.Done()
		l2.log("UnsubBegin", 1, 0, 2)
		sub.Unsubscribe()
		l2.log("UnsubEnd", 1, 0, 2)
		close(u2done)
	}()
	if queued {
		select {
		case <-u2done:
			returnedEarly = true
		case <-time.After(30 * time.Millisecond):
		}
	}
	if returnedEarly {
		lr := newLog()
		lr.log("RecvBegin", 1, 0, 0)
		select {
		case v := <-ch:
			lr.log("RecvEnd", 1, v, 0)
		case <-time.After(2 * time.Second):
			lr.log("RecvAbort", 1, 0, 0)
		}
	}
	mu.Unlock()
	wg.Wait()
	final := newLog()
	final.log("reset", 0, 0, 0)
	for _, l := range logs {
		evs = append(evs, l.evs...)
	}
	sort.Slice(evs, func(i, j int) bool { return evs[i].Seq < evs[j].Seq })
	return evs, returnedEarly
}
