package main

import (
	"reflect"

	"github.com/ethereum/go-ethereum/event"
)

type feedAny struct{ f event.Feed }

func (f *feedAny) Subscribe(ch chan int) event.Subscription { return f.f.Subscribe(ch) }
func (f *feedAny) Send(v int) int                           { return f.f.Send(v) }
func (f *feedAny) lens() (int, int)                         { return fieldLens(reflect.ValueOf(&f.f).Elem()) }

type feedOf struct{ f event.FeedOf[int] }

func (f *feedOf) Subscribe(ch chan int) event.Subscription { return f.f.Subscribe(ch) }
func (f *feedOf) Send(v int) int                           { return f.f.Send(v) }
func (f *feedOf) lens() (int, int)                         { return fieldLens(reflect.ValueOf(&f.f).Elem()) }

// fieldLens reads len(inbox) and len(sendCases)-1 (the removeSub case is not a subscriber) of
// a feed struct. Only lengths of unexported slice fields are read; -1 means "field not found".
func fieldLens(v reflect.Value) (inbox, cases int) {
	inbox, cases = -1, -1
	if f := v.FieldByName("inbox"); f.IsValid() && f.Kind() == reflect.Slice {
		inbox = f.Len()
	}
	if f := v.FieldByName("sendCases"); f.IsValid() && f.Kind() == reflect.Slice {
		cases = f.Len()
		if cases > 0 {
			cases--
		}
	}
	return
}
