// c44 drives real p2p/rlpx.Conn pairs for property C44 (RLPx delivers authenticated messages intact
// and in order; tampering anywhere stops delivery with an error).
//
//	-mode cases -in cases.json   every test case emitted by TLC from spec/net/MCRLPx.tla (which handshake
//	                             packet / frame is modified in which position class, malicious peers
//	                             sending invalid curve points) is executed on two rlpx.Conn endpoints
//	                             connected through a harness proxy that re-chunks the byte stream and
//	                             flips bits at the chosen position classes; message codes, payload sizes
//	                             (boundary classes around the 16-byte padding and the 24-bit limit),
//	                             compressibility, snappy on/off and the chunking pattern are drawn from a
//	                             seeded generator per run.  The delivered sequences, errors and learned keys
//	                             are compared with the outcome the specification prescribes (R).
package main

import (
	"bytes"
	"crypto/ecdsa"
	crand "crypto/rand"
	"encoding/binary"
	"errors"
	"flag"
	"fmt"
	"io"
	"math/rand"
	"net"
	"os"
	"sync"
	"time"

	"github.com/ethereum/go-ethereum/crypto"
	"github.com/ethereum/go-ethereum/crypto/ecies"
	"github.com/ethereum/go-ethereum/p2p/rlpx"
	"github.com/ethereum/go-ethereum/rlp"
	"github.com/golang/snappy"
	tl "verif/harness/tracelib"
)

const maxUint24 = 1<<24 - 1

// ---------------------------------------------------------------- in-memory duplex connection

type addr struct{}

func (addr) Network() string { return "pipe" }
func (addr) String() string  { return "pipe" }

// duplex is a net.Conn made of two unidirectional io.Pipes, so that either direction can be closed
// (EOF) independently: that is how the harness ends a run without timeouts.
type duplex struct {
	r *io.PipeReader
	w *io.PipeWriter
}

func (d *duplex) Read(p []byte) (int, error)         { return d.r.Read(p) }
func (d *duplex) Write(p []byte) (int, error)        { return d.w.Write(p) }
func (d *duplex) Close() error                       { d.w.Close(); d.r.Close(); return nil }
func (d *duplex) CloseWrite()                        { d.w.Close() }
func (d *duplex) CloseRead()                         { d.r.Close() }
func (d *duplex) LocalAddr() net.Addr                { return addr{} }
func (d *duplex) RemoteAddr() net.Addr               { return addr{} }
func (d *duplex) SetDeadline(t time.Time) error      { return nil }
func (d *duplex) SetReadDeadline(t time.Time) error  { return nil }
func (d *duplex) SetWriteDeadline(t time.Time) error { return nil }

// ---------------------------------------------------------------- test case (from TLC) and run plan

type pkt struct {
	Present bool   `json:"present"`
	Flip    string `json:"flip"`
	Bad     string `json:"bad"`
}
type expectT struct {
	HsA      string `json:"hsA"`
	HsB      string `json:"hsB"`
	LearnedA string `json:"learnedA"`
	LearnedB string `json:"learnedB"`
	DlvAB    int    `json:"dlvAB"`
	DlvBA    int    `json:"dlvBA"`
	ErrAB    bool   `json:"errAB"`
	ErrBA    bool   `json:"errBA"`
}
type caseT struct {
	Auth    pkt      `json:"auth"`
	Ack     pkt      `json:"ack"`
	FlipsAB []string `json:"flipsAB"`
	FlipsBA []string `json:"flipsBA"`
	Expect  expectT  `json:"expect"`
}

type msgT struct {
	Code    uint64
	Payload []byte
	wire    int // length of the (possibly compressed) data on the wire
}

func (m msgT) fsize() int { return rlp.IntSize(m.Code) + m.wire }
func (m msgT) rsize() int {
	f := m.fsize()
	if p := f % 16; p > 0 {
		f += 16 - p
	}
	return f
}

var sizeClasses = []int{0, 1, 2, 13, 14, 15, 16, 17, 30, 31, 32, 33, 47, 48, 49, 255, 256, 257, 1000, 4095, 4096, 65535, 65536, 70000}
var bigSizes = []int{1 << 20, 3<<20 + 5}
var codeClasses = []uint64{0, 1, 0x10, 0x7f, 0x80, 0xff, 0x100, 0xffff, 1 << 32}

func genMsg(r *rand.Rand, snap bool, needPad bool, big bool) msgT {
	for {
		n := sizeClasses[r.Intn(len(sizeClasses))]
		if big && r.Intn(4) == 0 {
			n = bigSizes[r.Intn(len(bigSizes))]
		}
		p := make([]byte, n)
		switch r.Intn(3) {
		case 0:
			r.Read(p) // incompressible
		case 1:
			for i := range p {
				p[i] = byte(i % 7) // compressible
			}
		default:
			r.Read(p[:n/2])
		}
		m := msgT{Code: codeClasses[r.Intn(len(codeClasses))], Payload: p, wire: n}
		if snap {
			m.wire = len(snappy.Encode(nil, p))
		}
		if needPad && m.fsize()%16 == 0 {
			continue
		}
		return m
	}
}

// flipSpec says which byte of a unit (handshake packet or frame) is modified.
type flipSpec struct {
	region string
	pick   int  // seeded choice inside the region
	bit    byte // which bit
}

// offsetIn returns the byte offset inside the unit for a region; -1 if the region is empty.
func hsOffset(region string, pick, plen int) int {
	switch region {
	case "prefix":
		return pick % 2
	case "ephem":
		return 2 + pick%65
	case "iv":
		return 2 + 65 + pick%16
	case "ct":
		n := plen - 2 - 65 - 16 - 32
		return 2 + 65 + 16 + pick%n
	case "mac":
		return plen - 32 + pick%32
	}
	tl.Fatal("bad handshake region %q", region)
	return -1
}

func frameOffset(region string, pick int, m msgT) int {
	switch region {
	case "hsize":
		return pick % 3
	case "hrest":
		return 3 + pick%13
	case "hmac":
		return 16 + pick%16
	case "body":
		if m.fsize() == 0 {
			return 32
		}
		return 32 + pick%m.fsize()
	case "pad":
		pad := m.rsize() - m.fsize()
		if pad == 0 {
			tl.Fatal("frame without padding selected for a padding flip")
		}
		return 32 + m.fsize() + pick%pad
	case "fmac":
		return 32 + m.rsize() + pick%16
	}
	tl.Fatal("bad frame region %q", region)
	return -1
}

// ---------------------------------------------------------------- the proxy (adversary on the wire)

type chunker struct {
	r       *rand.Rand
	pattern string
}

func (c *chunker) next(avail int) int {
	n := avail
	switch c.pattern {
	case "whole":
	case "bytes":
		// byte by byte at the beginning of every burst, then larger pieces (keeps big messages fast)
		n = 1
		if avail > 600 {
			n = avail - 300
		}
	case "small":
		n = 1 + c.r.Intn(40)
	case "blocks":
		n = []int{15, 16, 17, 31, 32, 33, 48}[c.r.Intn(7)]
	case "mixed":
		n = 1 + c.r.Intn(2000)
	}
	if n > avail {
		n = avail
	}
	return n
}

type proxyDir struct {
	name     string
	up       *io.PipeReader // from the writer endpoint
	down     *io.PipeWriter // to the reader endpoint
	hsFlip   *flipSpec
	hsSubst  bool // replace the ECIES ephemeral key of the handshake packet by an invalid curve point
	msgs     []msgT
	flips    map[int]*flipSpec // frame index (0-based) -> flip
	ch       *chunker
	hold     int // bytes held back to make chunks cross frame boundaries
	holdAll  bool  // burst mode: frames are forwarded only when the writer has written all of them
	cuts     []int // burst mode: sizes of the first chunks of the frame stream (the rest goes out as one write)
	applied  []string
	rawFirst bool // the upstream endpoint is the harness itself (malicious peer): forward verbatim
}

// run forwards the stream, unit by unit, applying the planned modifications.
func (p *proxyDir) run(wg *sync.WaitGroup) {
	defer wg.Done()
	var pending, queue []byte
	downOK := true
	unitNo := -1 // mirrors "unit" below for the flush closure
	flush := func(all bool) {
		if p.holdAll && unitNo >= 0 && !all {
			return
		}
		for downOK && (len(queue) > p.hold || (all && len(queue) > 0)) {
			n := p.ch.next(len(queue))
			if p.holdAll && unitNo >= 0 {
				n = len(queue)
				if len(p.cuts) > 0 {
					if p.cuts[0] < n {
						n = p.cuts[0]
					}
					p.cuts = p.cuts[1:]
				}
			}
			if _, err := p.down.Write(queue[:n]); err != nil {
				downOK = false // the reader is gone: keep draining upstream so that the writer is not blocked
			}
			queue = queue[n:]
		}
	}
	unit := -1 // -1 handshake packet, then frame index
	buf := make([]byte, 1<<16)
	cut := false
	for {
		n, err := p.up.Read(buf)
		pending = append(pending, buf[:n]...)
		for !cut {
			var ulen int
			if unit == -1 {
				if len(pending) < 2 {
					break
				}
				ulen = 2 + int(binary.BigEndian.Uint16(pending))
			} else if unit < len(p.msgs) {
				ulen = 32 + p.msgs[unit].rsize() + 16
			} else {
				ulen = len(pending) // anything beyond the plan is forwarded as is
				if ulen == 0 {
					break
				}
			}
			if len(pending) < ulen {
				break
			}
			u := append([]byte{}, pending[:ulen]...)
			pending = pending[ulen:]
			if unit == -1 {
				if p.hsSubst {
					copy(u[2:2+65], invalidPoint65())
					p.applied = append(p.applied, "hs:ephem-invalid-point")
				}
				if f := p.hsFlip; f != nil {
					off := hsOffset(f.region, f.pick, ulen)
					u[off] ^= 1 << f.bit
					p.applied = append(p.applied, fmt.Sprintf("hs:%s@%d", f.region, off))
					cut = true // a modified handshake packet is followed by a connection cut (no timeouts needed)
				}
				queue = append(queue, u...)
				flush(true) // the peer's answer depends on this packet: deliver it completely
			} else {
				if f := p.flips[unit]; f != nil && unit < len(p.msgs) {
					off := frameOffset(f.region, f.pick, p.msgs[unit])
					u[off] ^= 1 << f.bit
					p.applied = append(p.applied, fmt.Sprintf("frame%d:%s@%d", unit+1, f.region, off))
				}
				queue = append(queue, u...)
				flush(false)
			}
			unit++
			unitNo = unit - 1
		}
		if cut {
			flush(true)
			p.down.Close()
			io.Copy(io.Discard, p.up)
			return
		}
		if err != nil {
			queue = append(queue, pending...)
			flush(true)
			p.down.Close()
			return
		}
	}
}

func invalidPoint65() []byte {
	b := make([]byte, 65)
	b[0] = 4
	b[32] = 1 // X = 1
	b[64] = 1 // Y = 1: not on secp256k1 (1 != 1 + 7)
	return b
}

// ---------------------------------------------------------------- malicious peers

type authMsg struct {
	Signature       [65]byte
	InitiatorPubkey [64]byte
	Nonce           [32]byte
	Version         uint
}
type ackMsg struct {
	RandomPubkey [64]byte
	Nonce        [32]byte
	Version      uint
}

func sealEIP8(r *rand.Rand, msg any, to *ecdsa.PublicKey) []byte {
	var b bytes.Buffer
	if err := rlp.Encode(&b, msg); err != nil {
		tl.Fatal("rlp: %v", err)
	}
	b.Write(make([]byte, 100+r.Intn(100)))
	prefix := make([]byte, 2)
	binary.BigEndian.PutUint16(prefix, uint16(b.Len()+65+16+32))
	enc, err := ecies.Encrypt(crand.Reader, ecies.ImportECDSAPublic(to), b.Bytes(), nil, prefix)
	if err != nil {
		tl.Fatal("ecies: %v", err)
	}
	return append(prefix, enc...)
}

func invalidPub64(variant int) (out [64]byte) {
	switch variant % 3 {
	case 0: // (1,1) is not on the curve
		out[31], out[63] = 1, 1
	case 1: // all zero
	case 2: // X >= field prime
		for i := 0; i < 32; i++ {
			out[i] = 0xff
		}
		out[63] = 2
	}
	return out
}

// ---------------------------------------------------------------- one run

type sideResult struct {
	hs        string // "done" | "fail" | "n/a" (malicious side)
	keyOK     bool
	delivered []msgT
	firstErr  error
	lateOK    bool  // a read after the first error succeeded (must never happen)
	extra     []bool // results (ok?) of the reads attempted after the first error
	writeErr  error // unexpected error of an honest writer whose frames were within the limit
	wireBad   bool  // Conn.Write returned a wire size different from the planned one
}

type runInfo struct {
	Snappy  bool     `json:"snappy"`
	Chunks  string   `json:"chunks"`
	Applied []string `json:"applied"`
	SizesAB []int    `json:"sizesAB"`
	SizesBA []int    `json:"sizesBA"`
}

func endpoint(conn *rlpx.Conn, dx *duplex, snap bool, out []msgT, res *sideResult, wg *sync.WaitGroup) {
	conn.SetSnappy(snap)
	wg.Add(2)
	go func() { // writer
		defer wg.Done()
		for _, m := range out {
			ws, err := conn.Write(m.Code, m.Payload)
			if err != nil {
				if !errors.Is(err, io.ErrClosedPipe) {
					res.writeErr = err
				}
				break
			}
			if int(ws) != m.wire {
				res.wireBad = true
			}
		}
		dx.CloseWrite()
	}()
	go func() { // reader
		defer wg.Done()
		for {
			code, data, _, err := conn.Read()
			if err != nil {
				res.firstErr = err
				break
			}
			res.delivered = append(res.delivered, msgT{Code: code, Payload: append([]byte{}, data...)})
		}
		for i := 0; i < 2; i++ { // nothing may be delivered after an error
			_, _, _, err := conn.Read()
			res.extra = append(res.extra, err == nil)
			if err == nil {
				res.lateOK = true
			}
		}
		dx.CloseRead()
	}()
}

// burstPlan fixes the data dimensions of a run: the sender writes all messages back to back, the proxy
// forwards nothing of the frame stream before the writer is done and then delivers it in the given
// chunks (cuts), so that the tail of one frame and the beginning of the next arrive in the same read.
type burstPlan struct {
	snappy bool
	msgsAB []msgT
	cuts   []int
	desc   string
}

func runCase(c caseT, r *rand.Rand, big bool, plans ...*burstPlan) (a, b sideResult, info runInfo, msgsAB, msgsBA []msgT) {
	var plan *burstPlan
	if len(plans) > 0 {
		plan = plans[0]
	}
	keyA, _ := crypto.GenerateKey()
	keyB, _ := crypto.GenerateKey()
	snap := r.Intn(2) == 0
	if plan != nil {
		snap = plan.snappy
	}
	patterns := []string{"whole", "bytes", "small", "blocks", "mixed"}
	pat := patterns[r.Intn(len(patterns))]
	info = runInfo{Snappy: snap, Chunks: pat}

	mk := func(flips []string) ([]msgT, map[int]*flipSpec) {
		var ms []msgT
		fl := map[int]*flipSpec{}
		for i, f := range flips {
			ms = append(ms, genMsg(r, snap, f == "pad", big))
			if f != "none" {
				fl[i] = &flipSpec{region: f, pick: r.Intn(1 << 20), bit: byte(r.Intn(8))}
			}
		}
		return ms, fl
	}
	var flipsAB, flipsBA map[int]*flipSpec
	msgsAB, flipsAB = mk(c.FlipsAB)
	msgsBA, flipsBA = mk(c.FlipsBA)
	if plan != nil {
		msgsAB, flipsAB = plan.msgsAB, map[int]*flipSpec{}
		for i := range msgsAB {
			msgsAB[i].wire = len(msgsAB[i].Payload)
			if snap {
				msgsAB[i].wire = len(snappy.Encode(nil, msgsAB[i].Payload))
			}
		}
	}
	for _, m := range msgsAB {
		info.SizesAB = append(info.SizesAB, len(m.Payload))
	}
	for _, m := range msgsBA {
		info.SizesBA = append(info.SizesBA, len(m.Payload))
	}

	// A --a2p--> proxyAB --p2b--> B ;  B --b2p--> proxyBA --p2a--> A
	a2pR, a2pW := io.Pipe()
	p2bR, p2bW := io.Pipe()
	b2pR, b2pW := io.Pipe()
	p2aR, p2aW := io.Pipe()
	dxA := &duplex{r: p2aR, w: a2pW}
	dxB := &duplex{r: p2bR, w: b2pW}
	pAB := &proxyDir{name: "AB", up: a2pR, down: p2bW, msgs: msgsAB, flips: flipsAB, ch: &chunker{rand.New(rand.NewSource(r.Int63())), pat}, hold: r.Intn(40)}
	pBA := &proxyDir{name: "BA", up: b2pR, down: p2aW, msgs: msgsBA, flips: flipsBA, ch: &chunker{rand.New(rand.NewSource(r.Int63())), pat}, hold: r.Intn(40)}
	if plan != nil {
		pAB.holdAll, pAB.cuts, pAB.ch.pattern = true, append([]int{}, plan.cuts...), "whole"
		info.Chunks = plan.desc
	}
	if c.Auth.Flip != "none" {
		pAB.hsFlip = &flipSpec{region: c.Auth.Flip, pick: r.Intn(1 << 20), bit: byte(r.Intn(8))}
	}
	if c.Ack.Flip != "none" {
		pBA.hsFlip = &flipSpec{region: c.Ack.Flip, pick: r.Intn(1 << 20), bit: byte(r.Intn(8))}
	}
	pAB.hsSubst = c.Auth.Bad == "ephem"
	pBA.hsSubst = c.Ack.Bad == "ephem"
	var pw, ew sync.WaitGroup
	pw.Add(2)
	go pAB.run(&pw)
	go pBA.run(&pw)

	a.hs, b.hs = "n/a", "n/a"
	variant := r.Intn(3)
	var hw sync.WaitGroup
	hw.Add(2)
	go func() { // side A
		defer hw.Done()
		if c.Auth.Bad == "initkey" { // malicious initiator: auth message carrying an invalid curve point
			var m authMsg
			r.Read(m.Signature[:])
			m.Signature[64] = byte(r.Intn(2))
			m.InitiatorPubkey = invalidPub64(variant)
			r.Read(m.Nonce[:])
			m.Version = 4
			dxA.Write(sealEIP8(r, &m, &keyB.PublicKey))
			io.Copy(io.Discard, dxA)
			dxA.Close()
			return
		}
		conn := rlpx.NewConn(dxA, &keyB.PublicKey)
		remote, err := conn.Handshake(keyA)
		if err != nil {
			a.hs = "fail"
			dxA.Close()
			return
		}
		a.hs = "done"
		a.keyOK = remote != nil && remote.Equal(&keyB.PublicKey)
		endpoint(conn, dxA, snap, msgsAB, &a, &ew)
	}()
	go func() { // side B
		defer hw.Done()
		if c.Ack.Present && c.Ack.Bad == "randkey" { // malicious recipient: ack carrying an invalid curve point
			hdr := make([]byte, 2)
			if _, err := io.ReadFull(dxB, hdr); err == nil {
				io.ReadFull(dxB, make([]byte, binary.BigEndian.Uint16(hdr)))
			}
			var m ackMsg
			m.RandomPubkey = invalidPub64(variant)
			r.Read(m.Nonce[:])
			m.Version = 4
			dxB.Write(sealEIP8(r, &m, &keyA.PublicKey))
			io.Copy(io.Discard, dxB)
			dxB.Close()
			return
		}
		conn := rlpx.NewConn(dxB, nil)
		remote, err := conn.Handshake(keyB)
		if err != nil {
			b.hs = "fail"
			dxB.Close()
			return
		}
		b.hs = "done"
		b.keyOK = remote != nil && remote.Equal(&keyA.PublicKey)
		endpoint(conn, dxB, snap, msgsBA, &b, &ew)
	}()
	hw.Wait()
	ew.Wait()
	pw.Wait()
	info.Applied = append(append([]string{}, pAB.applied...), pBA.applied...)
	return
}

// check compares the observed results with the outcome prescribed by the specification.
func check(c caseT, a, b sideResult, msgsAB, msgsBA []msgT) []string {
	var bad []string
	honestA := c.Auth.Bad != "initkey"
	honestB := !(c.Ack.Present && c.Ack.Bad == "randkey")
	if honestA {
		if a.hs != c.Expect.HsA {
			bad = append(bad, fmt.Sprintf("initiator handshake: implementation %s, specification %s", a.hs, c.Expect.HsA))
		} else if a.hs == "done" && !a.keyOK {
			bad = append(bad, "initiator learned a wrong remote key")
		}
	}
	if honestB {
		if b.hs != c.Expect.HsB {
			bad = append(bad, fmt.Sprintf("recipient handshake: implementation %s, specification %s", b.hs, c.Expect.HsB))
		} else if b.hs == "done" && !b.keyOK {
			bad = append(bad, "recipient learned a wrong remote key")
		}
	}
	dir := func(name string, recv sideResult, recvHonest bool, sent []msgT, wantN int, wantErr bool, sender sideResult) {
		if !recvHonest || recv.hs != "done" {
			return
		}
		if sender.writeErr != nil {
			bad = append(bad, fmt.Sprintf("%s: Write failed for a message within the size limit: %v", name, sender.writeErr))
		}
		if sender.wireBad {
			bad = append(bad, name+": Write reported an unexpected wire size")
		}
		if len(recv.delivered) != wantN {
			bad = append(bad, fmt.Sprintf("%s: %d messages delivered, specification %d", name, len(recv.delivered), wantN))
		}
		for i, m := range recv.delivered {
			if i >= len(sent) || m.Code != sent[i].Code || !bytes.Equal(m.Payload, sent[i].Payload) {
				bad = append(bad, fmt.Sprintf("%s: delivered message %d differs from the message written (code %d, %d bytes)", name, i+1, m.Code, len(m.Payload)))
				break
			}
		}
		if recv.lateOK {
			bad = append(bad, name+": a message was delivered after an error had been returned")
		}
		if wantErr && (recv.firstErr == nil || recv.firstErr == io.EOF) {
			bad = append(bad, fmt.Sprintf("%s: modification not reported as an error (got %v)", name, recv.firstErr))
		}
		if !wantErr && recv.firstErr != io.EOF {
			bad = append(bad, fmt.Sprintf("%s: unmodified stream ended with %v instead of EOF", name, recv.firstErr))
		}
	}
	dir("A->B", b, honestB, msgsAB, c.Expect.DlvAB, c.Expect.ErrAB, a)
	dir("B->A", a, honestA, msgsBA, c.Expect.DlvBA, c.Expect.ErrBA, b)
	return bad
}

// burstCases: no tampering. A frame larger than 256 KiB (and some just below) is followed immediately by
// 1..3 small messages; everything is written before anything is forwarded, then delivered as one write or
// in chunks that straddle the frame boundary by 1, 16, 4096 ... bytes. Every message must arrive intact
// and in order (the read buffer carries the read-ahead bytes of the next frame over its reset).
func burstCases(r *rand.Rand, sum *tl.Summary, seed int64) {
	clean := caseT{Auth: pkt{Present: true, Flip: "none", Bad: "none"}, Ack: pkt{Present: true, Flip: "none", Bad: "none"},
		FlipsAB: []string{}, FlipsBA: []string{},
		Expect: expectT{HsA: "done", HsB: "done", LearnedA: "true", LearnedB: "true"}}
	larges := []int{200000, 262144 - 64, 262144, 262144 + 1, 300000, 524288 + 7, 1 << 20}
	straddles := []int{-1, 0, 1, 15, 16, 17, 31, 32, 33, 100, 1000, 4095, 4096, 4097, 9000}
	for li, large := range larges {
		for si, k := range straddles {
			if (li+si+int(seed))%3 != 0 && k != -1 && k != 1 && k != 4096 { // a third of the grid per seed, the corner columns always
				continue
			}
			snap := (li+si)%2 == 0
			nsmall := 1 + r.Intn(3)
			var msgs []msgT
			if r.Intn(3) == 0 { // sometimes a small message first
				msgs = append(msgs, genMsg(r, false, false, false))
			}
			big := make([]byte, large)
			r.Read(big) // incompressible, so that the frame stays large with snappy
			msgs = append(msgs, msgT{Code: codeClasses[r.Intn(len(codeClasses))], Payload: big})
			firstLarge := len(msgs) - 1
			for i := 0; i < nsmall; i++ {
				m := genMsg(r, false, false, false)
				if len(m.Payload) > 5000 {
					m.Payload = m.Payload[:r.Intn(5000)]
				}
				msgs = append(msgs, m)
			}
			if r.Intn(4) == 0 { // a second large frame behind the small ones
				big2 := make([]byte, 270000+r.Intn(1000))
				r.Read(big2)
				msgs = append(msgs, msgT{Code: 1, Payload: big2}, genMsg(r, false, false, false))
			}
			plan := &burstPlan{snappy: snap, msgsAB: msgs, desc: fmt.Sprintf("burst large=%d straddle=%d", large, k)}
			// wire sizes are needed for the cut position: computed the same way runCase does
			off := 0
			for i := 0; i <= firstLarge; i++ {
				m := msgs[i]
				m.wire = len(m.Payload)
				if snap {
					m.wire = len(snappy.Encode(nil, m.Payload))
				}
				off += 32 + m.rsize() + 16
			}
			if k >= 0 {
				plan.cuts = []int{off + k}
			}
			c := clean
			c.FlipsAB = make([]string, len(msgs))
			for i := range c.FlipsAB {
				c.FlipsAB[i] = "none"
			}
			c.Expect.DlvAB = len(msgs)
			a, b, info, mab, mba := runCase(c, r, false, plan)
			sum.Evaluations++
			sum.Steps += len(mab) + 2
			sum.Count("burst")
			sum.Distinct++
			if bad := check(c, a, b, mab, mba); len(bad) > 0 {
				sum.Violate("rlpx (no tampering, back-to-back frames): "+bad[0], tl.M{"run": info, "sizes": info.SizesAB, "all": bad, "seed": seed})
			}
			if (li*len(straddles)+si)%29 == 0 {
				sum.Sample(tl.M{"burst": info})
			}
		}
	}
}

// limitCases exercises the 24-bit size limit of a frame (rlpx.go: maxUint24) on a clean session.
func limitCases(r *rand.Rand, sum *tl.Summary) {
	for _, tc := range []struct {
		n    int
		code uint64
		ok   bool
	}{{maxUint24 - 1, 1, true}, {maxUint24, 1, false}, {maxUint24 + 1, 0, false}, {maxUint24 - 3, 0x100, true}, {maxUint24 - 2, 0x100, false}} {
		keyA, _ := crypto.GenerateKey()
		keyB, _ := crypto.GenerateKey()
		c1, c2 := net.Pipe()
		ca, cb := rlpx.NewConn(c1, &keyB.PublicKey), rlpx.NewConn(c2, nil)
		var wg sync.WaitGroup
		wg.Add(1)
		var errB error
		go func() { defer wg.Done(); _, errB = cb.Handshake(keyB) }()
		_, errA := ca.Handshake(keyA)
		wg.Wait()
		if errA != nil || errB != nil {
			sum.Violate(fmt.Sprintf("clean handshake failed: %v / %v", errA, errB), tl.M{"limit_case": tc.n})
			continue
		}
		payload := make([]byte, tc.n)
		r.Read(payload[:1024])
		after := []byte("after")
		type got struct {
			code uint64
			data []byte
			err  error
		}
		res := make(chan got, 2)
		go func() {
			defer c2.Close() // never leave the writer blocked on the pipe
			for i := 0; i < 2; i++ {
				code, data, _, err := cb.Read()
				res <- got{code, append([]byte{}, data...), err}
				if err != nil {
					return
				}
			}
		}()
		_, werr := ca.Write(tc.code, payload)
		_, werr2 := ca.Write(7, after)
		c1.Close()
		first := <-res
		sum.Evaluations++
		sum.Count("limit")
		desc := ""
		switch {
		case tc.ok && (werr != nil || first.err != nil || first.code != tc.code || !bytes.Equal(first.data, payload)):
			desc = fmt.Sprintf("message of %d bytes with code %d (frame size within 24 bits) not delivered intact: write %v read %v", tc.n, tc.code, werr, first.err)
		case !tc.ok && werr == nil:
			desc = fmt.Sprintf("message of %d bytes with code %d exceeds the 24-bit frame size but Write accepted it", tc.n, tc.code)
		case !tc.ok && (werr2 != nil || first.err != nil || first.code != 7 || !bytes.Equal(first.data, after)):
			desc = fmt.Sprintf("after a rejected oversize Write the next message was not delivered intact (write %v, read %v)", werr2, first.err)
		}
		if desc != "" {
			sum.Violate(desc, tl.M{"limit_case": tc.n, "code": tc.code})
		}
		c2.Close()
	}
}

// ---------------------------------------------------------------- fuzz mode (V)

func randCase(r *rand.Rand) caseT {
	hsr := []string{"prefix", "ephem", "iv", "ct", "mac"}
	fr := []string{"hsize", "hrest", "hmac", "body", "pad", "fmac"}
	c := caseT{Auth: pkt{Present: true, Flip: "none", Bad: "none"}, Ack: pkt{Flip: "none", Bad: "none"}}
	switch r.Intn(12) {
	case 0:
		c.Auth.Flip = hsr[r.Intn(5)]
	case 1:
		c.Auth.Bad = []string{"initkey", "ephem"}[r.Intn(2)]
	}
	if c.Auth.Flip == "none" && c.Auth.Bad == "none" {
		c.Ack.Present = true
		switch r.Intn(12) {
		case 0:
			c.Ack.Flip = hsr[r.Intn(5)]
		case 1:
			c.Ack.Bad = []string{"randkey", "ephem"}[r.Intn(2)]
		}
	}
	mk := func() []string {
		fl := []string{}
		for i, n := 0, r.Intn(6); i < n; i++ {
			if r.Intn(5) == 0 {
				fl = append(fl, fr[r.Intn(6)])
			} else {
				fl = append(fl, "none")
			}
		}
		return fl
	}
	c.FlipsAB, c.FlipsBA = mk(), mk()
	return c
}

func sameMsg(a, b msgT) bool { return a.Code == b.Code && bytes.Equal(a.Payload, b.Payload) }

// emitSession logs one session as the sequence of RLPx.tla actions with the observed results.
func emitSession(tr *tl.Trace, c caseT, a, b sideResult, msgsAB, msgsBA []msgT) int {
	n0 := tr.N
	ev := func(m tl.M) { tr.Emit(m) }
	honestA := c.Auth.Bad != "initkey"
	honestB := !(c.Ack.Present && c.Ack.Bad == "randkey")
	res := func(honest bool, r sideResult) string {
		if !honest {
			return "n/a"
		}
		return r.hs
	}
	authClean := c.Auth.Flip == "none" && c.Auth.Bad == "none"
	ackClean := c.Ack.Flip == "none" && c.Ack.Bad == "none"
	ev(tl.M{"op": "reset"})
	ev(tl.M{"op": "SendAuth", "bad": c.Auth.Bad})
	if c.Auth.Flip != "none" {
		ev(tl.M{"op": "TamperAuth", "r": c.Auth.Flip})
	}
	ev(tl.M{"op": "RecvAuth", "bad": c.Ack.Bad, "res": res(honestB, b), "keyok": b.keyOK})
	if !authClean {
		ev(tl.M{"op": "PeerGone", "res": res(honestA, a)})
	} else {
		if c.Ack.Flip != "none" {
			ev(tl.M{"op": "TamperAck", "r": c.Ack.Flip})
		}
		ev(tl.M{"op": "RecvAck", "res": res(honestA, a), "keyok": a.keyOK})
	}
	dir := func(d string, senderDone, senderHonest bool, msgs []msgT, flips []string, recv sideResult, recvHonest bool) {
		if !senderDone || !senderHonest {
			return
		}
		for range msgs {
			ev(tl.M{"op": "Write", "d": d})
		}
		for i, f := range flips {
			if f != "none" {
				ev(tl.M{"op": "Flip", "d": d, "i": i + 1, "r": f})
			}
		}
		if !recvHonest || recv.hs != "done" {
			return
		}
		for k, m := range recv.delivered {
			id := 0
			if k < len(msgs) && sameMsg(m, msgs[k]) {
				id = k + 1
			}
			ev(tl.M{"op": "Read", "d": d, "ok": true, "id": id, "eof": false})
		}
		k := len(recv.delivered)
		if k >= len(msgs) {
			ev(tl.M{"op": "End", "d": d, "eof": recv.firstErr == io.EOF})
			return
		}
		ev(tl.M{"op": "Read", "d": d, "ok": false, "id": 0, "eof": recv.firstErr == io.EOF})
		for j, ok := range recv.extra {
			if k+1+j >= len(msgs) {
				break
			}
			ev(tl.M{"op": "Read", "d": d, "ok": ok, "id": 0, "eof": false})
		}
	}
	dir("AB", authClean && ackClean, honestA, msgsAB, c.FlipsAB, b, honestB)
	dir("BA", authClean, honestB, msgsBA, c.FlipsBA, a, honestA)
	return tr.N - n0
}

func runFuzz(path string, seed int64, n int, big bool, sum *tl.Summary) {
	r := tl.Rand(seed*7907 + 3)
	tr := tl.NewTrace(path)
	defer tr.Close()
	shapes := map[string]bool{}
	for i := 0; i < n; i++ {
		c := randCase(r)
		a, b, info, mab, mba := runCase(c, r, big)
		sum.Steps += emitSession(tr, c, a, b, mab, mba)
		sum.Evaluations++
		sum.Traces++
		if len(info.Applied) > 0 {
			k := fmt.Sprint(c.Auth, c.Ack, c.FlipsAB, c.FlipsBA, info.Snappy, info.Chunks)
			if !shapes[k] {
				shapes[k] = true
				sum.Distinct++
			}
			sum.Count("tampered")
		} else {
			sum.Count("clean")
		}
		if i%50 == 0 {
			sum.Sample(tl.M{"case": c, "run": info})
		}
		if a.writeErr != nil || b.writeErr != nil || a.wireBad || b.wireBad {
			sum.Violate(fmt.Sprintf("rlpx: Write failed or reported an unexpected wire size (%v / %v)", a.writeErr, b.writeErr), tl.M{"case": c, "run": info})
		}
	}
	sum.Rule = "evaluations = random sessions on real rlpx.Conn pairs; distinct = distinct (handshake tampering, per-frame tampering regions, snappy, chunk pattern) combinations with at least one modified byte"
}

func main() {
	mode := flag.String("mode", "cases", "cases|fuzz")
	trace := flag.String("trace", "", "ndjson output (fuzz)")
	nfuzz := flag.Int("n", 300, "sessions (fuzz)")
	in := flag.String("in", "", "TLC cases")
	reps := flag.Int("reps", 3, "runs per case (different data dimensions)")
	big := flag.Bool("big", false, "include megabyte payloads")
	limit := flag.Bool("limit", true, "exercise the 24-bit frame size limit")
	out := flag.String("out", "", "summary output")
	flag.Parse()
	seed := int64(tl.EnvInt("VERIF_SEED", 1))
	sum := tl.NewSummary("c44", *mode, seed)
	switch *mode {
	case "cases":
		var cases []caseT
		tl.ReadJSON(*in, &cases)
		r := tl.Rand(seed*104729 + 17)
		distinct := map[string]bool{}
		for ci, c := range cases {
			for k := 0; k < *reps; k++ {
				a, b, info, mab, mba := runCase(c, r, *big)
				sum.Evaluations++
				sum.Steps += len(mab) + len(mba) + 2
				sum.Count("auth:" + c.Auth.Flip + "/" + c.Auth.Bad)
				key := fmt.Sprintf("%d/%v/%s", ci, info.Snappy, info.Chunks)
				if !distinct[key] {
					distinct[key] = true
					if len(info.Applied) > 0 {
						sum.Distinct++
					}
				}
				if bad := check(c, a, b, mab, mba); len(bad) > 0 {
					sum.Violate("rlpx: "+bad[0], tl.M{"case": c, "run": info, "all": bad, "seed": seed})
				}
				if (ci*(*reps)+k)%97 == 0 {
					sum.Sample(tl.M{"case": c, "run": info})
				}
			}
		}
		burstCases(r, sum, seed)
		if *limit {
			limitCases(r, sum)
		}
		sum.Rule = "evaluations = sessions executed on real rlpx.Conn pairs through the tampering/re-chunking proxy; distinct = distinct (TLC case, snappy, chunk pattern) combinations in which at least one byte on the wire was modified"
	case "fuzz":
		runFuzz(*trace, seed, *nfuzz, *big, sum)
	default:
		tl.Fatal("unknown mode %s", *mode)
	}
	if *out != "" {
		sum.Write(*out)
	}
	if len(sum.Violations) > 0 {
		os.Exit(1)
	}
}
