// c38 binds spec/chain/Chain.tla to core.BlockChain (property C38: the canonical chain
// index stays consistent under reorgs, head changes and restarts).
//
//	-mode replay -in behaviours.json   replay TLC-generated behaviours (tree, scheme, calls with the
//	                                    expected projected state after every call) on a real BlockChain (R)
//	-mode record -trace t.ndjson       random trees / call sequences with restarts on a real BlockChain,
//	                                    one event per call with the projected state (V, ChainTrace.tla)
package main

import (
	"context"
	"encoding/json"
	"errors"
	"flag"
	"fmt"
	"math/big"
	"os"
	"reflect"
	"sort"

	"github.com/ethereum/go-ethereum/common"
	"github.com/ethereum/go-ethereum/consensus"
	"github.com/ethereum/go-ethereum/consensus/ethash"
	"github.com/ethereum/go-ethereum/core"
	"github.com/ethereum/go-ethereum/core/rawdb"
	"github.com/ethereum/go-ethereum/core/types"
	"github.com/ethereum/go-ethereum/crypto"
	"github.com/ethereum/go-ethereum/ethdb"
	"github.com/ethereum/go-ethereum/ethdb/memorydb"
	"github.com/ethereum/go-ethereum/params"
	tl "verif/harness/tracelib"
)

// ---------------------------------------------------------------- model-side types

type Tree struct {
	Parent []int   `json:"parent"`
	Txs    [][]int `json:"txs"`
	Ntx    int     `json:"ntx"`
}

// a delivered log: [tx, block, removed flag]
type Events struct {
	Chain []int      `json:"chain"`
	CRcpt [][][3]int `json:"crcpt"` // logs inside the receipts of each ChainEvent
	Head  []int      `json:"head"`
	Rm    [][][3]int `json:"rm"`
	Logs  [][][3]int `json:"logs"`
}

// State is the projection compared with (or logged for) the specification.
type State struct {
	Known    []int      `json:"known"`
	HasState []int      `json:"hasState"`
	Rcpt     []int      `json:"rcpt"`
	Canon    []int      `json:"canon"`
	Hb       int        `json:"hb"`
	Hh       int        `json:"hh"`
	Hs       int        `json:"hs"`
	Txl      []int      `json:"txl"`
	Tail     int        `json:"tail"`
	CLogs    [][][3]int `json:"clogs"` // logs of the canonical blocks as served by GetReceiptsByHash
	Resolve  []int      `json:"resolve"`
	DResolve []int      `json:"dresolve"`
	RResolve []int      `json:"rresolve"`
	Ev       Events     `json:"ev"`
	Err      string     `json:"err"`
}

type Act struct {
	Op  string `json:"op"`
	Seg []int  `json:"seg,omitempty"`
	B   int    `json:"b,omitempty"`
	N   int    `json:"n,omitempty"`

	CrashIn bool `json:"crashin,omitempty"` // scenario: reopen every crash image taken inside this call
}

type Step struct {
	Act Act   `json:"act"`
	St  State `json:"st"`
}

type Behaviour struct {
	Tree   Tree   `json:"tree"`
	Scheme string `json:"scheme"`
	Steps  []Step `json:"steps"`
}

// ---------------------------------------------------------------- block universe

var (
	engine   = ethash.NewFaker()
	logInit  = common.FromHex("60006000a000") // PUSH1 0 PUSH1 0 LOG0 STOP: one log per creation
	gasPrice = big.NewInt(4 * params.InitialBaseFee)
)

// Universe is a realised block tree: real blocks built with core.GenerateChain.
type Universe struct {
	tree    Tree
	gspec   *core.Genesis
	genesis *types.Block
	blocks  []*types.Block // index = block id, 0 = genesis
	txs     []*types.Transaction
	num     []int
	idOf    map[common.Hash]int
	txOf    map[common.Hash]int
}

func key(i int) []byte {
	return crypto.Keccak256([]byte(fmt.Sprintf("verif-c38-key-%d", i)))
}

var universes = map[string]*Universe{}

func buildUniverse(t Tree) *Universe {
	kb, _ := json.Marshal(t)
	if u, ok := universes[string(kb)]; ok {
		return u
	}
	u := &Universe{tree: t, idOf: map[common.Hash]int{}, txOf: map[common.Hash]int{}}
	alloc := types.GenesisAlloc{}
	signer := types.LatestSigner(params.AllEthashProtocolChanges)
	u.txs = make([]*types.Transaction, t.Ntx+1)
	for i := 1; i <= t.Ntx; i++ {
		k, err := crypto.ToECDSA(key(i))
		if err != nil {
			tl.Fatal("key: %v", err)
		}
		alloc[crypto.PubkeyToAddress(k.PublicKey)] = types.Account{Balance: new(big.Int).Mul(big.NewInt(1e18), big.NewInt(10))}
		tx, err := types.SignNewTx(k, signer, &types.LegacyTx{Nonce: 0, GasPrice: gasPrice, Gas: 100000, Data: logInit})
		if err != nil {
			tl.Fatal("sign: %v", err)
		}
		u.txs[i] = tx
		u.txOf[tx.Hash()] = i
	}
	u.gspec = &core.Genesis{Config: params.AllEthashProtocolChanges, Alloc: alloc, BaseFee: big.NewInt(params.InitialBaseFee)}
	genDb, _, _ := core.GenerateChainWithGenesis(u.gspec, engine, 0, nil)
	u.genesis = u.gspec.ToBlock()
	n := len(t.Parent)
	u.blocks = make([]*types.Block, n+1)
	u.num = make([]int, n+1)
	u.blocks[0] = u.genesis
	u.idOf[u.genesis.Hash()] = 0
	roots := map[common.Hash]int{u.genesis.Root(): 0}
	for b := 1; b <= n; b++ {
		p := t.Parent[b-1]
		if p < 0 || p >= b {
			tl.Fatal("bad tree: parent[%d]=%d", b, p)
		}
		id := b
		blks, _ := core.GenerateChain(u.gspec.Config, u.blocks[p], engine, genDb, 1, func(i int, g *core.BlockGen) {
			g.SetCoinbase(common.BytesToAddress([]byte{0xc0, byte(id)}))
			g.SetExtra([]byte{byte(id)})
			for _, tx := range t.Txs[id-1] {
				g.AddTx(u.txs[tx])
			}
		})
		u.blocks[b] = blks[0]
		u.num[b] = u.num[p] + 1
		u.idOf[blks[0].Hash()] = b
		if o, dup := roots[blks[0].Root()]; dup {
			tl.Fatal("blocks %d and %d share a state root", o, b)
		}
		roots[blks[0].Root()] = b
	}
	universes[string(kb)] = u
	return u
}

func (u *Universe) id(h common.Hash) int {
	if h == (common.Hash{}) {
		return -1
	}
	if id, ok := u.idOf[h]; ok {
		return id
	}
	return -2
}

// ---------------------------------------------------------------- the system under test

type Node struct {
	u      *Universe
	scheme string
	db     ethdb.Database
	kv     *imageKV
	bc     *core.BlockChain

	chainCh chan core.ChainEvent
	headCh  chan core.ChainHeadEvent
	rmCh    chan core.RemovedLogsEvent
	logsCh  chan []*types.Log
}

func (n *Node) config() *core.BlockChainConfig {
	cfg := core.DefaultConfig().WithStateScheme(n.scheme)
	cfg.TxLookupLimit = 0 // index the entire chain
	// pathdb flushes its write buffer in a background goroutine; crash images (copies of the
	// key-value store between two writes of a call) must not race with it
	cfg.TrieNoAsyncFlush = true
	if n.scheme == rawdb.HashScheme {
		cfg.SnapshotLimit = 0
	}
	return cfg
}

func (n *Node) open() {
	bc, err := core.NewBlockChain(n.db, n.u.gspec, engine, n.config())
	if err != nil {
		tl.Fatal("NewBlockChain: %v", err)
	}
	n.bc = bc
	n.chainCh = make(chan core.ChainEvent, 4096)
	n.headCh = make(chan core.ChainHeadEvent, 4096)
	n.rmCh = make(chan core.RemovedLogsEvent, 4096)
	n.logsCh = make(chan []*types.Log, 4096)
	bc.SubscribeChainEvent(n.chainCh)
	bc.SubscribeChainHeadEvent(n.headCh)
	bc.SubscribeRemovedLogsEvent(n.rmCh)
	bc.SubscribeLogsEvent(n.logsCh)
}

// imageKV wraps the in-memory key-value store and, while armed, copies the whole store after
// every write operation (single Put/Delete or one batch): each copy is what a process that died
// right after that write would find on disk (crash images, property C39).
type imageKV struct {
	ethdb.KeyValueStore
	armed  bool
	max    int
	images []*memorydb.Database
}

func (k *imageKV) snap() {
	if !k.armed || len(k.images) >= k.max {
		return
	}
	cp := memorydb.New()
	it := k.KeyValueStore.NewIterator(nil, nil)
	for it.Next() {
		cp.Put(common.CopyBytes(it.Key()), common.CopyBytes(it.Value()))
	}
	it.Release()
	k.images = append(k.images, cp)
}
func (k *imageKV) Put(key, value []byte) error {
	err := k.KeyValueStore.Put(key, value)
	k.snap()
	return err
}
func (k *imageKV) Delete(key []byte) error {
	err := k.KeyValueStore.Delete(key)
	k.snap()
	return err
}
func (k *imageKV) DeleteRange(start, end []byte) error {
	err := k.KeyValueStore.DeleteRange(start, end)
	k.snap()
	return err
}
func (k *imageKV) NewBatch() ethdb.Batch { return &imageBatch{Batch: k.KeyValueStore.NewBatch(), k: k} }
func (k *imageKV) NewBatchWithSize(size int) ethdb.Batch {
	return &imageBatch{Batch: k.KeyValueStore.NewBatchWithSize(size), k: k}
}

type imageBatch struct {
	ethdb.Batch
	k *imageKV
}

func (b *imageBatch) Write() error {
	empty := b.Batch.ValueSize() == 0
	err := b.Batch.Write()
	if !empty {
		b.k.snap()
	}
	return err
}

func newNode(u *Universe, scheme string) *Node {
	kv := &imageKV{KeyValueStore: memorydb.New()}
	n := &Node{u: u, scheme: scheme, kv: kv, db: rawdb.NewDatabase(kv)}
	// The tx indexer runs with limit 0 on a database that is already marked as indexed from
	// block 0: its background runs are no-ops and all lookup maintenance is the synchronous
	// part in writeHeadBlock/reorg (the first run on a fresh database is scheduled by a racy
	// select in txIndexer.loop and cannot be awaited deterministically).
	rawdb.WriteTxIndexTail(n.db, 0)
	n.open()
	return n
}

func (n *Node) close() {
	n.bc.Stop()
	n.db.Close()
}

func (n *Node) logs(ls []*types.Log) [][3]int {
	out := make([][3]int, 0, len(ls))
	for _, l := range ls {
		tx, ok := n.u.txOf[l.TxHash]
		if !ok {
			tx = -2
		}
		rm := 0
		if l.Removed {
			rm = 1
		}
		out = append(out, [3]int{tx, n.u.id(l.BlockHash), rm})
	}
	return out
}

func (n *Node) receiptLogs(rs []*types.Receipt) [][3]int {
	out := [][3]int{}
	for _, r := range rs {
		out = append(out, n.logs(r.Logs)...)
	}
	return out
}

func (n *Node) drain() (Events, int) {
	ev := Events{Chain: []int{}, CRcpt: [][][3]int{}, Head: []int{}, Rm: [][][3]int{}, Logs: [][][3]int{}}
	maxHead := -1
	for {
		select {
		case e := <-n.chainCh:
			ev.Chain = append(ev.Chain, n.u.id(e.Header.Hash()))
			ev.CRcpt = append(ev.CRcpt, n.receiptLogs(e.Receipts))
		case e := <-n.headCh:
			ev.Head = append(ev.Head, n.u.id(e.Header.Hash()))
			if h := int(e.Header.Number.Uint64()); h > maxHead {
				maxHead = h
			}
		case e := <-n.rmCh:
			ev.Rm = append(ev.Rm, n.logs(e.Logs))
		case e := <-n.logsCh:
			ev.Logs = append(ev.Logs, n.logs(e))
		default:
			return ev, maxHead
		}
	}
}

func classify(err error) string {
	switch {
	case err == nil:
		return "none"
	case errors.Is(err, consensus.ErrUnknownAncestor):
		return "unknown_ancestor"
	}
	return "other: " + err.Error()
}

// apply executes one call of the specification on the real chain.
func (n *Node) apply(a Act) (Events, string) {
	var err error
	switch a.Op {
	case "InsertChain":
		blks := make(types.Blocks, len(a.Seg))
		for i, b := range a.Seg {
			blks[i] = n.u.blocks[b]
		}
		_, err = n.bc.InsertChain(blks)
	case "InsertNoHead":
		_, err = n.bc.InsertBlockWithoutSetHead(context.Background(), n.u.blocks[a.B], false)
	case "SetCanonical":
		_, err = n.bc.SetCanonical(n.u.blocks[a.B])
	case "SetHead":
		err = n.bc.SetHead(uint64(a.N))
	case "Restart":
		n.bc.Stop()
		n.open()
	default:
		tl.Fatal("unknown op %q", a.Op)
	}
	ev, _ := n.drain()
	return ev, classify(err)
}

// project reads the abstract state of the specification from the database and the chain object.
func (n *Node) project() (State, []string) {
	u, db, bc := n.u, n.db, n.bc
	N := len(u.tree.Parent)
	var odd []string
	st := State{Known: []int{}, HasState: []int{}, Rcpt: []int{}, Canon: make([]int, N), Txl: make([]int, u.tree.Ntx),
		Resolve: make([]int, u.tree.Ntx), DResolve: make([]int, u.tree.Ntx), RResolve: make([]int, u.tree.Ntx)}
	for b := 1; b <= N; b++ {
		h, num := u.blocks[b].Hash(), uint64(u.num[b])
		hasH, hasB := rawdb.HasHeader(db, h, num), rawdb.HasBody(db, h, num)
		if hasH != hasB {
			odd = append(odd, fmt.Sprintf("block %d: header stored=%v body stored=%v", b, hasH, hasB))
		}
		if hasH && hasB {
			st.Known = append(st.Known, b)
		}
		if bc.HasBlock(h, num) != (hasH && hasB) {
			odd = append(odd, fmt.Sprintf("block %d: HasBlock=%v but header/body stored=%v/%v", b, bc.HasBlock(h, num), hasH, hasB))
		}
		if bc.HasState(u.blocks[b].Root()) {
			st.HasState = append(st.HasState, b)
		}
		if rawdb.HasReceipts(db, h, num) {
			st.Rcpt = append(st.Rcpt, b)
		}
	}
	for i := 1; i <= N; i++ {
		st.Canon[i-1] = u.id(rawdb.ReadCanonicalHash(db, uint64(i)))
		if m := u.id(bc.GetCanonicalHash(uint64(i))); m != st.Canon[i-1] {
			odd = append(odd, fmt.Sprintf("GetCanonicalHash(%d)=%d but database has %d", i, m, st.Canon[i-1]))
		}
	}
	if g := u.id(rawdb.ReadCanonicalHash(db, 0)); g != 0 {
		odd = append(odd, fmt.Sprintf("canonical hash of number 0 is block %d", g))
	}
	// receipts of the canonical blocks as the chain API serves them (receipts cache)
	st.CLogs = make([][][3]int, N)
	headNum := int(bc.CurrentBlock().Number.Uint64())
	for i := 1; i <= N; i++ {
		st.CLogs[i-1] = [][3]int{}
		if h := rawdb.ReadCanonicalHash(db, uint64(i)); i <= headNum && h != (common.Hash{}) {
			st.CLogs[i-1] = n.receiptLogs(bc.GetReceiptsByHash(h))
		}
	}
	st.Hb, st.Hh, st.Hs = u.id(rawdb.ReadHeadBlockHash(db)), u.id(rawdb.ReadHeadHeaderHash(db)), u.id(rawdb.ReadHeadFastBlockHash(db))
	if m := u.id(bc.CurrentBlock().Hash()); m != st.Hb {
		odd = append(odd, fmt.Sprintf("CurrentBlock=%d but stored head block=%d", m, st.Hb))
	}
	if m := u.id(bc.CurrentHeader().Hash()); m != st.Hh {
		odd = append(odd, fmt.Sprintf("CurrentHeader=%d but stored head header=%d", m, st.Hh))
	}
	if m := u.id(bc.CurrentSnapBlock().Hash()); m != st.Hs {
		odd = append(odd, fmt.Sprintf("CurrentSnapBlock=%d but stored head fast block=%d", m, st.Hs))
	}
	for t := 1; t <= u.tree.Ntx; t++ {
		h := u.txs[t].Hash()
		st.Txl[t-1], st.Resolve[t-1], st.DResolve[t-1], st.RResolve[t-1] = -1, -1, -1, -1
		if e := rawdb.ReadTxLookupEntry(db, h); e != nil {
			st.Txl[t-1] = int(*e)
		}
		if lk, tx := bc.GetCanonicalTransaction(h); lk != nil {
			st.Resolve[t-1] = u.id(lk.BlockHash)
			if tx == nil || tx.Hash() != h {
				odd = append(odd, fmt.Sprintf("GetCanonicalTransaction(tx %d) returned another transaction", t))
			}
			if b := st.Resolve[t-1]; b > 0 && (u.num[b] != int(lk.BlockIndex) || int(lk.Index) >= len(u.tree.Txs[b-1]) || u.tree.Txs[b-1][lk.Index] != t) {
				odd = append(odd, fmt.Sprintf("GetCanonicalTransaction(tx %d): position (%d,%d) is wrong for block %d", t, lk.BlockIndex, lk.Index, b))
			}
		}
		if tx, bh, _, _ := rawdb.ReadCanonicalTransaction(db, h); tx != nil {
			st.DResolve[t-1] = u.id(bh)
		}
		if r, bh, _, _ := rawdb.ReadCanonicalReceipt(db, h, bc.Config()); r != nil {
			st.RResolve[t-1] = u.id(bh)
		}
	}
	st.Tail = -1
	if tail := rawdb.ReadTxIndexTail(db); tail != nil {
		st.Tail = int(*tail)
	}
	sort.Ints(st.Known)
	sort.Ints(st.HasState)
	sort.Ints(st.Rcpt)
	return st, odd
}

func normalize(s *State) {
	if s.Known == nil {
		s.Known = []int{}
	}
	if s.HasState == nil {
		s.HasState = []int{}
	}
	if s.Rcpt == nil {
		s.Rcpt = []int{}
	}
	sort.Ints(s.Known)
	sort.Ints(s.HasState)
	sort.Ints(s.Rcpt)
	if s.Ev.Chain == nil {
		s.Ev.Chain = []int{}
	}
	if s.Ev.Head == nil {
		s.Ev.Head = []int{}
	}
	if s.Ev.Rm == nil {
		s.Ev.Rm = [][][3]int{}
	}
	if s.Ev.Logs == nil {
		s.Ev.Logs = [][][3]int{}
	}
	if s.Ev.CRcpt == nil {
		s.Ev.CRcpt = [][][3]int{}
	}
	for i := range s.Ev.CRcpt {
		if s.Ev.CRcpt[i] == nil {
			s.Ev.CRcpt[i] = [][3]int{}
		}
	}
	if s.CLogs == nil {
		s.CLogs = [][][3]int{}
	}
	for i := range s.CLogs {
		if s.CLogs[i] == nil {
			s.CLogs[i] = [][3]int{}
		}
	}
	if s.Canon == nil {
		s.Canon = []int{}
	}
	if s.Txl == nil {
		s.Txl = []int{}
	}
	if s.Resolve == nil {
		s.Resolve = []int{}
	}
	if s.DResolve == nil {
		s.DResolve = []int{}
	}
	if s.RResolve == nil {
		s.RResolve = []int{}
	}
}

func diff(want, got State) []string {
	var d []string
	wv, gv := reflect.ValueOf(want), reflect.ValueOf(got)
	for i := 0; i < wv.NumField(); i++ {
		if !reflect.DeepEqual(wv.Field(i).Interface(), gv.Field(i).Interface()) {
			d = append(d, fmt.Sprintf("%s: specification %v, implementation %v", wv.Type().Field(i).Tag.Get("json"), wv.Field(i).Interface(), gv.Field(i).Interface()))
		}
	}
	return d
}

// ---------------------------------------------------------------- R: replay

func runReplay(in string, sum *tl.Summary) {
	var bs []Behaviour
	tl.ReadJSON(in, &bs)
	seen := map[string]bool{}
	for bi, b := range bs {
		u := buildUniverse(b.Tree)
		n := newNode(u, b.Scheme)
		sum.Evaluations++
		for si, s := range b.Steps {
			if os.Getenv("VERIF_DEBUG") != "" {
				fmt.Fprintf(os.Stderr, "behaviour %d %s %v: %s\n", bi, b.Scheme, b.Tree.Parent, describe(b.Steps[:si+1]))
			}
			ev, errc := n.apply(s.Act)
			got, odd := n.project()
			got.Ev, got.Err = ev, errc
			want := s.St
			normalize(&want)
			normalize(&got)
			sum.Steps++
			sum.Count(s.Act.Op)
			k, _ := json.Marshal([]any{b.Tree, b.Scheme, b.Steps[:si+1]})
			if h := string(crypto.Keccak256(k)); !seen[h] {
				seen[h] = true
				sum.Distinct++
			}
			d := diff(want, got)
			d = append(d, odd...)
			if len(d) > 0 {
				sum.Violate(fmt.Sprintf("%s scheme, tree %v: after %v (step %d) %s", b.Scheme, b.Tree.Parent, describe(b.Steps[:si+1]), si+1, d[0]),
					tl.M{"behaviour": bi, "tree": b.Tree, "scheme": b.Scheme, "steps": b.Steps[:si+1], "got": got, "diff": d})
				break
			}
		}
		if bi%97 == 0 {
			sum.Sample(tl.M{"tree": b.Tree.Parent, "scheme": b.Scheme, "calls": describe(b.Steps)})
		}
		n.close()
	}
	sum.Rule = "each TLC behaviour (tree, scheme, call sequence) is executed on a fresh core.BlockChain and the projected state + events are compared after every call; distinct = distinct (tree, scheme, call prefix)"
}

func describe(steps []Step) string {
	s := ""
	for i, st := range steps {
		if i > 0 {
			s += " "
		}
		switch st.Act.Op {
		case "InsertChain":
			s += fmt.Sprintf("InsertChain%v", st.Act.Seg)
		case "InsertNoHead", "SetCanonical":
			s += fmt.Sprintf("%s(%d)", st.Act.Op, st.Act.B)
		case "SetHead":
			s += fmt.Sprintf("SetHead(%d)", st.Act.N)
		default:
			s += st.Act.Op
		}
	}
	return s
}

// ---------------------------------------------------------------- V: record

func randomTree(r interface{ Intn(int) int }, nblocks, ntx int) Tree {
	t := Tree{Parent: make([]int, nblocks), Txs: make([][]int, nblocks), Ntx: ntx}
	used := make([]map[int]bool, nblocks+1)
	used[0] = map[int]bool{}
	depth := make([]int, nblocks+1)
	tip := 0 // tip of the main line
	for b := 1; b <= nblocks; b++ {
		var p int
		switch r.Intn(10) {
		case 0, 1, 2, 3, 4:
			p = tip
		case 5, 6:
			p = t.Parent[max(tip, 1)-1] // competitor of the tip (equal height)
			if tip == 0 {
				p = 0
			}
		default:
			p = r.Intn(b)
		}
		t.Parent[b-1] = p
		depth[b] = depth[p] + 1
		if depth[b] > depth[tip] {
			tip = b
		}
		used[b] = map[int]bool{}
		for k := range used[p] {
			used[b][k] = true
		}
		t.Txs[b-1] = []int{}
		for k := r.Intn(3); k > 0 && ntx > 0; k-- {
			tx := 1 + r.Intn(ntx)
			if !used[b][tx] {
				used[b][tx] = true
				t.Txs[b-1] = append(t.Txs[b-1], tx)
			}
		}
	}
	return t
}

// recoverImage opens a BlockChain on a crash image (a copy of the key-value store taken in the
// middle of a call), projects the recovered state, then imports the blocks up to the head the
// completed call reached on the live node and reports whether that yields the same head, number
// index and available head state ("heal").
func (n *Node) recoverImage(img *memorydb.Database, live State) (State, tl.M) {
	rn := &Node{u: n.u, scheme: n.scheme, kv: &imageKV{KeyValueStore: img}}
	rn.db = rawdb.NewDatabase(rn.kv)
	rn.open()
	rec, _ := rn.project()
	rec.Ev, rec.Err = Events{Chain: []int{}, CRcpt: [][][3]int{}, Head: []int{}, Rm: [][][3]int{}, Logs: [][][3]int{}}, "none"
	normalize(&rec)
	heal := tl.M{"target": live.Hb, "err": "none", "hb": -1, "hh": -1, "canonok": false, "state": false, "stop": "ok"}
	if live.Hb > 0 {
		var path []int
		for b := live.Hb; b != 0; b = n.u.tree.Parent[b-1] {
			path = append([]int{b}, path...)
		}
		blks := make(types.Blocks, len(path))
		for i, b := range path {
			blks[i] = n.u.blocks[b]
		}
		_, err := rn.bc.InsertChain(blks)
		heal["err"] = classify(err)
		rn.drain()
		after, _ := rn.project()
		heal["hb"], heal["hh"] = after.Hb, after.Hh
		ok := true
		for i, b := range path {
			if after.Canon[i] != b {
				ok = false
			}
		}
		heal["canonok"] = ok
		heal["state"] = rn.bc.HasState(n.u.blocks[live.Hb].Root())
	} else {
		heal["hb"], heal["hh"], heal["canonok"], heal["state"] = rec.Hb, rec.Hh, true, true
	}
	// A clean shutdown of the recovered node: Stop commits the head state and the state of the
	// canonical block below it (hash scheme) and dereferences a nil block when the number index
	// has a hole there; reported as an observation, the process must survive.
	heal["stop"] = func() (res string) {
		defer func() {
			if r := recover(); r != nil {
				res = fmt.Sprintf("panic: %v", r)
				rn.bc.VerifStopWithoutSaving()
			}
		}()
		rn.bc.Stop()
		return "ok"
	}()
	return rec, heal
}

var crashEvery int

// applyWithImages runs a call while copying the key-value store after each of its writes, then
// reopens every intermediate copy as after a crash and emits one CrashIn event per image (before
// the event of the completed call: the specification is still in the state before the call).
func (n *Node) applyWithImages(a Act, tr *tl.Trace, sum *tl.Summary) (Events, string, State, []string) {
	n.kv.images, n.kv.max, n.kv.armed = nil, 16, true
	ev, errc := n.apply(a)
	n.kv.armed = false
	got, odd := n.project()
	got.Ev, got.Err = ev, errc
	normalize(&got)
	imgs := n.kv.images
	n.kv.images = nil
	if len(imgs) > 0 {
		imgs = imgs[:len(imgs)-1] // the last image is the completed call
	}
	for k, img := range imgs {
		rec, heal := n.recoverImage(img, got)
		sum.Count("CrashIn")
		tr.Emit(tl.M{"op": "CrashIn", "act": tl.M{"op": a.Op, "seg": orEmpty(a.Seg), "b": a.B, "n": a.N}, "k": k + 1, "st": rec, "heal": heal})
	}
	return ev, errc, got, odd
}

func runRecord(path string, seed int64, ntraces, steps, nblocks, ntx int, sum *tl.Summary) {
	r := tl.Rand(seed)
	tr := tl.NewTrace(path)
	defer tr.Close()
	shapes := map[string]bool{}
	for ti := 0; ti < ntraces; ti++ {
		nb := 3 + r.Intn(nblocks-2)
		t := randomTree(r, nb, ntx)
		u := buildUniverse(t)
		scheme := []string{rawdb.HashScheme, rawdb.PathScheme}[r.Intn(2)]
		n := newNode(u, scheme)
		st0, _ := n.project()
		st0.Ev, st0.Err = Events{Chain: []int{}, CRcpt: [][][3]int{}, Head: []int{}, Rm: [][][3]int{}, Logs: [][][3]int{}}, "none"
		tr.Emit(tl.M{"op": "reset", "tree": t, "scheme": scheme, "st": st0})
		children := make([][]int, nb+1)
		for b := 1; b <= nb; b++ {
			children[t.Parent[b-1]] = append(children[t.Parent[b-1]], b)
		}
		var calls []Step
		for s := 0; s < steps; s++ {
			var a Act
			switch x := r.Intn(20); {
			case x < 9:
				// a parent-linked batch starting anywhere (known, unknown parent, side branch)
				b := 1 + r.Intn(nb)
				if r.Intn(3) > 0 {
					// prefer batches that start on stored data
					st, _ := n.project()
					cands := []int{}
					for c := 1; c <= nb; c++ {
						if p := t.Parent[c-1]; p == 0 || contains(st.Known, p) {
							cands = append(cands, c)
						}
					}
					if len(cands) > 0 {
						b = cands[r.Intn(len(cands))]
					}
				}
				seg := []int{b}
				for len(children[b]) > 0 && r.Intn(3) > 0 {
					b = children[b][r.Intn(len(children[b]))]
					seg = append(seg, b)
				}
				a = Act{Op: "InsertChain", Seg: seg}
			case x < 12:
				a = Act{Op: "InsertNoHead", B: 1 + r.Intn(nb)}
			case x < 15:
				st, _ := n.project()
				if len(st.Known) == 0 {
					continue
				}
				a = Act{Op: "SetCanonical", B: st.Known[r.Intn(len(st.Known))]}
			case x < 18:
				a = Act{Op: "SetHead", N: r.Intn(nb + 1)}
				if r.Intn(2) == 0 {
					a.N = r.Intn(int(n.bc.CurrentHeader().Number.Uint64()) + 1)
				}
			default:
				a = Act{Op: "Restart"}
			}
			var got State
			var odd []string
			if crashEvery > 0 && a.Op != "Restart" && r.Intn(crashEvery) == 0 {
				_, _, got, odd = n.applyWithImages(a, tr, sum)
			} else {
				ev, errc := n.apply(a)
				got, odd = n.project()
				got.Ev, got.Err = ev, errc
				normalize(&got)
			}
			calls = append(calls, Step{Act: a, St: got})
			sum.Steps++
			sum.Count(a.Op)
			if len(odd) > 0 {
				sum.Violate(fmt.Sprintf("%s scheme, tree %v: after %s: %s", scheme, t.Parent, describe(calls), odd[0]),
					tl.M{"tree": t, "scheme": scheme, "steps": calls, "odd": odd})
			}
			tr.Emit(tl.M{"op": a.Op, "seg": orEmpty(a.Seg), "b": a.B, "n": a.N, "st": got})
		}
		k, _ := json.Marshal([]any{t, scheme})
		if !shapes[string(k)] {
			shapes[string(k)] = true
			sum.Distinct++
		}
		sum.Evaluations++
		sum.Traces++
		if ti%50 == 0 {
			sum.Sample(tl.M{"tree": t.Parent, "scheme": scheme, "calls": describe(calls)})
		}
		n.close()
	}
	sum.Rule = "random trees (main line, equal-height competitors, random fork points, shared transactions) and random call sequences incl. restarts on core.BlockChain; distinct = distinct (tree, scheme)"
}

// runScenario executes hand-written call sequences (the candidate findings of NOTES.md) and
// records them like runRecord does.
func runScenario(in, path string, sum *tl.Summary) {
	var scs []struct {
		Name   string `json:"name"`
		Tree   Tree   `json:"tree"`
		Scheme string `json:"scheme"`
		Calls  []Act  `json:"calls"`
	}
	tl.ReadJSON(in, &scs)
	tr := tl.NewTrace(path)
	defer tr.Close()
	for _, sc := range scs {
		u := buildUniverse(sc.Tree)
		n := newNode(u, sc.Scheme)
		st0, _ := n.project()
		st0.Ev, st0.Err = Events{Chain: []int{}, CRcpt: [][][3]int{}, Head: []int{}, Rm: [][][3]int{}, Logs: [][][3]int{}}, "none"
		tr.Emit(tl.M{"op": "reset", "tree": sc.Tree, "scheme": sc.Scheme, "st": st0})
		for _, a := range sc.Calls {
			var got State
			if a.CrashIn {
				_, _, got, _ = n.applyWithImages(a, tr, sum)
			} else {
				ev, errc := n.apply(a)
				got, _ = n.project()
				got.Ev, got.Err = ev, errc
				normalize(&got)
			}
			sum.Steps++
			sum.Count(a.Op)
			tr.Emit(tl.M{"op": a.Op, "seg": orEmpty(a.Seg), "b": a.B, "n": a.N, "st": got})
		}
		sum.Evaluations++
		sum.Traces++
		n.close()
	}
}

func contains(s []int, x int) bool {
	for _, y := range s {
		if y == x {
			return true
		}
	}
	return false
}

func orEmpty(s []int) []int {
	if s == nil {
		return []int{}
	}
	return s
}

func main() {
	mode := flag.String("mode", "replay", "replay|record|scenario")
	in := flag.String("in", "", "behaviours (JSON array) for replay")
	trace := flag.String("trace", "", "ndjson trace output (record)")
	out := flag.String("out", "", "summary output")
	ntr := flag.Int("n", 50, "number of traces (record)")
	steps := flag.Int("steps", 12, "calls per trace (record)")
	nblocks := flag.Int("blocks", 7, "max blocks per tree (record)")
	ntx := flag.Int("ntx", 3, "transactions in the universe (record)")
	flag.IntVar(&crashEvery, "crashin", 0, "record: take crash images inside every n-th call on average (0 = never)")
	flag.Parse()
	seed := int64(tl.EnvInt("VERIF_SEED", 1))
	sum := tl.NewSummary("c38", *mode, seed)
	switch *mode {
	case "replay":
		runReplay(*in, sum)
	case "record":
		runRecord(*trace, seed, *ntr, *steps, *nblocks, *ntx, sum)
	case "scenario":
		runScenario(*in, *trace, sum)
	default:
		tl.Fatal("unknown mode %s", *mode)
	}
	if *out != "" {
		sum.Write(*out)
	}
	if len(sum.Violations) > 0 {
		os.Exit(1)
	}
}
