// c19 drives the history index of triedb/pathdb (indexWriter, indexDeleter, indexReader,
// iterators, indexPruner.pruneEntry) for property C19 and records every call as an ndjson
// event that spec/state/HistIndexTrace.tla validates with the real layout constants.
//
//	-mode plan   -in plans.json -trace t.ndjson -bitmap N   execute TLC-generated behaviours (R)
//	-mode record -trace t.ndjson -bitmap N -n K -steps S    seeded boundary-seeking scenarios (V)
//
// The driver never judges set semantics itself (that is the trace specification's job); it
// reports only what no trace can express: panics, non-termination guards, and disagreement
// between different read paths of the implementation on the same stored bytes.
package main

import (
	"flag"
	"fmt"
	"math"
	"math/rand"
	"os"
	"sort"

	"github.com/ethereum/go-ethereum/common"
	"github.com/ethereum/go-ethereum/core/rawdb"
	"github.com/ethereum/go-ethereum/ethdb"
	"github.com/ethereum/go-ethereum/triedb/pathdb"
	tl "verif/harness/tracelib"
)

type item struct {
	ID  uint64   `json:"id"`
	Ext []uint16 `json:"ext"`
}

type descJ struct {
	ID      uint32 `json:"id"`
	Max     uint64 `json:"max"`
	Entries int    `json:"entries"`
	Bm      []int  `json:"bm"`
}

type sessJ struct {
	Descs    []descJ  `json:"descs"`
	Last     uint64   `json:"last"`
	Dlen     int      `json:"dlen"`
	Restarts []int    `json:"restarts"`
	Frozen   int      `json:"frozen"`
	Dropped  []uint32 `json:"dropped"`
}

func bits(b []byte) []int {
	out := []int{}
	for i := 0; i < len(b)*8; i++ {
		if b[i/8]&(1<<(7-i%8)) != 0 {
			out = append(out, i)
		}
	}
	return out
}

func descs(in []pathdb.VerifDesc) []descJ {
	out := make([]descJ, len(in))
	for i, d := range in {
		out[i] = descJ{d.ID, d.Max, int(d.Entries), bits(d.Bitmap)}
	}
	return out
}

// index is one real history index under test.
type index struct {
	db    ethdb.Database
	ident pathdb.VerifIdent
	bsize int
	w     *pathdb.VerifIndexWriter
	d     *pathdb.VerifIndexDeleter
	tr    *tl.Trace
	sum   *tl.Summary
	r     *rand.Rand
	style int // extension style: 0 random lists, 1 uniform list with a distinctive id on every section start
}

func newIndex(bsize int, tr *tl.Trace, sum *tl.Summary, r *rand.Rand, n int) *index {
	ix := &index{db: rawdb.NewMemoryDatabase(), bsize: bsize, tr: tr, sum: sum, r: r, style: n % 2}
	h := common.BigToHash(common.Big1)
	h[0] = byte(n)
	switch {
	case bsize == 0 && n%2 == 0:
		ix.ident = pathdb.VerifAccountIdent(h)
	case bsize == 0:
		ix.ident = pathdb.VerifStorageIdent(h, common.Hash{0x77})
	default:
		ix.ident = pathdb.VerifTrienodeIdent(h, "\x01\x02")
	}
	tr.Emit(tl.M{"op": "reset"})
	return ix
}

func (ix *index) sess() sessJ {
	var (
		ds   []pathdb.VerifDesc
		live pathdb.VerifBlockWriterState
		s    sessJ
	)
	if ix.w != nil {
		ds, live = ix.w.Descs(), ix.w.Live()
		s.Last, s.Frozen, s.Dropped = ix.w.LastID(), ix.w.Frozen(), []uint32{}
	} else {
		ds, live = ix.d.Descs(), ix.d.Live()
		s.Last, s.Dropped = ix.d.LastID(), ix.d.Dropped()
		if s.Dropped == nil {
			s.Dropped = []uint32{}
		}
	}
	s.Descs = descs(ds)
	s.Dlen = live.DataLen
	s.Restarts = []int{}
	for _, x := range live.Restarts {
		s.Restarts = append(s.Restarts, int(x))
	}
	return s
}

func (ix *index) meta() []descJ {
	blob := pathdb.VerifReadIndexMeta(ix.db, ix.ident)
	if len(blob) == 0 {
		return []descJ{}
	}
	ds, err := pathdb.VerifParseIndex(blob, ix.bsize)
	if err != nil {
		ix.sum.Violate(fmt.Sprintf("stored index metadata does not parse: %v", err), tl.M{"blob": blob})
		return []descJ{}
	}
	return descs(ds)
}

func (ix *index) open(kind string, limit uint64) bool {
	var err error
	ix.w, ix.d = nil, nil
	if kind == "writer" {
		ix.w, err = pathdb.VerifNewIndexWriter(ix.db, ix.ident, limit, ix.bsize)
	} else {
		ix.d, err = pathdb.VerifNewIndexDeleter(ix.db, ix.ident, limit, ix.bsize)
	}
	if err != nil {
		ix.w, ix.d = nil, nil
		ix.sum.Violate(fmt.Sprintf("open %s(limit=%d) failed on an index written by the implementation: %v", kind, limit, err), tl.M{"kind": kind, "limit": limit})
		return false
	}
	ix.tr.Emit(tl.M{"op": "open", "kind": kind, "limit": limit, "st": ix.sess()})
	ix.sum.Count("open-" + kind)
	return true
}

func cloneExt(e []uint16) []uint16 {
	out := make([]uint16, len(e))
	copy(out, e)
	return out
}

// appendItems appends a batch; the successful prefix becomes one "append" event, the first
// failing element an "appendFail" event (the writer is unchanged by a rejected append).
func (ix *index) appendItems(items []item) {
	done := []item{}
	for _, it := range items {
		if it.Ext == nil {
			it.Ext = ix.extFor(int(ix.w.Live().Desc.Entries))
		}
		logged := item{it.ID, cloneExt(it.Ext)}
		err := ix.w.Append(it.ID, cloneExt(it.Ext)) // append sorts its argument in place
		if err != nil {
			if len(done) > 0 {
				ix.tr.Emit(tl.M{"op": "append", "items": done, "st": ix.sess()})
				done = []item{}
			}
			ix.tr.Emit(tl.M{"op": "appendFail", "id": it.ID, "ext": logged.Ext})
			ix.sum.Count("appendFail")
			continue
		}
		done = append(done, logged)
		ix.sum.Count("append")
		if len(done) >= 1000 { // keep the events small enough for the validator's recursion depth
			ix.tr.Emit(tl.M{"op": "append", "items": done, "st": ix.sess()})
			done = []item{}
		}
	}
	if len(done) > 0 {
		ix.tr.Emit(tl.M{"op": "append", "items": done, "st": ix.sess()})
	}
}

func (ix *index) pop(ids []uint64) {
	done := []uint64{}
	for _, id := range ids {
		if err := ix.d.Pop(id); err != nil {
			if len(done) > 0 {
				ix.tr.Emit(tl.M{"op": "pop", "ids": done, "st": ix.sess()})
				done = []uint64{}
			}
			ix.tr.Emit(tl.M{"op": "popFail", "id": id})
			ix.sum.Count("popFail")
			continue
		}
		done = append(done, id)
		ix.sum.Count("pop")
		if len(done) >= 1000 {
			ix.tr.Emit(tl.M{"op": "pop", "ids": done, "st": ix.sess()})
			done = []uint64{}
		}
	}
	if len(done) > 0 {
		ix.tr.Emit(tl.M{"op": "pop", "ids": done, "st": ix.sess()})
	}
}

func (ix *index) finish() {
	batch := ix.db.NewBatch()
	if ix.w != nil {
		ix.w.Finish(batch)
	} else {
		ix.d.Finish(batch)
	}
	if err := batch.Write(); err != nil {
		tl.Fatal("batch write: %v", err)
	}
	ix.tr.Emit(tl.M{"op": "finish", "st": ix.sess(), "meta": ix.meta()})
	ix.sum.Count("finish")
}

func (ix *index) close() {
	ix.w, ix.d = nil, nil
	ix.tr.Emit(tl.M{"op": "close"})
}

func (ix *index) prune(tail uint64) {
	blob := pathdb.VerifReadIndexMeta(ix.db, ix.ident)
	if len(blob) == 0 {
		return // the pruner only visits existing metadata entries
	}
	batch := ix.db.NewBatch()
	n, err := pathdb.VerifPruneEntry(batch, ix.ident, blob, ix.bsize, tail)
	if err != nil {
		ix.sum.Violate(fmt.Sprintf("pruneEntry(tail=%d) failed: %v", tail, err), tl.M{"tail": tail})
		return
	}
	if err := batch.Write(); err != nil {
		tl.Fatal("batch write: %v", err)
	}
	ix.tr.Emit(tl.M{"op": "prune", "tail": tail, "pruned": n, "meta": ix.meta()})
	ix.sum.Count("prune")
}

// guard runs fn and converts a panic of the implementation into a violation (C19: corrupted
// or unusual index data must be rejected without panic).
func (ix *index) guard(what string, ctx tl.M, fn func()) {
	defer func() {
		if p := recover(); p != nil {
			ix.sum.Violate(fmt.Sprintf("implementation panicked in %s: %v", what, p), ctx)
		}
	}()
	fn()
}

func (ix *index) reader() *pathdb.VerifIndexReader {
	r, err := pathdb.VerifNewIndexReader(ix.db, ix.ident, ix.bsize)
	if err != nil {
		ix.sum.Violate(fmt.Sprintf("index written by the implementation cannot be reopened: %v", err), tl.M{"meta": pathdb.VerifReadIndexMeta(ix.db, ix.ident)})
		return nil
	}
	return r
}

// read = reopen from the stored bytes, SeekGT(q) with filter f (-1: none).
func (ix *index) read(q uint64, f int) {
	r := ix.reader()
	if r == nil {
		return
	}
	res := int64(-1)
	if f < 0 {
		v, err := r.ReadGreaterThan(q)
		if err != nil {
			ix.sum.Violate(fmt.Sprintf("readGreaterThan(%d) failed: %v", q, err), tl.M{"q": q})
			return
		}
		if v != math.MaxUint64 {
			res = int64(v)
		}
		// the iterator path must agree with readGreaterThan
		it := r.NewIterator(-1)
		if ok := it.SeekGT(q); ok != (res >= 0) || (ok && int64(it.ID()) != res) {
			ix.sum.Violate(fmt.Sprintf("readGreaterThan(%d)=%d but iterator SeekGT gives (%v,%d)", q, res, ok, it.ID()), tl.M{"q": q})
		}
	} else {
		it := r.NewIterator(f)
		if it.SeekGT(q) {
			res = int64(it.ID())
		}
		if err := it.Error(); err != nil {
			ix.sum.Violate(fmt.Sprintf("filtered SeekGT(%d, filter %d) failed: %v", q, f, err), tl.M{"q": q, "f": f})
			return
		}
	}
	ix.tr.Emit(tl.M{"op": "read", "q": q, "f": f, "res": res})
	ix.sum.Count("read")
}

// iter = reopen from the stored bytes, iterate (from the start with Next, or after SeekGT(q)).
func (ix *index) iter(q int64, f int) {
	r := ix.reader()
	if r == nil {
		return
	}
	it := r.NewIterator(f)
	ids := []uint64{}
	drained := false
	if q < 0 {
		for it.Next() {
			ids = append(ids, it.ID())
		}
		drained = true
	} else if it.SeekGT(uint64(q)) {
		ids = append(ids, it.ID())
		for it.Next() {
			ids = append(ids, it.ID())
		}
		drained = true
	}
	if err := it.Error(); err != nil {
		ix.sum.Violate(fmt.Sprintf("iteration (seek %d, filter %d) failed: %v", q, f, err), tl.M{"q": q, "f": f})
		return
	}
	if drained && it.Next() { // (a failed SeekGT does not exhaust the iterator, a failed Next does)
		ix.sum.Violate("iterator yields an element after Next reported exhaustion", tl.M{"q": q, "f": f})
	}
	ix.tr.Emit(tl.M{"op": "iter", "q": q, "f": f, "ids": ids})
	ix.sum.Count("iter")
}

func ints(b []byte) []int {
	out := make([]int, len(b))
	for i, x := range b {
		out[i] = int(x)
	}
	return out
}

// block logs the stored bytes of one block (compared with the specification's encoding).
func (ix *index) block(id uint32, maxLen int) {
	blob := pathdb.VerifReadIndexBlock(ix.db, ix.ident, id)
	if len(blob) == 0 || len(blob) > maxLen {
		return
	}
	ix.tr.Emit(tl.M{"op": "block", "id": id, "bytes": ints(blob)})
	ix.sum.Count("block")
}

// corrupt takes a stored block, damages it, and checks: parseIndexBlock's accept/reject is
// logged for the specification (ParseOK); whatever is accepted must be traversable without
// panic and must terminate.
func (ix *index) corrupt(id uint32, maxLen int) {
	blob := pathdb.VerifReadIndexBlock(ix.db, ix.ident, id)
	if len(blob) == 0 || len(blob) > maxLen {
		return
	}
	mut := common.CopyBytes(blob)
	switch ix.r.Intn(6) {
	case 0: // flip one bit anywhere
		p := ix.r.Intn(len(mut))
		mut[p] ^= 1 << uint(ix.r.Intn(8))
	case 1: // change the restart count
		mut[len(mut)-1] = byte(ix.r.Intn(256))
	case 2: // truncate
		mut = mut[:ix.r.Intn(len(mut))]
	case 3: // damage a restart pointer
		if len(mut) >= 3 {
			p := len(mut) - 2 - ix.r.Intn(2)
			mut[p] = byte(ix.r.Intn(256))
		}
	case 4: // random byte
		mut[ix.r.Intn(len(mut))] = byte(ix.r.Intn(256))
	case 5: // append garbage
		mut = append(mut, byte(ix.r.Intn(256)))
	}
	ctx := tl.M{"bytes": ints(mut), "bitmap": ix.bsize}
	var perr error
	ix.guard("parseIndexBlock", ctx, func() { _, _, perr = pathdb.VerifParseIndexBlock(mut) })
	if len(mut) > 0 {
		ix.tr.Emit(tl.M{"op": "parse", "bytes": ints(mut), "ok": perr == nil})
	}
	ix.sum.Count("parse")
	if perr != nil {
		return
	}
	for _, f := range []int{-1, 0, 1} {
		if f >= 0 && ix.bsize == 0 {
			continue
		}
		ix.guard("block iteration over damaged bytes", ctx, func() {
			it, err := pathdb.VerifBlockIterator(mut, ix.bsize != 0, f)
			if err != nil {
				return
			}
			n := 0
			for it.Next() {
				if n++; n > 1<<20 {
					ix.sum.Violate("iteration over a damaged block does not terminate", ctx)
					return
				}
			}
			it.SeekGT(uint64(ix.r.Intn(1 << 20)))
			pathdb.VerifBlockReadGreaterThan(mut, ix.bsize != 0, 0)
		})
	}
}

// stored returns the currently stored ids (used only to choose interesting inputs).
func (ix *index) stored() []uint64 {
	r, err := pathdb.VerifNewIndexReader(ix.db, ix.ident, ix.bsize)
	if err != nil {
		return nil
	}
	it := r.NewIterator(-1)
	var ids []uint64
	for it.Next() {
		ids = append(ids, it.ID())
	}
	return ids
}

// extFor chooses the extension of the element appended to a live block holding `entries`
// elements.  Style 1 keeps the descriptor bitmap sparse: every element carries {1} except the
// first element of a restart section, which carries an id of its own - so that removing a
// section start must change the bitmap.
func (ix *index) extFor(entries int) []uint16 {
	if ix.bsize == 0 {
		return []uint16{}
	}
	if ix.style == 1 {
		if entries%256 == 0 {
			max := 15
			if ix.bsize == 34 {
				max = 271
			}
			return []uint16{uint16(2 + (entries/256)%max)} // distinct for the sections of one block
		}
		return []uint16{1}
	}
	return ix.randExt()
}

func (ix *index) randExt() []uint16 {
	if ix.bsize == 0 {
		return []uint16{}
	}
	maxID := 16
	if ix.bsize == 34 {
		maxID = 272
	}
	n := 1 + ix.r.Intn(4)
	if ix.r.Intn(8) == 0 {
		n = 1 + ix.r.Intn(24)
	}
	ext := make([]uint16, n)
	for i := range ext {
		switch ix.r.Intn(5) {
		case 0:
			ext[i] = uint16(ix.r.Intn(3)) // 0 (root), 1, 2
		case 1:
			ext[i] = uint16(maxID - ix.r.Intn(2))
		default:
			ext[i] = uint16(ix.r.Intn(maxID + 1))
		}
	}
	return ext
}

func (ix *index) filters() []int {
	if ix.bsize == 0 {
		return []int{-1}
	}
	fs := []int{-1, 0, 1 + ix.r.Intn(16)}
	if ix.bsize == 34 {
		fs = append(fs, 17+ix.r.Intn(256))
	}
	return fs
}

const maxID = 2_000_000_000 // TLC integers are 32 bit

var shapes = map[string]int{}

// observe reads back through every read path after a durable change.
func (ix *index) observe(full bool) {
	ids := ix.stored()
	qs := []uint64{0}
	if len(ids) > 0 {
		qs = append(qs, ids[0]-1, ids[0], ids[len(ids)-1]-1, ids[len(ids)-1], ids[len(ids)-1]+1)
		for i := 0; i < 4; i++ {
			p := ix.r.Intn(len(ids))
			qs = append(qs, ids[p], ids[p]-1)
		}
		// around restart-section and block boundaries
		for _, b := range []int{255, 256, 257, 511, 512} {
			if b < len(ids) {
				qs = append(qs, ids[b]-1, ids[b])
			}
		}
		for _, d := range ix.meta() {
			qs = append(qs, d.Max-1, d.Max, d.Max+1)
		}
	}
	fs := ix.filters()
	for _, q := range qs {
		ix.read(q, fs[ix.r.Intn(len(fs))])
	}
	ix.read(qs[ix.r.Intn(len(qs))], -1)
	if full || len(ids) <= 600 {
		for _, f := range fs {
			ix.iter(-1, f)
		}
	}
	if len(ids) > 0 {
		ix.iter(int64(ids[ix.r.Intn(len(ids))]), fs[ix.r.Intn(len(fs))])
		// seek onto the last element of a restart section / of a block, then continue with Next
		cands := []int{}
		for _, b := range []int{255, 511, 767} {
			if b < len(ids) {
				cands = append(cands, b)
			}
		}
		pos := 0
		for _, d := range ix.meta() {
			pos += d.Entries
			if pos-1 < len(ids) {
				cands = append(cands, pos-1)
			}
		}
		if len(cands) > 0 {
			b := cands[ix.r.Intn(len(cands))]
			start := b + 300
			if start >= len(ids) {
				start = len(ids) - 1
			}
			_ = start
			ix.iterN(int64(ids[b]-1), fs[0], 3)
		}
	}
}

// iterN = SeekGT(q) followed by at most n Next calls (prefix of the expected iteration).
func (ix *index) iterN(q int64, f int, n int) {
	r := ix.reader()
	if r == nil {
		return
	}
	it := r.NewIterator(f)
	ids := []uint64{}
	if it.SeekGT(uint64(q)) {
		ids = append(ids, it.ID())
		for i := 0; i < n && it.Next(); i++ {
			ids = append(ids, it.ID())
		}
	}
	if err := it.Error(); err != nil {
		ix.sum.Violate(fmt.Sprintf("iteration (seek %d, filter %d) failed: %v", q, f, err), tl.M{"q": q, "f": f})
		return
	}
	ix.tr.Emit(tl.M{"op": "iterN", "q": q, "f": f, "n": n + 1, "ids": ids})
	ix.sum.Count("iterN")
}

// nextIDs produces n ascending ids above base with a seeded mix of gaps (1-byte to 5-byte deltas).
func (ix *index) nextIDs(base uint64, n int) []item {
	out := make([]item, 0, n)
	style := ix.r.Intn(6)
	for i := 0; i < n; i++ {
		var gap uint64 = 1
		switch style {
		case 0:
			gap = 1
		case 1:
			gap = uint64(1 + ix.r.Intn(3))
		case 2:
			gap = uint64(1 + ix.r.Intn(300)) // 1-2 byte deltas
		case 3:
			gap = uint64(1 + ix.r.Intn(40000)) // up to 3 bytes
		case 4:
			if ix.r.Intn(10) == 0 {
				gap = uint64(1 + ix.r.Intn(3000000))
			}
		case 5:
			gap = uint64(127 + ix.r.Intn(3)) // varint length boundary
		}
		if base+gap >= maxID {
			break
		}
		base += gap
		out = append(out, item{base, nil}) // the extension is chosen at append time
	}
	return out
}

// scenario runs one seeded life of an index, steering towards restart-section and block
// boundaries of the real layout (section = 256 elements, block = 4096 data bytes).
func (ix *index) scenario(steps int) {
	shape := ""
	for s := 0; s < steps; s++ {
		ids := ix.stored()
		var top uint64
		if len(ids) > 0 {
			top = ids[len(ids)-1]
		}
		if top > maxID-5_000_000 {
			break
		}
		switch c := ix.r.Intn(10); {
		case c < 6: // writer session
			limit := top + uint64(ix.r.Intn(3))
			if len(ids) > 0 {
				switch ix.r.Intn(8) {
				case 0:
					limit = ids[ix.r.Intn(len(ids))] // trim back to a stored element
				case 1:
					limit = ids[ix.r.Intn(len(ids))] - 1 // ... or just below one
				case 2:
					ds := ix.meta() // just above a block's max: the next block is trimmed to nothing
					limit = ds[ix.r.Intn(len(ds))].Max + uint64(ix.r.Intn(2))
				case 3:
					limit = uint64(ix.r.Intn(int(ids[0]) + 1)) // below everything
				}
			}
			if !ix.open("writer", limit) {
				return
			}
			shape += "W"
			base := limit
			if l := ix.w.LastID(); l > base {
				base = l
			}
			rounds := 1 + ix.r.Intn(3)
			for k := 0; k < rounds; k++ {
				live := ix.w.Live()
				n := 1 + ix.r.Intn(5)
				switch ix.r.Intn(7) {
				case 0, 1: // up to the next restart-section boundary -1/0/+1
					n = 256 - int(live.Desc.Entries)%256 + ix.r.Intn(3) - 1
				case 2, 3: // up to the block rotation -1/0/+1 (assuming ~1-3 bytes per element)
					room := 4096 - live.DataLen
					per := 1
					if ix.bsize != 0 {
						per = 6
					}
					n = room/per + ix.r.Intn(3) - 1
				case 4:
					n = 300 + ix.r.Intn(600)
				}
				if n < 1 {
					n = 1
				}
				if n > 4500 {
					n = 4500
				}
				batch := ix.nextIDs(base, n)
				if len(batch) == 0 {
					break
				}
				ix.appendItems(batch)
				base = batch[len(batch)-1].ID
				if ix.r.Intn(6) == 0 && ix.w.LastID() > 0 { // a non-ascending append must be rejected
					ix.appendItems([]item{{ix.w.LastID() - uint64(ix.r.Intn(2)), ix.randExt()}})
				}
				if ix.r.Intn(4) == 0 {
					ix.finish() // finish is repeatable, the writer stays usable
					ix.observe(false)
				}
			}
			if ix.r.Intn(8) == 0 {
				ix.close() // batch abandoned
				shape += "x"
			} else {
				ix.finish()
				ix.close()
			}
		case c < 8: // deleter session
			if len(ids) == 0 {
				continue
			}
			limit := top + uint64(ix.r.Intn(2))
			if ix.r.Intn(4) == 0 {
				limit = ids[ix.r.Intn(len(ids))] // unclean-shutdown recovery: trim to a stored element
			}
			if !ix.open("deleter", limit) {
				return
			}
			shape += "D"
			live := ix.d.Live()
			n := 1 + ix.r.Intn(5)
			switch ix.r.Intn(7) {
			case 0, 1: // down to a restart-section boundary -1/0/+1
				n = int(live.Desc.Entries)%256 + ix.r.Intn(3) - 1
			case 2, 3: // empty the live block -1/0/+1 (reopens the previous block)
				n = int(live.Desc.Entries) + ix.r.Intn(3) - 1
			case 4:
				n = 200 + ix.r.Intn(700)
			case 5:
				n = len(ids) // everything (+ the failing pop below)
			}
			cur := ix.stored()
			// elements above the limit are gone already
			for len(cur) > 0 && cur[len(cur)-1] > limit {
				cur = cur[:len(cur)-1]
			}
			if n < 1 {
				n = 1
			}
			if n > len(cur) {
				n = len(cur)
			}
			popped := make([]uint64, 0, n)
			for i := 0; i < n; i++ {
				popped = append(popped, cur[len(cur)-1-i])
			}
			ix.pop(popped)
			switch ix.r.Intn(6) { // pops that must be rejected
			case 0:
				ix.pop([]uint64{0})
			case 1:
				ix.pop([]uint64{ix.d.LastID() + 1})
			case 2:
				if l := ix.d.LastID(); l > 1 {
					ix.pop([]uint64{l - 1})
				}
			}
			if ix.r.Intn(8) == 0 {
				ix.close()
				shape += "x"
			} else {
				ix.finish()
				ix.close()
			}
		default: // tail pruning
			ds := ix.meta()
			if len(ds) == 0 {
				continue
			}
			var tail uint64
			switch ix.r.Intn(5) {
			case 0:
				tail = uint64(ix.r.Intn(int(ids[0]) + 2))
			case 1:
				tail = top + uint64(ix.r.Intn(3))
			default:
				tail = ds[ix.r.Intn(len(ds))].Max + uint64(ix.r.Intn(3)) - 1
			}
			if ix.r.Intn(2) == 0 {
				// exactly the maximum of the first block: that block holds an id >= tail and must stay
				ix.prune(ds[0].Max)
				ix.observe(false)
			}
			ix.prune(tail)
			shape += "P"
		}
		ix.observe(ix.r.Intn(3) == 0)
		for _, d := range ix.meta() {
			if ix.r.Intn(3) == 0 {
				ix.block(d.ID, 700+4000*(ix.r.Intn(6)/5))
			}
			if ix.r.Intn(2) == 0 {
				ix.corrupt(d.ID, 400)
			}
		}
	}
	ix.epilogue()
	shapes[shape]++
}

// epilogue visits, in every scenario, the three boundary situations a random life may miss:
// a pop that removes the first element of a restart section, a reopen of the previous block,
// and tails equal to / one above a block maximum.
func (ix *index) epilogue() {
	ids := ix.stored()
	var top uint64
	if len(ids) > 0 {
		top = ids[len(ids)-1]
	}
	if top > maxID-1_000_000 {
		return
	}
	if !ix.open("writer", top) {
		return
	}
	// at least one block rotation and then one more section start
	live := ix.w.Live()
	per := 1
	if ix.bsize != 0 {
		per = 3
	}
	need := (4096-live.DataLen)/per + 300
	ix.appendItems(ix.nextIDs(top, need))
	ix.finish()
	ix.close()
	ids = ix.stored()
	top = ids[len(ids)-1]
	if !ix.open("deleter", top) {
		return
	}
	n := int(ix.d.Live().Desc.Entries)%256 + 2 // crosses the start of the last section
	if n > len(ids) {
		n = len(ids)
	}
	popped := make([]uint64, 0, n)
	for i := 0; i < n; i++ {
		popped = append(popped, ids[len(ids)-1-i])
	}
	ix.pop(popped[:n-1])
	ix.pop(popped[n-1:]) // logged on its own: the state right after the section start went away
	ix.finish()
	ix.close()
	ix.observe(false)
	if ds := ix.meta(); len(ds) > 0 {
		if len(ds) > 1 {
			ix.prune(ds[1].Max) // the first block goes, the second still holds an id >= tail
			ix.observe(false)
		}
		if ds = ix.meta(); len(ds) > 0 {
			ix.prune(ds[0].Max) // the block still holds an id >= tail
			ix.prune(ds[0].Max + 1) // now it does not
			ix.observe(false)
		}
	}
}

// ------------------------------------------------------------------ TLC plans

type plan struct {
	Bitmap int              `json:"bitmap"`
	Acts   []map[string]any `json:"acts"`
}

func num(m map[string]any, k string) uint64 { return uint64(m[k].(float64)) }

func extOf(m map[string]any) []uint16 {
	out := []uint16{}
	if l, ok := m["ext"].([]any); ok {
		for _, x := range l {
			out = append(out, uint16(x.(float64)))
		}
	}
	return out
}

func planFilters(bsize int) []int {
	if bsize == 0 {
		return []int{-1}
	}
	return []int{-1, 0, 1, 2, 3, 17, 33, 45}
}

func (ix *index) runPlan(p plan) {
	for _, a := range p.Acts {
		switch a["op"].(string) {
		case "init":
		case "openWriter":
			ix.open("writer", num(a, "limit"))
		case "openDeleter":
			ix.open("deleter", num(a, "limit"))
		case "close":
			ix.close()
		case "append":
			if ix.w != nil {
				ix.appendItems([]item{{num(a, "id"), extOf(a)}})
			}
		case "pop":
			if ix.d != nil {
				ix.pop([]uint64{num(a, "id")})
			}
		case "finish":
			if ix.w != nil || ix.d != nil {
				ix.finish()
				for _, f := range planFilters(ix.bsize) {
					ix.iter(-1, f)
				}
				for _, d := range ix.meta() {
					ix.block(d.ID, 4200)
				}
			}
		case "prune":
			ix.prune(num(a, "tail"))
			ix.iter(-1, -1)
		default:
			tl.Fatal("unknown plan op %v", a["op"])
		}
		if ix.w == nil && ix.d == nil {
			fs := planFilters(ix.bsize)
			ix.read(uint64(ix.r.Intn(8)), fs[ix.r.Intn(len(fs))])
		}
	}
}

func main() {
	mode := flag.String("mode", "record", "plan|record")
	in := flag.String("in", "", "plans json (mode plan)")
	trace := flag.String("trace", "trace.ndjson", "output trace")
	out := flag.String("out", "summary.json", "summary output")
	bitmap := flag.Int("bitmap", 0, "descriptor bitmap size: 0, 2 or 34")
	n := flag.Int("n", 10, "number of scenarios (mode record)")
	steps := flag.Int("steps", 12, "sessions per scenario (mode record)")
	flag.Parse()
	seed := int64(tl.EnvInt("VERIF_SEED", 1))
	sum := tl.NewSummary("c19", *mode, seed)
	tr := tl.NewTrace(*trace)
	r := tl.Rand(seed*1000 + int64(*bitmap))
	switch *mode {
	case "plan":
		var plans []plan
		tl.ReadJSON(*in, &plans)
		seen := map[string]bool{}
		for i, p := range plans {
			ix := newIndex(p.Bitmap, tr, sum, r, i)
			ix.runPlan(p)
			sum.Traces++
			sum.Evaluations++
			k := fmt.Sprint(p.Acts)
			if !seen[k] {
				seen[k] = true
				sum.Distinct++
			}
			if i < 2 {
				sum.Sample(p.Acts)
			}
		}
		sum.Rule = "TLC-generated behaviours of MCHistIndex (action labels) executed on the real index objects; distinct = distinct action sequences"
	case "record":
		for i := 0; i < *n; i++ {
			ix := newIndex(*bitmap, tr, sum, r, i)
			ix.scenario(*steps)
			sum.Traces++
			sum.Evaluations++
		}
		keys := []string{}
		for k := range shapes {
			keys = append(keys, k)
		}
		sort.Strings(keys)
		sum.Distinct = len(keys)
		if len(keys) > 0 {
			sum.Sample(keys[0])
		}
		sum.Rule = "seeded index lives steering to restart-section (256) and block (4096 B) boundaries; distinct = distinct session-kind sequences"
	default:
		tl.Fatal("bad mode")
	}
	tr.Close()
	sum.Steps = tr.N
	sum.Write(*out)
	if len(sum.Violations) > 0 {
		os.Exit(1)
	}
}
