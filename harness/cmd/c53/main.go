// c53 drives beacon/light.CommitteeChain (+ HeadTracker) for property C53: the light client
// follows only properly signed committees.
//
//	-mode edges  -in edges.json    cover every transition of the TLC state graph of
//	                               MCCommitteeChain by walks on a real chain (R)
//	-mode mbt    -in hist.json     replay TLC-sampled behaviours step by step (R)
//	-mode record -trace t.ndjson   seeded random receive sequences on a real chain, one event per
//	                               call with the projected state, validated by CommitteeChainTrace (V)
//
// Committees are integers in the specification (genuine committee of period p = p, forgeries
// 100+p, 200+p); here each id is a deterministic 513*48 byte serialized committee.  Updates,
// checkpoints and signed headers are built from the specification's descriptors with real Merkle
// branches (sha256) and the in-tree dummy signature scheme (light.GenerateTestSignedHeader).
package main

import (
	"bytes"
	"crypto/sha256"
	"encoding/binary"
	"encoding/json"
	"errors"
	"flag"
	"fmt"
	"os"
	"sort"

	"github.com/ethereum/go-ethereum/beacon/light"
	"github.com/ethereum/go-ethereum/beacon/merkle"
	"github.com/ethereum/go-ethereum/beacon/params"
	"github.com/ethereum/go-ethereum/beacon/types"
	"github.com/ethereum/go-ethereum/common"
	"github.com/ethereum/go-ethereum/common/mclock"
	"github.com/ethereum/go-ethereum/core/rawdb"
	"github.com/ethereum/go-ethereum/ethdb/memorydb"
	"github.com/ethereum/go-ethereum/rlp"
	"github.com/protolambda/zrnt/eth2/beacon/deneb"
	tl "verif/harness/tracelib"
)

// ---------------------------------------------------------------- descriptors (= TLA+ records)

type updD struct {
	Period int    `json:"period"`
	Signer int    `json:"signer"`
	Count  int    `json:"count"`
	Next   int    `json:"next"`
	Fin    bool   `json:"fin"`
	Bad    string `json:"bad"`
}
type cpD struct {
	Period int  `json:"period"`
	Comm   int  `json:"comm"`
	Next   int  `json:"next"`
	Valid  bool `json:"valid"`
}
type hdrD struct {
	Period int `json:"period"`
	Signer int `json:"signer"`
	Count  int `json:"count"`
}
type kvI struct {
	P int `json:"p"`
	V int `json:"v"`
}
type updRec struct {
	Next   int  `json:"next"`
	Count  int  `json:"count"`
	Fin    bool `json:"fin"`
	Signer int  `json:"signer"`
}
type kvU struct {
	P int    `json:"p"`
	V updRec `json:"v"`
}
type nspT struct {
	P  int  `json:"p"`
	Ok bool `json:"ok"`
}

// state is the projection shared with the specification (Proj in MCCommitteeChain.tla).
type state struct {
	Fixed []kvI `json:"fixed"`
	Comm  []kvI `json:"comm"`
	Upd   []kvU `json:"upd"`
	Nsp   nspT  `json:"nsp"`
}
type fullProj struct {
	state
	Sig []hdrD `json:"sig"`
	Acc []hdrD `json:"acc"`
}

func sortH(h []hdrD) {
	sort.Slice(h, func(i, j int) bool {
		a, b := h[i], h[j]
		if a.Period != b.Period {
			return a.Period < b.Period
		}
		if a.Signer != b.Signer {
			return a.Signer < b.Signer
		}
		return a.Count < b.Count
	})
}
func (s state) key() string {
	if s.Fixed == nil {
		s.Fixed = []kvI{}
	}
	if s.Comm == nil {
		s.Comm = []kvI{}
	}
	if s.Upd == nil {
		s.Upd = []kvU{}
	}
	b, _ := json.Marshal(s)
	return string(b)
}
func hkey(h []hdrD) string {
	c := append([]hdrD{}, h...)
	sortH(c)
	b, _ := json.Marshal(c)
	return string(b)
}

// ---------------------------------------------------------------- world: ids -> real objects

const (
	noRoot = -1
	noComm = -1
)

type world struct {
	cfg     params.ChainConfig
	T       int
	salt    uint64
	comms   map[int]*types.SerializedSyncCommittee
	roots   map[int]common.Hash
	rootID  map[common.Hash]int
	updByH  map[common.Hash]updD // attested header hash -> descriptor
	payload *types.ExecutionHeader
}

func newWorld(T int, salt uint64) *world {
	w := &world{T: T, salt: salt, comms: map[int]*types.SerializedSyncCommittee{}, roots: map[int]common.Hash{},
		rootID: map[common.Hash]int{}, updByH: map[common.Hash]updD{}}
	w.cfg.GenesisValidatorsRoot = common.Hash(w.filler("genesis", 0))
	w.cfg.AddFork("GENESIS", 0, []byte{0})
	w.payload = types.NewExecutionHeader(new(deneb.ExecutionPayloadHeader))
	return w
}

func (w *world) filler(tag string, n uint64) merkle.Value {
	h := sha256.New()
	h.Write([]byte(tag))
	var b [16]byte
	binary.BigEndian.PutUint64(b[:8], n)
	binary.BigEndian.PutUint64(b[8:], w.salt)
	h.Write(b[:])
	var v merkle.Value
	h.Sum(v[:0])
	return v
}

// sel derives a deterministic small selector for a descriptor (which concrete variant to build).
func (w *world) sel(tag string, d any, n int) int {
	b, _ := json.Marshal(d)
	v := w.filler(tag+string(b), 0)
	return int(binary.BigEndian.Uint32(v[:4]) % uint32(n))
}

func (w *world) comm(id int) *types.SerializedSyncCommittee {
	if c, ok := w.comms[id]; ok {
		return c
	}
	c := new(types.SerializedSyncCommittee)
	for i := 0; i < len(c); i += 32 {
		v := w.filler(fmt.Sprintf("committee-%d", id), uint64(i))
		copy(c[i:], v[:])
	}
	w.comms[id] = c
	r := c.Root()
	w.roots[id] = r
	if old, dup := w.rootID[r]; dup && old != id {
		tl.Fatal("root collision")
	}
	w.rootID[r] = id
	return c
}
func (w *world) root(id int) common.Hash {
	if id == noRoot {
		return common.Hash{}
	}
	w.comm(id)
	return w.roots[id]
}
func (w *world) idOfRoot(r common.Hash) int {
	if r == (common.Hash{}) {
		return noRoot
	}
	if id, ok := w.rootID[r]; ok {
		return id
	}
	return -2
}

// sparse Merkle tree over generalized indices: given leaves, unknown subtrees are fillers.
type sparse struct {
	w      *world
	tag    string
	leaves map[uint64]merkle.Value
}

func (t *sparse) isAncestor(g uint64) bool {
	for l := range t.leaves {
		for x := l; x >= g; x >>= 1 {
			if x == g {
				return true
			}
			if x == 0 {
				break
			}
		}
	}
	return false
}
func (t *sparse) node(g uint64) merkle.Value {
	if v, ok := t.leaves[g]; ok {
		return v
	}
	if !t.isAncestor(g) {
		return t.w.filler(t.tag, g)
	}
	l, r := t.node(2*g), t.node(2*g+1)
	h := sha256.New()
	h.Write(l[:])
	h.Write(r[:])
	var v merkle.Value
	h.Sum(v[:0])
	return v
}
func (t *sparse) branch(g uint64) merkle.Values {
	var out merkle.Values
	for ; g > 1; g >>= 1 {
		out = append(out, t.node(g^1))
	}
	return out
}

func corrupt(br merkle.Values, how int) merkle.Values {
	out := append(merkle.Values{}, br...)
	switch how % 3 {
	case 0: // flip one bit of one sibling
		i := (how / 3) % len(out)
		out[i][(how/7)%32] ^= 1 << uint(how%8)
	case 1: // drop the last sibling
		out = out[:len(out)-1]
	case 2: // one sibling too many
		out = append(out, out[0])
	}
	return out
}

func (w *world) sign(h types.Header, signer int, sigSlot uint64, count int) types.SignedHeader {
	return light.GenerateTestSignedHeader(h, &w.cfg, w.comm(signer), sigSlot, count)
}

// update builds the LightClientUpdate described by d.  A descriptor with bad="none" passes
// LightClientUpdate.Validate; every other value of bad yields an update Validate must reject.
func (w *world) update(d updD) *types.LightClientUpdate {
	tag := fmt.Sprintf("upd-%v", d)
	v := w.sel("variant", d, 1<<20)
	version := []string{"deneb", "electra", "capella", ""}[v%4]
	start := types.SyncPeriodStart(uint64(d.Period))
	u := &types.LightClientUpdate{Version: version, NextSyncCommitteeRoot: w.root(d.Next)}
	committed := u.NextSyncCommitteeRoot // what the signed state really commits to
	badHow := v / 2
	if d.Bad == "branch" && badHow%4 == 3 {
		// the header commits to some other committee than the one claimed
		committed = common.Hash(w.filler(tag+"other", 0))
	}
	tree := &sparse{w: w, tag: tag, leaves: map[uint64]merkle.Value{params.StateIndexNextSyncCommittee(version): merkle.Value(committed)}}
	slot := start + 2000 + uint64(v%3000)
	if d.Fin {
		fslot := start + 100 + uint64(v%1000)
		if d.Bad == "finperiod" {
			if d.Period > 0 && v%2 == 0 {
				fslot = start - 1 - uint64(v%100)
			} else {
				fslot = start + params.SyncPeriodLength + uint64(v%100)
			}
		}
		fin := types.Header{Slot: fslot, ProposerIndex: uint64(v), StateRoot: common.Hash(w.filler(tag+"finstate", 0))}
		u.FinalizedHeader = &fin
		tree.leaves[params.StateIndexFinalBlock(version)] = merkle.Value(fin.Hash())
		u.FinalityBranch = tree.branch(params.StateIndexFinalBlock(version))
		if d.Bad == "finbranch" {
			if badHow%4 == 3 {
				fin2 := fin
				fin2.ProposerIndex++
				u.FinalizedHeader = &fin2
			} else {
				u.FinalityBranch = corrupt(u.FinalityBranch, badHow)
			}
		}
	}
	u.NextSyncCommitteeBranch = tree.branch(params.StateIndexNextSyncCommittee(version))
	if d.Bad == "branch" && badHow%4 != 3 {
		u.NextSyncCommitteeBranch = corrupt(u.NextSyncCommitteeBranch, badHow)
	}
	att := types.Header{Slot: slot, ProposerIndex: uint64(v), StateRoot: common.Hash(tree.node(1))}
	sigSlot := slot + 1
	if d.Bad == "sigperiod" {
		sigSlot = start + params.SyncPeriodLength + uint64(v%100)
	}
	u.AttestedHeader = w.sign(att, d.Signer, sigSlot, d.Count)
	w.updByH[att.Hash()] = d
	return u
}

func (w *world) bootstrap(b cpD) types.BootstrapData {
	tag := fmt.Sprintf("cp-%v", b)
	v := w.sel("variant", b, 1<<20)
	version := []string{"deneb", "electra", "capella", ""}[v%4]
	idx := params.StateIndexSyncCommittee(version)
	tree := &sparse{w: w, tag: tag, leaves: map[uint64]merkle.Value{idx: merkle.Value(w.root(b.Comm)), idx + 1: merkle.Value(w.root(b.Next))}}
	bd := types.BootstrapData{
		Version:         version,
		Committee:       w.comm(b.Comm),
		CommitteeRoot:   w.root(b.Comm),
		CommitteeBranch: tree.branch(idx),
	}
	bd.Header = types.Header{Slot: types.SyncPeriodStart(uint64(b.Period)) + 200 + uint64(v%5000), StateRoot: common.Hash(tree.node(1))}
	if !b.Valid {
		switch v % 3 {
		case 0:
			bd.Committee = w.comm(b.Comm + 100) // committee does not match the proven root
		case 1:
			br := corrupt(bd.CommitteeBranch[1:], v/3)
			bd.CommitteeBranch = append(merkle.Values{bd.CommitteeBranch[0]}, br...)
		case 2:
			bd.Header.StateRoot[v%32] ^= 0x10
		}
	}
	return bd
}

// header builds a signed header (and the optimistic update around it) for descriptor h.
func (w *world) header(h hdrD) (types.SignedHeader, types.OptimisticUpdate) {
	v := w.sel("hvariant", h, 1<<20)
	start := types.SyncPeriodStart(uint64(h.Period))
	slot, sigSlot := start+uint64(v%8000), uint64(0)
	if h.Period > 0 && v%4 == 0 {
		slot = start - 1 // last slot of the previous period, signed in this one
	}
	sigSlot = slot + 1
	tree := &sparse{w: w, tag: fmt.Sprintf("hdr-%v", h), leaves: map[uint64]merkle.Value{params.BodyIndexExecPayload: w.payload.PayloadRoot()}}
	hd := types.Header{Slot: slot, ProposerIndex: uint64(v), BodyRoot: common.Hash(tree.node(1))}
	sh := w.sign(hd, h.Signer, sigSlot, h.Count)
	ou := types.OptimisticUpdate{
		Attested:      types.HeaderWithExecProof{Header: hd, PayloadHeader: w.payload, PayloadBranch: tree.branch(params.BodyIndexExecPayload)},
		Signature:     sh.Signature,
		SignatureSlot: sigSlot,
	}
	return sh, ou
}

// ---------------------------------------------------------------- real chain instance

type inst struct {
	w     *world
	db    *memorydb.Database
	clock *mclock.Simulated
	chain *light.CommitteeChain
}

func newInst(w *world) *inst {
	in := &inst{w: w, db: memorydb.New(), clock: &mclock.Simulated{}}
	in.reopen()
	return in
}
func (in *inst) reopen() {
	in.chain = light.NewTestCommitteeChain(in.db, &in.w.cfg, in.w.T, false, in.clock)
}

func errClass(err error) string {
	switch {
	case err == nil:
		return "ok"
	case errors.Is(err, light.ErrInvalidPeriod):
		return "InvalidPeriod"
	case errors.Is(err, light.ErrInvalidUpdate):
		return "InvalidUpdate"
	case errors.Is(err, light.ErrWrongCommitteeRoot):
		return "WrongRoot"
	case errors.Is(err, light.ErrCannotReorg):
		return "CannotReorg"
	case errors.Is(err, light.ErrNeedCommittee):
		return "NeedCommittee"
	}
	return "Invalid"
}

func (in *inst) checkpoint(b cpD) string {
	return errClass(in.chain.CheckpointInit(in.w.bootstrap(b)))
}

// receive = what the light client does with an update from a server: LightClientUpdate.Validate
// (beacon/light/api) followed by CommitteeChain.InsertUpdate (beacon/light/sync).
func (in *inst) receive(d updD, nc int) string {
	u := in.w.update(d)
	if err := u.Validate(); err != nil {
		if d.Bad == "none" {
			tl.Fatal("harness built an update that should validate but does not: %v %v", d, err)
		}
		return "Invalid"
	}
	var c *types.SerializedSyncCommittee
	if nc != noComm {
		c = in.w.comm(nc)
	}
	return errClass(in.chain.InsertUpdate(u, c))
}

func (in *inst) verify(h hdrD) (sig bool, acc bool) {
	sh, ou := in.w.header(h)
	ok, _, err := in.chain.VerifySignedHeader(sh)
	sig = ok && err == nil
	ht := light.NewHeadTracker(in.chain, in.w.T, nil)
	rep, _ := ht.ValidateOptimistic(ou)
	if rep {
		got, has := ht.ValidatedOptimistic()
		if !has || got.Attested.Header != ou.Attested.Header {
			rep = false
		}
	}
	return sig, rep
}

func (in *inst) list(prefix []byte, fn func(period int, val []byte)) {
	it := in.db.NewIterator(prefix, nil)
	defer it.Release()
	for it.Next() {
		k := it.Key()
		if len(k) != len(prefix)+8 {
			continue
		}
		fn(int(binary.BigEndian.Uint64(k[len(prefix):])), append([]byte{}, it.Value()...))
	}
}

// project reads the persistent state of the chain (database listing, as newCommitteeChain does)
// and the in-memory view through NextSyncPeriod.  notes collects decoding problems.
func (in *inst) project() (state, []string) {
	var st state
	var notes []string
	st.Fixed, st.Comm, st.Upd = []kvI{}, []kvI{}, []kvU{}
	in.list(rawdb.FixedCommitteeRootKey, func(p int, val []byte) {
		var h common.Hash
		if err := rlp.DecodeBytes(val, &h); err != nil {
			notes = append(notes, fmt.Sprintf("fixed root %d undecodable", p))
		}
		st.Fixed = append(st.Fixed, kvI{p, in.w.idOfRoot(h)})
	})
	in.list(rawdb.SyncCommitteeKey, func(p int, val []byte) {
		c := new(types.SerializedSyncCommittee)
		if err := rlp.DecodeBytes(val, c); err != nil {
			notes = append(notes, fmt.Sprintf("committee %d undecodable", p))
		}
		st.Comm = append(st.Comm, kvI{p, in.w.idOfRoot(c.Root())})
	})
	in.list(rawdb.BestUpdateKey, func(p int, val []byte) {
		u := new(types.LightClientUpdate)
		if err := rlp.DecodeBytes(val, u); err != nil {
			notes = append(notes, fmt.Sprintf("update %d undecodable", p))
			return
		}
		d, known := in.w.updByH[u.AttestedHeader.Header.Hash()]
		rec := updRec{Next: in.w.idOfRoot(u.NextSyncCommitteeRoot), Count: u.AttestedHeader.Signature.SignerCount(),
			Fin: u.FinalizedHeader != nil, Signer: -2}
		if known {
			rec.Signer = d.Signer
			if int(u.AttestedHeader.Header.SyncPeriod()) != p {
				notes = append(notes, fmt.Sprintf("update stored at %d is of period %d", p, u.AttestedHeader.Header.SyncPeriod()))
			}
		} else {
			notes = append(notes, fmt.Sprintf("update %d is not one the driver delivered", p))
		}
		st.Upd = append(st.Upd, kvU{p, rec})
	})
	np, ok := in.chain.NextSyncPeriod()
	st.Nsp = nspT{int(np), ok}
	for _, s := range [][]int{keysI(st.Fixed), keysI(st.Comm), keysU(st.Upd)} {
		for i := 1; i < len(s); i++ {
			if s[i] != s[i-1]+1 {
				notes = append(notes, "gap in a canonical store")
			}
		}
	}
	return st, notes
}
func keysI(x []kvI) (o []int) {
	for _, e := range x {
		o = append(o, e.P)
	}
	return
}
func keysU(x []kvU) (o []int) {
	for _, e := range x {
		o = append(o, e.P)
	}
	return
}

func (in *inst) probes(hs []hdrD) (sig, acc []hdrD) {
	sig, acc = []hdrD{}, []hdrD{}
	for _, h := range hs {
		s, a := in.verify(h)
		if s {
			sig = append(sig, h)
		}
		if a {
			acc = append(acc, h)
		}
	}
	return
}

// ---------------------------------------------------------------- replay of model actions

type action struct {
	Op  string `json:"op"`
	B   *cpD   `json:"b,omitempty"`
	U   *updD  `json:"u,omitempty"`
	Nc  int    `json:"nc"`
	Err string `json:"err,omitempty"`
}

func (in *inst) apply(a action) string {
	switch a.Op {
	case "checkpoint":
		return in.checkpoint(*a.B)
	case "update":
		return in.receive(*a.U, a.Nc)
	case "reset":
		in.chain.Reset()
		return ""
	case "reopen":
		in.reopen()
		return ""
	}
	tl.Fatal("unknown op %q", a.Op)
	return ""
}

type replayer struct {
	w       *world
	sum     *tl.Summary
	headers []hdrD
	seen    map[string]bool
}

func universe(maxp, T int) []hdrD {
	var hs []hdrD
	for p := 0; p <= maxp+1; p++ {
		for _, s := range []int{p, 100 + p} {
			for _, n := range []int{T - 1, T} {
				hs = append(hs, hdrD{p, s, n})
			}
		}
	}
	return hs
}

// step applies one model action on the instance and compares result and projection with the model.
func (r *replayer) step(in *inst, a action, to fullProj, ctx any) bool {
	got := in.apply(a)
	st, notes := in.project()
	sig, acc := in.probes(r.headers)
	r.sum.Steps++
	r.sum.Count(a.Op + ":" + a.Err)
	k := fmt.Sprint(a) + "@" + to.state.key()
	if a.U != nil {
		k = fmt.Sprint(*a.U, a.Nc) + "@" + to.state.key()
	} else if a.B != nil {
		k = fmt.Sprint(*a.B) + "@" + to.state.key()
	}
	if !r.seen[k] {
		r.seen[k] = true
		r.sum.Distinct++
	}
	var diffs []string
	if got != a.Err {
		diffs = append(diffs, fmt.Sprintf("result %q, specification %q", got, a.Err))
	}
	if st.key() != to.state.key() {
		diffs = append(diffs, fmt.Sprintf("chain state %s, specification %s", st.key(), to.state.key()))
	}
	if hkey(sig) != hkey(to.Sig) {
		diffs = append(diffs, fmt.Sprintf("VerifySignedHeader accepts %s, specification %s", hkey(sig), hkey(to.Sig)))
	}
	if hkey(acc) != hkey(to.Acc) {
		diffs = append(diffs, fmt.Sprintf("head tracker accepts %s, specification %s", hkey(acc), hkey(to.Acc)))
	}
	diffs = append(diffs, notes...)
	if len(diffs) > 0 {
		r.sum.Violate(fmt.Sprintf("CommitteeChain %s %s: %v", a.Op, descr(a), diffs), tl.M{"context": ctx, "action": a, "expected": to, "got_state": st, "got_result": got, "got_sig": sig, "got_acc": acc})
		return false
	}
	return true
}
func descr(a action) string {
	switch {
	case a.U != nil:
		return fmt.Sprintf("%+v nc=%d", *a.U, a.Nc)
	case a.B != nil:
		return fmt.Sprintf("%+v", *a.B)
	}
	return ""
}

type edge struct {
	From fullProj `json:"from"`
	Act  action   `json:"act"`
	To   fullProj `json:"to"`
	fk   string
	tk   string
}

func runEdges(in string, maxp int, w *world, sum *tl.Summary) {
	var edges []*edge
	tl.ReadJSON(in, &edges)
	r := &replayer{w: w, sum: sum, headers: universe(maxp, w.T), seen: map[string]bool{}}
	adj := map[string][]int{}    // state -> edges not yet executed
	succ := map[string][]int{}   // state -> one edge per distinct successor (for routing)
	succSeen := map[string]bool{}
	for i, e := range edges {
		e.fk, e.tk = e.From.state.key(), e.To.state.key()
		adj[e.fk] = append(adj[e.fk], i)
		if e.fk != e.tk && !succSeen[e.fk+">"+e.tk] {
			succSeen[e.fk+">"+e.tk] = true
			succ[e.fk] = append(succ[e.fk], i)
		}
	}
	initKey := state{}.key()
	if _, ok := adj[initKey]; !ok {
		tl.Fatal("initial state %s has no edges", initKey)
	}
	remaining := len(edges)
	route := func(from string) []int { // shortest path (edge indexes) to a state with unexecuted edges
		if len(adj[from]) > 0 {
			return []int{}
		}
		prev := map[string]int{from: -1}
		q := []string{from}
		for len(q) > 0 {
			s := q[0]
			q = q[1:]
			for _, ei := range succ[s] {
				t := edges[ei].tk
				if _, ok := prev[t]; ok {
					continue
				}
				prev[t] = ei
				if len(adj[t]) > 0 {
					var path []int
					for x := t; prev[x] >= 0; x = edges[prev[x]].fk {
						path = append([]int{prev[x]}, path...)
					}
					return path
				}
				q = append(q, t)
			}
		}
		return nil
	}
	cur, inst, walk := initKey, newInst(w), []action{}
	restart := func() { cur, inst, walk = initKey, newInst(w), []action{}; sum.Traces++ }
	sum.Traces = 1
	for remaining > 0 {
		if os.Getenv("C53_DEBUG") != "" && sum.Steps%500 == 0 {
			fmt.Fprintf(os.Stderr, "steps=%d remaining=%d traces=%d viol=%d\n", sum.Steps, remaining, sum.Traces, len(sum.Violations))
		}
		path := route(cur)
		if path == nil {
			if cur == initKey {
				break // the rest is unreachable from the initial state (cannot happen for a TLC graph)
			}
			restart()
			continue
		}
		var ei int
		if len(path) > 0 {
			ei = path[0]
		} else {
			l := adj[cur]
			ei = l[len(l)-1]
			adj[cur] = l[:len(l)-1]
			remaining--
			sum.Evaluations++
		}
		e := edges[ei]
		walk = append(walk, e.Act)
		if len(walk) > 400 { // keep replay files readable: long walks are cut by a fresh start
			ok := r.step(inst, e.Act, e.To, tl.M{"walk_tail": walk[len(walk)-10:], "from": e.From})
			_ = ok
			restart()
			continue
		}
		if !r.step(inst, e.Act, e.To, tl.M{"walk": walk, "from": e.From}) {
			if len(path) > 0 || len(sum.Violations) >= 20 {
				// a routing edge diverged: everything behind it is unreachable on the real code
				sum.Notes = append(sum.Notes, fmt.Sprintf("stopped with %d edges unexecuted after divergences", remaining))
				return
			}
			restart()
			continue
		}
		if sum.Evaluations%3000 == 1 {
			sum.Sample(tl.M{"from": e.From.state, "act": e.Act, "to": e.To.state})
		}
		cur = e.tk
	}
	sum.Extra["edges"] = len(edges)
	sum.Extra["unexecuted"] = remaining
	if remaining > 0 {
		tl.Fatal("%d edges not reachable from the initial state", remaining)
	}
	sum.Rule = "every transition of the TLC graph executed on a real CommitteeChain along walks from the empty chain (result class, database listing, NextSyncPeriod, VerifySignedHeader/HeadTracker probes compared after every step); distinct = distinct (input, successor state) pairs"
}

type histStep struct {
	Act action   `json:"act"`
	To  fullProj `json:"to"`
}

func runMBT(in string, maxp int, w *world, sum *tl.Summary) {
	var hists [][]histStep
	tl.ReadJSON(in, &hists)
	r := &replayer{w: w, sum: sum, headers: universe(maxp, w.T), seen: map[string]bool{}}
	for i, h := range hists {
		inst := newInst(w)
		var walk []action
		for _, s := range h {
			walk = append(walk, s.Act)
			if !r.step(inst, s.Act, s.To, tl.M{"walk": walk}) {
				break
			}
		}
		sum.Evaluations++
		sum.Traces++
		if i < 2 {
			sum.Sample(walk)
		}
	}
	sum.Rule = "TLC-sampled behaviours replayed step by step on a fresh real CommitteeChain; distinct = distinct (input, successor state) pairs"
}

// ---------------------------------------------------------------- record mode (V)

func runRecord(path string, seed int64, ntraces, steps int, adversarial bool, w *world, sum *tl.Summary) {
	r := tl.Rand(seed)
	tr := tl.NewTrace(path)
	defer tr.Close()
	const maxP = 6
	counts := []int{0, 1, w.T - 1, w.T, w.T + 1, 341, 342, 343, 400, 512}
	comms := func(p int) []int { return []int{p, 100 + p, 200 + p} }
	bads := []string{"branch", "finbranch", "finperiod", "sigperiod"}
	shapes := map[string]bool{}
	for t := 0; t < ntraces; t++ {
		in := newInst(w)
		tr.Emit(tl.M{"op": "reset"})
		shape := ""
		// the chain the "honest servers" follow in this trace: genuine, or (non-adversarial runs)
		// possibly a forged one introduced by an untrusted checkpoint
		for i := 0; i < steps; i++ {
			st, _ := in.project()
			var ev tl.M
			switch c := r.Intn(100); {
			case c < 10 || len(st.Comm) == 0 && c < 50:
				p := r.Intn(maxP + 1)
				if len(st.Comm) > 0 && r.Intn(2) == 0 { // near the current chain
					p = st.Comm[r.Intn(len(st.Comm))].P
				}
				b := cpD{Period: p, Comm: p, Next: p + 1, Valid: r.Intn(8) != 0}
				if !adversarial || !b.Valid {
					if r.Intn(3) == 0 {
						b.Comm = comms(p)[r.Intn(3)]
					}
					if r.Intn(3) == 0 {
						b.Next = append(comms(p+1), noRoot)[r.Intn(4)]
					}
				}
				res := in.checkpoint(b)
				ev = tl.M{"op": "checkpoint", "b": b, "err": res}
			case c < 80:
				var d updD
				np, ok := in.chain.NextSyncPeriod()
				d.Period = r.Intn(maxP + 1)
				if ok && r.Intn(4) != 0 {
					d.Period = int(np) - r.Intn(3)/2
					if r.Intn(6) == 0 && len(st.Upd) > 0 {
						d.Period = st.Upd[r.Intn(len(st.Upd))].P
					}
					if d.Period < 0 {
						d.Period = 0
					}
				}
				d.Signer, d.Next = d.Period, d.Period+1
				// follow the stored committee when it is a forged one (non-adversarial runs)
				for _, kv := range st.Comm {
					if kv.P == d.Period && r.Intn(4) != 0 {
						d.Signer = kv.V
					}
				}
				if r.Intn(4) == 0 {
					d.Signer = comms(d.Period)[r.Intn(3)]
				}
				if r.Intn(4) == 0 {
					d.Next = comms(d.Period + 1)[r.Intn(3)]
				}
				d.Count = counts[r.Intn(len(counts))]
				if r.Intn(2) == 0 {
					d.Count = w.T + r.Intn(513-w.T)
				}
				d.Fin = r.Intn(3) == 0
				d.Bad = "none"
				if r.Intn(6) == 0 {
					d.Bad = bads[r.Intn(len(bads))]
					if (d.Bad == "finbranch" || d.Bad == "finperiod") && !d.Fin {
						d.Bad = "branch"
					}
				}
				if adversarial && d.Signer == d.Period && d.Count >= w.T && d.Bad == "none" {
					d.Next = d.Period + 1 // the genuine committee does not sign forgeries
				}
				nc := d.Next
				switch r.Intn(8) {
				case 0:
					nc = noComm
				case 1:
					nc = comms(d.Period + 1)[r.Intn(3)]
				}
				res := in.receive(d, nc)
				ev = tl.M{"op": "update", "u": d, "nc": nc, "err": res}
			case c < 92:
				h := hdrD{Period: r.Intn(maxP + 2), Count: counts[r.Intn(len(counts))]}
				if len(st.Comm) > 0 && r.Intn(3) != 0 {
					h.Period = st.Comm[r.Intn(len(st.Comm))].P
				}
				h.Signer = comms(h.Period)[r.Intn(3)]
				if r.Intn(2) == 0 {
					h.Signer = h.Period
				}
				sig, acc := in.verify(h)
				ev = tl.M{"op": "header", "h": h, "sig": sig, "acc": acc}
			case c < 97:
				in.reopen()
				ev = tl.M{"op": "reopen"}
			default:
				if r.Intn(3) != 0 {
					continue
				}
				in.chain.Reset()
				ev = tl.M{"op": "apireset"}
			}
			st2, notes := in.project()
			if len(notes) > 0 {
				sum.Violate(fmt.Sprintf("CommitteeChain database inconsistent after %v: %v", ev, notes), tl.M{"event": ev, "state": st2, "trace": t, "step": i})
			}
			ev["st"] = st2
			tr.Emit(ev)
			op := ev["op"].(string)
			res, _ := ev["err"].(string)
			sum.Count(op + ":" + res)
			shape += op[:1] + res + ","
			if t == 0 && i < 4 {
				sum.Sample(ev)
			}
		}
		sum.Traces++
		sum.Evaluations++
		if !shapes[shape] {
			shapes[shape] = true
			sum.Distinct++
		}
	}
	sum.Steps = tr.N
	sum.Rule = fmt.Sprintf("seeded random checkpoint/update/header/reopen/reset sequences (periods 0..%d, 3 committees per period, adversarial=%v) on a real CommitteeChain; distinct = distinct (operation, result) sequences", maxP, adversarial)
}

func main() {
	mode := flag.String("mode", "record", "edges|mbt|record")
	in := flag.String("in", "", "edges/hist json")
	trace := flag.String("trace", "trace.ndjson", "output trace (mode record)")
	out := flag.String("out", "summary.json", "summary output")
	n := flag.Int("n", 20, "number of traces")
	steps := flag.Int("steps", 60, "steps per trace")
	maxp := flag.Int("maxp", 2, "MaxP of the model (header probe universe)")
	T := flag.Int("threshold", 300, "signer threshold")
	adv := flag.Bool("adversarial", true, "record mode: only inputs allowed by the adversary assumption")
	flag.Parse()
	seed := int64(tl.EnvInt("VERIF_SEED", 1))
	sum := tl.NewSummary("c53", *mode, seed)
	w := newWorld(*T, uint64(seed))
	switch *mode {
	case "edges":
		runEdges(*in, *maxp, w, sum)
	case "mbt":
		runMBT(*in, *maxp, w, sum)
	case "record":
		runRecord(*trace, seed, *n, *steps, *adv, w, sum)
	default:
		tl.Fatal("bad mode")
	}
	sum.Write(*out)
	_ = bytes.Equal
	if len(sum.Violations) > 0 {
		os.Exit(1)
	}
}
