// c18 binds spec/state/PathDBIndex.tla to a real triedb/pathdb.Database with state-history
// indexing enabled (property C18: historical state reads return the value at that state;
// non-canonical or no longer retained roots are refused).
//
//	-mode random -trace t.ndjson -n N -steps S    seeded random histories with history limits
//	    (tail pruning), rollbacks followed by other forks, clean reopen (indexing switched on
//	    late so that the initial indexing run has work to do), and HistoricStateReader reads
//	    of every key at known roots (canonical, abandoned, pruned, never persisted).
//	-mode sim -in behaviours.json                 the same for TLC-generated behaviours
//
// Every event carries the projection of harness/cmd/c17/pdb plus the index projection
// (metadata position, initialised flag, indexed ids per key) and, for reads, the outcome;
// spec/state/PathDBIndexTrace.tla decides.
package main

import (
	"flag"
	"fmt"
	"os"
	"path/filepath"
	"sync"
	"time"

	"github.com/ethereum/go-ethereum/triedb/pathdb"

	"verif/harness/cmd/c17/pdb"
	tl "verif/harness/tracelib"
)

func newRunner(shape pdb.Shape, cfg pdb.Config, dir string, tr *pdb.Trace, sum *tl.Summary, seed int64, extra tl.M) *pdb.Runner {
	rn, err := pdb.NewRunner(shape, cfg, dir, tr, sum, tl.Rand(seed))
	if err != nil {
		tl.Fatal("open: %v", err)
	}
	rn.Extra = func(ev tl.M) {
		rn.ObserveIndex(ev)
		// Finding C18-F1 (known_findings.json via ctx.known_finding in checks/C18.py): after a rollback to the state with
		// id 0 the index metadata is deleted (batchIndexer.finish, lastID == 1) and the next
		// flattened layer fails in indexSingle ("out of order, last: null"), leaving the history
		// written but the layer not committed. The event is tagged, the trace ends there, and
		// PathDBIndexTrace.tla accepts exactly this situation as pending.
		ix := ev["ix"].(tl.M)
		failed := (ev["op"] == "Update" && ev["res"] == "fail") || (ev["op"] == "Commit" && ev["res"] == "err" && ev["i"] != 0)
		if failed && ix["inited"] == true && ix["last"] == -1 {
			ev["kf"] = "index-metadata-deleted"
			sum.Count("KF1:index-metadata-deleted")
		}
		// Finding C18-F2 (known_findings.json via ctx.known_finding in checks/C18.py): rollback while the initial indexing run has not completed
		// and the index ends one history below the disk layer fails inside indexIniter.run.
		if ev["op"] == "Recover" && ev["ok"] == false && ev["can"] == true && ix["on"] == true && ix["inited"] == false {
			ev["kf"] = "shorten-while-initialising"
			sum.Count("KF2:shorten-while-initialising")
		}
	}
	rn.WaitIndexed()
	ev := tl.M{"ixon": cfg.Index}
	for k, v := range extra {
		ev[k] = v
	}
	rn.ResetEvent(ev)
	return rn
}

// readSome reads at up to max known worlds, preferring those with an id entry.
func readSome(rn *pdb.Runner, max int) {
	order := rn.E.Reg.Order
	var withID, without []pdb.World
	for _, wi := range order {
		if rn.E.StateID(wi.Root) >= 0 {
			withID = append(withID, wi.W)
		} else {
			without = append(without, wi.W)
		}
	}
	rn.R.Shuffle(len(withID), func(i, j int) { withID[i], withID[j] = withID[j], withID[i] })
	n := 0
	for _, w := range withID {
		if n >= max {
			break
		}
		rn.HRead(w)
		if rn.E.Cfg.Trienode {
			rn.HNode(w)
		}
		n++
	}
	if len(without) > 0 {
		rn.HRead(without[rn.R.Intn(len(without))])
	}
}

func runRandom(tracePath, scratch string, seed int64, ntraces, steps int, sum *tl.Summary) {
	r := tl.Rand(seed)
	tr := pdb.NewTrace(tracePath)
	defer tr.Close()
	sigs := map[string]bool{}
	for t := 0; t < ntraces; t++ {
		shape := pdb.Shape{NAcc: 1 + r.Intn(3), NSlot: r.Intn(3), Counter: r.Intn(2) == 0}
		cfg := pdb.Config{
			MaxDiff:    []int{1, 2, 3, 5}[r.Intn(4)],
			HistLimit:  []uint64{0, 0, 2, 3, 5, 9}[r.Intn(6)],
			BufSize:    []int{0, 400, 1200, 4000, 1 << 22, 1 << 22}[r.Intn(6)],
			Async:      r.Intn(2) == 0,
			Cancun:     r.Intn(2) == 0,
			CleanCache: []int{0, 1 << 20}[r.Intn(2)],
			Index:      r.Intn(10) < 7,
		}
		// trie-node histories (kept completely) only together with complete state histories,
		// so that both freezers cover the same range
		cfg.Trienode = cfg.HistLimit == 0 && r.Intn(2) == 0
		if cfg.Trienode {
			// the account trie root is not indexed; a state of one or two accounts has no other node
			// (a trie-node history without indexable node leaves the index position behind)
			shape.Ballast = 12
		}
		maxVal := 1 + r.Intn(3)
		rn := newRunner(shape, cfg, filepath.Join(scratch, fmt.Sprintf("rnd-%d", t)), tr, sum, r.Int63(), tl.M{"src": "random", "shape": shape, "dbcfg": cfg})
		sig := ""
		dead := false
		for i := 0; i < steps; i++ {
			roots := rn.ChainRoots()
			top := len(roots) - 1
			c := r.Intn(100)
			switch {
			case c < 58:
				j := top
				if shape.Counter && top > 0 && r.Intn(8) == 0 {
					j = r.Intn(top + 1)
				}
				n, touch, recreate := rn.RandomWorld(rn.E.WorldOfRoot(roots[j]), maxVal)
				res := rn.Update(j, n, touch, recreate)
				sig += "U" + res[:1]
				if res == "fail" {
					i = steps // the database is unusable after a failed flatten: end of this trace
					dead = true
				}
			case c < 62:
				ci := r.Intn(top + 1)
				if rn.Commit(ci) == "err" && ci > 0 {
					i, dead = steps, true
				}
				sig += "C"
			case c < 72:
				var cands []pdb.World
				for _, wi := range rn.E.Reg.Order {
					if ok, _ := rn.E.TDB.Recoverable(wi.Root); ok {
						cands = append(cands, wi.W)
					}
				}
				w := rn.E.Reg.Order[r.Intn(len(rn.E.Reg.Order))].W
				if len(cands) > 0 && r.Intn(5) != 0 {
					w = cands[r.Intn(len(cands))]
				}
				if rn.Recover(w) {
					sig += "R"
				} else {
					sig += "r"
				}
			case c < 78:
				on := rn.E.Cfg.Index || r.Intn(2) == 0
				rn.ReopenWithIndex(r.Intn(top+1), on)
				sig += "O"
			default:
				readSome(rn, 6)
				sig += "H"
			}
		}
		if !dead {
			if !rn.E.Cfg.Index {
				rn.ReopenWithIndex(len(rn.ChainRoots())-1, true)
			}
			readSome(rn, 1000)
		}
		rn.Close()
		sum.Traces++
		sum.Evaluations++
		if !sigs[sig] {
			sigs[sig] = true
			sum.Distinct++
		}
		if t == 0 {
			sum.Sample(tl.M{"shape": shape, "cfg": cfg, "ops": sig})
		}
	}
	sum.Steps = tr.N
	sum.Rule = "seeded random histories with history limits, rollbacks and other forks, clean reopen (indexing switched on late), historic reads of every key at known roots; distinct = distinct operation/outcome sequences"
}

type behaviour struct {
	Cfg struct {
		MaxDiff   int    `json:"maxDiff"`
		HistLimit uint64 `json:"histLimit"`
		Pol       string `json:"pol"`
		Async     bool   `json:"async"`
	} `json:"cfg"`
	NAcc  int              `json:"nacc"`
	NSlot int              `json:"nslot"`
	Acts  []map[string]any `json:"acts"`
}

func ints(v any) []int {
	a := v.([]any)
	out := make([]int, len(a))
	for i, x := range a {
		out[i] = int(x.(float64))
	}
	return out
}

// runSim replays TLC-generated behaviours of MCPathDBIndexSim on a fresh database with
// indexing enabled; after every step every key is read at every known root.
func runSim(in, tracePath, scratch string, sum *tl.Summary) {
	var bs []behaviour
	tl.ReadJSON(in, &bs)
	tr := pdb.NewTrace(tracePath)
	defer tr.Close()
	seen := map[string]bool{}
	for bi, b := range bs {
		cfg := pdb.Config{MaxDiff: b.Cfg.MaxDiff, HistLimit: b.Cfg.HistLimit, BufSize: 1 << 22, CleanCache: 1 << 20, Async: b.Cfg.Async, Index: true, Cancun: bi%2 == 1}
		if b.Cfg.Pol == "always" {
			cfg.BufSize = 0
		}
		shape := pdb.Shape{NAcc: b.NAcc, NSlot: b.NSlot}
		rn := newRunner(shape, cfg, filepath.Join(scratch, fmt.Sprintf("sim-%d", bi)), tr, sum, int64(bi), tl.M{"src": "tlc"})
		rn.Full = true
	acts:
		for _, a := range b.Acts {
			roots := rn.ChainRoots()
			switch a["op"].(string) {
			case "Update":
				j := int(a["j"].(float64))
				if j >= len(roots) {
					break acts
				}
				p := rn.E.WorldOfRoot(roots[j])
				n := p.Copy()
				touch := map[int]bool{}
				for k, v := range ints(a["d"]) {
					if v == -1 {
						continue
					}
					if v == p[k] {
						touch[k] = true
					}
					n[k] = v
					if cfg.Cancun && shape.IsAcct(k) && v == 0 && p[k] != 0 {
						for q := k + 1; q < len(p) && shape.Owner(q) == k; q++ {
							if p[q] != 0 {
								break acts // Cancun rules forbid deleting an account that still has storage
							}
						}
					}
				}
				if rn.Update(j, n, touch, nil) == "fail" {
					break acts
				}
			case "Commit":
				i := int(a["i"].(float64))
				if i >= len(roots) {
					break acts
				}
				if rn.Commit(i) == "err" && i > 0 {
					break acts
				}
			case "Recover":
				rn.Recover(pdb.World(ints(a["w"])))
			case "Reopen":
				i := int(a["i"].(float64))
				if i >= len(roots) {
					break acts
				}
				rn.ReopenWithIndex(i, true)
			case "IndexRun":
				continue // the harness waits for the indexer after every open
			}
			readSome(rn, 1000)
		}
		rn.Close()
		sum.Traces++
		sum.Evaluations++
		key := fmt.Sprint(b.Cfg, b.Acts)
		if !seen[key] {
			seen[key] = true
			sum.Distinct++
		}
		if bi < 2 {
			sum.Sample(tl.M{"cfg": b.Cfg, "acts": b.Acts})
		}
	}
	sum.Steps = tr.N
	sum.Rule = "every TLC-generated behaviour of MCPathDBIndexSim is executed on a fresh real database with indexing; after each step every key is read at every known root; distinct = distinct (configuration, action sequence)"
}

// runGate drives the partially-indexed states deterministically: histories are produced
// with indexing off, the database is reopened with indexing on while a gate (blocking
// verif hook in indexIniter.index) holds the background indexer before its first history;
// reads must be refused, new histories extend the target, then the gate opens, the run
// finishes one history short of the target, and a rollback of that last history follows.
func runGate(tracePath, scratch string, seed int64, ntraces int, sum *tl.Summary) {
	r := tl.Rand(seed)
	tr := pdb.NewTrace(tracePath)
	defer tr.Close()
	for t := 0; t < ntraces; t++ {
		shape := pdb.Shape{NAcc: 1 + r.Intn(2), NSlot: r.Intn(2), Counter: true}
		cfg := pdb.Config{MaxDiff: 1 + r.Intn(2), HistLimit: []uint64{0, 0, 4}[r.Intn(3)], BufSize: []int{0, 1 << 22}[r.Intn(2)], Cancun: r.Intn(2) == 0}
		// The gate holds the background indexer before every history with an id above `pass`
		// while armed: first everything (pass = 0), then - once the target has been extended -
		// only histories beyond the target captured by the blocked run, so that a later run
		// (heartbeat) cannot move the index while the harness observes it.
		var (
			gmu   sync.Mutex
			gcond = sync.NewCond(&gmu)
			armed = true
			pass  uint64
			held  bool // the indexer is waiting at the gate
		)
		open := func(upTo uint64) {
			gmu.Lock()
			pass = upTo
			gmu.Unlock()
			gcond.Broadcast()
		}
		disarm := func() {
			gmu.Lock()
			armed = false
			gmu.Unlock()
			gcond.Broadcast()
		}
		pathdb.VerifHook = func(ev string, kv ...any) {
			if ev != "index-step" || len(kv) < 2 {
				return
			}
			id, _ := kv[1].(uint64)
			gmu.Lock()
			for armed && id > pass {
				held = true
				gcond.Wait()
			}
			held = false
			gmu.Unlock()
		}
		rn := newRunner(shape, cfg, filepath.Join(scratch, fmt.Sprintf("gate-%d", t)), tr, sum, r.Int63(), tl.M{"src": "gate", "shape": shape, "dbcfg": cfg})
		h := 2 + r.Intn(5)
		for i := 0; i < h+cfg.MaxDiff; i++ {
			roots := rn.ChainRoots()
			n, touch, recreate := rn.RandomWorld(rn.E.WorldOfRoot(roots[len(roots)-1]), 2)
			rn.Update(len(roots)-1, n, touch, recreate)
		}
		rn.NoWaitIndex = true
		rn.ReopenWithIndex(len(rn.ChainRoots())-1, true) // indexer blocked at its first history
		for deadline := time.Now().Add(10 * time.Minute); ; time.Sleep(time.Millisecond) {
			gmu.Lock()
			h := held
			gmu.Unlock()
			if h {
				break // the run has started and captured the current target
			}
			if time.Now().After(deadline) {
				tl.Fatal("background indexer did not reach the gate")
			}
		}
		readSome(rn, 3)
		extra := 1 + r.Intn(2)
		for i := 0; i < extra; i++ { // extend the target while the indexer is busy
			roots := rn.ChainRoots()
			n, touch, recreate := rn.RandomWorld(rn.E.WorldOfRoot(roots[len(roots)-1]), 2)
			rn.Update(len(roots)-1, n, touch, recreate)
		}
		_, target, _, _ := rn.E.PDB.VerifHistDisk()
		open(target - uint64(extra)) // the blocked run captured the target before the extension
		// wait until the run that was blocked has finished (it captured the old target)
		deadline := time.Now().Add(10 * time.Minute)
		for {
			last, ok := rn.E.PDB.VerifHistIndexLast(false)
			if ok && last+uint64(extra) >= target {
				break
			}
			if time.Now().After(deadline) {
				tl.Fatal("gated indexer made no progress")
			}
			time.Sleep(time.Millisecond)
		}
		rn.IndexRunEvent(false)
		readSome(rn, 3)
		// roll back the newest history (or two)
		var cands []pdb.World
		for _, wi := range rn.E.Reg.Order {
			if id := rn.E.StateID(wi.Root); id >= int(target)-extra && id < int(target) {
				if ok, _ := rn.E.TDB.Recoverable(wi.Root); ok {
					cands = append(cands, wi.W)
				}
			}
		}
		if len(cands) > 0 && rn.Recover(cands[r.Intn(len(cands))]) {
			disarm()
			rn.IndexRunEvent(true)
			readSome(rn, 1000)
		}
		disarm()
		rn.Close()
		pathdb.VerifHook = nil
		sum.Traces++
		sum.Evaluations++
		sum.Distinct++
	}
	sum.Steps = tr.N
	sum.Rule = "gated scenarios: indexing switched on over existing histories with the background indexer held at its first history, reads refused, target extended, run released, newest histories rolled back"
}

func main() {
	mode := flag.String("mode", "random", "random")
	trace := flag.String("trace", "trace.ndjson", "output trace")
	out := flag.String("out", "summary.json", "summary output")
	n := flag.Int("n", 20, "number of traces")
	steps := flag.Int("steps", 60, "steps per trace")
	in := flag.String("in", "", "behaviours json (mode sim)")
	flag.Parse()
	seed := int64(tl.EnvInt("VERIF_SEED", 1))
	sum := tl.NewSummary("c18", *mode, seed)
	scratch := pdb.ScratchDir("verif-c18-")
	defer os.RemoveAll(scratch)
	switch *mode {
	case "random":
		runRandom(*trace, scratch, seed, *n, *steps, sum)
	case "sim":
		sum.Mode = "replay"
		runSim(*in, *trace, scratch, sum)
	case "gate":
		runGate(*trace, scratch, seed, *n, sum)
	default:
		tl.Fatal("bad mode")
	}
	sum.Write(*out)
}
