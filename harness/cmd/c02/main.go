// c02 binds spec/codec/TxEnvelope.tla to core/types.Transaction (property C02).
//
//	-mode cases  -in cases.json    replay every mutated envelope enumerated by TLC (MCTxEnvelope):
//	                                UnmarshalBinary / DecodeRLP verdicts, decoded fields, canonical
//	                                re-marshalling, Hash = keccak(spec preimage), Size, sidecar removal,
//	                                JSON round trip (R)
//	-mode record -trace t.ndjson   seeded random signed transactions of every type (+ sidecars),
//	                                their encodings and byte mutations, one event per call,
//	                                validated by TxEnvelopeTrace.tla (V)
package main

import (
	"bytes"
	"crypto/ecdsa"
	"errors"
	"flag"
	"fmt"
	"math/big"
	"math/rand"
	"os"

	"github.com/ethereum/go-ethereum/common"
	"github.com/ethereum/go-ethereum/core/types"
	"github.com/ethereum/go-ethereum/crypto"
	"github.com/ethereum/go-ethereum/crypto/kzg4844"
	"github.com/ethereum/go-ethereum/rlp"
	"github.com/holiman/uint256"
	rb "verif/harness/cmd/c01/rlpbind"
	tl "verif/harness/tracelib"
)

// ---------------------------------------------------------------- abstraction of a transaction

func bigItem(x *big.Int) rb.Item {
	if x == nil {
		return rb.S(nil)
	}
	return rb.S(x.Bytes())
}
func u64Item(x uint64) rb.Item { return rb.S(rb.MinimalBE(x)) }
func toItem(a *common.Address) rb.Item {
	if a == nil {
		return rb.S(nil)
	}
	return rb.S(a[:])
}
func alItem(al types.AccessList) rb.Item {
	xs := make([]rb.Item, len(al))
	for i, t := range al {
		ks := make([]rb.Item, len(t.StorageKeys))
		for j, k := range t.StorageKeys {
			ks[j] = rb.S(k[:])
		}
		xs[i] = rb.L([]rb.Item{rb.S(t.Address[:]), rb.L(ks)})
	}
	return rb.L(xs)
}

// fields builds the field list of the transaction from its public accessors (never through rlp).
func fields(tx *types.Transaction) rb.Item {
	v, r, s := tx.RawSignatureValues()
	sig := []rb.Item{bigItem(v), bigItem(r), bigItem(s)}
	var f []rb.Item
	switch tx.Type() {
	case types.LegacyTxType:
		f = []rb.Item{u64Item(tx.Nonce()), bigItem(tx.GasPrice()), u64Item(tx.Gas()), toItem(tx.To()), bigItem(tx.Value()), rb.S(tx.Data())}
	case types.AccessListTxType:
		f = []rb.Item{bigItem(tx.ChainId()), u64Item(tx.Nonce()), bigItem(tx.GasPrice()), u64Item(tx.Gas()), toItem(tx.To()), bigItem(tx.Value()), rb.S(tx.Data()), alItem(tx.AccessList())}
	case types.DynamicFeeTxType:
		f = []rb.Item{bigItem(tx.ChainId()), u64Item(tx.Nonce()), bigItem(tx.GasTipCap()), bigItem(tx.GasFeeCap()), u64Item(tx.Gas()), toItem(tx.To()), bigItem(tx.Value()), rb.S(tx.Data()), alItem(tx.AccessList())}
	case types.BlobTxType:
		hs := make([]rb.Item, len(tx.BlobHashes()))
		for i, h := range tx.BlobHashes() {
			hs[i] = rb.S(h[:])
		}
		f = []rb.Item{bigItem(tx.ChainId()), u64Item(tx.Nonce()), bigItem(tx.GasTipCap()), bigItem(tx.GasFeeCap()), u64Item(tx.Gas()), toItem(tx.To()), bigItem(tx.Value()), rb.S(tx.Data()), alItem(tx.AccessList()),
			bigItem(tx.BlobGasFeeCap()), rb.L(hs)}
	case types.SetCodeTxType:
		as := make([]rb.Item, len(tx.SetCodeAuthorizations()))
		for i, a := range tx.SetCodeAuthorizations() {
			as[i] = rb.L([]rb.Item{rb.S(a.ChainID.Bytes()), rb.S(a.Address[:]), u64Item(a.Nonce), u64Item(uint64(a.V)), rb.S(a.R.Bytes()), rb.S(a.S.Bytes())})
		}
		f = []rb.Item{bigItem(tx.ChainId()), u64Item(tx.Nonce()), bigItem(tx.GasTipCap()), bigItem(tx.GasFeeCap()), u64Item(tx.Gas()), toItem(tx.To()), bigItem(tx.Value()), rb.S(tx.Data()), alItem(tx.AccessList()), rb.L(as)}
	}
	return rb.L(append(f, sig...))
}

// Sidecar is the abstraction of a blob sidecar ([ver, blobs, comms, proofs] of TxEnvelope.tla).
type Sidecar struct {
	Ver    int     `json:"ver"`
	Blobs  rb.Item `json:"blobs"`
	Comms  rb.Item `json:"comms"`
	Proofs rb.Item `json:"proofs"`
}

func sidecar(tx *types.Transaction) []Sidecar {
	sc := tx.BlobTxSidecar()
	if sc == nil {
		return []Sidecar{}
	}
	bl := make([]rb.Item, len(sc.Blobs))
	for i := range sc.Blobs {
		bl[i] = rb.S(sc.Blobs[i][:])
	}
	cs := make([]rb.Item, len(sc.Commitments))
	for i := range sc.Commitments {
		cs[i] = rb.S(sc.Commitments[i][:])
	}
	ps := make([]rb.Item, len(sc.Proofs))
	for i := range sc.Proofs {
		ps[i] = rb.S(sc.Proofs[i][:])
	}
	return []Sidecar{{Ver: int(sc.Version), Blobs: rb.L(bl), Comms: rb.L(cs), Proofs: rb.L(ps)}}
}

func scEqual(a, b []Sidecar) bool {
	if len(a) != len(b) {
		return false
	}
	for i := range a {
		if a[i].Ver != b[i].Ver || !a[i].Blobs.Equal(b[i].Blobs) || !a[i].Comms.Equal(b[i].Comms) || !a[i].Proofs.Equal(b[i].Proofs) {
			return false
		}
	}
	return true
}

// txClass maps decoding errors to the classes of TxEnvelope.tla.
func txClass(err error) string {
	switch {
	case err == nil:
		return ""
	case errors.Is(err, types.ErrTxTypeNotSupported):
		return "txtype"
	case err.Error() == "typed transaction too short":
		return "shorttyped"
	}
	return rb.Class(err)
}

// Obs is everything observed about one decoded transaction.
type Obs struct {
	OK     bool      `json:"ok"`
	Cls    string    `json:"cls"`
	Typ    int       `json:"typ"`
	V      rb.Item   `json:"v"`
	Sc     []Sidecar `json:"sc"`
	Bin    rb.B      `json:"bin"`    // MarshalBinary of the decoded transaction
	Net    rb.B      `json:"net"`    // rlp.EncodeToBytes of the decoded transaction
	Size   int       `json:"size"`   // Size()
	Pre    rb.B      `json:"pre"`    // MarshalBinary(WithoutBlobTxSidecar())
	HashOK bool      `json:"hashok"` // Hash() == keccak(pre), same for the sidecar-free copy and a cache-free re-decoding; EncodeIndex == MarshalBinary
	NoScSz int       `json:"noscsz"` // WithoutBlobTxSidecar().Size()
	JSON   string    `json:"json"`   // "ok": round trip kept hash and fields; "skip": UnmarshalJSON refused the (invalid) values; else the problem
	Err    string    `json:"-"`
}

func rejected(err error) Obs {
	return Obs{OK: false, Cls: txClass(err), V: rb.S(nil), Sc: []Sidecar{}, Bin: rb.B{}, Net: rb.B{}, Pre: rb.B{}, JSON: "", Err: err.Error()}
}

func observe(tx *types.Transaction) Obs {
	o := Obs{OK: true, Typ: int(tx.Type()), V: fields(tx), Sc: sidecar(tx), Size: int(tx.Size())}
	bin, err := tx.MarshalBinary()
	if err != nil {
		o.Err = "MarshalBinary: " + err.Error()
	}
	o.Bin = rb.FromBytes(bin)
	net, err := rlp.EncodeToBytes(tx)
	if err != nil {
		o.Err = "EncodeRLP: " + err.Error()
	}
	o.Net = rb.FromBytes(net)
	nosc := tx.WithoutBlobTxSidecar()
	pre, err := nosc.MarshalBinary()
	if err != nil {
		o.Err = "MarshalBinary(no sidecar): " + err.Error()
	}
	o.Pre = rb.FromBytes(pre)
	o.NoScSz = int(nosc.Size())
	want := crypto.Keccak256Hash(pre)
	// a fresh copy (no caches) must hash the same
	fresh := new(types.Transaction)
	ferr := fresh.UnmarshalBinary(bin)
	o.HashOK = tx.Hash() == want && nosc.Hash() == want && ferr == nil && fresh.Hash() == want
	// the encoding used for the transaction trie (DeriveSha) is the binary envelope
	var idx bytes.Buffer
	types.Transactions{tx}.EncodeIndex(0, &idx)
	o.HashOK = o.HashOK && bytes.Equal(idx.Bytes(), bin)
	// JSON
	js, err := tx.MarshalJSON()
	if err != nil {
		o.JSON = "MarshalJSON: " + err.Error()
		return o
	}
	back := new(types.Transaction)
	if err := back.UnmarshalJSON(js); err != nil {
		o.JSON = "skip"
		o.Err = err.Error()
		return o
	}
	bb, _ := back.MarshalBinary()
	switch {
	case back.Hash() != tx.Hash():
		o.JSON = "hash changed"
	case !bytes.Equal(bb, pre):
		o.JSON = "fields changed"
	case !fields(back).Equal(o.V):
		o.JSON = "accessors changed"
	default:
		o.JSON = "ok"
	}
	return o
}

func decodeBinary(in []byte) Obs {
	tx := new(types.Transaction)
	if err := tx.UnmarshalBinary(in); err != nil {
		return rejected(err)
	}
	return observe(tx)
}

func decodeNetwork(in []byte) Obs {
	tx := new(types.Transaction)
	if err := rlp.DecodeBytes(in, tx); err != nil {
		return rejected(err)
	}
	return observe(tx)
}

// ---------------------------------------------------------------- cases (R)

type SpecOut struct {
	OK  bool      `json:"ok"`
	C   []string  `json:"c"`
	Typ int       `json:"typ"`
	V   *rb.Item  `json:"v"`
	Sc  []Sidecar `json:"sc"`
	Bin rb.B      `json:"bin"`
	Pre rb.B      `json:"pre"`
}

type Case struct {
	Base int     `json:"base"`
	Kind string  `json:"kind"`
	Pos  int     `json:"pos"`
	Sym  int     `json:"sym"`
	In   rb.B    `json:"in"`
	Net  rb.B    `json:"net"`
	RBin SpecOut `json:"rbin"`
	RNet SpecOut `json:"rnet"`
	Lst  rb.B    `json:"lst"`
	RLst struct {
		OK   bool     `json:"ok"`
		C    []string `json:"c"`
		Bins []rb.B   `json:"bins"`
	} `json:"rlst"`
}

func hasClass(cs []string, c string) bool {
	for _, x := range cs {
		if x == c {
			return true
		}
	}
	return false
}

// compare checks one observation against the specification's result; form is "binary" (input
// is the canonical form) or "network" (input is the RLP list element).
func compare(sum *tl.Summary, what string, form string, in []byte, got Obs, want SpecOut, extra tl.M) bool {
	bad := func(desc string) {
		extra["in"] = fmt.Sprintf("%x", in)
		extra["got"] = got
		extra["want"] = want
		sum.Violate(fmt.Sprintf("%s(%x): %s", what, in, desc), extra)
	}
	if got.OK != want.OK {
		bad(fmt.Sprintf("implementation %v (%s), specification %v %v", got.OK, got.Err, want.OK, want.C))
		return false
	}
	if !got.OK {
		if !hasClass(want.C, got.Cls) {
			bad(fmt.Sprintf("rejected with class %q (%s), specification allows %v", got.Cls, got.Err, want.C))
		}
		return false
	}
	if got.Typ != want.Typ || want.V == nil || !got.V.Equal(*want.V) {
		bad(fmt.Sprintf("decoded type %d fields %v, specification type %d fields %v", got.Typ, got.V, want.Typ, want.V))
	}
	if !scEqual(got.Sc, want.Sc) {
		bad("decoded sidecar differs from the specification's")
	}
	if !bytes.Equal(got.Bin.Bytes(), want.Bin.Bytes()) {
		bad(fmt.Sprintf("MarshalBinary gives %x, specification %x", got.Bin.Bytes(), want.Bin.Bytes()))
	}
	if form == "binary" && !bytes.Equal(got.Bin.Bytes(), in) {
		bad(fmt.Sprintf("accepted but MarshalBinary gives %x: not canonical", got.Bin.Bytes()))
	}
	if form == "network" && !bytes.Equal(got.Net.Bytes(), in) {
		bad(fmt.Sprintf("accepted but EncodeRLP gives %x: not canonical", got.Net.Bytes()))
	}
	if got.Size != len(want.Bin) {
		bad(fmt.Sprintf("Size() = %d, length of the envelope is %d", got.Size, len(want.Bin)))
	}
	if !bytes.Equal(got.Pre.Bytes(), want.Pre.Bytes()) {
		bad(fmt.Sprintf("envelope without sidecar is %x, specification %x", got.Pre.Bytes(), want.Pre.Bytes()))
	}
	if !got.HashOK {
		bad("Hash() is not the keccak of the specification's preimage (or differs with/without sidecar/caches)")
	}
	if got.NoScSz != len(want.Pre) {
		bad(fmt.Sprintf("WithoutBlobTxSidecar().Size() = %d, length of that envelope is %d", got.NoScSz, len(want.Pre)))
	}
	if got.JSON != "ok" && got.JSON != "skip" {
		bad("JSON round trip: " + got.JSON)
	}
	if got.Err != "" && got.JSON != "skip" {
		bad("re-encoding failed: " + got.Err)
	}
	return true
}

func runCases(path string, sum *tl.Summary) {
	var cases []Case
	tl.ReadJSON(path, &cases)
	if len(cases) == 0 {
		tl.Fatal("no cases in %s", path)
	}
	jsonOK, jsonSkip := 0, 0
	for i, c := range cases {
		in, net := c.In.Bytes(), c.Net.Bytes()
		extra := func() tl.M { return tl.M{"base": c.Base, "kind": c.Kind, "pos": c.Pos, "sym": c.Sym} }
		g := decodeBinary(in)
		acc := compare(sum, "UnmarshalBinary", "binary", in, g, c.RBin, extra())
		sum.Count("UnmarshalBinary")
		gn := decodeNetwork(net)
		accn := compare(sum, "DecodeRLP", "network", net, gn, c.RNet, extra())
		sum.Count("DecodeRLP")
		// the same element followed by a second transaction, decoded as a list in one call
		if len(c.Lst) > 0 {
			var txs []*types.Transaction
			lst := c.Lst.Bytes()
			err := rlp.DecodeBytes(lst, &txs)
			sum.Count("DecodeList")
			sum.Evaluations++
			switch {
			case (err == nil) != c.RLst.OK:
				sum.Violate(fmt.Sprintf("DecodeBytes(%x) into []*Transaction: implementation ok=%v (%v), specification ok=%v %v", lst, err == nil, err, c.RLst.OK, c.RLst.C), extra())
			case err != nil:
				if !hasClass(c.RLst.C, txClass(err)) {
					sum.Violate(fmt.Sprintf("DecodeBytes(%x) into []*Transaction: rejected with class %q (%v), specification allows %v", lst, txClass(err), err, c.RLst.C), extra())
				}
			default:
				re, _ := rlp.EncodeToBytes(txs)
				same := len(txs) == len(c.RLst.Bins) && bytes.Equal(re, lst)
				for j := 0; same && j < len(txs); j++ {
					b, _ := txs[j].MarshalBinary()
					same = bytes.Equal(b, c.RLst.Bins[j].Bytes()) && int(txs[j].Size()) == len(b)
				}
				if !same {
					sum.Violate(fmt.Sprintf("DecodeBytes(%x) into []*Transaction: elements, sizes or re-encoding differ from the specification", lst), extra())
				}
			}
		}
		sum.Evaluations += 2
		sum.Steps++
		if acc || accn {
			sum.Distinct++
			if g.JSON == "ok" {
				jsonOK++
			} else if g.JSON == "skip" {
				jsonSkip++
			}
		}
		if i%1500 == 3 {
			sum.Sample(tl.M{"in": fmt.Sprintf("%x", in), "accepted": g.OK, "class": g.Cls, "type": g.Typ})
		}
	}
	sum.Extra["json_roundtrips"] = jsonOK
	sum.Extra["json_refused_invalid_values"] = jsonSkip
	sum.Rule = "every single-edit mutation of the base envelopes enumerated by TLC is decoded with UnmarshalBinary and (as list element) DecodeRLP and compared with the specification: verdict, class, fields, sidecar, canonical re-marshalling, hash preimage, sizes, JSON; distinct = mutated envelopes that are accepted"
}

// ---------------------------------------------------------------- record (V)

func randBig(r *rand.Rand, maxBytes int) *big.Int {
	n := []int{0, 1, 1, 2, 8, 9, maxBytes}[r.Intn(7)]
	if n > maxBytes {
		n = maxBytes
	}
	b := make([]byte, n)
	r.Read(b)
	return new(big.Int).SetBytes(b)
}
func randU256(r *rand.Rand) *uint256.Int { return uint256.MustFromBig(randBig(r, 32)) }
func randU64(r *rand.Rand) uint64 {
	switch r.Intn(5) {
	case 0:
		return 0
	case 1:
		return uint64(r.Intn(256))
	}
	return r.Uint64() >> uint(8*r.Intn(8))
}
func randAddr(r *rand.Rand) common.Address {
	var a common.Address
	r.Read(a[:])
	if r.Intn(4) == 0 {
		a[0] = 0
	}
	return a
}
func randTo(r *rand.Rand) *common.Address {
	if r.Intn(3) == 0 {
		return nil
	}
	a := randAddr(r)
	return &a
}
func randData(r *rand.Rand) []byte {
	n := []int{0, 0, 1, 1, 4, 36, 55, 56, 70, 200}[r.Intn(10)]
	b := make([]byte, n)
	r.Read(b)
	if n == 1 && r.Intn(2) == 0 {
		b[0] &= 0x7f
	}
	return b
}
func randAL(r *rand.Rand) types.AccessList {
	n := []int{0, 0, 1, 2}[r.Intn(4)]
	al := make(types.AccessList, n)
	for i := range al {
		al[i].Address = randAddr(r)
		al[i].StorageKeys = make([]common.Hash, r.Intn(3))
		for j := range al[i].StorageKeys {
			r.Read(al[i].StorageKeys[j][:])
		}
	}
	return al
}

var chainID = big.NewInt(1337)

func randTx(r *rand.Rand, key *ecdsa.PrivateKey, withBlob bool) *types.Transaction {
	var inner types.TxData
	kind := r.Intn(6)
	if withBlob {
		kind = 3
	}
	switch kind {
	case 0:
		inner = &types.LegacyTx{Nonce: randU64(r), GasPrice: randBig(r, 32), Gas: randU64(r), To: randTo(r), Value: randBig(r, 32), Data: randData(r)}
	case 1:
		inner = &types.AccessListTx{ChainID: chainID, Nonce: randU64(r), GasPrice: randBig(r, 32), Gas: randU64(r), To: randTo(r), Value: randBig(r, 32), Data: randData(r), AccessList: randAL(r)}
	case 2:
		inner = &types.DynamicFeeTx{ChainID: chainID, Nonce: randU64(r), GasTipCap: randBig(r, 32), GasFeeCap: randBig(r, 32), Gas: randU64(r), To: randTo(r), Value: randBig(r, 32), Data: randData(r), AccessList: randAL(r)}
	case 3, 4:
		nh := 1 + r.Intn(3)
		hs := make([]common.Hash, nh)
		for i := range hs {
			r.Read(hs[i][:])
			hs[i][0] = 1
		}
		btx := &types.BlobTx{ChainID: uint256.MustFromBig(chainID), Nonce: randU64(r), GasTipCap: randU256(r), GasFeeCap: randU256(r), Gas: randU64(r), To: randAddr(r), Value: randU256(r), Data: randData(r),
			AccessList: randAL(r), BlobFeeCap: randU256(r), BlobHashes: hs}
		if withBlob || r.Intn(2) == 0 {
			// sidecar: list lengths are not constrained by the envelope grammar
			sc := &types.BlobTxSidecar{Version: byte(r.Intn(2))}
			nb := 0
			if withBlob {
				nb = 1
			}
			sc.Blobs = make([]kzg4844.Blob, nb)
			for i := range sc.Blobs {
				r.Read(sc.Blobs[i][:64])
			}
			sc.Commitments = make([]kzg4844.Commitment, r.Intn(3))
			for i := range sc.Commitments {
				r.Read(sc.Commitments[i][:])
			}
			sc.Proofs = make([]kzg4844.Proof, r.Intn(3))
			for i := range sc.Proofs {
				r.Read(sc.Proofs[i][:])
			}
			btx.Sidecar = sc
		}
		inner = btx
	default:
		as := make([]types.SetCodeAuthorization, 1+r.Intn(2)) // EIP-7702: an empty list is invalid (and JSON refuses it)
		for i := range as {
			as[i] = types.SetCodeAuthorization{ChainID: *randU256(r), Address: randAddr(r), Nonce: randU64(r), V: uint8(r.Intn(2)), R: *randU256(r), S: *randU256(r)}
		}
		inner = &types.SetCodeTx{ChainID: uint256.MustFromBig(chainID), Nonce: randU64(r), GasTipCap: randU256(r), GasFeeCap: randU256(r), Gas: randU64(r), To: randAddr(r), Value: randU256(r), Data: randData(r),
			AccessList: randAL(r), AuthList: as}
	}
	tx, err := types.SignNewTx(key, types.LatestSignerForChainID(chainID), inner)
	if err != nil {
		tl.Fatal("sign: %v", err)
	}
	return tx
}

var alphabet = []byte{0x00, 0x01, 0x37, 0x38, 0x7f, 0x80, 0x81, 0x82, 0x94, 0xa0, 0xb7, 0xb8, 0xb9, 0xc0, 0xc1, 0xf7, 0xf8, 0xf9, 0xff}

func mutate(r *rand.Rand, enc []byte) []byte {
	m := append([]byte{}, enc...)
	// header positions are near the front; bias towards them
	pos := func() int {
		if r.Intn(2) == 0 && len(m) > 12 {
			return r.Intn(12)
		}
		return r.Intn(len(m))
	}
	switch r.Intn(8) {
	case 0:
		m[pos()] ^= 1 << uint(r.Intn(8))
	case 1:
		m[pos()] = alphabet[r.Intn(len(alphabet))]
	case 2:
		p := pos()
		m = append(m[:p], append([]byte{alphabet[r.Intn(len(alphabet))]}, m[p:]...)...)
	case 3:
		p := pos()
		m = append(m[:p], m[p+1:]...)
	case 4:
		m = m[:r.Intn(len(m))]
	case 5:
		m = append(m, alphabet[r.Intn(len(alphabet))])
	case 6:
		m[pos()]++
	case 7:
		m[pos()]--
	}
	return m
}

func emitObs(tr *tl.Trace, op string, in []byte, o Obs) {
	tr.Emit(tl.M{"op": op, "in": rb.FromBytes(in), "ok": o.OK, "cls": o.Cls, "typ": o.Typ, "v": o.V, "sc": o.Sc, "bin": o.Bin, "net": o.Net,
		"size": o.Size, "pre": o.Pre, "hashok": o.HashOK, "noscsz": o.NoScSz, "json": o.JSON})
}

// emitTxList decodes an RLP list of transactions in one call and records what every element looks like.
func emitTxList(tr *tl.Trace, in []byte) {
	var txs []*types.Transaction
	err := rlp.DecodeBytes(in, &txs)
	ev := tl.M{"op": "txlist", "in": rb.FromBytes(in), "ok": err == nil, "cls": txClass(err), "bins": []rb.B{}, "sizes": []int{}, "hashok": true, "reenc": rb.B{}}
	if err == nil {
		bins, sizes, hashok := []rb.B{}, []int{}, true
		for _, tx := range txs {
			b, _ := tx.MarshalBinary()
			bins = append(bins, rb.FromBytes(b))
			sizes = append(sizes, int(tx.Size()))
			pre, _ := tx.WithoutBlobTxSidecar().MarshalBinary()
			hashok = hashok && tx.Hash() == crypto.Keccak256Hash(pre)
		}
		re, _ := rlp.EncodeToBytes(txs)
		ev["bins"], ev["sizes"], ev["hashok"], ev["reenc"] = bins, sizes, hashok, rb.FromBytes(re)
	}
	tr.Emit(ev)
}

func runRecord(path string, seed int64, n, nblob int, sum *tl.Summary) {
	r := tl.Rand(seed)
	kb := make([]byte, 32)
	r.Read(kb)
	kb[0] = 1
	key, err := crypto.ToECDSA(kb)
	if err != nil {
		tl.Fatal("key: %v", err)
	}
	tr := tl.NewTrace(path)
	defer tr.Close()
	seen := map[string]bool{}
	var pool [][]byte // network forms of earlier (small) transactions
	for i := 0; i < n; i++ {
		tx := randTx(r, key, i < nblob)
		o := observe(tx)
		if o.Err != "" && o.JSON != "skip" {
			tl.Fatal("observe: %s", o.Err)
		}
		// the generated transaction: its marshalled forms are the specification's encodings of its fields
		tr.Emit(tl.M{"op": "marshal", "typ": o.Typ, "v": o.V, "sc": o.Sc, "bin": o.Bin, "net": o.Net, "size": o.Size, "pre": o.Pre,
			"hashok": o.HashOK, "noscsz": o.NoScSz, "json": o.JSON})
		sum.Count("marshal")
		bin, net := o.Bin.Bytes(), o.Net.Bytes()
		if i < 3 {
			sum.Sample(tl.M{"type": o.Typ, "bin": fmt.Sprintf("%x", bin[:min(len(bin), 80)]), "size": o.Size, "sidecar": len(o.Sc)})
		}
		if len(bin) > 2000 {
			// a real blob: only the exact encodings are decoded (each event carries 128 kB)
			emitObs(tr, "unmarshal", bin, decodeBinary(bin))
			sum.Count("unmarshal")
			sum.Evaluations++
			continue
		}
		inputs := [][]byte{bin}
		for k := 0; k < 4; k++ {
			inputs = append(inputs, mutate(r, bin))
		}
		for _, in := range inputs {
			emitObs(tr, "unmarshal", in, decodeBinary(in))
			sum.Count("unmarshal")
			if !seen[string(in)] {
				seen[string(in)] = true
				sum.Distinct++
			}
		}
		// lists of transactions as they travel in block bodies and transaction messages
		pool = append(pool, net)
		if len(pool) >= 2 && i%2 == 1 {
			k := 1 + r.Intn(min(4, len(pool)))
			var payload []byte
			for j := 0; j < k; j++ {
				payload = append(payload, pool[r.Intn(len(pool))]...)
			}
			list := rb.EncodeItem(rb.L([]rb.Item{rb.R(payload)}), nil, 0)
			if len(list) < 3000 {
				for _, in := range [][]byte{list, mutate(r, list), mutate(r, list)} {
					emitTxList(tr, in)
					sum.Count("txlist")
				}
			}
		}
		ninputs := [][]byte{net, mutate(r, net), mutate(r, net)}
		for _, in := range ninputs {
			emitObs(tr, "decoderlp", in, decodeNetwork(in))
			sum.Count("decoderlp")
		}
		sum.Evaluations++
	}
	sum.Traces = 1
	sum.Steps = tr.N
	sum.Rule = "seeded random signed transactions of all five types (blob transactions with and without v0/v1 sidecars), MarshalBinary/EncodeRLP, then UnmarshalBinary/DecodeRLP of the encodings and of byte mutations; distinct = distinct binary inputs decoded"
}

func main() {
	mode := flag.String("mode", "record", "cases|record")
	in := flag.String("in", "", "cases json (mode cases)")
	trace := flag.String("trace", "trace.ndjson", "output trace (mode record)")
	out := flag.String("out", "summary.json", "summary output")
	n := flag.Int("n", 100, "number of random transactions")
	nblob := flag.Int("blobs", 1, "how many of the sidecars carry one real 128 kB blob")
	flag.Parse()
	seed := int64(tl.EnvInt("VERIF_SEED", 1))
	sum := tl.NewSummary("c02", *mode, seed)
	switch *mode {
	case "cases":
		sum.Mode = "replay"
		runCases(*in, sum)
	case "record":
		runRecord(*trace, seed, *n, *nblob, sum)
	default:
		tl.Fatal("bad mode")
	}
	sum.Write(*out)
	if len(sum.Violations) > 0 {
		os.Exit(1)
	}
}
