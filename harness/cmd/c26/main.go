// c26 binds spec/evm/MiniEVM.tla to the real EVM and state transition (property C26).
//
//	-mode record -trace t.ndjson -n N    generated worlds/transactions executed with
//	      core.ApplyMessage under an opcode-granularity tracer; every transaction becomes
//	      tx / enter / opc / exit / txend events validated by MiniEVMTrace.tla (V)
//	-mode replay -in cases.json          TLC-computed (world, tx, expected result) cases
//	      executed on the real code and compared (R)
package main

import (
	"flag"
	"fmt"
	"math/big"
	"os"

	me "verif/harness/minievm"
	tl "verif/harness/tracelib"
)

func runRecord(path string, seed int64, n int, maxOps int, sum *tl.Summary) {
	r := tl.Rand(seed)
	tr := tl.NewTrace(path)
	defer tr.Close()
	shapes := map[string]bool{}
	opsSeen := map[int]bool{}
	for i := 0; i < n; i++ {
		sc := me.GenScenario(r)
		me.ChooseGas(r, sc)
		res := me.Execute(sc.W, sc.Tx, sc.Data, true)
		sum.Evaluations++
		if res.Tr.Unmodeled != "" {
			sum.Count("skipped-unmodeled")
			continue
		}
		if res.Valid && sc.Tx.Gas > 4_200_000 {
			sum.Count("skipped-gas")
			continue
		}
		if res.Tr.NOps > maxOps {
			sum.Count("skipped-long")
			continue
		}
		sc.Tx.DataW = res.Tr.In.Words(sc.Data)
		p, fits := me.Post(res, sc.W, sc.Tx)
		if !fits {
			sum.Count("skipped-bigbalance")
			continue
		}
		tr.Emit(tl.M{"op": "tx", "tx": sc.Tx, "accts": me.AcctsOf(sc.W)})
		shape := fmt.Sprint(sc.Kind, sc.Tx.Fork, res.Valid, res.Ok)
		for _, e := range res.Tr.Events {
			tr.Emit(e)
			if e["op"] == "opc" {
				opsSeen[e["opc"].(int)] = true
				if e["err"].(bool) {
					sum.Count("fault-ops")
				}
			}
			if e["op"] == "enter" {
				sum.Count("frames-" + e["typ"].(string))
			}
		}
		if !res.Valid {
			tr.Emit(tl.M{"op": "txend", "valid": false, "ok": false, "gasUsed": 0, "post": []tl.M{}, "logs": []tl.M{}})
			sum.Count("tx-invalid")
		} else {
			tr.Emit(tl.M{"op": "txend", "valid": true, "ok": res.Ok, "gasUsed": res.GasUsed, "post": p, "logs": me.LogsOf(res)})
			if res.Ok {
				sum.Count("tx-ok")
			} else {
				sum.Count("tx-failed")
			}
		}
		sum.Count("kind-" + sc.Kind)
		sum.Count("fork-" + sc.Tx.Fork)
		sum.Steps += res.Tr.NOps
		if !shapes[shape] {
			shapes[shape] = true
		}
		if sum.Traces < 2 {
			sum.Sample(tl.M{"kind": sc.Kind, "fork": sc.Tx.Fork, "gas": sc.Tx.Gas, "ops": res.Tr.NOps, "ok": res.Ok, "gasUsed": res.GasUsed})
		}
		sum.Traces++
	}
	sum.Distinct = len(opsSeen)*1000 + len(shapes)
	sum.Extra["distinct_opcodes"] = len(opsSeen)
	sum.Extra["events"] = tr.N
	sum.Rule = "each trace = one generated transaction executed by core.ApplyMessage under an opcode tracer; distinct = 1000 * distinct opcodes executed + distinct (kind, fork, valid, ok) shapes"
	_ = big.NewInt
}

func main() {
	mode := flag.String("mode", "record", "record|replay")
	trace := flag.String("trace", "trace.ndjson", "output trace")
	out := flag.String("out", "summary.json", "summary output")
	n := flag.Int("n", 100, "number of transactions")
	maxOps := flag.Int("maxops", 400, "skip transactions executing more opcodes than this")
	in := flag.String("in", "", "cases (mode replay)")
	evmBin := flag.String("evm", "", "path of the evm tool (mode t8n)")
	flag.Parse()
	seed := int64(tl.EnvInt("VERIF_SEED", 1))
	sum := tl.NewSummary("c26", *mode, seed)
	switch *mode {
	case "record":
		runRecord(*trace, seed, *n, *maxOps, sum)
	case "replay":
		runReplay(*in, sum)
	case "t8n":
		runT8nMode(*trace, *evmBin, seed, *n, *maxOps, sum)
	default:
		tl.Fatal("bad mode")
	}
	sum.Write(*out)
	if len(sum.Violations) > 0 {
		os.Exit(1)
	}
}
