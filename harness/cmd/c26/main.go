// c26 binds spec/evm/MiniEVM.tla to the real EVM and state transition (property C26).
//
//	-mode record -trace t.ndjson -n N    generated worlds/transactions executed with
//	      core.ApplyMessage under an opcode-granularity tracer; every transaction becomes
//	      tx / enter / opc / exit / txend events validated by MiniEVMTrace.tla (V)
//	-mode replay -in cases.json          TLC-computed (world, tx, expected result) cases
//	      executed on the real code and compared (R)
package main

import (
	"flag"
	"fmt"
	"math/big"
	"math/rand"
	"os"
	"sort"

	"github.com/ethereum/go-ethereum/common"
	"github.com/ethereum/go-ethereum/core"
	"github.com/ethereum/go-ethereum/core/state"
	"github.com/ethereum/go-ethereum/core/types"
	"github.com/ethereum/go-ethereum/core/vm"
	"github.com/holiman/uint256"
	me "verif/harness/minievm"
	tl "verif/harness/tracelib"
)

// Tx is the transaction + block context of one case (all numbers < 2^31).
type Tx struct {
	Fork      string  `json:"fork"`
	From      int64   `json:"from"`
	To        int64   `json:"to"`
	IsCreate  bool    `json:"isCreate"`
	Value     uint64  `json:"value"`
	Gas       uint64  `json:"gas"`
	Price     uint64  `json:"price"`
	FeeCap    uint64  `json:"feeCap"`
	Tip       uint64  `json:"tip"`
	BaseFee   uint64  `json:"baseFee"`
	Nonce     uint64  `json:"nonce"`
	Data      []int   `json:"data"`
	DataW     []int64 `json:"dataw"`
	AlAddrs   []int64 `json:"alAddrs"`
	AlKeys    [][]int64 `json:"alKeys"`
	Coinbase  int64   `json:"coinbase"`
	BlockGas  uint64  `json:"blockGas"`
	SkipNonce bool    `json:"skipNonce"`
}

type Acct struct {
	Addr  int64     `json:"addr"`
	Bal   uint64    `json:"bal"`
	Nonce uint64    `json:"nonce"`
	Code  []int     `json:"code"`
	Stor  [][]int64 `json:"stor"`
}

func acctsOf(w *me.World) []Acct {
	out := []Acct{}
	for _, a := range w.Accounts {
		st := [][]int64{}
		for _, k := range a.SortedSlots() {
			if a.Storage[k] != 0 {
				st = append(st, []int64{int64(k), int64(a.Storage[k])})
			}
		}
		out = append(out, Acct{int64(a.Addr), a.Balance, a.Nonce, me.Bytes(a.Code), st})
	}
	return out
}

type result struct {
	valid   bool
	ok      bool
	gasUsed uint64
	st      *state.StateDB
	tr      *me.Tracer
}

// execute runs one transaction on a fresh state; traced selects full event recording.
func execute(w *me.World, tx *Tx, data []byte, traced bool) *result {
	cfg := me.ChainConfig(tx.Fork)
	header := me.Header(tx.BlockGas, tx.BaseFee)
	rules := cfg.Rules(header.Number, true, header.Time)
	st := w.NewState(rules)
	tr := me.NewTracer()
	tr.Light = !traced
	bctx := core.NewEVMBlockContext(header, me.NewChain(cfg), nil)
	evm := vm.NewEVM(bctx, st, cfg, vm.Config{Tracer: tr.Hooks()})
	defer evm.Release()
	msg := &core.Message{
		From:            me.Addr(uint64(tx.From)),
		Nonce:           tx.Nonce,
		Value:           uint256.NewInt(tx.Value),
		GasLimit:        tx.Gas,
		GasPrice:        uint256.NewInt(tx.Price),
		GasFeeCap:       uint256.NewInt(tx.FeeCap),
		GasTipCap:       uint256.NewInt(tx.Tip),
		Data:            data,
		SkipNonceChecks: tx.SkipNonce,
	}
	if !tx.IsCreate {
		a := me.Addr(uint64(tx.To))
		msg.To = &a
	}
	for i, a := range tx.AlAddrs {
		tup := types.AccessTuple{Address: me.Addr(uint64(a))}
		for _, k := range tx.AlKeys {
			if k[0] == a && firstIndex(tx.AlAddrs, a) == i {
				tup.StorageKeys = append(tup.StorageKeys, me.U2H(uint64(k[1])))
			}
		}
		msg.AccessList = append(msg.AccessList, tup)
	}
	st.SetTxContext(common.Hash{1}, 0, 0)
	gp := core.NewGasPool(tx.BlockGas)
	res, err := core.ApplyMessage(evm, msg, gp)
	out := &result{st: st, tr: tr}
	if err != nil {
		if os.Getenv("C26_DEBUG") != "" {
			fmt.Fprintln(os.Stderr, "invalid:", err)
		}
		return out
	}
	st.Finalise(rules)
	out.valid, out.ok, out.gasUsed = true, !res.Failed(), res.UsedGas
	return out
}

func firstIndex(xs []int64, x int64) int {
	for i, y := range xs {
		if y == x {
			return i
		}
	}
	return -1
}

// post dumps the accounts the specification is asked about.
func post(r *result, w *me.World, tx *Tx) ([]tl.M, bool) {
	in := r.tr.In
	addrs := map[int64]common.Address{}
	for _, a := range w.Accounts {
		addrs[int64(a.Addr)] = me.Addr(a.Addr)
	}
	addrs[tx.Coinbase] = me.Addr(uint64(tx.Coinbase))
	if !tx.IsCreate {
		addrs[tx.To] = me.Addr(uint64(tx.To))
	}
	// created contracts / callees / beneficiaries seen by the tracer
	for k := range r.tr.Addrs {
		if _, ok := addrs[k]; !ok {
			if a, ok := in.RealAddr(k); ok {
				addrs[k] = a
			}
		}
	}
	keys := make([]int64, 0, len(addrs))
	for k := range addrs {
		keys = append(keys, k)
	}
	sort.Slice(keys, func(i, j int) bool { return keys[i] < keys[j] })
	out := []tl.M{}
	fits := true
	for _, k := range keys {
		a := addrs[k]
		bal := r.st.GetBalance(a)
		if !bal.IsUint64() || bal.Uint64() >= 1<<31 {
			fits = false
			continue
		}
		slots := map[int64]bool{}
		if pa := w.Get(uint64(k)); pa != nil && k >= 0 {
			for s := range pa.Storage {
				slots[int64(s)] = true
			}
		}
		for s := range r.tr.Slots[k] {
			slots[s] = true
		}
		sk := make([]int64, 0, len(slots))
		for s := range slots {
			sk = append(sk, s)
		}
		sort.Slice(sk, func(i, j int) bool { return sk[i] < sk[j] })
		stor := [][]int64{}
		for _, s := range sk {
			key, ok := in.RealWord(s)
			if !ok {
				continue
			}
			v := r.st.GetState(a, key)
			stor = append(stor, []int64{s, in.Word(new(uint256.Int).SetBytes(v[:]))})
		}
		out = append(out, tl.M{"addr": k, "bal": bal.Uint64(), "nonce": r.st.GetNonce(a), "clen": len(r.st.GetCode(a)), "stor": stor})
	}
	return out, fits
}

func logsOf(r *result) []tl.M {
	out := []tl.M{}
	for _, l := range r.st.Logs() {
		tops := []int64{}
		for _, t := range l.Topics {
			tops = append(tops, r.tr.In.Word(new(uint256.Int).SetBytes(t[:])))
		}
		out = append(out, tl.M{"addr": r.tr.In.Addr(l.Address), "topics": tops, "data": r.tr.In.Words(l.Data), "dlen": len(l.Data)})
	}
	return out
}

// ---------------------------------------------------------------- scenario generation

type scenario struct {
	w    *me.World
	tx   *Tx
	data []byte
	kind string
}

func genScenario(r *rand.Rand) *scenario {
	w := &me.World{}
	fork := me.Forks[r.Intn(3)]
	rich := r.Intn(3) != 0
	leaf := me.Opts{MaxDepth: 1, Stmts: 4, FailBias: 3, AllowOpaque: rich, AllowBig: r.Intn(2) == 0, AllowGas: r.Intn(2) == 0,
		AllowDestruct: r.Intn(3) == 0, IgnoreCallFail: true}
	mid := leaf
	mid.Targets = []uint64{me.AddrC3, me.AddrC1}
	top := me.Opts{MaxDepth: 2, Stmts: 6, FailBias: 1, Targets: []uint64{me.AddrC2, me.AddrC3}, AllowOpaque: rich, AllowBig: r.Intn(2) == 0,
		AllowGas: r.Intn(2) == 0, AllowCreate: r.Intn(3) == 0, AllowDestruct: r.Intn(4) == 0, IgnoreCallFail: true}
	code := func(o me.Opts) []byte {
		if r.Intn(12) == 0 {
			return me.RawProgram(r, 10+r.Intn(40))
		}
		return me.Generate(r, o).Code
	}
	mkStore := func() map[uint64]uint64 {
		m := map[uint64]uint64{}
		for s := uint64(0); s < 3; s++ {
			if r.Intn(2) == 0 {
				m[s] = uint64(1 + r.Intn(2))
			}
		}
		return m
	}
	w.Add(&me.Account{Addr: me.AddrC1, Balance: uint64(r.Intn(3000)), Nonce: 1, Code: code(top), Storage: mkStore()})
	w.Add(&me.Account{Addr: me.AddrC2, Balance: uint64(r.Intn(3000)), Nonce: 1, Code: code(mid), Storage: mkStore()})
	w.Add(&me.Account{Addr: me.AddrC3, Balance: uint64(r.Intn(3000)), Nonce: 1, Code: code(leaf), Storage: mkStore()})
	w.Add(&me.Account{Addr: me.AddrEOA2, Balance: uint64(r.Intn(10)), Nonce: uint64(r.Intn(2))})
	if r.Intn(3) == 0 {
		w.Add(&me.Account{Addr: me.AddrCoinbase, Balance: uint64(r.Intn(10))})
	}
	tx := &Tx{Fork: fork, From: me.AddrSender, Coinbase: me.AddrCoinbase, BlockGas: 30_000_000, AlAddrs: []int64{}, AlKeys: [][]int64{}, Data: []int{}, DataW: []int64{}}
	tx.BaseFee = uint64(r.Intn(8))
	tx.Tip = uint64(r.Intn(4))
	tx.FeeCap = tx.BaseFee + tx.Tip + uint64(r.Intn(3))
	if r.Intn(4) == 0 {
		tx.FeeCap = tx.BaseFee + uint64(r.Intn(3)) // price capped by the fee cap
		tx.Tip = min(tx.Tip, tx.FeeCap)
	}
	tx.Price = min(tx.FeeCap, tx.BaseFee+tx.Tip)
	tx.Nonce = uint64(r.Intn(3))
	if r.Intn(3) == 0 {
		tx.Value = uint64(r.Intn(2000))
	}
	sc := &scenario{w: w, tx: tx}
	switch k := r.Intn(20); {
	case k < 1:
		sc.kind = "transfer"
		tx.To = []int64{me.AddrEOA2, me.AddrEmpty, 4, 2}[r.Intn(4)]
	case k < 4:
		sc.kind = "create"
		tx.IsCreate = true
		rt := me.Generate(r, leaf).Code
		if r.Intn(3) == 0 {
			sc.data = me.InitCode(me.Generate(r, top).Code, rt, true)
		} else {
			sc.data = me.InitCode(nil, rt, false)
		}
	default:
		sc.kind = "call"
		tx.To = me.AddrC1
		nw := r.Intn(4)
		for i := 0; i < nw; i++ {
			word := make([]byte, 32)
			word[31] = byte(r.Intn(4))
			if r.Intn(6) == 0 {
				word[r.Intn(32)] = byte(r.Intn(256))
			}
			sc.data = append(sc.data, word...)
		}
		if r.Intn(6) == 0 {
			sc.data = append(sc.data, byte(r.Intn(3)), 7)
		}
	}
	tx.Data = me.Bytes(sc.data)
	// access list
	if r.Intn(3) == 0 {
		for _, a := range []int64{me.AddrC1, me.AddrC2, me.AddrC3, me.AddrEOA2, me.AddrEmpty} {
			if r.Intn(3) == 0 {
				tx.AlAddrs = append(tx.AlAddrs, a)
				for s := int64(0); s < 3; s++ {
					if r.Intn(3) == 0 {
						tx.AlKeys = append(tx.AlKeys, []int64{a, s})
					}
				}
			}
		}
	}
	w.Add(&me.Account{Addr: me.AddrSender, Balance: 900_000_000 + uint64(r.Intn(100_000_000)), Nonce: tx.Nonce})
	// occasionally an invalid transaction
	switch r.Intn(40) {
	case 0:
		tx.Nonce++
	case 1:
		w.Get(me.AddrSender).Balance = uint64(r.Intn(50000))
	case 2:
		tx.FeeCap = tx.BaseFee - min(tx.BaseFee, 1)
		tx.Tip = min(tx.Tip, tx.FeeCap)
		tx.Price = tx.FeeCap
	case 3:
		tx.BlockGas = 100_000
	}
	return sc
}

// chooseGas picks the gas limit: generous, or somewhere below what a generous run used
// (so that execution runs out of gas at an arbitrary point).
func chooseGas(r *rand.Rand, sc *scenario) {
	sc.tx.Gas = 1_000_000 + uint64(r.Intn(2_000_000))
	if r.Intn(5) < 2 {
		return
	}
	probe := execute(sc.w, sc.tx, sc.data, false)
	if !probe.valid {
		return
	}
	used := probe.gasUsed
	switch r.Intn(4) {
	case 0:
		sc.tx.Gas = used + uint64(r.Intn(3000))
	case 1:
		sc.tx.Gas = 20000 + uint64(r.Int63n(int64(used)))
	default:
		lo := uint64(21000)
		if used > lo {
			sc.tx.Gas = lo + uint64(r.Int63n(int64(used-lo+1)))
		} else {
			sc.tx.Gas = used
		}
	}
	if sc.tx.Fork == "osaka" && r.Intn(60) == 0 {
		sc.tx.Gas = 16_777_217 + uint64(r.Intn(3)) // above the EIP-7825 cap: invalid
	}
}

func runRecord(path string, seed int64, n int, maxOps int, sum *tl.Summary) {
	r := tl.Rand(seed)
	tr := tl.NewTrace(path)
	defer tr.Close()
	shapes := map[string]bool{}
	opsSeen := map[int]bool{}
	for i := 0; i < n; i++ {
		sc := genScenario(r)
		chooseGas(r, sc)
		res := execute(sc.w, sc.tx, sc.data, true)
		sum.Evaluations++
		if res.tr.Unmodeled != "" {
			sum.Count("skipped-unmodeled")
			continue
		}
		if res.valid && sc.tx.Gas > 4_200_000 {
			sum.Count("skipped-gas")
			continue
		}
		if res.tr.NOps > maxOps {
			sum.Count("skipped-long")
			continue
		}
		sc.tx.DataW = res.tr.In.Words(sc.data)
		p, fits := post(res, sc.w, sc.tx)
		if !fits {
			sum.Count("skipped-bigbalance")
			continue
		}
		tr.Emit(tl.M{"op": "tx", "tx": sc.tx, "accts": acctsOf(sc.w)})
		shape := fmt.Sprint(sc.kind, sc.tx.Fork, res.valid, res.ok)
		for _, e := range res.tr.Events {
			tr.Emit(e)
			if e["op"] == "opc" {
				opsSeen[e["opc"].(int)] = true
				if e["err"].(bool) {
					sum.Count("fault-ops")
				}
			}
			if e["op"] == "enter" {
				sum.Count("frames-" + e["typ"].(string))
			}
		}
		if !res.valid {
			tr.Emit(tl.M{"op": "txend", "valid": false, "ok": false, "gasUsed": 0, "post": []tl.M{}, "logs": []tl.M{}})
			sum.Count("tx-invalid")
		} else {
			tr.Emit(tl.M{"op": "txend", "valid": true, "ok": res.ok, "gasUsed": res.gasUsed, "post": p, "logs": logsOf(res)})
			if res.ok {
				sum.Count("tx-ok")
			} else {
				sum.Count("tx-failed")
			}
		}
		sum.Count("kind-" + sc.kind)
		sum.Count("fork-" + sc.tx.Fork)
		sum.Steps += res.tr.NOps
		if !shapes[shape] {
			shapes[shape] = true
		}
		if sum.Traces < 2 {
			sum.Sample(tl.M{"kind": sc.kind, "fork": sc.tx.Fork, "gas": sc.tx.Gas, "ops": res.tr.NOps, "ok": res.ok, "gasUsed": res.gasUsed})
		}
		sum.Traces++
	}
	sum.Distinct = len(opsSeen)*1000 + len(shapes)
	sum.Extra["distinct_opcodes"] = len(opsSeen)
	sum.Extra["events"] = tr.N
	sum.Rule = "each trace = one generated transaction executed by core.ApplyMessage under an opcode tracer; distinct = 1000 * distinct opcodes executed + distinct (kind, fork, valid, ok) shapes"
	_ = big.NewInt
}

func main() {
	mode := flag.String("mode", "record", "record|replay")
	trace := flag.String("trace", "trace.ndjson", "output trace")
	out := flag.String("out", "summary.json", "summary output")
	n := flag.Int("n", 100, "number of transactions")
	maxOps := flag.Int("maxops", 400, "skip transactions executing more opcodes than this")
	in := flag.String("in", "", "cases (mode replay)")
	flag.Parse()
	seed := int64(tl.EnvInt("VERIF_SEED", 1))
	sum := tl.NewSummary("c26", *mode, seed)
	switch *mode {
	case "record":
		runRecord(*trace, seed, *n, *maxOps, sum)
	case "replay":
		runReplay(*in, sum)
	default:
		tl.Fatal("bad mode")
	}
	sum.Write(*out)
	if len(sum.Violations) > 0 {
		os.Exit(1)
	}
}
