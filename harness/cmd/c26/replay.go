package main

import tl "verif/harness/tracelib"

func runReplay(in string, sum *tl.Summary) {
	tl.Fatal("replay mode not built yet")
}
