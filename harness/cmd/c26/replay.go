package main

import (
	"bytes"
	"fmt"

	"github.com/ethereum/go-ethereum/common"
	"github.com/ethereum/go-ethereum/crypto"
	me "verif/harness/minievm"
	tl "verif/harness/tracelib"
)

type expectAcct struct {
	Addr  int64     `json:"addr"`
	Bal   uint64    `json:"bal"`
	Nonce uint64    `json:"nonce"`
	Clen  int       `json:"clen"`
	Stor  [][]int64 `json:"stor"`
}

type tcase struct {
	Tx    me.Tx     `json:"tx"`
	Accts []me.Acct `json:"accts"`
	Extra struct {
		Init []int  `json:"init"`
		C2   bool   `json:"c2"`
		Salt uint64 `json:"salt"`
	} `json:"extra"`
	Expect struct {
		Valid    bool         `json:"valid"`
		Ok       bool         `json:"ok"`
		GasUsed  uint64       `json:"gasUsed"`
		Coinbase uint64       `json:"coinbase"`
		Post     []expectAcct `json:"post"`
		NLogs    int          `json:"nlogs"`
	} `json:"expect"`
}

func toBytes(xs []int) []byte {
	out := make([]byte, len(xs))
	for i, x := range xs {
		out[i] = byte(x)
	}
	return out
}

// runReplay executes every TLC-computed case on the real state transition and compares
// validity, status, gas used and the post-state with what MiniEVM.tla computed.
func runReplay(in string, sum *tl.Summary) {
	var cases []tcase
	tl.ReadJSON(in, &cases)
	seen := map[string]bool{}
	for i := range cases {
		c := &cases[i]
		w := &me.World{}
		for _, a := range c.Accts {
			st := map[uint64]uint64{}
			for _, kv := range a.Stor {
				st[uint64(kv[0])] = uint64(kv[1])
			}
			if a.Addr < 0 {
				real := me.AuthAddr(int(-2 - a.Addr))
				w.Add(&me.Account{Real: &real, Tok: a.Addr, Balance: a.Bal, Nonce: a.Nonce, Code: toBytes(a.Code), Storage: st})
				continue
			}
			w.Add(&me.Account{Addr: uint64(a.Addr), Balance: a.Bal, Nonce: a.Nonce, Code: toBytes(a.Code), Storage: st})
		}
		if len(c.Extra.Init) > 0 {
			// family "create": the address the creation is aimed at is a hash; patch the
			// 20 placeholder bytes after PUSH20 in the creator's code with the real one
			creator := me.Addr(me.AddrC1)
			target := crypto.CreateAddress(creator, 1)
			if c.Extra.C2 {
				var salt [32]byte
				salt[31] = byte(c.Extra.Salt)
				target = crypto.CreateAddress2(creator, salt, crypto.Keccak256(toBytes(c.Extra.Init)))
			}
			code := w.Get(me.AddrC1).Code
			ph := append([]byte{0x73}, bytes.Repeat([]byte{0xaa}, 20)...)
			i := bytes.Index(code, ph)
			if i < 0 {
				tl.Fatal("case %d: no address placeholder in the creator's code", i)
			}
			copy(code[i+1:], target[:])
		}
		data := toBytes(c.Tx.Data)
		if c.Tx.To < 0 {
			real := me.AuthAddr(int(-2 - c.Tx.To))
			c.Tx.ToReal = &real
		}
		if c.Tx.SetCode {
			c.Tx.AuthList = me.SignAuths(c.Tx.Auths)
		}
		res := me.Execute(w, &c.Tx, data, false)
		sum.Evaluations++
		sum.Steps += res.Tr.NOps
		key := fmt.Sprint(res.Tr.Digest, res.Valid, res.GasUsed)
		if !seen[key] {
			seen[key] = true
			sum.Distinct++
		}
		var diffs []string
		if res.Valid != c.Expect.Valid {
			diffs = append(diffs, fmt.Sprintf("validity: implementation %v, specification %v", res.Valid, c.Expect.Valid))
		} else if res.Valid {
			sum.Count("valid")
			if res.Ok != c.Expect.Ok {
				diffs = append(diffs, fmt.Sprintf("status: implementation ok=%v, specification ok=%v", res.Ok, c.Expect.Ok))
			}
			if res.GasUsed != c.Expect.GasUsed {
				diffs = append(diffs, fmt.Sprintf("gas used: implementation %d, specification %d", res.GasUsed, c.Expect.GasUsed))
			}
			if cb := res.St.GetBalance(me.Addr(uint64(c.Tx.Coinbase))); !cb.IsUint64() || cb.Uint64() != c.Expect.Coinbase {
				diffs = append(diffs, fmt.Sprintf("coinbase balance: implementation %v, specification %d", cb, c.Expect.Coinbase))
			}
			if n := len(res.St.Logs()); n != c.Expect.NLogs {
				diffs = append(diffs, fmt.Sprintf("logs: implementation %d, specification %d", n, c.Expect.NLogs))
			}
			for _, p := range c.Expect.Post {
				a := me.Addr(uint64(p.Addr))
				if p.Addr < 0 {
					a = me.AuthAddr(int(-2 - p.Addr))
				}
				if b := res.St.GetBalance(a); !b.IsUint64() || b.Uint64() != p.Bal {
					diffs = append(diffs, fmt.Sprintf("balance of %#x: implementation %v, specification %d", p.Addr, b, p.Bal))
				}
				if n := res.St.GetNonce(a); n != p.Nonce {
					diffs = append(diffs, fmt.Sprintf("nonce of %#x: implementation %d, specification %d", p.Addr, n, p.Nonce))
				}
				if l := len(res.St.GetCode(a)); l != p.Clen {
					diffs = append(diffs, fmt.Sprintf("code length of %#x: implementation %d, specification %d", p.Addr, l, p.Clen))
				}
				for _, kv := range p.Stor {
					v := res.St.GetState(a, me.U2H(uint64(kv[0])))
					if v != (common.Hash(me.U2H(uint64(kv[1])))) {
						diffs = append(diffs, fmt.Sprintf("storage %#x[%d]: implementation %x, specification %d", p.Addr, kv[0], v, kv[1]))
					}
				}
			}
		} else {
			sum.Count("invalid")
		}
		if len(diffs) > 0 {
			sum.Violate(fmt.Sprintf("case %d (%s): %s", i, c.Tx.Fork, diffs[0]), tl.M{"case": c, "differences": diffs})
		}
		if i%2000 == 1 {
			sum.Sample(tl.M{"fork": c.Tx.Fork, "gas": c.Tx.Gas, "valid": res.Valid, "ok": res.Ok, "gasUsed": res.GasUsed})
		}
	}
	sum.Rule = "every case (pre-state, transaction, expected receipt and post-state) computed by TLC from MiniEVM.tla is executed with core.ApplyMessage; distinct = distinct (opcode trace digest, validity, gas used)"
}
