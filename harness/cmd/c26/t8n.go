package main

import (
	"bytes"
	"crypto/ecdsa"
	"encoding/json"
	"fmt"
	"math/big"
	"os/exec"
	"strings"
	"time"

	"github.com/ethereum/go-ethereum/common"
	"github.com/ethereum/go-ethereum/common/hexutil"
	"github.com/ethereum/go-ethereum/core/types"
	"github.com/ethereum/go-ethereum/crypto"
	"github.com/ethereum/go-ethereum/params"
	"github.com/holiman/uint256"
	me "verif/harness/minievm"
	tl "verif/harness/tracelib"
)

// The transition tool (`evm t8n`, cmd/evm/internal/t8ntool) is the observation point named by
// C26.  Mode t8n pushes every generated (pre-state, environment, signed transaction) through
// the tool as a subprocess and compares its receipt, rejected list and post-state allocation
// with the direct core.ApplyMessage execution - whose opcode trace is at the same time written
// to the ndjson trace validated by MiniEVMTrace.tla.  So tool output = direct execution =
// specification.

var senderKey *ecdsa.PrivateKey

func init() {
	k, err := crypto.HexToECDSA("45a915e4d060149eb4365960e6a7a45f334393093061116b197e3240065ff2d8")
	if err != nil {
		panic(err)
	}
	senderKey = k
}

type t8nAccount struct {
	Balance *hexutil.Big                `json:"balance"`
	Nonce   hexutil.Uint64              `json:"nonce"`
	Code    hexutil.Bytes               `json:"code"`
	Storage map[common.Hash]common.Hash `json:"storage"`
}

type t8nOut struct {
	Alloc  map[common.Address]t8nAccount `json:"alloc"`
	Result struct {
		Receipts []struct {
			Status  hexutil.Uint64 `json:"status"`
			GasUsed hexutil.Uint64 `json:"gasUsed"`
			Logs    []*types.Log   `json:"logs"`
		} `json:"receipts"`
		Rejected []struct {
			Index int    `json:"index"`
			Err   string `json:"error"`
		} `json:"rejected"`
		GasUsed hexutil.Uint64 `json:"gasUsed"`
	} `json:"result"`
}

func forkName(f string) string { return strings.ToUpper(f[:1]) + f[1:] }

func runT8n(evmBin string, sc *me.Scenario, data []byte) (*t8nOut, error) {
	alloc := map[common.Address]t8nAccount{}
	for _, a := range sc.W.Accounts {
		st := map[common.Hash]common.Hash{}
		for k, v := range a.Storage {
			if v != 0 {
				st[me.U2H(k)] = me.U2H(v)
			}
		}
		alloc[a.Address()] = t8nAccount{Balance: (*hexutil.Big)(new(big.Int).SetUint64(a.Balance)), Nonce: hexutil.Uint64(a.Nonce), Code: a.Code, Storage: st}
	}
	if sc.Tx.Fork != "cancun" {
		// EIP-7002 / EIP-7251 system contracts: the tool runs the request system calls at block end
		alloc[params.WithdrawalQueueAddress] = t8nAccount{Balance: (*hexutil.Big)(new(big.Int)), Nonce: 1, Code: params.WithdrawalQueueCode}
		alloc[params.ConsolidationQueueAddress] = t8nAccount{Balance: (*hexutil.Big)(new(big.Int)), Nonce: 1, Code: params.ConsolidationQueueCode}
	}
	var to *common.Address
	if !sc.Tx.IsCreate {
		a := me.Addr(uint64(sc.Tx.To))
		to = &a
	}
	var al types.AccessList
	for i, a := range sc.Tx.AlAddrs {
		tup := types.AccessTuple{Address: me.Addr(uint64(a)), StorageKeys: []common.Hash{}}
		for _, k := range sc.Tx.AlKeys {
			if k[0] == a && i == firstIdx(sc.Tx.AlAddrs, a) {
				tup.StorageKeys = append(tup.StorageKeys, me.U2H(uint64(k[1])))
			}
		}
		al = append(al, tup)
	}
	var tx *types.Transaction
	switch {
	case sc.Tx.SetCode:
		tx = types.NewTx(&types.SetCodeTx{ChainID: uint256.NewInt(1), Nonce: sc.Tx.Nonce, GasTipCap: uint256.NewInt(sc.Tx.Tip),
			GasFeeCap: uint256.NewInt(sc.Tx.FeeCap), Gas: sc.Tx.Gas, To: *to, Value: uint256.NewInt(sc.Tx.Value), Data: data, AccessList: al,
			AuthList: sc.Tx.AuthList})
	case sc.Tx.BlobTx:
		var hashes []common.Hash
		for i, v := range sc.Tx.BlobVers {
			hashes = append(hashes, common.Hash{byte(v), 0xb1, byte(i)})
		}
		tx = types.NewTx(&types.BlobTx{ChainID: uint256.NewInt(1), Nonce: sc.Tx.Nonce, GasTipCap: uint256.NewInt(sc.Tx.Tip),
			GasFeeCap: uint256.NewInt(sc.Tx.FeeCap), Gas: sc.Tx.Gas, To: *to, Value: uint256.NewInt(sc.Tx.Value), Data: data, AccessList: al,
			BlobFeeCap: uint256.NewInt(sc.Tx.BlobFeeCap), BlobHashes: hashes})
	default:
		tx = types.NewTx(&types.DynamicFeeTx{ChainID: big.NewInt(1), Nonce: sc.Tx.Nonce, GasTipCap: new(big.Int).SetUint64(sc.Tx.Tip),
			GasFeeCap: new(big.Int).SetUint64(sc.Tx.FeeCap), Gas: sc.Tx.Gas, To: to, Value: new(big.Int).SetUint64(sc.Tx.Value), Data: data, AccessList: al})
	}
	signed, err := types.SignTx(tx, types.LatestSignerForChainID(big.NewInt(1)), senderKey)
	if err != nil {
		return nil, err
	}
	zero := hexutil.Uint64(0)
	env := map[string]any{
		"currentCoinbase":       me.Addr(uint64(sc.Tx.Coinbase)),
		"currentDifficulty":     "0x0",
		"currentRandom":         "0x0",
		"currentGasLimit":       hexutil.Uint64(sc.Tx.BlockGas),
		"currentNumber":         hexutil.Uint64(1),
		"currentTimestamp":      hexutil.Uint64(10),
		"currentBaseFee":        (*hexutil.Big)(new(big.Int).SetUint64(sc.Tx.BaseFee)),
		"currentExcessBlobGas":  zero,
		"withdrawals":           []any{},
		"parentBeaconBlockRoot": common.Hash{},
	}
	in, err := json.Marshal(map[string]any{"alloc": alloc, "env": env, "txs": []*types.Transaction{signed}})
	if err != nil {
		return nil, err
	}
	cmd := exec.Command(evmBin, "t8n", "--input.alloc=stdin", "--input.env=stdin", "--input.txs=stdin",
		"--state.fork="+forkName(sc.Tx.Fork), "--state.reward=-1", "--output.result=stdout", "--output.alloc=stdout")
	cmd.Stdin = bytes.NewReader(in)
	var stdout, stderr bytes.Buffer
	cmd.Stdout, cmd.Stderr = &stdout, &stderr
	done := make(chan error, 1)
	if err := cmd.Start(); err != nil {
		return nil, err
	}
	go func() { done <- cmd.Wait() }()
	select {
	case err := <-done:
		if err != nil {
			return nil, fmt.Errorf("evm t8n: %v: %s", err, stderr.String())
		}
	case <-time.After(10 * time.Minute):
		cmd.Process.Kill()
		return nil, fmt.Errorf("evm t8n timed out")
	}
	var out t8nOut
	if err := json.Unmarshal(stdout.Bytes(), &out); err != nil {
		return nil, fmt.Errorf("parse t8n output: %v: %.300s", err, stdout.String())
	}
	return &out, nil
}

func firstIdx(xs []int64, x int64) int {
	for i, y := range xs {
		if y == x {
			return i
		}
	}
	return -1
}

// keyedSender makes the scenario's sender the account of senderKey.
func keyedSender(sc *me.Scenario) {
	addr := crypto.PubkeyToAddress(senderKey.PublicKey)
	s := sc.W.Get(me.AddrSender)
	// the sender is interned first: the authorities' tokens move down by one
	for _, a := range sc.W.Accounts {
		if a.Real != nil {
			a.Tok--
		}
	}
	for i := range sc.Tx.Auths {
		if sc.Tx.Auths[i].Authority <= -2 {
			sc.Tx.Auths[i].Authority--
		}
	}
	s.Real, s.Tok = &addr, -2
	sc.Tx.FromReal, sc.Tx.From = &addr, -2
}

func runT8nMode(path, evmBin string, seed int64, n, maxOps int, sum *tl.Summary) {
	r := tl.Rand(seed)
	tr := tl.NewTrace(path)
	defer tr.Close()
	for i := 0; i < n; i++ {
		sc := me.GenScenario(r)
		keyedSender(sc)
		me.ChooseGas(r, sc)
		if (sc.Tx.SetCode && len(sc.Tx.AuthList) == 0) || (sc.Tx.BlobTx && len(sc.Tx.BlobVers) == 0) {
			// shapes that only a hand-made Message can have: the typed transactions reject them earlier
			sum.Count("skipped-shape")
			continue
		}
		res := me.Execute(sc.W, sc.Tx, sc.Data, true)
		sum.Evaluations++
		out, err := runT8n(evmBin, sc, sc.Data)
		if err != nil {
			tl.Fatal("case %d: %v", i, err)
		}
		// --- tool vs direct execution
		var diffs []string
		included := len(out.Result.Receipts) == 1
		if included != res.Valid {
			diffs = append(diffs, fmt.Sprintf("validity: tool included=%v (rejected %v), ApplyMessage valid=%v", included, out.Result.Rejected, res.Valid))
		} else if included {
			rc := out.Result.Receipts[0]
			if (rc.Status == 1) != res.Ok {
				diffs = append(diffs, fmt.Sprintf("status: tool %d, ApplyMessage ok=%v", rc.Status, res.Ok))
			}
			if uint64(rc.GasUsed) != res.GasUsed {
				diffs = append(diffs, fmt.Sprintf("gas used: tool %d, ApplyMessage %d", rc.GasUsed, res.GasUsed))
			}
			dl := res.St.Logs()
			if len(rc.Logs) != len(dl) {
				diffs = append(diffs, fmt.Sprintf("logs: tool %d, ApplyMessage %d", len(rc.Logs), len(dl)))
			} else {
				for k := range dl {
					if rc.Logs[k].Address != dl[k].Address || !bytes.Equal(rc.Logs[k].Data, dl[k].Data) || fmt.Sprint(rc.Logs[k].Topics) != fmt.Sprint(dl[k].Topics) {
						diffs = append(diffs, fmt.Sprintf("log %d differs", k))
					}
				}
			}
			addrs := []common.Address{me.Addr(uint64(sc.Tx.Coinbase))}
			for _, a := range sc.W.Accounts {
				addrs = append(addrs, a.Address())
			}
			addrs = append(addrs, res.Tr.Created...)
			for _, a := range addrs {
				ta, exists := out.Alloc[a]
				bal, nonce, code := res.St.GetBalance(a), res.St.GetNonce(a), res.St.GetCode(a)
				if !exists {
					if !bal.IsZero() || nonce != 0 || len(code) != 0 {
						diffs = append(diffs, fmt.Sprintf("account %x: absent from the tool's post-state, ApplyMessage has balance %v nonce %d", a, bal, nonce))
					}
					continue
				}
				if tb, _ := uint256.FromBig((*big.Int)(ta.Balance)); !tb.Eq(bal) {
					diffs = append(diffs, fmt.Sprintf("balance of %x: tool %v, ApplyMessage %v", a, tb, bal))
				}
				if uint64(ta.Nonce) != nonce {
					diffs = append(diffs, fmt.Sprintf("nonce of %x: tool %d, ApplyMessage %d", a, ta.Nonce, nonce))
				}
				if !bytes.Equal(ta.Code, code) {
					diffs = append(diffs, fmt.Sprintf("code of %x differs", a))
				}
				for k, v := range ta.Storage {
					if res.St.GetState(a, k) != v {
						diffs = append(diffs, fmt.Sprintf("storage %x[%x]: tool %x, ApplyMessage %x", a, k, v, res.St.GetState(a, k)))
					}
				}
				for k := uint64(0); k < 16; k++ {
					if v := res.St.GetState(a, me.U2H(k)); v != (common.Hash{}) && ta.Storage[me.U2H(k)] != v {
						diffs = append(diffs, fmt.Sprintf("storage %x[%d]: tool %x, ApplyMessage %x", a, k, ta.Storage[me.U2H(k)], v))
					}
				}
			}
		}
		if len(diffs) > 0 {
			sum.Violate(fmt.Sprintf("case %d (%s, %s): transition tool and core.ApplyMessage disagree: %s", i, sc.Kind, sc.Tx.Fork, diffs[0]),
				tl.M{"case": i, "seed": seed, "tx": sc.Tx, "accts": me.AcctsOf(sc.W), "differences": diffs})
		}
		if included {
			sum.Count("t8n-included")
		} else {
			sum.Count("t8n-rejected")
		}
		// --- direct execution vs specification (trace)
		if res.Tr.Unmodeled != "" || res.Tr.NOps > maxOps || (res.Valid && sc.Tx.Gas > 4_200_000) {
			sum.Count("untraced")
			continue
		}
		sc.Tx.DataW = res.Tr.In.Words(sc.Data)
		p, fits := me.Post(res, sc.W, sc.Tx)
		if !fits {
			sum.Count("untraced")
			continue
		}
		tr.Emit(tl.M{"op": "tx", "tx": sc.Tx, "accts": me.AcctsOf(sc.W)})
		for _, e := range res.Tr.Events {
			tr.Emit(e)
		}
		if !res.Valid {
			tr.Emit(tl.M{"op": "txend", "valid": false, "ok": false, "gasUsed": 0, "post": []tl.M{}, "logs": []tl.M{}})
		} else {
			tr.Emit(tl.M{"op": "txend", "valid": true, "ok": res.Ok, "gasUsed": res.GasUsed, "post": p, "logs": me.LogsOf(res)})
		}
		sum.Steps += res.Tr.NOps
		sum.Traces++
		if sum.Traces <= 2 {
			sum.Sample(tl.M{"kind": sc.Kind, "fork": sc.Tx.Fork, "gas": sc.Tx.Gas, "ok": res.Ok, "gasUsed": res.GasUsed, "t8n": included})
		}
	}
	sum.Distinct = sum.Traces
	sum.Rule = "each generated transaction is executed by `evm t8n` (subprocess) and by core.ApplyMessage; receipts, rejected list and post-state must agree, and the ApplyMessage run is traced for MiniEVMTrace.tla"
}
