// c42 drives a real core/txpool/blobpool.BlobPool on a directory for property C42.
//
//	-mode replay -in behaviours.json -dir D -trace t.ndjson   execute TLC-generated behaviours (R)
//	-mode record -dir D -trace t.ndjson -n N -steps S         seeded random operation sequences (V)
//
// Operations: add, reset (new/old block, finality), settip, reopen (Close + New + Init),
// crash (copy of the directory of the running pool, Init on the copy).  After every
// operation the white-box projection of the pool (Stats/Nonce/Pending/Has + the verif
// export: index metas, spent, lookup, eviction heap, limbo, contents of both billy stores)
// is logged; BlobPoolTrace.tla decides whether each step is a step of BlobPool.tla and
// evaluates the C42 invariants on every state.
package main

import (
	"crypto/ecdsa"
	"crypto/sha256"
	"errors"
	"flag"
	"fmt"
	"io"
	"math"
	"math/big"
	"os"
	"path/filepath"
	"runtime"
	"runtime/debug"
	"sort"
	"strings"
	"sync"

	"github.com/ethereum/go-ethereum/common"
	"github.com/ethereum/go-ethereum/consensus/misc/eip1559"
	"github.com/ethereum/go-ethereum/consensus/misc/eip4844"
	"github.com/ethereum/go-ethereum/core"
	"github.com/ethereum/go-ethereum/core/state"
	"github.com/ethereum/go-ethereum/core/tracing"
	"github.com/ethereum/go-ethereum/core/txpool"
	"github.com/ethereum/go-ethereum/core/txpool/blobpool"
	"github.com/ethereum/go-ethereum/core/types"
	"github.com/ethereum/go-ethereum/crypto"
	"github.com/ethereum/go-ethereum/crypto/kzg4844"
	"github.com/ethereum/go-ethereum/params"
	"github.com/ethereum/go-ethereum/trie"
	"github.com/holiman/uint256"
	tl "verif/harness/tracelib"
)

// ---------------------------------------------------------------- abstract values

type atx struct {
	From  string `json:"from"`
	Nonce int64  `json:"nonce"`
	Tip   int64  `json:"tip"`
	Cap   int64  `json:"cap"`
	Bcap  int64  `json:"bcap"`
	Cost  int64  `json:"cost"`
	Bfj   int64  `json:"bfj"`
	Blj   int64  `json:"blj"`
	Sz    int64  `json:"sz"`
}

type ablock struct {
	Parent int64            `json:"parent"`
	Num    int64            `json:"num"`
	Txs    []atx            `json:"txs"`
	Nonce  map[string]int64 `json:"nonce"`
	Bal    map[string]int64 `json:"bal"`
	Bfj    int64            `json:"bfj"`
	Blj    int64            `json:"blj"`
	// realisation (not part of the abstract block): fee level indices
	Bf int `json:"-"`
	Bl int `json:"-"`
}

type acfg struct {
	Cap  int64 `json:"cap"`
	Bump int64 `json:"bump"`
}

type act struct {
	Op      string  `json:"op"`
	Tx      *atx    `json:"tx,omitempty"`
	ID      int64   `json:"id"`
	Block   *ablock `json:"block,omitempty"`
	Final   int64   `json:"final"`
	Tip     int64   `json:"tip"`
	Cfg     *acfg   `json:"cfg,omitempty"`
	Genesis *ablock `json:"genesis,omitempty"`
}

type step struct {
	Act act    `json:"act"`
	Err string `json:"err"`
}

var acctNames = []string{"a1", "a2", "a3"}

type account struct {
	name string
	key  *ecdsa.PrivateKey
	addr common.Address
}

var (
	accts  = map[string]*account{}
	byAddr = map[common.Address]*account{}
	config = params.MergedTestChainConfig
	signer = types.LatestSigner(config)
)

// head fee levels: base fee values and excess blob gas values (blob fee via CalcBlobFee)
var (
	baseFees   = []int64{1000, 1300, 700}
	excessBlob = []uint64{0, 10_000_000, 15_000_000}
	blobFees   []int64 // blob fee of each excessBlob level
	headBfj    []int64
	headBlj    []int64
)

const jumpScale = 1e6

func scaled(f float64) int64 { return int64(math.Round(f * jumpScale)) }

func jumps(execFee, blobFee int64) (int64, int64) {
	a, b := blobpool.VerifFeeJumps(big.NewInt(execFee), big.NewInt(blobFee))
	return scaled(a), scaled(b)
}

// blobs: a few fixed blobs with commitments, cell proofs and cells computed once per run
type blobData struct {
	blob   kzg4844.Blob
	commit kzg4844.Commitment
	proofs []kzg4844.Proof
	cells  []kzg4844.Cell
	vhash  common.Hash
}

var blobSet []*blobData

func initStatic(nblobs int) {
	for i, n := range acctNames {
		key, err := crypto.ToECDSA(common.LeftPadBytes([]byte{0x42, byte(i + 1)}, 32))
		if err != nil {
			tl.Fatal("key: %v", err)
		}
		a := &account{name: n, key: key, addr: crypto.PubkeyToAddress(key.PublicKey)}
		accts[n], byAddr[a.addr] = a, a
	}
	for i := 0; i < nblobs; i++ {
		b := &blobData{}
		b.blob[0], b.blob[33] = byte(i+1), byte(i+7)
		var err error
		if b.commit, err = kzg4844.BlobToCommitment(&b.blob); err != nil {
			tl.Fatal("commit: %v", err)
		}
		if b.proofs, err = kzg4844.ComputeCellProofs(&b.blob); err != nil {
			tl.Fatal("cell proofs: %v", err)
		}
		if b.cells, err = kzg4844.ComputeCells([]kzg4844.Blob{b.blob}); err != nil {
			tl.Fatal("cells: %v", err)
		}
		b.vhash = kzg4844.CalcBlobHashV1(sha256.New(), &b.commit)
		blobSet = append(blobSet, b)
	}
	for i := range baseFees {
		j, _ := jumps(baseFees[i], 1)
		headBfj = append(headBfj, j)
	}
	for _, ex := range excessBlob {
		ex := ex
		fee := eip4844.CalcBlobFee(config, &types.Header{Number: big.NewInt(1), Time: 1000, ExcessBlobGas: &ex}).Int64()
		_, j := jumps(1, fee)
		blobFees, headBlj = append(blobFees, fee), append(headBlj, j)
	}
}

// realisation of abstract transactions (memoised)
type rtx struct {
	full *types.Transaction      // with sidecar (for the stateless checks of Add)
	ptx  *blobpool.BlobTxForPool // pool form (tx without sidecar + cell sidecar)
}

var (
	txCache = map[atx]*rtx{}
	absOf   = map[common.Hash]atx{}
	recip   = common.HexToAddress("0x00000000000000000000000000000000000c42c4")
)

// mkAbs fills in the derived attributes of an abstract transaction (cost, jumps, size).
func mkAbs(from string, nonce, tip, cap, bcap int64) atx {
	a := atx{From: from, Nonce: nonce, Tip: tip, Cap: cap, Bcap: bcap, Sz: 1}
	a.Cost = 21000*cap + int64(params.BlobTxBlobGasPerBlob)*bcap
	a.Bfj, a.Blj = jumps(cap, bcap)
	return a
}

func mkTx(a atx) *rtx {
	if r, ok := txCache[a]; ok {
		return r
	}
	b := blobSet[int(a.Nonce+a.Cap+a.Bcap)%len(blobSet)]
	inner := &types.BlobTx{
		ChainID: uint256.MustFromBig(config.ChainID), Nonce: uint64(a.Nonce), To: recip, Gas: 21000,
		GasTipCap: uint256.NewInt(uint64(a.Tip)), GasFeeCap: uint256.NewInt(uint64(a.Cap)), BlobFeeCap: uint256.NewInt(uint64(a.Bcap)),
		BlobHashes: []common.Hash{b.vhash}, Value: new(uint256.Int),
		Sidecar: types.NewBlobTxSidecar(types.BlobSidecarVersion1, []kzg4844.Blob{b.blob}, []kzg4844.Commitment{b.commit}, b.proofs),
	}
	full, err := types.SignNewTx(accts[a.From].key, signer, inner)
	if err != nil {
		tl.Fatal("sign: %v", err)
	}
	if c := full.Cost().Int64(); c != a.Cost {
		tl.Fatal("cost of %+v is %d", a, c)
	}
	r := &rtx{full: full, ptx: &blobpool.BlobTxForPool{Tx: full.WithoutBlobTxSidecar(), CellSidecar: &types.BlobTxCellSidecar{
		Version: types.BlobSidecarVersion1, Commitments: []kzg4844.Commitment{b.commit}, Proofs: b.proofs, Cells: b.cells, Custody: types.CustodyBitmapAll}}}
	txCache[a], absOf[full.Hash()] = r, a
	return r
}

// ---------------------------------------------------------------- harness chain

type hblock struct {
	id    int64
	abs   *ablock
	block *types.Block
}

type chain struct {
	mu     sync.Mutex
	byID   map[int64]*hblock
	byHash map[common.Hash]*hblock
	head   *hblock
	final  int64
}

const blockGasLimit = 30_000_000

func levelOf(v int64, levels []int64, what string) int {
	for i, l := range levels {
		if l == v {
			return i
		}
	}
	tl.Fatal("no %s level with jumps %d", what, v)
	return 0
}

func (c *chain) add(id int64, b *ablock) *hblock {
	bf, bl := levelOf(b.Bfj, headBfj, "base fee"), levelOf(b.Blj, headBlj, "blob fee")
	excess := excessBlob[bl]
	h := &types.Header{
		Number: big.NewInt(b.Num), Difficulty: new(big.Int), GasLimit: blockGasLimit, GasUsed: blockGasLimit / 2,
		BaseFee: big.NewInt(baseFees[bf]), Time: uint64(1000 + b.Num), Extra: []byte(fmt.Sprintf("c42-%d", id)),
		ExcessBlobGas: &excess, BlobGasUsed: new(uint64),
	}
	if p, ok := c.byID[b.Parent]; ok && id != b.Parent {
		h.ParentHash = p.block.Hash()
	}
	// the pool must see exactly the fees the abstract block states
	if got := eip1559.CalcBaseFee(config, h).Int64(); got != baseFees[bf] {
		tl.Fatal("base fee of the next block is %d, want %d", got, baseFees[bf])
	}
	txs := make([]*types.Transaction, len(b.Txs))
	for i, a := range b.Txs {
		txs[i] = mkTx(a).full.WithoutBlobTxSidecar()
	}
	hb := &hblock{id: id, abs: b, block: types.NewBlock(h, &types.Body{Transactions: txs}, nil, trie.NewStackTrie(nil))}
	c.byID[id], c.byHash[hb.block.Hash()] = hb, hb
	return hb
}

func (c *chain) Config() *params.ChainConfig { return config }
func (c *chain) CurrentBlock() *types.Header {
	c.mu.Lock()
	defer c.mu.Unlock()
	return c.head.block.Header()
}
func (c *chain) Genesis() *types.Block { return c.byID[0].block }
func (c *chain) CurrentFinalBlock() *types.Header {
	c.mu.Lock()
	defer c.mu.Unlock()
	// the ancestor of the head at the finalized height
	b := c.head
	for b.abs.Num > c.final && b.abs.Parent != b.id {
		b = c.byID[b.abs.Parent]
	}
	return b.block.Header()
}
func (c *chain) GetBlock(hash common.Hash, number uint64) *types.Block {
	c.mu.Lock()
	defer c.mu.Unlock()
	if b, ok := c.byHash[hash]; ok && b.block.NumberU64() == number {
		return b.block
	}
	return nil
}
func (c *chain) StateAt(header *types.Header) (*state.StateDB, error) {
	c.mu.Lock()
	b, ok := c.byHash[header.Hash()]
	c.mu.Unlock()
	if !ok {
		return nil, errors.New("unknown block")
	}
	db, err := state.New(types.EmptyRootHash, state.NewDatabaseForTesting())
	if err != nil {
		return nil, err
	}
	for _, n := range acctNames {
		db.SetNonce(accts[n].addr, uint64(b.abs.Nonce[n]), tracing.NonceChangeUnspecified)
		db.SetBalance(accts[n].addr, uint256.NewInt(uint64(b.abs.Bal[n])), tracing.BalanceChangeUnspecified)
	}
	return db, nil
}

type reserver struct {
	mu   sync.Mutex
	held map[common.Address]bool
	errs int
}

func (r *reserver) Hold(a common.Address) error {
	r.mu.Lock()
	defer r.mu.Unlock()
	if r.held[a] {
		r.errs++
	}
	r.held[a] = true
	return nil
}
func (r *reserver) Release(a common.Address) error {
	r.mu.Lock()
	defer r.mu.Unlock()
	if !r.held[a] {
		r.errs++
	}
	delete(r.held, a)
	return nil
}
func (r *reserver) Has(common.Address) bool { return false }

// ---------------------------------------------------------------- the system under test

type sut struct {
	pool  *blobpool.BlobPool
	chain *chain
	res   *reserver
	dir   string
	cfg   *acfg
	tip   int64
	gen   int // generation counter for crash copies
	root  string

	// mirror of the specification's ghost `owed` (retention obligations of the limbo)
	owed                      map[atx]int64
	beforePooled, beforeLimbo map[atx]bool
	resetPending              bool
}

var unitSize uint64 // storage size of a one-blob transaction (capacity unit)

func (s *sut) open() {
	s.res = &reserver{held: map[common.Address]bool{}}
	s.pool = blobpool.New(blobpool.Config{Datadir: s.dir, Datacap: uint64(s.cfg.Cap)*unitSize + unitSize/2, PriceBump: uint64(s.cfg.Bump)}, s.chain, nil)
	if err := s.pool.Init(uint64(s.tip), s.chain.CurrentBlock(), s.res); err != nil {
		tl.Fatal("pool init: %v", err)
	}
}

func newSUT(root string, cfg *acfg, genesis *ablock, tip int64) *sut {
	c := &chain{byID: map[int64]*hblock{}, byHash: map[common.Hash]*hblock{}}
	c.head = c.add(0, genesis)
	s := &sut{chain: c, cfg: cfg, tip: tip, root: root, dir: filepath.Join(root, "g0"), owed: map[atx]int64{}, beforePooled: map[atx]bool{}, beforeLimbo: map[atx]bool{}}
	s.open()
	return s
}

func (s *sut) close() {
	s.pool.Close()
	os.RemoveAll(s.root)
}

func errClass(err error) string {
	switch {
	case err == nil:
		return "ok"
	case errors.Is(err, txpool.ErrAlreadyKnown):
		return "known"
	case errors.Is(err, txpool.ErrTxGasPriceTooLow):
		return "tip_low"
	case errors.Is(err, core.ErrNonceTooLow):
		return "nonce_low"
	case errors.Is(err, core.ErrNonceTooHigh):
		return "nonce_high"
	case errors.Is(err, core.ErrInsufficientFunds):
		return "funds"
	case errors.Is(err, txpool.ErrAccountLimitExceeded):
		return "account_limit"
	case errors.Is(err, txpool.ErrReplaceUnderpriced):
		return "replace_underpriced"
	}
	return "other:" + err.Error()
}

func copyDir(src, dst string) {
	err := filepath.Walk(src, func(path string, info os.FileInfo, err error) error {
		if err != nil {
			return err
		}
		rel, _ := filepath.Rel(src, path)
		if info.IsDir() {
			return os.MkdirAll(filepath.Join(dst, rel), 0o700)
		}
		in, err := os.Open(path)
		if err != nil {
			return err
		}
		defer in.Close()
		out, err := os.Create(filepath.Join(dst, rel))
		if err != nil {
			return err
		}
		defer out.Close()
		_, err = io.Copy(out, in)
		return err
	})
	if err != nil {
		tl.Fatal("copy dir: %v", err)
	}
}

// occurrences of open known findings (reported to the check in Summary.Extra["pending"])
type pendingFinding struct {
	Count  int `json:"count"`
	Sample any `json:"sample"`
}

var pending = map[string]*pendingFinding{}

func notePending(id string, sample any) {
	if pending[id] == nil {
		pending[id] = &pendingFinding{Sample: sample}
	}
	pending[id].Count++
}

// addPooled calls AddPooledTx.
//
// KNOWN-FINDING C42-add-panic-after-overflow (open, known_findings.json): when the pool is already over its capacity (a
// Reset reinjected reorged-out transactions beyond Datacap) the eviction loop of addLocked can drop
// two or more transactions of the adding account; drop() nils the tail of the very slice addLocked
// still holds, and the announcement check `txs[offset-1].announced` dereferences nil.  All state
// updates of the add are complete at that point (only announcements follow) and the deferred unlock
// runs, so the harness recovers from exactly this panic (nil dereference inside addLocked), records
// it, and treats the add as the successful add it would have been.  Any other panic is re-raised and
// reported as a violation by the check.
func (s *sut) addPooled(ptx *blobpool.BlobTxForPool) (err error, panicked bool) {
	defer func() {
		if r := recover(); r != nil {
			re, ok := r.(runtime.Error)
			stack := string(debug.Stack())
			if !ok || !strings.Contains(re.Error(), "nil pointer dereference") || !strings.Contains(stack, "blobpool.(*BlobPool).addLocked") {
				panic(r)
			}
			notePending("C42-add-panic-after-overflow", tl.M{"tx": abs(ptx.Tx.Hash()), "panic": re.Error(), "pool_before": lastPooled})
			err, panicked = nil, true
		}
	}()
	return s.pool.AddPooledTx(ptx), false
}

// small ids: billy keys are slot | shelf<<28
func sid(id uint64) int64 { return int64(id>>28)*100000 + int64(id&0x0FFFFFFF) }

type entry struct {
	Tx atx   `json:"tx"`
	ID int64 `json:"id"`
}
type lentry struct {
	Tx    atx   `json:"tx"`
	Block int64 `json:"block"`
	ID    int64 `json:"id"`
}

func abs(h common.Hash) atx {
	a, ok := absOf[h]
	if !ok {
		tl.Fatal("pool holds a transaction the harness never made: %x", h)
	}
	return a
}

// apply executes one operation; extra carries observed inputs of the step (crash: disk contents).
func (s *sut) apply(a *act) (cls string, extra tl.M) {
	extra = tl.M{}
	switch a.Op {
	case "add":
		r := mkTx(*a.Tx)
		// Add() = stateless checks, conversion to the cell form, KZG cell verification (out of
		// scope, C05) and AddPooledTx; the harness supplies the precomputed cell form
		if err := s.pool.ValidateTxBasics(r.full); err != nil {
			return errClass(err), extra
		}
		err, panicked := s.addPooled(r.ptx)
		if panicked {
			extra["panic"] = true
		}
		return errClass(err), extra
	case "reset":
		nb, ok := s.chain.byID[a.ID]
		if !ok {
			nb = s.chain.add(a.ID, a.Block)
		}
		old := s.chain.head
		s.chain.mu.Lock()
		s.chain.head, s.chain.final = nb, a.Final
		s.chain.mu.Unlock()
		s.pool.Reset(old.block.Header(), nb.block.Header())
		s.resetPending = true
		return "ok", extra
	case "settip":
		s.tip = a.Tip
		s.pool.SetGasTip(big.NewInt(a.Tip))
		return "ok", extra
	case "reopen":
		if err := s.pool.Close(); err != nil {
			tl.Fatal("close: %v", err)
		}
		s.open()
		return "ok", extra
	case "crash":
		// abrupt stop: the directory as it is on disk right now, without the clean-up Close performs
		s.gen++
		dst := filepath.Join(s.root, fmt.Sprintf("g%d", s.gen))
		copyDir(s.dir, dst)
		s.pool.Close()
		os.RemoveAll(s.dir)
		s.dir = dst
		q, l, err := blobpool.VerifScanDir(dst)
		if err != nil {
			tl.Fatal("scan: %v", err)
		}
		disk, ldisk := []entry{}, []lentry{}
		for _, e := range q {
			disk = append(disk, entry{abs(e.TxHash), sid(e.ID)})
		}
		for _, e := range l {
			ldisk = append(ldisk, lentry{abs(e.TxHash), int64(e.Block), sid(e.ID)})
		}
		extra["disk"], extra["ldisk"] = disk, ldisk
		s.open()
		return "ok", extra
	}
	tl.Fatal("unknown op %q", a.Op)
	return "", nil
}

// project computes the abstract pool state and the redundant bookkeeping of the implementation.
func (s *sut) project() tl.M {
	vs := s.pool.VerifState()
	np, nq := s.pool.Stats()
	type meta struct {
		Tx    atx   `json:"tx"`
		ID    int64 `json:"id"`
		Bfj   int64 `json:"bfj"`
		Blj   int64 `json:"blj"`
		EvTip int64 `json:"evtip"`
		EvBf  int64 `json:"evbf"`
		EvBl  int64 `json:"evbl"`
		Size  int64 `json:"size"`
		Cost  int64 `json:"cost"`
		Has   bool  `json:"has"`
	}
	idx, spent, nonce := map[string][]meta{}, map[string]int64{}, map[string]uint64{}
	for _, n := range acctNames {
		idx[n], spent[n] = []meta{}, 0
		nonce[n] = s.pool.Nonce(accts[n].addr)
	}
	lastPooled = map[string][]atx{}
	for addr, ms := range vs.Index {
		n := byAddr[addr].name
		for _, m := range ms {
			lastPooled[n] = append(lastPooled[n], abs(m.Hash))
			if uint64(m.StorageSize)%unitSize != 0 {
				tl.Fatal("storage size %d is not a multiple of the unit %d", m.StorageSize, unitSize)
			}
			idx[n] = append(idx[n], meta{abs(m.Hash), sid(m.ID), scaled(m.BasefeeJumps), scaled(m.BlobfeeJumps), m.EvictionExecTip.Int64(),
				scaled(m.EvictionExecFeeJumps), scaled(m.EvictionBlobFeeJumps), int64(uint64(m.StorageSize) / unitSize), m.CostCap.Int64(), s.pool.Has(m.Hash)})
		}
	}
	for addr, v := range vs.Spent {
		spent[byAddr[addr].name] = v.Int64()
	}
	lookup := []entry{}
	for h, id := range vs.LookupTx {
		lookup = append(lookup, entry{abs(h), sid(id)})
	}
	sort.Slice(lookup, func(i, j int) bool { return lookup[i].ID < lookup[j].ID })
	heap := []string{}
	hidxOK := len(vs.HeapIndex) == len(vs.HeapAddrs)
	for i, a := range vs.HeapAddrs {
		heap = append(heap, byAddr[a].name)
		if vs.HeapIndex[a] != i {
			hidxOK = false
		}
	}
	limbo, lgroups := []lentry{}, []lentry{}
	blockOf := map[common.Hash]uint64{}
	for _, g := range vs.LimboGroups {
		blockOf[g.TxHash] = g.Block
		lgroups = append(lgroups, lentry{abs(g.TxHash), int64(g.Block), sid(g.ID)})
	}
	for _, e := range vs.Limbo {
		limbo = append(limbo, lentry{abs(e.TxHash), int64(blockOf[e.TxHash]), sid(e.ID)})
	}
	store, lstore := []entry{}, []lentry{}
	for _, e := range vs.Store {
		store = append(store, entry{abs(e.TxHash), sid(e.ID)})
	}
	for _, e := range vs.LimboStore {
		lstore = append(lstore, lentry{abs(e.TxHash), int64(e.Block), sid(e.ID)})
	}
	for _, l := range [][]lentry{limbo, lgroups, lstore} {
		l := l
		sort.Slice(l, func(i, j int) bool { return l[i].ID < l[j].ID })
	}
	sort.Slice(store, func(i, j int) bool { return store[i].ID < store[j].ID })
	reserved := []string{}
	s.res.mu.Lock()
	for _, n := range acctNames {
		if s.res.held[accts[n].addr] {
			reserved = append(reserved, n)
		}
	}
	rerr := s.res.errs
	s.res.mu.Unlock()
	// public pending view (block building): v1 blob transactions, no fee filter
	lazy, cnt := s.pool.Pending(txpool.PendingFilter{BlobTxs: true, BlobVersion: types.BlobSidecarVersion1})
	pview := map[string][]atx{}
	for _, n := range acctNames {
		pview[n] = []atx{}
	}
	for addr, ls := range lazy {
		for _, l := range ls {
			pview[byAddr[addr].name] = append(pview[byAddr[addr].name], abs(l.Hash))
		}
	}
	if vs.Stored%unitSize != 0 {
		tl.Fatal("stored %d is not a multiple of the unit", vs.Stored)
	}
	lastAligned, lastLimboExact, lastMisaligned = true, true, map[string]bool{}
	for n, txs := range lastPooled {
		if len(txs) > 0 && txs[0].Nonce != s.chain.head.abs.Nonce[n] {
			lastAligned, lastMisaligned[n] = false, true
		}
	}
	// retention obligations exactly as the specification's ghost `owed`: transactions of canonical blocks
	// above finality that were owed before, pooled or in the limbo when the last Reset adopted that chain
	inLimbo := map[atx]int64{}
	for _, e := range limbo {
		inLimbo[e.Tx] = e.Block
	}
	if s.resetPending {
		s.resetPending = false
		owed := map[atx]int64{}
		for b := s.chain.head; ; b = s.chain.byID[b.abs.Parent] {
			for _, t := range b.abs.Txs {
				_, was := s.owed[t]
				if b.abs.Num > s.chain.final && (was && s.owed[t] == b.abs.Num || s.beforePooled[t] || s.beforeLimbo[t]) {
					owed[t] = b.abs.Num
				}
			}
			if b.abs.Parent == b.id {
				break
			}
		}
		s.owed = owed
	}
	for t, blk := range s.owed {
		if got, ok := inLimbo[t]; !ok || got != blk {
			lastLimboExact = false
		}
	}
	s.beforePooled, s.beforeLimbo = map[atx]bool{}, map[atx]bool{}
	for _, txs := range lastPooled {
		for _, t := range txs {
			s.beforePooled[t] = true
		}
	}
	for t := range inLimbo {
		s.beforeLimbo[t] = true
	}
	return tl.M{
		"idx": idx, "spent": spent, "stored": vs.Stored / unitSize, "lookup": lookup, "lblobs": vs.LookupBlobs,
		"heap": heap, "hidx": hidxOK, "hbf": scaled(vs.HeapBasefee), "hbl": scaled(vs.HeapBlobfee), "tip": vs.GasTip.Int64(),
		"limbo": limbo, "lgroups": lgroups, "store": store, "lstore": lstore, "gapped": vs.GappedSource,
		"reserved": reserved, "rerr": rerr, "npend": np, "nqueue": nq, "pview": pview, "pcount": cnt, "nonce": nonce,
	}
}

func norm(b *ablock) *ablock {
	if b == nil {
		return nil
	}
	if b.Txs == nil {
		b.Txs = []atx{}
	}
	if b.Nonce == nil {
		b.Nonce = map[string]int64{}
	}
	if b.Bal == nil {
		b.Bal = map[string]int64{}
	}
	for _, n := range acctNames {
		b.Nonce[n], b.Bal[n] = b.Nonce[n], b.Bal[n]
	}
	return b
}

var (
	seenStates = map[string]bool{}
	traceNo    int
	lastPooled = map[string][]atx{} // the index of the last projection (feedback for the generator)
	// strict forms of the two properties with a known finding, evaluated on the last projection
	lastAligned    = true // every pooled list starts at the account's state nonce
	lastMisaligned = map[string]bool{}
	lastLimboExact = true // every limbo entry carries the number of the canonical block including it
)

// run executes one behaviour on a fresh pool in a fresh directory and writes its events; next
// yields the i-th operation (nil ends the behaviour) and may consult lastPooled.
func run(tr *tl.Trace, root string, in act, next func(i int) *act, sum *tl.Summary) int {
	if in.Op != "init" {
		tl.Fatal("behaviour does not start with init")
	}
	norm(in.Genesis)
	traceNo++
	s := newSUT(filepath.Join(root, fmt.Sprintf("t%d", traceNo)), in.Cfg, in.Genesis, in.Tip)
	defer s.close()
	tr.Emit(tl.M{"op": "init", "cfg": in.Cfg, "genesis": in.Genesis, "tip": in.Tip, "err": "ok", "state": s.project(),
		"tx": 0, "id": 0, "block": 0, "final": 0, "disk": []int{}, "ldisk": []int{}})
	n := 0
	for a := next(n); a != nil; a = next(n) {
		norm(a.Block)
		cls, extra := s.apply(a)
		if len(cls) > 6 && cls[:6] == "other:" {
			tl.Fatal("harness produced a transaction outside the modelled error classes: %+v: %s", a.Tx, cls)
		}
		st := s.project()
		if !lastAligned && (a.Op == "reset" || a.Op == "crash" || a.Op == "reopen") {
			// fingerprint of C42-recheck-gap-after-overlap: a recheck (Reset / Init) leaves a list that starts
			// above the state nonce; misalignment produced by any other operation fails NonceContiguous
			notePending("C42-recheck-gap-after-overlap", tl.M{"op": a.Op, "idx": lastPooled, "state_nonce": s.chain.head.abs.Nonce})
		}
		if !lastLimboExact && a.Op == "reset" {
			// fingerprint of C42-limbo-stale-block: after a Reset a pooled transaction that a canonical block
			// above finality includes is missing from the limbo or filed under another block number
			notePending("C42-limbo-stale-block", tl.M{"op": a.Op, "id": a.ID, "final": a.Final, "limbo": st["limbo"]})
		}
		seenStates[fmt.Sprint(st["idx"], st["limbo"])] = true
		ev := tl.M{"op": a.Op, "err": cls, "state": st, "id": a.ID, "tip": a.Tip, "final": a.Final, "tx": 0, "block": 0,
			"disk": []int{}, "ldisk": []int{}}
		if a.Tx != nil {
			ev["tx"] = a.Tx
		}
		if a.Op == "reset" {
			ev["block"] = s.chain.byID[a.ID].abs
		}
		for k, v := range extra {
			ev[k] = v
		}
		tr.Emit(ev)
		sum.Count(a.Op + ":" + cls)
		n++
	}
	return n
}

// measureUnit determines the storage size of a one-blob transaction (the capacity unit).
func measureUnit(root string) {
	gen := norm(&ablock{Bfj: headBfj[0], Blj: headBlj[0]})
	gen.Bal["a1"] = 1 << 40
	c := &chain{byID: map[int64]*hblock{}, byHash: map[common.Hash]*hblock{}}
	c.head = c.add(0, gen)
	dir := filepath.Join(root, "unit")
	p := blobpool.New(blobpool.Config{Datadir: dir, Datacap: 1 << 40, PriceBump: 100}, c, nil)
	if err := p.Init(1, c.CurrentBlock(), &reserver{held: map[common.Address]bool{}}); err != nil {
		tl.Fatal("unit pool init: %v", err)
	}
	if err := p.AddPooledTx(mkTx(mkAbs("a1", 0, 5, 2400, 60)).ptx); err != nil {
		tl.Fatal("unit add: %v", err)
	}
	unitSize = p.VerifState().Stored
	p.Close()
	os.RemoveAll(dir)
	if unitSize == 0 {
		tl.Fatal("unit size is zero")
	}
}

// safeFees reports whether the priorities of (cap, bcap) against every head fee level are
// robust to the x10^6 rounding of the fee jumps (never within 10^-3 of an integer unless equal).
func safeFees(cap, bcap int64) bool {
	bj, lj := jumps(cap, bcap)
	for _, h := range headBfj {
		if d := (bj - h) % jumpScale; bj != h && (abs64(d) < 1000 || abs64(d) > jumpScale-1000) {
			return false
		}
	}
	for _, h := range headBlj {
		if d := (lj - h) % jumpScale; lj != h && (abs64(d) < 1000 || abs64(d) > jumpScale-1000) {
			return false
		}
	}
	return true
}

func abs64(x int64) int64 {
	if x < 0 {
		return -x
	}
	return x
}

// fixBehaviour re-derives the fee-jump attributes of a model behaviour from the implementation
// (the model carries rounded samples).
func fixBehaviour(b []step) {
	for j := range b {
		fix := func(t *atx) { *t = mkAbs(t.From, t.Nonce, t.Tip, t.Cap, t.Bcap) }
		if b[j].Act.Tx != nil {
			fix(b[j].Act.Tx)
		}
		for _, blk := range []*ablock{b[j].Act.Block, b[j].Act.Genesis} {
			if blk != nil {
				for k := range blk.Txs {
					fix(&blk.Txs[k])
				}
				blk.Bfj, blk.Blj = headBfj[0], headBlj[0]
			}
		}
	}
}

func runReplay(in, root, trace string, sum *tl.Summary) {
	var behaviours [][]step
	tl.ReadJSON(in, &behaviours)
	tr := tl.NewTrace(trace)
	defer tr.Close()
	seen := map[string]bool{}
	for i, b := range behaviours {
		fixBehaviour(b)
		b := b
		n := run(tr, root, b[0].Act, func(i int) *act {
			if 1+i >= len(b) {
				return nil
			}
			return &b[1+i].Act
		}, sum)
		sum.Traces++
		sum.Evaluations++
		sum.Steps += n
		if key := fmt.Sprint(b); !seen[key] {
			seen[key] = true
			sum.Distinct++
		}
		if i < 2 && len(b) > 1 {
			sum.Sample(b[len(b)-1])
		}
	}
	sum.Rule = "every behaviour printed by TLC (simulation of MCBlobPool) is executed operation by operation on a fresh blobpool.BlobPool in a fresh directory; distinct = distinct behaviours"
}

// runWitness replays the model's witnesses of a known finding and reports on how many of them the
// real pool ends in a state violating the strict property.
func runWitness(in, kind, root, trace string, sum *tl.Summary) {
	var behaviours [][]step
	tl.ReadJSON(in, &behaviours)
	tr := tl.NewTrace(trace)
	defer tr.Close()
	reproduced := 0
	for _, b := range behaviours {
		b := b
		fixBehaviour(b)
		n := run(tr, root, b[0].Act, func(i int) *act {
			if 1+i >= len(b) {
				return nil
			}
			return &b[1+i].Act
		}, sum)
		sum.Traces++
		sum.Evaluations++
		sum.Steps += n
		if (kind == "gap" && !lastAligned) || (kind == "limbo" && !lastLimboExact) {
			reproduced++
		}
	}
	sum.Extra["witnesses"], sum.Extra["reproduced_on_real_pool"], sum.Extra["kind"] = len(behaviours), reproduced, kind
	sum.Distinct = reproduced
	sum.Rule = "model witnesses of a known finding replayed on the real pool; distinct = witnesses whose final real state violates the strict property"
}

// scripts are short directed behaviours run before the random ones: situations the random generator
// reaches too rarely (accounts with spread eviction priorities whose bottleneck improves, then an
// overflow eviction; a limbo entry that limbo.update moves to another block, then a restart).
func scripts() [][]act {
	mk := func(from string, nonce, tip, cap, bcap int64) *atx {
		if !safeFees(cap, bcap) {
			tl.Fatal("script fee (%d,%d) is not rounding-safe", cap, bcap)
		}
		a := mkAbs(from, nonce, tip, cap, bcap)
		return &a
	}
	gen := func() *ablock {
		g := norm(&ablock{Bfj: headBfj[0], Blj: headBlj[0]}) // base fee 1000, blob fee 1
		for _, n := range acctNames {
			g.Bal[n] = 1_000_000_000
		}
		return g
	}
	block := func(parent, num int64, nonce map[string]int64, txs ...*atx) *ablock {
		b := norm(&ablock{Parent: parent, Num: num, Bfj: headBfj[0], Blj: headBlj[0]})
		for _, n := range acctNames {
			b.Nonce[n], b.Bal[n] = nonce[n], 1_000_000_000
		}
		for _, t := range txs {
			b.Txs = append(b.Txs, *t)
		}
		return b
	}
	add := func(t *atx) act { return act{Op: "add", Tx: t} }
	var out [][]act
	// S1: a1's bottleneck (cap 600, below the base fee) is replaced upward; a2 stays below the base fee;
	// the next submission overflows the capacity: the victim must be an account of the lowest priority
	out = append(out, []act{
		{Op: "init", Cfg: &acfg{Cap: 4, Bump: 100}, Genesis: gen(), Tip: 1},
		add(mk("a2", 0, 5, 900, 30)), add(mk("a1", 0, 5, 600, 30)), add(mk("a1", 1, 5, 2400, 30)), add(mk("a3", 0, 5, 2400, 60)),
		add(mk("a1", 0, 10, 1500, 60)), // replacement: a1's thresholds improve
		add(mk("a3", 1, 5, 2400, 60)),  // overflow: evict
		add(mk("a3", 1, 5, 5000, 60)), add(mk("a1", 2, 5, 2400, 30)),
	})
	// S2: raising the tip truncates a1 behind its well-paying first transaction
	out = append(out, []act{
		{Op: "init", Cfg: &acfg{Cap: 4, Bump: 100}, Genesis: gen(), Tip: 1},
		add(mk("a1", 0, 10, 2400, 30)), add(mk("a1", 1, 1, 600, 30)), add(mk("a2", 0, 10, 900, 30)), add(mk("a3", 0, 10, 2400, 60)),
		{Op: "settip", Tip: 5},
		add(mk("a3", 1, 10, 2400, 60)), add(mk("a1", 1, 10, 2400, 60)), // fill up and overflow
	})
	// S3 (both role assignments: which limbo slot is freed depends on Go map order): two included
	// transactions sit in the limbo; a reorg brings one back into the pool (its limbo slot is freed but
	// not overwritten); an abrupt stop resurrects that slot; the transaction is included again one block
	// higher, limbo.update moves the entry; after a restart it must still be filed under the new block
	for _, r := range [][2]string{{"a1", "a2"}, {"a2", "a1"}} {
		t, u := mk(r[0], 0, 5, 2400, 30), mk(r[1], 0, 5, 2400, 60)
		out = append(out, []act{
			{Op: "init", Cfg: &acfg{Cap: 5, Bump: 100}, Genesis: gen(), Tip: 1},
			add(t), add(u),
			{Op: "reset", ID: 1, Block: block(0, 1, map[string]int64{r[0]: 1, r[1]: 1}, t, u)},
			{Op: "reset", ID: 2, Block: block(0, 1, map[string]int64{r[1]: 1}, u)},
			{Op: "crash"},
			{Op: "reset", ID: 3, Block: block(2, 2, map[string]int64{r[0]: 1, r[1]: 1}, t)},
			{Op: "reopen"},
			{Op: "reset", ID: 4, Block: block(3, 3, map[string]int64{r[0]: 1, r[1]: 1}), Final: 1},
			{Op: "reset", ID: 5, Block: block(2, 2, map[string]int64{r[1]: 1}), Final: 1}, // reorg: t must be resurrected
		})
	}
	return out
}

func runRecord(root, trace string, seed int64, ntraces, nsteps int, sum *tl.Summary) {
	r := tl.Rand(seed)
	tr := tl.NewTrace(trace)
	defer tr.Close()
	tips := []int64{1, 2, 5, 10}
	caps := []int64{600, 900, 1100, 1500, 2400, 5000} // some below the head base fees: negative priorities
	bcaps := []int64{2, 5, 30, 60, 130}
	bals := []int64{30_000_000, 60_000_000, 130_000_000, 300_000_000, 1_000_000_000}
	for _, sc := range scripts() {
		sc := sc
		n := run(tr, root, sc[0], func(i int) *act {
			if 1+i >= len(sc) {
				return nil
			}
			return &sc[1+i]
		}, sum)
		sum.Traces++
		sum.Evaluations++
		sum.Steps += n
	}
	for t := 0; t < ntraces; t++ {
		cfg := &acfg{Cap: int64(2 + r.Intn(4)), Bump: []int64{100, 100, 50}[r.Intn(3)]}
		gen := norm(&ablock{Bfj: headBfj[r.Intn(len(headBfj))], Blj: headBlj[r.Intn(len(headBlj))]})
		for _, n := range acctNames {
			gen.Nonce[n] = int64(r.Intn(3))
			gen.Bal[n] = bals[r.Intn(len(bals))]
		}
		initAct := act{Op: "init", Cfg: cfg, Genesis: gen, Tip: 1}
		// The generator keeps the block tree and reads the pool's current index from the last projection
		// to choose interesting operations; correctness never depends on it.
		blocks := map[int64]*ablock{0: gen}
		head, final := int64(0), int64(0)
		var sample []act
		known := map[string][]atx{} // "acct/nonce" -> everything ever made
		remember := func(a atx) { k := fmt.Sprintf("%s/%d", a.From, a.Nonce); known[k] = append(known[k], a) }
		fresh := func(from string, nonce int64) atx {
			for {
				a := mkAbs(from, nonce, tips[r.Intn(len(tips))], caps[r.Intn(len(caps))], bcaps[r.Intn(len(bcaps))])
				if safeFees(a.Cap, a.Bcap) {
					return a
				}
			}
		}
		gen1 := func(i int) *act {
			if i >= nsteps {
				return nil
			}
			pooled := lastPooled
			var a act
			switch c := r.Intn(100); {
			case c < 60:
				from := acctNames[r.Intn(len(acctNames))]
				for k := 0; lastMisaligned[from] && k < 8; k++ {
					// nothing is specified for further submissions of an account that the known finding
					// C42-recheck-gap-after-overlap left misaligned
					from = acctNames[r.Intn(len(acctNames))]
				}
				if lastMisaligned[from] {
					a = act{Op: "settip", Tip: 1}
					break
				}
				base, have := blocks[head].Nonce[from], int64(len(pooled[from]))
				var tx atx
				switch k := r.Intn(10); {
				case k < 6 || have == 0: // next nonce
					tx = fresh(from, base+have)
				case k < 9: // replacement attempt, often right at the price-bump boundary
					o := pooled[from][r.Intn(int(have))]
					tx = fresh(from, o.Nonce)
					if r.Intn(3) != 0 {
						d := func() int64 { return int64(r.Intn(3)) - 1 }
						tip, cp, bc := o.Tip*(100+cfg.Bump)/100+d(), o.Cap*(100+cfg.Bump)/100+d(), o.Bcap*(100+cfg.Bump)/100+d()
						if r.Intn(4) == 0 {
							tip = o.Tip
						}
						if tip < 1 {
							tip = 1
						}
						if safeFees(cp, bc) && cp >= tip {
							tx = mkAbs(from, o.Nonce, tip, cp, bc)
						}
					}
					if r.Intn(6) == 0 {
						tx = o // resubmission
					}
				default: // gapped or stale nonce
					tx = fresh(from, base+have+1+int64(r.Intn(2)))
					if base > 0 && r.Intn(2) == 0 {
						tx = fresh(from, base-1)
					}
				}
				remember(tx)
				a = act{Op: "add", Tx: &tx}
			case c < 78:
				if len(blocks) > 1 && r.Intn(8) == 0 { // jump to an existing block
					ids := []int64{}
					for id, b := range blocks {
						if id != head && b.Num >= final {
							ids = append(ids, id)
						}
					}
					if len(ids) > 0 {
						sort.Slice(ids, func(i, j int) bool { return ids[i] < ids[j] })
						id := ids[r.Intn(len(ids))]
						a = act{Op: "reset", ID: id, Block: blocks[id], Final: final}
						head = id
						break
					}
				}
				parent := head
				for d := r.Intn(8) - 5; d > 0 && parent != blocks[parent].Parent && blocks[blocks[parent].Parent].Num >= final; d-- {
					parent = blocks[parent].Parent // fork of depth 1..2, never below finality
				}
				pb := blocks[parent]
				nb := norm(&ablock{Parent: parent, Num: pb.Num + 1, Bfj: pb.Bfj, Blj: pb.Blj})
				if r.Intn(4) == 0 {
					nb.Bfj, nb.Blj = headBfj[r.Intn(len(headBfj))], headBlj[r.Intn(len(headBlj))]
				}
				for _, n := range acctNames {
					nonce, bal := pb.Nonce[n], pb.Bal[n]
					k := r.Intn(4) - 1
					if nonce+int64(k) > 8 {
						k = 0 // keep state nonces below 9: the gapped reorder buffer stays out of play
					}
					for j := 0; j < k; j++ {
						var tx atx
						mine := parent == head && j < len(pooled[n])
						switch {
						case mine && r.Intn(7) != 0:
							tx = pooled[n][j]
						case len(known[fmt.Sprintf("%s/%d", n, nonce)]) > 0 && r.Intn(4) != 0:
							c := known[fmt.Sprintf("%s/%d", n, nonce)]
							tx = c[r.Intn(len(c))]
						default:
							tx = fresh(n, nonce) // a transaction the pool never saw (signer swapped it)
							remember(tx)
						}
						nb.Txs = append(nb.Txs, tx)
						nonce++
						if bal -= tx.Cost; bal < 0 {
							bal = 0
						}
					}
					if k > 0 && r.Intn(5) == 0 {
						bal = bals[r.Intn(len(bals))]
					}
					nb.Nonce[n], nb.Bal[n] = nonce, bal
				}
				id := int64(len(blocks))
				blocks[id] = nb
				head = id
				if f := final + int64(r.Intn(3)) - 1; f > final && f <= nb.Num && r.Intn(2) == 0 {
					final = f
				}
				a = act{Op: "reset", ID: id, Block: nb, Final: final}
			case c < 90:
				a = act{Op: "settip", Tip: []int64{1, 2, 5, 3, 10}[r.Intn(5)]}
			case c < 96:
				a = act{Op: "reopen"}
			default:
				a = act{Op: "crash"}
			}
			if i == 0 || i == nsteps-1 {
				sample = append(sample, a)
			}
			return &a
		}
		n := run(tr, root, initAct, gen1, sum)
		sum.Traces++
		sum.Evaluations++
		sum.Steps += n
		if t == 0 {
			for _, a := range sample {
				sum.Sample(a)
			}
		}
	}
	sum.Distinct = len(seenStates)
	sum.Rule = "seeded random Add/Reset/SetGasTip/Reopen/Crash sequences over 3 accounts with capacity 2..5 transactions, forks up to depth 2, foreign inclusions, balance changes, finality advances, fee level changes; distinct = distinct (index, limbo) states"
}

func main() {
	mode := flag.String("mode", "record", "replay|witness|record")
	kind := flag.String("kind", "gap", "known finding of the witnesses: gap|limbo (mode witness)")
	in := flag.String("in", "", "behaviours json (mode replay)")
	dir := flag.String("dir", "", "scratch directory for pool data")
	trace := flag.String("trace", "trace.ndjson", "output trace")
	out := flag.String("out", "summary.json", "summary output")
	n := flag.Int("n", 10, "number of traces (mode record)")
	steps := flag.Int("steps", 50, "operations per trace (mode record)")
	flag.Parse()
	if *dir == "" {
		tl.Fatal("-dir required")
	}
	seed := int64(tl.EnvInt("VERIF_SEED", 1))
	sum := tl.NewSummary("c42", *mode, seed)
	initStatic(4)
	os.MkdirAll(*dir, 0o700)
	measureUnit(*dir)
	sum.Extra["unit_bytes"] = unitSize

	switch *mode {
	case "replay":
		runReplay(*in, *dir, *trace, sum)
	case "witness":
		runWitness(*in, *kind, *dir, *trace, sum)
	case "record":
		runRecord(*dir, *trace, seed, *n, *steps, sum)
	default:
		tl.Fatal("bad mode")
	}
	sum.Extra["pending"] = pending
	sum.Write(*out)
	if len(sum.Violations) > 0 {
		os.Exit(1)
	}
}
