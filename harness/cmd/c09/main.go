// c09 binds spec/trie/RangeProof.tla (property C09) to trie.VerifyRangeProof.
//
//	-mode rows -in rows.json     TLC verdict table: per (key-value set, start key) every
//	                             candidate run (all contiguous runs and all single tamperings)
//	                             against the complete proof database and against no proof, and
//	                             every honest run against exactly the needed edge-proof nodes,
//	                             the real Prove output, and the database with one node withheld.
//	-mode record -trace t.ndjson seeded random tries over 32-byte keys, random runs, start keys
//	                             and tamperings; one event per call with rank-compressed keys,
//	                             validated by RangeProofTrace.tla.
//
// A panic inside VerifyRangeProof is a violation (the property forbids it): calls run under
// recover.
package main

import (
	"flag"
	"fmt"
	"math/rand"
	"os"
	"sort"

	"github.com/ethereum/go-ethereum/common"
	"github.com/ethereum/go-ethereum/crypto"
	"github.com/ethereum/go-ethereum/ethdb"
	"github.com/ethereum/go-ethereum/ethdb/memorydb"
	"github.com/ethereum/go-ethereum/trie"
	tl "verif/harness/tracelib"
	tk "verif/harness/triekit"
)

type rcase struct {
	Run   []tk.KV `json:"run"`
	OK    bool    `json:"ok"`
	More  bool    `json:"more"`
	NilOK bool    `json:"nilok"`
}

type pcase struct {
	Run  []tk.KV `json:"run"`
	Drop [][]int `json:"drop"`
	Only [][]int `json:"only"`
	OK   bool    `json:"ok"`
	More bool    `json:"more"`
}

type row struct {
	KV         []tk.KV   `json:"kv"`
	Tree       *tk.SNode `json:"tree"`
	First      []int     `json:"first"`
	Cases      []rcase   `json:"cases"`
	ProofCases []pcase   `json:"proofcases"`
}

type env struct {
	pad int
	r   *rand.Rand
	sum *tl.Summary
}

func (e *env) key(k []int) []byte { return tk.KeyBytes(k, e.pad) }

func pathStr(p []int) string {
	b := make([]byte, len(p))
	for i, x := range p {
		b[i] = byte(x)
	}
	return string(b)
}

func (e *env) genuine(kv []tk.KV, reopen bool) (*trie.Trie, common.Hash, map[string][]byte) {
	store := tk.NewPathStore()
	tr := trie.NewEmpty(store)
	for _, i := range e.r.Perm(len(kv)) {
		tr.MustUpdate(e.key(kv[i].K), tk.ValBytes(kv[i].V))
	}
	cp := tr.Copy()
	root, set := cp.Commit(false)
	nodes := map[string][]byte{}
	if set != nil {
		for p, n := range set.Nodes {
			if !n.IsDeleted() {
				nodes[p] = n.Blob
				store.Nodes[p] = n.Blob
			}
		}
	}
	if reopen {
		nt, err := trie.New(trie.TrieID(root), store)
		if err != nil {
			tl.Fatal("reopen: %v", err)
		}
		tr = nt
	}
	return tr, root, nodes
}

// verify runs VerifyRangeProof: ok = no error; panicked reported separately.
func verify(root common.Hash, first []byte, keys, vals [][]byte, proof ethdb.KeyValueReader) (more, ok bool, detail string, panicked bool) {
	defer func() {
		if x := recover(); x != nil {
			more, ok, detail, panicked = false, false, fmt.Sprint("panic: ", x), true
		}
	}()
	m, err := trie.VerifyRangeProof(root, first, keys, vals, proof)
	if err != nil {
		return false, false, err.Error(), false
	}
	return m, true, "", false
}

func dbOf(blobs ...[]byte) *memorydb.Database {
	db := memorydb.New()
	for _, b := range blobs {
		db.Put(crypto.Keccak256(b), b)
	}
	return db
}

func (e *env) runBytes(run []tk.KV) (keys, vals [][]byte) {
	keys, vals = [][]byte{}, [][]byte{}
	for _, x := range run {
		keys = append(keys, e.key(x.K))
		v := tk.ValBytes(x.V)
		if v == nil && e.r.Intn(2) == 0 {
			v = []byte{} // the empty value as nil or as empty non-nil slice
		}
		vals = append(vals, v)
	}
	return
}

func runRows(e *env, in string) {
	var rows []row
	tl.ReadJSON(in, &rows)
	distinct := map[string]bool{}
	for ri, rw := range rows {
		bad := false
		fail := func(d string, extra tl.M) {
			extra["kv"], extra["first"], extra["pad"] = rw.KV, rw.First, e.pad
			e.sum.Violate(fmt.Sprintf("trie %v first %v: %s", rw.KV, rw.First, d), extra)
			bad = true
		}
		tr, root, nodes := e.genuine(rw.KV, e.r.Intn(2) == 0)
		_, refRoot := tk.NewRef(rw.Tree, e.pad)
		if root != refRoot {
			fail(fmt.Sprintf("root %x, reference root %x", root, refRoot), tl.M{})
			continue
		}
		first := e.key(rw.First)
		var all [][]byte
		for _, b := range nodes {
			all = append(all, b)
		}
		full := dbOf(all...)
		for _, c := range rw.Cases {
			keys, vals := e.runBytes(c.Run)
			more, ok, det, pan := verify(root, first, keys, vals, full)
			e.sum.Evaluations++
			e.sum.Count("run")
			if pan || ok != c.OK || (ok && more != c.More) {
				fail(fmt.Sprintf("VerifyRangeProof(run %v, complete proof) = (more=%v, ok=%v) %s; specification (more=%v, ok=%v)", c.Run, more, ok, det, c.More, c.OK), tl.M{"run": c.Run})
				break
			}
			more, ok, det, pan = verify(root, first, keys, vals, nil)
			e.sum.Count("run-noproof")
			if pan || ok != c.NilOK || (ok && more) {
				fail(fmt.Sprintf("VerifyRangeProof(run %v, no proof) = (more=%v, ok=%v) %s; specification ok=%v", c.Run, more, ok, det, c.NilOK), tl.M{"run": c.Run})
				break
			}
			dk := fmt.Sprint(rw.KV, rw.First, c.Run)
			if c.OK && !distinct[dk] {
				distinct[dk] = true
				e.sum.Distinct++
			}
		}
		if bad {
			continue
		}
		for _, c := range rw.ProofCases {
			keys, vals := e.runBytes(c.Run)
			var sel [][]byte
			what := ""
			if len(c.Drop) > 0 {
				what = fmt.Sprintf("all nodes but the one at path %v", c.Drop[0])
				// the proof database is addressed by hash: withholding a node withholds every
				// node with the same encoding (the model's P is a set of node identities)
				dropped := nodes[pathStr(c.Drop[0])]
				for _, b := range nodes {
					if string(b) != string(dropped) {
						sel = append(sel, b)
					}
				}
				e.sum.Count("proof-withheld")
			} else {
				what = fmt.Sprintf("exactly the nodes at paths %v", c.Only)
				for _, p := range c.Only {
					b := nodes[pathStr(p)]
					if b == nil {
						tl.Fatal("no stored node at %v", p)
					}
					sel = append(sel, b)
				}
				e.sum.Count("proof-needed")
				// the real prover's edge proofs are exactly these nodes
				pdb := memorydb.New()
				err := tr.Prove(first, pdb)
				if err == nil && len(keys) > 0 {
					err = tr.Prove(keys[len(keys)-1], pdb)
				}
				if err != nil {
					fail("Prove: "+err.Error(), tl.M{})
					break
				}
				{
					var want, got []string
					for _, b := range sel {
						want = append(want, string(crypto.Keccak256(b)))
					}
					it := pdb.NewIterator(nil, nil)
					for it.Next() {
						got = append(got, string(it.Key()))
					}
					it.Release()
					sort.Strings(want)
					sort.Strings(got)
					if fmt.Sprintf("%x", dedup(want)) != fmt.Sprintf("%x", got) {
						fail(fmt.Sprintf("edge proofs of Prove for run %v are %x, specification needs nodes at %v = %x", c.Run, got, c.Only, want), tl.M{})
						break
					}
				}
				more, ok, det, pan := verify(root, first, keys, vals, pdb)
				if pan || ok != c.OK || (ok && more != c.More) {
					fail(fmt.Sprintf("VerifyRangeProof(run %v, edge proofs from Prove) = (more=%v, ok=%v) %s; specification (more=%v, ok=%v)", c.Run, more, ok, det, c.More, c.OK), tl.M{"run": c.Run})
					break
				}
			}
			more, ok, det, pan := verify(root, first, keys, vals, dbOf(sel...))
			e.sum.Evaluations++
			if pan || ok != c.OK || (ok && more != c.More) {
				fail(fmt.Sprintf("VerifyRangeProof(run %v, %s) = (more=%v, ok=%v) %s; specification (more=%v, ok=%v)", c.Run, what, more, ok, det, c.More, c.OK), tl.M{"run": c.Run, "drop": c.Drop, "only": c.Only})
				break
			}
		}
		e.sum.Steps++
		if ri%211 == 3 && len(rw.Cases) > 2 {
			e.sum.Sample(tl.M{"kv": rw.KV, "first": rw.First, "cases": len(rw.Cases), "proofcases": len(rw.ProofCases), "first_cases": rw.Cases[:3]})
		}
	}
	e.sum.Rule = "TLC rows (key-value set, start key): every contiguous run and every single tampering (drop / alter / empty value / inject / swap) against the complete proof database and against no proof; every honest run against exactly the needed nodes, the real Prove output, and with each stored node withheld; distinct = distinct accepted (set, start, run)"
}

func dedup(s []string) []string {
	var out []string
	for i, x := range s {
		if i == 0 || s[i-1] != x {
			out = append(out, x)
		}
	}
	return out
}

func main() {
	mode := flag.String("mode", "rows", "rows|record")
	in := flag.String("in", "", "input json")
	out := flag.String("out", "summary.json", "summary output")
	pad := flag.Int("pad", 0, "zero nibbles appended to model keys")
	trace := flag.String("trace", "trace.ndjson", "output trace (mode record)")
	n := flag.Int("n", 30, "number of tries (mode record)")
	flag.Parse()
	seed := int64(tl.EnvInt("VERIF_SEED", 1))
	sum := tl.NewSummary("c09", *mode, seed)
	e := &env{pad: *pad, r: tl.Rand(seed), sum: sum}
	switch *mode {
	case "rows":
		sum.Mode = "replay"
		runRows(e, *in)
	case "record":
		runRecord(e, *trace, *n)
	default:
		tl.Fatal("bad mode")
	}
	sum.Write(*out)
	if len(sum.Violations) > 0 {
		os.Exit(1)
	}
}
