package main

import (
	"bytes"
	"fmt"
	"sort"

	"github.com/ethereum/go-ethereum/ethdb"
	"github.com/ethereum/go-ethereum/ethdb/memorydb"
	tl "verif/harness/tracelib"
	tk "verif/harness/triekit"
)

type entry struct {
	k []byte
	v int
}

// randomEntries draws a key-value set over 32-byte keys: dense (shared prefixes, late
// differences) or sparse, mixed value sizes.
func randomEntries(e *env, n int) []entry {
	prefixes := [][]byte{{}, {}, {0x12}, {0x12, 0x34, 0x5}, {0xff}, {0xff, 0xf0}, {0x77, 0x77, 0x77, 0x77, 0x77}}
	seen := map[string]bool{}
	var out []entry
	for len(out) < n {
		k := make([]byte, 32)
		e.r.Read(k)
		p := prefixes[e.r.Intn(len(prefixes))]
		copy(k, p)
		if e.r.Intn(4) == 0 && len(out) > 0 {
			k = append([]byte{}, out[e.r.Intn(len(out))].k...)
			k[20+e.r.Intn(12)] ^= byte(1 << e.r.Intn(8))
		}
		if seen[string(k)] {
			continue
		}
		seen[string(k)] = true
		size := 1 + e.r.Intn(3)
		if e.r.Intn(2) == 0 {
			size = 20 + e.r.Intn(40)
		}
		out = append(out, entry{k, size*10 + e.r.Intn(10)})
	}
	sort.Slice(out, func(i, j int) bool { return bytes.Compare(out[i].k, out[j].k) < 0 })
	return out
}

func (e *env) nearKey(k []byte) []byte {
	out := append([]byte{}, k...)
	switch e.r.Intn(3) {
	case 0: // successor-ish
		for i := 31; i >= 0; i-- {
			out[i]++
			if out[i] != 0 {
				break
			}
		}
	case 1: // predecessor-ish
		for i := 31; i >= 0; i-- {
			out[i]--
			if out[i] != 0xff {
				break
			}
		}
	default:
		out[e.r.Intn(32)] ^= byte(1 << e.r.Intn(8))
	}
	return out
}

func runRecord(e *env, path string, n int) {
	tr := tl.NewTrace(path)
	defer tr.Close()
	for t := 0; t < n; t++ {
		size := 1 + e.r.Intn(24)
		if e.r.Intn(8) == 0 {
			size = 1
		}
		ents := randomEntries(e, size)
		kv := make([]tk.KV, len(ents))
		for i, x := range ents {
			kv[i] = tk.KV{K: tk.KeyNibs(x.k, 0), V: x.v}
		}
		real, root, nodes := e.genuine(kv, e.r.Intn(2) == 0)
		var all [][]byte
		for _, b := range nodes {
			all = append(all, b)
		}
		e.sum.Traces++
		for q := 0; q < 25; q++ {
			// honest run i..j (possibly empty) and an honest or dishonest start key
			i, j := e.r.Intn(len(ents)), 0
			j = i + e.r.Intn(len(ents)-i)
			run := append([]entry{}, ents[i:j+1]...)
			if e.r.Intn(10) == 0 {
				run = nil
			}
			var first []byte
			switch e.r.Intn(6) {
			case 0:
				first = make([]byte, 32) // zero key
			case 1:
				first = make([]byte, 32)
				e.r.Read(first)
			case 2:
				first = e.nearKey(ents[i].k)
			case 3:
				if i > 0 {
					first = e.nearKey(ents[i-1].k)
				} else {
					first = ents[i].k
				}
			default:
				first = ents[i].k
			}
			if run == nil && e.r.Intn(2) == 0 {
				first = e.nearKey(ents[len(ents)-1].k) // often beyond the last entry
			}
			// tampering
			tam := "none"
			if len(run) > 0 {
				switch e.r.Intn(12) {
				case 0:
					p := e.r.Intn(len(run))
					run = append(run[:p:p], run[p+1:]...)
					tam = "drop"
				case 1:
					p := e.r.Intn(len(run))
					run[p].v = run[p].v/10*10 + (run[p].v%10+1)%10
					tam = "alter"
				case 2:
					p := e.r.Intn(len(run))
					run[p].v = 0
					tam = "empty-value"
				case 3:
					p := e.r.Intn(len(run))
					x := entry{e.nearKey(run[p].k), 331}
					run = append(run, x)
					sort.Slice(run, func(a, b int) bool { return bytes.Compare(run[a].k, run[b].k) < 0 })
					tam = "inject"
				case 4:
					if len(run) > 1 {
						p := e.r.Intn(len(run) - 1)
						run[p], run[p+1] = run[p+1], run[p]
						tam = "swap"
					}
				case 5:
					p := e.r.Intn(len(run))
					run = append(run[:p+1:p+1], run[p:]...)
					tam = "duplicate"
				}
			}
			keys, vals := [][]byte{}, [][]byte{}
			for _, x := range run {
				keys = append(keys, x.k)
				v := tk.ValBytes(x.v)
				if v == nil {
					v = []byte{}
				}
				vals = append(vals, v)
			}
			// proof database
			var proof ethdb.KeyValueReader
			pm := []string{"all", "honest", "honest", "nil"}[e.r.Intn(4)]
			switch pm {
			case "all":
				proof = dbOf(all...)
			case "honest":
				pdb := memorydb.New()
				err := real.Prove(first, pdb)
				if err == nil && len(keys) > 0 {
					err = real.Prove(keys[len(keys)-1], pdb)
				}
				if err != nil {
					e.sum.Violate("Prove: "+err.Error(), tl.M{"kv": kv})
					continue
				}
				proof = pdb
			}
			more, ok, det, pan := verify(root, first, keys, vals, proof)
			if pan {
				e.sum.Violate("VerifyRangeProof "+det, tl.M{"kv": kv, "first": fmt.Sprintf("%x", first), "run": fmt.Sprint(run), "proof": pm})
				continue
			}
			// rank compression over all keys of the call
			uni := map[string]bool{string(first): true}
			for _, x := range ents {
				uni[string(x.k)] = true
			}
			for _, x := range run {
				uni[string(x.k)] = true
			}
			var sorted []string
			for k := range uni {
				sorted = append(sorted, k)
			}
			sort.Strings(sorted)
			rank := map[string]int{}
			for i, k := range sorted {
				rank[k] = i + 1
			}
			type rk struct {
				K []int `json:"k"`
				V int   `json:"v"`
			}
			kvj, runj := []rk{}, []rk{}
			for _, x := range ents {
				kvj = append(kvj, rk{[]int{rank[string(x.k)]}, x.v})
			}
			for _, x := range run {
				runj = append(runj, rk{[]int{rank[string(x.k)]}, x.v})
			}
			ev := tl.M{"op": "range", "kv": kvj, "first": []int{rank[string(first)]}, "run": runj, "proof": pm, "ok": ok, "more": more, "tamper": tam}
			tr.Emit(ev)
			e.sum.Evaluations++
			e.sum.Count("range-" + pm)
			e.sum.Count("tamper-" + tam)
			if ok {
				e.sum.Distinct++
				e.sum.Count("accepted")
			}
			if t == 0 && q < 3 {
				e.sum.Sample(ev)
			}
		}
	}
	e.sum.Steps = tr.N
	e.sum.Rule = "seeded random tries over 32-byte keys (1..24 entries, dense and sparse), random contiguous runs, start keys (exact / near / random / zero) and single tamperings, against all nodes / real edge proofs / no proof; distinct = accepted calls"
}
