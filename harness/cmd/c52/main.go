// c52 binds spec/codec/Keystore.tla to accounts/keystore (property C52, keystore files decrypt
// only with the right passphrase).
//
//	-mode rows   -in rows.json    every row of the TLC decision table (key x passphrase x tried passphrase
//	                               x alteration of one field of the key file) realised with EncryptKey
//	                               (light scrypt), the field edited in the JSON, DecryptKey called; the
//	                               coarse outcome (SameKey / OtherKey / Reject) is compared (R)
//	-mode dir    -in edges.json   every edge of the keystore directory machine executed on one real
//	                               keystore.KeyStore set to the edge's source state (R)
//	-mode record -trace t.ndjson  seeded random keys, passphrases (empty/ASCII/unicode) and single-character
//	                               alterations of the hex fields, validated by KeystoreTrace.tla (V)
package main

import (
	"bytes"
	"crypto/ecdsa"
	"encoding/hex"
	"encoding/json"
	"errors"
	"flag"
	"fmt"
	"os"
	"path/filepath"
	"runtime"
	"sort"
	"strings"
	"time"

	"github.com/ethereum/go-ethereum/accounts"
	"github.com/ethereum/go-ethereum/accounts/keystore"
	"github.com/ethereum/go-ethereum/common"
	"github.com/ethereum/go-ethereum/crypto"
	"github.com/google/uuid"
	tl "verif/harness/tracelib"
)

const scryptN, scryptP = 2, 1 // light parameters: every encrypt/decrypt takes microseconds

var passOf = map[string]string{
	"A": "correct horse battery staple",
	"B": "Correct horse battery staple", // differs in one bit
	"E": "",
	"U": "pässwörd-Ω-✓-\U0001F511",
	"-": "",
}

func keyFor(seed int64, id int, salt int) *ecdsa.PrivateKey {
	for ctr := 0; ; ctr++ {
		b := crypto.Keccak256([]byte(fmt.Sprintf("c52/%d/%d/%d/%d", seed, id, salt, ctr)))
		if k, err := crypto.ToECDSA(b); err == nil {
			return k
		}
	}
}

func newKey(priv *ecdsa.PrivateKey) *keystore.Key {
	id, _ := uuid.NewRandom()
	return &keystore.Key{Id: id, Address: crypto.PubkeyToAddress(priv.PublicKey), PrivateKey: priv}
}

// decrypt classifies one DecryptKey call; a panic of the implementation is caught and reported as class
// "panic" (the rows where it is tolerated are decided by the caller).
func decrypt(js []byte, pass string) (k *keystore.Key, err error, panicked any) {
	defer func() {
		if r := recover(); r != nil {
			panicked = r
		}
	}()
	k, err = keystore.DecryptKey(js, pass)
	return
}

func flipHex(s string, malformed bool) string {
	if len(s) == 0 {
		return "zz"
	}
	if malformed {
		return "z" + s[1:]
	}
	c := s[0]
	r := byte('0')
	if c == '0' {
		r = '1'
	}
	return string(r) + s[1:]
}

// alter edits one field of an encrypted key file.
func alter(js []byte, field, mode string, variant int) []byte {
	var m map[string]any
	if err := json.Unmarshal(js, &m); err != nil {
		tl.Fatal("own key file does not parse: %v", err)
	}
	bad := mode == "malformed"
	cr := m["crypto"].(map[string]any)
	kp := cr["kdfparams"].(map[string]any)
	switch field {
	case "none":
	case "salt":
		kp["salt"] = flipHex(kp["salt"].(string), bad)
	case "iv":
		cp := cr["cipherparams"].(map[string]any)
		cp["iv"] = flipHex(cp["iv"].(string), bad)
	case "ciphertext":
		cr["ciphertext"] = flipHex(cr["ciphertext"].(string), bad)
	case "mac":
		cr["mac"] = flipHex(cr["mac"].(string), bad)
	case "n":
		if bad {
			kp["n"] = 3
		} else {
			kp["n"] = 4
		}
	case "r":
		kp["r"] = 4
	case "p":
		kp["p"] = 2
	case "dklen":
		kp["dklen"] = 16
	case "cipher":
		cr["cipher"] = "aes-128-cbc"
	case "kdf":
		cr["kdf"] = "bcrypt"
	case "version":
		switch {
		case !bad:
			m["version"] = 4
		case variant%2 == 0:
			m["version"] = 1
		default:
			m["version"] = "1" // selects the version-1 decoder
		}
	case "id":
		if bad {
			m["id"] = "not-a-uuid"
		} else {
			m["id"] = uuid.NewString()
		}
	case "address":
		m["address"] = flipHex(m["address"].(string), bad)
	default:
		tl.Fatal("unknown field %q", field)
	}
	out, err := json.Marshal(m)
	if err != nil {
		tl.Fatal("marshal: %v", err)
	}
	return out
}

// classify maps a DecryptKey result to the specification's outcome classes.
func classify(k *keystore.Key, err error, panicked any, orig *keystore.Key) (string, string) {
	switch {
	case panicked != nil:
		return "Reject", "panic"
	case err != nil:
		return "Reject", ""
	case k == nil || k.PrivateKey == nil:
		return "Broken", "nil key without error"
	}
	if k.Address != crypto.PubkeyToAddress(k.PrivateKey.PublicKey) {
		return "Broken", "returned address is not the address of the returned key"
	}
	if k.PrivateKey.D.Cmp(orig.PrivateKey.D) == 0 {
		if k.Address != orig.Address {
			return "Broken", "same key, different address"
		}
		return "SameKey", ""
	}
	return "OtherKey", ""
}

type row struct {
	Key     int    `json:"key"`
	Pass    string `json:"pass"`
	Try     string `json:"try"`
	Field   string `json:"field"`
	Mode    string `json:"mode"`
	Outcome string `json:"outcome"`
	At      string `json:"at"`
	IdKept  bool   `json:"idkept"`
}

func runRows(in string, seed int64, reps int, sum *tl.Summary) {
	var rows []row
	tl.ReadJSON(in, &rows)
	panics := map[string]int{}
	for ri, r := range rows {
		for rep := 0; rep < reps; rep++ {
			orig := newKey(keyFor(seed, r.Key, ri*reps+rep))
			js, err := keystore.EncryptKey(orig, passOf[r.Pass], scryptN, scryptP)
			if err != nil {
				tl.Fatal("EncryptKey: %v", err)
			}
			js2 := alter(js, r.Field, r.Mode, ri+rep)
			k, derr, pan := decrypt(js2, passOf[r.Try])
			got, detail := classify(k, derr, pan, orig)
			sum.Evaluations++
			sum.Steps++
			sum.Count(r.Field + "/" + r.Mode)
			if detail == "panic" {
				panics[r.Field+"/"+r.Mode]++
			}
			desc := fmt.Sprintf("encrypted with %q, %s %s, decrypted with %q", r.Pass, r.Field, r.Mode, r.Try)
			if got != r.Outcome {
				sum.Violate(fmt.Sprintf("%s: implementation %s (%v %s), specification %s", desc, got, derr, detail, r.Outcome),
					tl.M{"row": r, "file": string(js2), "got": got, "err": fmt.Sprint(derr)})
				continue
			}
			if got == "SameKey" && r.IdKept != (k.Id == orig.Id) {
				sum.Violate(fmt.Sprintf("%s: returned id kept=%v, specification %v", desc, k.Id == orig.Id, r.IdKept), tl.M{"row": r, "file": string(js2)})
			}
			// an untouched file and a wrong passphrase: the documented error
			if r.Field == "none" && r.Pass != r.Try && !errors.Is(derr, keystore.ErrDecrypt) {
				sum.Violate(fmt.Sprintf("%s: error is %v, want keystore.ErrDecrypt", desc, derr), tl.M{"row": r})
			}
			if ri%150 == 3 && rep == 0 {
				sum.Sample(tl.M{"row": r, "got": got})
			}
		}
		sum.Distinct++
	}
	for k, v := range panics {
		sum.Notes = append(sum.Notes, fmt.Sprintf("DecryptKey panicked (counted as Reject) on %d files with %s", v, k))
	}
	sort.Strings(sum.Notes)
	sum.Rule = "every row of the TLC decision table realised on keystore.EncryptKey/DecryptKey with light scrypt and fresh keys; distinct = table rows; evaluations = rows x repetitions"
}

// ---------------------------------------------------------------- directory machine (R)

type dstate struct {
	Accts []string `json:"accts"` // per key 1..3: passphrase name or "-"
	Blobs [][]any  `json:"blobs"` // [key, pass]
}
type dedge struct {
	From dstate `json:"from"`
	Act  struct {
		Op  string `json:"op"`
		Key int    `json:"key"`
		P   string `json:"p"`
		Q   string `json:"q"`
		Bp  string `json:"bp"`
		Ok  bool   `json:"ok"`
	} `json:"act"`
	To dstate `json:"to"`
}

type dirRunner struct {
	ks   *keystore.KeyStore
	dir  string
	seed int64
}

func (d *dirRunner) priv(k int) *ecdsa.PrivateKey { return keyFor(d.seed, k, 0) }
func (d *dirRunner) addr(k int) common.Address     { return crypto.PubkeyToAddress(d.priv(k).PublicKey) }
func (d *dirRunner) acct(k int) accounts.Account   { return accounts.Account{Address: d.addr(k)} }

// open creates a fresh keystore directory holding the model state (every key is created at most
// once per directory: the account cache of a KeyStore is refreshed asynchronously by a file watcher,
// and re-creating a just deleted address can transiently show both files).
func (d *dirRunner) open(want []string) {
	dir, err := os.MkdirTemp(".", "ks-")
	if err != nil {
		tl.Fatal("mkdir: %v", err)
	}
	d.dir = dir
	d.ks = keystore.NewKeyStore(dir, scryptN, scryptP)
	for i, w := range want {
		if w != "-" {
			if _, err := d.ks.ImportECDSA(d.priv(i+1), passOf[w]); err != nil {
				tl.Fatal("cannot set up keystore: %v", err)
			}
		}
	}
}

func (d *dirRunner) close() {
	os.RemoveAll(d.dir)
	d.ks = nil // the watcher is released by the KeyStore's finalizer
}

// listing compares ks.Accounts() with the model; the cache is eventually consistent (file watcher),
// so a mismatch is only reported when it persists for a long time.
func (d *dirRunner) listing(want []string) string {
	deadline := time.Now().Add(90 * time.Second)
	for {
		have := map[common.Address]bool{}
		for _, a := range d.ks.Accounts() {
			have[a.Address] = true
		}
		msg, n := "", 0
		for i, w := range want {
			if w != "-" {
				n++
			}
			if (w != "-") != have[d.addr(i+1)] {
				msg = fmt.Sprintf("key %d listed=%v, specification stored=%v", i+1, have[d.addr(i+1)], w != "-")
			}
		}
		if msg == "" && len(have) != n {
			msg = fmt.Sprintf("%d accounts listed, specification %d", len(have), n)
		}
		if msg == "" || time.Now().After(deadline) {
			return msg
		}
		time.Sleep(25 * time.Millisecond)
	}
}

// files checks the directory itself: exactly one key file per stored key, and it opens with exactly
// the passphrase the model says.
func (d *dirRunner) files(want []string, passes []string) string {
	ents, err := os.ReadDir(d.dir)
	if err != nil {
		return err.Error()
	}
	byAddr := map[string][]string{}
	for _, e := range ents {
		if e.IsDir() || strings.HasPrefix(e.Name(), ".") {
			continue
		}
		if i := strings.LastIndex(e.Name(), "--"); i >= 0 {
			byAddr[strings.ToLower(e.Name()[i+2:])] = append(byAddr[strings.ToLower(e.Name()[i+2:])], filepath.Join(d.dir, e.Name()))
		}
	}
	n := 0
	for i, w := range want {
		k := i + 1
		fs := byAddr[hex.EncodeToString(d.addr(k).Bytes())]
		if w == "-" {
			if len(fs) != 0 {
				return fmt.Sprintf("key %d has %d files, specification: not stored", k, len(fs))
			}
			continue
		}
		n++
		if len(fs) != 1 {
			return fmt.Sprintf("key %d has %d files, specification: stored", k, len(fs))
		}
		js, err := os.ReadFile(fs[0])
		if err != nil {
			return err.Error()
		}
		for _, p := range passes {
			key, err := keystore.DecryptKey(js, passOf[p])
			if p == w {
				if err != nil || key.PrivateKey.D.Cmp(d.priv(k).D) != 0 || key.Address != d.addr(k) {
					return fmt.Sprintf("key %d does not open with its passphrase %q: %v", k, p, err)
				}
			} else if err == nil {
				return fmt.Sprintf("key %d stored under %q opens with %q", k, w, p)
			}
		}
	}
	if len(byAddr) != n {
		return fmt.Sprintf("%d key files, specification %d", len(byAddr), n)
	}
	return ""
}

func runDir(in string, seed int64, sum *tl.Summary) {
	var edges []dedge
	tl.ReadJSON(in, &edges)
	d := &dirRunner{seed: seed}
	passSet := map[string]bool{}
	for _, e := range edges {
		for _, p := range append(append([]string{}, e.From.Accts...), e.Act.P, e.Act.Q) {
			if _, ok := passOf[p]; ok && p != "-" && p != "" {
				passSet[p] = true
			}
		}
	}
	var passes []string
	for p := range passSet {
		passes = append(passes, p)
	}
	sort.Strings(passes)
	for ei, e := range edges {
		d.open(e.From.Accts)
		var err error
		var blob []byte
		switch e.Act.Op {
		case "New":
			mine := d.priv(e.Act.Key)
			_, err = d.ks.ImportECDSA(mine, passOf[e.Act.P])
			if mine.D.Cmp(d.priv(e.Act.Key).D) != 0 {
				sum.Violate("ImportECDSA modified the caller's private key", tl.M{"edge": e})
			}
		case "Update":
			err = d.ks.Update(d.acct(e.Act.Key), passOf[e.Act.P], passOf[e.Act.Q])
		case "Delete":
			err = d.ks.Delete(d.acct(e.Act.Key), passOf[e.Act.P])
		case "Export":
			blob, err = d.ks.Export(d.acct(e.Act.Key), passOf[e.Act.P], passOf[e.Act.Q])
		case "Import":
			// the blob the model holds: key Act.Key exported under Act.Bp
			js, eerr := keystore.EncryptKey(newKey(d.priv(e.Act.Key)), passOf[e.Act.Bp], scryptN, scryptP)
			if eerr != nil {
				tl.Fatal("EncryptKey: %v", eerr)
			}
			_, err = d.ks.Import(js, passOf[e.Act.P], passOf[e.Act.Q])
		default:
			tl.Fatal("unknown op %q", e.Act.Op)
		}
		sum.Evaluations++
		sum.Steps++
		sum.Count(e.Act.Op)
		if fmt.Sprint(e.From) != fmt.Sprint(e.To) {
			sum.Distinct++
		}
		msg := ""
		if (err == nil) != e.Act.Ok {
			msg = fmt.Sprintf("call returned %v, specification ok=%v", err, e.Act.Ok)
		} else if m := d.files(e.To.Accts, passes); m != "" {
			msg = m
		} else if m := d.listing(e.To.Accts); m != "" {
			msg = m
		} else if e.Act.Op == "Export" && e.Act.Ok {
			for _, p := range passes {
				k, derr := keystore.DecryptKey(blob, passOf[p])
				if p == e.Act.Q && (derr != nil || k.Address != d.addr(e.Act.Key)) {
					msg = fmt.Sprintf("exported file does not open with the new passphrase %q: %v", p, derr)
				} else if p != e.Act.Q && derr == nil {
					msg = fmt.Sprintf("file exported under %q opens with %q", e.Act.Q, p)
				}
			}
		}
		if msg != "" {
			sum.Violate(fmt.Sprintf("keystore %+v from %v: %s", e.Act, e.From.Accts, msg), tl.M{"edge": e})
		}
		d.close()
		if ei%8 == 7 {
			runtime.GC() // run KeyStore finalizers: closes the file watchers of the discarded keystores
		}
		if ei%400 == 9 {
			sum.Sample(e)
		}
		if len(sum.Violations) >= 20 {
			break
		}
	}
	sum.Rule = "every edge of the TLC graph of MCKeystoreDir.cfg executed on a fresh real keystore.KeyStore holding the edge's source state (ImportECDSA); after the call: success flag, one key file per stored key opening with exactly the passphrase of the specification, account listing (eventually); distinct = state-changing edges"
}

// ---------------------------------------------------------------- record (V)

func randPass(r interface{ Intn(int) int }) string {
	switch r.Intn(6) {
	case 5: // long passphrases (beyond the HMAC block size, beyond 2^8 and 2^10 bytes)
		n := []int{63, 64, 65, 127, 128, 129, 255, 256, 257, 1025, 3000}[r.Intn(11)]
		b := make([]byte, n)
		for i := range b {
			b[i] = byte(33 + r.Intn(90))
		}
		return string(b)
	case 0:
		return ""
	case 1:
		runes := []rune("äöΩ✓\U0001F511中文 \t\"\\")
		n := 1 + r.Intn(8)
		var sb strings.Builder
		for i := 0; i < n; i++ {
			sb.WriteRune(runes[r.Intn(len(runes))])
		}
		return sb.String()
	default:
		n := 1 + r.Intn(20)
		b := make([]byte, n)
		for i := range b {
			b[i] = byte(32 + r.Intn(95))
		}
		return string(b)
	}
}

func runRecord(path string, seed int64, n int, sum *tl.Summary) {
	r := tl.Rand(seed)
	tr := tl.NewTrace(path)
	defer tr.Close()
	fields := []string{"none", "salt", "iv", "ciphertext", "mac", "address"}
	shapes := map[string]bool{}
	for i := 0; i < n; i++ {
		orig := newKey(keyFor(seed, 1000+i, 0))
		pass := randPass(r)
		try, same := pass, true
		if r.Intn(2) == 0 {
			try = randPass(r)
			if r.Intn(2) == 0 { // near misses: passphrases are opaque byte strings, every different one must fail
				switch r.Intn(8) {
				case 0:
					try = pass + " "
				case 1:
					try = pass + "\n"
				case 2:
					try = " " + pass
				case 3:
					// not pass + "\x00": HMAC zero-pads its key, so trailing NUL bytes of a passphrase shorter
					// than 64 bytes are insignificant to PBKDF2/scrypt by construction (the KDF is not injective there)
					try = pass + "0"
				case 4:
					try = strings.ToUpper(pass)
				case 5:
					if len(pass) > 0 {
						try = pass[:len(pass)-1]
					}
				case 6:
					try = strings.Replace(pass, "ä", "a\u0308", 1) // canonically equivalent, different bytes
				default:
					if len(pass) > 0 {
						b := []byte(pass)
						b[r.Intn(len(b))] ^= 1
						try = string(b)
					}
				}
			}
			same = try == pass
		}
		js, err := keystore.EncryptKey(orig, pass, scryptN, scryptP)
		if err != nil {
			tl.Fatal("EncryptKey: %v", err)
		}
		field := fields[r.Intn(len(fields))]
		mode := "value"
		js2 := js
		if field != "none" {
			// change one character of the field's hex string to a random character
			var m map[string]any
			json.Unmarshal(js, &m)
			cr := m["crypto"].(map[string]any)
			var holder map[string]any
			key := field
			switch field {
			case "salt":
				holder = cr["kdfparams"].(map[string]any)
			case "iv":
				holder = cr["cipherparams"].(map[string]any)
			case "address":
				holder = m
			default:
				holder = cr
			}
			s := []byte(holder[key].(string))
			pos := r.Intn(len(s))
			old, _ := hex.DecodeString(string(s))
			s[pos] = "0123456789abcdefABCDEFgxz -"[r.Intn(27)]
			holder[key] = string(s)
			now, herr := hex.DecodeString(string(s))
			switch {
			case herr != nil:
				mode = "malformed"
			case bytes.Equal(old, now):
				field = "none" // same bytes (e.g. upper-case digit): the file is semantically untouched
			}
			js2, _ = json.Marshal(m)
		}
		k, derr, pan := decrypt(js2, try)
		got, detail := classify(k, derr, pan, orig)
		if got == "Broken" {
			sum.Violate(detail, tl.M{"file": string(js2)})
		}
		tr.Emit(tl.M{"field": field, "mode": mode, "same": same, "outcome": got})
		sum.Count(field + "/" + mode)
		sum.Evaluations++
		sh := fmt.Sprint(field, mode, same)
		if !shapes[sh] {
			shapes[sh] = true
			sum.Distinct++
		}
		if i < 2 {
			sum.Sample(tl.M{"field": field, "mode": mode, "same": same, "outcome": got})
		}
	}
	sum.Traces = 1
	sum.Steps = tr.N
	sum.Rule = "seeded random keys and passphrases (empty, printable ASCII, unicode; wrong passphrases incl. one-bit near misses), one random character of salt/iv/ciphertext/mac/address replaced (hex or not); outcome class logged; distinct = (field, mode, same-passphrase) combinations"
}

func main() {
	mode := flag.String("mode", "rows", "rows|dir|record")
	in := flag.String("in", "", "input json")
	trace := flag.String("trace", "trace.ndjson", "output trace")
	out := flag.String("out", "summary.json", "summary output")
	n := flag.Int("n", 500, "random cases (record)")
	reps := flag.Int("reps", 2, "fresh keys per table row (rows)")
	flag.Parse()
	seed := int64(tl.EnvInt("VERIF_SEED", 1))
	sum := tl.NewSummary("c52", *mode, seed)
	switch *mode {
	case "rows":
		sum.Mode = "replay"
		runRows(*in, seed, *reps, sum)
	case "dir":
		sum.Mode = "replay"
		runDir(*in, seed, sum)
	case "record":
		runRecord(*trace, seed, *n, sum)
	default:
		tl.Fatal("bad mode")
	}
	sum.Write(*out)
	if len(sum.Violations) > 0 {
		os.Exit(1)
	}
}
