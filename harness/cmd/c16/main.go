// c16 replays TLC-generated behaviours of spec/state/PathDB.tla on a real triedb/pathdb
// database driven through state.StateDB commits (real tries, real roots) for property C16.
//
//	-mode replay -in behaviours.json    behaviours from MCPathDB (simulation with history)
//	-mode finding                       deterministic reproduction of finding F1 through Update/NodeReader/Commit
//
// After every step the driver compares the white-box projection of the database (layers,
// parents, ids, changed keys, disk layer, buffer, frozen buffer, persistent id and flat state,
// lookup index, descendants) with the model state, then reads every key at every live root
// through StateReader (lookup fast path) and through a state trie over NodeReader (layer walk)
// and checks that dropped roots are refused.  Reader steps of the model (OpenReader / ReadTip /
// ReadVal / ReadNode) run in a reader goroutine that the verif hook parks between
// lookupAccount and layer.account while the main goroutine performs the cap/flush steps TLC
// scheduled in between; background flushes are parked at buffer.flush start and released by
// the model's FlushDone.
package main

import (
	"encoding/json"
	"errors"
	"flag"
	"fmt"
	"os"
	"runtime/pprof"
	"sort"
	"strings"
	"sync"
	"time"

	"github.com/ethereum/go-ethereum/common"
	"github.com/ethereum/go-ethereum/core/rawdb"
	"github.com/ethereum/go-ethereum/core/state"
	"github.com/ethereum/go-ethereum/core/tracing"
	"github.com/ethereum/go-ethereum/core/types"
	"github.com/ethereum/go-ethereum/crypto"
	"github.com/ethereum/go-ethereum/ethdb"
	"github.com/ethereum/go-ethereum/log"
	"github.com/ethereum/go-ethereum/params"
	"github.com/ethereum/go-ethereum/rlp"
	"github.com/ethereum/go-ethereum/trie"
	"github.com/ethereum/go-ethereum/trie/trienode"
	"github.com/ethereum/go-ethereum/triedb"
	"github.com/ethereum/go-ethereum/triedb/database"
	"github.com/ethereum/go-ethereum/triedb/pathdb"
	"github.com/holiman/uint256"
	tl "verif/harness/tracelib"
)

const errStale = -1

var waitMax = 300 * time.Second

// pre-Cancun rules: an emptied contract account is deleted together with its storage (storage wiping)
var rules = params.Rules{IsHomestead: true, IsEIP150: true, IsEIP155: true, IsEIP158: true}

// ------------------------------------------------------------------ worlds

type world map[string]int

func (w world) key(keys []string) string {
	parts := make([]string, len(keys))
	for i, k := range keys {
		parts[i] = fmt.Sprintf("%s=%d", k, w[k])
	}
	return strings.Join(parts, ",")
}

func parseWorld(v any) world {
	w := world{}
	if m, ok := v.(map[string]any); ok {
		for k, x := range m {
			w[k] = int(x.(float64))
		}
	}
	return w // a JSON array ([]) is the empty map
}

func apply(w, d world, keys []string) world {
	out := world{}
	for _, k := range keys {
		out[k] = w[k]
		if v, ok := d[k]; ok {
			out[k] = v
		}
	}
	return out
}

var contract = common.HexToAddress("0xc0ffee0000000000000000000000000000000001")

func isSlot(k string) bool { return strings.HasPrefix(k, "s") }
func addrOf(k string) common.Address {
	return common.BytesToAddress(crypto.Keccak256([]byte("verif-account-" + k))[:20])
}
func slotOf(k string) common.Hash { return crypto.Keccak256Hash([]byte("verif-slot-" + k)) }

func hasContract(w world) bool {
	for k, v := range w {
		if isSlot(k) && v != 0 {
			return true
		}
	}
	return false
}

// write makes the state object content equal to world nw for the keys that differ from ow.
func write(st *state.StateDB, ow, nw world, keys []string) {
	for _, k := range keys {
		if ow[k] == nw[k] || isSlot(k) {
			continue
		}
		// balance 0 = empty account, removed at commit (EIP-158)
		st.SetBalance(addrOf(k), uint256.NewInt(uint64(nw[k])), tracing.BalanceChangeUnspecified)
	}
	slotsChanged := false
	for _, k := range keys {
		if isSlot(k) && ow[k] != nw[k] {
			slotsChanged = true
		}
	}
	if !slotsChanged {
		return
	}
	if !hasContract(nw) {
		// the contract account disappears with all its storage (empty account => deleted, storage wiped)
		st.SetNonce(contract, 0, tracing.NonceChangeUnspecified)
		return
	}
	st.SetNonce(contract, 1, tracing.NonceChangeUnspecified)
	for _, k := range keys {
		if isSlot(k) && (ow[k] != nw[k] || !hasContract(ow)) {
			st.SetState(contract, slotOf(k), common.BigToHash(uint256.NewInt(uint64(nw[k])).ToBig()))
		}
	}
}

// ------------------------------------------------------------------ environment

type env struct {
	keys   []string
	async  bool
	disk   ethdb.Database
	tdb    *triedb.Database
	pdb    *pathdb.Database
	sdb    state.Database
	ref    state.Database // independent hash-scheme database used to compute reference roots
	root   map[string]common.Hash
	wkey   map[common.Hash]string
	worlds map[string]world
	refSR  map[string]common.Hash // world -> storage root of the contract
	block  uint64
	sum    *tl.Summary
	gate   *gates
	dead   map[string]bool // roots that were live once and have been dropped
	pend   map[string]int  // pending findings (TODO-KNOWN-FINDING F1)
	where  string
	f1desc map[common.Hash]bool // descendants keys already attributed to F1
}

func newEnv(keys []string, async bool, sum *tl.Summary, g *gates) *env {
	e := &env{keys: keys, async: async, sum: sum, gate: g, root: map[string]common.Hash{}, wkey: map[common.Hash]string{},
		worlds: map[string]world{}, refSR: map[string]common.Hash{}, dead: map[string]bool{}, pend: map[string]int{},
		f1desc: map[common.Hash]bool{}}
	g.mu.Lock()
	g.async, g.allowance = async, 0
	g.mu.Unlock()
	e.disk = rawdb.NewMemoryDatabase()
	e.tdb = triedb.NewDatabase(e.disk, &triedb.Config{PathDB: &pathdb.Config{
		TrieCleanSize: 1 << 20, StateCleanSize: 1 << 20, WriteBufferSize: 1 << 28,
		NoAsyncFlush: !async, NoAsyncGeneration: true, TrienodeHistory: -1,
	}})
	nr, err := e.tdb.NodeReader(types.EmptyRootHash)
	if err != nil {
		tl.Fatal("fresh database has no empty state: %v", err)
	}
	e.pdb = pathdb.VerifPathDB(nr)
	e.sdb = state.NewDatabase(e.tdb, nil)
	e.ref = state.NewDatabaseForTesting()
	empty := world{}
	for _, k := range keys {
		empty[k] = 0
	}
	e.register(empty, types.EmptyRootHash)
	return e
}

func (e *env) close() {
	e.gate.releaseFlush() // never leave a parked flush goroutine behind
	e.tdb.Close()
}

func (e *env) register(w world, root common.Hash) {
	k := w.key(e.keys)
	if old, ok := e.root[k]; ok && old != root {
		e.sum.Violate(fmt.Sprintf("two different roots for the same state %s: %x and %x", k, old, root), tl.M{"world": k})
	}
	if ok, has := e.wkey[root]; has && ok != k {
		e.sum.Violate(fmt.Sprintf("same root %x for different states %s and %s", root, ok, k), tl.M{"world": k})
	}
	e.root[k], e.wkey[root], e.worlds[k] = root, k, w
}

// reference computes root and contract storage root of a world with an independent
// (hash scheme, built from scratch) state database.
func (e *env) reference(w world) (common.Hash, common.Hash) {
	st, err := state.New(types.EmptyRootHash, e.ref)
	if err != nil {
		tl.Fatal("reference state: %v", err)
	}
	zero := world{}
	write(st, zero, w, e.keys)
	root := st.IntermediateRoot(rules)
	sr := types.EmptyRootHash
	if hasContract(w) {
		sr = st.GetStorageRoot(contract)
	}
	return root, sr
}

func (e *env) storageRoot(w world) common.Hash {
	k := w.key(e.keys)
	if sr, ok := e.refSR[k]; ok {
		return sr
	}
	_, sr := e.reference(w)
	e.refSR[k] = sr
	return sr
}

// rootOf returns the real root of a model world (known from an earlier commit, else from the reference).
func (e *env) rootOf(w world) common.Hash {
	if r, ok := e.root[w.key(e.keys)]; ok {
		return r
	}
	r, _ := e.reference(w)
	return r
}

// ------------------------------------------------------------------ gates

// gates implements the two scheduler gates on top of pathdb.VerifHook.
type gates struct {
	mu sync.Mutex
	// reader gate: armed for exactly one (state, key) lookup; the hook parks that call
	armed   bool
	parked  chan common.Hash // receives the tip root when the reader is parked
	release chan struct{}
	// flush gate
	async     bool          // flushes are parked only when the database flushes in the background
	allowance int           // flushes that may run through without parking
	flushWait chan struct{} // non-nil while a flush goroutine is parked
}

func newGates() *gates {
	g := &gates{parked: make(chan common.Hash, 1), release: make(chan struct{})}
	pathdb.VerifHook = g.hook
	return g
}

func (g *gates) hook(ev string, kv ...any) {
	switch ev {
	case "reader.account.tip", "reader.storage.tip":
		g.mu.Lock()
		if !g.armed {
			g.mu.Unlock()
			return
		}
		g.armed = false
		g.mu.Unlock()
		g.parked <- kv[len(kv)-1].(common.Hash)
		<-g.release
	case "buffer.flush.start":
		g.mu.Lock()
		if !g.async {
			g.mu.Unlock()
			return
		}
		if g.allowance > 0 {
			g.allowance--
			g.mu.Unlock()
			return
		}
		ch := make(chan struct{})
		g.flushWait = ch
		g.mu.Unlock()
		<-ch
	}
}

func (g *gates) flushParked() bool {
	g.mu.Lock()
	defer g.mu.Unlock()
	return g.flushWait != nil
}

func (g *gates) releaseFlush() bool {
	g.mu.Lock()
	ch := g.flushWait
	g.flushWait = nil
	g.mu.Unlock()
	if ch != nil {
		close(ch)
		return true
	}
	return false
}

// ------------------------------------------------------------------ model projection

type layerJ struct {
	Root   any      `json:"root"`
	Parent any      `json:"parent"`
	ID     uint64   `json:"id"`
	Keys   []string `json:"keys"`
}

type projJ struct {
	Disk struct {
		Root any    `json:"root"`
		ID   uint64 `json:"id"`
	} `json:"disk"`
	Layers []layerJ `json:"layers"`
	Buffer struct {
		N    uint64   `json:"n"`
		Keys []string `json:"keys"`
	} `json:"buffer"`
	Frozen struct {
		Present bool   `json:"present"`
		Done    bool   `json:"done"`
		N       uint64 `json:"n"`
	} `json:"frozen"`
	KV struct {
		Pid  uint64 `json:"pid"`
		Flat any    `json:"flat"`
	} `json:"kv"`
	Lookup map[string][]any `json:"lookup"`
	Desc   []struct {
		Anc   any   `json:"anc"`
		Roots []any `json:"roots"`
	} `json:"desc"`
	Capping bool `json:"capping"`
	Async   bool `json:"async"`
}

type stepJ struct {
	Act map[string]any `json:"act"`
	St  projJ          `json:"st"`
}

type behaviour struct {
	Keys []string `json:"keys"`
	Init struct {
		Async bool `json:"async"`
	} `json:"init"`
	Steps []stepJ `json:"steps"`
}

func sorted(s []string) []string {
	out := append([]string{}, s...)
	sort.Strings(out)
	return out
}

// modelKeysOf maps the implementation's changed flat keys to model key names.
func (e *env) modelKeys(accounts []common.Hash, storages map[common.Hash][]common.Hash) ([]string, string) {
	acct := map[common.Hash]string{}
	for _, k := range e.keys {
		if !isSlot(k) {
			acct[crypto.Keccak256Hash(addrOf(k).Bytes())] = k
		}
	}
	chash := crypto.Keccak256Hash(contract.Bytes())
	slot := map[common.Hash]string{}
	for _, k := range e.keys {
		if isSlot(k) {
			slot[crypto.Keccak256Hash(slotOf(k).Bytes())] = k
		}
	}
	var out []string
	sawContract := false
	for _, h := range accounts {
		if h == chash {
			sawContract = true
			continue
		}
		if k, ok := acct[h]; ok {
			out = append(out, k)
		} else {
			return nil, fmt.Sprintf("unknown account %x in state set", h)
		}
	}
	nslots := 0
	for a, hs := range storages {
		if a != chash {
			return nil, fmt.Sprintf("storage of unknown account %x in state set", a)
		}
		for _, h := range hs {
			if k, ok := slot[h]; ok {
				out = append(out, k)
				nslots++
			} else {
				return nil, fmt.Sprintf("unknown slot %x in state set", h)
			}
		}
	}
	if (nslots > 0) != sawContract {
		return nil, fmt.Sprintf("contract account entry present=%v but %d slot entries", sawContract, nslots)
	}
	return sorted(out), ""
}

func (e *env) wk(v any) string { return parseWorld(v).key(e.keys) }

// compare checks the white-box projection of the implementation against the model state.
func (e *env) compare(m *projJ, where string) {
	bad := func(format string, a ...any) {
		e.sum.Violate(where+": "+fmt.Sprintf(format, a...), tl.M{"model": m})
	}
	name := func(h common.Hash) string {
		if k, ok := e.wkey[h]; ok {
			return k
		}
		return fmt.Sprintf("?%x", h[:4])
	}
	// layers
	want := map[string]layerJ{}
	for _, l := range m.Layers {
		want[e.wk(l.Root)] = l
	}
	d := e.pdb.VerifDisk()
	got := 0
	for _, l := range e.pdb.VerifLayers() {
		if l.Disk {
			if l.Root != d.Root {
				bad("layer tree holds a second disk layer %s", name(l.Root))
			}
			continue
		}
		got++
		w, ok := want[name(l.Root)]
		if !ok {
			bad("implementation keeps layer %s that the specification dropped", name(l.Root))
			continue
		}
		if name(l.Parent) != e.wk(w.Parent) || l.ID != w.ID {
			bad("layer %s: parent %s id %d, specification parent %s id %d", name(l.Root), name(l.Parent), l.ID, e.wk(w.Parent), w.ID)
		}
		keys, msg := e.modelKeys(l.Accounts, l.Storages)
		if msg != "" {
			bad("layer %s: %s", name(l.Root), msg)
		} else if fmt.Sprint(keys) != fmt.Sprint(sorted(w.Keys)) {
			bad("layer %s changes keys %v, specification %v", name(l.Root), keys, sorted(w.Keys))
		}
	}
	if got != len(want) {
		bad("implementation has %d diff layers, specification %d", got, len(want))
	}
	// disk layer, buffers
	if name(d.Root) != e.wk(m.Disk.Root) || d.ID != m.Disk.ID || d.Stale {
		bad("disk layer %s id %d stale=%v, specification %s id %d", name(d.Root), d.ID, d.Stale, e.wk(m.Disk.Root), m.Disk.ID)
	}
	bkeys, msg := e.modelKeys(d.BufferAccounts, d.BufferStorages)
	if msg != "" {
		bad("buffer: %s", msg)
	} else if d.BufferLayers != m.Buffer.N || fmt.Sprint(bkeys) != fmt.Sprint(sorted(m.Buffer.Keys)) {
		bad("buffer holds %d transitions over keys %v, specification %d over %v", d.BufferLayers, bkeys, m.Buffer.N, sorted(m.Buffer.Keys))
	}
	if d.Frozen != m.Frozen.Present || (d.Frozen && (d.FrozenDone != m.Frozen.Done || d.FrozenLayers != m.Frozen.N)) {
		bad("frozen buffer present=%v done=%v n=%d, specification present=%v done=%v n=%d", d.Frozen, d.FrozenDone, d.FrozenLayers, m.Frozen.Present, m.Frozen.Done, m.Frozen.N)
	}
	// key-value store
	if pid := rawdb.ReadPersistentStateID(e.disk); pid != m.KV.Pid {
		bad("persistent state id %d, specification %d", pid, m.KV.Pid)
	}
	flat := parseWorld(m.KV.Flat)
	for _, k := range e.keys {
		if v, err := e.storedValue(k); err != nil || v != flat[k] {
			bad("key-value store holds %s=%d (%v), specification %d", k, v, err, flat[k])
		}
	}
	// lookup index
	accounts, storages := e.pdb.VerifLookup()
	chash := crypto.Keccak256Hash(contract.Bytes())
	for _, k := range e.keys {
		var list []common.Hash
		if isSlot(k) {
			var sk [64]byte
			copy(sk[:32], chash[:])
			copy(sk[32:], crypto.Keccak256(slotOf(k).Bytes()))
			list = storages[sk]
		} else {
			list = accounts[crypto.Keccak256Hash(addrOf(k).Bytes())]
		}
		g := []string{}
		for _, h := range list {
			g = append(g, name(h))
		}
		w := []string{}
		for _, x := range m.Lookup[k] {
			w = append(w, e.wk(x))
		}
		if fmt.Sprint(g) != fmt.Sprint(w) {
			bad("lookup[%s] = %v, specification %v", k, g, w)
		}
	}
	// descendants
	wd := map[string]string{}
	for _, x := range m.Desc {
		rs := []string{}
		for _, r := range x.Roots {
			rs = append(rs, e.wk(r))
		}
		wd[e.wk(x.Anc)] = fmt.Sprint(sorted(rs))
	}
	gd := e.pdb.VerifDescendants()
	liveRoot := map[common.Hash]bool{d.Root: true}
	tainted := map[common.Hash]bool{}
	for _, l := range e.pdb.VerifLayers() {
		liveRoot[l.Root] = true
		if !l.Disk && (l.ChainStale || l.ChainDetached) {
			tainted[l.Root] = true
		}
	}
	extra := 0
	for a, rs := range gd {
		names := []string{}
		allTainted := len(rs) > 0
		for _, r := range rs {
			names = append(names, name(r))
			allTainted = allTainted && tainted[r]
		}
		if !liveRoot[a] && (allTainted || e.f1desc[a]) {
			e.f1desc[a] = true // the entry stays behind even when its members get re-parented later
			// TODO-KNOWN-FINDING F1: fillAncestors walks the object chain of a layer added on top of a
			// sibling of the capped path, through the flattened layer into the stale disk layer, and
			// records the new layer as descendant of that stale disk layer's root.
			e.pend["F1: descendants records a layer under the root of a stale disk layer"]++
			extra++
			continue
		}
		if wd[name(a)] != fmt.Sprint(sorted(names)) {
			bad("descendants[%s] = %v, specification %v", name(a), sorted(names), wd[name(a)])
		}
	}
	if len(gd)-extra != len(wd) {
		bad("descendants has %d entries, specification %d", len(gd)-extra, len(wd))
	}
}

// storedValue decodes the persisted flat entry of a model key.
func (e *env) storedValue(k string) (int, error) {
	if isSlot(k) {
		blob := rawdb.ReadStorageSnapshot(e.disk, crypto.Keccak256Hash(contract.Bytes()), crypto.Keccak256Hash(slotOf(k).Bytes()))
		return decodeSlot(blob)
	}
	blob := rawdb.ReadAccountSnapshot(e.disk, crypto.Keccak256Hash(addrOf(k).Bytes()))
	if len(blob) == 0 {
		return 0, nil
	}
	acc, err := types.FullAccount(blob)
	if err != nil {
		return 0, err
	}
	return int(acc.Balance.Uint64()), nil
}

func decodeSlot(blob []byte) (int, error) {
	if len(blob) == 0 {
		return 0, nil
	}
	_, content, _, err := rlp.Split(blob)
	if err != nil {
		return 0, err
	}
	return int(new(uint256.Int).SetBytes(content).Uint64()), nil
}

// ------------------------------------------------------------------ reads

type handle struct { // what Database.StateReader / NodeReader returned at OpenReader time
	w  world
	sr database.StateReader
	nr database.NodeReader
}

func (e *env) open(w world) (*handle, error) {
	root := e.rootOf(w)
	sr, err := e.pdb.StateReader(root)
	if err != nil {
		return nil, err
	}
	nr, err := e.pdb.NodeReader(root)
	if err != nil {
		return nil, err
	}
	return &handle{w, sr, nr}, nil
}

// fast reads key k through the StateReader (lookup index, then layer read, then fallback).
func (e *env) fast(h *handle, k string) (int, error) {
	if isSlot(k) {
		blob, err := h.sr.Storage(crypto.Keccak256Hash(contract.Bytes()), crypto.Keccak256Hash(slotOf(k).Bytes()))
		if err != nil {
			return 0, err
		}
		return decodeSlot(blob)
	}
	acc, err := h.sr.Account(crypto.Keccak256Hash(addrOf(k).Bytes()))
	if err != nil || acc == nil {
		return 0, err
	}
	return int(acc.Balance.Uint64()), nil
}

type fixedNodeDB struct{ nr database.NodeReader }

func (f fixedNodeDB) NodeReader(common.Hash) (database.NodeReader, error) { return f.nr, nil }

// slow reads key k by resolving trie nodes through the NodeReader obtained at open time
// (account trie, and the contract's storage trie for slot keys): the layer walk.
func (e *env) slow(h *handle, k string) (int, error) {
	root := e.rootOf(h.w)
	tr, err := trie.NewStateTrie(trie.StateTrieID(root), fixedNodeDB{h.nr})
	if err != nil {
		return 0, err
	}
	if !isSlot(k) {
		acc, err := tr.GetAccount(addrOf(k))
		if err != nil || acc == nil {
			return 0, err
		}
		return int(acc.Balance.Uint64()), nil
	}
	acc, err := tr.GetAccount(contract)
	if err != nil || acc == nil {
		return 0, err
	}
	if acc.Root != e.storageRoot(h.w) {
		return 0, fmt.Errorf("contract storage root %x, reference %x", acc.Root, e.storageRoot(h.w))
	}
	str, err := trie.NewStateTrie(trie.StorageTrieID(root, crypto.Keccak256Hash(contract.Bytes()), acc.Root), fixedNodeDB{h.nr})
	if err != nil {
		return 0, err
	}
	val, err := str.GetStorage(contract, slotOf(k).Bytes())
	if err != nil {
		return 0, err
	}
	return int(new(uint256.Int).SetBytes(val).Uint64()), nil
}

func isStaleErr(err error) bool {
	return err != nil // coarse class: any refusal; the specification has exactly one error (stale)
}

// tainted reports finding F1 for a live root: its object chain runs through a flattened
// diff layer into a stale disk layer (sibling of the capped path).
func (e *env) tainted(root common.Hash) bool {
	for _, l := range e.pdb.VerifLayers() {
		if l.Root == root {
			return !l.Disk && (l.ChainStale || l.ChainDetached)
		}
	}
	return false
}

// verifyReads reads every key at every live root through both paths, and checks that roots
// dropped earlier are refused.
func (e *env) verifyReads(m *projJ, where string) {
	live := map[string]bool{e.wk(m.Disk.Root): true}
	for _, l := range m.Layers {
		live[e.wk(l.Root)] = true
	}
	for wk := range live {
		w := e.worlds[wk]
		h, err := e.open(w)
		if err != nil {
			e.sum.Violate(fmt.Sprintf("%s: available state %s cannot be opened: %v", where, wk, err), tl.M{"model": m})
			continue
		}
		for _, k := range e.keys {
			if v, err := e.fast(h, k); err != nil || v != w[k] {
				e.sum.Violate(fmt.Sprintf("%s: StateReader(%s).%s = %d (err %v), the state holds %d", where, wk, k, v, err, w[k]), tl.M{"model": m})
			}
			v, err := e.slow(h, k)
			if err != nil && e.tainted(e.rootOf(w)) {
				// TODO-KNOWN-FINDING F1 (spec/state/NOTES.md): children of a flattened layer other than
				// the one on the capped path keep pointing at the flattened diff layer object, whose
				// parent is a stale disk layer: node reads at such an available root fail.
				e.pend["F1: node read at available sibling root fails with stale error"]++
				continue
			}
			if err != nil || v != w[k] {
				e.sum.Violate(fmt.Sprintf("%s: trie read over NodeReader(%s) of %s = %d (err %v), the state holds %d", where, wk, k, v, err, w[k]), tl.M{"model": m})
			}
		}
		e.sum.Evaluations += 2 * len(e.keys)
		delete(e.dead, wk)
	}
	for wk := range e.dead {
		if live[wk] {
			continue
		}
		root := e.root[wk]
		if _, err := e.pdb.StateReader(root); err == nil {
			e.sum.Violate(fmt.Sprintf("%s: dropped state %s is still served by StateReader", where, wk), tl.M{"model": m})
		}
		if _, err := e.pdb.NodeReader(root); err == nil {
			e.sum.Violate(fmt.Sprintf("%s: dropped state %s is still served by NodeReader", where, wk), tl.M{"model": m})
		}
	}
	for wk := range e.worlds {
		if !live[wk] {
			if _, known := e.root[wk]; known {
				e.dead[wk] = true
			}
		}
	}
}

// ------------------------------------------------------------------ actions

func (e *env) update(act map[string]any) {
	p := parseWorld(act["p"])
	d := parseWorld(act["d"])
	res := act["res"].(string)
	nw := apply(p, d, e.keys)
	e.block++
	var err error
	switch res {
	case "cycle":
		// an empty transition never reaches the database through StateDB; hand it over directly
		err = e.tdb.Update(e.rootOf(p), e.rootOf(p), e.block, trienode.NewMergedNodeSet(), triedb.NewStateSet())
	case "orphan":
		err = e.tdb.Update(e.rootOf(nw), e.rootOf(p), e.block, trienode.NewMergedNodeSet(), triedb.NewStateSet())
	default:
		var st *state.StateDB
		st, err = state.New(e.rootOf(p), e.sdb)
		if err != nil && (res == "dup" || res == "dupdisk") {
			// the parent is gone but the resulting root is registered: the call is ignored before
			// the parent is looked at; such a call cannot be produced by executing on the parent
			err = e.tdb.Update(e.rootOf(nw), e.rootOf(p), e.block, trienode.NewMergedNodeSet(), triedb.NewStateSet())
			break
		}
		if err != nil {
			e.sum.Violate(fmt.Sprintf("available state %s cannot be opened for execution: %v", p.key(e.keys), err), tl.M{"act": act})
			return
		}
		write(st, p, nw, e.keys)
		var root common.Hash
		root, err = st.Commit(rules, e.block)
		if err == nil {
			if want, _ := e.reference(nw); root != want {
				e.sum.Violate(fmt.Sprintf("commit of %s on %s gives root %x, reference root %x", nw.key(e.keys), p.key(e.keys), root, want), tl.M{"act": act})
			}
			e.register(nw, root)
		}
	}
	wantErr := res == "cycle" || res == "orphan" || res == "dupdisk"
	if (err != nil) != wantErr {
		e.sum.Violate(fmt.Sprintf("Update(parent %s, diff %v) returned %v, specification: %s", p.key(e.keys), d, err, res), tl.M{"act": act})
	}
	e.sum.Count("Update-" + res)
}

// capGroup executes CapBegin .. CapEnd (with the FlushDone steps TLC put in between) as the
// single layerTree.cap call it is.
func (e *env) capGroup(prev *projJ, steps []stepJ) bool {
	begin := steps[0].Act
	r := parseWorld(begin["r"])
	n := int(begin["n"].(float64))
	full := begin["full"].(bool)
	root := e.rootOf(r)
	if e.tainted(root) {
		// TODO-KNOWN-FINDING F1: flattening a chain that runs through an already flattened layer would
		// commit that layer a second time (observed: panic "duplicated flush operation" / misaligned
		// buffer); the behaviour cannot be continued on the real database.
		e.pend["F1: cap/Commit of a chain through an already flattened layer (not executed)"]++
		return false
	}
	flushes := 0
	for _, s := range steps {
		if s.Act["op"] == "FlushDone" {
			flushes++
		}
	}
	if flushes > 0 && prev != nil && prev.Frozen.Present && !prev.Frozen.Done {
		e.flushDone() // the flush outstanding from an earlier cap completes first
		flushes--
	}
	e.gate.mu.Lock()
	e.gate.allowance = flushes
	e.gate.mu.Unlock()
	if full {
		e.pdb.VerifSetBufferLimit(0)
	} else {
		e.pdb.VerifSetBufferLimit(1 << 30)
	}
	var err error
	if n == 0 {
		err = e.tdb.Commit(root, false)
	} else {
		err = e.pdb.VerifCap(root, n)
	}
	if err != nil {
		e.sum.Violate(fmt.Sprintf("cap(%s, %d) failed: %v", r.key(e.keys), n, err), tl.M{"act": begin})
	}
	// the flush goroutine of the last freeze may not have reached its gate yet: wait for the
	// situation the specification describes before closing the allowance
	last := steps[len(steps)-1].St
	if e.async && last.Frozen.Present {
		if last.Frozen.Done {
			e.waitFlushed()
		} else {
			e.waitFlushParked()
		}
	}
	e.gate.mu.Lock()
	left := e.gate.allowance
	e.gate.allowance = 0
	e.gate.mu.Unlock()
	if left != 0 {
		e.sum.Violate(fmt.Sprintf("cap(%s, %d): specification schedules %d more flush completions than the implementation started", r.key(e.keys), n, left), tl.M{"act": begin})
	}
	e.sum.Count(fmt.Sprintf("Cap-n%d-full%v", n, full))
	return true
}

func (e *env) waitFlushed() {
	deadline := time.Now().Add(waitMax)
	for !e.pdb.VerifDisk().FrozenDone {
		if time.Now().After(deadline) {
			tl.Fatal("flush did not complete within %v (%s)", waitMax, e.where)
		}
		time.Sleep(time.Millisecond)
	}
}

func (e *env) waitFlushParked() {
	deadline := time.Now().Add(waitMax)
	for !e.gate.flushParked() {
		if time.Now().After(deadline) {
			tl.Fatal("flush goroutine did not reach its gate within %v (%s)", waitMax, e.where)
		}
		time.Sleep(time.Millisecond)
	}
}

func (e *env) flushDone() {
	e.waitFlushParked()
	e.gate.releaseFlush()
	if err := e.pdb.VerifWaitFlush(); err != nil {
		e.sum.Violate(fmt.Sprintf("background flush failed: %v", err), tl.M{})
	}
	e.sum.Count("FlushDone")
}

// ---- reader goroutine

type rdState struct {
	h      *handle
	key    string
	result chan rdResult
	parked bool
}

type rdResult struct {
	v   int
	err error
}

func (e *env) readTip(rd *rdState, act map[string]any) {
	k := act["k"].(string)
	rd.key = k
	rd.result = make(chan rdResult, 1)
	e.gate.mu.Lock()
	e.gate.armed = true
	e.gate.mu.Unlock()
	go func(h *handle) {
		v, err := e.fast(h, k)
		rd.result <- rdResult{v, err}
	}(rd.h)
	done := act["done"].(bool)
	select {
	case <-e.gate.parked:
		rd.parked = true
		if done {
			e.sum.Violate(fmt.Sprintf("lookup of %s at %s found a layer, specification: state is stale", k, rd.h.w.key(e.keys)), tl.M{"act": act})
		}
	case r := <-rd.result:
		e.gate.mu.Lock()
		e.gate.armed = false
		e.gate.mu.Unlock()
		rd.parked = false
		if !done || r.err == nil {
			e.sum.Violate(fmt.Sprintf("read of %s at %s finished before the layer read (value %d, err %v), specification done=%v", k, rd.h.w.key(e.keys), r.v, r.err, done), tl.M{"act": act})
		}
	case <-time.After(waitMax):
		tl.Fatal("reader neither parked nor finished within %v", waitMax)
	}
	e.sum.Count("ReadTip")
}

func (e *env) readVal(rd *rdState, act map[string]any) {
	if !rd.parked {
		return
	}
	rd.parked = false
	e.gate.release <- struct{}{}
	var r rdResult
	select {
	case r = <-rd.result:
	case <-time.After(waitMax):
		pprof.Lookup("goroutine").WriteTo(os.Stderr, 1)
		tl.Fatal("released reader did not finish within %v (%s)", waitMax, e.where)
	}
	e.checkRead(rd, act, r, "StateReader (parked between lookup and layer read)", false)
	e.sum.Count("ReadVal")
}

func (e *env) checkRead(rd *rdState, act map[string]any, r rdResult, how string, slow bool) {
	want := int(act["res"].(float64))
	w := rd.h.w
	switch {
	case r.err == nil && r.v != w[rd.key]:
		e.sum.Violate(fmt.Sprintf("%s at %s: %s = %d, the state holds %d (another state's data)", how, w.key(e.keys), rd.key, r.v, w[rd.key]), tl.M{"act": act})
	case r.err != nil && want != errStale:
		if e.tainted(e.rootOf(w)) { // (the fallback of the flat-state path walks the same object chain)
			e.pend["F1: node read at available sibling root fails with stale error"]++ // TODO-KNOWN-FINDING F1
			return
		}
		e.sum.Violate(fmt.Sprintf("%s at %s: %s refused (%v), specification: value %d (the reader's layer is still in the tree)", how, w.key(e.keys), rd.key, r.err, want), tl.M{"act": act})
	case r.err == nil && want == errStale && !slow:
		// the flat-state path is modelled exactly: a value where the specification reports stale
		e.sum.Violate(fmt.Sprintf("%s at %s: %s = %d, specification: stale", how, w.key(e.keys), rd.key, r.v), tl.M{"act": act})
	}
	e.sum.Evaluations++
}

// ------------------------------------------------------------------ replay

func (e *env) replay(b *behaviour, idx int) {
	readers := map[int]*rdState{}
	defer func() {
		// a reader still parked when the replay stops is released (its result is unconstrained)
		for _, rd := range readers {
			if rd.parked {
				rd.parked = false
				e.gate.release <- struct{}{}
				<-rd.result
			}
		}
	}()
	steps := b.Steps
	for i := 0; i < len(steps); i++ {
		s := steps[i]
		op := s.Act["op"].(string)
		where := fmt.Sprintf("behaviour %d step %d (%s)", idx, i+1, op)
		e.where = where
		switch op {
		case "Update":
			e.update(s.Act)
		case "CapNoop":
			r := parseWorld(s.Act["r"])
			n := int(s.Act["n"].(float64))
			if e.tainted(e.rootOf(r)) {
				// TODO-KNOWN-FINDING F1: on a chain through an already flattened layer cap does not stop
				// where the specification's chain ends but commits the flattened layer again
				e.pend["F1: cap/Commit of a chain through an already flattened layer (not executed)"]++
				return
			}
			var err error
			if n == 0 {
				err = e.tdb.Commit(e.rootOf(r), false)
			} else {
				err = e.pdb.VerifCap(e.rootOf(r), n)
			}
			if (err != nil) != (s.Act["kind"] == "err") {
				e.sum.Violate(fmt.Sprintf("%s: cap(%s,%d) returned %v, specification %v", where, r.key(e.keys), n, err, s.Act["kind"]), tl.M{"act": s.Act})
			}
			e.sum.Count("CapNoop")
		case "CapBegin":
			j := i
			for j < len(steps) && steps[j].Act["op"] != "CapEnd" {
				j++
			}
			if j == len(steps) {
				return // the behaviour ends inside a cap: nothing to execute
			}
			var prev *projJ
			if i > 0 {
				prev = &steps[i-1].St
			}
			if !e.capGroup(prev, steps[i:j+1]) {
				return
			}
			i = j
			s = steps[j]
			where = fmt.Sprintf("behaviour %d step %d (cap)", idx, j+1)
		case "FlushDone":
			e.flushDone()
		case "OpenReader":
			rd := int(s.Act["rd"].(float64))
			h, err := e.open(parseWorld(s.Act["r"]))
			if err != nil {
				e.sum.Violate(fmt.Sprintf("%s: available state cannot be opened: %v", where, err), tl.M{"act": s.Act})
				return
			}
			readers[rd] = &rdState{h: h}
		case "ReadTip":
			e.readTip(readers[int(s.Act["rd"].(float64))], s.Act)
		case "ReadVal":
			e.readVal(readers[int(s.Act["rd"].(float64))], s.Act)
		case "ReadNode":
			rd := readers[int(s.Act["rd"].(float64))]
			rd.key = s.Act["k"].(string)
			v, err := e.slow(rd.h, rd.key)
			e.checkRead(rd, s.Act, rdResult{v, err}, "trie read over NodeReader", true)
			e.sum.Count("ReadNode")
		case "ReadAgain", "CloseReader":
		default:
			tl.Fatal("unknown action %v", op)
		}
		if s.St.Capping {
			continue
		}
		e.compare(&s.St, where)
		// reads of the main goroutine must not be parked
		e.verifyReads(&s.St, where)
		e.sum.Steps++
		if len(e.sum.Violations) > 0 {
			return
		}
	}
}

func runReplay(in string, sum *tl.Summary) {
	var bs []behaviour
	tl.ReadJSON(in, &bs)
	seen := map[string]bool{}
	pend := map[string]int{}
	for i := range bs {
		b := &bs[i]
		e := newEnv(sorted(b.Keys), b.Init.Async, sum, newGates())
		e.replay(b, i)
		for k, n := range e.pend {
			pend[k] += n
		}
		e.close()
		sum.Evaluations++
		sum.Traces++
		sig, _ := json.Marshal(actsOf(b))
		if !seen[string(sig)] {
			seen[string(sig)] = true
			sum.Distinct++
		}
		if i < 2 {
			sum.Sample(actsOf(b))
		}
		if len(sum.Violations) > 0 {
			break
		}
	}
	sum.Extra["pending_findings"] = pend
	sum.Rule = "TLC-generated behaviours of MCPathDB (simulation) replayed on a real pathdb.Database; distinct = distinct action sequences; evaluations = behaviours + individual reads compared"
}

func actsOf(b *behaviour) []map[string]any {
	out := make([]map[string]any, len(b.Steps))
	for i, s := range b.Steps {
		out[i] = s.Act
	}
	return out
}

// ------------------------------------------------------------------ finding F1 through the public API

// runFinding builds, with the default 128-layer limit and only Database.Update, a fork on the
// layer that gets flattened: the fork stays registered as an available state, but node reads
// at it fail and committing it breaks.
func runFinding(sum *tl.Summary) {
	g := newGates()
	// four accounts whose hashed addresses start with different nibbles: adding one of them never
	// moves the trie leaf of another
	var keys []string
	nib := map[byte]bool{}
	for i := 1; len(keys) < 4; i++ {
		k := fmt.Sprintf("a%d", i)
		n := crypto.Keccak256(addrOf(k).Bytes())[0] >> 4
		if !nib[n] {
			nib[n] = true
			keys = append(keys, k)
		}
	}
	k1, k2, k3, k4 := keys[0], keys[1], keys[2], keys[3]
	keys = sorted(keys)
	e := newEnv(keys, false, sum, g)
	defer e.close()
	w := world{}
	next := func(p world, d world) world {
		nw := apply(p, d, keys)
		st, err := state.New(e.rootOf(p), e.sdb)
		if err != nil {
			tl.Fatal("open %v: %v", p, err)
		}
		write(st, p, nw, keys)
		e.block++
		root, err := st.Commit(rules, e.block)
		if err != nil {
			tl.Fatal("commit: %v", err)
		}
		e.register(nw, root)
		return nw
	}
	l0 := next(w, world{k3: 7, k4: 8}) // L0: two accounts nobody touches afterwards
	l1 := next(l0, world{k1: 1})       // L1
	sib := next(l1, world{k2: 999})    // fork on L1
	cur := l1
	for i := 2; i <= 129; i++ { // L2 .. L129 on L1: Update flattens L0, then L1 (128 diff layers are kept)
		cur = next(cur, world{k1: i})
	}
	out := tl.M{}
	_, err := e.pdb.StateReader(e.rootOf(sib))
	out["StateReader(sibling)"] = fmt.Sprint(err)
	h, err := e.open(sib)
	if err != nil {
		out["open"] = err.Error()
	} else {
		v, err := e.fast(h, k2)
		out["fast read of the account changed in the sibling"] = fmt.Sprintf("%d %v", v, err)
		v, err = e.fast(h, k3)
		out["fast read of an old account (sibling)"] = fmt.Sprintf("%d %v", v, err)
		v, err = e.slow(h, k3)
		out["trie read a3 (sibling)"] = fmt.Sprintf("%d %v", v, err)
		if hh, err2 := e.open(cur); err2 == nil {
			v2, err2 := e.slow(hh, k3)
			out["trie read a3 (head)"] = fmt.Sprintf("%d %v", v2, err2)
		}
		if err != nil {
			e.pend["F1: node read at available sibling root fails with stale error"]++
		}
	}
	// F1, wrong data: a layer added on top of the sibling is recorded (fillAncestors walks the
	// stale object chain) as descendant of the root of the stale disk layer L0.  When a layer with
	// that same root is added again (here: undoing L1's change on top of the new disk layer), the
	// lookup index takes it for an ancestor of the sibling's child.
	child := next(sib, world{k2: 5}) // (touching an account older than L1 fails already: its trie nodes cannot be read)
	again := next(l1, world{k1: 0}) // same state, hence same root, as L0
	out["re-added root equals L0 root"] = fmt.Sprint(e.rootOf(again) == e.rootOf(l0))
	if hc, err := e.open(child); err != nil {
		out["open(child of sibling)"] = err.Error()
	} else {
		v, err := e.fast(hc, k1)
		out["StateReader(child of sibling) account changed in L1 (state holds 1)"] = fmt.Sprintf("%d %v", v, err)
		if err == nil && v != child[k1] {
			e.pend["F1: StateReader at the child of a sibling returns another state's account"]++
		}
	}
	func() {
		defer func() {
			if p := recover(); p != nil {
				out["Commit(sibling)"] = fmt.Sprintf("panic: %v", p)
				e.pend["F1: Commit of an available sibling root panics"]++
			}
		}()
		err := e.tdb.Commit(e.rootOf(sib), false)
		out["Commit(sibling)"] = fmt.Sprint(err)
	}()
	sum.Extra["finding_F1"] = out
	sum.Extra["pending_findings"] = e.pend
	sum.Evaluations = 1
	sum.Rule = "deterministic reproduction of F1"
}

var _ = errors.New

func main() {
	mode := flag.String("mode", "replay", "replay|finding")
	in := flag.String("in", "", "behaviours json")
	out := flag.String("out", "summary.json", "summary output")
	flag.Parse()
	if v := tl.EnvInt("C16_WAIT_S", 0); v > 0 {
		waitMax = time.Duration(v) * time.Second
	}
	log.SetDefault(log.NewLogger(log.DiscardHandler()))
	seed := int64(tl.EnvInt("VERIF_SEED", 1))
	sum := tl.NewSummary("c16", *mode, seed)
	switch *mode {
	case "replay":
		runReplay(*in, sum)
	case "finding":
		runFinding(sum)
	default:
		tl.Fatal("bad mode")
	}
	if os.Getenv("C16_STRICT") == "1" {
		// no pending handling: every manifestation of F1 is a violation
		if pend, ok := sum.Extra["pending_findings"].(map[string]int); ok {
			for k, n := range pend {
				sum.Violate(fmt.Sprintf("%s [x%d]", k, n), tl.M{"finding": "F1", "detail": sum.Extra["finding_F1"]})
			}
			sum.Extra["pending_findings"] = map[string]int{}
		}
	}
	sum.Write(*out)
	if len(sum.Violations) > 0 {
		os.Exit(1)
	}
}
