// c16 replays TLC-generated behaviours of spec/state/PathDB.tla on a real triedb/pathdb
// database driven through state.StateDB commits (real tries, real roots) for property C16.
//
//	-mode replay -in behaviours.json    behaviours from MCPathDB (simulation with history)
//	-mode regress                       fork exactly at the cap depth through Update only (regression scenario of the fixed defect C16-F1)
//
// After every step the driver compares the white-box projection of the database (layers,
// parents, ids, changed keys, disk layer, buffer, frozen buffer, persistent id and flat state,
// lookup index, descendants) with the model state, then reads every key at every live root
// through StateReader (lookup fast path) and through a state trie over NodeReader (layer walk)
// and checks that dropped roots are refused.  Reader steps of the model (OpenReader / ReadTip /
// ReadVal / ReadNode) run in a reader goroutine that the verif hook parks between
// lookupAccount and layer.account while the main goroutine performs the cap/flush steps TLC
// scheduled in between; background flushes are parked at buffer.flush start and released by
// the model's FlushDone.
package main

import (
	"encoding/json"
	"errors"
	"flag"
	"fmt"
	"os"
	"runtime/pprof"
	"sort"
	"strings"
	"sync"
	"time"

	"github.com/ethereum/go-ethereum/common"
	"github.com/ethereum/go-ethereum/core/rawdb"
	"github.com/ethereum/go-ethereum/core/state"
	"github.com/ethereum/go-ethereum/core/tracing"
	"github.com/ethereum/go-ethereum/core/types"
	"github.com/ethereum/go-ethereum/crypto"
	"github.com/ethereum/go-ethereum/ethdb"
	"github.com/ethereum/go-ethereum/log"
	"github.com/ethereum/go-ethereum/params"
	"github.com/ethereum/go-ethereum/rlp"
	"github.com/ethereum/go-ethereum/trie"
	"github.com/ethereum/go-ethereum/trie/trienode"
	"github.com/ethereum/go-ethereum/triedb"
	"github.com/ethereum/go-ethereum/triedb/database"
	"github.com/ethereum/go-ethereum/triedb/pathdb"
	"github.com/holiman/uint256"
	tl "verif/harness/tracelib"
)

const errStale = -1

var waitMax = 300 * time.Second

// pre-Cancun rules: an emptied contract account is deleted together with its storage (storage wiping)
var rules = params.Rules{IsHomestead: true, IsEIP150: true, IsEIP155: true, IsEIP158: true}

// ------------------------------------------------------------------ worlds

type world map[string]int

func (w world) key(keys []string) string {
	parts := make([]string, len(keys))
	for i, k := range keys {
		parts[i] = fmt.Sprintf("%s=%d", k, w[k])
	}
	return strings.Join(parts, ",")
}

func parseWorld(v any) world {
	w := world{}
	if m, ok := v.(map[string]any); ok {
		for k, x := range m {
			w[k] = int(x.(float64))
		}
	}
	return w // a JSON array ([]) is the empty map
}

func apply(w, d world, keys []string) world {
	out := world{}
	for _, k := range keys {
		out[k] = w[k]
		if v, ok := d[k]; ok {
			out[k] = v
		}
	}
	return out
}

var contract = common.HexToAddress("0xc0ffee0000000000000000000000000000000001")

func isSlot(k string) bool { return strings.HasPrefix(k, "s") }
func addrOf(k string) common.Address {
	return common.BytesToAddress(crypto.Keccak256([]byte("verif-account-" + k))[:20])
}
func slotOf(k string) common.Hash { return crypto.Keccak256Hash([]byte("verif-slot-" + k)) }

func hasContract(w world) bool {
	for k, v := range w {
		if isSlot(k) && v != 0 {
			return true
		}
	}
	return false
}

// write makes the state object content equal to world nw for the keys that differ from ow.
func write(st *state.StateDB, ow, nw world, keys []string) {
	for _, k := range keys {
		if ow[k] == nw[k] || isSlot(k) {
			continue
		}
		// balance 0 = empty account, removed at commit (EIP-158)
		st.SetBalance(addrOf(k), uint256.NewInt(uint64(nw[k])), tracing.BalanceChangeUnspecified)
	}
	slotsChanged := false
	for _, k := range keys {
		if isSlot(k) && ow[k] != nw[k] {
			slotsChanged = true
		}
	}
	if !slotsChanged {
		return
	}
	if !hasContract(nw) {
		// the contract account disappears with all its storage (empty account => deleted, storage wiped)
		st.SetNonce(contract, 0, tracing.NonceChangeUnspecified)
		return
	}
	st.SetNonce(contract, 1, tracing.NonceChangeUnspecified)
	for _, k := range keys {
		if isSlot(k) && (ow[k] != nw[k] || !hasContract(ow)) {
			st.SetState(contract, slotOf(k), common.BigToHash(uint256.NewInt(uint64(nw[k])).ToBig()))
		}
	}
}

// ------------------------------------------------------------------ environment

type env struct {
	keys   []string
	async  bool
	disk   ethdb.Database
	tdb    *triedb.Database
	pdb    *pathdb.Database
	sdb    state.Database
	ref    state.Database // independent hash-scheme database used to compute reference roots
	root   map[string]common.Hash
	wkey   map[common.Hash]string
	worlds map[string]world
	refSR  map[string]common.Hash // world -> storage root of the contract
	block  uint64
	sum    *tl.Summary
	gate   *gates
	dead   map[string]bool // roots that were live once and have been dropped
	where  string
}

func newEnv(keys []string, async bool, sum *tl.Summary, g *gates) *env {
	e := &env{keys: keys, async: async, sum: sum, gate: g, root: map[string]common.Hash{}, wkey: map[common.Hash]string{},
		worlds: map[string]world{}, refSR: map[string]common.Hash{}, dead: map[string]bool{}}
	g.mu.Lock()
	g.async, g.allowance = async, 0
	g.mu.Unlock()
	e.disk = rawdb.NewMemoryDatabase()
	e.tdb = triedb.NewDatabase(e.disk, &triedb.Config{PathDB: &pathdb.Config{
		TrieCleanSize: 1 << 20, StateCleanSize: 1 << 20, WriteBufferSize: 1 << 28,
		NoAsyncFlush: !async, NoAsyncGeneration: true, TrienodeHistory: -1,
	}})
	nr, err := e.tdb.NodeReader(types.EmptyRootHash)
	if err != nil {
		tl.Fatal("fresh database has no empty state: %v", err)
	}
	e.pdb = pathdb.VerifPathDB(nr)
	e.sdb = state.NewDatabase(e.tdb, nil)
	e.ref = state.NewDatabaseForTesting()
	empty := world{}
	for _, k := range keys {
		empty[k] = 0
	}
	e.register(empty, types.EmptyRootHash)
	return e
}

func (e *env) close() {
	e.gate.releaseFlush() // never leave a parked flush goroutine behind
	e.tdb.Close()
}

func (e *env) register(w world, root common.Hash) {
	k := w.key(e.keys)
	if old, ok := e.root[k]; ok && old != root {
		e.sum.Violate(fmt.Sprintf("two different roots for the same state %s: %x and %x", k, old, root), tl.M{"world": k})
	}
	if ok, has := e.wkey[root]; has && ok != k {
		e.sum.Violate(fmt.Sprintf("same root %x for different states %s and %s", root, ok, k), tl.M{"world": k})
	}
	e.root[k], e.wkey[root], e.worlds[k] = root, k, w
}

// reference computes root and contract storage root of a world with an independent
// (hash scheme, built from scratch) state database.
func (e *env) reference(w world) (common.Hash, common.Hash) {
	st, err := state.New(types.EmptyRootHash, e.ref)
	if err != nil {
		tl.Fatal("reference state: %v", err)
	}
	zero := world{}
	write(st, zero, w, e.keys)
	root := st.IntermediateRoot(rules)
	sr := types.EmptyRootHash
	if hasContract(w) {
		sr = st.GetStorageRoot(contract)
	}
	return root, sr
}

func (e *env) storageRoot(w world) common.Hash {
	k := w.key(e.keys)
	if sr, ok := e.refSR[k]; ok {
		return sr
	}
	_, sr := e.reference(w)
	e.refSR[k] = sr
	return sr
}

// rootOf returns the real root of a model world (known from an earlier commit, else from the reference).
func (e *env) rootOf(w world) common.Hash {
	if r, ok := e.root[w.key(e.keys)]; ok {
		return r
	}
	r, _ := e.reference(w)
	return r
}

// ------------------------------------------------------------------ gates

// gates implements the two scheduler gates on top of pathdb.VerifHook.
type gates struct {
	mu sync.Mutex
	// reader gate: armed for exactly one (state, key) lookup; the hook parks that call
	armed   bool
	parked  chan common.Hash // receives the tip root when the reader is parked
	release chan struct{}
	// flush gate
	async     bool          // flushes are parked only when the database flushes in the background
	allowance int           // flushes that may run through without parking
	flushWait chan struct{} // non-nil while a flush goroutine is parked
}

func newGates() *gates {
	g := &gates{parked: make(chan common.Hash, 1), release: make(chan struct{})}
	pathdb.VerifHook = g.hook
	return g
}

func (g *gates) hook(ev string, kv ...any) {
	switch ev {
	case "reader.account.tip", "reader.storage.tip":
		g.mu.Lock()
		if !g.armed {
			g.mu.Unlock()
			return
		}
		g.armed = false
		g.mu.Unlock()
		g.parked <- kv[len(kv)-1].(common.Hash)
		<-g.release
	case "buffer.flush.start":
		g.mu.Lock()
		if !g.async {
			g.mu.Unlock()
			return
		}
		if g.allowance > 0 {
			g.allowance--
			g.mu.Unlock()
			return
		}
		ch := make(chan struct{})
		g.flushWait = ch
		g.mu.Unlock()
		<-ch
	}
}

func (g *gates) flushParked() bool {
	g.mu.Lock()
	defer g.mu.Unlock()
	return g.flushWait != nil
}

func (g *gates) releaseFlush() bool {
	g.mu.Lock()
	ch := g.flushWait
	g.flushWait = nil
	g.mu.Unlock()
	if ch != nil {
		close(ch)
		return true
	}
	return false
}

// ------------------------------------------------------------------ model projection

type layerJ struct {
	Root   any      `json:"root"`
	Parent any      `json:"parent"`
	ID     uint64   `json:"id"`
	Keys   []string `json:"keys"`
}

type projJ struct {
	Disk struct {
		Root any    `json:"root"`
		ID   uint64 `json:"id"`
	} `json:"disk"`
	Layers []layerJ `json:"layers"`
	Buffer struct {
		N    uint64   `json:"n"`
		Keys []string `json:"keys"`
	} `json:"buffer"`
	Frozen struct {
		Present bool   `json:"present"`
		Done    bool   `json:"done"`
		N       uint64 `json:"n"`
	} `json:"frozen"`
	KV struct {
		Pid  uint64 `json:"pid"`
		Flat any    `json:"flat"`
	} `json:"kv"`
	Lookup map[string][]any `json:"lookup"`
	Desc   []struct {
		Anc   any   `json:"anc"`
		Roots []any `json:"roots"`
	} `json:"desc"`
	Capping bool `json:"capping"`
	Async   bool `json:"async"`
}

type stepJ struct {
	Act map[string]any `json:"act"`
	St  projJ          `json:"st"`
}

type behaviour struct {
	Keys []string `json:"keys"`
	Init struct {
		Async bool `json:"async"`
	} `json:"init"`
	Steps []stepJ `json:"steps"`
}

func sorted(s []string) []string {
	out := append([]string{}, s...)
	sort.Strings(out)
	return out
}

// modelKeysOf maps the implementation's changed flat keys to model key names.
func (e *env) modelKeys(accounts []common.Hash, storages map[common.Hash][]common.Hash) ([]string, string) {
	acct := map[common.Hash]string{}
	for _, k := range e.keys {
		if !isSlot(k) {
			acct[crypto.Keccak256Hash(addrOf(k).Bytes())] = k
		}
	}
	chash := crypto.Keccak256Hash(contract.Bytes())
	slot := map[common.Hash]string{}
	for _, k := range e.keys {
		if isSlot(k) {
			slot[crypto.Keccak256Hash(slotOf(k).Bytes())] = k
		}
	}
	var out []string
	sawContract := false
	for _, h := range accounts {
		if h == chash {
			sawContract = true
			continue
		}
		if k, ok := acct[h]; ok {
			out = append(out, k)
		} else {
			return nil, fmt.Sprintf("unknown account %x in state set", h)
		}
	}
	nslots := 0
	for a, hs := range storages {
		if a != chash {
			return nil, fmt.Sprintf("storage of unknown account %x in state set", a)
		}
		for _, h := range hs {
			if k, ok := slot[h]; ok {
				out = append(out, k)
				nslots++
			} else {
				return nil, fmt.Sprintf("unknown slot %x in state set", h)
			}
		}
	}
	if (nslots > 0) != sawContract {
		return nil, fmt.Sprintf("contract account entry present=%v but %d slot entries", sawContract, nslots)
	}
	return sorted(out), ""
}

func (e *env) wk(v any) string { return parseWorld(v).key(e.keys) }

// compare checks the white-box projection of the implementation against the model state.
func (e *env) compare(m *projJ, where string) {
	bad := func(format string, a ...any) {
		e.sum.Violate(where+": "+fmt.Sprintf(format, a...), tl.M{"model": m})
	}
	name := func(h common.Hash) string {
		if k, ok := e.wkey[h]; ok {
			return k
		}
		return fmt.Sprintf("?%x", h[:4])
	}
	// layers
	want := map[string]layerJ{}
	for _, l := range m.Layers {
		want[e.wk(l.Root)] = l
	}
	d := e.pdb.VerifDisk()
	got := 0
	for _, l := range e.pdb.VerifLayers() {
		if l.Disk {
			if l.Root != d.Root {
				bad("layer tree holds a second disk layer %s", name(l.Root))
			}
			continue
		}
		got++
		w, ok := want[name(l.Root)]
		if !ok {
			bad("implementation keeps layer %s that the specification dropped", name(l.Root))
			continue
		}
		if name(l.Parent) != e.wk(w.Parent) || l.ID != w.ID {
			bad("layer %s: parent %s id %d, specification parent %s id %d", name(l.Root), name(l.Parent), l.ID, e.wk(w.Parent), w.ID)
		}
		keys, msg := e.modelKeys(l.Accounts, l.Storages)
		if msg != "" {
			bad("layer %s: %s", name(l.Root), msg)
		} else if fmt.Sprint(keys) != fmt.Sprint(sorted(w.Keys)) {
			bad("layer %s changes keys %v, specification %v", name(l.Root), keys, sorted(w.Keys))
		}
	}
	if got != len(want) {
		bad("implementation has %d diff layers, specification %d", got, len(want))
	}
	for _, l := range e.pdb.VerifLayers() {
		if !l.Disk && (l.ChainStale || l.ChainDetached) {
			bad("layer %s: parent chain of layer objects ends in a stale disk layer (%v) / passes a layer that left the tree (%v)", name(l.Root), l.ChainStale, l.ChainDetached)
		}
	}
	// disk layer, buffers
	if name(d.Root) != e.wk(m.Disk.Root) || d.ID != m.Disk.ID || d.Stale {
		bad("disk layer %s id %d stale=%v, specification %s id %d", name(d.Root), d.ID, d.Stale, e.wk(m.Disk.Root), m.Disk.ID)
	}
	bkeys, msg := e.modelKeys(d.BufferAccounts, d.BufferStorages)
	if msg != "" {
		bad("buffer: %s", msg)
	} else if d.BufferLayers != m.Buffer.N || fmt.Sprint(bkeys) != fmt.Sprint(sorted(m.Buffer.Keys)) {
		bad("buffer holds %d transitions over keys %v, specification %d over %v", d.BufferLayers, bkeys, m.Buffer.N, sorted(m.Buffer.Keys))
	}
	if d.Frozen != m.Frozen.Present || (d.Frozen && (d.FrozenDone != m.Frozen.Done || d.FrozenLayers != m.Frozen.N)) {
		bad("frozen buffer present=%v done=%v n=%d, specification present=%v done=%v n=%d", d.Frozen, d.FrozenDone, d.FrozenLayers, m.Frozen.Present, m.Frozen.Done, m.Frozen.N)
	}
	// key-value store
	if pid := rawdb.ReadPersistentStateID(e.disk); pid != m.KV.Pid {
		bad("persistent state id %d, specification %d", pid, m.KV.Pid)
	}
	flat := parseWorld(m.KV.Flat)
	for _, k := range e.keys {
		if v, err := e.storedValue(k); err != nil || v != flat[k] {
			bad("key-value store holds %s=%d (%v), specification %d", k, v, err, flat[k])
		}
	}
	// lookup index
	accounts, storages := e.pdb.VerifLookup()
	chash := crypto.Keccak256Hash(contract.Bytes())
	for _, k := range e.keys {
		var list []common.Hash
		if isSlot(k) {
			var sk [64]byte
			copy(sk[:32], chash[:])
			copy(sk[32:], crypto.Keccak256(slotOf(k).Bytes()))
			list = storages[sk]
		} else {
			list = accounts[crypto.Keccak256Hash(addrOf(k).Bytes())]
		}
		g := []string{}
		for _, h := range list {
			g = append(g, name(h))
		}
		w := []string{}
		for _, x := range m.Lookup[k] {
			w = append(w, e.wk(x))
		}
		if fmt.Sprint(g) != fmt.Sprint(w) {
			bad("lookup[%s] = %v, specification %v", k, g, w)
		}
	}
	// descendants
	wd := map[string]string{}
	for _, x := range m.Desc {
		rs := []string{}
		for _, r := range x.Roots {
			rs = append(rs, e.wk(r))
		}
		wd[e.wk(x.Anc)] = fmt.Sprint(sorted(rs))
	}
	gd := e.pdb.VerifDescendants()
	for a, rs := range gd {
		names := []string{}
		for _, r := range rs {
			names = append(names, name(r))
		}
		if wd[name(a)] != fmt.Sprint(sorted(names)) {
			bad("descendants[%s] = %v, specification %v", name(a), sorted(names), wd[name(a)])
		}
	}
	if len(gd) != len(wd) {
		bad("descendants has %d entries, specification %d", len(gd), len(wd))
	}
}

// storedValue decodes the persisted flat entry of a model key.
func (e *env) storedValue(k string) (int, error) {
	if isSlot(k) {
		blob := rawdb.ReadStorageSnapshot(e.disk, crypto.Keccak256Hash(contract.Bytes()), crypto.Keccak256Hash(slotOf(k).Bytes()))
		return decodeSlot(blob)
	}
	blob := rawdb.ReadAccountSnapshot(e.disk, crypto.Keccak256Hash(addrOf(k).Bytes()))
	if len(blob) == 0 {
		return 0, nil
	}
	acc, err := types.FullAccount(blob)
	if err != nil {
		return 0, err
	}
	return int(acc.Balance.Uint64()), nil
}

func decodeSlot(blob []byte) (int, error) {
	if len(blob) == 0 {
		return 0, nil
	}
	_, content, _, err := rlp.Split(blob)
	if err != nil {
		return 0, err
	}
	return int(new(uint256.Int).SetBytes(content).Uint64()), nil
}

// ------------------------------------------------------------------ reads

type handle struct { // what Database.StateReader / NodeReader returned at OpenReader time
	w  world
	sr database.StateReader
	nr database.NodeReader
}

func (e *env) open(w world) (*handle, error) {
	root := e.rootOf(w)
	sr, err := e.pdb.StateReader(root)
	if err != nil {
		return nil, err
	}
	nr, err := e.pdb.NodeReader(root)
	if err != nil {
		return nil, err
	}
	return &handle{w, sr, nr}, nil
}

// fast reads key k through the StateReader (lookup index, then layer read, then fallback).
func (e *env) fast(h *handle, k string) (int, error) {
	if isSlot(k) {
		blob, err := h.sr.Storage(crypto.Keccak256Hash(contract.Bytes()), crypto.Keccak256Hash(slotOf(k).Bytes()))
		if err != nil {
			return 0, err
		}
		return decodeSlot(blob)
	}
	acc, err := h.sr.Account(crypto.Keccak256Hash(addrOf(k).Bytes()))
	if err != nil || acc == nil {
		return 0, err
	}
	return int(acc.Balance.Uint64()), nil
}

type fixedNodeDB struct{ nr database.NodeReader }

func (f fixedNodeDB) NodeReader(common.Hash) (database.NodeReader, error) { return f.nr, nil }

// slow reads key k by resolving trie nodes through the NodeReader obtained at open time
// (account trie, and the contract's storage trie for slot keys): the layer walk.
func (e *env) slow(h *handle, k string) (int, error) {
	root := e.rootOf(h.w)
	tr, err := trie.NewStateTrie(trie.StateTrieID(root), fixedNodeDB{h.nr})
	if err != nil {
		return 0, err
	}
	if !isSlot(k) {
		acc, err := tr.GetAccount(addrOf(k))
		if err != nil || acc == nil {
			return 0, err
		}
		return int(acc.Balance.Uint64()), nil
	}
	acc, err := tr.GetAccount(contract)
	if err != nil || acc == nil {
		return 0, err
	}
	if acc.Root != e.storageRoot(h.w) {
		return 0, fmt.Errorf("contract storage root %x, reference %x", acc.Root, e.storageRoot(h.w))
	}
	str, err := trie.NewStateTrie(trie.StorageTrieID(root, crypto.Keccak256Hash(contract.Bytes()), acc.Root), fixedNodeDB{h.nr})
	if err != nil {
		return 0, err
	}
	val, err := str.GetStorage(contract, slotOf(k).Bytes())
	if err != nil {
		return 0, err
	}
	return int(new(uint256.Int).SetBytes(val).Uint64()), nil
}

func isStaleErr(err error) bool {
	return err != nil // coarse class: any refusal; the specification has exactly one error (stale)
}

// tainted reports that the object chain of a live root runs through a flattened diff layer
// into a stale disk layer (the defect C16-F1, fixed in 13160d1914).
func (e *env) tainted(root common.Hash) bool {
	for _, l := range e.pdb.VerifLayers() {
		if l.Root == root {
			return !l.Disk && (l.ChainStale || l.ChainDetached)
		}
	}
	return false
}

// verifyReads reads every key at every live root through both paths, and checks that roots
// dropped earlier are refused.
func (e *env) verifyReads(m *projJ, where string) {
	live := map[string]bool{e.wk(m.Disk.Root): true}
	for _, l := range m.Layers {
		live[e.wk(l.Root)] = true
	}
	for wk := range live {
		w := e.worlds[wk]
		h, err := e.open(w)
		if err != nil {
			e.sum.Violate(fmt.Sprintf("%s: available state %s cannot be opened: %v", where, wk, err), tl.M{"model": m})
			continue
		}
		for _, k := range e.keys {
			if v, err := e.fast(h, k); err != nil || v != w[k] {
				e.sum.Violate(fmt.Sprintf("%s: StateReader(%s).%s = %d (err %v), the state holds %d", where, wk, k, v, err, w[k]), tl.M{"model": m})
			}
			v, err := e.slow(h, k)
			if err != nil || v != w[k] {
				e.sum.Violate(fmt.Sprintf("%s: trie read over NodeReader(%s) of %s = %d (err %v), the state holds %d", where, wk, k, v, err, w[k]), tl.M{"model": m})
			}
		}
		e.sum.Evaluations += 2 * len(e.keys)
		if iterMode {
			e.verifyIterators(w, wk, where, m)
		}
		delete(e.dead, wk)
	}
	for wk := range e.dead {
		if live[wk] {
			continue
		}
		root := e.root[wk]
		if _, err := e.pdb.StateReader(root); err == nil {
			e.sum.Violate(fmt.Sprintf("%s: dropped state %s is still served by StateReader", where, wk), tl.M{"model": m})
		}
		if _, err := e.pdb.NodeReader(root); err == nil {
			e.sum.Violate(fmt.Sprintf("%s: dropped state %s is still served by NodeReader", where, wk), tl.M{"model": m})
		}
	}
	for wk := range e.worlds {
		if !live[wk] {
			if _, known := e.root[wk]; known {
				e.dead[wk] = true
			}
		}
	}
}

// ------------------------------------------------------------------ iterators (C22)

var iterMode bool

type flatEntry struct {
	hash common.Hash
	blob []byte
}

// expectedAccounts lists the accounts of a world in hash order with their full RLP encoding.
func (e *env) expectedAccounts(w world) []flatEntry {
	var out []flatEntry
	for _, k := range e.keys {
		if !isSlot(k) && w[k] != 0 {
			acc := types.StateAccount{Balance: uint256.NewInt(uint64(w[k])), Root: types.EmptyRootHash, CodeHash: types.EmptyCodeHash.Bytes()}
			b, _ := rlp.EncodeToBytes(&acc)
			out = append(out, flatEntry{crypto.Keccak256Hash(addrOf(k).Bytes()), b})
		}
	}
	if hasContract(w) {
		acc := types.StateAccount{Nonce: 1, Balance: uint256.NewInt(0), Root: e.storageRoot(w), CodeHash: types.EmptyCodeHash.Bytes()}
		b, _ := rlp.EncodeToBytes(&acc)
		out = append(out, flatEntry{crypto.Keccak256Hash(contract.Bytes()), b})
	}
	sort.Slice(out, func(i, j int) bool { return string(out[i].hash[:]) < string(out[j].hash[:]) })
	return out
}

func (e *env) expectedSlots(w world) []flatEntry {
	var out []flatEntry
	if !hasContract(w) {
		return out
	}
	for _, k := range e.keys {
		if isSlot(k) && w[k] != 0 {
			b, _ := rlp.EncodeToBytes(common.TrimLeftZeroes(uint256.NewInt(uint64(w[k])).Bytes()))
			out = append(out, flatEntry{crypto.Keccak256Hash(slotOf(k).Bytes()), b})
		}
	}
	sort.Slice(out, func(i, j int) bool { return string(out[i].hash[:]) < string(out[j].hash[:]) })
	return out
}

func from(all []flatEntry, seek common.Hash) []flatEntry {
	out := []flatEntry{}
	for _, x := range all {
		if string(x.hash[:]) >= string(seek[:]) {
			out = append(out, x)
		}
	}
	return out
}

type anyIter interface {
	Next() bool
	Error() error
	Hash() common.Hash
	Release()
}

func collect(it anyIter, val func() []byte, full bool) ([]flatEntry, error) {
	defer it.Release()
	out := []flatEntry{}
	for it.Next() {
		b := common.CopyBytes(val())
		if full { // flat accounts are stored in slim format
			acc, err := types.FullAccountRLP(b)
			if err != nil {
				return out, err
			}
			b = acc
		}
		out = append(out, flatEntry{it.Hash(), b})
		if len(out) > 1000 {
			return out, errors.New("iterator does not terminate")
		}
	}
	return out, it.Error()
}

func sameEntries(a, b []flatEntry) bool {
	if len(a) != len(b) {
		return false
	}
	for i := range a {
		if a[i].hash != b[i].hash || string(a[i].blob) != string(b[i].blob) {
			return false
		}
	}
	return true
}

// trieLeaves walks the state trie (or the contract's storage trie) at the root of world w.
func (e *env) trieLeaves(w world, storage bool) ([]flatEntry, error) {
	id := trie.StateTrieID(e.rootOf(w))
	if storage {
		id = trie.StorageTrieID(e.rootOf(w), crypto.Keccak256Hash(contract.Bytes()), e.storageRoot(w))
	}
	tr, err := trie.New(id, e.tdb)
	if err != nil {
		return nil, err
	}
	nit, err := tr.NodeIterator(nil)
	if err != nil {
		return nil, err
	}
	out := []flatEntry{}
	for nit.Next(true) {
		if nit.Leaf() {
			out = append(out, flatEntry{common.BytesToHash(nit.LeafKey()), common.CopyBytes(nit.LeafBlob())})
		}
	}
	return out, nit.Error()
}

// verifyIterators (C22): at an available root, the fast and the binary iterators enumerate
// exactly the entries of the state from every seek position and agree with the trie walk.
func (e *env) verifyIterators(w world, wk, where string, m *projJ) {
	if m.Frozen.Present && !m.Frozen.Done {
		return // iterator construction waits for the pending flush, which the replay keeps parked
	}
	root := e.rootOf(w)
	chash := crypto.Keccak256Hash(contract.Bytes())
	accts, slots := e.expectedAccounts(w), e.expectedSlots(w)
	if leaves, err := e.trieLeaves(w, false); err != nil || !sameEntries(leaves, accts) {
		e.sum.Violate(fmt.Sprintf("%s: account trie walk at %s yields %d leaves (err %v), the state has %d accounts", where, wk, len(leaves), err, len(accts)), tl.M{"model": m})
	}
	if hasContract(w) {
		if leaves, err := e.trieLeaves(w, true); err != nil || !sameEntries(leaves, slots) {
			e.sum.Violate(fmt.Sprintf("%s: storage trie walk at %s yields %d leaves (err %v), the state has %d slots", where, wk, len(leaves), err, len(slots)), tl.M{"model": m})
		}
	}
	seeks := []common.Hash{{}}
	for _, x := range accts {
		seeks = append(seeks, x.hash)
		up := x.hash
		up[31]++
		seeks = append(seeks, up)
	}
	for _, seek := range seeks {
		want := from(accts, seek)
		if it, err := e.pdb.AccountIterator(root, seek); err != nil {
			e.sum.Violate(fmt.Sprintf("%s: AccountIterator(%s) cannot be created: %v", where, wk, err), tl.M{"model": m})
		} else if got, err := collect(it, it.Account, true); err != nil || !sameEntries(got, want) {
			e.sum.Violate(fmt.Sprintf("%s: AccountIterator(%s, seek %x) yields %d entries (err %v), the state has %d from there", where, wk, seek[:4], len(got), err, len(want)), tl.M{"model": m})
		}
		if it, err := e.pdb.VerifBinaryAccountIterator(root, seek); err != nil {
			e.sum.Violate(fmt.Sprintf("%s: binary account iterator(%s) cannot be created: %v", where, wk, err), tl.M{"model": m})
		} else if got, err := collect(it, it.Account, true); err != nil || !sameEntries(got, want) {
			e.sum.Violate(fmt.Sprintf("%s: binary account iterator(%s, seek %x) yields %d entries (err %v), the state has %d from there", where, wk, seek[:4], len(got), err, len(want)), tl.M{"model": m})
		}
		e.sum.Evaluations += 2
	}
	sseeks := []common.Hash{{}}
	for _, x := range slots {
		sseeks = append(sseeks, x.hash)
	}
	for _, seek := range sseeks {
		want := from(slots, seek)
		if it, err := e.pdb.StorageIterator(root, chash, seek); err != nil {
			e.sum.Violate(fmt.Sprintf("%s: StorageIterator(%s) cannot be created: %v", where, wk, err), tl.M{"model": m})
		} else if got, err := collect(it, it.Slot, false); err != nil || !sameEntries(got, want) {
			e.sum.Violate(fmt.Sprintf("%s: StorageIterator(%s, seek %x) yields %d entries (err %v), the state has %d from there", where, wk, seek[:4], len(got), err, len(want)), tl.M{"model": m})
		}
		if it, err := e.pdb.VerifBinaryStorageIterator(root, chash, seek); err != nil {
			e.sum.Violate(fmt.Sprintf("%s: binary storage iterator(%s) cannot be created: %v", where, wk, err), tl.M{"model": m})
		} else if got, err := collect(it, it.Slot, false); err != nil || !sameEntries(got, want) {
			e.sum.Violate(fmt.Sprintf("%s: binary storage iterator(%s, seek %x) yields %d entries (err %v), the state has %d from there", where, wk, seek[:4], len(got), err, len(want)), tl.M{"model": m})
		}
		e.sum.Evaluations += 2
	}
	e.sum.Count("iterated-roots")
}

// ------------------------------------------------------------------ actions

func (e *env) update(act map[string]any) {
	p := parseWorld(act["p"])
	d := parseWorld(act["d"])
	res := act["res"].(string)
	nw := apply(p, d, e.keys)
	e.block++
	var err error
	switch res {
	case "cycle":
		// an empty transition never reaches the database through StateDB; hand it over directly
		err = e.tdb.Update(e.rootOf(p), e.rootOf(p), e.block, trienode.NewMergedNodeSet(), triedb.NewStateSet())
	case "orphan":
		err = e.tdb.Update(e.rootOf(nw), e.rootOf(p), e.block, trienode.NewMergedNodeSet(), triedb.NewStateSet())
	default:
		var st *state.StateDB
		st, err = state.New(e.rootOf(p), e.sdb)
		if err != nil && (res == "dup" || res == "dupdisk") {
			// the parent is gone but the resulting root is registered: the call is ignored before
			// the parent is looked at; such a call cannot be produced by executing on the parent
			err = e.tdb.Update(e.rootOf(nw), e.rootOf(p), e.block, trienode.NewMergedNodeSet(), triedb.NewStateSet())
			break
		}
		if err != nil {
			e.sum.Violate(fmt.Sprintf("available state %s cannot be opened for execution: %v", p.key(e.keys), err), tl.M{"act": act})
			return
		}
		write(st, p, nw, e.keys)
		var root common.Hash
		root, err = st.Commit(rules, e.block)
		if err == nil {
			if want, _ := e.reference(nw); root != want {
				e.sum.Violate(fmt.Sprintf("commit of %s on %s gives root %x, reference root %x", nw.key(e.keys), p.key(e.keys), root, want), tl.M{"act": act})
			}
			e.register(nw, root)
		}
	}
	wantErr := res == "cycle" || res == "orphan" || res == "dupdisk"
	if (err != nil) != wantErr {
		e.sum.Violate(fmt.Sprintf("Update(parent %s, diff %v) returned %v, specification: %s", p.key(e.keys), d, err, res), tl.M{"act": act})
	}
	e.sum.Count("Update-" + res)
}

// capGroup executes CapBegin .. CapEnd (with the FlushDone steps TLC put in between) as the
// single layerTree.cap call it is.
func (e *env) capGroup(prev *projJ, steps []stepJ) bool {
	begin := steps[0].Act
	r := parseWorld(begin["r"])
	n := int(begin["n"].(float64))
	full := begin["full"].(bool)
	root := e.rootOf(r)
	if e.tainted(root) {
		// (regression guard for the defect fixed in 13160d1914: flattening such a chain would commit
		// an already flattened layer again and leave the real database unusable for the comparison)
		e.sum.Violate(fmt.Sprintf("layer %s hangs on an object chain through a flattened diff layer / stale disk layer", r.key(e.keys)), tl.M{"act": begin})
		return false
	}
	flushes := 0
	for _, s := range steps {
		if s.Act["op"] == "FlushDone" {
			flushes++
		}
	}
	if flushes > 0 && prev != nil && prev.Frozen.Present && !prev.Frozen.Done {
		e.flushDone() // the flush outstanding from an earlier cap completes first
		flushes--
	}
	e.gate.mu.Lock()
	e.gate.allowance = flushes
	e.gate.mu.Unlock()
	if full {
		e.pdb.VerifSetBufferLimit(0)
	} else {
		e.pdb.VerifSetBufferLimit(1 << 30)
	}
	var err error
	if n == 0 {
		err = e.tdb.Commit(root, false)
	} else {
		err = e.pdb.VerifCap(root, n)
	}
	if err != nil {
		e.sum.Violate(fmt.Sprintf("cap(%s, %d) failed: %v", r.key(e.keys), n, err), tl.M{"act": begin})
	}
	// the flush goroutine of the last freeze may not have reached its gate yet: wait for the
	// situation the specification describes before closing the allowance
	last := steps[len(steps)-1].St
	if e.async && last.Frozen.Present {
		if last.Frozen.Done {
			e.waitFlushed()
		} else {
			e.waitFlushParked()
		}
	}
	e.gate.mu.Lock()
	left := e.gate.allowance
	e.gate.allowance = 0
	e.gate.mu.Unlock()
	if left != 0 {
		e.sum.Violate(fmt.Sprintf("cap(%s, %d): specification schedules %d more flush completions than the implementation started", r.key(e.keys), n, left), tl.M{"act": begin})
	}
	e.sum.Count(fmt.Sprintf("Cap-n%d-full%v", n, full))
	return true
}

func (e *env) waitFlushed() {
	deadline := time.Now().Add(waitMax)
	for !e.pdb.VerifDisk().FrozenDone {
		if time.Now().After(deadline) {
			tl.Fatal("flush did not complete within %v (%s)", waitMax, e.where)
		}
		time.Sleep(time.Millisecond)
	}
}

func (e *env) waitFlushParked() {
	deadline := time.Now().Add(waitMax)
	for !e.gate.flushParked() {
		if time.Now().After(deadline) {
			tl.Fatal("flush goroutine did not reach its gate within %v (%s)", waitMax, e.where)
		}
		time.Sleep(time.Millisecond)
	}
}

func (e *env) flushDone() {
	e.waitFlushParked()
	e.gate.releaseFlush()
	if err := e.pdb.VerifWaitFlush(); err != nil {
		e.sum.Violate(fmt.Sprintf("background flush failed: %v", err), tl.M{})
	}
	e.sum.Count("FlushDone")
}

// ---- reader goroutine

type rdState struct {
	h      *handle
	key    string
	result chan rdResult
	parked bool
}

type rdResult struct {
	v   int
	err error
}

func (e *env) readTip(rd *rdState, act map[string]any) {
	k := act["k"].(string)
	rd.key = k
	rd.result = make(chan rdResult, 1)
	e.gate.mu.Lock()
	e.gate.armed = true
	e.gate.mu.Unlock()
	go func(h *handle) {
		v, err := e.fast(h, k)
		rd.result <- rdResult{v, err}
	}(rd.h)
	done := act["done"].(bool)
	select {
	case <-e.gate.parked:
		rd.parked = true
		if done {
			e.sum.Violate(fmt.Sprintf("lookup of %s at %s found a layer, specification: state is stale", k, rd.h.w.key(e.keys)), tl.M{"act": act})
		}
	case r := <-rd.result:
		e.gate.mu.Lock()
		e.gate.armed = false
		e.gate.mu.Unlock()
		rd.parked = false
		if !done || r.err == nil {
			e.sum.Violate(fmt.Sprintf("read of %s at %s finished before the layer read (value %d, err %v), specification done=%v", k, rd.h.w.key(e.keys), r.v, r.err, done), tl.M{"act": act})
		}
	case <-time.After(waitMax):
		tl.Fatal("reader neither parked nor finished within %v", waitMax)
	}
	e.sum.Count("ReadTip")
}

func (e *env) readVal(rd *rdState, act map[string]any) {
	if !rd.parked {
		return
	}
	rd.parked = false
	e.gate.release <- struct{}{}
	var r rdResult
	select {
	case r = <-rd.result:
	case <-time.After(waitMax):
		pprof.Lookup("goroutine").WriteTo(os.Stderr, 1)
		tl.Fatal("released reader did not finish within %v (%s)", waitMax, e.where)
	}
	e.checkRead(rd, act, r, "StateReader (parked between lookup and layer read)", false)
	e.sum.Count("ReadVal")
}

func (e *env) checkRead(rd *rdState, act map[string]any, r rdResult, how string, slow bool) {
	want := int(act["res"].(float64))
	w := rd.h.w
	switch {
	case r.err == nil && r.v != w[rd.key]:
		e.sum.Violate(fmt.Sprintf("%s at %s: %s = %d, the state holds %d (another state's data)", how, w.key(e.keys), rd.key, r.v, w[rd.key]), tl.M{"act": act})
	case r.err != nil && want != errStale:
		e.sum.Violate(fmt.Sprintf("%s at %s: %s refused (%v), specification: value %d (the reader's layer is still in the tree)", how, w.key(e.keys), rd.key, r.err, want), tl.M{"act": act})
	case r.err == nil && want == errStale && !slow:
		// the flat-state path is modelled exactly: a value where the specification reports stale
		e.sum.Violate(fmt.Sprintf("%s at %s: %s = %d, specification: stale", how, w.key(e.keys), rd.key, r.v), tl.M{"act": act})
	}
	e.sum.Evaluations++
}

// ------------------------------------------------------------------ replay

func (e *env) replay(b *behaviour, idx int) {
	readers := map[int]*rdState{}
	defer func() {
		// a reader still parked when the replay stops is released (its result is unconstrained)
		for _, rd := range readers {
			if rd.parked {
				rd.parked = false
				e.gate.release <- struct{}{}
				<-rd.result
			}
		}
	}()
	steps := b.Steps
	for i := 0; i < len(steps); i++ {
		s := steps[i]
		op := s.Act["op"].(string)
		where := fmt.Sprintf("behaviour %d step %d (%s)", idx, i+1, op)
		e.where = where
		switch op {
		case "Update":
			e.update(s.Act)
		case "CapNoop":
			r := parseWorld(s.Act["r"])
			n := int(s.Act["n"].(float64))
			if e.tainted(e.rootOf(r)) {
				e.sum.Violate(fmt.Sprintf("%s: layer %s hangs on an object chain through a flattened diff layer / stale disk layer", where, r.key(e.keys)), tl.M{"act": s.Act})
				return
			}
			var err error
			if n == 0 {
				err = e.tdb.Commit(e.rootOf(r), false)
			} else {
				err = e.pdb.VerifCap(e.rootOf(r), n)
			}
			if (err != nil) != (s.Act["kind"] == "err") {
				e.sum.Violate(fmt.Sprintf("%s: cap(%s,%d) returned %v, specification %v", where, r.key(e.keys), n, err, s.Act["kind"]), tl.M{"act": s.Act})
			}
			e.sum.Count("CapNoop")
		case "CapBegin":
			j := i
			for j < len(steps) && steps[j].Act["op"] != "CapEnd" {
				j++
			}
			if j == len(steps) {
				return // the behaviour ends inside a cap: nothing to execute
			}
			var prev *projJ
			if i > 0 {
				prev = &steps[i-1].St
			}
			if !e.capGroup(prev, steps[i:j+1]) {
				return
			}
			i = j
			s = steps[j]
			where = fmt.Sprintf("behaviour %d step %d (cap)", idx, j+1)
		case "FlushDone":
			e.flushDone()
		case "OpenReader":
			rd := int(s.Act["rd"].(float64))
			h, err := e.open(parseWorld(s.Act["r"]))
			if err != nil {
				e.sum.Violate(fmt.Sprintf("%s: available state cannot be opened: %v", where, err), tl.M{"act": s.Act})
				return
			}
			readers[rd] = &rdState{h: h}
		case "ReadTip":
			e.readTip(readers[int(s.Act["rd"].(float64))], s.Act)
		case "ReadVal":
			e.readVal(readers[int(s.Act["rd"].(float64))], s.Act)
		case "ReadNode":
			rd := readers[int(s.Act["rd"].(float64))]
			rd.key = s.Act["k"].(string)
			v, err := e.slow(rd.h, rd.key)
			e.checkRead(rd, s.Act, rdResult{v, err}, "trie read over NodeReader", true)
			e.sum.Count("ReadNode")
		case "ReadAgain", "CloseReader":
		default:
			tl.Fatal("unknown action %v", op)
		}
		if s.St.Capping {
			continue
		}
		e.compare(&s.St, where)
		// reads of the main goroutine must not be parked
		e.verifyReads(&s.St, where)
		e.sum.Steps++
		if len(e.sum.Violations) > 0 {
			return
		}
	}
}

func runReplay(in string, sum *tl.Summary) {
	var bs []behaviour
	tl.ReadJSON(in, &bs)
	seen := map[string]bool{}
	for i := range bs {
		b := &bs[i]
		e := newEnv(sorted(b.Keys), b.Init.Async, sum, newGates())
		e.replay(b, i)
		e.close()
		sum.Evaluations++
		sum.Traces++
		sig, _ := json.Marshal(actsOf(b))
		if !seen[string(sig)] {
			seen[string(sig)] = true
			sum.Distinct++
		}
		if i < 2 {
			sum.Sample(actsOf(b))
		}
		if len(sum.Violations) > 0 {
			break
		}
	}
	sum.Rule = "TLC-generated behaviours of MCPathDB (simulation) replayed on a real pathdb.Database; distinct = distinct action sequences; evaluations = behaviours + individual reads compared"
}

func actsOf(b *behaviour) []map[string]any {
	out := make([]map[string]any, len(b.Steps))
	for i, s := range b.Steps {
		out[i] = s.Act
	}
	return out
}

// ------------------------------------------------------------------ natural runs (V)

func worldJSON(w world) map[string]any {
	out := map[string]any{}
	for k, v := range w {
		out[k] = float64(v)
	}
	return out
}

// implProj reads the projection of the real database in the shape of the model's Proj.
func (e *env) implProj() (*projJ, tl.M) {
	p := &projJ{Lookup: map[string][]any{}}
	wj := func(h common.Hash) map[string]any {
		k, ok := e.wkey[h]
		if !ok {
			tl.Fatal("database holds a root %x the harness never produced", h)
		}
		return worldJSON(e.worlds[k])
	}
	d := e.pdb.VerifDisk()
	p.Disk.Root, p.Disk.ID = wj(d.Root), d.ID
	layers := []tl.M{}
	for _, l := range e.pdb.VerifLayers() {
		if l.Disk {
			continue
		}
		keys, msg := e.modelKeys(l.Accounts, l.Storages)
		if msg != "" {
			e.sum.Violate("layer "+e.wkey[l.Root]+": "+msg, tl.M{})
		}
		if keys == nil {
			keys = []string{}
		}
		p.Layers = append(p.Layers, layerJ{Root: wj(l.Root), Parent: wj(l.Parent), ID: l.ID, Keys: keys})
		layers = append(layers, tl.M{"root": wj(l.Root), "parent": wj(l.Parent), "id": l.ID, "keys": keys})
	}
	bkeys, msg := e.modelKeys(d.BufferAccounts, d.BufferStorages)
	if msg != "" {
		e.sum.Violate("buffer: "+msg, tl.M{})
	}
	if bkeys == nil {
		bkeys = []string{}
	}
	p.Buffer.N, p.Buffer.Keys = d.BufferLayers, bkeys
	p.Frozen.Present, p.Frozen.Done, p.Frozen.N = d.Frozen, d.FrozenDone, d.FrozenLayers
	p.KV.Pid = rawdb.ReadPersistentStateID(e.disk)
	flat := world{}
	for _, k := range e.keys {
		v, err := e.storedValue(k)
		if err != nil {
			e.sum.Violate(fmt.Sprintf("stored value of %s does not decode: %v", k, err), tl.M{})
		}
		flat[k] = v
	}
	p.KV.Flat = worldJSON(flat)
	accounts, storages := e.pdb.VerifLookup()
	chash := crypto.Keccak256Hash(contract.Bytes())
	lookup := tl.M{}
	for _, k := range e.keys {
		var list []common.Hash
		if isSlot(k) {
			var sk [64]byte
			copy(sk[:32], chash[:])
			copy(sk[32:], crypto.Keccak256(slotOf(k).Bytes()))
			list = storages[sk]
		} else {
			list = accounts[crypto.Keccak256Hash(addrOf(k).Bytes())]
		}
		ws := []any{}
		for _, h := range list {
			ws = append(ws, wj(h))
		}
		p.Lookup[k] = ws
		lookup[k] = ws
	}
	desc := []tl.M{}
	for a, rs := range e.pdb.VerifDescendants() {
		roots := []any{}
		for _, r := range rs {
			roots = append(roots, wj(r))
		}
		desc = append(desc, tl.M{"anc": wj(a), "roots": roots})
	}
	st := tl.M{
		"disk":   tl.M{"root": p.Disk.Root, "id": p.Disk.ID},
		"layers": layers,
		"buffer": tl.M{"n": p.Buffer.N, "keys": bkeys},
		"frozen": tl.M{"present": p.Frozen.Present},
		"kv":     tl.M{"pid": p.KV.Pid, "flat": p.KV.Flat},
		"lookup": lookup,
		"desc":   desc,
	}
	return p, st
}

// runRecord grows random layer trees (forks, repeated roots, rejected calls) on a database
// that caps by itself (maxDiffLayers in {1,2,3,5,128}) with write buffers of 0 B / 600 B /
// 256 MiB, commits and caps at random points, and records every call with the projection of
// the database after it.  Every key is read at every available root after every call.
func runRecord(path string, ntraces, steps int, seed int64, sum *tl.Summary) {
	r := tl.Rand(seed)
	tr := tl.NewTrace(path)
	defer tr.Close()
	keys := []string{"a1", "a2", "a3", "s1", "s2"}
	const maxVal = 3
	maxdiffs := []int{1, 2, 3, 5, 128}
	buffers := []int{0, 600, 1 << 28}
	defer pathdb.VerifSetMaxDiffLayers(pathdb.VerifSetMaxDiffLayers(128))
	shapes := map[string]bool{}
	for t := 0; t < ntraces; t++ {
		e := newEnv(keys, false, sum, newGates())
		maxdiff := maxdiffs[(t+int(seed))%len(maxdiffs)]
		n := steps
		if maxdiff == 128 {
			n = 3*steps + 140
		}
		pathdb.VerifSetMaxDiffLayers(maxdiff)
		e.pdb.VerifSetBufferLimit(buffers[r.Intn(len(buffers))])
		tr.Emit(tl.M{"op": "reset", "async": false})
		head := world{}
		for _, k := range keys {
			head[k] = 0
		}
		shape := ""
		for i := 0; i < n && len(sum.Violations) == 0; i++ {
			live := []world{}
			liveSet := map[string]bool{}
			diskRoot := e.pdb.VerifDisk().Root
			for _, l := range e.pdb.VerifLayers() {
				w := e.worlds[e.wkey[l.Root]]
				live = append(live, w)
				liveSet[w.key(keys)] = true
			}
			if !liveSet[head.key(keys)] {
				head = live[r.Intn(len(live))]
			}
			var ev tl.M
			switch c := r.Intn(100); {
			case c < 88: // update
				p := head
				switch x := r.Intn(20); {
				case x < 5:
					p = live[r.Intn(len(live))] // fork
				case x == 5 && len(e.dead) > 0: // a state that is gone
					for wk := range e.dead {
						p = e.worlds[wk]
						break
					}
				}
				d := world{}
				if r.Intn(25) != 0 { // else: empty transition
					for j := 0; j <= r.Intn(2); j++ {
						k := keys[r.Intn(len(keys))]
						v := r.Intn(maxVal + 1)
						if v == p[k] {
							v = (v + 1) % (maxVal + 1)
						}
						d[k] = v
					}
				}
				nw := apply(p, d, keys)
				res := "ok"
				switch {
				case len(d) == 0:
					res = "cycle"
				case e.rootOfKnown(nw) == diskRoot:
					res = "dupdisk"
				case liveSet[nw.key(keys)]:
					res = "dup"
				case !liveSet[p.key(keys)]:
					res = "orphan"
				}
				e.update(map[string]any{"p": worldJSON(p), "d": worldJSON(d), "res": res})
				if res == "ok" {
					head = nw
				}
				ev = tl.M{"op": "update", "p": worldJSON(p), "d": worldJSON(d), "res": res, "maxdiff": maxdiff}
				shape += res[:1]
			default: // Commit or an explicit cap at a random available root
				w := live[r.Intn(len(live))]
				nn := 0
				if r.Intn(2) == 0 {
					nn = 1 + r.Intn(3)
				}
				var err error
				if nn == 0 {
					err = e.tdb.Commit(e.rootOf(w), false)
				} else {
					err = e.pdb.VerifCap(e.rootOf(w), nn)
				}
				ev = tl.M{"op": "cap", "r": worldJSON(w), "n": nn, "ok": err == nil}
				shape += fmt.Sprintf("C%d", nn)
			}
			p, st := e.implProj()
			ev["st"] = st
			tr.Emit(ev)
			e.verifyReads(p, fmt.Sprintf("trace %d call %d", t, i+1))
			sum.Steps++
			sum.Count(ev["op"].(string))
		}
		e.close()
		sum.Traces++
		sum.Evaluations++
		if !shapes[shape] {
			shapes[shape] = true
			sum.Distinct++
		}
		if t == 0 {
			sum.Sample(shape)
		}
		if len(sum.Violations) > 0 {
			break
		}
	}
	sum.Rule = "random layer trees grown through StateDB commits on a self-capping database (maxDiffLayers 1/2/3/5/128, buffers 0 B/600 B/256 MiB, synchronous flush), random Commit/cap calls; distinct = distinct call-result sequences"
}

// rootOfKnown returns the registered root of a world, or the zero hash.
func (e *env) rootOfKnown(w world) common.Hash { return e.root[w.key(e.keys)] }

// ------------------------------------------------------------------ regression scenario (fixed defect C16-F1)

// runRegress builds, with the default 128-layer limit and only StateDB commits
// (Database.Update), a fork on the layer that gets flattened by the next Update.  Before the
// fix 13160d1914 the fork stayed registered as an available state but kept pointing at the
// flattened diff layer object (parent: stale disk layer): trie reads at it failed, committing
// it failed, and a layer added on top of it was recorded as descendant of the stale disk
// root, so that the lookup index returned another state's account once a layer with that
// root was added again.  Every available state must read as itself through both paths.
func runRegress(sum *tl.Summary) {
	g := newGates()
	// four accounts whose hashed addresses start with different nibbles: adding one of them never
	// moves the trie leaf of another
	var keys []string
	nib := map[byte]bool{}
	for i := 1; len(keys) < 4; i++ {
		k := fmt.Sprintf("a%d", i)
		n := crypto.Keccak256(addrOf(k).Bytes())[0] >> 4
		if !nib[n] {
			nib[n] = true
			keys = append(keys, k)
		}
	}
	k1, k2, k3, k4 := keys[0], keys[1], keys[2], keys[3]
	keys = sorted(keys)
	e := newEnv(keys, false, sum, g)
	defer e.close()
	next := func(p world, d world) world {
		nw := apply(p, d, keys)
		st, err := state.New(e.rootOf(p), e.sdb)
		if err != nil {
			sum.Violate(fmt.Sprintf("available state %s cannot be opened for execution: %v", p.key(keys), err), tl.M{})
			return nw
		}
		write(st, p, nw, keys)
		e.block++
		root, err := st.Commit(rules, e.block)
		if err != nil {
			sum.Violate(fmt.Sprintf("executing %v on available state %s fails: %v", d, p.key(keys), err), tl.M{})
			return nw
		}
		e.register(nw, root)
		return nw
	}
	check := func(w world, what string) {
		h, err := e.open(w)
		if err != nil {
			sum.Violate(fmt.Sprintf("%s (%s) is not available: %v", what, w.key(keys), err), tl.M{})
			return
		}
		for _, k := range keys {
			if v, err := e.fast(h, k); err != nil || v != w[k] {
				sum.Violate(fmt.Sprintf("StateReader(%s).%s = %d (err %v), the state holds %d", what, k, v, err, w[k]), tl.M{"state": w.key(keys)})
			}
			if v, err := e.slow(h, k); err != nil || v != w[k] {
				sum.Violate(fmt.Sprintf("trie read over NodeReader(%s) of %s = %d (err %v), the state holds %d", what, k, v, err, w[k]), tl.M{"state": w.key(keys)})
			}
			sum.Evaluations += 2
		}
	}
	l0 := next(world{}, world{k3: 7, k4: 8}) // L0: two accounts nobody touches afterwards
	l1 := next(l0, world{k1: 1})             // L1
	sib := next(l1, world{k2: 999})          // fork on L1
	cur := l1
	for i := 2; i <= 129; i++ { // L2 .. L129 on L1: Update flattens L0, then L1 (128 diff layers are kept)
		cur = next(cur, world{k1: i})
	}
	check(cur, "head")
	check(sib, "fork on the flattened layer")
	child := next(sib, world{k4: 9}) // touches an account older than the flattened layer
	check(child, "child of the fork")
	again := next(l1, world{k1: 0}) // same state, hence same root, as L0: the stale disk layer's root returns as a diff layer
	if e.rootOf(again) != e.rootOf(l0) {
		tl.Fatal("scenario broken: undoing L1 does not reproduce L0's root")
	}
	check(child, "child of the fork, after the old disk root was added again")
	check(sib, "fork, after the old disk root was added again")
	if err := e.tdb.Commit(e.rootOf(child), false); err != nil {
		sum.Violate(fmt.Sprintf("Commit(child of the fork) fails: %v", err), tl.M{})
	} else {
		check(child, "child of the fork, committed")
	}
	sum.Steps = int(e.block)
	sum.Distinct = 1
	sum.Sample(tl.M{"scenario": "fork at cap depth", "commits": e.block})
	sum.Rule = "fork built on the layer flattened by the 129th Update (default limits, StateDB commits only); every key read at head, fork and fork's child through both read paths; fork's child committed"
}


func main() {
	mode := flag.String("mode", "replay", "replay|regress|record")
	in := flag.String("in", "", "behaviours json")
	out := flag.String("out", "summary.json", "summary output")
	trace := flag.String("trace", "trace.ndjson", "output trace (mode record)")
	ntr := flag.Int("n", 6, "traces (mode record)")
	steps := flag.Int("steps", 40, "calls per trace (mode record)")
	flag.BoolVar(&iterMode, "iter", false, "additionally check the flat-state iterators at every available root (C22)")
	flag.Parse()
	if v := tl.EnvInt("C16_WAIT_S", 0); v > 0 {
		waitMax = time.Duration(v) * time.Second
	}
	log.SetDefault(log.NewLogger(log.DiscardHandler()))
	seed := int64(tl.EnvInt("VERIF_SEED", 1))
	sum := tl.NewSummary("c16", *mode, seed)
	switch *mode {
	case "replay":
		runReplay(*in, sum)
	case "regress":
		runRegress(sum)
	case "record":
		runRecord(*trace, *ntr, *steps, seed, sum)
	default:
		tl.Fatal("bad mode")
	}
	sum.Write(*out)
	if len(sum.Violations) > 0 {
		os.Exit(1)
	}
}
