// c33 drives the access-list-driven parallel block processor for property C33 (parallel block
// execution with block access lists agrees with sequential execution; wrong access lists rejected).
//
//	-mode cases  -in cases.json [-sched sched.json]
//	     every TLC scenario of MCParallelExec.tla (base values, N abstract transactions, true access
//	     list, post state, every single mutation of the access list) is realised as an Amsterdam block
//	     over the KV contract: the real access list's KV section and the real post state must equal
//	     the model's, parallel processing must equal sequential processing (free running and under
//	     every TLC-generated start/completion schedule, forced through the gate hook in
//	     executeTransactionsParallel), the honest block must import, every mutated block must be
//	     rejected by BlockChain.InsertChain.                                                   (R)
//	-mode random
//	     random interacting Amsterdam blocks (shared senders, creates, self-destructs, system
//	     contracts): sequential vs parallel under GOMAXPROCS 1,2,4,16 and seeded feasible schedules;
//	     EVERY single mutation of the real access list applied to the block => import must reject. (V)
//
// Both modes write the observed worker schedule and the verdicts as ndjson events for
// ParallelExecTrace.tla.
package main

import (
	"bytes"
	"context"
	"encoding/json"
	"flag"
	"fmt"
	"math/big"
	"math/rand"
	"os"
	"runtime"
	"sort"
	"strings"
	"sync"
	"time"

	"github.com/ethereum/go-ethereum/common"
	"github.com/ethereum/go-ethereum/core"
	"github.com/ethereum/go-ethereum/core/state"
	"github.com/ethereum/go-ethereum/core/types"
	"github.com/ethereum/go-ethereum/core/types/bal"
	"github.com/ethereum/go-ethereum/core/vm"
	"github.com/ethereum/go-ethereum/log"
	"github.com/ethereum/go-ethereum/rlp"
	"github.com/ethereum/go-ethereum/trie"
	"github.com/holiman/uint256"
	"verif/harness/blockkit"
	tl "verif/harness/tracelib"
)

// ---------------------------------------------------------------------------------------
// gate: observes and (optionally) forces the order of par.start / par.done events

type gev struct {
	Kind string
	I    int
}

type gate struct {
	mu     sync.Mutex
	cond   *sync.Cond
	sched  []gev // nil: free running
	pos    int
	log    []gev
	last   time.Time
	broken bool
}

// stallAfter: a forced schedule that makes no progress for this long is given up (the worker loop did not
// produce the expected event, e.g. because a transaction failed); the run continues free.
const stallAfter = 20 * time.Second

var theGate = func() *gate { g := &gate{}; g.cond = sync.NewCond(&g.mu); return g }()

func (g *gate) arm(s []gev) {
	g.mu.Lock()
	g.sched, g.pos, g.log, g.last, g.broken = s, 0, nil, time.Now(), false
	g.mu.Unlock()
}

func (g *gate) disarm() []gev {
	g.mu.Lock()
	defer g.mu.Unlock()
	l := g.log
	g.sched, g.log = nil, nil
	g.cond.Broadcast()
	return l
}

func (g *gate) on(kind string, i int) {
	e := gev{kind, i + 1}
	g.mu.Lock()
	defer g.mu.Unlock()
	if g.sched != nil {
		for !g.broken && g.sched != nil && !(g.pos < len(g.sched) && g.sched[g.pos] == e) {
			g.cond.Wait()
		}
		g.pos++
		g.last = time.Now()
	}
	g.log = append(g.log, e)
	g.cond.Broadcast()
}

func installHook() {
	core.VerifHook = func(ev string, kv ...any) {
		switch ev {
		case "par.start":
			theGate.on("s", kv[0].(int))
		case "par.done":
			theGate.on("d", kv[0].(int))
		}
	}
	// watchdog: an infeasible schedule must not hang the driver
	go func() {
		for {
			time.Sleep(2 * time.Second)
			theGate.mu.Lock()
			if theGate.sched != nil && theGate.pos < len(theGate.sched) && time.Since(theGate.last) > stallAfter {
				theGate.broken = true
				theGate.cond.Broadcast()
			}
			theGate.mu.Unlock()
		}
	}()
}

// ---------------------------------------------------------------------------------------
// mirror of the access-list encoding (the element types of package bal are unexported)

type rWrite struct {
	Idx uint32
	Val *uint256.Int
}
type rSlot struct {
	Slot   *uint256.Int
	Writes []rWrite
}
type rBal struct {
	Idx uint32
	Bal *uint256.Int
}
type rNonce struct {
	Idx   uint32
	Nonce uint64
}
type rCode struct {
	Idx  uint32
	Code []byte
}
type rAcct struct {
	Addr    common.Address
	Changes []rSlot
	Reads   []*uint256.Int
	Bals    []rBal
	Nonces  []rNonce
	Codes   []rCode
}

func toMirror(b *bal.BlockAccessList) []rAcct {
	enc, err := rlp.EncodeToBytes(b)
	if err != nil {
		tl.Fatal("encode bal: %v", err)
	}
	var m []rAcct
	if err := rlp.DecodeBytes(enc, &m); err != nil {
		tl.Fatal("decode bal mirror: %v", err)
	}
	back, err := rlp.EncodeToBytes(m)
	if err != nil || !bytes.Equal(back, enc) {
		tl.Fatal("access list mirror encoding is not the identity (%v)", err)
	}
	return m
}

func fromMirror(m []rAcct) (*bal.BlockAccessList, error) {
	enc, err := rlp.EncodeToBytes(m)
	if err != nil {
		return nil, err
	}
	var b bal.BlockAccessList
	if err := rlp.DecodeBytes(enc, &b); err != nil {
		return nil, err
	}
	return &b, nil
}

func cloneMirror(m []rAcct) []rAcct {
	enc, _ := rlp.EncodeToBytes(m)
	var c []rAcct
	if err := rlp.DecodeBytes(enc, &c); err != nil {
		tl.Fatal("clone: %v", err)
	}
	return c
}

// withBAL returns the block carrying the access list b with the header's access-list hash set to it
// (and optionally a different state root).
func withBAL(blk *types.Block, b *bal.BlockAccessList, root *common.Hash) *types.Block {
	h := blk.Header()
	hash := b.Hash()
	h.BlockAccessListHash = &hash
	if root != nil {
		h.Root = *root
	}
	return types.NewBlockWithHeader(h).WithBody(*blk.Body()).WithAccessListUnsafe(b)
}

// ---------------------------------------------------------------------------------------
// processing a block both ways

type procOut struct {
	res  *core.ProcessResult
	root common.Hash
	err  error
}

func process(bc *core.BlockChain, blk *types.Block, sequential bool) procOut {
	parent := bc.GetHeader(blk.ParentHash(), blk.NumberU64()-1)
	sdb, err := bc.StateAt(parent)
	if err != nil {
		tl.Fatal("state: %v", err)
	}
	if !sequential && blk.AccessList() != nil {
		// the state set-up of BlockChain.setupExecutionState for access-list driven execution: one shared,
		// caching, hint-prefetching reader under the canonical state and every per-transaction state
		db := sdb.Database()
		base, err := db.Reader(parent.Root)
		if err != nil {
			tl.Fatal("reader: %v", err)
		}
		hint := map[common.Address][]common.Hash{}
		for _, acc := range *blk.AccessList() {
			var slots []common.Hash
			for _, s := range acc.StorageReads {
				slots = append(slots, s.Bytes32())
			}
			for _, ch := range acc.StorageChanges {
				slots = append(slots, ch.Slot.Bytes32())
			}
			hint[acc.Address] = slots
		}
		reader, stop := state.NewBlockExecutionReader(base, hint, 2)
		defer stop()
		if sdb, err = state.NewWithReader(parent.Root, db, reader); err != nil {
			tl.Fatal("state: %v", err)
		}
	}
	res, err := core.NewStateProcessor(bc).Process(context.Background(), blk, sdb, nil, nil, vm.Config{DisableParallelExecution: sequential}, nil)
	if err != nil {
		return procOut{err: err}
	}
	cfg := bc.Config()
	root := sdb.IntermediateRoot(cfg.Rules(blk.Number(), true, blk.Time()))
	if e := sdb.Error(); e != nil {
		return procOut{err: e}
	}
	return procOut{res: res, root: root}
}

func jsonOf(v any) string {
	b, err := json.Marshal(v)
	if err != nil {
		tl.Fatal("json: %v", err)
	}
	return string(b)
}

// diff reports the first difference between two processing results ("" if none).
func diff(a, b procOut) string {
	if (a.err == nil) != (b.err == nil) {
		return fmt.Sprintf("error %v vs %v", a.err, b.err)
	}
	if a.err != nil {
		return ""
	}
	if a.root != b.root {
		return fmt.Sprintf("post-state root %x vs %x", a.root, b.root)
	}
	if a.res.GasUsed != b.res.GasUsed {
		return fmt.Sprintf("gas used %d vs %d", a.res.GasUsed, b.res.GasUsed)
	}
	if len(a.res.Receipts) != len(b.res.Receipts) {
		return "receipt count"
	}
	for i := range a.res.Receipts {
		if x, y := jsonOf(a.res.Receipts[i]), jsonOf(b.res.Receipts[i]); x != y {
			return fmt.Sprintf("receipt %d: %s vs %s", i, x, y)
		}
	}
	if x, y := types.DeriveSha(a.res.Receipts, trie.NewStackTrie(nil)), types.DeriveSha(b.res.Receipts, trie.NewStackTrie(nil)); x != y {
		return "receipt root"
	}
	if x, y := jsonOf(a.res.Logs), jsonOf(b.res.Logs); x != y {
		return fmt.Sprintf("logs: %s vs %s", x, y)
	}
	if x, y := jsonOf(a.res.Requests), jsonOf(b.res.Requests); x != y {
		return fmt.Sprintf("requests: %s vs %s", x, y)
	}
	ea, eb := a.res.Bal.ToEncodingObj(), b.res.Bal.ToEncodingObj()
	if ea.Hash() != eb.Hash() {
		return fmt.Sprintf("rebuilt access list:\n%s\nvs\n%s", ea.PrettyPrint(), eb.PrettyPrint())
	}
	return ""
}

// against checks a processing result against the block header.
func against(o procOut, blk *types.Block) string {
	if o.err != nil {
		return "error " + o.err.Error()
	}
	switch {
	case o.root != blk.Root():
		return fmt.Sprintf("state root %x, header %x", o.root, blk.Root())
	case o.res.GasUsed != blk.GasUsed():
		return "gas used"
	case types.DeriveSha(o.res.Receipts, trie.NewStackTrie(nil)) != blk.ReceiptHash():
		return "receipt root"
	case types.MergeBloom(o.res.Receipts) != blk.Bloom():
		return "bloom"
	case o.res.Bal.ToEncodingObj().Hash() != *blk.BlockAccessListHash():
		return "access list hash"
	case blk.RequestsHash() != nil && types.CalcRequestsHash(o.res.Requests) != *blk.RequestsHash():
		return "requests hash"
	}
	return ""
}

// ---------------------------------------------------------------------------------------
// schedules

// pool mirrors the worker pool of ParallelExec.tla: indices are fetched in order (not observable), begin
// executing in any order among the fetched ones ("s") and finish in any order ("d"); at most w in flight.
type pool struct {
	cursor  int
	fetched map[int]bool
	running map[int]bool
}

func newPool() *pool { return &pool{cursor: 1, fetched: map[int]bool{}, running: map[int]bool{}} }

// reach: the largest index that can have been fetched now
func (p *pool) reach(n, w int) int {
	r := p.cursor - 1 + (w - len(p.fetched) - len(p.running))
	if r > n {
		r = n
	}
	return r
}

func (p *pool) begin(i, n, w int) bool {
	if i > p.reach(n, w) {
		return false
	}
	for p.cursor <= i {
		p.fetched[p.cursor] = true
		p.cursor++
	}
	if !p.fetched[i] {
		return false
	}
	delete(p.fetched, i)
	p.running[i] = true
	return true
}

func (p *pool) finish(i int) bool {
	if !p.running[i] {
		return false
	}
	delete(p.running, i)
	return true
}

// feasible reports whether s is a legal begin/completion order for n transactions on w workers.
func feasible(s []gev, n, w int) bool {
	p := newPool()
	for _, e := range s {
		switch e.Kind {
		case "s":
			if !p.begin(e.I, n, w) {
				return false
			}
		case "d":
			if !p.finish(e.I) {
				return false
			}
		}
	}
	return p.cursor == n+1 && len(p.fetched) == 0 && len(p.running) == 0
}

// randSchedule draws a feasible schedule, favouring late transactions running before early ones.
func randSchedule(r *rand.Rand, n, w int) []gev {
	var s []gev
	p := newPool()
	begun := map[int]bool{}
	for len(s) < 2*n {
		var cand []int
		for i := 1; i <= p.reach(n, w); i++ {
			if !begun[i] {
				cand = append(cand, i)
			}
		}
		var run []int
		for i := range p.running {
			run = append(run, i)
		}
		sort.Ints(run)
		if len(cand) > 0 && (len(run) == 0 || r.Intn(2) == 0) {
			i := cand[len(cand)-1] // the latest index that can run now
			if r.Intn(3) == 0 {
				i = cand[r.Intn(len(cand))]
			}
			p.begin(i, n, w)
			begun[i] = true
			s = append(s, gev{"s", i})
		} else {
			i := run[r.Intn(len(run))]
			p.finish(i)
			s = append(s, gev{"d", i})
		}
	}
	return s
}

type driver struct {
	sum    *tl.Summary
	tr     *tl.Trace
	scheds map[string][][]gev // "n/w" -> schedules from TLC
	stalls int
	shapes map[string]bool
}

// parallelUnder processes blk in parallel with w workers under schedule s (nil = free running), emits the
// observed schedule and returns the result.
func (d *driver) parallelUnder(bc *core.BlockChain, blk *types.Block, w int, s []gev, seq procOut, label string) {
	if s != nil && d.stalls >= 3 {
		d.sum.Count("forced-schedule-skipped-after-stalls")
		s = nil
	}
	old := runtime.GOMAXPROCS(w)
	theGate.arm(s)
	par := process(bc, blk, false)
	obs := theGate.disarm()
	runtime.GOMAXPROCS(old)
	n := len(blk.Transactions())
	theGate.mu.Lock()
	stalled := theGate.broken
	theGate.broken = false
	theGate.mu.Unlock()
	if stalled {
		d.stalls++
		d.sum.Count("forced-schedule-stalled")
	}
	df := diff(seq, par)
	hd := against(par, blk)
	order := make([][]any, len(obs))
	for i, e := range obs {
		order[i] = []any{e.Kind, e.I}
	}
	weff := w
	if weff > n {
		weff = n
	}
	d.tr.Emit(tl.M{"op": "run", "n": n, "w": weff, "order": order, "equal": df == "", "matchesHeader": hd == "", "forced": s != nil})
	d.sum.Evaluations++
	d.sum.Count(fmt.Sprintf("parallel-run/w%d", w))
	if s != nil && fmt.Sprint(obs) != fmt.Sprint(s) {
		d.sum.Violate(fmt.Sprintf("%s: forced schedule %v (workers=%d), worker loop produced %v (stalled: %v; processing error: %v)", label, s, w, obs, stalled, par.err),
			tl.M{"label": label, "schedule": s, "observed": obs, "workers": w})
	}
	if df != "" {
		d.sum.Violate(fmt.Sprintf("%s: parallel processing (workers=%d, schedule %v) differs from sequential processing: %s", label, w, obs, df),
			tl.M{"label": label, "workers": w, "schedule": obs, "diff": df})
	} else if hd != "" {
		d.sum.Violate(fmt.Sprintf("%s: parallel processing (workers=%d) does not reproduce the committed block: %s", label, w, hd),
			tl.M{"label": label, "workers": w, "schedule": obs})
	}
	key := fmt.Sprintf("%d/%d/%v", n, weff, obs)
	if !d.shapes[key] {
		d.shapes[key] = true
		d.sum.Distinct++
	}
}

// importVerdict imports blk on bc (parallel processor for blocks carrying an access list).
func importVerdict(bc *core.BlockChain, blk *types.Block) error {
	theGate.arm(nil)
	_, err := bc.InsertBlockWithoutSetHead(context.Background(), blk, false)
	theGate.disarm()
	return err
}

// forgedRoot computes the state root the given access list would install on the parent state.
func forgedRoot(bc *core.BlockChain, blk *types.Block, b *bal.BlockAccessList) (root common.Hash, ok bool) {
	defer func() {
		if r := recover(); r != nil {
			ok = false
		}
	}()
	parent := bc.GetHeader(blk.ParentHash(), blk.NumberU64()-1)
	sdb, err := bc.StateAt(parent)
	if err != nil {
		return common.Hash{}, false
	}
	if err := sdb.ApplyBlockAccessList(b); err != nil {
		return common.Hash{}, false
	}
	root = sdb.IntermediateRoot(bc.Config().Rules(blk.Number(), true, blk.Time()))
	return root, sdb.Error() == nil
}

// rejectMutant imports a block whose access list was mutated; it must be rejected.
func (d *driver) rejectMutant(bc *core.BlockChain, blk *types.Block, m []rAcct, what, label string) {
	b, err := fromMirror(m)
	if err != nil {
		d.sum.Count("mutant-undecodable")
		return
	}
	if b.Hash() == blk.AccessList().Hash() {
		return // not a mutation
	}
	variants := []*types.Block{withBAL(blk, b, nil)}
	if root, ok := forgedRoot(bc, blk, b); ok && root != blk.Root() {
		variants = append(variants, withBAL(blk, b, &root))
	}
	for vi, mb := range variants {
		err := importVerdict(bc, mb)
		d.tr.Emit(tl.M{"op": "mutant", "rejected": err != nil})
		d.sum.Evaluations++
		d.sum.Count("mutant:" + strings.SplitN(what, " ", 2)[0])
		if err == nil {
			d.sum.Violate(fmt.Sprintf("%s: block with mutated access list (%s%s) was ACCEPTED by import", label, what, []string{"", ", state root forged to match"}[vi]),
				tl.M{"label": label, "mutation": what, "forgedRoot": vi == 1, "bal": b.PrettyPrint()})
		}
	}
}

// ---------------------------------------------------------------------------------------
// mode cases

type mProg struct {
	Op string `json:"op"`
	A  uint64 `json:"a"`
	B  uint64 `json:"b"`
}
type mBal struct {
	W [][]uint64 `json:"w"` // [key, index, value]
	R []uint64   `json:"r"`
}
type mCase struct {
	Base []uint64   `json:"base"`
	Txs  []mProg    `json:"txs"`
	Bal  mBal       `json:"bal"`
	Outs [][]uint64 `json:"outs"`
	Post []uint64   `json:"post"`
	Muts []mBal     `json:"muts"`
}

func (b mBal) canon() string {
	w := append([][]uint64{}, b.W...)
	sort.Slice(w, func(i, j int) bool {
		if w[i][0] != w[j][0] {
			return w[i][0] < w[j][0]
		}
		return w[i][1] < w[j][1]
	})
	r := append([]uint64{}, b.R...)
	sort.Slice(r, func(i, j int) bool { return r[i] < r[j] })
	return fmt.Sprint(w, r)
}

// kvSection extracts the KV contract's storage section of a real access list in model terms.
func kvSection(m []rAcct, kv common.Address) mBal {
	out := mBal{W: [][]uint64{}, R: []uint64{}}
	for _, a := range m {
		if a.Addr != kv {
			continue
		}
		for _, s := range a.Changes {
			for _, w := range s.Writes {
				out.W = append(out.W, []uint64{s.Slot.Uint64(), uint64(w.Idx), w.Val.Uint64()})
			}
		}
		for _, r := range a.Reads {
			out.R = append(out.R, r.Uint64())
		}
	}
	return out
}

// setKVSection replaces the KV contract's storage section.
func setKVSection(m []rAcct, kv common.Address, b mBal) []rAcct {
	c := cloneMirror(m)
	for i := range c {
		if c[i].Addr != kv {
			continue
		}
		bySlot := map[uint64][]rWrite{}
		var slots []uint64
		for _, w := range b.W {
			if _, ok := bySlot[w[0]]; !ok {
				slots = append(slots, w[0])
			}
			bySlot[w[0]] = append(bySlot[w[0]], rWrite{uint32(w[1]), uint256.NewInt(w[2])})
		}
		sort.Slice(slots, func(x, y int) bool { return slots[x] < slots[y] })
		c[i].Changes = nil
		for _, s := range slots {
			ws := bySlot[s]
			sort.Slice(ws, func(x, y int) bool { return ws[x].Idx < ws[y].Idx })
			c[i].Changes = append(c[i].Changes, rSlot{uint256.NewInt(s), ws})
		}
		rs := append([]uint64{}, b.R...)
		sort.Slice(rs, func(x, y int) bool { return rs[x] < rs[y] })
		c[i].Reads = nil
		for _, r := range rs {
			c[i].Reads = append(c[i].Reads, uint256.NewInt(r))
		}
	}
	return c
}

func progCall(p mProg) []byte {
	switch p.Op {
	case "set":
		return blockkit.KVCall(0, p.A, p.B)
	case "inc":
		return blockkit.KVCall(1, p.A, 0)
	case "copy":
		return blockkit.KVCall(2, p.A, p.B)
	case "cond":
		return blockkit.KVCall(3, p.A, p.B)
	case "read":
		return blockkit.KVCall(4, p.A, 0)
	}
	tl.Fatal("unknown program %v", p)
	return nil
}

func (d *driver) runCase(c mCase, ci int, seed int64) {
	label := fmt.Sprintf("case%d", ci)
	// genesis with the model's base values in the KV contract
	k0 := blockkit.New("amsterdam", 4, nil)
	kvAcc := k0.Gspec.Alloc[k0.C.KV]
	kvAcc.Storage = map[common.Hash]common.Hash{}
	for i, v := range c.Base {
		if v != 0 {
			kvAcc.Storage[common.BigToHash(big.NewInt(int64(i+1)))] = common.BigToHash(new(big.Int).SetUint64(v))
		}
	}
	k := blockkit.New("amsterdam", 4, types.GenesisAlloc{k0.C.KV: kvAcc})
	ch, err := k.NewChain()
	if err != nil {
		tl.Fatal("%v", err)
	}
	defer ch.Close()
	var specs []blockkit.TxSpec
	for i, p := range c.Txs {
		kv := k.C.KV
		// shared senders: transaction i is signed by key (i + ci) mod 2 so that nonces chain inside the block
		specs = append(specs, blockkit.TxSpec{Kind: "kv-" + p.Op, From: (i + ci) % 2, To: &kv, Value: new(big.Int), Gas: 1_000_000,
			Data: progCall(p), Tip: 1, AuthKey: -1, Legacy: (i+ci)%3 == 0})
	}
	blk, rcpts, _, err := ch.ExtendSpecs(specs, common.Address{0xc0}, nil, nil)
	if err != nil {
		tl.Fatal("generator: %v", err)
	}
	for i, r := range rcpts {
		if r.Status != types.ReceiptStatusSuccessful {
			tl.Fatal("%s: KV transaction %d failed in the generator (harness contract bug)", label, i)
		}
	}
	replay := tl.M{"case": c, "index": ci}
	real := toMirror(blk.AccessList())
	// 1. the real access list's KV section is the model's true access list
	got := kvSection(real, k.C.KV)
	if got.canon() != c.Bal.canon() {
		d.sum.Violate(fmt.Sprintf("%s: access list of the KV contract produced by sequential execution is %s, specification %s (base %v, txs %v)",
			label, got.canon(), c.Bal.canon(), c.Base, c.Txs), replay)
		return
	}
	// 2. the real post state is the model's
	st, err := ch.BC.State()
	if err != nil {
		tl.Fatal("state: %v", err)
	}
	for i, want := range c.Post {
		if v := st.GetState(k.C.KV, common.BigToHash(big.NewInt(int64(i+1)))).Big().Uint64(); v != want {
			d.sum.Violate(fmt.Sprintf("%s: post state slot %d = %d, specification %d", label, i+1, v, want), replay)
		}
	}
	// 3. parallel = sequential, free running and under every TLC schedule
	bc, _, err := ch.Replica(0, nil)
	if err != nil {
		tl.Fatal("%v", err)
	}
	defer bc.Stop()
	seq := process(bc, blk, true)
	if hd := against(seq, blk); hd != "" {
		d.sum.Violate(fmt.Sprintf("%s: sequential processing does not reproduce the generated block: %s", label, hd), replay)
		return
	}
	n := len(c.Txs)
	d.parallelUnder(bc, blk, 1+ci%3, nil, seq, label)
	for w := 1; w <= n; w++ {
		all := d.scheds[fmt.Sprintf("%d/%d", n, w)]
		if len(all) == 0 {
			continue
		}
		// every schedule is used across the cases; each case takes a slice of them
		per := 3
		for j := 0; j < per; j++ {
			s := all[(ci*per+j+int(seed))%len(all)]
			d.parallelUnder(bc, blk, w, s, seq, label)
		}
	}
	// 4. the honest block imports through the parallel path
	if err := importVerdict(bc, blk); err != nil {
		d.sum.Violate(fmt.Sprintf("%s: block with the true access list rejected by import: %v", label, err), replay)
	}
	d.tr.Emit(tl.M{"op": "honest", "accepted": true})
	d.sum.Count("honest-import")
	// 5. every single mutation the model lists is rejected
	bc2, _, err := ch.Replica(0, nil)
	if err != nil {
		tl.Fatal("%v", err)
	}
	defer bc2.Stop()
	for _, m := range c.Muts {
		d.rejectMutant(bc2, blk, setKVSection(real, k.C.KV, m), "model-mutation "+m.canon(), label)
	}
	d.sum.Traces++
	if len(d.sum.Samples) < 3 {
		d.sum.Sample(tl.M{"label": label, "base": c.Base, "txs": c.Txs, "trueBAL": c.Bal, "mutations": len(c.Muts)})
	}
}

// ---------------------------------------------------------------------------------------
// mode random: every single mutation of a real access list

func u(v uint64) *uint256.Int { return uint256.NewInt(v) }

// mutations enumerates single mutations of the access list (as label + mutated mirror).
func mutations(m []rAcct, ntx int, r *rand.Rand, each func(what string, mm []rAcct)) {
	maxIdx := uint32(ntx + 1)
	otherIdx := func(i uint32) []uint32 {
		var o []uint32
		for _, c := range []uint32{i - 1, i + 1, 0, maxIdx} {
			if c != i && c <= maxIdx && c+1 != 0 {
				o = append(o, c)
			}
		}
		return o
	}
	for ai := range m {
		a := &m[ai]
		tag := fmt.Sprintf("%x", a.Addr[:4])
		// whole account missing
		{
			c := cloneMirror(m)
			c = append(c[:ai], c[ai+1:]...)
			each("remove-account "+tag, c)
		}
		for si := range a.Changes {
			for wi := range a.Changes[si].Writes {
				w := a.Changes[si].Writes[wi]
				c := cloneMirror(m)
				c[ai].Changes[si].Writes[wi].Val = new(uint256.Int).AddUint64(w.Val, 1)
				each(fmt.Sprintf("storage-value %s slot %s idx %d", tag, a.Changes[si].Slot, w.Idx), c)
				c = cloneMirror(m)
				c[ai].Changes[si].Writes[wi].Val = u(0)
				if !w.Val.IsZero() {
					each(fmt.Sprintf("storage-zero %s slot %s idx %d", tag, a.Changes[si].Slot, w.Idx), c)
				}
				for _, ni := range otherIdx(w.Idx) {
					c = cloneMirror(m)
					c[ai].Changes[si].Writes[wi].Idx = ni
					sort.Slice(c[ai].Changes[si].Writes, func(x, y int) bool { return c[ai].Changes[si].Writes[x].Idx < c[ai].Changes[si].Writes[y].Idx })
					each(fmt.Sprintf("storage-index %s slot %s idx %d->%d", tag, a.Changes[si].Slot, w.Idx, ni), c)
				}
				// write missing (slot demoted to read if it was the only write)
				c = cloneMirror(m)
				ws := c[ai].Changes[si].Writes
				c[ai].Changes[si].Writes = append(ws[:wi], ws[wi+1:]...)
				if len(c[ai].Changes[si].Writes) == 0 {
					slot := c[ai].Changes[si].Slot
					c[ai].Changes = append(c[ai].Changes[:si], c[ai].Changes[si+1:]...)
					c2 := cloneMirror(c)
					each(fmt.Sprintf("storage-missing %s slot %s", tag, slot), c2)
					c[ai].Reads = append(c[ai].Reads, slot)
					sort.Slice(c[ai].Reads, func(x, y int) bool { return c[ai].Reads[x].Lt(c[ai].Reads[y]) })
					each(fmt.Sprintf("storage-write-to-read %s slot %s", tag, slot), c)
				} else {
					each(fmt.Sprintf("storage-missing %s slot %s idx %d", tag, a.Changes[si].Slot, w.Idx), c)
				}
				// extra write of the same slot at another index
				for _, ni := range otherIdx(w.Idx) {
					dup := false
					for _, x := range a.Changes[si].Writes {
						if x.Idx == ni {
							dup = true
						}
					}
					if dup {
						continue
					}
					c = cloneMirror(m)
					c[ai].Changes[si].Writes = append(c[ai].Changes[si].Writes, rWrite{ni, new(uint256.Int).AddUint64(w.Val, 5)})
					sort.Slice(c[ai].Changes[si].Writes, func(x, y int) bool { return c[ai].Changes[si].Writes[x].Idx < c[ai].Changes[si].Writes[y].Idx })
					each(fmt.Sprintf("storage-extra %s slot %s idx %d", tag, a.Changes[si].Slot, ni), c)
					break
				}
			}
		}
		for ri := range a.Reads {
			c := cloneMirror(m)
			c[ai].Reads = append(c[ai].Reads[:ri], c[ai].Reads[ri+1:]...)
			each(fmt.Sprintf("read-missing %s slot %s", tag, a.Reads[ri]), c)
			// read turned into a write
			c = cloneMirror(m)
			slot := c[ai].Reads[ri]
			c[ai].Reads = append(c[ai].Reads[:ri], c[ai].Reads[ri+1:]...)
			c[ai].Changes = append(c[ai].Changes, rSlot{slot, []rWrite{{uint32(1 + r.Intn(ntx+1)), u(77)}}})
			sort.Slice(c[ai].Changes, func(x, y int) bool { return c[ai].Changes[x].Slot.Lt(c[ai].Changes[y].Slot) })
			each(fmt.Sprintf("read-to-write %s slot %s", tag, slot), c)
		}
		// extra read of an untouched slot
		{
			c := cloneMirror(m)
			extra := u(0xabcdef)
			c[ai].Reads = append(c[ai].Reads, extra)
			sort.Slice(c[ai].Reads, func(x, y int) bool { return c[ai].Reads[x].Lt(c[ai].Reads[y]) })
			each("read-extra "+tag, c)
		}
		for bi := range a.Bals {
			b := a.Bals[bi]
			c := cloneMirror(m)
			c[ai].Bals[bi].Bal = new(uint256.Int).AddUint64(b.Bal, 1)
			each(fmt.Sprintf("balance-value %s idx %d", tag, b.Idx), c)
			for _, ni := range otherIdx(b.Idx) {
				c = cloneMirror(m)
				c[ai].Bals[bi].Idx = ni
				sort.Slice(c[ai].Bals, func(x, y int) bool { return c[ai].Bals[x].Idx < c[ai].Bals[y].Idx })
				each(fmt.Sprintf("balance-index %s idx %d->%d", tag, b.Idx, ni), c)
			}
			c = cloneMirror(m)
			c[ai].Bals = append(c[ai].Bals[:bi], c[ai].Bals[bi+1:]...)
			each(fmt.Sprintf("balance-missing %s idx %d", tag, b.Idx), c)
		}
		if len(a.Bals) == 0 {
			c := cloneMirror(m)
			c[ai].Bals = []rBal{{uint32(1 + r.Intn(ntx+1)), u(12345)}}
			each("balance-extra "+tag, c)
		}
		for ni := range a.Nonces {
			nn := a.Nonces[ni]
			c := cloneMirror(m)
			c[ai].Nonces[ni].Nonce = nn.Nonce + 1
			each(fmt.Sprintf("nonce-value %s idx %d", tag, nn.Idx), c)
			for _, nidx := range otherIdx(nn.Idx) {
				c = cloneMirror(m)
				c[ai].Nonces[ni].Idx = nidx
				sort.Slice(c[ai].Nonces, func(x, y int) bool { return c[ai].Nonces[x].Idx < c[ai].Nonces[y].Idx })
				each(fmt.Sprintf("nonce-index %s idx %d->%d", tag, nn.Idx, nidx), c)
			}
			c = cloneMirror(m)
			c[ai].Nonces = append(c[ai].Nonces[:ni], c[ai].Nonces[ni+1:]...)
			each(fmt.Sprintf("nonce-missing %s idx %d", tag, nn.Idx), c)
		}
		for ci := range a.Codes {
			cc := a.Codes[ci]
			c := cloneMirror(m)
			c[ai].Codes[ci].Code = append(append([]byte{}, cc.Code...), 0x00)
			each(fmt.Sprintf("code-value %s idx %d", tag, cc.Idx), c)
			c = cloneMirror(m)
			c[ai].Codes = append(c[ai].Codes[:ci], c[ai].Codes[ci+1:]...)
			each(fmt.Sprintf("code-missing %s idx %d", tag, cc.Idx), c)
			for _, nidx := range otherIdx(cc.Idx) {
				c = cloneMirror(m)
				c[ai].Codes[ci].Idx = nidx
				sort.Slice(c[ai].Codes, func(x, y int) bool { return c[ai].Codes[x].Idx < c[ai].Codes[y].Idx })
				each(fmt.Sprintf("code-index %s idx %d->%d", tag, cc.Idx, nidx), c)
			}
		}
	}
	// an account that was never touched
	{
		c := cloneMirror(m)
		c = append(c, rAcct{Addr: common.HexToAddress("0xffffffffffffffffffffffffffffffffffffff01")})
		sort.Slice(c, func(x, y int) bool { return bytes.Compare(c[x].Addr[:], c[y].Addr[:]) < 0 })
		each("extra-account", c)
	}
}

func (d *driver) runRandom(seed int64, nblocks, maxTx, maxMut int) {
	k := blockkit.New("amsterdam", 6, nil)
	ch, err := k.NewChain()
	if err != nil {
		tl.Fatal("%v", err)
	}
	defer ch.Close()
	r := tl.Rand(seed)
	scripts := k.Scripts()
	for b := 0; b < len(scripts)+nblocks; b++ {
		var (
			blk   *types.Block
			kinds []string
			err   error
		)
		if b < len(scripts) {
			blk, _, kinds, err = ch.ExtendScript(scripts[b])
		} else {
			nt := 1 + r.Intn(maxTx)
			if b%3 == 0 {
				nt = 2 + r.Intn(2) // small blocks take the TLC-generated schedules
			}
			blk, _, kinds, err = ch.ExtendRandom(r, nt, blockkit.BlockOpts{Withdrawals: true})
		}
		if err != nil {
			tl.Fatal("generator: %v", err)
		}
		n := len(blk.Transactions())
		for _, kd := range kinds {
			d.sum.Count("tx:" + kd)
		}
		label := fmt.Sprintf("random#%d", blk.NumberU64())
		bc, _, err := ch.Replica(b, nil)
		if err != nil {
			tl.Fatal("%v", err)
		}
		seq := process(bc, blk, true)
		if hd := against(seq, blk); hd != "" {
			d.sum.Violate(fmt.Sprintf("%s: sequential processing does not reproduce the generated block: %s", label, hd), tl.M{"label": label, "kinds": kinds})
			bc.Stop()
			continue
		}
		for _, w := range []int{1, 2, 4, 16} {
			d.parallelUnder(bc, blk, w, nil, seq, label)
		}
		for j := 0; j < 6; j++ {
			w := 1 + r.Intn(minInt(n, 4))
			if all := d.scheds[fmt.Sprintf("%d/%d", n, w)]; len(all) > 0 {
				d.parallelUnder(bc, blk, w, all[r.Intn(len(all))], seq, label) // a TLC-generated schedule
			} else {
				d.parallelUnder(bc, blk, w, randSchedule(r, n, w), seq, label)
			}
		}
		if err := importVerdict(bc, blk); err != nil {
			d.sum.Violate(fmt.Sprintf("%s: generated block rejected by import through the parallel processor: %v", label, err), tl.M{"label": label, "kinds": kinds})
		}
		d.tr.Emit(tl.M{"op": "honest", "accepted": err == nil})
		d.sum.Count("honest-import")
		bc.Stop()
		// every single mutation of the real access list
		bc2, _, err := ch.Replica(b, nil)
		if err != nil {
			tl.Fatal("%v", err)
		}
		real := toMirror(blk.AccessList())
		type mut struct {
			what string
			m    []rAcct
		}
		var all []mut
		mutations(real, len(blk.Transactions()), r, func(what string, mm []rAcct) { all = append(all, mut{what, mm}) })
		d.sum.Counts["mutations-enumerated"] += len(all)
		if maxMut > 0 && len(all) > maxMut {
			r.Shuffle(len(all), func(i, j int) { all[i], all[j] = all[j], all[i] })
			all = all[:maxMut]
		}
		for _, mu := range all {
			d.rejectMutant(bc2, blk, mu.m, mu.what, label)
		}
		bc2.Stop()
		d.sum.Traces++
		if len(d.sum.Samples) < 3 {
			d.sum.Sample(tl.M{"label": label, "txs": kinds, "bal_accounts": len(real), "mutations": len(all)})
		}
	}
}

func minInt(a, b int) int {
	if a < b {
		return a
	}
	return b
}

func main() {
	mode := flag.String("mode", "random", "cases|random")
	in := flag.String("in", "", "cases json")
	schedIn := flag.String("sched", "", "schedules json (from MCParallelSched)")
	trace := flag.String("trace", "trace.ndjson", "output trace")
	out := flag.String("out", "summary.json", "summary output")
	nblocks := flag.Int("blocks", 4, "random blocks")
	maxTx := flag.Int("txs", 10, "max transactions per random block")
	maxMut := flag.Int("maxmut", 0, "cap on mutations per random block (0 = all)")
	maxCases := flag.Int("maxcases", 0, "cap on cases (0 = all)")
	flag.Parse()
	log.SetDefault(log.NewLogger(log.DiscardHandler()))
	seed := int64(tl.EnvInt("VERIF_SEED", 1))
	sum := tl.NewSummary("c33", *mode, seed)
	installHook()
	d := &driver{sum: sum, tr: tl.NewTrace(*trace), scheds: map[string][][]gev{}, shapes: map[string]bool{}}
	if *schedIn != "" {
		var raw []struct {
			N     int     `json:"n"`
			W     int     `json:"w"`
			Order [][]any `json:"order"`
		}
		tl.ReadJSON(*schedIn, &raw)
		seen := map[string]bool{}
		for _, s := range raw {
			var evs []gev
			for _, e := range s.Order {
				evs = append(evs, gev{e[0].(string), int(e[1].(float64))})
			}
			key := fmt.Sprintf("%d/%d", s.N, s.W)
			if seen[key+fmt.Sprint(evs)] {
				continue
			}
			seen[key+fmt.Sprint(evs)] = true
			if !feasible(evs, s.N, s.W) {
				tl.Fatal("TLC schedule %v is not feasible for n=%d w=%d", evs, s.N, s.W)
			}
			d.scheds[key] = append(d.scheds[key], evs)
		}
		for k, v := range d.scheds {
			sum.Counts["tlc-schedules/"+k] = len(v)
		}
	}
	switch *mode {
	case "cases":
		var cases []mCase
		tl.ReadJSON(*in, &cases)
		if *maxCases > 0 && len(cases) > *maxCases {
			r := tl.Rand(seed)
			r.Shuffle(len(cases), func(i, j int) { cases[i], cases[j] = cases[j], cases[i] })
			cases = cases[:*maxCases]
		}
		for ci, c := range cases {
			d.runCase(c, ci, seed)
		}
		sum.Rule = "every TLC scenario realised as an Amsterdam block over the KV contract; parallel processing free running and under TLC-generated start/completion schedules; every model mutation imported; distinct = distinct (n, workers, observed schedule)"
	case "random":
		d.runRandom(seed, *nblocks, *maxTx, *maxMut)
		sum.Rule = "random interacting Amsterdam blocks; GOMAXPROCS 1,2,4,16 and seeded feasible schedules; every single mutation of the real access list imported; distinct = distinct (n, workers, observed schedule)"
	default:
		tl.Fatal("bad mode")
	}
	d.tr.Close()
	sum.Steps = d.tr.N
	sum.Write(*out)
	if len(sum.Violations) > 0 {
		os.Exit(1)
	}
}
