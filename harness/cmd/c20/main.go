// c20 binds spec/state/PathDBCrash.tla to the real path database (property C20: recovery
// from a crash at every crash point).
//
//	-mode record -trace t.ndjson -n N -steps S
//	    Seeded random histories (updates, commits, rollbacks, journaled restarts) on a real
//	    pathdb.Database whose key-value store and freezer files are observed: a crash image
//	    (key-value content + every file of the ancient directory) is taken before every
//	    key-value write and after every fsync of a freezer file, in two variants: everything
//	    written so far survives / every fsynced file holds exactly its last fsynced content.
//	    Each distinct image is reopened by a child process (log.Crit exits the process); the
//	    child projects the freezer before the database touches it, opens the database,
//	    projects the recovered state, then rolls back to one root reported recoverable and
//	    projects again.  The parent emits one "Crash" probe event per image ahead of the
//	    event of the operation during which it was taken.
//	-mode child -img dir -res out.json   (internal)
//
// spec/state/PathDBCrashTrace.tla decides: the image's durable state must be one of the
// durable states the specification allows during that operation, and the recovered state
// must be what the specification's reopen computes from it.
package main

import (
	"encoding/json"
	"flag"
	"fmt"
	"os"
	"os/exec"
	"path/filepath"
	"time"

	"github.com/ethereum/go-ethereum/common"
	"verif/harness/cmd/c17/pdb"
	tl "verif/harness/tracelib"
)

type childResult struct {
	Img     tl.M  `json:"img"`
	Opened  bool  `json:"opened"`
	Post    tl.M  `json:"post"`
	HasR    bool  `json:"hasr"`
	RW      []int `json:"rw"`
	ROK     bool  `json:"rok"`
	Post2   tl.M  `json:"post2"`
	Restore bool  `json:"restored"`
}

func runChild(img, resPath string) {
	kv, spec := pdb.LoadImage(img)
	reg := pdb.NewRegistry(spec.Shape, spec.Cfg.Cancun)
	for _, w := range spec.Worlds {
		reg.Info(w)
	}
	res := childResult{Post: tl.M{}, Post2: tl.M{}, RW: []int{}}
	ancient := filepath.Join(img, "ancient")
	res.Img = pdb.DurableProjection(kv, ancient, spec.Shape, reg)
	write := func() {
		b, _ := json.Marshal(res)
		os.WriteFile(resPath, b, 0o644)
	}
	write() // if the open below exits the process, the parent still gets the image projection
	e, err := pdb.Open(spec.Shape, spec.Cfg, ancient, kv, reg)
	if err != nil {
		tl.Fatal("child open: %v", err)
	}
	res.Opened = true
	rn := &pdb.Runner{E: e, Sum: tl.NewSummary("c20", "child", spec.Seed), R: tl.Rand(spec.Seed), Full: true}
	rn.Head, _, _, _ = e.PDB.VerifHistDisk()
	if match, jhead := rn.JournalMatches(); match {
		if _, _, ok := e.PDB.VerifHistChain(jhead); ok {
			rn.Head, res.Restore = jhead, true
		}
	}
	rn.Observe(res.Post)
	write()
	// rollback from the recovered database still works
	var cands []pdb.World
	for _, wi := range reg.Order {
		if ok, _ := e.TDB.Recoverable(wi.Root); ok {
			cands = append(cands, wi.W)
		}
	}
	if len(cands) > 0 {
		w := cands[rn.R.Intn(len(cands))]
		res.HasR, res.RW = true, w
		res.ROK = e.TDB.Recover(reg.Info(w).Root) == nil
		rn.Head, _, _, _ = e.PDB.VerifHistDisk()
		rn.Observe(res.Post2)
	}
	write()
	e.Close()
}

// probe reopens one image in a child process and emits the Crash event.
func probe(self string, rn *pdb.Runner, im *pdb.Image, x tl.M, dir string, seq int, sum *tl.Summary) {
	var worlds []pdb.World
	for _, wi := range rn.E.Reg.Order {
		worlds = append(worlds, wi.W)
	}
	img := filepath.Join(dir, fmt.Sprintf("img-%d", seq))
	pdb.WriteImage(img, im, pdb.ChildSpec{Shape: rn.E.Shape, Cfg: rn.E.Cfg, Worlds: worlds, Seed: int64(seq)})
	resPath := filepath.Join(img, "result.json")
	cmd := exec.Command(self, "-mode", "child", "-img", img, "-res", resPath)
	done := make(chan error, 1)
	var out []byte
	go func() {
		var err error
		out, err = cmd.CombinedOutput()
		done <- err
	}()
	var err error
	select {
	case err = <-done:
	case <-time.After(15 * time.Minute):
		cmd.Process.Kill()
		tl.Fatal("child timed out on image %d (%s)", seq, im.Tag)
	}
	var res childResult
	if _, serr := os.Stat(resPath); serr != nil {
		tl.Fatal("child produced no result on image %d (%s): %v\n%s", seq, im.Tag, err, out)
	}
	tl.ReadJSON(resPath, &res)
	ev := tl.M{"op": "Crash", "x": x, "tag": im.Tag, "img": res.Img, "refused": !res.Opened, "kf": staleJournal(res.Img),
		"post": res.Post, "hasr": res.HasR, "rw": res.RW, "rok": res.ROK, "post2": res.Post2, "restored": res.Restore}
	if err != nil {
		ev["childerr"] = fmt.Sprintf("%v: %s", err, tail(out, 400))
		if res.Opened && !(res.HasR && len(res.Post2) == 0) {
			// the child died after a successful open outside the rollback: harness trouble
			tl.Fatal("child failed after open on image %d: %v\n%s", seq, err, out)
		}
		if res.Opened {
			ev["rcrash"] = true // the process died inside Recover
		}
	}
	if _, has := ev["rcrash"]; !has {
		ev["rcrash"] = false
	}
	rn.Tr.EmitNow(ev)
	sum.Count("Crash")
	if !res.Opened {
		sum.Count("Crash:refused")
	}
	if ev["kf"] == true {
		sum.Count("KF1:stale-journal")
	}
	if res.Restore {
		sum.Count("Crash:journal-restored")
	}
	os.RemoveAll(img)
}

// staleJournal evaluates, on the projected image, the situation of candidate defect
// C20-KF1: the stored journal will be accepted (written over the persisted state, persistent
// id not above its disk layer id) although its disk layer is not the canonical state of
// that id according to the surviving histories.
// Finding C20-F1 (known_findings.json via ctx.known_finding in checks/C20.py): the outcome of probes in this situation is not judged.
func staleJournal(img tl.M) bool {
	b, _ := json.Marshal(img)
	var p struct {
		Pid  int   `json:"pid"`
		Kvw  []int `json:"kvw"`
		Head int   `json:"head"`
		Recs []struct {
			ID     int   `json:"id"`
			Parent []int `json:"parent"`
			Root   []int `json:"root"`
		} `json:"recs"`
		Jr struct {
			Has  bool  `json:"has"`
			Base []int `json:"base"`
			Disk struct {
				ID   int   `json:"id"`
				Root []int `json:"root"`
			} `json:"disk"`
		} `json:"jr"`
	}
	json.Unmarshal(b, &p)
	if !p.Jr.Has || !pdb.World(p.Jr.Base).Eq(p.Kvw) || p.Pid > p.Jr.Disk.ID {
		return false
	}
	var canon []int
	found := false
	for _, r := range p.Recs {
		if r.ID == p.Jr.Disk.ID+1 {
			canon, found = r.Parent, true
		}
	}
	if !found {
		for _, r := range p.Recs {
			if r.ID == p.Jr.Disk.ID {
				canon, found = r.Root, true
			}
		}
	}
	if !found && p.Jr.Disk.ID == p.Pid {
		canon, found = p.Kvw, true
	}
	return !found || !pdb.World(canon).Eq(p.Jr.Disk.Root)
}

func tail(b []byte, n int) string {
	if len(b) > n {
		b = b[len(b)-n:]
	}
	return string(b)
}

func runRecord(self, tracePath, scratch string, seed int64, ntraces, steps, maxImages int, sum *tl.Summary) {
	r := tl.Rand(seed)
	tr := pdb.NewTrace(tracePath)
	defer tr.Close()
	sigs := map[string]bool{}
	images := 0
	for t := 0; t < ntraces; t++ {
		shape := pdb.Shape{NAcc: 1 + r.Intn(2), NSlot: r.Intn(3), Counter: true}
		cfg := pdb.Config{
			MaxDiff:    []int{1, 1, 2}[r.Intn(3)],
			HistLimit:  []uint64{0, 0, 2, 3}[r.Intn(4)],
			BufSize:    []int{0, 1200, 1 << 22, 1 << 22, 1 << 22}[r.Intn(5)],
			Async:      r.Intn(2) == 0,
			Cancun:     r.Intn(2) == 0,
			CleanCache: 0,
		}
		cap := pdb.NewCapture()
		rn, err := pdb.NewRunner(shape, cfg, filepath.Join(scratch, fmt.Sprintf("rec-%d", t)), tr, sum, tl.Rand(r.Int63()))
		if err != nil {
			tl.Fatal("open: %v", err)
		}
		cap.Attach(rn.E)
		rn.Full = true
		rn.ResetEvent(tl.M{"src": "random", "shape": shape, "dbcfg": cfg})
		sig := ""
		seq := 0
		for i := 0; i < steps; i++ {
			roots := rn.ChainRoots()
			top := len(roots) - 1
			var x tl.M
			var run func()
			c := r.Intn(100)
			switch {
			case c < 55:
				n, touch, recreate := rn.RandomWorld(rn.E.WorldOfRoot(roots[top]), 3)
				x = tl.M{"t": "U", "j": top}
				run = func() { sig += "U" + rn.Update(top, n, touch, recreate)[:1] }
			case c < 62:
				i := r.Intn(top + 1)
				x = tl.M{"t": "C", "i": i}
				run = func() { rn.Commit(i); sig += "C" }
			case c < 78:
				var cands []pdb.World
				for _, wi := range rn.E.Reg.Order {
					if ok, _ := rn.E.TDB.Recoverable(wi.Root); ok {
						cands = append(cands, wi.W)
					}
				}
				if len(cands) == 0 {
					continue
				}
				w := cands[r.Intn(len(cands))]
				x = tl.M{"t": "R", "w": w}
				run = func() { rn.Recover(w); sig += "R" }
			default:
				i := r.Intn(top + 1)
				x = tl.M{"t": "J", "i": i}
				run = func() {
					rn.Reopen(i)
					cap.Attach(rn.E)
					sig += "O"
				}
			}
			tr.Hold()
			cap.On = true
			run()
			cap.Snap("done")
			cap.On = false
			// the Update event knows the diff actually handed to the database
			if x["t"] == "U" {
				x["d"] = rn.LastDiff
			}
			for _, im := range cap.Take() {
				if images >= maxImages {
					break
				}
				probe(self, rn, im, x, scratch, seq, sum)
				seq++
				images++
			}
			tr.Release()
		}
		rn.Close()
		sum.Traces++
		sum.Evaluations += seq
		if !sigs[sig] {
			sigs[sig] = true
		}
		if t == 0 {
			sum.Sample(tl.M{"shape": shape, "cfg": cfg, "ops": sig, "images": seq})
		}
	}
	sum.Distinct = images
	sum.Steps = tr.N
	sum.Rule = "crash images (key-value content + all freezer files; unsynced file content kept or lost) taken before every key-value write and after every freezer fsync along seeded random histories, each reopened in a child process; distinct = images with distinct content"
}

func main() {
	mode := flag.String("mode", "record", "record|child")
	trace := flag.String("trace", "trace.ndjson", "output trace")
	out := flag.String("out", "summary.json", "summary output")
	n := flag.Int("n", 4, "number of traces")
	steps := flag.Int("steps", 14, "operations per trace")
	maxImages := flag.Int("images", 400, "upper bound on crash images")
	img := flag.String("img", "", "image directory (child)")
	res := flag.String("res", "", "result file (child)")
	flag.Parse()
	if *mode == "child" {
		runChild(*img, *res)
		return
	}
	seed := int64(tl.EnvInt("VERIF_SEED", 1))
	sum := tl.NewSummary("c20", *mode, seed)
	scratch := pdb.ScratchDir("verif-c20-")
	defer os.RemoveAll(scratch)
	self, err := os.Executable()
	if err != nil {
		tl.Fatal("executable: %v", err)
	}
	runRecord(self, *trace, scratch, seed, *n, *steps, *maxImages, sum)
	sum.Write(*out)
	_ = common.Hash{}
}
