// c13 drives core/state.StateDB for property C13 (account state behaves like the reference
// account model of spec/state/StateDB.tla).
//
//	-mode mbt    -in behaviours.json  replay behaviours sampled by TLC -simulate (R)
//	-mode paths  -in edges.json       cover every transition of the TLC state graph by paths
//	                                  from an initial state and replay them (R)
//	-mode record -trace t.ndjson      seeded random histories on a real StateDB, one event per
//	                                  StateDB call with the full projected state (V)
//
// After every step ALL observables of all addresses and slots of the universe are read from
// the real StateDB and compared with the model state; at IntermediateRoot the real root must
// equal the root of a StackTrie built from the MODEL's world.
package main

import (
	"encoding/json"
	"flag"
	"fmt"
	"os"
	"sort"

	sk "verif/harness/statekit"
	tl "verif/harness/tracelib"
)

type step struct {
	Act sk.Act  `json:"act"`
	St  sk.Proj `json:"st"`
}

// envFor rotates the storage configurations under the StateDB.
func envFor(i int) *sk.Env {
	switch i % 4 {
	case 0:
		return sk.NewEnv("hash", false)
	case 1:
		return sk.NewEnv("path", false)
	case 2:
		return sk.NewEnv("hash", true)
	default:
		return sk.NewEnv("path", true)
	}
}

// replay executes one behaviour (steps[0] is the initial state) on a fresh StateDB and
// returns a description of the first divergence, or "".
func replay(u *sk.Universe, steps []step, idx int, cold bool, sum *tl.Summary) (string, int) {
	env := envFor(idx)
	defer env.Close()
	rules := steps[0].Act.Rules
	m, err := sk.NewMachine(u, env, rules, steps[0].St.World())
	if err != nil {
		return err.Error(), 0
	}
	check := func(i int) string {
		got, problems := m.Project(cold)
		if len(problems) > 0 {
			return fmt.Sprintf("inconsistent observables: %v", problems)
		}
		if gk, wk := got.Key(), steps[i].St.Key(); gk != wk {
			return fmt.Sprintf("observables differ from the model\n  implementation: %s\n  specification:  %s", gk, wk)
		}
		return ""
	}
	if d := check(0); d != "" {
		return "after opening the committed base world: " + d, 0
	}
	for i := 1; i < len(steps); i++ {
		if err := m.Apply(steps[i].Act); err != nil {
			tl.Fatal("%v", err)
		}
		sum.Steps++
		sum.Count(steps[i].Act.Op)
		if d := check(i); d != "" {
			return fmt.Sprintf("step %d %+v: %s", i, steps[i].Act, d), i
		}
		if steps[i].Act.Op == "IntermediateRoot" {
			if p := m.CheckRoots(steps[i].St.World()); len(p) > 0 {
				return fmt.Sprintf("step %d IntermediateRoot: %v", i, p), i
			}
		}
	}
	// every behaviour ends with a root check of whatever state it reached
	last := steps[len(steps)-1]
	if last.Act.Op == "Finalise" || last.Act.Op == "init" {
		m.LastRoot = m.SDB.IntermediateRoot(m.R)
		if p := m.CheckRoots(last.St.World()); len(p) > 0 {
			return fmt.Sprintf("final IntermediateRoot: %v", p), len(steps) - 1
		}
	}
	return "", 0
}

func universeOf(steps []step, ripemd int) *sk.Universe {
	st := steps[0].St
	return &sk.Universe{NA: len(st.Acc), NS: len(st.Acc[0].St), Ripemd: ripemd}
}

func runBehaviours(bs [][]step, ripemd int, sum *tl.Summary, what string) {
	distinct := map[string]bool{}
	for i, b := range bs {
		if len(b) == 0 {
			continue
		}
		u := universeOf(b, ripemd)
		cold := i%2 == 1
		sum.Evaluations++
		if d, at := replay(u, b, i, cold, sum); d != "" {
			sum.Violate(fmt.Sprintf("StateDB diverges from StateDB.tla (%s %d, rules %s, cold=%v): %s", what, i, b[0].Act.Rules, cold, d),
				tl.M{"behaviour": b[:at+1], "universe": u, "cold": cold, "env": i % 4})
		}
		key := ""
		for _, s := range b[1:] {
			key += fmt.Sprintf("%s.%d.%d.%d.%d;", s.Act.Op, s.Act.A, s.Act.K, s.Act.V, s.Act.I)
		}
		if !distinct[b[0].St.Key()+key] && len(b) > 1 {
			distinct[b[0].St.Key()+key] = true
			sum.Distinct++
		}
		if i%97 == 0 {
			acts := []sk.Act{}
			for _, s := range b {
				acts = append(acts, s.Act)
			}
			sum.Sample(tl.M{"behaviour": acts, "final": b[len(b)-1].St})
		}
	}
	sum.Traces = len(bs)
}

// ---- paths mode: cover all edges of the state graph ----

type edge struct {
	From json.RawMessage `json:"from"`
	Act  sk.Act          `json:"act"`
	To   json.RawMessage `json:"to"`
	Pto  sk.Proj         `json:"pto"`
}

type nodeInfo struct {
	W    sk.World `json:"w"`
	Intx bool     `json:"intx"`
	Txn  int      `json:"txn"`
	R    struct {
		Name string `json:"name"`
	} `json:"r"`
	Logs []any `json:"logs"`
}

func runPaths(in string, ripemd, maxPaths int, seed int64, sum *tl.Summary) {
	var edges []edge
	tl.ReadJSON(in, &edges)
	id := map[string]int{}
	var raw []json.RawMessage
	nid := func(r json.RawMessage) int {
		// TLC prints the fields of equal records in different orders: canonicalise
		var v any
		if err := json.Unmarshal(r, &v); err != nil {
			tl.Fatal("node: %v", err)
		}
		c, _ := json.Marshal(v)
		k := string(c)
		if v, ok := id[k]; ok {
			return v
		}
		id[k] = len(raw)
		raw = append(raw, r)
		return len(raw) - 1
	}
	type e2 struct{ u, v, idx int }
	es := make([]e2, len(edges))
	out := map[int][]int{}
	for i := range edges {
		es[i] = e2{nid(edges[i].From), nid(edges[i].To), i}
		out[es[i].u] = append(out[es[i].u], i)
	}
	// initial states: not in a transaction, no transaction finalised yet, never the target of an edge
	isTarget := make([]bool, len(raw))
	for _, e := range es {
		isTarget[e.v] = true
	}
	parent := make([]int, len(raw)) // edge index leading to the node in the BFS tree, -1 = root, -2 = unreached
	depth := make([]int, len(raw))
	for i := range parent {
		parent[i] = -2
	}
	var queue []int
	for n := range raw {
		if !isTarget[n] {
			parent[n] = -1
			queue = append(queue, n)
		}
	}
	if len(queue) == 0 {
		tl.Fatal("no initial state among %d nodes", len(raw))
	}
	for len(queue) > 0 {
		n := queue[0]
		queue = queue[1:]
		for _, ei := range out[n] {
			if v := es[ei].v; parent[v] == -2 {
				parent[v] = ei
				depth[v] = depth[n] + 1
				queue = append(queue, v)
			}
		}
	}
	pathTo := func(n int) []int { // edge indexes from the root to n
		var p []int
		for parent[n] >= 0 {
			p = append(p, parent[n])
			n = es[parent[n]].u
		}
		for i, j := 0, len(p)-1; i < j; i, j = i+1, j-1 {
			p[i], p[j] = p[j], p[i]
		}
		return p
	}
	// choose paths: deepest edges first, skip edges already covered as part of an earlier path
	order := make([]int, len(es))
	for i := range order {
		order[i] = i
	}
	sort.SliceStable(order, func(a, b int) bool { return depth[es[order[a]].u] > depth[es[order[b]].u] })
	covered := make([]bool, len(es))
	var paths [][]int
	for _, ei := range order {
		if covered[ei] || parent[es[ei].u] == -2 {
			continue
		}
		p := append(pathTo(es[ei].u), ei)
		for _, x := range p {
			covered[x] = true
		}
		paths = append(paths, p)
	}
	total := len(paths)
	if maxPaths > 0 && len(paths) > maxPaths {
		r := tl.Rand(seed)
		r.Shuffle(len(paths), func(i, j int) { paths[i], paths[j] = paths[j], paths[i] })
		paths = paths[:maxPaths]
	}
	var bs [][]step
	usedEdges := map[int]bool{}
	probes := 0
	for _, p := range paths {
		var ni nodeInfo
		root := es[p[0]].u
		if err := json.Unmarshal(raw[root], &ni); err != nil {
			tl.Fatal("node: %v", err)
		}
		if ni.Intx || ni.Txn != 0 || len(ni.Logs) != 0 {
			tl.Fatal("root of a path is not an initial state: %s", raw[root])
		}
		init := step{Act: sk.Act{Op: "init", Rules: ni.R.Name}, St: initialProj(ni.W)}
		b := []step{init}
		for _, ei := range p {
			b = append(b, step{Act: edges[ei].Act, St: edges[ei].Pto})
			usedEdges[ei] = true
		}
		// probe: the model identifies states that the implementation reaches with different
		// hidden state (journal, dirty sets); ending the transaction makes that state observable
		last := es[p[len(p)-1]]
		if edges[last.idx].Act.Op != "Finalise" && edges[last.idx].Act.Op != "IntermediateRoot" {
			for _, ei := range out[last.v] {
				if edges[ei].Act.Op == "Finalise" {
					b = append(b, step{Act: edges[ei].Act, St: edges[ei].Pto})
					probes++
					break
				}
			}
		}
		bs = append(bs, b)
	}
	runBehaviours(bs, ripemd, sum, "path")
	sum.Extra["graph_nodes"] = len(raw)
	sum.Extra["graph_edges"] = len(es)
	sum.Extra["paths_total"] = total
	sum.Extra["paths_replayed"] = len(paths)
	sum.Extra["edges_replayed"] = len(usedEdges)
	sum.Extra["finalise_probes"] = probes
	sum.Distinct = len(usedEdges)
	sum.Rule = fmt.Sprintf("every transition of the TLC state graph (%d nodes, %d edges) is covered by a path from an initial state (%d paths, %d replayed on fresh StateDBs, each extended by Finalise); distinct = distinct graph edges executed", len(raw), len(es), total, len(paths))
}

// initialProj is Proj(Open(r, w)).
func initialProj(w sk.World) sk.Proj {
	na, ns := len(w), len(w[0].St)
	p := sk.Proj{Acc: make([]sk.AccProj, na), Trn: make([][]int64, na), Ala: make([]bool, na), Als: make([][]bool, na), Logs: []sk.LogProj{}}
	for i, ac := range w {
		cst := make([]int64, ns)
		if ac.Ex {
			copy(cst, ac.St)
		}
		p.Acc[i] = sk.AccProj{Ex: ac.Ex, Nonce: ac.Nonce, Bal: ac.Bal, Code: ac.Code, St: append([]int64{}, ac.St...), Cst: cst}
		p.Trn[i] = make([]int64, ns)
		p.Als[i] = make([]bool, ns)
	}
	return p
}

// ---- record mode ----

func runRecord(path string, seed int64, ntraces, steps, na, ns, ripemd int, sum *tl.Summary) {
	r := tl.Rand(seed)
	tr := tl.NewTrace(path)
	defer tr.Close()
	u := &sk.Universe{NA: na, NS: ns, Ripemd: ripemd}
	shapes := map[string]bool{}
	emit := func(act sk.Act, st sk.Proj, ok bool, extra tl.M) {
		ev := tl.M{"op": act.Op, "a": act.A, "k": act.K, "v": act.V, "i": act.I, "st": st, "ok": ok}
		for k, v := range extra {
			ev[k] = v
		}
		tr.Emit(ev)
	}
	for t := 0; t < ntraces; t++ {
		rules := sk.RuleNames[(t+int(seed))%4]
		cold := (t/4)%2 == 1
		g := sk.DefaultGen()
		w := u.RandomWorld(r, g.MaxCode)
		if t%5 == 0 {
			for i := range w {
				w[i] = sk.Account{St: make([]int64, ns)}
			}
		}
		env := envFor(t / 8)
		m, err := sk.NewMachine(u, env, rules, w)
		if err != nil {
			sum.Violate("opening a committed base world: "+err.Error(), tl.M{"world": w, "rules": rules})
			env.Close()
			continue
		}
		p, problems := m.Project(cold)
		emit(sk.Act{Op: "reset"}, p, len(problems) == 0, tl.M{"rules": rules, "world": w})
		shape := rules
		for i := 0; i < steps; i++ {
			act := g.Next(r, m, &p)
			if i == steps-1 && m.InTx {
				act = sk.Act{Op: "IntermediateRoot"}
			}
			if err := m.Apply(act); err != nil {
				tl.Fatal("%v", err)
			}
			p, problems = m.Project(cold)
			ok := len(problems) == 0
			var rootProblems []string
			if act.Op == "IntermediateRoot" {
				// the reference root is computed from the projected world, which the trace
				// specification requires to be the model's world at this step
				rootProblems = m.CheckRoots(p.World())
				ok = ok && len(rootProblems) == 0
			}
			if !ok {
				sum.Notes = append(sum.Notes, fmt.Sprintf("trace %d step %d %+v: %v %v", t, i, act, problems, rootProblems))
			}
			emit(act, p, ok, nil)
			sum.Count(act.Op)
			shape += act.Op[:2]
			if !ok {
				break // the trace is rejected at this event
			}
			if t == 0 && i < 4 {
				sum.Sample(tl.M{"op": act.Op, "a": act.A, "k": act.K, "v": act.V, "st": p})
			}
		}
		env.Close()
		sum.Traces++
		sum.Evaluations++
		if !shapes[shape] {
			shapes[shape] = true
			sum.Distinct++
		}
	}
	sum.Steps = tr.N
	sum.Rule = fmt.Sprintf("seeded random histories on real StateDBs (%d addresses, %d slots, 4 rule sets, hash/path scheme with and without snapshot tree, warm and cold projection); distinct = distinct operation-name sequences", na, ns)
}

func main() {
	mode := flag.String("mode", "record", "mbt|paths|record")
	in := flag.String("in", "", "input json (mbt: list of behaviours, paths: list of edges)")
	trace := flag.String("trace", "trace.ndjson", "output trace (mode record)")
	out := flag.String("out", "summary.json", "summary output")
	n := flag.Int("n", 40, "number of traces")
	steps := flag.Int("steps", 120, "steps per trace")
	na := flag.Int("na", 3, "addresses (record)")
	ns := flag.Int("ns", 2, "slots (record)")
	ripemd := flag.Int("ripemd", 0, "model address mapped to 0x03")
	maxPaths := flag.Int("maxpaths", 0, "replay at most this many paths (0 = all)")
	flag.Parse()
	seed := int64(tl.EnvInt("VERIF_SEED", 1))
	sum := tl.NewSummary("c13", *mode, seed)
	switch *mode {
	case "mbt":
		var bs [][]step
		tl.ReadJSON(*in, &bs)
		runBehaviours(bs, *ripemd, sum, "behaviour")
		sum.Rule = "behaviours sampled by TLC -simulate from MCStateDB replayed on fresh StateDBs, all observables compared after every step; distinct = distinct (initial state, action sequence)"
		sum.Mode = "replay"
	case "paths":
		runPaths(*in, *ripemd, *maxPaths, seed, sum)
		sum.Mode = "replay"
	case "record":
		runRecord(*trace, seed, *n, *steps, *na, *ns, *ripemd, sum)
	case "probe":
		// Finding C13-F1 (fixed in /repo by 986a824788): StateDB.SetCode journalled the code CACHED in the
		// state object, not the account's code.  The fixed scenario stays as a deterministic behaviour:
		// Snapshot; SetCode; RevertToSnapshot on an account whose code was never read must restore the code.
		lost := observe()
		sum.Extra["setcode_revert_loses_uncached_code"] = lost
		sum.Evaluations, sum.Distinct, sum.Steps = 2, 1, 2
		sum.Mode = "replay"
		sum.Rule = "Snapshot; SetCode; RevertToSnapshot on a committed contract, with and without a preceding code read"
		if lost {
			sum.Violate("StateDB diverges from StateDB.tla (finding C13-F1): Snapshot; SetCode(a1, c2); RevertToSnapshot on an account whose code was not read before leaves the account without code; the reference model restores the committed code",
				tl.M{"replay": "spec/state/findings/C13-F1.json", "behaviour": []string{"init cancun a1={nonce 1, bal 1, code 1, st [1]}", "BeginTx", "Snapshot", "SetCode(a1, 2) without GetCode", "Revert(1)"}})
		}
	default:
		tl.Fatal("bad mode")
	}
	sum.Write(*out)
	if len(sum.Violations) > 0 {
		os.Exit(1)
	}
}

// observe reproduces a behaviour of the raw StateDB API that lies outside the histories the
// check generates (documented in spec/state/NOTES.md).  It returns true if the code of the
// account is lost.
func observe() bool {
	u := &sk.Universe{NA: 1, NS: 1}
	w := sk.World{{Ex: true, Nonce: 1, Bal: 1, Code: 1, St: []int64{1}}}
	lost := false
	for _, preload := range []bool{true, false} {
		env := sk.NewEnv("hash", false)
		m, err := sk.NewMachine(u, env, "cancun", w)
		if err != nil {
			tl.Fatal("%v", err)
		}
		addr := u.Addr(1)
		m.Apply(sk.Act{Op: "BeginTx", A: 1})
		id := m.SDB.Snapshot()
		if preload {
			m.SDB.GetCode(addr)
		}
		m.SDB.SetCode(addr, sk.Code(2), 0)
		m.SDB.RevertToSnapshot(id)
		got := sk.CodeID(m.SDB.GetCode(addr))
		fmt.Printf("SetCode on an account whose code is only in the database (GetCode before: %v), then revert: code id now %d (committed code id 1)\n", preload, got)
		if !preload && got != 1 {
			lost = true
		}
		if preload && got != 1 {
			tl.Fatal("probe: code lost although it was read before")
		}
		env.Close()
	}
	return lost
}
