// c36 drives the block builder (miner.BuildPayload -> generateWork -> commitTransactions) for
// property C36 (blocks built locally are valid blocks on import).
//
//	-mode cases -in cases.json   realise every TLC-generated pool scenario of MCBuilder.tla on a real
//	                              BlockChain + miner with a harness-owned txpool.SubPool serving the
//	                              abstract pool snapshot, compare the included / tried-and-reverted
//	                              transactions with the model, import the block on a second chain
//	                              instance (InsertBlockWithoutSetHead, with and without the attached
//	                              access list) and submit it to catalyst NewPayloadVx => VALID (R)
//	-mode random                  full engine-API loop on an eth service with the real legacypool and
//	                              blobpool: random pools, ForkchoiceUpdated+attributes, GetPayload,
//	                              NewPayload => VALID, import on a second chain (V)
//
// both modes append one "build" event per built block to the ndjson trace, carrying the pool
// snapshot with the per-transaction outcomes measured by re-execution; BuilderTrace.tla recomputes the
// commitTransactions loop on it.
package main

import (
	"context"
	"crypto/sha256"
	"errors"
	"flag"
	"fmt"
	"math/big"
	"os"
	"sort"
	"strings"
	"time"

	"github.com/ethereum/go-ethereum/beacon/engine"
	"github.com/ethereum/go-ethereum/common"
	"github.com/ethereum/go-ethereum/common/hexutil"
	"github.com/ethereum/go-ethereum/consensus/misc/eip1559"
	"github.com/ethereum/go-ethereum/consensus/misc/eip4844"
	"github.com/ethereum/go-ethereum/core"
	"github.com/ethereum/go-ethereum/core/txpool"
	"github.com/ethereum/go-ethereum/core/types"
	"github.com/ethereum/go-ethereum/core/vm"
	"github.com/ethereum/go-ethereum/crypto/kzg4844"
	"github.com/ethereum/go-ethereum/eth"
	"github.com/ethereum/go-ethereum/eth/catalyst"
	"github.com/ethereum/go-ethereum/eth/ethconfig"
	"github.com/ethereum/go-ethereum/event"
	"github.com/ethereum/go-ethereum/log"
	"github.com/ethereum/go-ethereum/miner"
	"github.com/ethereum/go-ethereum/node"
	"github.com/ethereum/go-ethereum/p2p"
	"github.com/ethereum/go-ethereum/params"
	"github.com/holiman/uint256"
	"verif/harness/blockkit"
	tl "verif/harness/tracelib"
)

// ---------------------------------------------------------------------------------------
// harness-owned subpool serving an abstract pool snapshot

type fakePool struct {
	plain, blob map[common.Address][]*txpool.LazyTransaction
	byHash      map[common.Hash]*types.Transaction
}

func (f *fakePool) Filter(tx *types.Transaction) bool { return true }
func (f *fakePool) FilterType(kind byte) bool         { return true }
func (f *fakePool) Init(gasTip uint64, head *types.Header, reserver txpool.Reserver) error {
	return nil
}
func (f *fakePool) Close() error                         { return nil }
func (f *fakePool) Reset(oldHead, newHead *types.Header) {}
func (f *fakePool) SetGasTip(tip *big.Int)               {}
func (f *fakePool) Has(hash common.Hash) bool            { return f.byHash[hash] != nil }
func (f *fakePool) Get(hash common.Hash) *types.Transaction {
	return f.byHash[hash]
}
func (f *fakePool) GetRLP(hash common.Hash, version uint) []byte    { return nil }
func (f *fakePool) GetMetadata(hash common.Hash) *txpool.TxMetadata { return nil }
func (f *fakePool) ValidateTxBasics(tx *types.Transaction) error    { return nil }
func (f *fakePool) Add(txs []*types.Transaction, sync bool) []error { return make([]error, len(txs)) }
func (f *fakePool) Nonce(addr common.Address) uint64                { return 0 }
func (f *fakePool) Stats() (int, int)                               { return 0, 0 }
func (f *fakePool) Status(hash common.Hash) txpool.TxStatus         { return txpool.TxStatusUnknown }
func (f *fakePool) Clear()                                          {}
func (f *fakePool) ContentFrom(addr common.Address) ([]*types.Transaction, []*types.Transaction) {
	return nil, nil
}
func (f *fakePool) Content() (map[common.Address][]*types.Transaction, map[common.Address][]*types.Transaction) {
	return nil, nil
}
func (f *fakePool) SubscribeTransactions(ch chan<- core.NewTxsEvent, reorgs bool) event.Subscription {
	return event.NewSubscription(func(quit <-chan struct{}) error { <-quit; return nil })
}
func (f *fakePool) Pending(filter txpool.PendingFilter) (map[common.Address][]*txpool.LazyTransaction, int) {
	src := f.plain
	if filter.BlobTxs {
		src = f.blob
	}
	out := make(map[common.Address][]*txpool.LazyTransaction, len(src))
	n := 0
	for a, l := range src {
		if len(l) == 0 {
			continue
		}
		cp := make([]*txpool.LazyTransaction, len(l))
		for i, x := range l {
			c := *x
			cp[i] = &c
		}
		out[a] = cp
		n += len(l)
	}
	return out, n
}

type backend struct {
	bc   *core.BlockChain
	pool *txpool.TxPool
}

func (b *backend) BlockChain() *core.BlockChain { return b.bc }
func (b *backend) TxPool() *txpool.TxPool       { return b.pool }

// ---------------------------------------------------------------------------------------
// abstract transactions

type mtx struct {
	ID    int    `json:"id"`
	Gas   int64  `json:"gas"`
	Used  int64  `json:"used"`
	Exec  int64  `json:"exec"`
	State int64  `json:"state"`
	Blobs int    `json:"blobs"`
	Tip   int64  `json:"tip"`
	Time  int64  `json:"time"`
	Cls   string `json:"cls"`
}

type menv struct {
	Limit     int64 `json:"limit"`
	Floor     int64 `json:"floor"`
	MaxBlobs  int   `json:"maxBlobs"`
	Amsterdam bool  `json:"amsterdam"`
	MaxTxGas  int64 `json:"maxTxGas"`
}

type mrev struct {
	ID  int `json:"id"`
	Idx int `json:"idx"`
}

type mcase struct {
	Env     menv    `json:"env"`
	Plain   [][]mtx `json:"plain"`
	Blob    [][]mtx `json:"blob"`
	Inc     []int   `json:"inc"`
	Rev     []mrev  `json:"rev"`
	GasUsed int64   `json:"gasUsed"`
}

// a chain set: builder chain, importer chain, engine-API service, all on one genesis
type chainSet struct {
	k     *blockkit.Kit
	bc1   *core.BlockChain
	bc2   *core.BlockChain
	node  *node.Node
	eth   *eth.Ethereum
	api   *catalyst.ConsensusAPI
	limit uint64
}

func newEthService(k *blockkit.Kit, mcfg miner.Config) (*node.Node, *eth.Ethereum, error) {
	n, err := node.New(&node.Config{P2P: p2p.Config{NoDiscovery: true, NoDial: true, MaxPeers: 0}})
	if err != nil {
		return nil, nil, err
	}
	ecfg := &ethconfig.Config{Genesis: k.Gspec, SyncMode: ethconfig.FullSync, TrieTimeout: time.Minute, TrieDirtyCache: 64,
		TrieCleanCache: 64, Miner: mcfg, NetworkId: 1337}
	ecfg.TxPool.NoLocals = true
	ecfg.TxPool.PriceLimit = 1
	ecfg.TxPool.AccountSlots = 64
	ecfg.TxPool.GlobalSlots = 4096
	ecfg.TxPool.AccountQueue = 64
	ecfg.TxPool.GlobalQueue = 1024
	ecfg.TxPool.PriceBump = 10
	ecfg.TxPool.Lifetime = time.Hour
	ecfg.BlobPool.Datadir = ""
	ecfg.BlobPool.Datacap = 64 * 1024 * 1024
	ecfg.BlobPool.PriceBump = 100
	es, err := eth.New(n, ecfg)
	if err != nil {
		n.Close()
		return nil, nil, err
	}
	if err := n.Start(); err != nil {
		n.Close()
		return nil, nil, err
	}
	es.SetSynced()
	return n, es, nil
}

func newChainSet(fork string, limit uint64, nkeys int) *chainSet {
	extra := types.GenesisAlloc{}
	k := blockkit.New(fork, nkeys, nil)
	for i := range k.Addrs {
		acc := k.Gspec.Alloc[k.Addrs[i]]
		acc.Nonce = 1 // lets a nonce-too-low transaction be the first of an account
		extra[k.Addrs[i]] = acc
	}
	k = blockkit.New(fork, nkeys, extra)
	k.Gspec.GasLimit = limit
	cs := &chainSet{k: k, limit: limit}
	var err error
	if cs.bc1, _, err = k.NewBlockChain(nil); err != nil {
		tl.Fatal("chain: %v", err)
	}
	if cs.bc2, _, err = k.NewBlockChain(nil); err != nil {
		tl.Fatal("chain: %v", err)
	}
	mc := miner.DefaultConfig
	mc.GasCeil = limit
	if cs.node, cs.eth, err = newEthService(k, mc); err != nil {
		tl.Fatal("eth service: %v", err)
	}
	cs.api = catalyst.NewConsensusAPI(cs.eth)
	return cs
}

func (cs *chainSet) close() {
	cs.bc1.Stop()
	cs.bc2.Stop()
	cs.node.Close()
}

// ---------------------------------------------------------------------------------------
// realising abstract transactions

type realTx struct {
	m    mtx
	tx   *types.Transaction // nil: evicted
	hash common.Hash
	acct int
}

func dummySidecar(n int, tag int, osaka bool) *types.BlobTxSidecar {
	blobs := make([]kzg4844.Blob, n)
	comms := make([]kzg4844.Commitment, n)
	for i := range comms {
		h := sha256.Sum256([]byte(fmt.Sprintf("commitment-%d-%d", tag, i)))
		copy(comms[i][:], h[:])
	}
	version := types.BlobSidecarVersion0
	np := n
	if osaka {
		version = types.BlobSidecarVersion1
		np = n * kzg4844.CellProofsPerBlob
	}
	return types.NewBlobTxSidecar(version, blobs, comms, make([]kzg4844.Proof, np))
}

// realise turns the abstract per-account lists into signed transactions and lazy handles.
// unit: gas of one abstract unit (21000 on the legacy pool).
func (cs *chainSet) realise(lists [][]mtx, firstAcct int, baseFee *big.Int, fp *fakePool, blob bool, all map[int]*realTx) {
	k := cs.k
	sink := k.Addrs[len(k.Addrs)-1] // an existing funded account nobody signs for
	for li, l := range lists {
		acct := firstAcct + li
		key := k.Keys[acct-1]
		from := k.Addrs[acct-1]
		nonce := uint64(1)
		var lz []*txpool.LazyTransaction
		for _, m := range l {
			tip := new(big.Int).Mul(big.NewInt(m.Tip), big.NewInt(params.GWei))
			feeCap := new(big.Int).Add(baseFee, tip)
			n := nonce
			value := big.NewInt(int64(m.ID)) // unique per abstract transaction: no two signed transactions coincide
			to := sink
			if m.Used == m.Gas && m.Gas > 21000 && !blob {
				to = k.C.Burner
			}
			switch m.Cls {
			case "ok", "evicted":
				nonce++
			case "nonceLow":
				n = nonce - 1
			case "invalid":
				if m.ID%2 == 0 {
					n = nonce + 1 // nonce too high
				} else {
					value = new(big.Int).Lsh(big.NewInt(1), 200) // insufficient funds
				}
			}
			var txd types.TxData
			if blob {
				sc := dummySidecar(m.Blobs, m.ID, k.AtLeast("osaka"))
				txd = &types.BlobTx{ChainID: uint256.MustFromBig(k.Config.ChainID), Nonce: n, GasTipCap: uint256.MustFromBig(tip),
					GasFeeCap: uint256.MustFromBig(feeCap), Gas: uint64(m.Gas), To: to, Value: uint256.MustFromBig(value),
					BlobFeeCap: uint256.NewInt(1_000_000_000), BlobHashes: sc.BlobHashes(), Sidecar: sc}
			} else if m.ID%3 == 0 {
				txd = &types.LegacyTx{Nonce: n, GasPrice: feeCap, Gas: uint64(m.Gas), To: &to, Value: value}
			} else {
				txd = &types.DynamicFeeTx{ChainID: k.Config.ChainID, Nonce: n, GasTipCap: tip, GasFeeCap: feeCap, Gas: uint64(m.Gas), To: &to, Value: value}
			}
			tx := types.MustSignNewTx(key, k.Signer, txd)
			for _, o := range all {
				if o.hash == tx.Hash() {
					tl.Fatal("harness bug: abstract transactions %d and %d were realised as the same signed transaction", o.m.ID, m.ID)
				}
			}
			rt := &realTx{m: m, tx: tx, hash: tx.Hash(), acct: acct}
			lt := &txpool.LazyTransaction{Pool: fp, Hash: tx.Hash(), Tx: tx, Time: time.Unix(1_000_000, 0).Add(time.Duration(m.Time) * time.Millisecond),
				GasFeeCap: uint256.MustFromBig(feeCap), GasTipCap: uint256.MustFromBig(tip), Gas: uint64(m.Gas), BlobGas: uint64(m.Blobs) * params.BlobTxBlobGasPerBlob}
			if m.Cls == "evicted" {
				rt.tx, lt.Tx = nil, nil
			} else {
				fp.byHash[tx.Hash()] = tx
			}
			all[m.ID] = rt
			lz = append(lz, lt)
		}
		if blob {
			fp.blob[from] = lz
		} else {
			fp.plain[from] = lz
		}
	}
}

type built struct {
	block    *types.Block
	envelope *engine.ExecutionPayloadEnvelope
	empty    *engine.ExecutionPayloadEnvelope // the transaction-less payload that is always built first
	reverted []*types.Transaction
	revIdx   []uint32
}

func (cs *chainSet) attrs(parent *types.Header, r interface{ Intn(int) int }, rich bool) *miner.BuildPayloadArgs {
	args := &miner.BuildPayloadArgs{Parent: parent.Hash(), Timestamp: parent.Time + 12, FeeRecipient: common.Address{0xfe, 0xe0},
		Random: common.Hash{0x72}, Withdrawals: types.Withdrawals{}, BeaconRoot: &common.Hash{0xbe}, Version: engine.PayloadV3}
	if rich {
		args.Timestamp = parent.Time + uint64(1+r.Intn(20))
		args.FeeRecipient = cs.k.Addrs[r.Intn(len(cs.k.Addrs))]
		args.Random = common.BigToHash(big.NewInt(int64(r.Intn(1 << 30))))
		br := common.BigToHash(big.NewInt(int64(r.Intn(1 << 30))))
		args.BeaconRoot = &br
		for i, n := 0, r.Intn(3); i < n; i++ {
			args.Withdrawals = append(args.Withdrawals, &types.Withdrawal{Index: uint64(i), Validator: uint64(r.Intn(50)),
				Address: cs.k.Addrs[r.Intn(len(cs.k.Addrs))], Amount: uint64(r.Intn(5)) * 100})
		}
	}
	if cs.k.AtLeast("amsterdam") {
		slot := uint64(1)
		if parent.SlotNumber != nil {
			slot = *parent.SlotNumber + 1
		}
		args.SlotNum = &slot
		tgl := cs.limit
		args.TargetGasLimit = &tgl
	}
	return args
}

// build runs miner.BuildPayload on bc with the given pool and waits for the full block.
func build(bc *core.BlockChain, k *blockkit.Kit, sub txpool.SubPool, limit uint64, maxBlobs int, args *miner.BuildPayloadArgs) (*built, error) {
	pool, err := txpool.New(1, bc, []txpool.SubPool{sub})
	if err != nil {
		return nil, err
	}
	defer pool.Close()
	mc := miner.Config{GasCeil: limit, GasPrice: big.NewInt(1), Recommit: 30 * time.Second, MaxBlobsPerBlock: maxBlobs}
	m := miner.New(&backend{bc, pool}, mc, k.Engine())
	p, err := m.BuildPayload(context.Background(), args, false)
	if err != nil {
		return nil, err
	}
	env := p.ResolveFull()
	if env == nil {
		return nil, errors.New("payload resolved to nil")
	}
	blk, _, rtx, ridx := p.FullBlockAndReceipts()
	return &built{block: blk, envelope: env, empty: p.ResolveEmpty(), reverted: rtx, revIdx: ridx}, nil
}

// newPayload submits the envelope through the engine API version of the fork.
func (cs *chainSet) newPayload(b *built) (engine.PayloadStatusV1, error) {
	hashes := []common.Hash{}
	for _, tx := range b.block.Transactions() {
		hashes = append(hashes, tx.BlobHashes()...)
	}
	return cs.submit(b.envelope, hashes, b.block.BeaconRoot())
}

func (cs *chainSet) submit(env *engine.ExecutionPayloadEnvelope, hashes []common.Hash, beaconRoot *common.Hash) (engine.PayloadStatusV1, error) {
	ctx := context.Background()
	ed := *env.ExecutionPayload
	reqs := []hexutil.Bytes{}
	for _, rq := range env.Requests {
		reqs = append(reqs, rq)
	}
	switch {
	case cs.k.AtLeast("amsterdam"):
		return cs.api.NewPayloadV5(ctx, ed, hashes, beaconRoot, reqs)
	case cs.k.AtLeast("prague"):
		return cs.api.NewPayloadV4(ctx, ed, hashes, beaconRoot, reqs)
	default:
		return cs.api.NewPayloadV3(ctx, ed, hashes, beaconRoot)
	}
}

// measure re-executes the block's transactions (and the tried-and-reverted ones at their index) on the
// parent state with the exported core API and returns per-transaction (used, exec, state) and error classes.
type outcome struct {
	used, exec, state int64
	cls               string
}

func measure(bc *core.BlockChain, blk *types.Block, rev []*types.Transaction, revIdx []uint32) (map[common.Hash]outcome, error) {
	parent := bc.GetHeader(blk.ParentHash(), blk.NumberU64()-1)
	sdb, err := bc.StateAt(parent)
	if err != nil {
		return nil, err
	}
	header := blk.Header()
	cfg := bc.Config()
	evm := vm.NewEVM(core.NewEVMBlockContext(header, bc, &header.Coinbase), sdb, cfg, vm.Config{})
	defer evm.Release()
	core.PreExecution(context.Background(), header.ParentBeaconRoot, parent, cfg, evm, header.Number, header.Time)
	gp := core.NewGasPool(header.GasLimit)
	out := map[common.Hash]outcome{}
	tryRev := func(idx int) {
		for j, tx := range rev {
			if int(revIdx[j]) != idx {
				continue
			}
			snap, gsnap := sdb.Snapshot(), gp.Snapshot()
			sdb.SetTxContext(tx.Hash(), idx, uint32(idx+1))
			_, _, err := core.ApplyTransaction(evm, gp, sdb, header, tx)
			cls := "invalid"
			switch {
			case err == nil:
				cls = "ok-but-reverted-by-builder"
			case errors.Is(err, core.ErrNonceTooLow):
				cls = "nonceLow"
			case errors.Is(err, core.ErrGasLimitReached):
				cls = "ok" // executable, but does not fit: the model derives the gas-limit error itself
			}
			sdb.RevertToSnapshot(snap)
			gp.Set(gsnap)
			out[tx.Hash()] = outcome{cls: cls}
		}
	}
	for i, tx := range blk.Transactions() {
		tryRev(i)
		e0, s0, u0 := gp.CumulativeExecution(), gp.CumulativeState(), gp.CumulativeUsed()
		sdb.SetTxContext(tx.Hash(), i, uint32(i+1))
		rc, _, err := core.ApplyTransaction(evm, gp, sdb, header, tx)
		if err != nil {
			return nil, fmt.Errorf("re-execution of included tx %d failed: %w", i, err)
		}
		o := outcome{used: int64(rc.GasUsed), exec: int64(gp.CumulativeExecution() - e0), state: int64(gp.CumulativeState() - s0), cls: "ok"}
		if !cfg.IsAmsterdam(header.Number, header.Time) {
			o.exec, o.state = o.used, 0
			_ = u0
		}
		out[tx.Hash()] = o
	}
	tryRev(len(blk.Transactions()))
	return out, nil
}

// ---------------------------------------------------------------------------------------

type driver struct {
	sum  *tl.Summary
	tr   *tl.Trace
	sets map[string]*chainSet
}

func (d *driver) set(fork string, limit uint64) *chainSet {
	key := fmt.Sprintf("%s/%d", fork, limit)
	if cs, ok := d.sets[key]; ok {
		return cs
	}
	cs := newChainSet(fork, limit, 8)
	d.sets[key] = cs
	return cs
}

// verifyImport imports the built block on the second chain (both processors where applicable) and through
// the engine API.
func (d *driver) verifyImport(cs *chainSet, b *built, label string, replay any) {
	ctx := context.Background()
	blk := b.block
	check := func(what string, err error) {
		if err != nil {
			d.sum.Violate(fmt.Sprintf("%s: block built by the miner rejected by %s: %v", label, what, err), replay)
		}
	}
	// 1. the block object as assembled (Amsterdam: with its access list => parallel processor)
	_, err := cs.bc2.InsertBlockWithoutSetHead(ctx, blk, false)
	check("BlockChain.InsertBlockWithoutSetHead", err)
	d.sum.Count("import")
	// 2. engine API round trip (block re-assembled from the execution payload)
	st, err := cs.newPayload(b)
	if err != nil {
		d.sum.Violate(fmt.Sprintf("%s: engine NewPayload returned an error for a locally built block: %v", label, err), replay)
	} else if st.Status != engine.VALID {
		msg := ""
		if st.ValidationError != nil {
			msg = *st.ValidationError
		}
		d.sum.Violate(fmt.Sprintf("%s: engine NewPayload status %s for a locally built block (%s)", label, st.Status, msg), replay)
	}
	d.sum.Count("newPayload")
	// 2b. the transaction-less payload that BuildPayload always prepares first
	if b.empty != nil && b.empty.ExecutionPayload.BlockHash != blk.Hash() {
		st, err := cs.submit(b.empty, []common.Hash{}, blk.BeaconRoot())
		if err != nil || st.Status != engine.VALID {
			d.sum.Violate(fmt.Sprintf("%s: engine NewPayload on the locally built EMPTY payload: status %s err %v", label, st.Status, err), replay)
		}
		reqs := b.empty.Requests
		if eb, err := engine.ExecutableDataToBlock(*b.empty.ExecutionPayload, []common.Hash{}, blk.BeaconRoot(), reqs); err != nil {
			d.sum.Violate(fmt.Sprintf("%s: empty payload does not convert back to a block: %v", label, err), replay)
		} else if _, err := cs.bc2.InsertBlockWithoutSetHead(ctx, eb, false); err != nil {
			d.sum.Violate(fmt.Sprintf("%s: empty block built by the miner rejected by import: %v", label, err), replay)
		}
		d.sum.Count("empty-payload")
	}
	// 3. the importer's view of the roots equals the builder's header
	if got := cs.eth.BlockChain().GetBlockByHash(blk.Hash()); got == nil {
		d.sum.Violate(fmt.Sprintf("%s: block not stored by the engine API importer", label), replay)
	} else if got.Root() != blk.Root() || got.ReceiptHash() != blk.ReceiptHash() || got.Bloom() != blk.Bloom() || got.GasUsed() != blk.GasUsed() {
		d.sum.Violate(fmt.Sprintf("%s: stored block differs from the built block", label), replay)
	}
	// 4. Amsterdam: sequential processor as well (no attached access list), on a third throw-away chain
	if blk.AccessList() != nil {
		bc3, _, err := cs.k.NewBlockChain(nil)
		if err != nil {
			tl.Fatal("chain: %v", err)
		}
		parentNum := blk.NumberU64() - 1
		if parentNum > 0 {
			var pre types.Blocks
			for h := cs.bc1.GetHeader(blk.ParentHash(), parentNum); h != nil && h.Number.Sign() > 0; h = cs.bc1.GetHeader(h.ParentHash, h.Number.Uint64()-1) {
				pre = append(types.Blocks{blockkit.StripBAL(cs.bc1.GetBlock(h.Hash(), h.Number.Uint64()))}, pre...)
			}
			if _, err := bc3.InsertChain(pre); err != nil {
				tl.Fatal("replica: %v", err)
			}
		}
		_, err = bc3.InsertBlockWithoutSetHead(ctx, blockkit.StripBAL(blk), false)
		check("sequential import (no attached access list)", err)
		bc3.Stop()
		d.sum.Count("import-sequential")
	}
}

func (d *driver) runCase(c mcase, fork string, ci int) {
	cs := d.set(fork, uint64(c.Env.Limit))
	k := cs.k
	label := fmt.Sprintf("%s/case%d", fork, ci)
	parent := cs.bc1.CurrentBlock()
	args := cs.attrs(parent, nil, false)
	hdrBase := eipBaseFee(cs, parent)
	fp := &fakePool{plain: map[common.Address][]*txpool.LazyTransaction{}, blob: map[common.Address][]*txpool.LazyTransaction{}, byHash: map[common.Hash]*types.Transaction{}}
	all := map[int]*realTx{}
	cs.realise(c.Plain, 1, hdrBase, fp, false, all)
	cs.realise(c.Blob, 1+len(c.Plain), hdrBase, fp, true, all)
	b, err := build(cs.bc1, k, fp, uint64(c.Env.Limit), c.Env.MaxBlobs, args)
	replay := tl.M{"case": c, "fork": fork, "index": ci}
	if err != nil {
		d.sum.Violate(fmt.Sprintf("%s: BuildPayload failed: %v", label, err), replay)
		return
	}
	d.sum.Evaluations++
	d.sum.Count("build:" + fork)
	byHash := map[common.Hash]int{}
	for id, rt := range all {
		byHash[rt.hash] = id
	}
	var inc []int
	for _, tx := range b.block.Transactions() {
		inc = append(inc, byHash[tx.Hash()])
	}
	var rev []mrev
	for i, tx := range b.reverted {
		rev = append(rev, mrev{byHash[tx.Hash()], int(b.revIdx[i])})
	}
	// R: the model's prediction is exact where the abstract gas numbers are the real ones (legacy gas pool)
	if !k.AtLeast("amsterdam") {
		if fmt.Sprint(inc) != fmt.Sprint(c.Inc) || fmt.Sprint(rev) != fmt.Sprint(c.Rev) || int64(b.block.GasUsed()) != c.GasUsed {
			d.sum.Violate(fmt.Sprintf("%s: miner included %v (tried and reverted %v, gas used %d), specification: included %v (reverted %v, gas used %d)",
				label, inc, rev, b.block.GasUsed(), c.Inc, c.Rev, c.GasUsed), replay)
		}
	}
	// V: event with measured outcomes
	d.emitBuild(cs, b, c.Env.MaxBlobs, c.Plain, c.Blob, all, inc, rev, label, replay)
	d.verifyImport(cs, b, label, replay)
	if len(d.sum.Samples) < 3 && len(inc) > 1 {
		d.sum.Sample(tl.M{"label": label, "env": c.Env, "plain": c.Plain, "blob": c.Blob, "included": inc, "reverted": rev})
	}
}

func eipBaseFee(cs *chainSet, parent *types.Header) *big.Int {
	// the base fee of the block to be built: ask the chain maker's rule through a dry header
	h := &types.Header{ParentHash: parent.Hash(), Number: new(big.Int).Add(parent.Number, common.Big1), GasLimit: parent.GasLimit, Time: parent.Time + 12}
	_ = h
	return calcBaseFee(cs.k.Config, parent)
}

// emitBuild writes the "build" event: the pool snapshot with measured outcomes and the observed result.
func (d *driver) emitBuild(cs *chainSet, b *built, maxBlobs int, plain, blob [][]mtx, all map[int]*realTx, inc []int, rev []mrev, label string, replay any) {
	out, err := measure(cs.bc1, b.block, b.reverted, b.revIdx)
	if err != nil {
		d.sum.Violate(fmt.Sprintf("%s: %v", label, err), replay)
		return
	}
	fill := func(lists [][]mtx) [][]mtx {
		res := make([][]mtx, len(lists))
		for i, l := range lists {
			res[i] = make([]mtx, len(l))
			for j, m := range l {
				if rt := all[m.ID]; rt != nil && rt.tx != nil {
					if o, ok := out[rt.hash]; ok {
						if o.cls == "ok" && o.used > 0 {
							m.Used, m.Exec, m.State = o.used, o.exec, o.state
						}
						if o.cls != "ok" || m.Cls == "" {
							m.Cls = o.cls
						}
					}
				}
				if m.Cls == "" {
					m.Cls = "ok"
				}
				if !cs.k.AtLeast("amsterdam") {
					m.Exec, m.State = m.Used, 0
				}
				res[i][j] = m
			}
		}
		return res
	}
	if inc == nil {
		inc = []int{}
	}
	if rev == nil {
		rev = []mrev{}
	}
	proto := eip4844.MaxBlobsPerBlock(cs.k.Config, b.block.Time())
	ev := tl.M{"op": "build", "label": label,
		"env":   menv{Limit: int64(b.block.GasLimit()), Floor: int64(params.TxGas), MaxBlobs: maxBlobs, Amsterdam: cs.k.AtLeast("amsterdam"), MaxTxGas: int64(params.MaxTxGas)},
		"plain": fill(plain), "blob": fill(blob), "inc": inc, "rev": rev,
		"gasUsed": int64(b.block.GasUsed()), "protoMaxBlobs": proto}
	d.tr.Emit(ev)
	d.sum.Traces++
}

func main() {
	mode := flag.String("mode", "cases", "cases|random")
	in := flag.String("in", "", "cases json")
	trace := flag.String("trace", "trace.ndjson", "output trace")
	out := flag.String("out", "summary.json", "summary output")
	forks := flag.String("forks", "cancun,prague,osaka,amsterdam", "forks")
	rounds := flag.Int("rounds", 4, "blocks per fork (mode random)")
	ntx := flag.Int("txs", 20, "pool size per round (mode random)")
	flag.Parse()
	log.SetDefault(log.NewLogger(log.DiscardHandler()))
	seed := int64(tl.EnvInt("VERIF_SEED", 1))
	sum := tl.NewSummary("c36", *mode, seed)
	d := &driver{sum: sum, tr: tl.NewTrace(*trace), sets: map[string]*chainSet{}}
	fl := strings.Split(*forks, ",")
	switch *mode {
	case "cases":
		var cases []mcase
		tl.ReadJSON(*in, &cases)
		seen := map[string]bool{}
		for ci, c := range cases {
			// every case on one legacy-pool fork (rotating) and on amsterdam
			legacy := []string{}
			for _, f := range fl {
				if f != "amsterdam" {
					legacy = append(legacy, f)
				}
			}
			if len(legacy) > 0 {
				d.runCase(c, legacy[(ci+int(seed))%len(legacy)], ci)
			}
			for _, f := range fl {
				if f == "amsterdam" {
					d.runCase(c, f, ci)
				}
			}
			key := fmt.Sprint(c.Inc, c.Rev, len(c.Plain), len(c.Blob))
			if !seen[key] {
				seen[key] = true
				sum.Distinct++
			}
		}
		sum.Rule = "every TLC-sampled pool scenario realised on a real BlockChain + miner (harness SubPool) on a legacy-gas fork and on amsterdam; distinct = distinct (included, reverted) outcomes"
	case "random":
		d.runRandom(fl, *rounds, *ntx, seed)
	default:
		tl.Fatal("bad mode")
	}
	d.tr.Close()
	for _, cs := range d.sets {
		cs.close()
	}
	sum.Steps = d.tr.N
	sum.Write(*out)
	_ = sort.Ints
	if len(sum.Violations) > 0 {
		os.Exit(1)
	}
}

func calcBaseFee(cfg *params.ChainConfig, parent *types.Header) *big.Int {
	return eip1559.CalcBaseFee(cfg, parent)
}

// runRandom: real pools (legacypool + blobpool of an eth service), random interacting transactions,
// several consecutive blocks per fork.
func (d *driver) runRandom(forks []string, rounds, ntx int, seed int64) {
	shapes := map[string]bool{}
	for fi, fork := range forks {
		r := tl.Rand(seed*7919 + int64(fi))
		cs := d.set(fork, 8_000_000)
		k := cs.k
		k.Senders = 5 // key 5 never sends: it is the set-code authority
		bc := cs.eth.BlockChain()
		pool := cs.eth.TxPool()
		for round := 0; round < rounds; round++ {
			label := fmt.Sprintf("%s/random#%d", fork, round+1)
			parent := bc.CurrentBlock()
			baseFee := calcBaseFee(k.Config, parent)
			// fill the pool
			nonces := map[int]uint64{}
			rejected := 0
			for i := 0; i < ntx; i++ {
				sp := k.RandTx(r)
				if _, ok := nonces[sp.From]; !ok {
					nonces[sp.From] = pool.PoolNonce(k.Addrs[sp.From]) // next nonce on top of the executable transactions in the pool
				}
				sp.Tip = int64(1 + r.Intn(40))
				if r.Intn(3) == 0 {
					sp.Gas = uint64(100_000 + r.Intn(8)*1_000_000)
				}
				var authNonce uint64
				if sp.AuthKey >= 0 {
					// the pools allow a single in-flight transaction for accounts with a (pending) delegation,
					// so delegations are always signed by the non-sending key 5
					sp.AuthKey, sp.AuthSelf = 5, false
					to := k.Addrs[5]
					sp.To = &to
					if _, ok := nonces[sp.AuthKey]; !ok {
						nonces[sp.AuthKey] = pool.PoolNonce(k.Addrs[sp.AuthKey])
					}
					authNonce = nonces[sp.AuthKey]
				}
				tx := k.Sign(sp, nonces[sp.From], new(big.Int).Mul(baseFee, big.NewInt(2)), authNonce)
				if errs := pool.Add([]*types.Transaction{tx}, true); errs[0] != nil {
					rejected++
					d.sum.Count("pool-reject:" + sp.Kind + ":" + strings.SplitN(errs[0].Error(), ":", 2)[0])
					if os.Getenv("C36_DEBUG") != "" {
						pe, qu := pool.ContentFrom(k.Addrs[sp.From])
						var pn []uint64
						for _, t := range pe {
							pn = append(pn, t.Nonce())
						}
						st, _ := bc.State()
						fmt.Fprintf(os.Stderr, "reject %s round %d from %d nonce %d poolNonce %d state %d pending %v queued %d: %v\n", fork, round, sp.From, nonces[sp.From], pool.PoolNonce(k.Addrs[sp.From]), st.GetNonce(k.Addrs[sp.From]), pn, len(qu), errs[0])
					}
					continue
				}
				nonces[sp.From]++
				if sp.AuthKey >= 0 {
					nonces[sp.AuthKey]++
				}
				d.sum.Count("tx:" + sp.Kind)
			}
			d.sum.Counts["pool-rejected"] += rejected
			args := cs.attrs(parent, r, true)
			maxBlobs := 0
			// snapshot of what the miner will see
			filter := txpool.PendingFilter{MinTip: uint256.NewInt(1), BaseFee: uint256.MustFromBig(baseFee)}
			if k.AtLeast("osaka") && !k.AtLeast("amsterdam") {
				filter.GasLimitCap = params.MaxTxGas
			}
			pendPlain, _ := pool.Pending(filter)
			plain, all, ok := snapshotLists(pendPlain, baseFee, 0)
			if !ok {
				d.sum.Count("skipped-tie")
				continue
			}
			p, err := cs.eth.Miner().BuildPayload(context.Background(), args, false)
			replay := tl.M{"label": label, "seed": seed}
			if err != nil {
				d.sum.Violate(fmt.Sprintf("%s: BuildPayload failed: %v", label, err), replay)
				break
			}
			env := p.ResolveFull()
			blk, _, rtx, ridx := p.FullBlockAndReceipts()
			if env == nil || blk == nil {
				d.sum.Violate(fmt.Sprintf("%s: no full payload", label), replay)
				break
			}
			b := &built{block: blk, envelope: env, reverted: rtx, revIdx: ridx}
			d.sum.Evaluations++
			d.sum.Count("build:" + fork)
			byHash := map[common.Hash]int{}
			for id, rt := range all {
				byHash[rt.hash] = id
			}
			inc, rev := []int{}, []mrev{}
			for _, tx := range blk.Transactions() {
				inc = append(inc, byHash[tx.Hash()])
			}
			for i, tx := range rtx {
				rev = append(rev, mrev{byHash[tx.Hash()], int(ridx[i])})
			}
			maxBlobs = eip4844.MaxBlobsPerBlock(k.Config, blk.Time())
			cs1 := *cs
			cs1.bc1 = bc
			d.emitBuild(&cs1, b, maxBlobs, plain, nil, all, inc, rev, label, replay)
			// engine API: NewPayload => VALID, then make it the head
			st, err := cs.newPayload(b)
			if err != nil || st.Status != engine.VALID {
				msg := ""
				if st.ValidationError != nil {
					msg = *st.ValidationError
				}
				d.sum.Violate(fmt.Sprintf("%s: engine NewPayload on a locally built block: status %s err %v (%s)", label, st.Status, err, msg), replay)
				break
			}
			d.sum.Count("newPayload")
			fc := engine.ForkchoiceStateV1{HeadBlockHash: blk.Hash()}
			var fcr engine.ForkChoiceResponse
			if k.AtLeast("amsterdam") {
				fcr, err = cs.api.ForkchoiceUpdatedV4(context.Background(), fc, nil, nil)
			} else {
				fcr, err = cs.api.ForkchoiceUpdatedV3(context.Background(), fc, nil)
			}
			if err != nil || fcr.PayloadStatus.Status != engine.VALID {
				d.sum.Violate(fmt.Sprintf("%s: forkchoiceUpdated to the locally built block: status %s err %v", label, fcr.PayloadStatus.Status, err), replay)
				break
			}
			if err := pool.Sync(); err != nil {
				tl.Fatal("pool sync: %v", err)
			}
			if os.Getenv("C36_DEBUG") != "" {
				time.Sleep(500 * time.Millisecond)
				for i := 0; i < 5; i++ {
					pe, _ := pool.ContentFrom(k.Addrs[i])
					var pn []uint64
					for _, t := range pe {
						pn = append(pn, t.Nonce())
					}
					fmt.Fprintf(os.Stderr, "after sync %s round %d key %d poolNonce %d pending %v\n", fork, round, i, pool.PoolNonce(k.Addrs[i]), pn)
				}
			}
			// second chain instance: plain InsertChain
			if _, err := cs.bc2.InsertChain(types.Blocks{blk}); err != nil {
				d.sum.Violate(fmt.Sprintf("%s: block built by the miner rejected by InsertChain on a second chain: %v", label, err), replay)
				break
			}
			d.sum.Count("import")
			if h := cs.bc2.CurrentBlock(); h.Hash() != blk.Hash() || h.Root != blk.Root() {
				d.sum.Violate(fmt.Sprintf("%s: second chain head differs after import", label), replay)
			}
			shape := fmt.Sprintf("%s/%d/%d", fork, len(inc), len(rev))
			if !shapes[shape] {
				shapes[shape] = true
				d.sum.Distinct++
			}
			if len(d.sum.Samples) < 3 {
				d.sum.Sample(tl.M{"label": label, "pool": len(all), "included": len(inc), "reverted": len(rev), "gasUsed": blk.GasUsed(), "withdrawals": len(blk.Withdrawals())})
			}
		}
	}
	d.sum.Rule = "random pools on the real legacypool of an eth service, consecutive blocks per fork, random payload attributes; distinct = distinct (fork, #included, #reverted)"
}

// snapshotLists converts a Pending() result into abstract per-account lists (ids dense from firstID+1;
// tips and times replaced by order-preserving ranks). ok=false if two heads tie on (tip, time).
func snapshotLists(pend map[common.Address][]*txpool.LazyTransaction, baseFee *big.Int, firstID int) ([][]mtx, map[int]*realTx, bool) {
	addrs := make([]common.Address, 0, len(pend))
	for a := range pend {
		addrs = append(addrs, a)
	}
	sort.Slice(addrs, func(i, j int) bool { return addrs[i].Cmp(addrs[j]) < 0 })
	bf := uint256.MustFromBig(baseFee)
	type ent struct {
		tip  *uint256.Int
		time time.Time
	}
	var tips []*uint256.Int
	var times []time.Time
	eff := func(l *txpool.LazyTransaction) *uint256.Int {
		t := new(uint256.Int).Sub(l.GasFeeCap, bf)
		if t.Gt(l.GasTipCap) {
			t = l.GasTipCap
		}
		return t
	}
	for _, a := range addrs {
		for _, l := range pend[a] {
			tips = append(tips, eff(l))
			times = append(times, l.Time)
		}
	}
	sort.Slice(tips, func(i, j int) bool { return tips[i].Lt(tips[j]) })
	sort.Slice(times, func(i, j int) bool { return times[i].Before(times[j]) })
	for i := 1; i < len(times); i++ {
		if times[i].Equal(times[i-1]) {
			return nil, nil, false
		}
	}
	tipRank := func(t *uint256.Int) int64 {
		rk := int64(0)
		for i := range tips {
			if i == 0 || !tips[i].Eq(tips[i-1]) {
				rk++
			}
			if tips[i].Eq(t) {
				return rk
			}
		}
		return 0
	}
	timeRank := func(t time.Time) int64 {
		for i := range times {
			if times[i].Equal(t) {
				return int64(i + 1)
			}
		}
		return 0
	}
	all := map[int]*realTx{}
	var lists [][]mtx
	id := firstID
	for ai, a := range addrs {
		var l []mtx
		for _, lt := range pend[a] {
			id++
			m := mtx{ID: id, Gas: int64(lt.Gas), Used: int64(lt.Gas), Exec: int64(lt.Gas), Blobs: int(lt.BlobGas / params.BlobTxBlobGasPerBlob),
				Tip: tipRank(eff(lt)), Time: timeRank(lt.Time)}
			tx := lt.Resolve()
			all[id] = &realTx{m: m, tx: tx, hash: lt.Hash, acct: ai + 1}
			l = append(l, m)
		}
		lists = append(lists, l)
	}
	return lists, all, true
}
