// c11 binds spec/trie/TrieGen.tla to triedb.GenerateTrie (property C11: trie generation from
// flat state reproduces the canonical trie).
//
//	-mode cases  -in cases.json -scheme S   every layout TLC enumerated (accounts per partition,
//	                                        stale roots, dangling storage before/between/after) is
//	                                        written with rawdb.WriteAccountSnapshot/WriteStorageSnapshot
//	                                        and generated; counters, corrected flat state, node key
//	                                        space must equal the specification's, the result must open
//	                                        at the canonical root and read back the corrected state,
//	                                        and a different expected root must be reported (R)
//	-mode record -trace t.ndjson -scheme S  large random flat states (batch flushes, all partitions),
//	                                        one event per run validated by TrieGenTrace.tla (V)
package main

import (
	"bytes"
	"flag"
	"fmt"
	"os"
	"runtime"
	"sort"

	"github.com/ethereum/go-ethereum/common"
	"github.com/ethereum/go-ethereum/core/rawdb"
	"github.com/ethereum/go-ethereum/core/types"
	"github.com/ethereum/go-ethereum/crypto"
	"github.com/ethereum/go-ethereum/ethdb"
	"github.com/ethereum/go-ethereum/rlp"
	"github.com/ethereum/go-ethereum/trie"
	"github.com/ethereum/go-ethereum/trie/trienode"
	"github.com/ethereum/go-ethereum/triedb"
	"github.com/ethereum/go-ethereum/triedb/database"
	"github.com/holiman/uint256"
	tl "verif/harness/tracelib"
	"verif/harness/triekit"
)


type caseAcct struct {
	Key   []int `json:"key"`
	Stale bool  `json:"stale"`
}
type caseSlot struct {
	Owner []int `json:"owner"`
	Slot  []int `json:"slot"`
	Val   int   `json:"val"`
}
type casePaths struct {
	Owner []int   `json:"owner"`
	Paths [][]int `json:"paths"`
}
type genCase struct {
	Accounts   []caseAcct  `json:"accounts"`
	Storage    []caseSlot  `json:"storage"`
	FlatA      [][]int     `json:"flatA"`
	StaleAfter [][]int     `json:"staleAfter"`
	FlatS      []caseSlot  `json:"flatS"`
	Scanned    int64       `json:"scanned"`
	Updated    int64       `json:"updated"`
	Deleted    int64       `json:"deleted"`
	AcctPaths  [][]int     `json:"acctPaths"`
	StorPaths  []casePaths `json:"storPaths"`
	Kind       string      `json:"kind"`
}

// model keys (2 nibbles, or full 64-nibble slot hashes) are padded with zero nibbles to 32 bytes
func h(nibs []int) common.Hash { return common.BytesToHash(triekit.KeyBytes(nibs, 64-len(nibs))) }

// account hashes get a fixed non-zero tail instead (the all-zero hash is the "account trie"
// owner sentinel of the node schemes and no real account hash)
func ha(nibs []int) common.Hash {
	k := h(nibs)
	for i := (len(nibs) + 1) / 2; i < len(k); i++ {
		k[i] = 0x5a
	}
	if len(nibs)%2 == 1 {
		k[len(nibs)/2] |= 0x0a
	}
	return k
}

// flat is a concrete flat state
type flat struct {
	accounts map[common.Hash]*types.StateAccount // with the recorded (possibly stale) root
	stale    map[common.Hash]bool
	storage  map[common.Hash]map[common.Hash][]byte
}

// rawNodeDB reads trie nodes straight from the key-value store (both schemes), verifying hashes.
type rawNodeDB struct {
	db     ethdb.KeyValueReader
	scheme string
}

func (r rawNodeDB) NodeReader(root common.Hash) (database.NodeReader, error) { return r, nil }
func (r rawNodeDB) Node(owner common.Hash, path []byte, hash common.Hash) ([]byte, error) {
	blob := rawdb.ReadTrieNode(r.db, owner, path, hash, r.scheme)
	if len(blob) == 0 || crypto.Keccak256Hash(blob) != hash {
		return nil, nil
	}
	return blob, nil
}

type nullDB struct{}

func (nullDB) NodeReader(root common.Hash) (database.NodeReader, error) { return nullDB{}, nil }
func (nullDB) Node(owner common.Hash, path []byte, hash common.Hash) ([]byte, error) {
	return nil, nil
}

// canonical builds, with the ordinary trie (not the partitioned generator), the tries of the
// corrected state: storage roots, the state root and the node paths of every trie.
type canonical struct {
	root      common.Hash
	sroots    map[common.Hash]common.Hash
	acctPaths map[string]common.Hash
	storPaths map[common.Hash]map[string]common.Hash
}

func pathsOf(set *trienode.NodeSet) map[string]common.Hash {
	out := map[string]common.Hash{}
	if set == nil {
		return out
	}
	for p, n := range set.Nodes {
		if len(n.Blob) > 0 {
			out[p] = n.Hash
		}
	}
	return out
}

func buildCanonical(f *flat) *canonical {
	c := &canonical{sroots: map[common.Hash]common.Hash{}, storPaths: map[common.Hash]map[string]common.Hash{}}
	at := trie.NewEmpty(nullDB{})
	for a, acct := range f.accounts {
		sr := types.EmptyRootHash
		if slots := f.storage[a]; len(slots) > 0 {
			st := trie.NewEmpty(nullDB{})
			for s, v := range slots {
				st.MustUpdate(s[:], v)
			}
			r, set := st.Commit(false)
			sr = r
			c.storPaths[a] = pathsOf(set)
		}
		c.sroots[a] = sr
		fixed := *acct
		fixed.Root = sr
		enc, _ := rlp.EncodeToBytes(&fixed)
		at.MustUpdate(a[:], enc)
	}
	r, set := at.Commit(false)
	c.root = r
	c.acctPaths = pathsOf(set)
	return c
}

func (f *flat) write(db ethdb.KeyValueWriter) {
	for a, acct := range f.accounts {
		rawdb.WriteAccountSnapshot(db, a, types.SlimAccountRLP(*acct))
	}
	for a, slots := range f.storage {
		for s, v := range slots {
			rawdb.WriteStorageSnapshot(db, a, s, v)
		}
	}
}

// observed result of one generation
type outcome struct {
	stats    triedb.GenerateStats
	err      error
	accounts map[common.Hash]*types.StateAccount
	storage  map[common.Hash]map[common.Hash][]byte
	acctPath map[string][]byte                 // path scheme: account trie node paths -> blob
	storPath map[common.Hash]map[string][]byte // path scheme
	legacy   int                               // hash scheme: number of hash-keyed nodes
	other    int
}

func observe(db ethdb.Database, scheme string) *outcome {
	o := &outcome{accounts: map[common.Hash]*types.StateAccount{}, storage: map[common.Hash]map[common.Hash][]byte{},
		acctPath: map[string][]byte{}, storPath: map[common.Hash]map[string][]byte{}}
	it := db.NewIterator(nil, nil)
	defer it.Release()
	for it.Next() {
		k, v := it.Key(), common.CopyBytes(it.Value())
		switch {
		case len(k) == 1+common.HashLength && k[0] == rawdb.SnapshotAccountPrefix[0]:
			acct, err := types.FullAccount(v)
			if err != nil {
				tl.Fatal("undecodable flat account: %v", err)
			}
			o.accounts[common.BytesToHash(k[1:])] = acct
		case len(k) == 1+2*common.HashLength && k[0] == rawdb.SnapshotStoragePrefix[0]:
			a := common.BytesToHash(k[1:33])
			if o.storage[a] == nil {
				o.storage[a] = map[common.Hash][]byte{}
			}
			o.storage[a][common.BytesToHash(k[33:])] = v
		case scheme == rawdb.PathScheme && k[0] == rawdb.TrieNodeAccountPrefix[0]:
			_, p := rawdb.ResolveAccountTrieNodeKey(k)
			o.acctPath[string(p)] = v
		case scheme == rawdb.PathScheme && k[0] == rawdb.TrieNodeStoragePrefix[0]:
			_, owner, p := rawdb.ResolveStorageTrieNode(k)
			if o.storPath[owner] == nil {
				o.storPath[owner] = map[string][]byte{}
			}
			o.storPath[owner][string(p)] = v
		case scheme == rawdb.HashScheme && len(k) == common.HashLength:
			o.legacy++
		default:
			o.other++
		}
	}
	return o
}

// readBack opens the generated tries at root through the database only and returns the state.
func readBack(db ethdb.Database, scheme string, root common.Hash) (map[common.Hash]*types.StateAccount, map[common.Hash]map[common.Hash][]byte, string) {
	accts := map[common.Hash]*types.StateAccount{}
	stor := map[common.Hash]map[common.Hash][]byte{}
	if root == types.EmptyRootHash {
		return accts, stor, ""
	}
	ndb := rawNodeDB{db, scheme}
	at, err := trie.New(trie.StateTrieID(root), ndb)
	if err != nil {
		return nil, nil, "the node store does not open at the root: " + err.Error()
	}
	it, err := at.NodeIterator(nil)
	if err != nil {
		return nil, nil, err.Error()
	}
	for it.Next(true) {
		if !it.Leaf() {
			continue
		}
		var a types.StateAccount
		if err := rlp.DecodeBytes(it.LeafBlob(), &a); err != nil {
			return nil, nil, "undecodable account leaf"
		}
		k := common.BytesToHash(it.LeafKey())
		accts[k] = &a
		if a.Root != types.EmptyRootHash {
			st, err := trie.New(trie.StorageTrieID(root, k, a.Root), ndb)
			if err != nil {
				return nil, nil, fmt.Sprintf("storage trie of %x does not open: %v", k, err)
			}
			sit, err := st.NodeIterator(nil)
			if err != nil {
				return nil, nil, err.Error()
			}
			stor[k] = map[common.Hash][]byte{}
			for sit.Next(true) {
				if sit.Leaf() {
					stor[k][common.BytesToHash(sit.LeafKey())] = common.CopyBytes(sit.LeafBlob())
				}
			}
			if sit.Error() != nil {
				return nil, nil, fmt.Sprintf("storage trie of %x is incomplete: %v", k, sit.Error())
			}
		}
	}
	if it.Error() != nil {
		return nil, nil, "account trie is incomplete: " + it.Error().Error()
	}
	return accts, stor, ""
}

// judge compares one generation with what the corrected flat state requires.  The expected
// counters / flat state come from the caller (specification); canonical tries from package trie.
func judge(f *flat, can *canonical, o *outcome, scheme string, db ethdb.Database) string {
	if o.err != nil {
		return "GenerateTrie failed although the canonical root was expected: " + o.err.Error()
	}
	// flat accounts: same set, same fields, root corrected
	if len(o.accounts) != len(f.accounts) {
		return fmt.Sprintf("flat state has %d accounts after generation, %d before", len(o.accounts), len(f.accounts))
	}
	for a, in := range f.accounts {
		out := o.accounts[a]
		if out == nil {
			return fmt.Sprintf("flat account %x disappeared", a)
		}
		if out.Nonce != in.Nonce || out.Balance.Cmp(in.Balance) != 0 || !bytes.Equal(out.CodeHash, in.CodeHash) {
			return fmt.Sprintf("flat account %x changed beyond its storage root", a)
		}
		if out.Root != can.sroots[a] {
			return fmt.Sprintf("flat account %x records storage root %x, its slots hash to %x", a, out.Root, can.sroots[a])
		}
	}
	// flat storage: exactly the slots of existing accounts
	for a, slots := range o.storage {
		if f.accounts[a] == nil {
			return fmt.Sprintf("storage of %x, which is no account, survived generation", a)
		}
		if len(slots) != len(f.storage[a]) {
			return fmt.Sprintf("account %x has %d flat slots after generation, %d before", a, len(slots), len(f.storage[a]))
		}
	}
	for a, slots := range f.storage {
		if f.accounts[a] == nil {
			continue
		}
		for s, v := range slots {
			if !bytes.Equal(o.storage[a][s], v) {
				return fmt.Sprintf("flat slot %x/%x lost or changed", a, s)
			}
		}
	}
	// the node store opens at the canonical root and yields exactly the corrected state
	accts, stor, msg := readBack(db, scheme, can.root)
	if msg != "" {
		return msg
	}
	if len(accts) != len(f.accounts) {
		return fmt.Sprintf("generated trie holds %d accounts, flat state %d", len(accts), len(f.accounts))
	}
	for a, in := range f.accounts {
		out := accts[a]
		if out == nil || out.Nonce != in.Nonce || out.Balance.Cmp(in.Balance) != 0 || out.Root != can.sroots[a] {
			return fmt.Sprintf("generated trie disagrees with the flat state on account %x", a)
		}
		want := f.storage[a]
		if len(stor[a]) != len(want) {
			return fmt.Sprintf("generated storage trie of %x holds %d slots, flat state %d", a, len(stor[a]), len(want))
		}
		for s, v := range want {
			if !bytes.Equal(stor[a][s], v) {
				return fmt.Sprintf("generated storage trie of %x disagrees on slot %x", a, s)
			}
		}
	}
	// path scheme: no node outside the canonical tries
	if scheme == rawdb.PathScheme {
		if msg := samePaths("account trie", can.acctPaths, o.acctPath); msg != "" {
			return msg
		}
		for owner, ps := range o.storPath {
			if msg := samePaths(fmt.Sprintf("storage trie %x", owner), can.storPaths[owner], ps); msg != "" {
				return msg
			}
		}
		for owner, ps := range can.storPaths {
			if len(ps) > 0 && len(o.storPath[owner]) == 0 {
				return fmt.Sprintf("storage trie %x has no nodes in the store", owner)
			}
		}
	}
	if o.other != 0 {
		return fmt.Sprintf("%d unexpected database entries", o.other)
	}
	return ""
}

func samePaths(what string, want map[string]common.Hash, got map[string][]byte) string {
	for p, blob := range got {
		hsh, ok := want[p]
		if !ok {
			return fmt.Sprintf("%s: node at path %x is not part of the canonical trie", what, p)
		}
		if crypto.Keccak256Hash(blob) != hsh {
			return fmt.Sprintf("%s: node at path %x differs from the canonical node", what, p)
		}
	}
	for p := range want {
		if _, ok := got[p]; !ok {
			return fmt.Sprintf("%s: canonical node at path %x is missing", what, p)
		}
	}
	return ""
}

func pathKey(p []int) string {
	b := make([]byte, len(p))
	for i, x := range p {
		b[i] = byte(x)
	}
	return string(b)
}

func runCases(in, scheme string, sum *tl.Summary) {
	var cases []genCase
	tl.ReadJSON(in, &cases)
	kinds := map[string]bool{}
	for ci, c := range cases {
		runtime.GOMAXPROCS(1 + ci%4*5) // 1, 6, 11, 16: different goroutine interleavings of the partitions
		f := &flat{accounts: map[common.Hash]*types.StateAccount{}, stale: map[common.Hash]bool{}, storage: map[common.Hash]map[common.Hash][]byte{}}
		for _, s := range c.Storage {
			o := ha(s.Owner)
			if f.storage[o] == nil {
				f.storage[o] = map[common.Hash][]byte{}
			}
			f.storage[o][h(s.Slot)] = triekit.ValBytes(s.Val)
		}
		for i, a := range c.Accounts {
			f.accounts[ha(a.Key)] = &types.StateAccount{Nonce: uint64(i + 1), Balance: uint256.NewInt(uint64(1000 + 7*i)), Root: types.EmptyRootHash, CodeHash: types.EmptyCodeHash[:]}
		}
		can := buildCanonical(f)
		for i, a := range c.Accounts {
			k := ha(a.Key)
			f.accounts[k].Root = can.sroots[k]
			if a.Stale {
				f.stale[k] = true
				// a recorded root that differs from the slots' root: the empty root when there are
				// slots (alternating with an unrelated hash), an unrelated hash when there are none
				if can.sroots[k] != types.EmptyRootHash && (ci+i)%2 == 0 {
					f.accounts[k].Root = types.EmptyRootHash
				} else {
					f.accounts[k].Root = crypto.Keccak256Hash([]byte{byte(ci), byte(i), 0x77})
				}
			}
		}
		db := rawdb.NewMemoryDatabase()
		f.write(db)
		stats, err := triedb.GenerateTrie(db, scheme, can.root, nil)
		o := observe(db, scheme)
		o.stats, o.err = stats, err
		sum.Evaluations++
		sum.Steps++
		sum.Count(c.Kind)
		if !kinds[c.Kind+fmt.Sprint(c.Updated > 0, c.Deleted > 0)] {
			kinds[c.Kind+fmt.Sprint(c.Updated > 0, c.Deleted > 0)] = true
			sum.Sample(tl.M{"scheme": scheme, "accounts": c.Accounts, "storage": c.Storage, "kind": c.Kind, "stats": stats})
		}
		fail := func(msg string) {
			sum.Violate("triedb.GenerateTrie ("+scheme+" scheme, "+c.Kind+"): "+msg, tl.M{"scheme": scheme, "case": c, "stats": stats, "err": fmt.Sprint(err)})
		}
		if msg := judge(f, can, o, scheme, db); msg != "" {
			fail(msg)
			return
		}
		// against the specification: counters, flat key sets, node key space
		if stats.Scanned != c.Scanned || stats.Updated != c.Updated || stats.Deleted != c.Deleted {
			fail(fmt.Sprintf("counters scanned/updated/deleted = %d/%d/%d, specification %d/%d/%d", stats.Scanned, stats.Updated, stats.Deleted, c.Scanned, c.Updated, c.Deleted))
			return
		}
		if len(c.FlatA) != len(o.accounts) || len(c.StaleAfter) != 0 {
			fail("flat account table differs from the specification's")
			return
		}
		nslots := 0
		for _, s := range o.storage {
			nslots += len(s)
		}
		if nslots != len(c.FlatS) {
			fail(fmt.Sprintf("flat storage has %d entries, specification %d", nslots, len(c.FlatS)))
			return
		}
		for _, s := range c.FlatS {
			if _, ok := o.storage[ha(s.Owner)][h(s.Slot)]; !ok {
				fail("flat storage entry of the specification is missing")
				return
			}
		}
		if scheme == rawdb.PathScheme {
			want := map[string]bool{}
			for _, p := range c.AcctPaths {
				want[pathKey(p)] = true
			}
			if len(want) != len(o.acctPath) {
				fail(fmt.Sprintf("account trie key space has %d nodes, specification %d", len(o.acctPath), len(want)))
				return
			}
			for p := range o.acctPath {
				if !want[p] {
					fail(fmt.Sprintf("account trie node at path %x is not in the specification's key space", p))
					return
				}
			}
			total := 0
			for _, sp := range c.StorPaths {
				got := o.storPath[ha(sp.Owner)]
				total += len(got)
				if len(got) != len(sp.Paths) {
					fail(fmt.Sprintf("storage trie of %v has %d nodes, specification %d", sp.Owner, len(got), len(sp.Paths)))
					return
				}
				for _, p := range sp.Paths {
					if _, ok := got[pathKey(p)]; !ok {
						fail(fmt.Sprintf("storage trie node %v/%v of the specification is missing", sp.Owner, p))
						return
					}
				}
			}
			all := 0
			for _, g := range o.storPath {
				all += len(g)
			}
			if all != total {
				fail("storage trie nodes exist for owners outside the specification's key space")
				return
			}
		}
		// a different expected root must be reported
		db2 := rawdb.NewMemoryDatabase()
		f.write(db2)
		wrong := crypto.Keccak256Hash(can.root[:])
		if ci%2 == 0 && len(f.accounts) > 0 {
			// the root of the uncorrected flat state, when that differs
			unc := &flat{accounts: f.accounts, storage: map[common.Hash]map[common.Hash][]byte{}}
			if r := buildCanonical(unc).root; r != can.root {
				wrong = r
			}
		}
		if _, err := triedb.GenerateTrie(db2, scheme, wrong, nil); err == nil {
			fail("succeeded although the expected root differs from the generated one")
			return
		}
		sum.Distinct++
	}
	runtime.GOMAXPROCS(runtime.NumCPU())
	sum.Rule = "every layout enumerated by TLC (MCTrieGen) materialised in a memory database and generated with triedb.GenerateTrie; distinct = layouts passed"
}

func main() {
	mode := flag.String("mode", "cases", "cases|record")
	scheme := flag.String("scheme", "path", "hash|path")
	in := flag.String("in", "", "cases json")
	trace := flag.String("trace", "trace.ndjson", "output trace (mode record)")
	out := flag.String("out", "summary.json", "summary output")
	n := flag.Int("n", 20, "number of random flat states (mode record)")
	big := flag.Int("big", 1, "how many of them are large enough to flush batches")
	backend := flag.String("backend", "pebble", "store used for the large and every fourth random state (memory|pebble)")
	flag.Parse()
	seed := int64(tl.EnvInt("VERIF_SEED", 1))
	sum := tl.NewSummary("c11", *mode, seed)
	if *mode == "cases" {
		sum.Mode = "replay" // TLC-enumerated cases executed on the implementation
	}
	switch *mode {
	case "cases":
		runCases(*in, *scheme, sum)
	case "record":
		runRecord(*trace, *scheme, *backend, seed, *n, *big, sum)
	default:
		tl.Fatal("bad mode")
	}
	sum.Write(*out)
	if len(sum.Violations) > 0 {
		os.Exit(1)
	}
}

var _ = sort.Ints
