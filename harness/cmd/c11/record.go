package main

import (
	"bytes"
	"fmt"
	"math/rand"
	"os"
	"runtime"
	"sort"

	"github.com/ethereum/go-ethereum/common"
	"github.com/ethereum/go-ethereum/core/rawdb"
	"github.com/ethereum/go-ethereum/core/types"
	"github.com/ethereum/go-ethereum/crypto"
	"github.com/ethereum/go-ethereum/ethdb"
	"github.com/ethereum/go-ethereum/ethdb/pebble"
	"github.com/ethereum/go-ethereum/triedb"
	"github.com/holiman/uint256"
	tl "verif/harness/tracelib"
)

func randHash(r *rand.Rand) common.Hash {
	var h common.Hash
	r.Read(h[:])
	return h
}

// randomFlat draws a flat state: accounts spread over a chosen set of partitions (none, one,
// several, all), storage for some, stale recorded roots, and dangling storage whose owners fall
// before, between and after the accounts of their partition (or into partitions without accounts).
func randomFlat(r *rand.Rand, naccts int) *flat {
	f := &flat{accounts: map[common.Hash]*types.StateAccount{}, stale: map[common.Hash]bool{}, storage: map[common.Hash]map[common.Hash][]byte{}}
	var parts []byte
	switch r.Intn(5) {
	case 0:
		parts = []byte{byte(r.Intn(16))} // single partition
	case 1:
		parts = []byte{byte(r.Intn(16)), byte(r.Intn(16))}
	default:
		for p := 0; p < 16; p++ {
			if r.Intn(4) > 0 {
				parts = append(parts, byte(p))
			}
		}
		if len(parts) == 0 {
			parts = []byte{15}
		}
	}
	inPart := func() common.Hash {
		h := randHash(r)
		h[0] = parts[r.Intn(len(parts))]<<4 | h[0]&0x0f
		if r.Intn(8) == 0 { // crowd some keys together so that deep shared prefixes occur
			h[0] = h[0]&0xf0 | 0x3
			h[1] = 0x33
			if r.Intn(2) == 0 {
				h[2] = 0x33
			}
		}
		return h
	}
	slotsFor := func(max int) map[common.Hash][]byte {
		m := map[common.Hash][]byte{}
		for i, n := 0, 1+r.Intn(max); i < n; i++ {
			v := make([]byte, 1+r.Intn(32))
			r.Read(v)
			if v[0] == 0 {
				v[0] = 1
			}
			m[randHash(r)] = v
		}
		return m
	}
	for i := 0; i < naccts; i++ {
		a := inPart()
		f.accounts[a] = &types.StateAccount{Nonce: uint64(r.Intn(100)), Balance: uint256.NewInt(uint64(r.Int63())), Root: types.EmptyRootHash, CodeHash: types.EmptyCodeHash[:]}
		if r.Intn(3) == 0 {
			f.accounts[a].CodeHash = crypto.Keccak256([]byte{byte(i)})
		}
		if r.Intn(3) == 0 {
			f.storage[a] = slotsFor(6)
		}
	}
	// dangling owners: anywhere in the hash space (also in partitions without accounts), and
	// close neighbours of existing accounts (just before / just after)
	nd := r.Intn(naccts/4 + 2)
	keys := make([]common.Hash, 0, len(f.accounts))
	for a := range f.accounts {
		keys = append(keys, a)
	}
	sort.Slice(keys, func(i, j int) bool { return bytes.Compare(keys[i][:], keys[j][:]) < 0 })
	for i := 0; i < nd; i++ {
		var o common.Hash
		switch r.Intn(4) {
		case 0:
			o = randHash(r)
		case 1:
			o = inPart()
		default:
			if len(keys) == 0 {
				o = randHash(r)
				break
			}
			o = keys[r.Intn(len(keys))]
			if r.Intn(2) == 0 {
				o[31]++
			} else {
				o[31]--
			}
		}
		if f.accounts[o] == nil {
			f.storage[o] = slotsFor(3)
		}
	}
	if r.Intn(6) == 0 { // the extremes of the hash space
		f.storage[common.Hash{}] = slotsFor(2)
		f.storage[common.MaxHash] = slotsFor(2)
	}
	return f
}

// newDB opens the database a generation runs on: the memory store, or a pebble store in the
// working directory (iterators there are real snapshots, so the reopen-after-flush logic matters).
func newDB(backend string, idx int) (ethdb.Database, func()) {
	if backend != "pebble" {
		return rawdb.NewMemoryDatabase(), func() {}
	}
	dir, err := os.MkdirTemp(".", fmt.Sprintf("c11-pebble-%d-", idx))
	if err != nil {
		tl.Fatal("mkdir: %v", err)
	}
	kv, err := pebble.New(dir, 16, 16, "", false)
	if err != nil {
		tl.Fatal("pebble: %v", err)
	}
	db := rawdb.NewDatabase(kv)
	return db, func() { db.Close(); os.RemoveAll(dir) }
}

func runRecord(tracePath, scheme, backend string, seed int64, n, big int, sum *tl.Summary) {
	r := tl.Rand(seed)
	tr := tl.NewTrace(tracePath)
	defer tr.Close()
	for t := 0; t < n; t++ {
		size := []int{0, 1, 2, 3, 17, 60, 200}[r.Intn(7)]
		if t < big {
			size = 9000 + r.Intn(3000) // enough trie nodes per partition to exceed the batch threshold
		}
		f := randomFlat(r, size)
		can := buildCanonical(f)
		nstale := 0
		akeys := keysOfAccts(f.accounts)
		sort.Slice(akeys, func(i, j int) bool { return bytes.Compare(akeys[i][:], akeys[j][:]) < 0 })
		for _, a := range akeys {
			acct := f.accounts[a]
			acct.Root = can.sroots[a]
			if r.Intn(4) == 0 {
				f.stale[a] = true
				nstale++
				if can.sroots[a] != types.EmptyRootHash && r.Intn(2) == 0 {
					acct.Root = types.EmptyRootHash
				} else {
					acct.Root = randHash(r)
				}
			}
		}
		runtime.GOMAXPROCS([]int{1, 2, 4, 16}[r.Intn(4)])
		want, expect := "correct", can.root
		if r.Intn(5) == 0 {
			want, expect = "other", randHash(r)
		}
		bk := "memory"
		if t < big || t%4 == 1 {
			bk = backend
		}
		db, closeDB := newDB(bk, t)
		f.write(db)
		stats, err := triedb.GenerateTrie(db, scheme, expect, nil)
		o := observe(db, scheme)
		o.stats, o.err = stats, err
		sum.Evaluations++
		sum.Count(want)
		if want == "correct" {
			if msg := judge(f, can, o, scheme, db); msg != "" {
				sum.Violate("triedb.GenerateTrie ("+scheme+" scheme, random flat state): "+msg, tl.M{"scheme": scheme, "seed": seed, "index": t, "accounts": len(f.accounts), "backend": bk})
				closeDB()
				return
			}
		}
		// abstract the hashes to ranks for the trace specification
		owners := map[common.Hash]bool{}
		for a := range f.accounts {
			owners[a] = true
		}
		for a := range f.storage {
			owners[a] = true
		}
		for a := range o.accounts {
			owners[a] = true
		}
		for a := range o.storage {
			owners[a] = true
		}
		rank := rankOf(owners)
		slotSet := map[common.Hash]bool{}
		for _, m := range f.storage {
			for s := range m {
				slotSet[s] = true
			}
		}
		for _, m := range o.storage {
			for s := range m {
				slotSet[s] = true
			}
		}
		srank := rankOf(slotSet)
		ev := tl.M{"op": "generate", "scheme": scheme, "want": want, "err": err != nil,
			"scanned": stats.Scanned, "updated": stats.Updated, "deleted": stats.Deleted}
		if err != nil {
			// counters are not reported on failure; the flat corrections have still been made
			ev["scanned"], ev["updated"], ev["deleted"] = len(f.accounts), nstale, danglingCount(f)
		}
		ev["accounts"] = ranks(rank, keysOfAccts(f.accounts))
		ev["stale"] = ranks(rank, keysOfBool(f.stale))
		ev["storage"] = pairs(rank, srank, f.storage)
		ev["accountsAfter"] = ranks(rank, keysOfAccts(o.accounts))
		var staleAfter []common.Hash
		for a, acct := range o.accounts {
			if acct.Root != can.sroots[a] {
				staleAfter = append(staleAfter, a)
			}
		}
		ev["staleAfter"] = ranks(rank, staleAfter)
		ev["storageAfter"] = pairs(rank, srank, o.storage)
		tr.Emit(ev)
		closeDB()
		sum.Count("backend-" + bk)
		sum.Traces++
		sum.Distinct++
		if t < 3 {
			sum.Sample(tl.M{"scheme": scheme, "accounts": len(f.accounts), "stale": nstale, "dangling_slots": danglingCount(f), "want": want, "err": fmt.Sprint(err), "stats": stats})
		}
	}
	runtime.GOMAXPROCS(runtime.NumCPU())
	sum.Steps = tr.N
	sum.Rule = "random flat states (0..12000 accounts over chosen partitions, stale roots, dangling storage before/between/after/in empty partitions, GOMAXPROCS 1..16) generated with triedb.GenerateTrie; distinct = states generated"
}

func danglingCount(f *flat) int {
	n := 0
	for a, m := range f.storage {
		if f.accounts[a] == nil {
			n += len(m)
		}
	}
	return n
}

func rankOf(set map[common.Hash]bool) map[common.Hash]int {
	keys := make([]common.Hash, 0, len(set))
	for k := range set {
		keys = append(keys, k)
	}
	sort.Slice(keys, func(i, j int) bool { return bytes.Compare(keys[i][:], keys[j][:]) < 0 })
	out := map[common.Hash]int{}
	for i, k := range keys {
		out[k] = i + 1
	}
	return out
}
func keysOfAccts(m map[common.Hash]*types.StateAccount) []common.Hash {
	out := make([]common.Hash, 0, len(m))
	for k := range m {
		out = append(out, k)
	}
	return out
}
func keysOfBool(m map[common.Hash]bool) []common.Hash {
	out := make([]common.Hash, 0, len(m))
	for k := range m {
		out = append(out, k)
	}
	return out
}
func ranks(rank map[common.Hash]int, ks []common.Hash) []int {
	out := make([]int, 0, len(ks))
	for _, k := range ks {
		out = append(out, rank[k])
	}
	sort.Ints(out)
	return out
}
func pairs(rank, srank map[common.Hash]int, st map[common.Hash]map[common.Hash][]byte) [][2]int {
	out := [][2]int{}
	for a, m := range st {
		for s := range m {
			out = append(out, [2]int{rank[a], srank[s]})
		}
	}
	sort.Slice(out, func(i, j int) bool { return out[i][0] < out[j][0] || out[i][0] == out[j][0] && out[i][1] < out[j][1] })
	return out
}
