// c06 binds spec/trie/Trie.tla (property C06) to trie.Trie / trie.StackTrie.
//
//	-mode edges -in edges.json    replay every user-level transition of the TLC state graph:
//	                              the real trie is brought to the edge's source key-value set
//	                              (seeded variant: dirty in memory / hashed / committed and
//	                              reopened from a node store / reached through detours), the
//	                              action is applied, the result compared with the model.
//	-mode sim   -in mbt.json      replay TLC-generated behaviours (sequences of Update, Delete,
//	                              UpdateBatch) on one real trie, comparing after every step.
//	-mode record -trace t.ndjson  seeded random histories over 32-byte keys on the real trie,
//	                              one event per call with the observed node listing and root
//	                              (validated by TrieTrace.tla).
//
// Comparison after a step ("deep check"): Get over the whole key universe; Hash against
// (a) the reference root computed from the model tree by triekit's Yellow-Paper encoder,
// (b) a fresh trie built from the model's key-value set in random order, (c) StackTrie on
// the sorted set; NodeIterator node paths / kinds / stored-vs-embedded against the model's
// node listing; leaf iteration ascending and equal to the set.
package main

import (
	"bytes"
	"flag"
	"fmt"
	"math/rand"
	"os"
	"runtime"
	"sort"
	"strconv"
	"strings"

	"github.com/ethereum/go-ethereum/common"
	"github.com/ethereum/go-ethereum/trie"
	tl "verif/harness/tracelib"
	tk "verif/harness/triekit"
)

type action struct {
	Op  string  `json:"op"`
	K   []int   `json:"k,omitempty"`
	V   int     `json:"v,omitempty"`
	Ops []tk.KV `json:"ops,omitempty"`
	Par bool    `json:"par,omitempty"`
	// representation of the empty value (deletion by empty value): "nil", "empty" (zero-length
	// non-nil slice), "mixed" (alternating inside a batch)
	Enc string `json:"enc,omitempty"`
}

// emptyVal returns the chosen representation of the empty value for the i-th entry.
func emptyVal(enc string, i int) []byte {
	switch enc {
	case "empty":
		return []byte{}
	case "mixed":
		if i%2 == 0 {
			return make([]byte, 0, 8)
		}
	}
	return nil
}

func valOf(id int, enc string, i int) []byte {
	if id == 0 {
		return emptyVal(enc, i)
	}
	return tk.ValBytes(id)
}

type expState struct {
	KV   []tk.KV   `json:"kv"`
	Tree *tk.SNode `json:"tree"`
}

type edge struct {
	From []tk.KV  `json:"from"`
	Act  action   `json:"act"`
	To   expState `json:"to"`
}

type step struct {
	Act action   `json:"act"`
	Exp expState `json:"exp"`
}

type env struct {
	pad      int
	universe [][]int // all model keys
	r        *rand.Rand
	sum      *tl.Summary
}

func parseNib(s string) []int {
	var out []int
	for _, f := range strings.Split(s, ",") {
		n, err := strconv.Atoi(strings.TrimSpace(f))
		if err != nil {
			tl.Fatal("bad -nib %q", s)
		}
		out = append(out, n)
	}
	return out
}

func universe(nib []int, keylen int) [][]int {
	out := [][]int{{}}
	for i := 0; i < keylen; i++ {
		var next [][]int
		for _, p := range out {
			for _, n := range nib {
				next = append(next, append(append([]int{}, p...), n))
			}
		}
		out = next
	}
	return out
}

func (e *env) key(k []int) []byte { return tk.KeyBytes(k, e.pad) }

// ---------------------------------------------------------------- building the source state

const nVariants = 4

// build brings a real trie to the key-value set kv. The variant decides the internal
// condition of the node graph (all are legal histories of the same set).
func (e *env) build(kv []tk.KV, variant int) (*trie.Trie, error) {
	store := tk.NewPathStore()
	tr := trie.NewEmpty(store)
	order := e.r.Perm(len(kv))
	var detour [][]int
	if variant == 3 {
		// insert up to two keys that are not part of the set and delete them again
		in := map[string]bool{}
		for _, x := range kv {
			in[fmt.Sprint(x.K)] = true
		}
		for _, i := range e.r.Perm(len(e.universe)) {
			if !in[fmt.Sprint(e.universe[i])] && len(detour) < 2 {
				detour = append(detour, e.universe[i])
			}
		}
	}
	for j, i := range order {
		if err := tr.Update(e.key(kv[i].K), tk.ValBytes(kv[i].V)); err != nil {
			return nil, err
		}
		if j == len(order)/2 {
			for _, d := range detour {
				if err := tr.Update(e.key(d), tk.ValBytes(331)); err != nil {
					return nil, err
				}
			}
		}
	}
	if len(order) == 0 {
		for _, d := range detour {
			if err := tr.Update(e.key(d), tk.ValBytes(331)); err != nil {
				return nil, err
			}
		}
	}
	for _, d := range detour {
		if err := tr.Delete(e.key(d)); err != nil {
			return nil, err
		}
	}
	switch variant {
	case 1:
		tr.Hash()
	case 2:
		root, set := tr.Commit(false)
		if set != nil {
			for p, n := range set.Nodes {
				if n.IsDeleted() {
					delete(store.Nodes, p)
				} else {
					store.Nodes[p] = n.Blob
				}
			}
		}
		return trie.New(trie.TrieID(root), store)
	}
	return tr, nil
}

func (e *env) apply(tr *trie.Trie, a action) error {
	switch a.Op {
	case "put":
		return tr.Update(e.key(a.K), tk.ValBytes(a.V))
	case "putempty":
		return tr.Update(e.key(a.K), emptyVal(a.Enc, 0))
	case "del":
		return tr.Delete(e.key(a.K))
	case "batch":
		keys := make([][]byte, len(a.Ops))
		vals := make([][]byte, len(a.Ops))
		for i, o := range a.Ops {
			keys[i], vals[i] = e.key(o.K), valOf(o.V, a.Enc, i)
		}
		return tr.UpdateBatch(keys, vals)
	}
	tl.Fatal("unknown op %q", a.Op)
	return nil
}

// ---------------------------------------------------------------- comparison

// shallow compares Get over the key universe with the model's set.
func (e *env) shallow(tr *trie.Trie, exp expState) string {
	want := map[string]int{}
	for _, x := range exp.KV {
		want[fmt.Sprint(x.K)] = x.V
	}
	for _, k := range e.universe {
		got, err := tr.Get(e.key(k))
		if err != nil {
			return fmt.Sprintf("Get(%v) error: %v", k, err)
		}
		if w := want[fmt.Sprint(k)]; !bytes.Equal(got, tk.ValBytes(w)) {
			return fmt.Sprintf("Get(%v) = %x, specification has value id %d (%x)", k, got, w, tk.ValBytes(w))
		}
	}
	// a key outside the model's universe is never present
	if len(e.universe) > 0 {
		out := append([]int{}, e.universe[0]...)
		out[len(out)-1] = 7
		if got, err := tr.Get(e.key(out)); err != nil || got != nil {
			return fmt.Sprintf("Get(%v) (never written) = %x, %v", out, got, err)
		}
	}
	return ""
}

// deep compares root, node listing and iteration with the model.
func (e *env) deep(tr *trie.Trie, exp expState) string {
	if d := e.shallow(tr, exp); d != "" {
		return d
	}
	ref, refRoot := tk.NewRef(exp.Tree, e.pad)
	if len(ref.SizeMismatch) > 0 {
		// the model's size function disagrees with the Yellow-Paper encoder: problem of the
		// verification machinery, not of the implementation
		tl.Fatal("MPT!RlpSize mismatch: %v", ref.SizeMismatch)
	}
	root := tr.Hash()
	if root != refRoot {
		return fmt.Sprintf("Hash() = %x, reference root of the model tree = %x", root, refRoot)
	}
	// (b) fresh trie in random order, (c) stack trie in ascending order
	fresh := trie.NewEmpty(tk.NewPathStore())
	for _, i := range e.r.Perm(len(exp.KV)) {
		fresh.MustUpdate(e.key(exp.KV[i].K), tk.ValBytes(exp.KV[i].V))
	}
	if h := fresh.Hash(); h != root {
		return fmt.Sprintf("Hash() = %x but a fresh trie of the same key-value set has root %x", root, h)
	}
	var stNodes []string
	st := trie.NewStackTrie(func(path []byte, hash common.Hash, blob []byte) {
		stNodes = append(stNodes, string(path))
	})
	for _, x := range exp.KV { // ascending in the model's list
		if err := st.Update(e.key(x.K), tk.ValBytes(x.V)); err != nil {
			return fmt.Sprintf("StackTrie.Update(%v): %v", x.K, err)
		}
	}
	if h := st.Hash(); h != root {
		return fmt.Sprintf("Hash() = %x but StackTrie of the same key-value set has root %x", root, h)
	}
	// node iteration
	it, err := tr.NodeIterator(nil)
	if err != nil {
		return "NodeIterator: " + err.Error()
	}
	type seen struct {
		hash common.Hash
		leaf bool
	}
	var gotNodes []string
	got := map[string]common.Hash{}
	var leaves []tk.KV
	var prevKey []byte
	for it.Next(true) {
		if it.Leaf() {
			k := common.CopyBytes(it.LeafKey())
			if prevKey != nil && bytes.Compare(prevKey, k) >= 0 {
				return fmt.Sprintf("leaf iteration not ascending: %x then %x", prevKey, k)
			}
			prevKey = k
			leaves = append(leaves, tk.KV{K: tk.KeyNibs(k, e.pad), V: tk.ValID(it.LeafBlob())})
			continue
		}
		p := string(it.Path())
		gotNodes = append(gotNodes, p)
		got[p] = it.Hash()
	}
	if err := it.Error(); err != nil {
		return "NodeIterator error: " + err.Error()
	}
	if len(leaves) != len(exp.KV) {
		return fmt.Sprintf("iteration yields %d entries %v, specification has %d %v", len(leaves), leaves, len(exp.KV), exp.KV)
	}
	for i := range leaves {
		if fmt.Sprint(leaves[i]) != fmt.Sprint(exp.KV[i]) {
			return fmt.Sprintf("iteration entry %d = %v, specification has %v", i, leaves[i], exp.KV[i])
		}
	}
	if len(gotNodes) != len(ref.Nodes) {
		return fmt.Sprintf("NodeIterator yields %d nodes at paths %x, specification has %d", len(gotNodes), gotNodes, len(ref.Nodes))
	}
	for i, n := range ref.Nodes { // both pre-order
		h, ok := got[string(n.Path)]
		if !ok || gotNodes[i] != string(n.Path) {
			return fmt.Sprintf("NodeIterator node %d at path %x, specification has a %s node at %x", i, gotNodes[i], n.Kind, n.Path)
		}
		if n.Stored && h != n.Hash {
			return fmt.Sprintf("node at path %x has hash %x, reference %x", n.Path, h, n.Hash)
		}
		if !n.Stored && h != (common.Hash{}) {
			return fmt.Sprintf("node at path %x (%d bytes) reported as hashed, specification embeds it", n.Path, len(n.Blob))
		}
	}
	// iteration from a start key: exactly the entries at or after it, ascending
	if len(e.universe) > 0 {
		start := e.universe[e.r.Intn(len(e.universe))]
		if e.r.Intn(3) == 0 { // a start key that is no model key
			start = append(append([]int{}, start[:len(start)-1]...), 7)
		}
		sit, err := tr.NodeIterator(e.key(start))
		if err != nil {
			return "NodeIterator(start): " + err.Error()
		}
		var from []tk.KV
		kit := trie.NewIterator(sit)
		for kit.Next() {
			from = append(from, tk.KV{K: tk.KeyNibs(kit.Key, e.pad), V: tk.ValID(kit.Value)})
		}
		if kit.Err != nil {
			return "Iterator(start) error: " + kit.Err.Error()
		}
		var want []tk.KV
		for _, x := range exp.KV {
			if bytes.Compare(e.key(x.K), e.key(start)) >= 0 {
				want = append(want, x)
			}
		}
		if fmt.Sprint(from) != fmt.Sprint(want) {
			return fmt.Sprintf("iteration from %v yields %v, specification (entries at or after it, ascending) %v", start, from, want)
		}
	}
	// nodes emitted by the streaming builder = stored nodes of the model tree
	wantSt := []string{}
	for _, n := range ref.Nodes {
		if n.Stored {
			wantSt = append(wantSt, string(n.Path))
		}
	}
	sort.Strings(wantSt)
	sort.Strings(stNodes)
	if fmt.Sprintf("%x", wantSt) != fmt.Sprintf("%x", stNodes) {
		return fmt.Sprintf("StackTrie emitted nodes at paths %x, specification stores %x", stNodes, wantSt)
	}
	return ""
}

// ---------------------------------------------------------------- modes

func runEdges(e *env, in string) {
	var edges []edge
	tl.ReadJSON(in, &edges)
	distinct := map[string]bool{}
	procs := []int{1, 2, 4, 16}
	for i, ed := range edges {
		if i%64 == 0 {
			// real schedules of the concurrent batch workers: vary the parallelism
			runtime.GOMAXPROCS(procs[e.r.Intn(len(procs))])
		}
		// a batch is replayed from every internal condition of the source state (dirty, hashed =
		// cached node hashes, committed + reopened = unresolved references); single operations
		// from one seeded condition
		variants := []int{e.r.Intn(nVariants)}
		if ed.Act.Op == "batch" {
			variants = []int{0, 1, 2}
		}
		e.sum.Count(ed.Act.Op)
		if ed.Act.Par {
			e.sum.Count("batch-parallel")
		}
		if ed.Act.Enc == "empty" {
			e.sum.Count("empty-non-nil-deletions")
		}
		for _, variant := range variants {
			tr, err := e.build(ed.From, variant)
			if err != nil {
				e.sum.Violate(fmt.Sprintf("building %v (variant %d): %v", ed.From, variant, err), tl.M{"edge": ed, "variant": variant})
				continue
			}
			e.sum.Evaluations++
			e.sum.Steps++
			d := ""
			if err := e.apply(tr, ed.Act); err != nil {
				d = "error: " + err.Error()
			} else {
				d = e.deep(tr, ed.To)
			}
			if d != "" {
				e.sum.Violate(fmt.Sprintf("%s %v from %v (variant %d): %s", ed.Act.Op, actArgs(ed.Act), ed.From, variant, d),
					tl.M{"edge": ed, "variant": variant, "pad": e.pad})
				break
			}
		}
		key := fmt.Sprint(ed.From, ed.Act)
		if fmt.Sprint(ed.From) != fmt.Sprint(ed.To.KV) && !distinct[key] {
			distinct[key] = true
			e.sum.Distinct++
		}
		if i%2000 == 7 {
			e.sum.Sample(ed)
		}
	}
	e.sum.Rule = "every user-level transition (key-value set, action, successor) of the TLC state graph executed on trie.Trie from a seeded internal condition (dirty / hashed / committed+reopened / detour; batches from all of the first three, deletions as nil and as empty non-nil values); distinct = distinct (set, action) pairs that change the set"
}

func actArgs(a action) string {
	if a.Op == "batch" {
		return fmt.Sprintf("%v par=%v empty=%s", a.Ops, a.Par, a.Enc)
	}
	return fmt.Sprintf("%v=%d", a.K, a.V)
}

func runSim(e *env, in string) {
	var behaviours [][]step
	tl.ReadJSON(in, &behaviours)
	shapes := map[string]bool{}
	procs := []int{1, 2, 4, 16}
	for bi, b := range behaviours {
		runtime.GOMAXPROCS(procs[e.r.Intn(len(procs))])
		store := tk.NewPathStore()
		tr := trie.NewEmpty(store)
		shape := ""
		for si, s := range b {
			e.sum.Steps++
			e.sum.Count(s.Act.Op)
			if s.Act.Par {
				e.sum.Count("batch-parallel")
			}
			shape += fmt.Sprint(s.Act)
			d := ""
			if err := e.apply(tr, s.Act); err != nil {
				d = "error: " + err.Error()
			} else if si == len(b)-1 || e.r.Intn(3) == 0 {
				d = e.deep(tr, s.Exp)
			} else {
				d = e.shallow(tr, s.Exp)
			}
			if d != "" {
				e.sum.Violate(fmt.Sprintf("behaviour %d step %d %s %v: %s", bi, si, s.Act.Op, actArgs(s.Act), d),
					tl.M{"behaviour": b[:si+1], "step": si, "pad": e.pad})
				break
			}
			// now and then continue on a committed and reopened trie
			if e.r.Intn(6) == 0 {
				root, set := tr.Commit(false)
				if set != nil {
					for p, n := range set.Nodes {
						if n.IsDeleted() {
							delete(store.Nodes, p)
						} else {
							store.Nodes[p] = n.Blob
						}
					}
				}
				nt, err := trie.New(trie.TrieID(root), store)
				if err != nil {
					e.sum.Violate(fmt.Sprintf("behaviour %d step %d: reopen after commit failed: %v", bi, si, err), tl.M{"behaviour": b[:si+1], "pad": e.pad})
					break
				}
				tr = nt
				e.sum.Count("commit+reopen")
			}
		}
		e.sum.Evaluations++
		if !shapes[shape] {
			shapes[shape] = true
			e.sum.Distinct++
		}
		if bi < 2 && len(b) > 2 {
			e.sum.Sample(b[:2])
		}
	}
	e.sum.Rule = "TLC-simulated behaviours of Trie.tla replayed on one trie.Trie each, Get over the universe after every step, deep comparison (roots, node listing, iteration, StackTrie) on a seeded third of the steps and at the end; distinct = distinct action sequences"
}

func main() {
	mode := flag.String("mode", "edges", "edges|sim|record")
	in := flag.String("in", "", "input json")
	out := flag.String("out", "summary.json", "summary output")
	pad := flag.Int("pad", 0, "zero nibbles appended to model keys")
	nib := flag.String("nib", "0,1,15", "nibble alphabet of the model")
	keylen := flag.Int("keylen", 2, "model key length")
	trace := flag.String("trace", "trace.ndjson", "output trace (mode record)")
	n := flag.Int("n", 20, "number of traces (mode record)")
	steps := flag.Int("steps", 40, "steps per trace (mode record)")
	flag.Parse()
	seed := int64(tl.EnvInt("VERIF_SEED", 1))
	sum := tl.NewSummary("c06", *mode, seed)
	e := &env{pad: *pad, universe: universe(parseNib(*nib), *keylen), r: tl.Rand(seed), sum: sum}
	switch *mode {
	case "edges":
		runEdges(e, *in)
	case "sim":
		sum.Mode = "replay"
		runSim(e, *in)
	case "record":
		runRecord(e, *trace, *n, *steps)
	default:
		tl.Fatal("bad mode")
	}
	sum.Write(*out)
	if len(sum.Violations) > 0 {
		os.Exit(1)
	}
}
