package main

import (
	"fmt"

	"github.com/ethereum/go-ethereum/common"
	"github.com/ethereum/go-ethereum/crypto"
	"github.com/ethereum/go-ethereum/trie"
	"github.com/ethereum/go-ethereum/trie/trienode"
	tl "verif/harness/tracelib"
	tk "verif/harness/triekit"
)

type nodeInfo struct {
	Path   []int `json:"path"`
	Stored bool  `json:"stored"`
}

// keyPool draws 64-nibble keys with shared prefixes and late differences, so that the
// histories create and collapse extension nodes and deep branches.
func keyPool(e *env, n int) [][]int {
	prefixes := [][]int{{}, {}, {3}, {3, 4}, {3, 4, 5, 6, 7}, {15, 15}, {9, 9, 9, 9, 9, 9, 9, 9}}
	seen := map[string]bool{}
	var out [][]int
	for len(out) < n {
		k := append([]int{}, prefixes[e.r.Intn(len(prefixes))]...)
		for len(k) < 64 {
			k = append(k, e.r.Intn(16))
		}
		if len(out) > 0 && e.r.Intn(3) == 0 {
			k = append([]int{}, out[e.r.Intn(len(out))]...)
			k[50+e.r.Intn(14)] = e.r.Intn(16)
		}
		if !seen[fmt.Sprint(k)] {
			seen[fmt.Sprint(k)] = true
			out = append(out, k)
		}
	}
	return out
}

func randVal(e *env) int {
	size := 1 + e.r.Intn(3)
	if e.r.Intn(2) == 0 {
		size = 25 + e.r.Intn(12)
	}
	return size*10 + e.r.Intn(10)
}

// rtrie is what the recorder drives: trie.Trie directly, or trie.StateTrie (keys hashed
// with Keccak-256 by the wrapper; the model key is the hash's nibbles).
type rtrie interface {
	Update(key, value []byte) error
	Delete(key []byte) error
	Get(key []byte) ([]byte, error)
	UpdateBatch(keys, values [][]byte) error
	Hash() common.Hash
	NodeIterator(start []byte) (trie.NodeIterator, error)
	Commit(collectLeaf bool) (common.Hash, *trienode.NodeSet)
}

type secure struct{ *trie.StateTrie }

func (s secure) Update(k, v []byte) error {
	if len(v) == 0 {
		s.MustDelete(k)
	} else {
		s.MustUpdate(k, v)
	}
	return nil
}
func (s secure) Delete(k []byte) error        { s.MustDelete(k); return nil }
func (s secure) Get(k []byte) ([]byte, error) { return s.MustGet(k), nil }
func (s secure) UpdateBatch(keys, values [][]byte) error {
	for i := range keys {
		s.Update(keys[i], values[i])
	}
	return nil
}

func open(root common.Hash, store *tk.PathStore, sec bool) (rtrie, error) {
	if sec {
		st, err := trie.NewStateTrie(trie.TrieID(root), store)
		return secure{st}, err
	}
	return trie.New(trie.TrieID(root), store)
}

func listing(tr rtrie) (root string, nodes []nodeInfo, leaves int, err error) {
	root = tr.Hash().Hex()
	it, err := tr.NodeIterator(nil)
	if err != nil {
		return "", nil, 0, err
	}
	nodes = []nodeInfo{}
	for it.Next(true) {
		if it.Leaf() {
			leaves++
			continue
		}
		p := make([]int, len(it.Path()))
		for i, b := range it.Path() {
			p[i] = int(b)
		}
		nodes = append(nodes, nodeInfo{p, it.Hash() != (common.Hash{})})
	}
	return root, nodes, leaves, it.Error()
}

func runRecord(e *env, path string, n, steps int) {
	tr := tl.NewTrace(path)
	defer tr.Close()
	shapes := map[string]bool{}
	for t := 0; t < n; t++ {
		pool := keyPool(e, 6+e.r.Intn(30))
		store := tk.NewPathStore()
		// every third trace drives the secure-trie wrapper: real key = a short preimage, model
		// key = nibbles of its Keccak-256 hash
		sec := e.r.Intn(3) == 0
		pre := map[string][]byte{}
		if sec {
			for i := range pool {
				p := []byte(fmt.Sprintf("key-%d-%d", t, i))
				pool[i] = tk.KeyNibs(crypto.Keccak256(p), 0)
				pre[fmt.Sprint(pool[i])] = p
			}
			e.sum.Count("secure-trie-traces")
		}
		rk := func(k []int) []byte {
			if sec {
				return pre[fmt.Sprint(k)]
			}
			return tk.KeyBytes(k, 0)
		}
		real, err0 := open(tk.EmptyRoot, store, sec)
		if err0 != nil {
			tl.Fatal("open: %v", err0)
		}
		tr.Emit(tl.M{"op": "reset"})
		shape := ""
		for s := 0; s < steps; s++ {
			ev := tl.M{"ops": []tk.KV{}, "k": []int{}, "v": 0}
			var err error
			switch c := e.r.Intn(10); {
			case c < 4:
				k, v := pool[e.r.Intn(len(pool))], randVal(e)
				err = real.Update(rk(k), tk.ValBytes(v))
				ev["op"], ev["k"], ev["v"] = "put", k, v
			case c < 6:
				k := pool[e.r.Intn(len(pool))]
				if e.r.Intn(2) == 0 {
					err = real.Delete(rk(k))
					ev["op"] = "del"
				} else {
					err = real.Update(rk(k), [][]byte{nil, {}}[e.r.Intn(2)])
					ev["op"] = "putempty"
				}
				ev["k"] = k
			default:
				// batch below / at / above the parallel threshold, deletions mixed in
				// (120 entries: more than 100 unhashed / uncommitted updates switch the hasher
				// and the committer to their parallel mode)
				m := []int{1, 3, 4, 5, 9, 17, 120}[e.r.Intn(7)]
				ops := make([]tk.KV, m)
				keys, vals := make([][]byte, m), make([][]byte, m)
				for i := range ops {
					ops[i] = tk.KV{K: pool[e.r.Intn(len(pool))], V: randVal(e)}
					if e.r.Intn(4) == 0 {
						ops[i].V = 0
					}
					keys[i], vals[i] = rk(ops[i].K), tk.ValBytes(ops[i].V)
					if ops[i].V == 0 && e.r.Intn(2) == 0 {
						vals[i] = []byte{} // empty but non-nil: a deletion all the same
					}
				}
				err = real.UpdateBatch(keys, vals)
				ev["op"], ev["ops"] = "batch", ops
			}
			if err != nil {
				e.sum.Violate(fmt.Sprintf("trace %d step %d %v: %v", t, s, ev["op"], err), tl.M{"event": ev})
				break
			}
			shape += ev["op"].(string)[:1]
			// sampled lookups
			gets := []tk.KV{}
			for g := 0; g < 3; g++ {
				k := pool[e.r.Intn(len(pool))]
				v, err := real.Get(rk(k))
				if err != nil {
					e.sum.Violate(fmt.Sprintf("trace %d step %d Get: %v", t, s, err), tl.M{"event": ev})
				}
				gets = append(gets, tk.KV{K: k, V: tk.ValID(v)})
			}
			ev["gets"] = gets
			ev["has"], ev["root"], ev["nodes"], ev["leaves"] = false, "", []nodeInfo{}, 0
			if e.r.Intn(4) == 0 || s == steps-1 {
				root, nodes, leaves, err := listing(real)
				if err != nil {
					e.sum.Violate(fmt.Sprintf("trace %d step %d NodeIterator: %v", t, s, err), tl.M{"event": ev})
					break
				}
				ev["has"], ev["root"], ev["nodes"], ev["leaves"] = true, root, nodes, leaves
			}
			tr.Emit(ev)
			e.sum.Count(ev["op"].(string))
			if t == 0 && s < 2 {
				e.sum.Sample(tl.M{"op": ev["op"], "k": ev["k"], "v": ev["v"], "ops": ev["ops"], "gets": gets})
			}
			// now and then continue on a committed and reopened trie
			if e.r.Intn(25) == 0 {
				root, set := real.Commit(false)
				if set != nil {
					for p, nd := range set.Nodes {
						if nd.IsDeleted() {
							delete(store.Nodes, p)
						} else {
							store.Nodes[p] = nd.Blob
						}
					}
				}
				if real, err = open(root, store, sec); err != nil {
					e.sum.Violate(fmt.Sprintf("trace %d step %d reopen: %v", t, s, err), tl.M{})
					break
				}
				e.sum.Count("commit+reopen")
			}
		}
		e.sum.Traces++
		e.sum.Evaluations++
		if !shapes[shape] {
			shapes[shape] = true
			e.sum.Distinct++
		}
	}
	e.sum.Steps = tr.N
	e.sum.Rule = "seeded random histories (Update / Delete / empty-value Update / UpdateBatch of 1..17 entries) over pools of 6..35 32-byte keys with shared prefixes; distinct = distinct operation-kind sequences"
}
