package main

import tl "verif/harness/tracelib"

func runRecord(e *env, path string, n, steps int) { tl.Fatal("record mode not implemented yet") }
