// Package pdb is the shared binding between the abstract path-database model of
// spec/state/PathDBHist.tla (worlds = small vectors of values, one per key) and a real
// triedb/pathdb.Database with a state-history freezer, driven through state.StateDB.
// It is used by the drivers of C17 (rollback), C18 (historic reads) and C20 (crash recovery).
package pdb

import (
	"bytes"
	"crypto/sha256"
	"errors"
	"fmt"
	"os"
	"path/filepath"
	"sort"

	"github.com/ethereum/go-ethereum/common"
	"github.com/ethereum/go-ethereum/core/rawdb"
	"github.com/ethereum/go-ethereum/core/state"
	"github.com/ethereum/go-ethereum/core/tracing"
	"github.com/ethereum/go-ethereum/core/types"
	"github.com/ethereum/go-ethereum/crypto"
	"github.com/ethereum/go-ethereum/ethdb"
	"github.com/ethereum/go-ethereum/ethdb/memorydb"
	"github.com/ethereum/go-ethereum/log"
	"github.com/ethereum/go-ethereum/params"
	"github.com/ethereum/go-ethereum/rlp"
	"github.com/ethereum/go-ethereum/trie"
	"github.com/ethereum/go-ethereum/triedb"
	"github.com/ethereum/go-ethereum/triedb/database"
	"github.com/ethereum/go-ethereum/triedb/pathdb"
	"github.com/holiman/uint256"
)

// Shape describes the key universe of a world: NAcc accounts with NSlot storage slots
// each (key order: account, its slots, next account, ...), optionally followed by one
// counter account whose value is incremented by every transition (makes roots unique).
type Shape struct {
	NAcc, NSlot int
	Counter     bool
	Ballast     int // constant accounts present in every state (keep the account trie from degenerating)
}

// BallastAddr is the address of the i-th ballast account.
func (s Shape) BallastAddr(i int) common.Address {
	var a common.Address
	a[0], a[1], a[19] = 0xba, byte(i*29+1), byte(i)
	return a
}

func writeBallast(s Shape, st *state.StateDB) {
	for i := 0; i < s.Ballast; i++ {
		st.SetBalance(s.BallastAddr(i), uint256.NewInt(7), tracing.BalanceChangeUnspecified)
	}
}

func (s Shape) NK() int {
	n := s.NAcc * (s.NSlot + 1)
	if s.Counter {
		n++
	}
	return n
}

// Owner returns the index of the account key owning key k (itself for account keys).
func (s Shape) Owner(k int) int {
	if s.Counter && k == s.NK()-1 {
		return k
	}
	return k - k%(s.NSlot+1)
}
func (s Shape) IsAcct(k int) bool { return s.Owner(k) == k }
func (s Shape) IsCounter(k int) bool {
	return s.Counter && k == s.NK()-1
}

// Addr is the address of the account owning key k.
func (s Shape) Addr(k int) common.Address {
	o := s.Owner(k)
	if s.IsCounter(o) {
		return common.HexToAddress("0xc0c0c0c0c0c0c0c0c0c0c0c0c0c0c0c0c0c0c0c0")
	}
	var a common.Address
	a[0] = 0xa0
	a[18] = byte(o >> 8)
	a[19] = byte(o)
	a[5] = byte(o * 37) // spread the hashes a little
	return a
}

// Slot is the raw storage key of slot key k.
func (s Shape) Slot(k int) common.Hash {
	return common.BigToHash(uint256.NewInt(uint64(k - s.Owner(k))).ToBig())
}

// World is the abstract state: one value per key; 0 = absent.
type World []int

func (w World) Key() string { return fmt.Sprint([]int(w)) }
func (w World) Copy() World { return append(World(nil), w...) }
func (w World) Eq(o World) bool {
	if len(w) != len(o) {
		return false
	}
	for i := range w {
		if w[i] != o[i] {
			return false
		}
	}
	return true
}

// Valid reports whether every non-zero slot belongs to an existing account.
func (s Shape) Valid(w World) bool {
	for k, v := range w {
		if v != 0 && w[s.Owner(k)] == 0 {
			return false
		}
	}
	return true
}

// Config is the database configuration under test.
type Config struct {
	MaxDiff      int    // diff layers kept in memory (pathdb maxDiffLayers)
	HistLimit    uint64 // Config.StateHistory
	BufSize      int    // Config.WriteBufferSize in bytes
	Async        bool   // !NoAsyncFlush
	Trienode     bool   // TrienodeHistory = 0 (keep all) instead of disabled
	Index        bool   // EnableStateIndexing
	Cancun       bool   // raw storage keys in histories, no storage wiping
	CleanCache   int    // clean cache sizes in bytes (0 = disabled)
	JournalInDir bool   // journal in a file instead of the key-value store
}

// KV is the key-value store under the database: a memorydb that survives Close and lets
// a driver observe every durable write (OnWrite is called before and after each one).
type KV struct {
	*memorydb.Database
	OnWrite func(after bool, kind string)
}

func NewKV() *KV { return &KV{Database: memorydb.New()} }

func (k *KV) Close() error { return nil }
func (k *KV) hook(after bool, kind string) {
	if k.OnWrite != nil {
		k.OnWrite(after, kind)
	}
}
func (k *KV) Put(key, value []byte) error {
	k.hook(false, "put")
	err := k.Database.Put(key, value)
	k.hook(true, "put")
	return err
}
func (k *KV) Delete(key []byte) error {
	k.hook(false, "delete")
	err := k.Database.Delete(key)
	k.hook(true, "delete")
	return err
}
func (k *KV) DeleteRange(start, end []byte) error {
	k.hook(false, "deleterange")
	err := k.Database.DeleteRange(start, end)
	k.hook(true, "deleterange")
	return err
}
func (k *KV) NewBatch() ethdb.Batch { return &kvBatch{Batch: k.Database.NewBatch(), kv: k} }
func (k *KV) NewBatchWithSize(n int) ethdb.Batch {
	return &kvBatch{Batch: k.Database.NewBatchWithSize(n), kv: k}
}

type kvBatch struct {
	ethdb.Batch
	kv *KV
}

func (b *kvBatch) Write() error {
	if b.Batch.ValueSize() == 0 {
		return b.Batch.Write()
	}
	b.kv.hook(false, "batch")
	err := b.Batch.Write()
	b.kv.hook(true, "batch")
	return err
}

// Snapshot copies the whole content.
func (k *KV) Snapshot() map[string][]byte {
	out := make(map[string][]byte, k.Database.Len())
	it := k.Database.NewIterator(nil, nil)
	defer it.Release()
	for it.Next() {
		out[string(it.Key())] = append([]byte(nil), it.Value()...)
	}
	return out
}

// NewKVFrom builds a store with the given content.
func NewKVFrom(content map[string][]byte) *KV {
	k := NewKV()
	for key, v := range content {
		k.Database.Put([]byte(key), v)
	}
	return k
}

// Env is one real database instance together with the registry linking worlds to roots.
type Env struct {
	Shape Shape
	Cfg   Config
	Dir   string // ancient directory (the state freezer lives below it)
	KV    *KV
	Disk  ethdb.Database
	TDB   *triedb.Database
	PDB   *pathdb.Database
	SDB   state.Database
	Reg   *Registry
	Block uint64
}

// Registry remembers every world ever produced: its root hash and the canonical
// key-value image (flat state + trie nodes) computed on an independent fresh database.
type Registry struct {
	Shape   Shape
	Cancun  bool
	ByKey   map[string]*WorldInfo
	ByRoot  map[common.Hash]*WorldInfo
	ByImage map[[32]byte]*WorldInfo
	Order   []*WorldInfo
}

// acctImage is the canonical content of an account in a world.
type acctImage struct {
	Nonce, Balance uint64
	Root, Code     []byte
}

func (a acctImage) sameAs(nonce, bal uint64, root, code []byte) bool {
	return a.Nonce == nonce && a.Balance == bal && bytes.Equal(a.Root, root) && bytes.Equal(a.Code, code)
}

type WorldInfo struct {
	W        World
	Root     common.Hash
	Accounts map[int]acctImage // canonical slim accounts by account key
	Image    [32]byte          // digest of the canonical flat-state + trie-node key space
	NKeys    int               // number of entries in the canonical image
}

func NewRegistry(s Shape, cancun bool) *Registry {
	return &Registry{Shape: s, Cancun: cancun, ByKey: map[string]*WorldInfo{}, ByRoot: map[common.Hash]*WorldInfo{}, ByImage: map[[32]byte]*WorldInfo{}}
}

func init() {
	// only log.Crit (which exits the process) is worth showing
	log.SetDefault(log.NewLogger(log.NewTerminalHandlerWithLevel(os.Stderr, log.LevelCrit, false)))
}

func rules(cancun bool) params.Rules {
	return params.Rules{IsEIP158: true, IsEIP150: true, IsEIP155: true, IsHomestead: true, IsCancun: cancun}
}

// stateImage extracts the flat-state and trie-node entries of a key-value content.
func stateImage(content map[string][]byte) (digest [32]byte, n int) {
	keys := make([]string, 0, len(content))
	for k := range content {
		if isStateKey([]byte(k)) {
			keys = append(keys, k)
		}
	}
	sort.Strings(keys)
	h := sha256.New()
	for _, k := range keys {
		fmt.Fprintf(h, "%d:%x=%d:%x;", len(k), k, len(content[k]), content[k])
	}
	copy(digest[:], h.Sum(nil))
	return digest, len(keys)
}

func isStateKey(k []byte) bool {
	if ok, _ := rawdb.ResolveAccountTrieNodeKey(k); ok {
		return true
	}
	if rawdb.IsStorageTrieNode(k) {
		return true
	}
	if len(k) == 1+common.HashLength && k[0] == rawdb.SnapshotAccountPrefix[0] {
		return true
	}
	if len(k) == 1+2*common.HashLength && k[0] == rawdb.SnapshotStoragePrefix[0] {
		return true
	}
	return false
}

// Info returns (computing on first use) the registry entry of a world: the world is
// built from scratch in one transition on a fresh in-memory path database without any
// history, committed to disk, and its key space is taken as the canonical image.
func (r *Registry) Info(w World) *WorldInfo {
	if wi, ok := r.ByKey[w.Key()]; ok {
		return wi
	}
	kv := NewKV()
	disk := rawdb.NewDatabase(kv)
	tdb := triedb.NewDatabase(disk, &triedb.Config{PathDB: &pathdb.Config{NoAsyncFlush: true, NoAsyncGeneration: true, TrienodeHistory: -1}})
	sdb := state.NewDatabase(tdb, state.NewCodeDB(disk))
	root := types.EmptyRootHash
	empty := make(World, len(w))
	if !w.Eq(empty) || r.Shape.Ballast > 0 {
		st, err := state.New(types.EmptyRootHash, sdb)
		if err != nil {
			panic(fmt.Sprintf("harness: fresh state: %v", err))
		}
		writeBallast(r.Shape, st)
		writeWorld(r.Shape, st, empty, w, nil)
		root, err = st.Commit(rules(r.Cancun), 1)
		if err != nil {
			panic(fmt.Sprintf("harness: fresh commit: %v", err))
		}
		if err := tdb.Commit(root, false); err != nil {
			panic(fmt.Sprintf("harness: fresh flush: %v", err))
		}
	}
	snap := kv.Snapshot()
	img, n := stateImage(snap)
	tdb.Close()
	wi := &WorldInfo{W: w.Copy(), Root: root, Image: img, NKeys: n, Accounts: map[int]acctImage{}}
	for k := range w {
		if !r.Shape.IsAcct(k) || w[k] == 0 {
			continue
		}
		blob := snap[string(append([]byte{rawdb.SnapshotAccountPrefix[0]}, crypto.Keccak256(r.Shape.Addr(k).Bytes())...))]
		var slim types.SlimAccount
		if err := rlp.DecodeBytes(blob, &slim); err != nil {
			panic(fmt.Sprintf("harness: canonical account %d of %v: %v", k, w, err))
		}
		wi.Accounts[k] = acctImage{Nonce: slim.Nonce, Balance: slim.Balance.Uint64(), Root: slim.Root, Code: slim.CodeHash}
	}
	if o, dup := r.ByRoot[root]; dup && !o.W.Eq(w) {
		panic(fmt.Sprintf("harness: two worlds with one root: %v %v", o.W, w))
	}
	r.ByKey[w.Key()] = wi
	r.ByRoot[root] = wi
	r.ByImage[img] = wi
	r.Order = append(r.Order, wi)
	return wi
}

// writeWorld applies the changes leading from world p to world n on a StateDB positioned
// at p.  touch lists keys that are written even though their value does not change.
func writeWorld(s Shape, st *state.StateDB, p, n World, touch map[int]bool) {
	for a := 0; a < len(n); a++ {
		if !s.IsAcct(a) {
			continue
		}
		addr := s.Addr(a)
		switch {
		case p[a] != 0 && n[a] == 0:
			st.SelfDestruct(addr)
			continue
		case p[a] == 0 && n[a] == 0:
			continue
		}
		if p[a] != n[a] || touch[a] {
			if s.IsCounter(a) {
				st.SetNonce(addr, uint64(n[a]), tracing.NonceChangeUnspecified)
				st.SetBalance(addr, uint256.NewInt(1), tracing.BalanceChangeUnspecified)
			} else {
				st.SetBalance(addr, uint256.NewInt(uint64(n[a])), tracing.BalanceChangeUnspecified)
			}
		}
		for k := a + 1; k < len(n) && s.Owner(k) == a; k++ {
			if p[k] != n[k] || touch[k] {
				st.SetState(addr, s.Slot(k), common.BigToHash(uint256.NewInt(uint64(n[k])).ToBig()))
			}
		}
	}
}

// Open creates (or reopens, when kv/dir already hold data) the database.
func Open(shape Shape, cfg Config, dir string, kv *KV, reg *Registry) (*Env, error) {
	if reg == nil {
		reg = NewRegistry(shape, cfg.Cancun)
	}
	e := &Env{Shape: shape, Cfg: cfg, Dir: dir, KV: kv, Reg: reg}
	if err := e.open(); err != nil {
		return nil, err
	}
	return e, nil
}

func (e *Env) PathConfig() *pathdb.Config {
	c := &pathdb.Config{
		StateHistory:        e.Cfg.HistLimit,
		TrienodeHistory:     -1,
		EnableStateIndexing: e.Cfg.Index,
		TrieCleanSize:       e.Cfg.CleanCache,
		StateCleanSize:      e.Cfg.CleanCache,
		WriteBufferSize:     e.Cfg.BufSize,
		NoAsyncFlush:        !e.Cfg.Async,
		NoAsyncGeneration:   true,
		NoHistoryIndexDelay: true,
	}
	if e.Cfg.Trienode {
		c.TrienodeHistory = 0
	}
	if e.Cfg.JournalInDir {
		c.JournalDirectory = filepath.Join(e.Dir, "journal")
	}
	return c
}

// seed writes the ballast-only initial state straight into an empty key-value store (flat
// state + trie nodes, persistent id 0, no histories, no id table): the database under test
// then starts from a non-empty state with id 0, as a node does from its genesis state.
func (e *Env) seed() {
	if e.Shape.Ballast == 0 || e.KV.Database.Len() != 0 {
		return
	}
	disk := rawdb.NewDatabase(e.KV)
	tdb := triedb.NewDatabase(disk, &triedb.Config{PathDB: &pathdb.Config{NoAsyncFlush: true, NoAsyncGeneration: true, TrienodeHistory: -1}})
	sdb := state.NewDatabase(tdb, state.NewCodeDB(disk))
	st, err := state.New(types.EmptyRootHash, sdb)
	if err != nil {
		panic(fmt.Sprintf("harness: seed: %v", err))
	}
	writeBallast(e.Shape, st)
	root, err := st.Commit(rules(e.Cfg.Cancun), 0)
	if err != nil {
		panic(fmt.Sprintf("harness: seed commit: %v", err))
	}
	if err := tdb.Commit(root, false); err != nil {
		panic(fmt.Sprintf("harness: seed flush: %v", err))
	}
	tdb.Close()
	rawdb.WritePersistentStateID(e.KV.Database, 0)
	e.KV.Database.Delete([]byte("TrieJournal"))
	for k := range e.KV.Snapshot() {
		if len(k) == 1+common.HashLength && k[0] == 'L' {
			e.KV.Database.Delete([]byte(k))
		}
	}
}

func (e *Env) open(hints ...common.Hash) error {
	pathdb.VerifHistSetMaxDiffLayers(e.Cfg.MaxDiff)
	e.seed()
	disk, err := rawdb.Open(e.KV, rawdb.OpenOptions{Ancient: e.Dir})
	if err != nil {
		return err
	}
	e.Disk = disk
	e.TDB = triedb.NewDatabase(disk, &triedb.Config{PathDB: e.PathConfig()})
	e.SDB = state.NewDatabase(e.TDB, state.NewCodeDB(disk))
	// locate the pathdb.Database behind the triedb wrapper
	root, _ := e.diskRootFromKV()
	if _, droot, _, diffs, ok := pathdb.VerifHistJournal(e.KV.Database); ok {
		hints = append(append(hints, droot), diffs...) // layers restored from a stored journal
	}
	for _, h := range append(hints, root) {
		if nr, err := e.TDB.NodeReader(h); err == nil {
			e.PDB = pathdb.VerifHistDB(nr)
			break
		}
	}
	if e.PDB == nil {
		return errors.New("cannot locate pathdb.Database")
	}
	return nil
}

// diskRootFromKV computes the root recorded in the key-value store (hash of the root node).
func (e *Env) diskRootFromKV() (common.Hash, bool) {
	blob := rawdb.ReadAccountTrieNode(e.KV.Database, nil)
	if len(blob) == 0 {
		return types.EmptyRootHash, false
	}
	return crypto.Keccak256Hash(blob), true
}

// Close closes database and freezers without journaling.
func (e *Env) Close() {
	if e.TDB != nil {
		e.TDB.Close()
	}
	if e.Disk != nil {
		e.Disk.Close()
	}
	e.TDB, e.Disk, e.PDB = nil, nil, nil
}

// Reopen closes and opens again on the same stores. With journal != nil the layers up
// to that root are journaled first (clean shutdown); otherwise in-memory layers are lost.
func (e *Env) Reopen(journal *common.Hash) error {
	if journal != nil {
		if err := e.TDB.Journal(*journal); err != nil {
			return fmt.Errorf("journal: %w", err)
		}
	}
	e.Close()
	if journal != nil {
		return e.open(*journal)
	}
	return e.open()
}

// Transition executes one state transition from the layer with world p (must be live) to
// world n through state.StateDB and returns what was handed to the path database.
type Transition struct {
	Root    common.Hash
	Called  bool  // pathdb.Update was reached (root differs from the parent root)
	Diff    []int // per key: new value if the key is in the update's origin set, else -1
	Err     error
	Destruc bool
}

func (e *Env) Transition(p, n World, touch map[int]bool, recreate map[int]bool) Transition {
	pi := e.Reg.Info(p)
	st, err := state.New(pi.Root, e.SDB)
	if err != nil {
		return Transition{Err: fmt.Errorf("state.New(%x): %w", pi.Root, err)}
	}
	r := rules(e.Cfg.Cancun)
	if len(recreate) > 0 {
		// destruct in a first "transaction", recreate afterwards in the same block
		for a := range recreate {
			st.SelfDestruct(e.Shape.Addr(a))
		}
		st.Finalise(r)
		q := p.Copy()
		for a := range recreate {
			for k := a; k < len(q) && e.Shape.Owner(k) == a; k++ {
				q[k] = 0
			}
		}
		writeWorld(e.Shape, st, q, n, touch)
	} else {
		writeWorld(e.Shape, st, p, n, touch)
	}
	e.Block++
	root, upd, err := st.CommitWithUpdate(r, e.Block)
	if err != nil {
		return Transition{Err: err, Called: true, Root: root}
	}
	t := Transition{Root: root, Called: upd.Root != upd.OriginRoot, Diff: make([]int, len(n))}
	for k := range t.Diff {
		t.Diff[k] = -1
	}
	for k := range n {
		addr := e.Shape.Addr(k)
		if e.Shape.IsAcct(k) {
			if _, ok := upd.AccountsOrigin[addr]; ok {
				t.Diff[k] = n[k]
			}
			continue
		}
		key := e.Shape.Slot(k)
		if upd.StorageKeyType != state.StorageKeyPlain {
			key = crypto.Keccak256Hash(key.Bytes())
		}
		if _, ok := upd.StoragesOrigin[addr][key]; ok {
			t.Diff[k] = n[k]
		}
	}
	return t
}

// ---------------------------------------------------------------- observation

// decodeAcct maps the slim-RLP account blob to the model value of account key k.
func (e *Env) decodeAcct(k int, blob []byte) (int, error) {
	if len(blob) == 0 {
		return 0, nil
	}
	acc, err := types.FullAccount(blob)
	if err != nil {
		return 0, err
	}
	if e.Shape.IsCounter(k) {
		return int(acc.Nonce), nil
	}
	return int(acc.Balance.Uint64()), nil
}

func decodeSlot(blob []byte) (int, error) {
	if len(blob) == 0 {
		return 0, nil
	}
	_, content, _, err := rlp.Split(blob)
	if err != nil {
		return 0, err
	}
	v := 0
	for _, b := range content {
		v = v<<8 | int(b)
	}
	return v, nil
}

// ReadFlat reads every key through the flat-state reader of the given root.
func (e *Env) ReadFlat(root common.Hash) (World, error) {
	sr, err := e.TDB.StateReader(root)
	if err != nil {
		return nil, err
	}
	w := make(World, e.Shape.NK())
	for k := range w {
		ah := crypto.Keccak256Hash(e.Shape.Addr(k).Bytes())
		if e.Shape.IsAcct(k) {
			acc, err := sr.Account(ah)
			if err != nil {
				return nil, err
			}
			if acc != nil {
				if e.Shape.IsCounter(k) {
					w[k] = int(acc.Nonce)
				} else {
					w[k] = int(acc.Balance.Uint64())
				}
			}
			continue
		}
		blob, err := sr.Storage(ah, crypto.Keccak256Hash(e.Shape.Slot(k).Bytes()))
		if err != nil {
			return nil, err
		}
		if w[k], err = decodeSlot(blob); err != nil {
			return nil, err
		}
	}
	return w, nil
}

// ReadTrie reads every key through the account/storage tries of the given root and walks
// all their nodes (every node must resolve with the right hash).
func (e *Env) ReadTrie(root common.Hash) (World, error) { return e.ReadTrieFrom(e.TDB, root) }

// ReadTrieFrom is ReadTrie over an arbitrary node database (e.g. the historic node reader).
func (e *Env) ReadTrieFrom(ndb database.NodeDatabase, root common.Hash) (World, error) {
	tr, err := trie.NewStateTrie(trie.StateTrieID(root), ndb)
	if err != nil {
		return nil, err
	}
	w := make(World, e.Shape.NK())
	for k := range w {
		if !e.Shape.IsAcct(k) {
			continue
		}
		addr := e.Shape.Addr(k)
		acc, err := tr.GetAccount(addr)
		if err != nil {
			return nil, err
		}
		if acc == nil {
			continue
		}
		if e.Shape.IsCounter(k) {
			w[k] = int(acc.Nonce)
		} else {
			w[k] = int(acc.Balance.Uint64())
		}
		stt, err := trie.NewStateTrie(trie.StorageTrieID(root, crypto.Keccak256Hash(addr.Bytes()), acc.Root), ndb)
		if err != nil {
			return nil, err
		}
		for s := k + 1; s < len(w) && e.Shape.Owner(s) == k; s++ {
			val, err := stt.GetStorage(addr, e.Shape.Slot(s).Bytes())
			if err != nil {
				return nil, err
			}
			for _, b := range val {
				w[s] = w[s]<<8 | int(b)
			}
		}
		it, err := stt.NodeIterator(nil)
		if err != nil {
			return nil, err
		}
		for it.Next(true) {
		}
		if it.Error() != nil {
			return nil, it.Error()
		}
	}
	it, err := tr.NodeIterator(nil)
	if err != nil {
		return nil, err
	}
	leaves := 0
	for it.Next(true) {
		if it.Leaf() {
			leaves++
		}
	}
	if it.Error() != nil {
		return nil, it.Error()
	}
	n := 0
	for k := range w {
		if e.Shape.IsAcct(k) && w[k] != 0 {
			n++
		}
	}
	if leaves != n+e.Shape.Ballast {
		return nil, fmt.Errorf("account trie of %x has %d leaves, %d known accounts exist", root, leaves, n)
	}
	return w, nil
}

// View reads the state of a live root through both the flat reader and the tries; the
// result is nil (with the reason) unless both agree.
func (e *Env) View(root common.Hash) (World, error) {
	f, err := e.ReadFlat(root)
	if err != nil {
		return nil, fmt.Errorf("flat: %w", err)
	}
	t, err := e.ReadTrie(root)
	if err != nil {
		return nil, fmt.Errorf("trie: %w", err)
	}
	if !f.Eq(t) {
		return nil, fmt.Errorf("flat state %v differs from trie %v", f, t)
	}
	return f, nil
}

// KVWorld identifies the world whose canonical image equals the persisted flat state and
// trie nodes; nil if the key space matches no known world.
func (e *Env) KVWorld() World {
	img, _ := stateImage(e.KV.Snapshot())
	if wi, ok := e.Reg.ByImage[img]; ok {
		return wi.W
	}
	return nil
}

// WorldOfRoot maps a root hash back to the world (nil if never seen).
func (e *Env) WorldOfRoot(h common.Hash) World {
	if wi, ok := e.Reg.ByRoot[h]; ok {
		return wi.W
	}
	return nil
}

// Rec is the projection of one state history object.
type Rec struct {
	ID     int   `json:"id"`
	Parent World `json:"parent"`
	Root   World `json:"root"`
	Prev   []int `json:"prev"` // per key: original value if recorded, else -1
}

// HistRec reads and projects state history id.
func (e *Env) HistRec(id uint64) (*Rec, error) {
	h, err := e.PDB.VerifHistRead(id)
	if err != nil {
		return nil, err
	}
	return e.projectRec(id, h)
}

func (e *Env) projectRec(id uint64, h *pathdb.VerifHistRecord) (*Rec, error) {
	var err error
	r := &Rec{ID: int(id), Parent: e.WorldOfRoot(h.Parent), Root: e.WorldOfRoot(h.Root), Prev: make([]int, e.Shape.NK())}
	if r.Parent == nil {
		r.Parent = World{}
	}
	if r.Root == nil {
		r.Root = World{}
	}
	for k := range r.Prev {
		r.Prev[k] = -1
	}
	known := 0
	for k := range r.Prev {
		addr := e.Shape.Addr(k)
		if e.Shape.IsAcct(k) {
			if blob, ok := h.Accounts[addr]; ok {
				if r.Prev[k], err = e.decodeAcct(k, blob); err != nil {
					return nil, err
				}
				known++
			}
			continue
		}
		key := e.Shape.Slot(k)
		if !h.RawKey {
			key = crypto.Keccak256Hash(key.Bytes())
		}
		if blob, ok := h.Storages[addr][key]; ok {
			if r.Prev[k], err = decodeSlot(blob); err != nil {
				return nil, err
			}
			known++
		}
	}
	total := len(h.Accounts)
	for _, s := range h.Storages {
		total += len(s)
	}
	if total != known {
		return nil, fmt.Errorf("history %d holds %d entries, only %d belong to known keys", id, total, known)
	}
	return r, nil
}

// StateID reads the root->id mapping (-1 if absent).
func (e *Env) StateID(root common.Hash) int {
	id := rawdb.ReadStateID(e.KV.Database, root)
	if id == nil {
		return -1
	}
	return int(*id)
}

// ScratchDir creates a scratch directory for freezer files: on tmpfs when available (the
// freezer fsyncs after every history write, which is slow on a shared disk and irrelevant
// for the properties checked), else below the current directory. The caller removes it.
func ScratchDir(prefix string) string {
	for _, base := range []string{"/dev/shm", "."} {
		if d, err := os.MkdirTemp(base, prefix); err == nil {
			return d
		}
	}
	panic("harness: no scratch directory")
}
