package pdb

import (
	"crypto/sha256"
	"encoding/json"
	"fmt"
	"os"
	"path/filepath"
	"sort"
	"strings"
	"sync"

	"github.com/ethereum/go-ethereum/common"
	"github.com/ethereum/go-ethereum/core/rawdb"
	"github.com/ethereum/go-ethereum/ethdb/memorydb"
	"github.com/ethereum/go-ethereum/triedb/pathdb"
	tl "verif/harness/tracelib"
)

// ---- crash images (C20) ----

// Image is the on-disk state at one instant: the key-value content and every file below
// the ancient directory. Lost is the variant in which every file that has been fsynced at
// least once holds exactly its content at its last fsync (all later writes lost).
type Image struct {
	Tag   string
	KV    map[string][]byte
	Files map[string][]byte // path relative to the ancient dir -> content
}

func (im *Image) Digest() [32]byte {
	h := sha256.New()
	keys := make([]string, 0, len(im.KV))
	for k := range im.KV {
		keys = append(keys, k)
	}
	sort.Strings(keys)
	for _, k := range keys {
		fmt.Fprintf(h, "%x=%x;", k, im.KV[k])
	}
	names := make([]string, 0, len(im.Files))
	for n := range im.Files {
		names = append(names, n)
	}
	sort.Strings(names)
	for _, n := range names {
		fmt.Fprintf(h, "%s:%d:%x;", n, len(im.Files[n]), sha256.Sum256(im.Files[n]))
	}
	var d [32]byte
	copy(d[:], h.Sum(nil))
	return d
}

// Capture collects crash images of one Env: at every key-value write (just before it), at
// every fsync of a freezer file (just after it) and whenever Snap is called.
type Capture struct {
	mu     sync.Mutex
	e      *Env
	synced map[string][]byte // absolute path -> content at last fsync
	Images []*Image
	seen   map[[32]byte]bool
	On     bool
}

// NewCapture installs the hooks; it must be called before the database is opened.
func NewCapture() *Capture {
	c := &Capture{synced: map[string][]byte{}, seen: map[[32]byte]bool{}}
	rawdb.VerifHook = func(ev string, kv ...any) {
		if ev != "fsync" || len(kv) < 1 {
			return
		}
		name, _ := kv[0].(string)
		c.mu.Lock()
		if b, err := os.ReadFile(name); err == nil {
			c.synced[name] = b
		}
		c.mu.Unlock()
		c.Snap("fsync:" + filepath.Base(name))
	}
	return c
}

// Attach binds the capture to an opened Env (key-value hook).
func (c *Capture) Attach(e *Env) {
	c.e = e
	e.KV.OnWrite = func(after bool, kind string) {
		if !after {
			c.Snap("kv:" + kind)
		}
	}
}

// Snap records the current on-disk state (both variants), dropping duplicates.
func (c *Capture) Snap(tag string) {
	c.mu.Lock()
	defer c.mu.Unlock()
	if !c.On || c.e == nil {
		return
	}
	kv := c.e.KV.Snapshot()
	full := &Image{Tag: tag, KV: kv, Files: map[string][]byte{}}
	lost := &Image{Tag: tag + "+lost", KV: kv, Files: map[string][]byte{}}
	differs := false
	filepath.Walk(c.e.Dir, func(p string, info os.FileInfo, err error) error {
		if err != nil || info.IsDir() || strings.HasSuffix(p, "FLOCK") {
			return nil
		}
		b, err := os.ReadFile(p)
		if err != nil {
			return nil
		}
		rel, _ := filepath.Rel(c.e.Dir, p)
		full.Files[rel] = b
		if s, ok := c.synced[p]; ok {
			lost.Files[rel] = s
			if len(s) != len(b) || string(s) != string(b) {
				differs = true
			}
		} else {
			lost.Files[rel] = b
		}
		return nil
	})
	for _, im := range []*Image{full, lost} {
		if im == lost && !differs {
			continue
		}
		d := im.Digest()
		if c.seen[d] {
			continue
		}
		c.seen[d] = true
		c.Images = append(c.Images, im)
	}
}

// Take returns and clears the collected images.
func (c *Capture) Take() []*Image {
	c.mu.Lock()
	defer c.mu.Unlock()
	out := c.Images
	c.Images = nil
	return out
}

// ChildSpec is what the reopening child process needs.
type ChildSpec struct {
	Shape  Shape
	Cfg    Config
	Worlds []World
	Seed   int64
}

// WriteImage materialises an image below dir: dir/ancient/... and dir/kv.json.
func WriteImage(dir string, im *Image, spec ChildSpec) {
	os.RemoveAll(dir)
	for rel, b := range im.Files {
		p := filepath.Join(dir, "ancient", rel)
		os.MkdirAll(filepath.Dir(p), 0o755)
		if err := os.WriteFile(p, b, 0o644); err != nil {
			tl.Fatal("write image: %v", err)
		}
	}
	os.MkdirAll(filepath.Join(dir, "ancient"), 0o755)
	enc := map[string]string{}
	for k, v := range im.KV {
		enc[fmt.Sprintf("%x", k)] = fmt.Sprintf("%x", v)
	}
	b, _ := json.Marshal(tl.M{"kv": enc, "spec": spec})
	if err := os.WriteFile(filepath.Join(dir, "kv.json"), b, 0o644); err != nil {
		tl.Fatal("write image: %v", err)
	}
}

// LoadImage reads back what WriteImage wrote.
func LoadImage(dir string) (*KV, ChildSpec) {
	var in struct {
		KV   map[string]string `json:"kv"`
		Spec ChildSpec         `json:"spec"`
	}
	tl.ReadJSON(filepath.Join(dir, "kv.json"), &in)
	kv := NewKV()
	for k, v := range in.KV {
		kv.Database.Put(common.FromHex(k), common.FromHex(v))
	}
	return kv, in.Spec
}

// DurableProjection projects the durable state of an image before the database touches
// it: persistent id, persisted world, root->id table for known worlds and the journal from
// the key-value content; freezer tail/head/records by opening the state freezer alone.
func DurableProjection(kv *KV, ancient string, shape Shape, reg *Registry) tl.M {
	e := &Env{Shape: shape, KV: kv, Reg: reg, Dir: ancient}
	ev := tl.M{"pid": rawdb.ReadPersistentStateID(kv.Database), "kvw": worldOrEmpty(e.KVWorld())}
	ids := []tl.M{}
	for _, wi := range reg.Order {
		ids = append(ids, tl.M{"w": wi.W, "id": e.StateID(wi.Root)})
	}
	ev["ids"] = ids
	if base, droot, did, diffs, ok := pathdb.VerifHistJournal(kv.Database); ok {
		ev["jr"] = tl.M{"has": true, "base": worldOrEmpty(e.WorldOfRoot(base)), "disk": tl.M{"root": worldOrEmpty(e.WorldOfRoot(droot)), "id": did}, "n": len(diffs)}
	} else {
		ev["jr"] = tl.M{"has": false}
	}
	fz, err := rawdb.NewStateFreezer(ancient, false, false)
	if err != nil {
		ev["fzerr"] = err.Error()
		ev["tail"], ev["head"], ev["recs"] = 0, 0, []*Rec{}
		return ev
	}
	defer fz.Close()
	head, _ := fz.Ancients()
	tail, _ := fz.Tail(rawdb.DefaultHistoryGroup)
	if head == tail && head > 0 && rawdb.ReadPersistentStateID(kv.Database) == 0 {
		// Freezer-level quirk (not pathdb's concern, see NOTES.md): when a crash leaves the first
		// item ever in some tables only, Freezer.repair treats the empty tables as newly added and
		// moves their tail up to the head: the freezer then reports head = tail = 1 and holds
		// nothing. With persistent id 0 the database purges the histories anyway; an empty
		// freezer is projected as tail = head = 0.
		ev["fzquirk"] = fmt.Sprintf("empty freezer reported tail=head=%d", head)
		head, tail = 0, 0
	}
	ev["tail"], ev["head"] = tail, head
	recs := []*Rec{}
	for id := tail + 1; id <= head; id++ {
		h, err := pathdb.VerifHistReadFrom(fz, id)
		if err != nil {
			ev["fzerr"] = fmt.Sprintf("history %d: %v", id, err)
			recs = append(recs, &Rec{ID: int(id), Parent: World{}, Root: World{}, Prev: []int{}})
			continue
		}
		r, err := e.projectRec(id, h)
		if err != nil {
			ev["fzerr"] = err.Error()
			r = &Rec{ID: int(id), Parent: World{}, Root: World{}, Prev: []int{}}
		}
		recs = append(recs, r)
	}
	ev["recs"] = recs
	return ev
}

var _ = memorydb.New
