package pdb

import (
	"fmt"
	"time"

	"github.com/ethereum/go-ethereum/common"
	"github.com/ethereum/go-ethereum/crypto"
	"github.com/ethereum/go-ethereum/triedb/database"
	tl "verif/harness/tracelib"
)

// ---- state-history index and historical reads (C18) ----

// WaitIndexed polls until the state history indexer reports that its initial run has
// finished (long deadline: the machine may be heavily loaded). It returns false when
// indexing is disabled.
func (rn *Runner) WaitIndexed() bool {
	if !rn.E.Cfg.Index {
		return false
	}
	deadline := time.Now().Add(10 * time.Minute)
	for {
		exists, inited := rn.E.PDB.VerifHistIndexInited(false)
		if !exists {
			return false
		}
		if texists, tinited := rn.E.PDB.VerifHistIndexInited(true); texists && !tinited {
			inited = false
		}
		if inited {
			return true
		}
		if time.Now().After(deadline) {
			tl.Fatal("state history indexer did not finish its initial run within 10 minutes")
		}
		time.Sleep(2 * time.Millisecond)
	}
}

// ObserveIndex adds the projection of the index to an event: metadata position, whether
// the indexer is initialised, and per key the indexed history ids above the freezer tail.
func (rn *Runner) ObserveIndex(ev tl.M) {
	e := rn.E
	exists, inited := e.PDB.VerifHistIndexInited(false)
	last, ok := e.PDB.VerifHistIndexLast(false)
	l := -1
	if ok {
		l = int(last)
	}
	tail, _, _, _ := e.PDB.VerifHistRange()
	set := make([][]uint64, e.Shape.NK())
	for k := range set {
		set[k] = []uint64{}
		ah := crypto.Keccak256Hash(e.Shape.Addr(k).Bytes())
		var sh *common.Hash
		if !e.Shape.IsAcct(k) {
			h := crypto.Keccak256Hash(e.Shape.Slot(k).Bytes())
			sh = &h
		}
		ids, err := e.PDB.VerifHistIndexIDs(ah, sh)
		if err != nil {
			ev["ixerr"] = fmt.Sprintf("key %d: %v", k, err)
			set[k] = []uint64{1 << 30}
			continue
		}
		for _, id := range ids {
			if id > tail {
				set[k] = append(set[k], id)
			}
		}
	}
	ev["ix"] = tl.M{"on": exists, "inited": inited, "last": l, "set": set}
	rn.LastInited = exists && inited
}

// IndexRunEvent records the progress of the background indexer as one step. With wait it
// first waits for the initial indexing to finish.
func (rn *Runner) IndexRunEvent(wait bool) {
	if rn.LastInited || !rn.E.Cfg.Index {
		return // the previous event already showed a completed initialisation: nothing to record
	}
	if wait && !rn.WaitIndexed() {
		return
	}
	ev := tl.M{"op": "IndexRun"}
	rn.observe(ev)
	rn.Tr.Emit(ev)
	rn.Sum.Count("IndexRun")
}

// HRead opens a historic reader at world w and reads every key. vals[k] = value, or -2 if
// that read failed, or -3 if the account blob differs from the canonical account of w
// (e.g. wrong storage root) although its projected value is right.
func (rn *Runner) HRead(w World) (served bool) {
	e := rn.E
	wi := e.Reg.Info(w)
	ev := tl.M{"op": "HRead", "w": w}
	vals := []int{}
	hr, err := e.TDB.HistoricStateReader(wi.Root)
	if err != nil {
		ev["served"] = false
		ev["err"] = err.Error()
	} else {
		ev["served"] = true
		served = true
		for k := 0; k < e.Shape.NK(); k++ {
			addr := e.Shape.Addr(k)
			if e.Shape.IsAcct(k) {
				acc, err := hr.Account(addr)
				switch {
				case err != nil:
					vals = append(vals, -2)
					ev["rerr"] = err.Error()
				case acc == nil:
					vals = append(vals, 0)
				default:
					v := int(acc.Balance.Uint64())
					if e.Shape.IsCounter(k) {
						v = int(acc.Nonce)
					}
					if want, ok := wi.Accounts[k]; ok && v == w[k] && !want.sameAs(acc.Nonce, acc.Balance.Uint64(), acc.Root, acc.CodeHash) {
						v = -3
						ev["rerr"] = fmt.Sprintf("account %d: storage root/nonce/code differ from the canonical account of the state", k)
					}
					vals = append(vals, v)
				}
				continue
			}
			blob, err := hr.Storage(addr, e.Shape.Slot(k))
			if err != nil {
				vals = append(vals, -2)
				ev["rerr"] = err.Error()
				continue
			}
			v, err := decodeSlot(blob)
			if err != nil {
				v = -3
			}
			vals = append(vals, v)
		}
	}
	ev["vals"] = vals
	rn.observe(ev)
	rn.Tr.Emit(ev)
	rn.Sum.Count("HRead")
	if served {
		rn.Sum.Count("HRead:served")
	}
	return served
}

// histNodeDB serves every trie of one historic state through the historic node reader.
type histNodeDB struct{ r database.NodeReader }

func (h histNodeDB) NodeReader(common.Hash) (database.NodeReader, error) { return h.r, nil }

// HNode opens the historic trie-node reader at world w and walks the account trie and all
// storage tries of that state through it; the state read back is logged.
func (rn *Runner) HNode(w World) {
	e := rn.E
	wi := e.Reg.Info(w)
	ev := tl.M{"op": "HNode", "w": w}
	world := []int{}
	hr, err := e.TDB.HistoricNodeReader(wi.Root)
	if err != nil {
		ev["served"] = false
		ev["err"] = err.Error()
	} else {
		ev["served"] = true
		got, err := e.ReadTrieFrom(histNodeDB{hr}, wi.Root)
		if err != nil {
			ev["rerr"] = err.Error()
		} else {
			world = got
		}
	}
	ev["world"] = world
	rn.observe(ev)
	rn.Tr.Emit(ev)
	rn.Sum.Count("HNode")
	if err == nil {
		rn.Sum.Count("HNode:served")
	}
}
