package pdb

import (
	"encoding/json"
	"fmt"
	"math/rand"
	"os"

	"github.com/ethereum/go-ethereum/common"
	"github.com/ethereum/go-ethereum/core/rawdb"
	"github.com/ethereum/go-ethereum/triedb/pathdb"
	tl "verif/harness/tracelib"
)

// Trace is an unbuffered ndjson writer: events must survive a log.Crit exit of the process.
type Trace struct {
	f    *os.File
	N    int
	hold bool
	held [][]byte
}

// Hold makes Emit keep events in memory until Release (EmitNow still writes at once).
func (t *Trace) Hold() { t.hold = true }

// Release writes the held events.
func (t *Trace) Release() {
	for _, b := range t.held {
		t.f.Write(b)
		t.N++
	}
	t.held, t.hold = nil, false
}

// EmitNow writes an event immediately, ahead of held ones.
func (t *Trace) EmitNow(ev any) {
	h := t.hold
	t.hold = false
	t.Emit(ev)
	t.hold = h
}

func NewTrace(path string) *Trace {
	f, err := os.Create(path)
	if err != nil {
		tl.Fatal("create trace: %v", err)
	}
	return &Trace{f: f}
}

func (t *Trace) Emit(ev any) {
	b, err := json.Marshal(ev)
	if err != nil {
		tl.Fatal("marshal event: %v", err)
	}
	b = append(b, '\n')
	if t.hold {
		t.held = append(t.held, b)
		return
	}
	t.f.Write(b)
	t.N++
}

func (t *Trace) Close() { t.f.Close() }

// Runner executes model-level operations on a real database and records one event per
// operation: the operation, its actual arguments/outcome and the projected abstract state.
type Runner struct {
	E           *Env
	Head        common.Hash // root of the top layer of the current branch
	Tr          *Trace
	Sum         *tl.Summary
	R           *rand.Rand
	Counter     int   // last value of the counter account
	Full        bool  // log complete id/recoverable/record listings (small models)
	Rolled      bool  // a rollback succeeded since the stored journal was written
	LastDiff    []int // diff of the last Update event
	NoWaitIndex bool  // do not wait for the initial indexing run after a reopen
	LastInited  bool  // the index projection of the last event showed a completed initialisation
	Extra       func(ev tl.M)
}

func NewRunner(shape Shape, cfg Config, dir string, tr *Trace, sum *tl.Summary, r *rand.Rand) (*Runner, error) {
	os.RemoveAll(dir)
	if err := os.MkdirAll(dir, 0o755); err != nil {
		return nil, err
	}
	e, err := Open(shape, cfg, dir, NewKV(), nil)
	if err != nil {
		return nil, err
	}
	rn := &Runner{E: e, Tr: tr, Sum: sum, R: r}
	rn.Head, _, _, _ = e.PDB.VerifHistDisk()
	rn.E.Reg.Info(make(World, shape.NK()))
	return rn, nil
}

func (rn *Runner) Close() {
	rn.E.Close()
	os.RemoveAll(rn.E.Dir)
}

// ResetEvent starts a new trace in the ndjson stream.
func (rn *Runner) ResetEvent(extra tl.M) {
	ev := tl.M{"op": "reset", "nk": rn.E.Shape.NK(), "cfg": tl.M{"maxDiff": rn.E.Cfg.MaxDiff, "histLimit": rn.E.Cfg.HistLimit, "async": rn.E.Cfg.Async}}
	for k, v := range extra {
		ev[k] = v
	}
	rn.observe(ev)
	rn.Tr.Emit(ev)
}

// PersistentID reads the persistent state id from the key-value store.
func (rn *Runner) PersistentID() int { return int(rawdb.ReadPersistentStateID(rn.E.KV.Database)) }

// ChainRoots returns the roots from the disk layer (index 0) up to the head.
func (rn *Runner) ChainRoots() []common.Hash {
	roots, _, ok := rn.E.PDB.VerifHistChain(rn.Head)
	if !ok {
		tl.Fatal("head %x is not a live layer", rn.Head)
	}
	return roots
}

func worldOrEmpty(w World) []int {
	if w == nil {
		return []int{}
	}
	return w
}

// Observe adds the projected abstract state to the event.
func (rn *Runner) Observe(ev tl.M) { rn.observe(ev) }

func (rn *Runner) observe(ev tl.M) {
	e := rn.E
	if err := e.PDB.VerifHistWaitFlush(); err != nil {
		ev["flusherr"] = err.Error()
	}
	droot, did, bufn, _ := e.PDB.VerifHistDisk()
	ev["disk"] = tl.M{"root": worldOrEmpty(e.WorldOfRoot(droot)), "id": did}
	ev["bufn"] = bufn
	ev["pid"] = rawdb.ReadPersistentStateID(e.KV.Database)
	ev["kvw"] = worldOrEmpty(e.KVWorld())
	view, err := e.View(droot)
	if err != nil {
		ev["viewerr"] = err.Error()
	}
	ev["view"] = worldOrEmpty(view)
	// live branch: every diff layer is read back completely
	roots := rn.ChainRoots()
	chain := make([][]int, 0, len(roots))
	for _, r := range roots[1:] {
		w, err := e.View(r)
		if err != nil {
			ev["chainerr"] = err.Error()
		}
		if w != nil && !w.Eq(e.WorldOfRoot(r)) {
			ev["chainerr"] = fmt.Sprintf("layer %x reads %v, root belongs to %v", r, w, e.WorldOfRoot(r))
			w = nil
		}
		chain = append(chain, worldOrEmpty(w))
	}
	ev["chain"] = chain
	// freezer
	tail, head, _, err := e.PDB.VerifHistRange()
	if err != nil {
		tl.Fatal("history range: %v", err)
	}
	ev["tail"], ev["head"] = tail, head
	recs := []*Rec{}
	for _, id := range rn.pickIDs(tail, head) {
		rec, err := e.HistRec(id)
		if err != nil {
			ev["recerr"] = fmt.Sprintf("history %d: %v", id, err)
			rec = &Rec{ID: int(id), Parent: World{}, Root: World{}, Prev: []int{}}
		}
		recs = append(recs, rec)
	}
	ev["recs"] = recs
	// root->id table and recoverability of known worlds
	ids, rec := []tl.M{}, []tl.M{}
	for _, wi := range rn.pickWorlds() {
		ids = append(ids, tl.M{"w": wi.W, "id": e.StateID(wi.Root)})
		ok, _ := e.TDB.Recoverable(wi.Root)
		rec = append(rec, tl.M{"w": wi.W, "ok": ok})
	}
	ev["ids"], ev["rec"] = ids, rec
	// the layer journal stored in the key-value store
	if base, droot, did, diffs, ok := pathdb.VerifHistJournal(e.KV.Database); ok {
		ev["jr"] = tl.M{"has": true, "base": worldOrEmpty(e.WorldOfRoot(base)), "disk": tl.M{"root": worldOrEmpty(e.WorldOfRoot(droot)), "id": did}, "n": len(diffs)}
	} else {
		ev["jr"] = tl.M{"has": false}
	}
	if rn.Extra != nil {
		rn.Extra(ev)
	}
}

func (rn *Runner) pickIDs(tail, head uint64) []uint64 {
	var out []uint64
	if rn.Full || head-tail <= 10 {
		for i := tail + 1; i <= head; i++ {
			out = append(out, i)
		}
		return out
	}
	out = append(out, tail+1, tail+2)
	for i := 0; i < 2; i++ {
		out = append(out, tail+3+uint64(rn.R.Int63n(int64(head-tail-6))))
	}
	for i := head - 3; i <= head; i++ {
		out = append(out, i)
	}
	return out
}

func (rn *Runner) pickWorlds() []*WorldInfo {
	all := rn.E.Reg.Order
	if rn.Full || len(all) <= 40 {
		return all
	}
	out := append([]*WorldInfo(nil), all[len(all)-30:]...)
	for i := 0; i < 10; i++ {
		out = append(out, all[rn.R.Intn(len(all)-30)])
	}
	return out
}

// Update performs one transition on top of layer j of the current branch.
func (rn *Runner) Update(j int, n World, touch, recreate map[int]bool) string {
	roots := rn.ChainRoots()
	if j < 0 || j >= len(roots) {
		tl.Fatal("bad parent index %d", j)
	}
	p := rn.E.WorldOfRoot(roots[j])
	rn.E.Reg.Info(n)
	want := rn.E.Reg.Info(n).Root
	t := rn.E.Transition(p, n, touch, recreate)
	res := "ok"
	switch {
	case t.Err != nil && want == roots[0] && j != 0:
		res = "err" // the new root is the disk layer's root: the layer exists, capping it is refused
	case t.Err != nil:
		res = "fail"
	case !t.Called:
		res = "noop"
	default:
		if want != t.Root {
			res = "badroot"
		}
		for _, r := range roots[1:] {
			if r == t.Root {
				res = "dup"
			}
		}
		if res == "ok" {
			rn.Head = t.Root
		}
	}
	ev := tl.M{"op": "Update", "j": j, "w": n, "res": res, "kf": ""}
	if t.Diff != nil {
		ev["d"] = t.Diff
	} else {
		d := make([]int, len(n))
		for k := range d {
			d[k] = -1
			if p[k] != n[k] {
				d[k] = n[k]
			}
		}
		ev["d"] = d
	}
	if t.Err != nil {
		ev["err"] = t.Err.Error()
	}
	rn.LastDiff = ev["d"].([]int)
	rn.observe(ev)
	rn.Tr.Emit(ev)
	rn.Sum.Count("Update")
	rn.Sum.Count("Update:" + res)
	return res
}

// Commit flattens layers 1..i of the current branch into the disk layer.
func (rn *Runner) Commit(i int) string {
	roots := rn.ChainRoots()
	err := rn.E.TDB.Commit(roots[i], false)
	res := "ok"
	if err != nil {
		res = "err"
	} else {
		rn.Head = roots[i]
	}
	ev := tl.M{"op": "Commit", "i": i, "res": res, "kf": ""}
	if err != nil {
		ev["err"] = err.Error()
	}
	rn.observe(ev)
	rn.Tr.Emit(ev)
	rn.Sum.Count("Commit")
	return res
}

// Recover rolls the database back to world w (which may be unknown to the database).
func (rn *Runner) Recover(w World) bool {
	wi := rn.E.Reg.Info(w)
	can, _ := rn.E.TDB.Recoverable(wi.Root)
	err := rn.E.TDB.Recover(wi.Root)
	if err == nil {
		rn.Head = wi.Root
		rn.Rolled = true
	} else if _, _, live := rn.E.PDB.VerifHistChain(rn.Head); !live {
		// a failed rollback that nevertheless moved the disk layer: follow it
		rn.Head, _, _, _ = rn.E.PDB.VerifHistDisk()
	}
	ev := tl.M{"op": "Recover", "w": w, "ok": err == nil, "can": can, "kf": ""}
	if err != nil {
		ev["err"] = err.Error()
	}
	rn.observe(ev)
	rn.Tr.Emit(ev)
	rn.Sum.Count("Recover")
	if err == nil {
		rn.Sum.Count("Recover:ok")
	}
	return err == nil
}

// Reopen journals the branch up to layer i, closes and opens the database again.
func (rn *Runner) Reopen(i int) { rn.reopen(i, nil) }

func (rn *Runner) reopen(i int, extra tl.M) {
	roots := rn.ChainRoots()
	if err := rn.E.Reopen(&roots[i]); err != nil {
		tl.Fatal("reopen: %v", err)
	}
	rn.Head = roots[i]
	rn.Rolled = false
	if rn.E.PDB == nil {
		tl.Fatal("reopen lost the database")
	}
	ev := tl.M{"op": "Reopen", "i": i}
	for k, v := range extra {
		ev[k] = v
	}
	if _, _, ok := rn.E.PDB.VerifHistChain(rn.Head); !ok {
		// journal was not restored: observe from the disk layer
		rn.Head, _, _, _ = rn.E.PDB.VerifHistDisk()
		ev["lost"] = true
	}
	if !rn.NoWaitIndex {
		rn.WaitIndexed()
	}
	rn.observe(ev)
	rn.Tr.Emit(ev)
	rn.Sum.Count("Reopen")
}

// ReopenWithIndex is Reopen with state indexing switched on from now on.
func (rn *Runner) ReopenWithIndex(i int, on bool) {
	rn.E.Cfg.Index = on
	rn.reopen(i, tl.M{"on": on})
}

// JournalMatches reports whether the stored journal would be accepted at the next open:
// written over the currently persisted root, persistent id not above its disk layer id.
func (rn *Runner) JournalMatches() (match bool, head common.Hash) {
	base, droot, did, diffs, ok := pathdb.VerifHistJournal(rn.E.KV.Database)
	if !ok {
		return false, common.Hash{}
	}
	kvroot, _ := rn.E.diskRootFromKV()
	if base != kvroot || rawdb.ReadPersistentStateID(rn.E.KV.Database) > did {
		return false, common.Hash{}
	}
	head = droot
	if len(diffs) > 0 {
		head = diffs[len(diffs)-1]
	}
	return true, head
}

// RestartCovered reports whether an unjournaled restart is within the scope of the C17
// model: no acceptable old journal, or no rollback since it was written.
func (rn *Runner) RestartCovered() bool {
	m, _ := rn.JournalMatches()
	return !m || !rn.Rolled
}

// Restart closes the database without journaling and opens it again.
func (rn *Runner) Restart() {
	match, jhead := rn.JournalMatches()
	rn.E.Close()
	var err error
	if match {
		err = rn.E.open(jhead)
	} else {
		err = rn.E.open()
	}
	if err != nil {
		tl.Fatal("restart: %v", err)
	}
	rn.Head, _, _, _ = rn.E.PDB.VerifHistDisk()
	restored := false
	if match {
		if _, _, ok := rn.E.PDB.VerifHistChain(jhead); ok {
			rn.Head, restored = jhead, true
		}
	}
	ev := tl.M{"op": "Restart", "restored": restored}
	rn.observe(ev)
	rn.Tr.Emit(ev)
	rn.Sum.Count("Restart")
}

// RandomWorld derives a successor world of p: a few keys change, the result is well
// formed; in Cancun mode accounts with storage are never deleted in one step.
func (rn *Runner) RandomWorld(p World, maxVal int) (n World, touch, recreate map[int]bool) {
	s := rn.E.Shape
	n = p.Copy()
	touch, recreate = map[int]bool{}, map[int]bool{}
	nk := s.NK()
	if s.Counter {
		nk--
	}
	changes := 1 + rn.R.Intn(3)
	for c := 0; c < changes && nk > 0; c++ {
		k := rn.R.Intn(nk)
		v := rn.R.Intn(maxVal + 1)
		if rn.R.Intn(3) == 0 {
			v = 0
		}
		a := s.Owner(k)
		if k == a {
			if v == 0 {
				has := false
				for q := a + 1; q < nk && s.Owner(q) == a; q++ {
					has = has || n[q] != 0 || p[q] != 0
				}
				if has && rn.E.Cfg.Cancun {
					continue // storage must be cleared by earlier transitions
				}
				for q := a + 1; q < nk && s.Owner(q) == a; q++ {
					n[q] = 0
				}
			}
			n[a] = v
		} else {
			if v != 0 && n[a] == 0 {
				n[a] = 1 + rn.R.Intn(maxVal)
			}
			if n[a] != 0 {
				n[k] = v
			}
		}
	}
	if rn.R.Intn(5) == 0 && nk > 0 {
		touch[rn.R.Intn(nk)] = true
	}
	if !rn.E.Cfg.Cancun && rn.R.Intn(8) == 0 {
		a := s.Owner(rn.R.Intn(nk))
		if p[a] != 0 && n[a] != 0 {
			recreate[a] = true
			for q := a + 1; q < nk && s.Owner(q) == a; q++ {
				n[q] = 0
				if rn.R.Intn(2) == 0 {
					n[q] = rn.R.Intn(maxVal + 1)
				}
			}
		}
	}
	if s.Counter {
		rn.Counter++
		n[len(n)-1] = rn.Counter
	}
	return n, touch, recreate
}
