// c17 binds spec/state/PathDBHist.tla to a real triedb/pathdb.Database with a state-history
// freezer (property C17: rollback restores exactly the historical state).
//
//	-mode sim    -in behaviours.json -trace t.ndjson   replay TLC-generated behaviours (R)
//	-mode random -trace t.ndjson -n N -steps S         seeded random histories (V)
//
// In both modes every operation is executed on the real database through state.StateDB /
// triedb and one event with the projected abstract state (disk layer, write buffer,
// persisted key space identified against an independently built canonical image, freezer
// range and decoded history objects, root->id table, Recoverable set, live layers read back
// through flat state and tries) is recorded; spec/state/PathDBHistTrace.tla decides.
package main

import (
	"flag"
	"fmt"
	"os"
	"path/filepath"

	"verif/harness/cmd/c17/pdb"
	tl "verif/harness/tracelib"
)

type behaviour struct {
	Cfg struct {
		MaxDiff   int    `json:"maxDiff"`
		HistLimit uint64 `json:"histLimit"`
		Pol       string `json:"pol"`
		Async     bool   `json:"async"`
	} `json:"cfg"`
	NAcc  int              `json:"nacc"`
	NSlot int              `json:"nslot"`
	Acts  []map[string]any `json:"acts"`
}

func ints(v any) []int {
	a := v.([]any)
	out := make([]int, len(a))
	for i, x := range a {
		out[i] = int(x.(float64))
	}
	return out
}

// runSim replays TLC behaviours; each one on a fresh database, once per variant.
func runSim(in, tracePath, scratch string, sum *tl.Summary) {
	var bs []behaviour
	tl.ReadJSON(in, &bs)
	tr := pdb.NewTrace(tracePath)
	defer tr.Close()
	seen := map[string]bool{}
	for bi, b := range bs {
		for variant := 0; variant < 2; variant++ {
			cfg := pdb.Config{MaxDiff: b.Cfg.MaxDiff, HistLimit: b.Cfg.HistLimit, BufSize: 1 << 22, CleanCache: 1 << 20}
			if b.Cfg.Pol == "always" {
				cfg.BufSize = 0
			}
			cfg.Async = b.Cfg.Async
			// variant 1: Cancun rules (raw storage keys), trienode history on, no clean caches
			if variant == 1 {
				cfg.Cancun, cfg.Trienode, cfg.CleanCache = true, true, 0
			}
			shape := pdb.Shape{NAcc: b.NAcc, NSlot: b.NSlot}
			rn, err := pdb.NewRunner(shape, cfg, filepath.Join(scratch, fmt.Sprintf("sim-%d-%d", bi, variant)), tr, sum, tl.Rand(int64(bi)))
			if err != nil {
				tl.Fatal("open: %v", err)
			}
			rn.Full = true
			rn.ResetEvent(tl.M{"src": "tlc", "variant": variant})
			steps := 0
		acts:
			for _, a := range b.Acts {
				switch a["op"].(string) {
				case "Update":
					j := int(a["j"].(float64))
					d := ints(a["d"])
					roots := rn.ChainRoots()
					if j >= len(roots) {
						break acts // the real branch is shorter than the model's: the trace spec will have said so
					}
					p := rn.E.WorldOfRoot(roots[j])
					n := p.Copy()
					touch := map[int]bool{}
					illegal := false
					for k, v := range d {
						if v == -1 {
							continue
						}
						if v == p[k] {
							touch[k] = true
						}
						n[k] = v
						if cfg.Cancun && shape.IsAcct(k) && v == 0 && p[k] != 0 {
							for q := k + 1; q < len(p) && shape.Owner(q) == k; q++ {
								illegal = illegal || p[q] != 0
							}
						}
					}
					if illegal {
						break acts // Cancun rules forbid deleting an account that still has storage
					}
					rn.Update(j, n, touch, nil)
				case "Commit":
					i := int(a["i"].(float64))
					if i >= len(rn.ChainRoots()) {
						break acts
					}
					rn.Commit(i)
				case "Recover":
					rn.Recover(pdb.World(ints(a["w"])))
				case "Reopen":
					i := int(a["i"].(float64))
					if i >= len(rn.ChainRoots()) {
						break acts
					}
					rn.Reopen(i)
				case "Restart":
					if !rn.RestartCovered() {
						break acts // the model never schedules this (guard of Restart)
					}
					rn.Restart()
				default:
					tl.Fatal("unknown op %v", a["op"])
				}
				steps++
			}
			rn.Close()
			sum.Traces++
			sum.Evaluations++
			key := fmt.Sprint(b.Cfg, b.Acts)
			if !seen[key] {
				seen[key] = true
				sum.Distinct++
			}
			if bi < 2 && variant == 0 {
				sum.Sample(tl.M{"cfg": b.Cfg, "acts": b.Acts})
			}
		}
	}
	sum.Steps = tr.N
	sum.Rule = "every TLC-generated behaviour (action sequence of MCPathDBHist) is executed on a fresh real database in two variants (pre-Cancun rules with clean caches, Cancun rules with trienode history); distinct = distinct (configuration, action sequence)"
}

// runRandom records seeded random histories under random configurations.
func runRandom(tracePath, scratch string, seed int64, ntraces, steps int, sum *tl.Summary) {
	r := tl.Rand(seed)
	tr := pdb.NewTrace(tracePath)
	defer tr.Close()
	shapes := map[string]bool{}
	for t := 0; t < ntraces; t++ {
		shape := pdb.Shape{NAcc: 1 + r.Intn(3), NSlot: r.Intn(3), Counter: r.Intn(2) == 0}
		cfg := pdb.Config{
			MaxDiff:    []int{1, 2, 3, 5, 8}[r.Intn(5)],
			HistLimit:  []uint64{0, 0, 1, 2, 3, 5, 9}[r.Intn(7)],
			BufSize:    []int{0, 400, 1200, 4000, 1 << 22, 1 << 22, 1 << 22, 1 << 22}[r.Intn(8)],
			Async:      r.Intn(2) == 0,
			Trienode:   r.Intn(3) == 0,
			Cancun:     r.Intn(2) == 0,
			CleanCache: []int{0, 1 << 20}[r.Intn(2)],
		}
		maxVal := 1 + r.Intn(3)
		rn, err := pdb.NewRunner(shape, cfg, filepath.Join(scratch, fmt.Sprintf("rnd-%d", t)), tr, sum, r)
		if err != nil {
			tl.Fatal("open: %v", err)
		}
		rn.ResetEvent(tl.M{"src": "random", "shape": shape, "dbcfg": cfg})
		sig := ""
		for i := 0; i < steps; i++ {
			roots := rn.ChainRoots()
			top := len(roots) - 1
			c := r.Intn(100)
			switch {
			case c < 72:
				j := top
				if shape.Counter && top > 0 && r.Intn(8) == 0 {
					j = r.Intn(top + 1) // in-memory reorg (only with globally unique roots)
				}
				n, touch, recreate := rn.RandomWorld(rn.E.WorldOfRoot(roots[j]), maxVal)
				sig += "U" + rn.Update(j, n, touch, recreate)[:1]
			case c < 75:
				rn.Commit(r.Intn(top + 1))
				sig += "C"
			case c < 90:
				// rollback target: mostly something the database calls recoverable, and among
				// those mostly states still inside the write buffer (above the persistent id)
				var cands, inbuf []pdb.World
				pid := rn.PersistentID()
				for _, wi := range rn.E.Reg.Order {
					if ok, _ := rn.E.TDB.Recoverable(wi.Root); ok {
						cands = append(cands, wi.W)
						if rn.E.StateID(wi.Root) >= pid {
							inbuf = append(inbuf, wi.W)
						}
					}
				}
				var w pdb.World
				switch {
				case len(inbuf) > 0 && r.Intn(2) == 0:
					w = inbuf[r.Intn(len(inbuf))]
				case len(cands) > 0 && r.Intn(4) != 0:
					w = cands[r.Intn(len(cands))]
				default:
					w = rn.E.Reg.Order[r.Intn(len(rn.E.Reg.Order))].W
				}
				if rn.Recover(w) {
					sig += "R"
				} else {
					sig += "r"
				}
			case c < 96:
				rn.Reopen(r.Intn(top + 1))
				sig += "O"
			default:
				if !rn.RestartCovered() {
					continue // stale journal after a rollback: crash consistency of that case is C20
				}
				rn.Restart()
				sig += "X"
			}
		}
		rn.Close()
		sum.Traces++
		sum.Evaluations++
		if !shapes[sig] {
			shapes[sig] = true
			sum.Distinct++
		}
		if t == 0 {
			sum.Sample(tl.M{"shape": shape, "cfg": cfg, "ops": sig})
		}
	}
	sum.Steps = tr.N
	sum.Rule = "seeded random histories (updates incl. destruct/recreate and no-op touches, in-memory reorgs, commits, rollbacks to recoverable and non-recoverable roots, journaled and unjournaled reopen) under random configurations; distinct = distinct operation/outcome sequences"
}

func main() {
	mode := flag.String("mode", "random", "sim|random")
	in := flag.String("in", "", "behaviours json (mode sim)")
	trace := flag.String("trace", "trace.ndjson", "output trace")
	out := flag.String("out", "summary.json", "summary output")
	n := flag.Int("n", 20, "number of traces")
	steps := flag.Int("steps", 60, "steps per trace")
	flag.Parse()
	seed := int64(tl.EnvInt("VERIF_SEED", 1))
	sum := tl.NewSummary("c17", *mode, seed)
	scratch := pdb.ScratchDir("verif-c17-")
	defer os.RemoveAll(scratch)
	switch *mode {
	case "sim":
		sum.Mode = "replay"
		runSim(*in, *trace, scratch, sum)
	case "random":
		runRandom(*trace, scratch, seed, *n, *steps, sum)
	default:
		tl.Fatal("bad mode")
	}
	sum.Write(*out)
}
