// c35 binds spec/codec/FeeMath.tla (property C35: header fee and gas arithmetic) to the
// real functions eip1559.CalcBaseFee / VerifyEIP1559Header, misc.VerifyGaslimit,
// eip4844.CalcExcessBlobGas / CalcBlobFee / VerifyEIP4844Header, core.IntrinsicGas and
// core.FloorDataGas.
//
//	-mode cases  -in cases.json    replay the cases TLC enumerated (with the value the
//	                               specification demands) on the Go functions (R)
//	-mode record -trace t.ndjson   call the Go functions on seeded random and boundary
//	                               inputs inside the TLC-exact domain and record one event
//	                               per call for validation by FeeMathTrace.tla (V)
//
// The driver never computes an expected value itself: every oracle is the TLA+ module.
// The safe* helpers only delimit the input domain in which TLC's 32-bit integers are exact.
package main

import (
	"flag"
	"fmt"
	"math/big"
	"math/rand"
	"os"

	"github.com/ethereum/go-ethereum/common"
	"github.com/ethereum/go-ethereum/consensus/misc"
	"github.com/ethereum/go-ethereum/consensus/misc/eip1559"
	"github.com/ethereum/go-ethereum/consensus/misc/eip4844"
	"github.com/ethereum/go-ethereum/core"
	"github.com/ethereum/go-ethereum/core/types"
	"github.com/ethereum/go-ethereum/params"
	"github.com/holiman/uint256"
	tl "verif/harness/tracelib"
)

const maxInt = 2147483647

func u64(v uint64) *uint64 { return &v }

// ------------------------------------------------------------------ EIP-1559 bindings

const londonAt = 1000

func cfg1559() *params.ChainConfig {
	return &params.ChainConfig{ChainID: big.NewInt(1), LondonBlock: big.NewInt(londonAt)}
}

func parent1559(london bool, limit, used uint64, base int64) *types.Header {
	h := &types.Header{GasLimit: limit, GasUsed: used}
	if london {
		h.Number = big.NewInt(londonAt + 7)
		h.BaseFee = big.NewInt(base)
	} else {
		h.Number = big.NewInt(londonAt - 1) // the child is the fork block
	}
	return h
}

func callBaseFee(london bool, limit, used uint64, base int64) int64 {
	r := eip1559.CalcBaseFee(cfg1559(), parent1559(london, limit, used, base))
	if !r.IsInt64() {
		return -2
	}
	return r.Int64()
}

func callVerify1559(london bool, limit, used uint64, base int64, hLimit uint64, hBase int64) bool {
	p := parent1559(london, limit, used, base)
	h := &types.Header{Number: new(big.Int).Add(p.Number, common.Big1), GasLimit: hLimit}
	if hBase >= 0 {
		h.BaseFee = big.NewInt(hBase)
	}
	return eip1559.VerifyEIP1559Header(cfg1559(), p, h) == nil
}

// ------------------------------------------------------------------ EIP-4844 bindings

// slot = activation time (-1: not scheduled), target (-1: no schedule entry), max, fraction;
// order: Cancun, Prague, BPO1..BPO5.
type slot [4]int64

func cfgBlob(slots []slot, osakaAt int64) *params.ChainConfig {
	c := &params.ChainConfig{ChainID: big.NewInt(1), LondonBlock: big.NewInt(0), BlobScheduleConfig: &params.BlobScheduleConfig{}}
	times := []**uint64{&c.CancunTime, &c.PragueTime, &c.BPO1Time, &c.BPO2Time, &c.BPO3Time, &c.BPO4Time, &c.BPO5Time}
	s := c.BlobScheduleConfig
	entries := []**params.BlobConfig{&s.Cancun, &s.Prague, &s.BPO1, &s.BPO2, &s.BPO3, &s.BPO4, &s.BPO5}
	for i, sl := range slots {
		if sl[0] >= 0 {
			*times[i] = u64(uint64(sl[0]))
		}
		if sl[1] >= 0 {
			*entries[i] = &params.BlobConfig{Target: int(sl[1]), Max: int(sl[2]), UpdateFraction: uint64(sl[3])}
		}
	}
	if osakaAt >= 0 {
		c.OsakaTime = u64(uint64(osakaAt))
	}
	return c
}

func parentBlob(hasBlob bool, pExcess, pUsed uint64, pBase int64) *types.Header {
	h := &types.Header{Number: big.NewInt(5), BaseFee: big.NewInt(pBase), GasLimit: 30_000_000}
	if hasBlob {
		h.ExcessBlobGas = u64(pExcess)
		h.BlobGasUsed = u64(pUsed)
	}
	return h
}

func callExcess(slots []slot, osakaAt, time int64, hasBlob bool, pExcess, pUsed uint64, pBase int64) uint64 {
	return eip4844.CalcExcessBlobGas(cfgBlob(slots, osakaAt), parentBlob(hasBlob, pExcess, pUsed, pBase), uint64(time))
}

func callBlobFee(slots []slot, time int64, excess uint64) int64 {
	h := &types.Header{Number: big.NewInt(5), Time: uint64(time), ExcessBlobGas: u64(excess)}
	r := eip4844.CalcBlobFee(cfgBlob(slots, -1), h)
	if !r.IsInt64() {
		return -2
	}
	return r.Int64()
}

func callVerify4844(slots []slot, osakaAt, time int64, hasBlob bool, pExcess, pUsed uint64, pBase int64, hExcess, hUsed int64) bool {
	p := parentBlob(hasBlob, pExcess, pUsed, pBase)
	h := &types.Header{Number: big.NewInt(6), Time: uint64(time)}
	if hExcess >= 0 {
		h.ExcessBlobGas = u64(uint64(hExcess))
	}
	if hUsed >= 0 {
		h.BlobGasUsed = u64(uint64(hUsed))
	}
	return eip4844.VerifyEIP4844Header(cfgBlob(slots, osakaAt), p, h) == nil
}

// ------------------------------------------------------------------ intrinsic gas bindings

// The real fork ladder; class = the rule set of FeeMath.tla (Frontier 0, Homestead 1,
// Istanbul 2, Berlin 3, Shanghai 4, Prague 5, Amsterdam 6) that governs the intrinsic cost.
var ladder = []struct {
	name  string
	class int
}{
	{"Frontier", 0}, {"Homestead", 1}, {"TangerineWhistle", 1}, {"SpuriousDragon", 1}, {"Byzantium", 1},
	{"Constantinople", 1}, {"Petersburg", 1}, {"Istanbul", 2}, {"MuirGlacier", 2}, {"Berlin", 3}, {"London", 3},
	{"Paris", 3}, {"Shanghai", 4}, {"Cancun", 4}, {"Prague", 5}, {"Osaka", 5}, {"Amsterdam", 6},
}

// rulesAt activates the ladder up to level and lets the real ChainConfig.Rules derive the rule set.
func rulesAt(level int) params.Rules {
	c := &params.ChainConfig{ChainID: big.NewInt(1)}
	z := big.NewInt(0)
	blocks := []**big.Int{nil, &c.HomesteadBlock, &c.EIP150Block, &c.EIP155Block, &c.ByzantiumBlock, &c.ConstantinopleBlock,
		&c.PetersburgBlock, &c.IstanbulBlock, &c.MuirGlacierBlock, &c.BerlinBlock, &c.LondonBlock}
	for i := 1; i <= level && i < len(blocks); i++ {
		*blocks[i] = z
	}
	if level >= 3 {
		c.EIP158Block = z
	}
	timesAt := map[int]**uint64{12: &c.ShanghaiTime, 13: &c.CancunTime, 14: &c.PragueTime, 15: &c.OsakaTime, 16: &c.AmsterdamTime}
	for l, p := range timesAt {
		if level >= l {
			*p = u64(0)
		}
	}
	return c.Rules(big.NewInt(10), level >= 11, 10)
}

// levelsOf returns the ladder levels that map to a spec rule-set class.
func levelsOf(class int) []int {
	var out []int
	for i, f := range ladder {
		if f.class == class {
			out = append(out, i)
		}
	}
	return out
}

type txShape struct {
	Create bool  `json:"create"`
	Self   bool  `json:"self"`
	Value  bool  `json:"value"`
	Nz     int64 `json:"nz"`
	Z      int64 `json:"z"`
	Addrs  int64 `json:"addrs"`
	Keys   int64 `json:"keys"`
	Auths  int64 `json:"auths"`
}

// realise builds concrete arguments of the shape; r decides the irrelevant details
// (byte values and positions, key distribution, nil-vs-empty lists, nil-vs-zero value).
func realise(s txShape, r *rand.Rand) (data []byte, al types.AccessList, auths []types.SetCodeAuthorization, from common.Address, to *common.Address, value *uint256.Int) {
	n := int(s.Nz + s.Z)
	if n > 0 || r.Intn(2) == 0 {
		data = make([]byte, n)
	}
	perm := r.Perm(n)
	for i := 0; i < int(s.Nz); i++ {
		data[perm[i]] = byte(1 + r.Intn(255))
	}
	if s.Addrs > 0 || r.Intn(2) == 0 {
		al = make(types.AccessList, s.Addrs)
		for i := range al {
			r.Read(al[i].Address[:])
		}
		for k := int64(0); k < s.Keys; k++ {
			i := r.Intn(len(al))
			var h common.Hash
			r.Read(h[:])
			al[i].StorageKeys = append(al[i].StorageKeys, h)
		}
	}
	if s.Auths > 0 || r.Intn(2) == 0 {
		auths = make([]types.SetCodeAuthorization, s.Auths)
		for i := range auths {
			r.Read(auths[i].Address[:])
			auths[i].Nonce = r.Uint64()
		}
	}
	r.Read(from[:])
	if !s.Create {
		var t common.Address
		if s.Self {
			t = from
		} else {
			r.Read(t[:])
			t[0] = ^from[0] // certainly different from the sender
		}
		to = &t
	}
	if s.Value {
		value = uint256.NewInt(1 + uint64(r.Intn(1000)))
		if r.Intn(4) == 0 {
			value = new(uint256.Int).Lsh(uint256.NewInt(1), uint(r.Intn(256)))
		}
	} else if r.Intn(2) == 0 {
		value = new(uint256.Int)
	}
	return
}

func callIntrinsic(level int, s txShape, r *rand.Rand) int64 {
	data, al, auths, from, to, value := realise(s, r)
	g, err := core.IntrinsicGas(data, al, auths, from, to, value, rulesAt(level))
	if err != nil || g > maxInt {
		return -1
	}
	return int64(g)
}

func callFloor(level int, s txShape, r *rand.Rand) int64 {
	data, al, _, from, to, value := realise(s, r)
	g, err := core.FloorDataGas(rulesAt(level), from, to, value, data, al)
	if err != nil || g > maxInt {
		return -1
	}
	return int64(g)
}

func wellFormed(class int, s txShape) bool {
	if s.Addrs+s.Keys > 0 && class < 3 {
		return false
	}
	if s.Addrs == 0 && s.Keys > 0 {
		return false
	}
	if s.Auths > 0 && (class < 5 || s.Create) {
		return false
	}
	return !(s.Create && s.Self)
}

// ------------------------------------------------------------------ domain helpers (no oracles)

func abs64(a int64) int64 {
	if a < 0 {
		return -a
	}
	return a
}
func max64(a, b int64) int64 {
	if a > b {
		return a
	}
	return b
}

// maxBaseFor is the largest parent base fee for which pBase*|used-target| stays below 2^31.
func maxBaseFor(limit, used int64) int64 {
	m := maxInt/max64(abs64(used-limit/2), 1) - 1
	if m > 1800000000 {
		m = 1800000000
	}
	return m
}

// safeFakeExp mirrors SafeFakeExp of FeeMath.tla: TRUE iff every intermediate value of the
// series is below 2^31.  Also returns the fee for the SafeExcess bound.
func safeFakeExp(num, den int64) (bool, int64) {
	if den < 1 || num < 0 {
		return false, 0
	}
	var out, acc, i int64 = 0, den, 1
	for acc > 0 {
		if acc > maxInt/max64(num, 1) || out > maxInt-acc || den > maxInt/i {
			return false, 0
		}
		out += acc
		acc = acc * num / (den * i)
		i++
	}
	return true, out / den
}

func safeExcess(osaka bool, target, max, frac, pExcess, pUsed, pBase int64) bool {
	if target < 0 || max < 1 || target > max || max > 4096 || frac < 1 {
		return false
	}
	if pExcess < 0 || pUsed < 0 || pBase < 0 || pExcess > 1000000000 || pUsed > 1000000000 || pUsed > maxInt/max {
		return false
	}
	if osaka {
		ok, fee := safeFakeExp(pExcess, frac)
		if pBase > maxInt/8192 || !ok || fee > maxInt/131072 {
			return false
		}
	}
	return true
}

// ------------------------------------------------------------------ mode cases (R)

type caseLine struct {
	In  map[string]any `json:"in"`
	Out map[string]any `json:"out"`
}

func num(m map[string]any, k string) int64 {
	v, ok := m[k].(float64)
	if !ok {
		tl.Fatal("case field %q missing or not a number in %v", k, m)
	}
	return int64(v)
}
func boolean(m map[string]any, k string) bool {
	v, ok := m[k].(bool)
	if !ok {
		tl.Fatal("case field %q missing or not a boolean in %v", k, m)
	}
	return v
}

// placeSched puts the schedule of a TLC case into a fork slot chosen by the seed, behind
// decoy entries of earlier forks, so that the fork selection of the real code is part of
// the replay.
func placeSched(r *rand.Rand, target, max, frac int64) (slots []slot, time int64) {
	slots = make([]slot, 7)
	k := r.Intn(7)
	for i := range slots {
		slots[i] = slot{-1, -1, 0, 0}
		if i < k {
			slots[i] = slot{int64(i), 1 + int64(r.Intn(3)), 5 + int64(r.Intn(3)), 1 + int64(r.Intn(9))}
			if i > 0 && r.Intn(3) == 0 {
				slots[i][1] = -1 // scheduled fork without its own entry
			}
		}
		if i > k && r.Intn(2) == 0 { // later fork, not yet active
			slots[i] = slot{100 + int64(i), 2, 4, 3}
		}
	}
	slots[k] = slot{int64(k), target, max, frac}
	return slots, 10 + int64(r.Intn(80))
}

func runCases(in string, seed int64, sum *tl.Summary) {
	var cases []caseLine
	tl.ReadJSON(in, &cases)
	r := tl.Rand(seed)
	distinct := map[string]bool{}
	for idx, c := range cases {
		fn := c.In["fn"].(string)
		sum.Count(fn)
		sum.Evaluations++
		var got, want string
		switch fn {
		case "basefee":
			v := callBaseFee(boolean(c.In, "london"), uint64(num(c.In, "pLimit")), uint64(num(c.In, "pUsed")), num(c.In, "pBase"))
			got, want = fmt.Sprint(v), fmt.Sprint(num(c.Out, "v"))
		case "gaslimit":
			london, pl, hl := boolean(c.In, "london"), uint64(num(c.In, "pLimit")), uint64(num(c.In, "hLimit"))
			adj := pl
			if !london {
				adj = pl * 2
			}
			ok := misc.VerifyGaslimit(adj, hl) == nil
			// the same bound through the EIP-1559 header check (base fee taken from the
			// implementation so that only the gas-limit rule decides)
			bf := callBaseFee(london, pl, pl/2, 1000)
			ok2 := callVerify1559(london, pl, pl/2, 1000, hl, bf)
			got, want = fmt.Sprint(ok, ok2), fmt.Sprint(boolean(c.Out, "ok"), boolean(c.Out, "ok"))
		case "blobfee":
			slots, time := placeSched(r, 3, 6, num(c.In, "frac"))
			v := callBlobFee(slots, time, uint64(num(c.In, "excess")))
			got, want = fmt.Sprint(v), fmt.Sprint(num(c.Out, "v"))
		case "excess":
			sc := c.In["sched"].(map[string]any)
			slots, time := placeSched(r, num(sc, "target"), num(sc, "max"), num(sc, "frac"))
			osakaAt := int64(-1)
			if boolean(c.In, "osaka") {
				osakaAt = int64(r.Intn(int(time) + 1))
			} else if r.Intn(2) == 0 {
				osakaAt = time + 1 + int64(r.Intn(5))
			}
			pe, pu := uint64(num(c.In, "pExcess")), uint64(num(c.In, "pUsed"))
			hasBlob := !(pe == 0 && pu == 0 && r.Intn(2) == 0)
			v := callExcess(slots, osakaAt, time, hasBlob, pe, pu, num(c.In, "pBase"))
			got, want = fmt.Sprint(v), fmt.Sprint(num(c.Out, "v"))
		case "intrinsic":
			class := int(num(c.In, "fork"))
			txm := c.In["tx"].(map[string]any)
			s := txShape{boolean(txm, "create"), boolean(txm, "self"), boolean(txm, "value"), num(txm, "nz"), num(txm, "z"), num(txm, "addrs"), num(txm, "keys"), num(txm, "auths")}
			lv := levelsOf(class)
			level := lv[r.Intn(len(lv))]
			g := callIntrinsic(level, s, r)
			got, want = fmt.Sprint(g), fmt.Sprint(num(c.Out, "v"))
			if class >= 5 {
				got += fmt.Sprint(" floor ", callFloor(level, s, r))
				want += fmt.Sprint(" floor ", num(c.Out, "floor"))
			}
		default:
			tl.Fatal("unknown case fn %q", fn)
		}
		key := fn + "/" + want
		if !distinct[key] {
			distinct[key] = true
			sum.Distinct++
		}
		if got != want {
			sum.Violate(fmt.Sprintf("%s %v: implementation gives %s, specification (FeeMath.tla) demands %s", fn, c.In, got, want),
				tl.M{"case": c, "got": got, "want": want})
		}
		if idx%1500 == 0 {
			sum.Sample(tl.M{"case": c, "got": got})
		}
	}
	sum.Steps = sum.Evaluations
	sum.Rule = "every case of the TLC-enumerated grid (MCFeeMathCases.cfg) is executed on the Go function and compared with the value of the TLA+ operator; distinct = distinct (function, expected result) pairs"
}

// ------------------------------------------------------------------ mode record (V)

type gen struct {
	r   *rand.Rand
	tr  *tl.Trace
	sum *tl.Summary
	key map[string]bool
}

func (g *gen) emit(ev tl.M, shape string) {
	g.tr.Emit(ev)
	fn := ev["fn"].(string)
	g.sum.Count(fn)
	g.sum.Evaluations++
	if !g.key[fn+shape] {
		g.key[fn+shape] = true
		g.sum.Distinct++
	}
	if g.sum.Counts[fn] == 3 {
		g.sum.Sample(ev)
	}
}

// pick returns one of the boundary values or a uniform value in [0,hi].
func (g *gen) pick(hi int64, edges ...int64) int64 { return g.pickFrom(0, hi, edges...) }

// pickN additionally admits -1 ("field absent" / "fork not scheduled").
func (g *gen) pickN(hi int64, edges ...int64) int64 { return g.pickFrom(-1, hi, edges...) }

func (g *gen) pickFrom(lo, hi int64, edges ...int64) int64 {
	if hi < 0 {
		return 0
	}
	if len(edges) > 0 && g.r.Intn(3) > 0 {
		for try := 0; try < 4; try++ {
			e := edges[g.r.Intn(len(edges))]
			if e >= lo && e <= hi {
				return e
			}
		}
	}
	return g.r.Int63n(hi + 1)
}

func (g *gen) limit() int64 {
	switch g.r.Intn(6) {
	case 0:
		return []int64{5000, 5001, 5119, 5120, 5121, 6144, 8000000, 30000000, 36000000, 45000000, 60000000}[g.r.Intn(11)]
	case 1:
		return 5000 + g.r.Int63n(2000)
	case 2:
		return 1024 * (5 + g.r.Int63n(100000)) // multiples of the bound divisor
	default:
		return 5000 + g.r.Int63n(200000000)
	}
}

func (g *gen) baseFeeInputs() (london bool, limit, used, base int64) {
	london = g.r.Intn(8) != 0
	limit = g.limit()
	t := limit / 2
	used = g.pick(limit, 0, 1, t-1, t, t+1, t+2, limit-1, limit, t+t/8, t-t/8)
	mb := maxBaseFor(limit, used)
	d := abs64(used - t)
	// fees around the points where the delta term changes between 0, 1 and 2
	e1 := int64(0)
	if d > 0 {
		e1 = (8*t + d - 1) / d
	}
	base = g.pick(mb, 0, 1, 7, 8, 9, mb, mb-1, e1-1, e1, e1+1, 2*e1-1, 2*e1, 1000, 1000000000)
	return
}

func (g *gen) recBaseFee() {
	london, limit, used, base := g.baseFeeInputs()
	out := callBaseFee(london, uint64(limit), uint64(used), base)
	g.emit(tl.M{"fn": "basefee", "london": london, "pLimit": limit, "pUsed": used, "pBase": base, "out": out},
		fmt.Sprint(london, used == limit/2, used > limit/2, base == 0, out == base))
}

func (g *gen) headerLimit(p int64) int64 {
	d := p / 1024
	return g.pick(p+2*d+10, p-d-1, p-d, p-d+1, p-1, p, p+1, p+d-1, p+d, p+d+1, 4999, 5000, 5001, 0)
}

func (g *gen) recVerify1559() {
	london, limit, used, base := g.baseFeeInputs()
	adj := limit
	if !london {
		adj = limit * 2
	}
	hLimit := g.headerLimit(adj)
	if g.r.Intn(2) == 0 {
		hLimit = adj // let the base fee decide
	}
	cand := callBaseFee(london, uint64(limit), uint64(used), base) // a candidate header value, not an oracle
	hBase := g.pickN(maxInt-1, cand, cand, cand, cand+1, cand-1, base, -1, 0)
	ok := callVerify1559(london, uint64(limit), uint64(used), base, uint64(hLimit), hBase)
	g.emit(tl.M{"fn": "verify1559", "london": london, "pLimit": limit, "pUsed": used, "pBase": base, "hLimit": hLimit, "hBase": hBase, "ok": ok},
		fmt.Sprint(london, ok, hBase == cand, hBase < 0, hLimit == adj))
}

func (g *gen) recGasLimit() {
	p := g.limit()
	if g.r.Intn(4) == 0 {
		p = g.pick(12000, 0, 1, 1023, 1024, 1025, 2047, 2048, 4999, 5000)
	}
	if g.r.Intn(6) == 0 {
		p = maxInt/2 - g.r.Int63n(1000)
	}
	h := g.headerLimit(p)
	ok := misc.VerifyGaslimit(uint64(p), uint64(h)) == nil
	g.emit(tl.M{"fn": "gaslimit", "pLimit": p, "hLimit": h, "ok": ok}, fmt.Sprint(ok, h < p, h == p, h < 5000))
}

var mainnetSlots = []*params.BlobConfig{params.DefaultCancunBlobConfig, params.DefaultPragueBlobConfig, params.DefaultBPO1BlobConfig, params.DefaultBPO2BlobConfig}

// schedule draws a slot table, a block time and the Osaka activation.
func (g *gen) schedule() (slots []slot, time, osakaAt int64) {
	slots = make([]slot, 7)
	t := int64(0)
	synthetic := g.r.Intn(3) > 0
	for i := range slots {
		slots[i] = slot{-1, -1, 0, 0}
		if i > 0 && g.r.Intn(4) == 0 {
			continue // fork neither scheduled nor configured
		}
		t += int64(g.r.Intn(4))
		slots[i][0] = t
		if i > 0 && g.r.Intn(5) == 0 {
			continue // scheduled fork that inherits the previous entry
		}
		if synthetic || i >= len(mainnetSlots) {
			target := int64(g.r.Intn(4))
			max := target + int64(g.r.Intn(3))
			if max == 0 {
				max = 1
			}
			frac := []int64{1, 2, 3, 7, 10, 50, 128, 500, 1000, 3000}[g.r.Intn(10)]
			slots[i] = slot{t, target, max, frac}
		} else {
			b := mainnetSlots[i]
			slots[i] = slot{t, int64(b.Target), int64(b.Max), int64(b.UpdateFraction)}
		}
		if i > 0 && g.r.Intn(6) == 0 {
			slots[i][0] = -1 // entry present, fork not scheduled
		}
	}
	time = g.pick(t+3, 0, t, t+1, slots[0][0])
	if time < slots[0][0] {
		time = slots[0][0]
	}
	osakaAt = g.pickN(t+5, time, time+1, time-1, -1, 0)
	if g.r.Intn(4) == 0 {
		osakaAt = -1
	}
	return
}

func active(slots []slot, time int64) (slot, bool) {
	for i := len(slots) - 1; i >= 0; i-- {
		if slots[i][0] >= 0 && slots[i][0] <= time && slots[i][1] >= 0 {
			return slots[i], true
		}
	}
	return slot{}, false
}

// blobInputs draws a parent inside the TLC-exact domain of the active schedule.
func (g *gen) blobInputs() (slots []slot, time, osakaAt int64, hasBlob bool, pExcess, pUsed, pBase int64, ok bool) {
	slots, time, osakaAt = g.schedule()
	a, found := active(slots, time)
	if !found {
		return
	}
	target, max, frac := a[1], a[2], a[3]
	osaka := osakaAt >= 0 && osakaAt <= time
	const gpb = 131072
	pUsed = gpb * g.pick(max, 0, 1, target-1, target, target+1, max-1, max)
	if g.r.Intn(12) == 0 {
		pUsed += g.r.Int63n(gpb) // not a blob multiple (the calculation does not care)
	}
	tg := target * gpb
	// excess values: tiny ones keep the fee computable with real update fractions; for small
	// synthetic fractions the exponent may reach ~8
	hi := 8 * frac
	if hi > 3000 {
		hi = 3000
	}
	if frac > 100000 {
		hi = 600
	}
	pExcess = g.pick(hi, 0, 1, frac-1, frac, frac+1, 2*frac, 3*frac, tg-pUsed-1, tg-pUsed, tg-pUsed+1)
	if !osaka && g.r.Intn(2) == 0 {
		pExcess = g.pick(900000000, tg, tg-1, tg+1, 10*gpb, 500*gpb, 900000000)
	}
	hasBlob = g.r.Intn(10) != 0
	if !hasBlob {
		// the Go side gets nil fields; the event still logs what the header would have held
		pExcess, pUsed = g.pick(1000, 0, tg), gpb*g.pick(max, 0, target)
	}
	_, fee := safeFakeExp(pExcess, frac)
	pBase = g.pick(maxInt/8192, 0, 1, 16*fee-1, 16*fee, 16*fee+1, 16*fee+16, 7, 1000, 100000)
	pe, pu := pExcess, pUsed
	if !hasBlob {
		pe, pu = 0, 0
	}
	ok = safeExcess(osaka, target, max, frac, pe, pu, pBase)
	return
}

func slotsJSON(slots []slot) [][]int64 {
	out := make([][]int64, len(slots))
	for i, s := range slots {
		out[i] = []int64{s[0], s[1], s[2], s[3]}
	}
	return out
}

func (g *gen) recExcess() {
	slots, time, osakaAt, hasBlob, pe, pu, pb, ok := g.blobInputs()
	if !ok {
		return
	}
	out := callExcess(slots, osakaAt, time, hasBlob, uint64(pe), uint64(pu), pb)
	a, _ := active(slots, time)
	g.emit(tl.M{"fn": "excess", "slots": slotsJSON(slots), "time": time, "osakaAt": osakaAt, "hasBlob": hasBlob,
		"pExcess": pe, "pUsed": pu, "pBase": pb, "out": out},
		fmt.Sprint(osakaAt >= 0 && osakaAt <= time, hasBlob, out == 0, int64(out) == pe+pu-a[1]*131072, int64(out) > pe))
}

func (g *gen) recVerify4844() {
	slots, time, osakaAt, hasBlob, pe, pu, pb, ok := g.blobInputs()
	if !ok {
		return
	}
	a, _ := active(slots, time)
	cand := int64(callExcess(slots, osakaAt, time, hasBlob, uint64(pe), uint64(pu), pb)) // candidate header value, not an oracle
	hExcess := g.pickN(maxInt-1, cand, cand, cand, cand, cand+1, cand-1, 0, -1)
	hUsed := 131072 * g.pick(a[2]+1, 0, 1, a[1], a[2], a[2]+1)
	switch g.r.Intn(12) {
	case 0:
		hUsed++
	case 1:
		hUsed = -1
	case 2:
		hUsed += 131071
	}
	okv := callVerify4844(slots, osakaAt, time, hasBlob, uint64(pe), uint64(pu), pb, hExcess, hUsed)
	g.emit(tl.M{"fn": "verify4844", "slots": slotsJSON(slots), "time": time, "osakaAt": osakaAt, "hasBlob": hasBlob,
		"pExcess": pe, "pUsed": pu, "pBase": pb, "hExcess": hExcess, "hUsed": hUsed, "ok": okv},
		fmt.Sprint(okv, hExcess == cand, hUsed > a[2]*131072, hUsed%131072 == 0, hUsed < 0, hExcess < 0))
}

// recBlobParams: the accessors that expose the active schedule to the rest of the client.
func (g *gen) recBlobParams() {
	slots, time, _ := g.schedule()
	if g.r.Intn(6) == 0 {
		time = g.pick(slots[0][0]+2, 0) // possibly before Cancun: no schedule active
	}
	cfg := cfgBlob(slots, -1)
	g.emit(tl.M{"fn": "blobparams", "slots": slotsJSON(slots), "time": time,
		"max": eip4844.MaxBlobsPerBlock(cfg, uint64(time)), "target": eip4844.TargetBlobsPerBlock(cfg, uint64(time)),
		"maxGas": eip4844.MaxBlobGasPerBlock(cfg, uint64(time)), "latestMax": eip4844.LatestMaxBlobsPerBlock(cfg)},
		fmt.Sprint(time < slots[0][0]))
}

func (g *gen) recBlobFee() {
	for try := 0; try < 20; try++ {
		slots, time, _ := g.schedule()
		a, found := active(slots, time)
		if !found {
			continue
		}
		frac := a[3]
		hi := 9 * frac
		if frac > 100000 {
			hi = 640
		}
		if hi > 20000 {
			hi = 20000
		}
		excess := g.pick(hi, 0, 1, frac-1, frac, frac+1, 2*frac-1, 2*frac, 3*frac, 5*frac, hi)
		if ok, _ := safeFakeExp(excess, frac); !ok {
			continue
		}
		out := callBlobFee(slots, time, uint64(excess))
		g.emit(tl.M{"fn": "blobfee", "slots": slotsJSON(slots), "time": time, "excess": excess, "out": out},
			fmt.Sprint(out, frac > 100000))
		return
	}
}

func (g *gen) txInputs() (level, class int, s txShape) {
	for {
		level = g.r.Intn(len(ladder))
		if g.r.Intn(2) == 0 {
			level = 12 + g.r.Intn(5)
		}
		class = ladder[level].class
		n := g.pick(4000, 0, 1, 31, 32, 33, 63, 64, 65, 1024)
		if g.r.Intn(10) == 0 {
			n = g.pick(200000, 49152, 49153, 131072)
		}
		s = txShape{Create: g.r.Intn(3) == 0, Self: g.r.Intn(4) == 0, Value: g.r.Intn(2) == 0}
		s.Nz = g.pick(n, 0, 1, n, n-1, n/2)
		s.Z = n - s.Nz
		if class >= 3 && g.r.Intn(2) == 0 {
			s.Addrs = g.pick(20, 1, 2)
			if s.Addrs > 0 {
				s.Keys = g.pick(40, 0, 1, 2, s.Addrs)
			}
		}
		if class >= 5 && !s.Create && g.r.Intn(3) == 0 {
			s.Auths = g.pick(10, 1, 2)
		}
		if wellFormed(class, s) {
			return
		}
	}
}

func (g *gen) txEvent(fn string, level, class int, s txShape, out int64) {
	g.emit(tl.M{"fn": fn, "fork": class, "rules": ladder[level].name, "create": s.Create, "self": s.Self, "value": s.Value,
		"nz": s.Nz, "z": s.Z, "addrs": s.Addrs, "keys": s.Keys, "auths": s.Auths, "out": out},
		fmt.Sprint(level, s.Create, s.Self, s.Value, s.Nz > 0, s.Z > 0, s.Addrs > 0, s.Keys > 0, s.Auths > 0))
}

func (g *gen) recIntrinsic() {
	level, class, s := g.txInputs()
	g.txEvent("intrinsic", level, class, s, callIntrinsic(level, s, g.r))
	if class >= 5 {
		g.txEvent("floor", level, class, s, callFloor(level, s, g.r))
	}
}

func (g *gen) recParams() {
	for i, name := range []string{"cancun", "prague", "bpo1", "bpo2"} {
		b := mainnetSlots[i]
		g.emit(tl.M{"fn": "params", "fork": name, "target": b.Target, "max": b.Max, "frac": b.UpdateFraction}, name)
	}
	c := &params.ChainConfig{}
	g.emit(tl.M{"fn": "consts", "elasticity": c.ElasticityMultiplier(), "denominator": c.BaseFeeChangeDenominator(),
		"initialBaseFee": params.InitialBaseFee, "boundDivisor": params.GasLimitBoundDivisor, "minGasLimit": params.MinGasLimit,
		"gasPerBlob": params.BlobTxBlobGasPerBlob, "minBlobFee": params.BlobTxMinBlobGasprice, "blobBaseCost": params.BlobBaseCost}, "")
}

func runRecord(path string, seed int64, n int, sum *tl.Summary) {
	g := &gen{r: tl.Rand(seed), tr: tl.NewTrace(path), sum: sum, key: map[string]bool{}}
	defer g.tr.Close()
	g.recParams()
	for i := 0; i < n; i++ {
		g.recBaseFee()
		g.recVerify1559()
		g.recGasLimit()
		g.recBlobFee()
		g.recBlobParams()
		g.recExcess()
		g.recVerify4844()
		g.recIntrinsic()
	}
	sum.Steps = g.tr.N
	sum.Traces = 1
	sum.Rule = "seeded random and boundary inputs inside the TLC-exact domain (all products < 2^31), one event per call of the real function; distinct = distinct (function, branch-shape) classes"
}


// ------------------------------------------------------------------ mode recordbig (V, mainnet magnitudes)

// limbs renders a non-negative number as base-10000 digits, least significant first (BigNat.tla).
func limbs(v *big.Int) []int64 {
	out := []int64{}
	x := new(big.Int).Set(v)
	base := big.NewInt(10000)
	m := new(big.Int)
	for x.Sign() > 0 {
		x.DivMod(x, base, m)
		out = append(out, m.Int64())
	}
	return out
}

func ub(v uint64) *big.Int { return new(big.Int).SetUint64(v) }

func (g *gen) bigLimit() uint64 {
	edges := []uint64{5000, 5001, 8_000_000, 30_000_000, 36_000_000, 45_000_000, 60_000_000, 100_000_000, 1 << 32, 1<<32 + 1, 1 << 40, 1 << 62, 1<<63 - 1, 1<<63 - 2}
	if g.r.Intn(2) == 0 {
		return edges[g.r.Intn(len(edges))]
	}
	return 5000 + g.r.Uint64()>>uint(1+g.r.Intn(50))
}

func (g *gen) bigFee() *big.Int {
	switch g.r.Intn(8) {
	case 0:
		return big.NewInt(int64(g.r.Intn(20)))
	case 1:
		return new(big.Int).Lsh(big.NewInt(1), uint(g.r.Intn(256)))
	case 2:
		return new(big.Int).Sub(new(big.Int).Lsh(big.NewInt(1), uint(1+g.r.Intn(255))), big.NewInt(1))
	case 3:
		return new(big.Int).Mul(big.NewInt(1_000_000_000), big.NewInt(1+int64(g.r.Intn(500)))) // 1..500 gwei
	default:
		return new(big.Int).Rand(g.r, new(big.Int).Lsh(big.NewInt(1), uint(8+g.r.Intn(120))))
	}
}

func parentBig(london bool, limit, used uint64, base *big.Int) *types.Header {
	h := &types.Header{GasLimit: limit, GasUsed: used}
	if london {
		h.Number = big.NewInt(londonAt + 7)
		h.BaseFee = new(big.Int).Set(base)
	} else {
		h.Number = big.NewInt(londonAt - 1)
	}
	return h
}

func (g *gen) bigBaseFeeInputs() (london bool, limit, used uint64, base *big.Int) {
	london = g.r.Intn(10) != 0
	limit = g.bigLimit()
	t := limit / 2
	switch g.r.Intn(10) {
	case 0:
		used = 0
	case 1:
		used = t
	case 2:
		used = t + 1
	case 3:
		used = t - 1
	case 4:
		used = limit
	case 5:
		used = limit - 1
	default:
		used = g.r.Uint64() % (limit + 1)
	}
	base = g.bigFee()
	return
}

var eraNames = []string{"cancun", "prague", "osaka", "bpo1", "bpo2"}

// eraTime returns a block time inside the named mainnet fork era (from params.MainnetChainConfig).
func (g *gen) eraTime(era string) uint64 {
	c := params.MainnetChainConfig
	starts := map[string]*uint64{"cancun": c.CancunTime, "prague": c.PragueTime, "osaka": c.OsakaTime, "bpo1": c.BPO1Time, "bpo2": c.BPO2Time}
	ends := map[string]*uint64{"cancun": c.PragueTime, "prague": c.OsakaTime, "osaka": c.BPO1Time, "bpo1": c.BPO2Time, "bpo2": nil}
	s := *starts[era]
	if e := ends[era]; e != nil {
		switch g.r.Intn(3) {
		case 0:
			return s
		case 1:
			return *e - 1
		}
		return s + g.r.Uint64()%(*e-s)
	}
	return s + uint64(g.r.Intn(100000))
}

func runRecordBig(path string, seed int64, n, nblob int, sum *tl.Summary) {
	g := &gen{r: tl.Rand(seed), tr: tl.NewTrace(path), sum: sum, key: map[string]bool{}}
	defer g.tr.Close()
	for i := 0; i < n; i++ {
		london, limit, used, base := g.bigBaseFeeInputs()
		out := eip1559.CalcBaseFee(cfg1559(), parentBig(london, limit, used, base))
		g.emit(tl.M{"fn": "bigbasefee", "london": london, "pLimit": limbs(ub(limit)), "pUsed": limbs(ub(used)), "pBase": limbs(base), "out": limbs(out)},
			fmt.Sprint(london, used == limit/2, used > limit/2, base.BitLen()/32, out.Cmp(base)))
		// header verification around the expected value
		london, limit, used, base = g.bigBaseFeeInputs()
		p := parentBig(london, limit, used, base)
		cand := eip1559.CalcBaseFee(cfg1559(), p) // candidate header value, not an oracle
		adj := limit
		if !london {
			adj = limit * 2
		}
		if adj > 1<<63-1 || limit > 1<<62 {
			adj, limit = 60_000_000, 60_000_000
			if !london {
				limit = 30_000_000
			}
			p = parentBig(london, limit, used%(limit+1), base)
			used = used % (limit + 1)
			cand = eip1559.CalcBaseFee(cfg1559(), p)
		}
		d := adj / 1024
		hLimit := []uint64{adj, adj, adj, adj + d - 1, adj + d, adj - d + 1, adj - d, adj + 1}[g.r.Intn(8)]
		hBase := new(big.Int).Set(cand)
		hb := any(nil)
		switch g.r.Intn(8) {
		case 0:
			hBase.Add(hBase, big.NewInt(1))
		case 1:
			if hBase.Sign() > 0 {
				hBase.Sub(hBase, big.NewInt(1))
			}
		case 2:
			hBase = new(big.Int).Set(base)
		case 3:
			hBase = nil
		}
		h := &types.Header{Number: new(big.Int).Add(p.Number, common.Big1), GasLimit: hLimit, BaseFee: hBase}
		ok := eip1559.VerifyEIP1559Header(cfg1559(), p, h) == nil
		if hBase == nil {
			hb = []int64{-1}
		} else {
			hb = limbs(hBase)
		}
		g.emit(tl.M{"fn": "bigverify1559", "london": london, "pLimit": limbs(ub(limit)), "pUsed": limbs(ub(used)), "pBase": limbs(base),
			"hLimit": limbs(ub(hLimit)), "hBase": hb, "ok": ok}, fmt.Sprint(london, ok, hBase == nil, hLimit == adj))
		// gas limit rule alone, up to 2^63-1
		pl := g.bigLimit()
		if g.r.Intn(5) == 0 {
			pl = uint64(g.r.Intn(12000))
		}
		dd := pl / 1024
		cands := []uint64{pl, pl + dd, pl + dd - 1, pl - dd, pl - dd + 1, pl + 1, 5000, 4999}
		hl := cands[g.r.Intn(len(cands))]
		if hl > 1<<63-1 {
			hl = 1<<63 - 1
		}
		okg := misc.VerifyGaslimit(pl, hl) == nil
		g.emit(tl.M{"fn": "biggaslimit", "pLimit": limbs(ub(pl)), "hLimit": limbs(ub(hl)), "ok": okg}, fmt.Sprint(okg, hl < pl, hl == pl, pl > 1<<40))
	}
	for i := 0; i < nblob; i++ {
		era := eraNames[g.r.Intn(len(eraNames))]
		time := g.eraTime(era)
		frac := map[string]uint64{"cancun": 3338477, "prague": 5007716, "osaka": 5007716, "bpo1": 8346193, "bpo2": 11684671}[era] // only to size the inputs
		exp := []uint64{0, 1, 2, 5, 10, 20, 30}[g.r.Intn(7)]
		if g.r.Intn(6) == 0 {
			exp = 40 + uint64(g.r.Intn(20))
		}
		excess := exp*frac + g.r.Uint64()%frac
		if g.r.Intn(8) == 0 {
			excess = uint64(g.r.Intn(30)) * 131072
		}
		hdr := &types.Header{Number: big.NewInt(5), Time: time, ExcessBlobGas: u64(excess)}
		fee := eip4844.CalcBlobFee(params.MainnetChainConfig, hdr)
		g.emit(tl.M{"fn": "bigblobfee", "era": era, "excess": limbs(ub(excess)), "out": limbs(fee)}, fmt.Sprint(era, exp))
		// excess update on the mainnet configuration
		bc := map[string][2]uint64{"cancun": {3, 6}, "prague": {6, 9}, "osaka": {6, 9}, "bpo1": {10, 15}, "bpo2": {14, 21}}[era] // input sizing only
		usedBlobs := []uint64{0, 1, bc[0] - 1, bc[0], bc[0] + 1, bc[1] - 1, bc[1]}[g.r.Intn(7)]
		pUsed := usedBlobs * 131072
		// base fees around the EIP-7918 threshold BLOB_BASE_COST * base = GAS_PER_BLOB * blobfee
		thr := new(big.Int).Mul(fee, big.NewInt(16))
		pBase := []*big.Int{new(big.Int).Set(thr), new(big.Int).Add(thr, big.NewInt(1)), new(big.Int).Sub(thr, big.NewInt(1)), big.NewInt(1_000_000_000),
			big.NewInt(7), g.bigFee()}[g.r.Intn(6)]
		if pBase.Sign() < 0 {
			pBase = new(big.Int)
		}
		parent := &types.Header{Number: big.NewInt(5), BaseFee: pBase, ExcessBlobGas: u64(excess), BlobGasUsed: u64(pUsed)}
		out := eip4844.CalcExcessBlobGas(params.MainnetChainConfig, parent, time)
		g.emit(tl.M{"fn": "bigexcess", "era": era, "pExcess": limbs(ub(excess)), "pUsed": limbs(ub(pUsed)), "pBase": limbs(pBase), "out": limbs(ub(out))},
			fmt.Sprint(era, out == 0, out > excess, pBase.Cmp(thr)))
	}
	sum.Steps = g.tr.N
	sum.Traces = 1
	sum.Rule = "seeded random and boundary inputs at mainnet magnitudes (gas limits to 2^63-1, base fees to 2^256, blob fee exponents to 60, params.MainnetChainConfig fork eras); distinct = distinct (function, branch-shape) classes"
}

func main() {
	mode := flag.String("mode", "record", "cases|record|recordbig")
	nblob := flag.Int("nblob", 12, "blob-fee rounds (mode recordbig)")
	in := flag.String("in", "", "cases json (mode cases)")
	trace := flag.String("trace", "trace.ndjson", "output trace (mode record)")
	out := flag.String("out", "summary.json", "summary output")
	n := flag.Int("n", 300, "rounds (one call of every function per round)")
	flag.Parse()
	seed := int64(tl.EnvInt("VERIF_SEED", 1))
	sum := tl.NewSummary("c35", *mode, seed)
	switch *mode {
	case "cases":
		sum.Mode = "replay"
		runCases(*in, seed, sum)
	case "record":
		runRecord(*trace, seed, *n, sum)
	case "recordbig":
		runRecordBig(*trace, seed, *n, *nblob, sum)
	default:
		tl.Fatal("bad mode")
	}
	sum.Write(*out)
	if len(sum.Violations) > 0 {
		os.Exit(1)
	}
}
