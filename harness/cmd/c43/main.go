// c43 binds spec/pool/TxOrder.tla to core/txpool/txorder (property C43, block building orders
// transactions by nonce and price).
//
//	-mode paths  -in edges.json   the TLC state graph of MCTxOrderEdges.cfg; for every snapshot
//	                               every Shift/Pop choice sequence (all paths of the graph from the
//	                               initial state) is executed on a fresh real iterator, comparing
//	                               Peek before and after every step (R, exhaustive)
//	-mode mbt    -in mbt.json     TLC-sampled behaviours on a larger domain replayed the same way (R)
//	-mode record -trace t.ndjson  seeded random snapshots with many accounts and random Shift/Pop
//	                               choices on the real iterator, validated by TxOrderTrace.tla (V)
package main

import (
	"encoding/json"
	"flag"
	"fmt"
	"math/big"
	"os"
	"sort"
	"time"

	"github.com/ethereum/go-ethereum/common"
	"github.com/ethereum/go-ethereum/core/txpool"
	"github.com/ethereum/go-ethereum/core/txpool/txorder"
	"github.com/ethereum/go-ethereum/core/types"
	"github.com/holiman/uint256"
	tl "verif/harness/tracelib"
)

type snap struct {
	Base    int64       `json:"base"`    // -1: no base fee
	Pending [][][]int64 `json:"pending"` // per account (index = account-1): list of [cap, tip, time]
}

type peek struct {
	Acct int   `json:"acct"` // 0: iterator empty
	Idx  int   `json:"idx"`
	Fee  int64 `json:"fee"`
}

var t0 = time.Unix(1_700_000_000, 0)

// shift scales every fee value of the real transactions (and the base fee) by 2^shift: the order and
// the effective tips scale with it, so the specification's small integers still decide the expected
// result while the implementation computes on numbers far beyond 64 bits.
var shift uint

func scaled(v int64) *uint256.Int { return new(uint256.Int).Lsh(uint256.NewInt(uint64(v)), shift) }

// build constructs the real iterator for a snapshot. Transaction identity (account, index) is
// carried in the hash.
func build(s snap) *txorder.TransactionsByPriceAndNonce {
	txs := map[common.Address][]*txpool.LazyTransaction{}
	for a, list := range s.Pending {
		if len(list) == 0 {
			continue // an account without transactions is not in the pending map
		}
		addr := common.BigToAddress(big.NewInt(int64(a + 1)))
		for i, tx := range list {
			var h common.Hash
			h[0], h[1], h[2], h[3] = byte((a+1)>>8), byte(a+1), byte((i+1)>>8), byte(i+1)
			txs[addr] = append(txs[addr], &txpool.LazyTransaction{
				Hash:      h,
				Time:      t0.Add(time.Duration(tx[2]) * time.Millisecond),
				GasFeeCap: scaled(tx[0]),
				GasTipCap: scaled(tx[1]),
				Gas:       21000,
			})
		}
	}
	var base *big.Int
	if s.Base >= 0 {
		base = scaled(s.Base).ToBig()
	}
	return txorder.NewTransactionsByPriceAndNonce(types.LatestSignerForChainID(big.NewInt(1)), txs, base)
}

func observe(it *txorder.TransactionsByPriceAndNonce) (peek, string) {
	tx, fee := it.Peek()
	if tx == nil {
		if !it.Empty() {
			return peek{}, "Peek returns nil but Empty() is false"
		}
		return peek{}, ""
	}
	if it.Empty() {
		return peek{}, "Peek returns a transaction but Empty() is true"
	}
	if low := new(uint256.Int).Lsh(new(uint256.Int).Rsh(fee, shift), shift); !low.Eq(fee) {
		return peek{}, fmt.Sprintf("Peek returns fee %v, not a multiple of 2^%d", fee, shift)
	}
	fee = new(uint256.Int).Rsh(fee, shift)
	if !fee.IsUint64() || fee.Uint64() > 1<<62 {
		return peek{}, fmt.Sprintf("Peek returns fee %v", fee)
	}
	return peek{Acct: int(tx.Hash[0])<<8 | int(tx.Hash[1]), Idx: int(tx.Hash[2])<<8 | int(tx.Hash[3]), Fee: int64(fee.Uint64())}, ""
}

func apply(it *txorder.TransactionsByPriceAndNonce, op string) {
	switch op {
	case "Shift":
		it.Shift()
	case "Pop":
		it.Pop()
	default:
		tl.Fatal("unknown op %q", op)
	}
}

type step struct {
	Op   string `json:"op"`
	Peek peek   `json:"peek"` // expected Peek after the operation
}

// replay executes one behaviour on a fresh iterator; first is the expected Peek after construction.
func replay(s snap, first peek, steps []step, sum *tl.Summary) bool {
	ok := true
	for _, sh := range []uint{0, 100, 222} {
		shift = sh
		ok = replayOnce(s, first, steps, sum) && ok
	}
	shift = 0
	return ok
}

func replayOnce(s snap, first peek, steps []step, sum *tl.Summary) bool {
	it := build(s)
	got, msg := observe(it)
	if msg != "" || got != first {
		sum.Violate(fmt.Sprintf("after NewTransactionsByPriceAndNonce (fees x 2^%d): implementation peeks %+v %s, specification %+v (snapshot %v)", shift, got, msg, first, s),
			tl.M{"snap": s, "steps": []step{}, "got": got, "want": first})
		return false
	}
	for i, st := range steps {
		apply(it, st.Op)
		sum.Steps++
		sum.Count(st.Op)
		got, msg = observe(it)
		if msg != "" || got != st.Peek {
			sum.Violate(fmt.Sprintf("after %v (fees x 2^%d): implementation peeks %+v %s, specification %+v (snapshot %v)", opsOf(steps[:i+1]), shift, got, msg, st.Peek, s),
				tl.M{"snap": s, "steps": steps[:i+1], "got": got, "want": st.Peek})
			return false
		}
	}
	return true
}

func opsOf(steps []step) []string {
	out := []string{}
	for _, s := range steps {
		out = append(out, s.Op)
	}
	return out
}

// ---------------------------------------------------------------- paths (R, exhaustive)

type proj struct {
	Snap  snap  `json:"snap"`
	Next  []int `json:"next"`
	Peek  peek  `json:"peek"`
	Fresh bool  `json:"fresh"`
}
type edge struct {
	From proj `json:"from"`
	Act  struct {
		Op   string `json:"op"`
		Peek peek   `json:"peek"`
	} `json:"act"`
	To struct {
		Next []int `json:"next"`
		Peek peek  `json:"peek"`
	} `json:"to"`
}

type succ struct {
	op   string
	next string
	peek peek
}

func runPaths(in string, sum *tl.Summary) {
	var edges []edge
	tl.ReadJSON(in, &edges)
	type graph struct {
		s     snap
		init  string
		first peek
		out   map[string]map[string]succ // state(next vector) -> op -> successor
		fromP map[string]peek
	}
	graphs := map[string]*graph{}
	var order []string
	for _, e := range edges {
		kb, _ := json.Marshal(e.From.Snap)
		k := string(kb)
		g := graphs[k]
		if g == nil {
			g = &graph{s: e.From.Snap, out: map[string]map[string]succ{}, fromP: map[string]peek{}}
			graphs[k] = g
			order = append(order, k)
		}
		from, to := fmt.Sprint(e.From.Next), fmt.Sprint(e.To.Next)
		if e.From.Fresh {
			g.init, g.first = from, e.From.Peek
		}
		if e.Act.Peek != e.From.Peek {
			tl.Fatal("edge label peek differs from its source state")
		}
		if g.out[from] == nil {
			g.out[from] = map[string]succ{}
		}
		if old, dup := g.out[from][e.Act.Op]; dup && (old.next != to || old.peek != e.To.Peek) {
			tl.Fatal("specification edges are not deterministic at %s %s", from, e.Act.Op)
		}
		g.out[from][e.Act.Op] = succ{e.Act.Op, to, e.To.Peek}
	}
	sort.Strings(order)
	for gi, k := range order {
		g := graphs[k]
		if g.init == "" {
			tl.Fatal("snapshot %s has no initial state among the edges", k)
		}
		// all maximal paths from the initial state
		var walk func(state string, path []step)
		walk = func(state string, path []step) {
			outs := g.out[state]
			if len(outs) == 0 {
				sum.Evaluations++
				if !replay(g.s, g.first, path, sum) {
					return
				}
				if sum.Evaluations%20000 == 5 {
					sum.Sample(tl.M{"snap": g.s, "first": g.first, "steps": path})
				}
				return
			}
			for _, op := range []string{"Shift", "Pop"} {
				if sc, ok := outs[op]; ok {
					walk(sc.next, append(append([]step{}, path...), step{op, sc.peek}))
				}
			}
		}
		walk(g.init, nil)
		sum.Distinct++
		_ = gi
		if len(sum.Violations) >= 20 {
			break
		}
	}
	sum.Extra["snapshots"] = len(order)
	sum.Extra["edges"] = len(edges)
	sum.Rule = "for every snapshot of MCTxOrderEdges.cfg every maximal Shift/Pop sequence through the TLC state graph is executed on a fresh txorder.TransactionsByPriceAndNonce, comparing Peek (account, nonce index, fee, emptiness) after construction and after every step; evaluations = behaviours, distinct = snapshots"
}

// ---------------------------------------------------------------- mbt (R, sampled)

type behaviour struct {
	Snap  snap   `json:"snap"`
	First step   `json:"first"`
	Steps []step `json:"steps"`
}

func runMBT(in string, sum *tl.Summary) {
	var bs []behaviour
	tl.ReadJSON(in, &bs)
	seen := map[string]bool{}
	for i, b := range bs {
		kb, _ := json.Marshal(b)
		if seen[string(kb)] {
			continue
		}
		seen[string(kb)] = true
		sum.Distinct++
		sum.Evaluations++
		replay(b.Snap, b.First.Peek, b.Steps, sum)
		if i%500 == 1 {
			sum.Sample(b)
		}
	}
	sum.Rule = "behaviours sampled by TLC -simulate on MCTxOrderSim.cfg replayed on fresh iterators, Peek compared after every step; distinct = distinct behaviours"
}

// ---------------------------------------------------------------- record (V)

func runRecord(path string, seed int64, ntraces, na, maxTx int, sum *tl.Summary) {
	r := tl.Rand(seed)
	tr := tl.NewTrace(path)
	defer tr.Close()
	for t := 0; t < ntraces; t++ {
		var s snap
		switch r.Intn(4) {
		case 0:
			s.Base = -1
		default:
			s.Base = 50 + r.Int63n(100)
		}
		nt := 0
		times := r.Perm(na*maxTx + 1)
		for a := 0; a < na; a++ {
			var list [][]int64
			n := r.Intn(maxTx + 1)
			if r.Intn(5) == 0 {
				n = 0
			}
			for i := 0; i < n; i++ {
				var cap_, tip int64
				switch r.Intn(6) {
				case 0: // below or at the base fee
					cap_ = 40 + r.Int63n(70)
				case 1: // few distinct values: many ties
					cap_ = 150 + 10*r.Int63n(3)
				default:
					cap_ = 50 + r.Int63n(400)
				}
				switch r.Intn(3) {
				case 0:
					tip = cap_
				case 1:
					tip = 1 + r.Int63n(5)
				default:
					tip = r.Int63n(cap_ + 1)
				}
				list = append(list, []int64{cap_, tip, int64(times[nt])})
				nt++
			}
			if list == nil {
				list = [][]int64{}
			}
			s.Pending = append(s.Pending, list)
		}
		shift = []uint{0, 0, 70, 200}[r.Intn(4)]
		it := build(s)
		p, msg := observe(it)
		if msg != "" {
			sum.Violate(msg, tl.M{"snap": s})
		}
		tr.Emit(tl.M{"op": "Snap", "base": s.Base, "pending": s.Pending, "peek": peek{}})
		tr.Emit(tl.M{"op": "New", "base": s.Base, "pending": [][][]int64{}, "peek": p})
		sum.Count("New")
		popRate := []int{0, 3, 10}[r.Intn(3)]
		for !it.Empty() {
			op := "Shift"
			if popRate > 0 && r.Intn(popRate) == 0 {
				op = "Pop"
			}
			apply(it, op)
			p, msg = observe(it)
			if msg != "" {
				sum.Violate(msg, tl.M{"snap": s})
			}
			tr.Emit(tl.M{"op": op, "base": s.Base, "pending": [][][]int64{}, "peek": p})
			sum.Count(op)
		}
		sum.Traces++
		sum.Evaluations++
		sum.Distinct++
		if t < 1 {
			sum.Sample(tl.M{"base": s.Base, "accounts": na, "txs": nt})
		}
	}
	sum.Steps = tr.N
	sum.Rule = fmt.Sprintf("seeded random snapshots (%d accounts, <=%d transactions each, fee caps below/above the base fee, tie-heavy values, no base fee in 1/4) driven to exhaustion with random Shift/Pop on the real iterator; every Peek logged; distinct = snapshots", na, maxTx)
}

func main() {
	mode := flag.String("mode", "paths", "paths|mbt|record")
	in := flag.String("in", "", "input json")
	trace := flag.String("trace", "trace.ndjson", "output trace")
	out := flag.String("out", "summary.json", "summary output")
	n := flag.Int("n", 20, "number of random snapshots")
	na := flag.Int("na", 50, "accounts per snapshot")
	maxTx := flag.Int("maxtx", 5, "transactions per account")
	flag.Parse()
	seed := int64(tl.EnvInt("VERIF_SEED", 1))
	sum := tl.NewSummary("c43", *mode, seed)
	switch *mode {
	case "paths":
		sum.Mode = "replay"
		runPaths(*in, sum)
	case "mbt":
		sum.Mode = "replay"
		runMBT(*in, sum)
	case "record":
		runRecord(*trace, seed, *n, *na, *maxTx, sum)
	default:
		tl.Fatal("bad mode")
	}
	sum.Write(*out)
	if len(sum.Violations) > 0 {
		os.Exit(1)
	}
}
