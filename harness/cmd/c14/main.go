// c14 drives two core/state.StateDB twins over one real state database for property C14
// (state commit and reopen preserve the state; copies are independent;
// spec/state/StateCommit.tla).
//
//	-mode mbt    -in behaviours.json  replay behaviours sampled by TLC from MCStateCommit (R)
//	-mode record -trace t.ndjson      seeded random multi-block histories with copies, commits,
//	                                  reopen and database persistence, recorded with the
//	                                  projection of BOTH twins after every call (V)
//
// Configuration matrix (rotated per behaviour): {hash, path} scheme x {snapshot tree on, off}
// x {trie prefetcher on, off} x {plain reader, cache-sharing readers of block processing}.  At every Commit: the returned root must equal the
// IntermediateRoot of a copy taken just before and the StackTrie root of the model world,
// and the state at that root is read through the account/storage tries, the flat reader
// (pathdb / snapshot tree), the code database and the iterators and compared with the world.
package main

import (
	"flag"
	"fmt"
	"os"

	"github.com/ethereum/go-ethereum/common"
	sk "verif/harness/statekit"
	tl "verif/harness/tracelib"
)

type act struct {
	sk.Act
	T     int      `json:"t"`
	World sk.World `json:"world"`
}

type step struct {
	Act act       `json:"act"`
	Sts []sk.Proj `json:"sts"`
}

type cfg struct {
	scheme   string
	snap     bool
	prefetch bool
	cached   bool
}

func cfgFor(i int) cfg {
	return cfg{scheme: []string{"hash", "path"}[i%2], snap: (i/2)%2 == 1, prefetch: (i/4)%2 == 1, cached: (i/8)%2 == 1}
}

func (c cfg) String() string {
	return fmt.Sprintf("%s/snap=%v/prefetch=%v/cachedreader=%v", c.scheme, c.snap, c.prefetch, c.cached)
}

// world is the twin system under test.
type system struct {
	u     *sk.Universe
	c     cfg
	env   *sk.Env
	tw    [2]*sk.Machine
	roots map[string]common.Hash // committed worlds (by text) -> latest root holding that world
	sent  map[common.Hash]uint64 // root -> sentinel nonce in that state
	ctr   uint64
}

func worldKey(w sk.World) string { return fmt.Sprint(w) }

func newSystem(u *sk.Universe, c cfg, rules string, w sk.World) (*system, error) {
	s := &system{u: u, c: c, env: sk.NewEnv(c.scheme, c.snap), roots: map[string]common.Hash{}, sent: map[common.Hash]uint64{}}
	s.env.CachedReader = c.cached
	m, err := sk.NewMachine(u, s.env, rules, w)
	if err != nil {
		return nil, err
	}
	root := m.LastRoot
	s.roots[worldKey(w)] = root
	m.Counter = &s.ctr
	s.tw[0] = m
	m2 := *m
	s.tw[1] = &m2
	if err := s.tw[1].Reopen(root, c.prefetch); err != nil {
		return nil, err
	}
	if c.prefetch {
		s.tw[0].SDB.StartPrefetcher("c14", nil)
	}
	return s, nil
}

func (s *system) close() {
	for _, m := range s.tw {
		m.Release()
	}
	s.env.Close()
}

// apply executes one action; problems are divergences of the real code.
func (s *system) apply(a act) (problems []string) {
	i := a.T - 1
	switch a.Op {
	case "Commit":
		root, p := s.tw[i].Commit(s.c.prefetch)
		problems = append(problems, p...)
		if root != (common.Hash{}) {
			// the world that was committed is what the reopened state reads; the caller compares
			// that with the model, here the independent readers are checked against a.World
			// (mbt) or against the projection of the reopened state (record)
			w := a.World
			if w == nil {
				pr, _ := s.tw[i].Project(false)
				w = pr.World()
			}
			s.roots[worldKey(w)] = root
			s.sent[root] = s.ctr
			problems = append(problems, s.u.VerifyReaders(s.env, root, w, s.sent[root])...)
		}
	case "Open":
		root, ok := s.roots[worldKey(a.World)]
		if !ok {
			tl.Fatal("driver: Open of a world that was never committed: %v", a.World)
		}
		s.tw[i].Release()
		if err := s.tw[i].Reopen(root, s.c.prefetch); err != nil {
			problems = append(problems, fmt.Sprintf("state.New at committed root %x: %v", root, err))
		}
	case "Copy":
		s.tw[1-i].Release()
		s.tw[1-i] = s.tw[i].Clone()
	case "Persist":
		root, ok := s.roots[worldKey(a.World)]
		if !ok {
			tl.Fatal("driver: Persist of a world that was never committed: %v", a.World)
		}
		for _, m := range s.tw {
			m.Release()
		}
		if err := s.env.Persist(root); err != nil {
			return append(problems, fmt.Sprintf("persisting root %x: %v", root, err))
		}
		s.roots = map[string]common.Hash{worldKey(a.World): root}
		problems = append(problems, s.u.VerifyReaders(s.env, root, a.World, s.sent[root])...)
		for _, m := range s.tw {
			if err := m.Reopen(root, s.c.prefetch); err != nil {
				problems = append(problems, fmt.Sprintf("state.New at persisted root %x after reopening the database: %v", root, err))
			}
		}
	default:
		if err := s.tw[i].Apply(a.Act); err != nil {
			tl.Fatal("%v", err)
		}
		if a.Op == "IntermediateRoot" {
			pr, _ := s.tw[i].Project(false)
			problems = append(problems, s.tw[i].CheckRoots(pr.World())...)
		}
	}
	return problems
}

func (s *system) project() ([]sk.Proj, []string) {
	var out []sk.Proj
	var problems []string
	for _, m := range s.tw {
		p, pr := m.Project(false)
		out = append(out, p)
		problems = append(problems, pr...)
	}
	return out, problems
}

func keys(ps []sk.Proj) string {
	k := ""
	for _, p := range ps {
		k += p.Key() + "\n                  "
	}
	return k
}

func replay(steps []step, idx int, sum *tl.Summary) (string, int) {
	st := steps[0].Sts[0]
	u := &sk.Universe{NA: len(st.Acc), NS: len(st.Acc[0].St)}
	c := cfgFor(idx)
	s, err := newSystem(u, c, steps[0].Act.Rules, st.World())
	if err != nil {
		return err.Error(), 0
	}
	defer s.close()
	for i := 1; i < len(steps); i++ {
		a := steps[i].Act
		problems := s.apply(a)
		sum.Steps++
		sum.Count(a.Op)
		if len(problems) > 0 {
			return fmt.Sprintf("[%v] step %d %s(twin %d): %v", c, i, a.Op, a.T, problems), i
		}
		got, problems := s.project()
		if len(problems) > 0 {
			return fmt.Sprintf("[%v] step %d %s(twin %d): inconsistent observables: %v", c, i, a.Op, a.T, problems), i
		}
		if gk, wk := keys(got), keys(steps[i].Sts); gk != wk {
			return fmt.Sprintf("[%v] step %d %+v (twin %d): observables of the twins differ from the model\n  implementation: %s\n  specification:  %s", c, i, a.Act, a.T, gk, wk), i
		}
	}
	return "", 0
}

func runMBT(in string, sum *tl.Summary) {
	var bs [][]step
	tl.ReadJSON(in, &bs)
	distinct := map[string]bool{}
	for i, b := range bs {
		if len(b) < 2 {
			continue
		}
		sum.Evaluations++
		if d, at := replay(b, i, sum); d != "" {
			sum.Violate(fmt.Sprintf("StateDB twins diverge from StateCommit.tla (behaviour %d, rules %s): %s", i, b[0].Act.Rules, d),
				tl.M{"behaviour": b[:at+1], "config": cfgFor(i).String()})
		}
		key := b[0].Sts[0].Key()
		for _, s := range b[1:] {
			key += fmt.Sprintf("%s.%d.%d.%d.%d.%d;", s.Act.Op, s.Act.T, s.Act.A, s.Act.K, s.Act.V, s.Act.I)
		}
		if !distinct[key] {
			distinct[key] = true
			sum.Distinct++
		}
		if i%97 == 0 {
			var acts []string
			for _, s := range b {
				acts = append(acts, fmt.Sprintf("%s@%d", s.Act.Op, s.Act.T))
			}
			sum.Sample(tl.M{"behaviour": acts, "config": cfgFor(i).String()})
		}
	}
	sum.Traces = len(bs)
	sum.Rule = "behaviours sampled by TLC -simulate from MCStateCommit replayed on two real StateDB twins over one database (scheme x snapshot tree x prefetcher rotated); observables of both twins after every step, commit roots and all readers at every commit; distinct = distinct (initial state, action sequence)"
}

func runRecord(path string, seed int64, ntraces, steps, na, ns int, sum *tl.Summary) {
	r := tl.Rand(seed)
	tr := tl.NewTrace(path)
	defer tr.Close()
	u := &sk.Universe{NA: na, NS: ns}
	shapes := map[string]bool{}
	for t := 0; t < ntraces; t++ {
		rules := sk.RuleNames[(t+int(seed))%4]
		c := cfgFor(t/2 + int(seed))
		g := sk.DefaultGen()
		g.Reads = false // (transient storage, access list, refund and logs are on: Copy must keep them apart too)
		w := u.RandomWorld(r, g.MaxCode)
		s, err := newSystem(u, c, rules, w)
		if err != nil {
			sum.Violate("opening a committed base world: "+err.Error(), tl.M{"world": w, "rules": rules, "config": c.String()})
			continue
		}
		committed := []sk.World{w}
		sts, problems := s.project()
		emit := func(a act, ok bool, extra tl.M) {
			ev := tl.M{"op": a.Op, "t": a.T, "a": a.A, "k": a.K, "v": a.V, "i": a.I, "sts": sts, "ok": ok}
			for k, v := range extra {
				ev[k] = v
			}
			tr.Emit(ev)
		}
		emit(act{Act: sk.Act{Op: "reset"}}, len(problems) == 0, tl.M{"rules": rules, "world": w})
		shape := rules
		for i := 0; i < steps; i++ {
			ti := r.Intn(2)
			m := s.tw[ti]
			a := act{T: ti + 1}
			var extra tl.M
			switch x := r.Intn(100); {
			case x < 5:
				a.Op = "Commit"
			case x < 8:
				a.Op = "Copy"
			case x < 10:
				a.Op, a.World = "Open", committed[r.Intn(len(committed))]
				extra = tl.M{"world": a.World}
			case x < 11:
				a.Op, a.World, a.T = "Persist", committed[len(committed)-1-r.Intn(min(2, len(committed)))], 0
				extra = tl.M{"world": a.World}
			default:
				a.Act = g.Next(r, m, &sts[ti])
			}
			problems := s.apply(a)
			var p2 []string
			sts, p2 = s.project()
			problems = append(problems, p2...)
			switch a.Op {
			case "Commit":
				cw := sts[ti].World()
				extra = tl.M{"world": cw}
				if len(problems) == 0 {
					committed = append(committed, cw)
				}
			case "Persist":
				committed = []sk.World{a.World}
			}
			if len(problems) > 0 && len(sum.Notes) < 20 {
				sum.Notes = append(sum.Notes, fmt.Sprintf("[%v] trace %d step %d %s(twin %d): %v", c, t, i, a.Op, a.T, problems))
			}
			emit(a, len(problems) == 0, extra)
			sum.Count(a.Op)
			shape += a.Op[:2]
			if len(problems) > 0 {
				break // the trace is rejected at this event; what follows a divergence means nothing
			}
			if t == 0 && i < 3 {
				sum.Sample(tl.M{"op": a.Op, "t": a.T, "a": a.A, "v": a.V, "config": c.String()})
			}
		}
		s.close()
		sum.Traces++
		sum.Evaluations++
		if !shapes[shape] {
			shapes[shape] = true
			sum.Distinct++
		}
	}
	sum.Steps = tr.N
	sum.Rule = fmt.Sprintf("seeded random multi-block histories on two StateDB twins over one database (%d addresses, %d slots, 4 rule sets, scheme x snapshot tree x prefetcher); distinct = distinct operation-name sequences", na, ns)
}

func main() {
	mode := flag.String("mode", "record", "mbt|record")
	in := flag.String("in", "", "behaviours json (mode mbt)")
	trace := flag.String("trace", "trace.ndjson", "output trace (mode record)")
	out := flag.String("out", "summary.json", "summary output")
	n := flag.Int("n", 40, "number of traces")
	steps := flag.Int("steps", 150, "steps per trace")
	na := flag.Int("na", 3, "addresses (record)")
	ns := flag.Int("ns", 2, "slots (record)")
	flag.Parse()
	seed := int64(tl.EnvInt("VERIF_SEED", 1))
	sum := tl.NewSummary("c14", *mode, seed)
	switch *mode {
	case "mbt":
		runMBT(*in, sum)
		sum.Mode = "replay"
	case "record":
		runRecord(*trace, seed, *n, *steps, *na, *ns, sum)
	default:
		tl.Fatal("bad mode")
	}
	sum.Write(*out)
	if len(sum.Violations) > 0 {
		os.Exit(1)
	}
}
