//go:build !cgo

package main

const cgoEnabled = false
