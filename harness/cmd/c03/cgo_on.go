//go:build cgo

package main

const cgoEnabled = true
