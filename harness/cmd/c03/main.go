// c03 binds spec/codec/Signer.tla (property C03: signing and sender recovery are inverse
// and strict; both secp256k1 backends agree) to core/types and crypto.
//
//	-mode table  -in table.json -log rows.ndjson
//	       realises every TLC-enumerated (signer, signed transaction) row with real keys and
//	       real signatures, edits the signature into the row's class and compares the class
//	       of types.Sender with the outcomes the specification admits (R); SIGN rows run
//	       types.SignTx; HASHFIELDS rows bind the signing-hash preimages; MBT behaviours
//	       replay repeated Sender calls on one transaction object (sender cache).
//	-mode corpus -log corpus.ndjson -n N
//	       seeded corpus of crypto.Sign / Ecrecover / SigToPub / VerifySignature /
//	       CompressPubkey / DecompressPubkey calls, one event per call (V).
//
// The binary is built twice (CGO_ENABLED=1: libsecp256k1, CGO_ENABLED=0: decred); the check
// merges the two logs into one trace in which SignerTrace.tla demands equal results.
package main

import (
	"bytes"
	"crypto/ecdsa"
	"crypto/sha256"
	"encoding/hex"
	"errors"
	"flag"
	"fmt"
	"math/big"
	"math/rand"
	"os"
	"sort"
	"strings"

	"github.com/ethereum/go-ethereum/common"
	"github.com/ethereum/go-ethereum/core/types"
	"github.com/ethereum/go-ethereum/crypto"
	"github.com/ethereum/go-ethereum/params"
	"github.com/ethereum/go-ethereum/rlp"
	"github.com/holiman/uint256"
	tl "verif/harness/tracelib"
)

var (
	curveN = crypto.S256().Params().N
	halfN  = new(big.Int).Rsh(curveN, 1)
	maxU   = new(big.Int).Sub(new(big.Int).Lsh(big.NewInt(1), 256), big.NewInt(1))
	two64  = new(big.Int).Lsh(big.NewInt(1), 64)
)

const bigChainToken = 1000000007

// chainOf maps the chain tokens of the specification to chain ids.
func chainOf(tok int64) *big.Int {
	if tok == bigChainToken {
		c := new(big.Int).Lsh(big.NewInt(1), 70)
		return c.Add(c, big.NewInt(12345))
	}
	return big.NewInt(tok)
}

// ------------------------------------------------------------------ spec rows

type sgDesc struct {
	Kind  int   `json:"kind"`
	Chain int64 `json:"chain"`
}

type txDesc struct {
	Type   int    `json:"type"`
	Chain  int64  `json:"chain"`
	Vk     string `json:"vk"`
	Vchain int64  `json:"vchain"`
	Par    string `json:"par"`
	Hash   string `json:"hash"`
	R      string `json:"r"`
	S      string `json:"s"`
}

type caseRow struct {
	Sg      sgDesc   `json:"sg"`
	Tx      txDesc   `json:"tx"`
	Allowed []string `json:"allowed"`
}

type signRow struct {
	Sg      sgDesc `json:"sg"`
	Type    int    `json:"type"`
	TxChain int64  `json:"txChain"`
	Outcome string `json:"outcome"`
	Signed  txDesc `json:"signed"`
}

type forkRow struct {
	Fork   string `json:"fork"`
	Idx    int    `json:"idx"`
	Kind   int    `json:"kind"`
	Latest int    `json:"latest"`
}

type hashRow struct {
	Type      int      `json:"type"`
	Protected bool     `json:"protected"`
	Fields    []string `json:"fields"`
}

type mbtRow struct {
	Tx    txDesc `json:"tx"`
	Calls []struct {
		Signer sgDesc `json:"signer"`
		Res    string `json:"res"`
	} `json:"calls"`
}

type table struct {
	Cases  []caseRow `json:"cases"`
	Signs  []signRow `json:"signs"`
	Forks  []forkRow `json:"forks"`
	Hashes []hashRow `json:"hashes"`
	MBT    []mbtRow  `json:"mbt"`
}

// ------------------------------------------------------------------ transaction content

// content holds the value of every payload field; a payload of any type is built from it.
type content struct {
	nonce      uint64
	gasPrice   *big.Int
	tip, cap   *big.Int
	gas        uint64
	to         *common.Address
	value      *big.Int
	data       []byte
	al         types.AccessList
	blobFeeCap *big.Int
	blobHashes []common.Hash
	auths      []types.SetCodeAuthorization
}

func randContent(r *rand.Rand) *content {
	c := &content{nonce: r.Uint64() >> uint(r.Intn(64)), gas: 21000 + uint64(r.Intn(1000000))}
	bigr := func(bits int) *big.Int {
		b := make([]byte, 1+r.Intn(bits/8))
		r.Read(b)
		return new(big.Int).SetBytes(b)
	}
	c.gasPrice, c.tip, c.cap, c.value, c.blobFeeCap = bigr(80), bigr(64), bigr(80), bigr(120), bigr(64)
	var to common.Address
	r.Read(to[:])
	c.to = &to
	c.data = make([]byte, r.Intn(70))
	r.Read(c.data)
	for i := r.Intn(3); i > 0; i-- {
		var t types.AccessTuple
		r.Read(t.Address[:])
		t.StorageKeys = []common.Hash{}
		for k := r.Intn(3); k > 0; k-- {
			var h common.Hash
			r.Read(h[:])
			t.StorageKeys = append(t.StorageKeys, h)
		}
		c.al = append(c.al, t)
	}
	for i := 1 + r.Intn(2); i > 0; i-- {
		var h common.Hash
		r.Read(h[:])
		h[0] = 1
		c.blobHashes = append(c.blobHashes, h)
	}
	for i := 1 + r.Intn(2); i > 0; i-- {
		var a types.SetCodeAuthorization
		a.ChainID = *uint256.NewInt(uint64(r.Intn(3)))
		r.Read(a.Address[:])
		a.Nonce = uint64(r.Intn(100))
		a.V = uint8(r.Intn(2))
		a.R, a.S = *uint256.NewInt(r.Uint64()), *uint256.NewInt(r.Uint64())
		c.auths = append(c.auths, a)
	}
	return c
}

func u256(b *big.Int) *uint256.Int {
	if b == nil {
		return nil
	}
	v, _ := uint256.FromBig(b)
	return v
}

// build makes a payload of the given type; chain is the chain-id field of typed payloads;
// v, r, s may be nil (unsigned).
func (c *content) build(typ int, chain, v, r, s *big.Int) *types.Transaction {
	switch typ {
	case 0:
		return types.NewTx(&types.LegacyTx{Nonce: c.nonce, GasPrice: c.gasPrice, Gas: c.gas, To: c.to, Value: c.value, Data: c.data, V: v, R: r, S: s})
	case 1:
		return types.NewTx(&types.AccessListTx{ChainID: chain, Nonce: c.nonce, GasPrice: c.gasPrice, Gas: c.gas, To: c.to, Value: c.value, Data: c.data, AccessList: c.al, V: v, R: r, S: s})
	case 2:
		return types.NewTx(&types.DynamicFeeTx{ChainID: chain, Nonce: c.nonce, GasTipCap: c.tip, GasFeeCap: c.cap, Gas: c.gas, To: c.to, Value: c.value, Data: c.data, AccessList: c.al, V: v, R: r, S: s})
	case 3:
		return types.NewTx(&types.BlobTx{ChainID: u256(chain), Nonce: c.nonce, GasTipCap: u256(c.tip), GasFeeCap: u256(c.cap), Gas: c.gas, To: *c.to, Value: u256(c.value), Data: c.data,
			AccessList: c.al, BlobFeeCap: u256(c.blobFeeCap), BlobHashes: c.blobHashes, V: u256(v), R: u256(r), S: u256(s)})
	case 4:
		return types.NewTx(&types.SetCodeTx{ChainID: u256(chain), Nonce: c.nonce, GasTipCap: u256(c.tip), GasFeeCap: u256(c.cap), Gas: c.gas, To: *c.to, Value: u256(c.value), Data: c.data,
			AccessList: c.al, AuthList: c.auths, V: u256(v), R: u256(r), S: u256(s)})
	}
	tl.Fatal("bad tx type %d", typ)
	return nil
}

// fieldValue is the value of a named field of the EIP field lists.
func (c *content) fieldValue(name string, chain *big.Int) any {
	al := c.al
	if al == nil {
		al = types.AccessList{}
	}
	switch name {
	case "nonce":
		return c.nonce
	case "gasPrice":
		return c.gasPrice
	case "maxPriorityFeePerGas":
		return c.tip
	case "maxFeePerGas":
		return c.cap
	case "gas":
		return c.gas
	case "to":
		if c.to == nil {
			return []byte{}
		}
		return c.to.Bytes()
	case "value":
		return c.value
	case "data":
		return c.data
	case "chainId":
		return chain
	case "zero":
		return uint(0)
	case "accessList":
		return al
	case "maxFeePerBlobGas":
		return c.blobFeeCap
	case "blobVersionedHashes":
		return c.blobHashes
	case "authorizationList":
		return c.auths
	}
	tl.Fatal("unknown signing-hash field %q", name)
	return nil
}

// preimageHash computes keccak256([type ||] rlp(fields...)) from the field list the
// specification prints (HASHFIELDS); it does not use the signing-hash code under test.
func (t *table) preimageHash(c *content, typ int, protected bool, chain *big.Int) common.Hash {
	for _, h := range t.Hashes {
		if h.Type == typ && (typ != 0 || h.Protected == protected) {
			list := make([]any, len(h.Fields))
			for i, f := range h.Fields {
				list[i] = c.fieldValue(f, chain)
			}
			enc, err := rlp.EncodeToBytes(list)
			if err != nil {
				tl.Fatal("rlp of preimage: %v", err)
			}
			if typ != 0 {
				enc = append([]byte{byte(typ)}, enc...)
			}
			return crypto.Keccak256Hash(enc)
		}
	}
	tl.Fatal("no HASHFIELDS row for type %d", typ)
	return common.Hash{}
}

// ------------------------------------------------------------------ signers

// ladder level -> config with every fork up to the level active at block 10 / time 10.
var forkNames = []string{"Frontier", "Homestead", "TangerineWhistle", "SpuriousDragon", "Byzantium", "Constantinople", "Petersburg",
	"Istanbul", "MuirGlacier", "Berlin", "London", "ArrowGlacier", "GrayGlacier", "Paris", "Shanghai", "Cancun", "Prague", "Osaka"}

func configAt(level int, chain *big.Int) *params.ChainConfig {
	c := &params.ChainConfig{ChainID: chain}
	z := big.NewInt(0)
	blocks := []**big.Int{nil, nil, &c.HomesteadBlock, &c.EIP150Block, &c.EIP155Block, &c.ByzantiumBlock, &c.ConstantinopleBlock, &c.PetersburgBlock,
		&c.IstanbulBlock, &c.MuirGlacierBlock, &c.BerlinBlock, &c.LondonBlock, &c.ArrowGlacierBlock, &c.GrayGlacierBlock}
	for i := 2; i <= level && i < len(blocks); i++ {
		*blocks[i] = z
	}
	if level >= 4 {
		c.EIP158Block = z
	}
	zero := uint64(0)
	if level >= 15 {
		c.ShanghaiTime = &zero
	}
	if level >= 16 {
		c.CancunTime = &zero
	}
	if level >= 17 {
		c.PragueTime = &zero
	}
	if level >= 18 {
		c.OsakaTime = &zero
	}
	return c
}

// makeSigner realises a specification signer; the seed decides between the constructor and
// types.MakeSigner on a chain configuration at one of the forks the specification maps to
// the signer kind (FORK rows).
func (t *table) makeSigner(sg sgDesc, r *rand.Rand) (types.Signer, string) {
	chain := big.NewInt(1)
	if sg.Chain >= 0 {
		chain = chainOf(sg.Chain)
	}
	switch r.Intn(4) {
	case 0, 1:
		var levels []int
		for _, f := range t.Forks {
			if f.Kind == sg.Kind {
				levels = append(levels, f.Idx)
			}
		}
		if len(levels) > 0 {
			lv := levels[r.Intn(len(levels))]
			return types.MakeSigner(configAt(lv, chain), big.NewInt(10), 10), "MakeSigner@" + forkNames[lv-1]
		}
	case 2:
		// types.LatestSigner on a configuration whose last scheduled fork maps to the kind
		var levels []int
		for _, f := range t.Forks {
			if f.Latest == sg.Kind {
				levels = append(levels, f.Idx)
			}
		}
		if len(levels) > 0 {
			lv := levels[r.Intn(len(levels))]
			return types.LatestSigner(configAt(lv, chain)), "LatestSigner@" + forkNames[lv-1]
		}
	}
	switch sg.Kind {
	case 1:
		return types.FrontierSigner{}, "FrontierSigner"
	case 2:
		return types.HomesteadSigner{}, "HomesteadSigner"
	case 3:
		return types.NewEIP155Signer(chain), "NewEIP155Signer"
	case 4:
		return types.NewEIP2930Signer(chain), "NewEIP2930Signer"
	case 5:
		return types.NewLondonSigner(chain), "NewLondonSigner"
	case 6:
		return types.NewCancunSigner(chain), "NewCancunSigner"
	case 7:
		if r.Intn(2) == 0 {
			return types.LatestSignerForChainID(chain), "LatestSignerForChainID"
		}
		return types.NewPragueSigner(chain), "NewPragueSigner"
	}
	tl.Fatal("bad signer kind %d", sg.Kind)
	return nil, ""
}

// ------------------------------------------------------------------ realising a row

func newKey(r *rand.Rand) *ecdsa.PrivateKey {
	for {
		b := make([]byte, 32)
		r.Read(b)
		if k, err := crypto.ToECDSA(b); err == nil {
			return k
		}
	}
}

type realised struct {
	tx   *types.Transaction
	key  *ecdsa.PrivateKey
	addr common.Address
	c    *content
}

// realise builds a transaction object of the row's class: an honest signature of a fresh
// key over the preimage the row names, edited into the row's r/s/v class.
func (t *table) realise(d txDesc, r *rand.Rand) *realised {
	c := randContent(r)
	if d.Type == 0 && r.Intn(4) == 0 {
		c.to = nil // contract creation
	}
	key := newKey(r)
	var chain *big.Int
	if d.Type != 0 {
		chain = chainOf(d.Chain)
	}
	// the preimage the signature is made over
	signed := *c
	if d.Hash == "mismatch" {
		signed.nonce = c.nonce + 1
	}
	var h common.Hash
	switch {
	case d.Type != 0:
		h = t.preimageHash(&signed, d.Type, true, chain)
	case d.Vk == "prot":
		h = t.preimageHash(&signed, 0, true, chainOf(d.Vchain))
	default:
		h = t.preimageHash(&signed, 0, false, nil)
	}
	sig, err := crypto.Sign(h[:], key)
	if err != nil {
		tl.Fatal("crypto.Sign: %v", err)
	}
	r0, s0, p0 := new(big.Int).SetBytes(sig[:32]), new(big.Int).SetBytes(sig[32:64]), int64(sig[64])
	if s0.Cmp(halfN) > 0 {
		tl.Fatal("crypto.Sign returned a high-s signature")
	}
	var R, S *big.Int
	switch d.R {
	case "ok":
		R = r0
	case "zero":
		R = new(big.Int)
	case "N":
		R = new(big.Int).Set(curveN)
	case "max":
		R = new(big.Int).Set(maxU)
	default:
		tl.Fatal("bad r kind %q", d.R)
	}
	switch d.S {
	case "low":
		S = s0
	case "highM":
		S = new(big.Int).Sub(curveN, s0)
	case "half":
		S = new(big.Int).Set(halfN)
	case "half1":
		S = new(big.Int).Add(halfN, big.NewInt(1))
	case "Nm1":
		S = new(big.Int).Sub(curveN, big.NewInt(1))
	case "zero":
		S = new(big.Int)
	case "N":
		S = new(big.Int).Set(curveN)
	case "max":
		S = new(big.Int).Set(maxU)
	default:
		tl.Fatal("bad s kind %q", d.S)
	}
	p := p0
	if d.Par == "flip" {
		p = 1 - p0
	}
	var V *big.Int
	switch d.Vk {
	case "u", "v27":
		V = big.NewInt(27 + p)
	case "prot":
		V = new(big.Int).Mul(chainOf(d.Vchain), big.NewInt(2))
		V.Add(V, big.NewInt(35+p))
	case "raw", "par":
		V = big.NewInt(p)
	case "junk":
		junk := []int64{2, 3, 26, 29, 30, 34}
		V = big.NewInt(junk[r.Intn(len(junk))])
	case "huge":
		V = new(big.Int).Add(two64, big.NewInt(p))
		if d.Type == 0 {
			V.Add(V, big.NewInt(27))
		}
	case "two":
		V = big.NewInt(2 + p)
	case "v255":
		V = big.NewInt(255)
	case "v256":
		V = big.NewInt(256 + p)
	default:
		tl.Fatal("bad v kind %q", d.Vk)
	}
	return &realised{tx: c.build(d.Type, chain, V, R, S), key: key, addr: crypto.PubkeyToAddress(key.PublicKey), c: c}
}

func classify(addr common.Address, err error, want common.Address) string {
	switch {
	case err == nil && addr == want:
		return "Signer"
	case err == nil:
		return "Other"
	case errors.Is(err, types.ErrTxTypeNotSupported):
		return "ErrTxType"
	case errors.Is(err, types.ErrInvalidChainId):
		return "ErrChainId"
	}
	return "ErrSig"
}

func contains(xs []string, x string) bool {
	for _, y := range xs {
		if x == y {
			return true
		}
	}
	return false
}

// ------------------------------------------------------------------ mode table

var rowLogEvery = 97

func runTable(in, logPath string, seed int64, sum *tl.Summary) {
	var t table
	tl.ReadJSON(in, &t)
	log := tl.NewTrace(logPath)
	defer log.Close()
	r := tl.Rand(seed)
	distinct := map[string]bool{}
	note := func(k string) {
		if !distinct[k] {
			distinct[k] = true
			sum.Distinct++
		}
	}
	digest := sha256.New()
	nrows := 0
	flush := func(force bool) {
		if nrows > 0 && (force || nrows%500 == 0) {
			log.Emit(tl.M{"op": "rows", "upto": nrows, "digest": hex.EncodeToString(digest.Sum(nil))})
		}
	}

	// (1) signing-hash preimages: Signer.Hash of every supporting signer equals the
	// keccak of the EIP field list, ignores the signature fields and depends on every listed field
	for _, h := range t.Hashes {
		for trial := 0; trial < 6; trial++ {
			c := randContent(r)
			for _, sg := range []sgDesc{{1, -1}, {2, -1}, {3, 0}, {3, 1}, {3, bigChainToken}, {4, 1337}, {5, 1}, {6, bigChainToken}, {7, 1}, {7, 1337}} {
				supports := map[int][]int{1: {0}, 2: {0}, 3: {0}, 4: {0, 1}, 5: {0, 1, 2}, 6: {0, 1, 2, 3}, 7: {0, 1, 2, 3, 4}}[sg.Kind]
				ok := false
				for _, x := range supports {
					ok = ok || x == h.Type
				}
				if !ok || (h.Type == 0 && h.Protected != (sg.Kind >= 3)) {
					continue
				}
				signer, how := t.makeSigner(sg, r)
				chain := chainOf(sg.Chain)
				want := t.preimageHash(c, h.Type, h.Protected, chain)
				unsigned := c.build(h.Type, chain, nil, nil, nil)
				signedTx := c.build(h.Type, chain, big.NewInt(int64(r.Intn(2))), big.NewInt(r.Int63()+1), big.NewInt(r.Int63()+1))
				got, got2 := signer.Hash(unsigned), signer.Hash(signedTx)
				sum.Evaluations++
				sum.Count("hash")
				note(fmt.Sprint("hash", h.Type, h.Protected, sg.Kind))
				ev := tl.M{"op": "hash", "type": h.Type, "protected": h.Protected, "sg": sg, "how": how, "preimageOK": got == want, "sigIndependent": got == got2}
				if got != want {
					sum.Violate(fmt.Sprintf("signing hash of type %d under %s differs from keccak of the EIP field list %v", h.Type, how, h.Fields), tl.M{"hashrow": h, "sg": sg, "got": got.Hex(), "want": want.Hex()})
				}
				if got != got2 {
					sum.Violate(fmt.Sprintf("signing hash of type %d under %s depends on the signature fields", h.Type, how), tl.M{"hashrow": h, "sg": sg})
				}
				// every listed field matters
				insens := []string{}
				for _, f := range h.Fields {
					if f == "zero" || f == "chainId" {
						continue // the signer supplies the chain id
					}
					m := *c
					mutateField(&m, f, r)
					if signer.Hash(m.build(h.Type, chain, nil, nil, nil)) == got {
						insens = append(insens, f)
					}
				}
				ev["insensitive"] = len(insens)
				if len(insens) > 0 {
					sum.Violate(fmt.Sprintf("signing hash of type %d under %s does not depend on %v", h.Type, how, insens), tl.M{"hashrow": h, "sg": sg, "fields": insens})
				}
				log.Emit(ev)
			}
		}
	}

	// (2) signing rows
	for _, s := range t.Signs {
		if s.Type == 0 && s.TxChain != 1 {
			continue // a legacy payload has no chain field: one row per signer is enough
		}
		signer, how := t.makeSigner(s.Sg, r)
		c := randContent(r)
		key := newKey(r)
		addr := crypto.PubkeyToAddress(key.PublicKey)
		var chain *big.Int
		if s.Type != 0 {
			chain = chainOf(s.TxChain)
		}
		tx, err := types.SignTx(c.build(s.Type, chain, nil, nil, nil), signer, key)
		got := "ok"
		switch {
		case errors.Is(err, types.ErrTxTypeNotSupported):
			got = "ErrTxType"
		case errors.Is(err, types.ErrInvalidChainId):
			got = "ErrChainId"
		case err != nil:
			got = "Err"
		}
		sum.Evaluations++
		sum.Count("sign")
		note(fmt.Sprint("sign", s.Sg.Kind, s.Type, got))
		ev := tl.M{"op": "sign", "sg": s.Sg, "how": how, "type": s.Type, "txChain": s.TxChain, "got": got, "recovered": "-", "shape": "-"}
		if got != s.Outcome {
			sum.Violate(fmt.Sprintf("SignTx(%s chain %d, type %d with chain field %d): implementation %s, specification %s", how, s.Sg.Chain, s.Type, s.TxChain, got, s.Outcome),
				tl.M{"sign": s, "got": got})
		}
		if got == "ok" {
			from, err := types.Sender(signer, tx)
			rec := classify(from, err, addr)
			ev["recovered"] = rec
			// shape of the produced signature fields
			v, _, _ := tx.RawSignatureValues()
			shape := "?"
			if s.Type == 0 {
				prot := new(big.Int).Mul(chainOf(s.Sg.Chain), big.NewInt(2))
				prot.Add(prot, big.NewInt(35))
				d := new(big.Int).Sub(v, prot)
				switch {
				case v.Cmp(big.NewInt(27)) == 0 || v.Cmp(big.NewInt(28)) == 0:
					shape = "u"
				case s.Sg.Chain >= 0 && (d.Sign() == 0 || d.Cmp(big.NewInt(1)) == 0):
					shape = "prot"
				}
			} else if v.BitLen() <= 1 && tx.ChainId().Cmp(chainOf(s.Sg.Chain)) == 0 {
				shape = "par"
			}
			ev["shape"] = shape
			pending := s.Sg.Kind == 3 && s.Sg.Chain == 0 && s.Type == 0
			if rec != "Signer" || shape != s.Signed.Vk {
				desc := fmt.Sprintf("sign-then-recover with %s chain %d type %d: recovered %s (specification: Signer), v encoding %q (specification %q)", how, s.Sg.Chain, s.Type, rec, shape, s.Signed.Vk)
				if pending && rec == "Other" && shape == "u" {
					// Exact fingerprint of known finding C03-F1 (EIP155Signer with chain id 0 signs the
					// nine-field hash but emits v = 27/28, which Sender recovers over the six-field hash).
					// It is only counted here; checks/C03.py decides through known_findings.json whether
					// it is reported as KNOWN-FINDING or as a violation.  Anything else is a violation.
					notePending(sum, "C03-F1", desc, tl.M{"sign": s, "how": how, "recovered": rec, "shape": shape})
				} else {
					sum.Violate(desc, tl.M{"sign": s, "recovered": rec, "shape": shape})
				}
			}
		}
		log.Emit(ev)
	}

	// (3) the recovery table
	for i, row := range t.Cases {
		signer, how := t.makeSigner(row.Sg, r)
		re := t.realise(row.Tx, r)
		from, err := types.Sender(signer, re.tx)
		got := classify(from, err, re.addr)
		// the signer's own method must agree with the caching front end
		from2, err2 := signer.Sender(re.tx)
		if got2 := classify(from2, err2, re.addr); got2 != got || from2 != from {
			sum.Violate(fmt.Sprintf("types.Sender and Signer.Sender disagree (%s vs %s)", got, got2), tl.M{"row": row, "how": how})
		}
		sum.Evaluations++
		sum.Count(got)
		note(fmt.Sprint("row", row.Sg.Kind, row.Tx.Type, row.Tx.Vk, row.Tx.R, row.Tx.S, row.Tx.Par, row.Tx.Hash, got))
		if !contains(row.Allowed, got) {
			sum.Violate(fmt.Sprintf("Sender(%s chain %d, tx %+v): implementation %s, specification admits %v", how, row.Sg.Chain, row.Tx, got, row.Allowed),
				tl.M{"row": row, "how": how, "got": got, "from": from.Hex(), "key": hex.EncodeToString(crypto.FromECDSA(re.key))})
		}
		fmt.Fprintf(digest, "%d:%s:%x;", i, got, from)
		nrows++
		flush(false)
		if i%rowLogEvery == 0 {
			log.Emit(tl.M{"op": "row", "i": i, "sg": row.Sg, "tx": row.Tx, "how": how, "got": got, "from": hex.EncodeToString(from[:])})
		}
		if i%4000 == 0 {
			sum.Sample(tl.M{"row": row, "how": how, "got": got})
		}
	}
	flush(true)

	// (4) behaviours of the sender cache
	seen := map[string]bool{}
	for _, b := range t.MBT {
		key := fmt.Sprint(b)
		if seen[key] {
			continue
		}
		seen[key] = true
		re := t.realise(b.Tx, r)
		trace := []string{}
		for step, call := range b.Calls {
			signer, how := t.makeSigner(call.Signer, r)
			from, err := types.Sender(signer, re.tx)
			got := classify(from, err, re.addr)
			trace = append(trace, got)
			log.Emit(tl.M{"op": "sender", "first": step == 0, "tx": b.Tx, "sg": call.Signer, "how": how, "got": got, "from": hex.EncodeToString(from[:])})
			if got != call.Res {
				sum.Violate(fmt.Sprintf("sender cache: call %d of %v on tx %+v with %s chain %d: implementation %s, specification %s", step+1, trace, b.Tx, how, call.Signer.Chain, got, call.Res),
					tl.M{"behaviour": b, "step": step, "got": got})
				break
			}
		}
		sum.Evaluations++
		sum.Count("cache-behaviour")
		note("mbt" + strings.Join(trace, ","))
	}
	log.Emit(tl.M{"op": "end", "n": log.N})
	sum.Steps = log.N
	sum.Rule = "every TLC-enumerated (signer, signed-transaction class) row realised with a fresh key and a real signature; distinct = distinct (signer kind, tx type, v/r/s/parity/hash class, outcome) tuples, signing rows, hash rows and cache behaviours"
}

// notePending records a match of a recognised finding fingerprint in Summary.Extra["pending"].
func notePending(sum *tl.Summary, id, desc string, sample any) {
	p, _ := sum.Extra["pending"].(map[string]any)
	if p == nil {
		p = map[string]any{}
		sum.Extra["pending"] = p
	}
	e, _ := p[id].(map[string]any)
	if e == nil {
		e = map[string]any{"count": 0, "desc": desc, "sample": sample}
		p[id] = e
	}
	e["count"] = e["count"].(int) + 1
}

func mutateField(c *content, f string, r *rand.Rand) {
	bump := func(b *big.Int) *big.Int { return new(big.Int).Add(b, big.NewInt(1)) }
	switch f {
	case "nonce":
		c.nonce++
	case "gasPrice":
		c.gasPrice = bump(c.gasPrice)
	case "maxPriorityFeePerGas":
		c.tip = bump(c.tip)
	case "maxFeePerGas":
		c.cap = bump(c.cap)
	case "gas":
		c.gas++
	case "to":
		to := *c.to
		to[19] ^= 1
		c.to = &to
	case "value":
		c.value = bump(c.value)
	case "data":
		c.data = append(append([]byte{}, c.data...), 7)
	case "accessList":
		var t types.AccessTuple
		r.Read(t.Address[:])
		c.al = append(append(types.AccessList{}, c.al...), t)
	case "maxFeePerBlobGas":
		c.blobFeeCap = bump(c.blobFeeCap)
	case "blobVersionedHashes":
		hs := append([]common.Hash{}, c.blobHashes...)
		hs[0][31] ^= 1
		c.blobHashes = hs
	case "authorizationList":
		as := append([]types.SetCodeAuthorization{}, c.auths...)
		as[0].Nonce++
		c.auths = as
	default:
		tl.Fatal("cannot mutate field %q", f)
	}
}

// ------------------------------------------------------------------ mode corpus

func hx(b []byte) string { return hex.EncodeToString(b) }

func pad32(b *big.Int) []byte {
	out := make([]byte, 32)
	b.FillBytes(out)
	return out
}

func runCorpus(logPath string, seed int64, n int, sum *tl.Summary) {
	r := tl.Rand(seed)
	log := tl.NewTrace(logPath)
	defer log.Close()
	classes := map[string]bool{}
	emit := func(ev tl.M) {
		log.Emit(ev)
		sum.Evaluations++
		sum.Count(ev["op"].(string))
		k := fmt.Sprint(ev["op"], ev["class"], ev["ok"], ev["isKey"], ev["res"])
		if !classes[k] {
			classes[k] = true
			sum.Distinct++
			sum.Sample(ev)
		}
	}
	recoverEv := func(class string, key *ecdsa.PrivateKey, hash, sig []byte) {
		pub, err := crypto.Ecrecover(hash, sig)
		isKey := err == nil && bytes.Equal(pub, crypto.FromECDSAPub(&key.PublicKey))
		// SigToPub must tell the same story
		p2, err2 := crypto.SigToPub(hash, sig)
		same := (err == nil) == (err2 == nil)
		if err == nil && err2 == nil {
			same = bytes.Equal(crypto.FromECDSAPub(p2), pub)
		}
		v := -1
		if len(sig) == 65 {
			v = int(sig[64])
		}
		emit(tl.M{"op": "recover", "class": class, "hash": hx(hash), "sig": hx(sig), "v": v, "ok": err == nil, "isKey": isKey, "pub": hx(pub), "sigToPubSame": same})
	}
	verifyEv := func(class string, pub, hash, sig []byte) {
		emit(tl.M{"op": "verify", "class": class, "pub": hx(pub), "hash": hx(hash), "sig": hx(sig), "res": crypto.VerifySignature(pub, hash, sig)})
	}
	for i := 0; i < n; i++ {
		key := newKey(r)
		other := newKey(r)
		hash := make([]byte, 32)
		r.Read(hash)
		class := "valid"
		switch i % 16 {
		case 3:
			hash = make([]byte, 32) // all-zero digest
		case 7:
			hash = pad32(new(big.Int).Sub(curveN, big.NewInt(1)))
		case 11:
			class = "digestGeN"
			hash = pad32([]*big.Int{curveN, new(big.Int).Add(curveN, big.NewInt(1)), maxU, new(big.Int).Add(curveN, new(big.Int).Rand(r, big.NewInt(1<<62)))}[(i/16)%4])
		}
		sig, err := crypto.Sign(hash, key)
		pubk := crypto.FromECDSAPub(&key.PublicKey)
		selfRec, selfVer := false, false
		if err == nil {
			p, e := crypto.Ecrecover(hash, sig)
			selfRec = e == nil && bytes.Equal(p, pubk)
			selfVer = crypto.VerifySignature(pubk, hash, sig[:64])
		}
		emit(tl.M{"op": "csign", "class": class, "key": hx(crypto.FromECDSA(key)), "hash": hx(hash), "ok": err == nil, "sig": hx(sig),
			"lowS": err == nil && new(big.Int).SetBytes(sig[32:64]).Cmp(halfN) <= 0, "v01": err == nil && sig[64] <= 1,
			"selfRecovers": selfRec, "selfVerifies": selfVer})
		if err != nil || class == "digestGeN" {
			// for digests >= n the builds may hold different (valid) signatures: the
			// follow-up classes are exercised on the other rounds
			continue
		}
		r0, s0 := new(big.Int).SetBytes(sig[:32]), new(big.Int).SetBytes(sig[32:64])
		mk := func(rr, ss *big.Int, v byte) []byte {
			return append(append(pad32(rr), pad32(ss)...), v)
		}
		pub := crypto.FromECDSAPub(&key.PublicKey)
		cpub := crypto.CompressPubkey(&key.PublicKey)
		// ---- recovery classes
		recoverEv("valid", key, hash, sig)
		recoverEv("flipV", key, hash, mk(r0, s0, sig[64]^1))
		recoverEv("highTwin", key, hash, mk(r0, new(big.Int).Sub(curveN, s0), sig[64]^1))
		recoverEv("v23", key, hash, mk(r0, s0, 2+sig[64]))
		recoverEv("vBad", key, hash, mk(r0, s0, []byte{4, 5, 27, 28, 29, 128, 255}[r.Intn(7)]))
		switch i % 6 {
		case 0:
			recoverEv("rZero", key, hash, mk(new(big.Int), s0, sig[64]))
		case 1:
			recoverEv("sZero", key, hash, mk(r0, new(big.Int), sig[64]))
		case 2:
			recoverEv("rN", key, hash, mk(curveN, s0, sig[64]))
		case 3:
			recoverEv("sN", key, hash, mk(r0, curveN, sig[64]))
		case 4:
			recoverEv("rMax", key, hash, mk(maxU, s0, sig[64]))
		case 5:
			recoverEv("sMax", key, hash, mk(r0, maxU, sig[64]))
		}
		other32 := make([]byte, 32)
		r.Read(other32)
		recoverEv("otherHash", key, other32, sig)
		rnd := make([]byte, 65)
		r.Read(rnd)
		rnd[64] %= 4
		recoverEv("random", key, hash, rnd)
		if i%8 == 0 {
			recoverEv("shortSig", key, hash, sig[:64])
			recoverEv("shortHash", key, hash[:31], sig)
		}
		// ---- verification classes
		verifyEv("valid", pub, hash, sig[:64])
		verifyEv("validCompressed", cpub, hash, sig[:64])
		verifyEv("highTwin", pub, hash, mk(r0, new(big.Int).Sub(curveN, s0), 0)[:64])
		verifyEv("otherKey", crypto.FromECDSAPub(&other.PublicKey), hash, sig[:64])
		verifyEv("otherHash", pub, other32, sig[:64])
		switch i % 6 {
		case 0:
			verifyEv("rZero", pub, hash, mk(new(big.Int), s0, 0)[:64])
		case 1:
			verifyEv("sZero", pub, hash, mk(r0, new(big.Int), 0)[:64])
		case 2:
			verifyEv("rN", pub, hash, mk(curveN, s0, 0)[:64])
		case 3:
			verifyEv("sMax", pub, hash, mk(r0, maxU, 0)[:64])
		case 4:
			verifyEv("len65", pub, hash, sig)
		case 5:
			bad := append([]byte{}, pub...)
			bad[64] ^= 1 // not on the curve
			verifyEv("badPub", bad, hash, sig[:64])
		}
		verifyEv("random", pub, hash, rnd[:64])
		// ---- public key codecs
		dec, err := crypto.DecompressPubkey(cpub)
		emit(tl.M{"op": "pubkey", "class": "roundtrip", "in": hx(pub), "compressed": hx(cpub), "ok": err == nil && bytes.Equal(crypto.FromECDSAPub(dec), pub), "out": ""})
		c33 := make([]byte, 33)
		r.Read(c33)
		c33[0] = []byte{2, 3, 2, 3, 4, 0}[r.Intn(6)]
		d2, err := crypto.DecompressPubkey(c33)
		out := ""
		if err == nil {
			out = hx(crypto.FromECDSAPub(d2))
		}
		emit(tl.M{"op": "pubkey", "class": "random", "in": hx(c33), "compressed": "", "ok": err == nil, "out": out})
	}
	log.Emit(tl.M{"op": "end", "n": log.N})
	sum.Steps = log.N
	sum.Traces = 1
	sum.Rule = "seeded corpus of secp256k1 calls (valid, edited and random signatures, digests and keys); distinct = distinct (operation, input class, result) combinations"
}

func main() {
	mode := flag.String("mode", "table", "table|corpus")
	in := flag.String("in", "", "table json (mode table)")
	logPath := flag.String("log", "log.ndjson", "event log")
	out := flag.String("out", "summary.json", "summary output")
	n := flag.Int("n", 200, "corpus rounds")
	flag.IntVar(&rowLogEvery, "rowlog", 97, "log every k-th table row as an event")
	flag.Parse()
	seed := int64(tl.EnvInt("VERIF_SEED", 1))
	sum := tl.NewSummary("c03", *mode, seed)
	sum.Extra["cgo"] = cgoEnabled
	switch *mode {
	case "table":
		sum.Mode = "replay"
		runTable(*in, *logPath, seed, sum)
	case "corpus":
		runCorpus(*logPath, seed, *n, sum)
	default:
		tl.Fatal("bad mode")
	}
	sort.Strings(sum.Notes)
	sum.Write(*out)
	if len(sum.Violations) > 0 {
		os.Exit(1)
	}
}
