// c34 drives witness collection and core.ExecuteStateless for property C34 (stateless
// re-execution with the collected witness reproduces the block).
//
//	-mode record -trace t.ndjson   generate random interacting blocks on every fork, import them with
//	                                witness collection, re-execute statelessly from the witness (the reads
//	                                of the witness database are observed through the verif hook in
//	                                core.ExecuteStateless) and then once more for EVERY single item of the
//	                                witness removed; one ndjson event per run/read for StatelessTrace.tla
package main

import (
	"bytes"
	"context"
	"flag"
	"fmt"
	"os"
	"sort"
	"strings"
	"sync"

	"github.com/ethereum/go-ethereum/common"
	"github.com/ethereum/go-ethereum/core"
	"github.com/ethereum/go-ethereum/core/rawdb"
	"github.com/ethereum/go-ethereum/core/stateless"
	"github.com/ethereum/go-ethereum/core/types"
	"github.com/ethereum/go-ethereum/core/vm"
	"github.com/ethereum/go-ethereum/crypto"
	"github.com/ethereum/go-ethereum/ethdb"
	"github.com/ethereum/go-ethereum/log"
	"verif/harness/blockkit"
	tl "verif/harness/tracelib"
)

// ---------------------------------------------------------------------------------------
// observing the witness-backed database

// item identifies one element of a witness.
type item struct {
	kind string // "node" | "code" | "header"
	key  string // database key under which MakeHashDB stores it
	blob string // raw witness element (map key for node/code)
	hdr  int    // index into Headers for kind header
}

// spyDB records every Get/Has against the witness database.
type spyDB struct {
	ethdb.Database
	mu    sync.Mutex
	reads []spyRead
}

type spyRead struct {
	key string
	hit bool
}

func (s *spyDB) note(key []byte, hit bool) {
	s.mu.Lock()
	s.reads = append(s.reads, spyRead{string(key), hit})
	s.mu.Unlock()
}

func (s *spyDB) Get(key []byte) ([]byte, error) {
	v, err := s.Database.Get(key)
	s.note(key, err == nil)
	return v, err
}

func (s *spyDB) Has(key []byte) (bool, error) {
	ok, err := s.Database.Has(key)
	s.note(key, ok && err == nil)
	return ok, err
}

var (
	spyMu  sync.Mutex
	curSpy *spyDB
)

func installHook() {
	core.VerifHook = func(ev string, kv ...any) {
		if ev != "stateless.db" {
			return
		}
		p := kv[0].(*ethdb.Database)
		spyMu.Lock()
		curSpy = &spyDB{Database: *p}
		*p = curSpy
		spyMu.Unlock()
	}
}

// runStateless executes the block from the witness and returns roots, error and the reads.
func runStateless(k *blockkit.Kit, task *types.Block, w *stateless.Witness) (root, rroot common.Hash, err error, reads []spyRead, panicked any) {
	spyMu.Lock()
	curSpy = nil
	spyMu.Unlock()
	func() {
		defer func() {
			if r := recover(); r != nil {
				panicked = r
			}
		}()
		root, rroot, err = core.ExecuteStateless(context.Background(), k.Config, vm.Config{}, task, w)
	}()
	spyMu.Lock()
	if curSpy != nil {
		curSpy.mu.Lock()
		reads = curSpy.reads
		curSpy.mu.Unlock()
	}
	spyMu.Unlock()
	return
}

// witnessItems lists the removable elements of a witness in a deterministic order together
// with the database keys MakeHashDB files them under.
func witnessItems(w *stateless.Witness) []item {
	var out []item
	var nodes, codes []string
	for n := range w.State {
		nodes = append(nodes, n)
	}
	for c := range w.Codes {
		codes = append(codes, c)
	}
	sort.Strings(nodes)
	sort.Strings(codes)
	for _, n := range nodes {
		out = append(out, item{kind: "node", key: string(crypto.Keccak256([]byte(n))), blob: n})
	}
	for _, c := range codes {
		h := crypto.Keccak256Hash([]byte(c))
		out = append(out, item{kind: "code", key: string(codeKey(h)), blob: c})
	}
	// Headers[0] (the parent: carrier of the pre-state root) is structural, a witness without it
	// does not decode; the older headers serve BLOCKHASH.
	for i := 1; i < len(w.Headers); i++ {
		h := w.Headers[i]
		out = append(out, item{kind: "header", key: string(headerKey(h.Number.Uint64(), h.Hash())), hdr: i})
	}
	return out
}

func codeKey(h common.Hash) []byte { return append([]byte("c"), h.Bytes()...) }
func headerKey(n uint64, h common.Hash) []byte {
	var enc [8]byte
	for i := 0; i < 8; i++ {
		enc[7-i] = byte(n >> (8 * i))
	}
	return append(append([]byte("h"), enc[:]...), h.Bytes()...)
}

// without returns a copy of the witness lacking item it.
func without(w *stateless.Witness, it item) *stateless.Witness {
	c := w.Copy()
	switch it.kind {
	case "node":
		delete(c.State, it.blob)
	case "code":
		delete(c.Codes, it.blob)
	case "header":
		c.Headers = append(append([]*types.Header{}, c.Headers[:it.hdr]...), c.Headers[it.hdr+1:]...)
	}
	return c
}

// checkKeyDerivation makes sure the harness's idea of the database keys is the one MakeHashDB uses.
func checkKeyDerivation(w *stateless.Witness, items []item) {
	db := w.MakeHashDB()
	for _, it := range items {
		if ok, _ := db.Has([]byte(it.key)); !ok {
			tl.Fatal("harness key derivation for witness %s item does not match MakeHashDB", it.kind)
		}
	}
	_ = rawdb.ReadCode
}

// ---------------------------------------------------------------------------------------

type runner struct {
	sum      *tl.Summary
	tr       *tl.Trace
	detail   int // number of blocks whose removal runs are logged read by read
	detailed int
	maxRm    int
	shapes   map[string]bool
}

func (rn *runner) block(k *blockkit.Kit, bc *core.BlockChain, blk *types.Block, kinds []string, variant string, label string) {
	sum := rn.sum
	w, err := bc.InsertBlockWithoutSetHead(context.Background(), blk, true)
	if err != nil {
		sum.Violate(fmt.Sprintf("%s: import with witness collection rejected a generated block: %v", label, err), tl.M{"label": label})
		return
	}
	if _, err := bc.SetCanonical(blk); err != nil {
		tl.Fatal("set canonical: %v", err)
	}
	if w == nil {
		tl.Fatal("no witness returned for %s", label)
	}
	ctxh := blk.Header()
	ctxh.Root, ctxh.ReceiptHash = common.Hash{}, common.Hash{}
	task := types.NewBlockWithHeader(ctxh).WithBody(*blk.Body())
	if variant == "bal" && blk.AccessList() != nil {
		task = task.WithAccessList(blk.AccessList())
	}
	items := witnessItems(w)
	checkKeyDerivation(w, items)
	id := map[string]int{}
	for i, it := range items {
		id[it.key] = i + 1
	}

	// full-witness run
	root, rroot, err, reads, pan := runStateless(k, task, w)
	if pan != nil {
		sum.Violate(fmt.Sprintf("%s: ExecuteStateless panicked on the complete witness: %v", label, pan), tl.M{"label": label})
		return
	}
	same := err == nil && root == blk.Root() && rroot == blk.ReceiptHash()
	rn.tr.Emit(tl.M{"op": "reset", "n": len(items), "label": label})
	rn.tr.Emit(tl.M{"op": "begin", "removed": 0, "kind": "none"})
	readSet := map[int]bool{}
	evReads := func(reads []spyRead) {
		for _, rd := range reads {
			i, known := id[rd.key]
			if !known {
				// parent header, hash->number index, and probes of keys that no witness could hold
				add(sum, "reads-outside-witness-items", 1)
				continue
			}
			readSet[i] = true
			rn.tr.Emit(tl.M{"op": "read", "id": i, "hit": rd.hit})
		}
	}
	evReads(reads)
	rn.tr.Emit(tl.M{"op": "end", "err": err != nil, "same": same})
	sum.Steps += len(reads)
	if !same {
		sum.Violate(fmt.Sprintf("%s: stateless execution from the complete witness does not reproduce the block: err=%v root %x want %x receipts %x want %x",
			label, err, root, blk.Root(), rroot, blk.ReceiptHash()), tl.M{"label": label, "kinds": kinds})
		return
	}
	needed := map[int]bool{}
	for i := range readSet {
		needed[i] = true
	}
	add(sum, "witness-items", len(items))
	add(sum, "witness-items-read", len(needed))

	// every single removal
	detail := rn.detailed < rn.detail
	if detail {
		rn.detailed++
	}
	order := make([]int, len(items))
	for i := range order {
		order[i] = i
	}
	if rn.maxRm > 0 && len(order) > rn.maxRm {
		// deterministic thinning: keep every item kind represented
		step := float64(len(order)) / float64(rn.maxRm)
		var pick []int
		for j := 0; j < rn.maxRm; j++ {
			pick = append(pick, order[int(float64(j)*step)])
		}
		order = pick
	}
	for _, ix := range order {
		it := items[ix]
		w2 := without(w, it)
		root2, rroot2, err2, reads2, pan2 := runStateless(k, task, w2)
		if pan2 != nil {
			err2 = fmt.Errorf("panic: %v", pan2)
			add(sum, "removal-panic", 1)
		}
		same2 := err2 == nil && root2 == blk.Root() && rroot2 == blk.ReceiptHash()
		touched := false
		for _, rd := range reads2 {
			if rd.key == it.key {
				touched = true
			}
		}
		rn.tr.Emit(tl.M{"op": "begin", "removed": ix + 1, "kind": it.kind})
		if detail {
			for _, rd := range reads2 {
				if i, known := id[rd.key]; known {
					rn.tr.Emit(tl.M{"op": "read", "id": i, "hit": rd.hit})
				}
			}
		} else if touched {
			rn.tr.Emit(tl.M{"op": "read", "id": ix + 1, "hit": false})
		}
		rn.tr.Emit(tl.M{"op": "end", "err": err2 != nil, "same": same2})
		sum.Evaluations++
		cls := it.kind + "/"
		switch {
		case err2 != nil && needed[ix+1]:
			cls += "needed-fail"
		case err2 != nil:
			cls += "unneeded-fail"
		case same2 && needed[ix+1]:
			cls += "needed-same"
		case same2:
			cls += "unneeded-same"
		default:
			cls += "DIFFERENT"
		}
		add(sum, cls, 1)
		if !rn.shapes[cls+label[:strings.Index(label, "#")]] {
			rn.shapes[cls+label[:strings.Index(label, "#")]] = true
		}
		if err2 == nil && !same2 {
			desc := fmt.Sprintf("%s: witness without %s item %d (read by the complete run: %v): stateless execution returned no error but a different result: state root %x want %x, receipt root %x want %x",
				label, it.kind, ix+1, needed[ix+1], root2, blk.Root(), rroot2, blk.ReceiptHash())
			rep := tl.M{"label": label, "kinds": kinds, "item": ix + 1, "kind": it.kind, "needed": needed[ix+1], "block": blk.NumberU64(),
				"read_of_removed_item_missed": touched}
			if it.kind == "header" && touched {
				// Outside the property text (trie nodes and code): a missing ANCESTOR HEADER makes BLOCKHASH
				// yield zero silently. Recorded as an observation, see NOTES.md.
				add(sum, "observation/header-removed-different-root", 1)
				if _, ok := sum.Extra["header_gap_example"]; !ok {
					sum.Extra["header_gap_example"] = tl.M{"desc": desc, "replay": rep}
				}
			} else {
				sum.Violate(desc, rep)
			}
		}
		if !needed[ix+1] && err2 != nil {
			sum.Violate(fmt.Sprintf("%s: witness without %s item %d, which the complete run never read, fails: %v", label, it.kind, ix+1, err2),
				tl.M{"label": label, "kinds": kinds, "item": ix + 1, "kind": it.kind})
		}
	}
	sum.Traces++
	if len(sum.Samples) < 3 {
		sum.Sample(tl.M{"label": label, "txs": kinds, "witness_nodes": len(w.State), "witness_codes": len(w.Codes), "witness_headers": len(w.Headers),
			"reads": len(reads), "removals": len(order)})
	}
}

func add(s *tl.Summary, k string, n int) { s.Counts[k] += n }

func main() {
	mode := flag.String("mode", "record", "record")
	trace := flag.String("trace", "trace.ndjson", "output trace")
	out := flag.String("out", "summary.json", "summary output")
	nblocks := flag.Int("blocks", 3, "blocks per fork")
	ntx := flag.Int("txs", 8, "transactions per block")
	forks := flag.String("forks", "cancun,prague,osaka,amsterdam", "forks")
	detail := flag.Int("detail", 2, "blocks whose removal runs are logged read by read")
	maxRm := flag.Int("maxrm", 0, "cap on removals per block (0 = every item)")
	schemes := flag.String("schemes", "hash", "state schemes of the importing chain")
	useScripts := flag.Bool("scripts", true, "prepend the scripted blocks of blockkit")
	flag.Parse()
	log.SetDefault(log.NewLogger(log.DiscardHandler()))
	seed := int64(tl.EnvInt("VERIF_SEED", 1))
	sum := tl.NewSummary("c34", *mode, seed)
	installHook()
	tr := tl.NewTrace(*trace)
	rn := &runner{sum: sum, tr: tr, detail: *detail, maxRm: *maxRm, shapes: map[string]bool{}}
	for fi, fork := range strings.Split(*forks, ",") {
		for _, scheme := range strings.Split(*schemes, ",") {
			k := blockkit.New(fork, 6, nil)
			r := tl.Rand(seed*1000 + int64(fi))
			ch, err := k.NewChain()
			if err != nil {
				tl.Fatal("%v", err)
			}
			bc, _, err := k.NewBlockChain(func(c *core.BlockChainConfig) { c.StateScheme = scheme })
			if err != nil {
				tl.Fatal("%v", err)
			}
			scripts := k.Scripts()
			if !*useScripts {
				scripts = nil
			}
			for b := 0; b < len(scripts)+*nblocks; b++ {
				var (
					blk   *types.Block
					kinds []string
					err   error
				)
				if b < len(scripts) {
					blk, _, kinds, err = ch.ExtendScript(scripts[b])
				} else {
					blk, _, kinds, err = ch.ExtendRandom(r, 1+r.Intn(*ntx), blockkit.BlockOpts{Withdrawals: true})
				}
				if err != nil {
					tl.Fatal("generator: %v", err)
				}
				variant := "plain"
				if blk.AccessList() != nil && b%2 == 1 {
					variant = "bal"
				}
				for _, kd := range kinds {
					add(sum, "tx:"+kd, 1)
				}
				rn.block(k, bc, blk, kinds, variant, fmt.Sprintf("%s/%s/%s#%d", fork, scheme, variant, blk.NumberU64()))
			}
			bc.Stop()
			ch.Close()
		}
	}
	tr.Close()
	sum.Distinct = len(rn.shapes)
	sum.Rule = "random interacting blocks per fork; stateless run on the complete witness and on the witness minus each single item (trie node, code, ancestor header); distinct = distinct (fork, item kind, outcome class) combinations observed"
	sum.Write(*out)
	_ = bytes.Equal
	if len(sum.Violations) > 0 {
		os.Exit(1)
	}
}
