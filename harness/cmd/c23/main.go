// c23 binds spec/store/KV.tla (property C23) to the real key-value backends.
//
//	-mode edges  -in edges.json -targets mem,tmem -dir D
//	      replay every transition of the TLC state graph on each target: the target is put
//	      into the edge's from-state through its public API, the action is executed, the
//	      reported result and the complete observable post-state are compared with the model
//	-mode record -targets ... -trace-prefix P -dir D -n N -steps S
//	      run seeded random operation sequences on every target and record one ndjson event
//	      per interface call (validated by spec/store/KVTrace.tla, one trace file per target)
//
// Targets: mem | pebble | leveldb (plain backends) and tmem | tpebble | tleveldb
// (rawdb.NewTable prefix views over them, sharing the underlying store with foreign keys
// that must never be touched).
package main

import (
	"bufio"
	"bytes"
	"encoding/json"
	"flag"
	"fmt"
	"os"
	"os/exec"
	"path/filepath"
	"sort"
	"strings"

	"github.com/ethereum/go-ethereum/core/rawdb"
	"github.com/ethereum/go-ethereum/ethdb"
	"github.com/ethereum/go-ethereum/ethdb/leveldb"
	"github.com/ethereum/go-ethereum/ethdb/memorydb"
	"github.com/ethereum/go-ethereum/ethdb/pebble"
	tl "verif/harness/tracelib"
)

// ---------------------------------------------------------------- byte strings <-> model

type bs = []int // model byte string; [-1] is nil

func toBytes(x any) []byte { // JSON value -> []byte (nil for [-1])
	arr, ok := x.([]any)
	if !ok {
		tl.Fatal("byte string expected, got %T %v", x, x)
	}
	if len(arr) == 1 && arr[0].(float64) == -1 {
		return nil
	}
	out := make([]byte, len(arr))
	for i, v := range arr {
		out[i] = byte(v.(float64))
	}
	return out
}

func fromBytes(b []byte) bs { // non-nil semantics: nil and empty are both []
	out := make(bs, len(b))
	for i, c := range b {
		out[i] = int(c)
	}
	return out
}

func fromOpt(b []byte) bs {
	if b == nil {
		return bs{-1}
	}
	return fromBytes(b)
}

type kvpair struct{ K, V []byte }

func pairsJSON(ps []kvpair) [][]bs {
	out := make([][]bs, len(ps))
	for i, p := range ps {
		out[i] = []bs{fromBytes(p.K), fromBytes(p.V)}
	}
	return out
}

func parsePairs(x any) []kvpair {
	var out []kvpair
	for _, e := range x.([]any) {
		p := e.([]any)
		out = append(out, kvpair{toBytes(p[0]), toBytes(p[1])})
	}
	return out
}

func pairsEqual(a, b []kvpair) bool {
	if len(a) != len(b) {
		return false
	}
	for i := range a {
		if !bytes.Equal(a[i].K, b[i].K) || !bytes.Equal(a[i].V, b[i].V) {
			return false
		}
	}
	return true
}

type op struct {
	T string `json:"t"`
	K bs     `json:"k"`
	V bs     `json:"v"`
	E bs     `json:"e"`
}

func parseOps(x any) []op {
	var out []op
	for _, e := range x.([]any) {
		m := e.(map[string]any)
		out = append(out, op{T: m["t"].(string), K: fromOpt(toBytes(m["k"])), V: fromBytes(toBytes(m["v"])), E: fromOpt(toBytes(m["e"]))})
	}
	return out
}

func opsEqual(a, b []op) bool {
	if len(a) != len(b) {
		return false
	}
	for i := range a {
		if a[i].T != b[i].T || fmt.Sprint(a[i].K) != fmt.Sprint(b[i].K) || fmt.Sprint(a[i].V) != fmt.Sprint(b[i].V) || fmt.Sprint(a[i].E) != fmt.Sprint(b[i].E) {
			return false
		}
	}
	return true
}

func intsToBytes(x bs) []byte {
	if len(x) == 1 && x[0] == -1 {
		return nil
	}
	out := make([]byte, len(x))
	for i, c := range x {
		out[i] = byte(c)
	}
	return out
}

// recorder observes the content of a batch through Batch.Replay.
type recorder struct{ ops []op }

func (r *recorder) Put(k, v []byte) error {
	r.ops = append(r.ops, op{T: "put", K: fromBytes(k), V: fromBytes(v), E: bs{-1}})
	return nil
}
func (r *recorder) Delete(k []byte) error {
	r.ops = append(r.ops, op{T: "del", K: fromBytes(k), V: bs{}, E: bs{-1}})
	return nil
}
func (r *recorder) DeleteRange(a, e []byte) error {
	r.ops = append(r.ops, op{T: "rng", K: fromOpt(a), V: bs{}, E: fromOpt(e)})
	return nil
}

// ---------------------------------------------------------------- targets

type target struct {
	name    string
	variant string // which KV.tla deviation constants describe it: ideal|emptydel|eager|replayrange
	dir     string
	prefix  []byte // non-nil for table views
	base    ethdb.KeyValueStore
	kv      ethdb.KeyValueStore // the store under test (base or a view of it)
	foreign []kvpair
	opener  func() ethdb.KeyValueStore
}

var foreignSeed = [][]byte{{}, {0}, {1}, {1, 0}, {0x73}, {0x73, 0xff, 0xff}, {0x75}, {0xfe, 0xff, 0xff}, {0x74}, {0x74, 0x00}, {0xff}, {0xff, 0x00}}

func openTarget(name, dir string) *target {
	t := &target{name: name}
	backend := strings.TrimPrefix(name, "t")
	view := strings.HasPrefix(name, "t")
	t.dir = filepath.Join(dir, name)
	switch backend {
	case "mem":
		m := memorydb.New()
		t.opener = func() ethdb.KeyValueStore { return m }
		t.variant = "emptydel"
	case "pebble":
		t.opener = func() ethdb.KeyValueStore {
			db, err := pebble.New(t.dir, 16, 16, "", false)
			if err != nil {
				tl.Fatal("open pebble: %v", err)
			}
			return db
		}
		t.variant = "ideal"
	case "leveldb":
		t.opener = func() ethdb.KeyValueStore {
			db, err := leveldb.New(t.dir, 16, 16, "", false)
			if err != nil {
				tl.Fatal("open leveldb: %v", err)
			}
			return db
		}
		t.variant = "eager"
	default:
		tl.Fatal("unknown target %s", name)
	}
	if view {
		switch backend {
		case "mem":
			t.prefix = []byte{0x74}
		case "pebble":
			t.prefix = []byte{0xff}
		default:
			t.prefix = []byte{0x74, 0x00}
		}
		if t.variant != "eager" {
			t.variant = "replayrange"
		}
	}
	t.base = t.opener()
	t.wrap()
	if view {
		for _, k := range foreignSeed {
			if bytes.HasPrefix(k, t.prefix) {
				continue
			}
			if err := t.base.Put(k, append([]byte{0xee}, k...)); err != nil {
				tl.Fatal("seed foreign: %v", err)
			}
		}
		t.foreign = t.foreignNow()
	}
	return t
}

func (t *target) wrap() {
	if t.prefix != nil {
		t.kv = rawdb.NewTable(rawdb.NewDatabase(t.base), string(t.prefix))
	} else {
		t.kv = t.base
	}
}

func (t *target) reopen() {
	if strings.HasSuffix(t.name, "mem") {
		return
	}
	if err := t.base.Close(); err != nil {
		tl.Fatal("close %s: %v", t.name, err)
	}
	t.base = t.opener()
	t.wrap()
}

func (t *target) close() { t.base.Close() }

func (t *target) foreignNow() []kvpair {
	var out []kvpair
	it := t.base.NewIterator(nil, nil)
	defer it.Release()
	for it.Next() {
		if !bytes.HasPrefix(it.Key(), t.prefix) {
			out = append(out, kvpair{bytes.Clone(it.Key()), bytes.Clone(it.Value())})
		}
	}
	return out
}

func dump(kv ethdb.KeyValueStore) []kvpair {
	out := []kvpair{}
	it := kv.NewIterator(nil, nil)
	defer it.Release()
	for it.Next() {
		out = append(out, kvpair{bytes.Clone(it.Key()), bytes.Clone(it.Value())})
	}
	if err := it.Error(); err != nil {
		tl.Fatal("iterator error: %v", err)
	}
	return out
}

// setStore brings the store under test to exactly the wanted content using only
// point writes, and verifies the outcome by a full iteration.
func setStore(kv ethdb.KeyValueStore, want []kvpair) error {
	w := map[string][]byte{}
	for _, p := range want {
		w[string(p.K)] = p.V
	}
	for _, p := range dump(kv) {
		if v, ok := w[string(p.K)]; !ok {
			if err := kv.Delete(p.K); err != nil {
				return err
			}
		} else if bytes.Equal(v, p.V) {
			delete(w, string(p.K))
		}
	}
	for k, v := range w {
		if err := kv.Put([]byte(k), v); err != nil {
			return err
		}
	}
	got := dump(kv)
	sorted := append([]kvpair{}, want...)
	sort.Slice(sorted, func(i, j int) bool { return bytes.Compare(sorted[i].K, sorted[j].K) < 0 })
	if !pairsEqual(got, sorted) {
		return fmt.Errorf("after point writes the store holds %v, wanted %v", pairsJSON(got), pairsJSON(sorted))
	}
	return nil
}

// KNOWN-FINDING (tolerated only through ctx.known_finding in the check) (C23-F4, spec/store/NOTES.md): on the leveldb backend batch.DeleteRange(start, end) with
// start > end panics inside goleveldb ("slice bounds out of range" in tFiles.newIndexIterator) as soon as the
// database has tables below level 0; every other backend treats the inverted range as empty, which is also what
// KV.tla says (and what the QEager expansion of an empty range is: nothing).  The driver therefore does not issue
// that one call on leveldb targets (the specification's outcome - nothing buffered - is still checked) and counts
// it; `-mode f4` reproduces the panic in a child process.
var skippedF4 int

var skipF4 bool

func invertedOnLeveldb(t *target, a, e []byte) bool {
	if !skipF4 || !strings.HasSuffix(t.name, "leveldb") || a == nil || e == nil || bytes.Compare(a, e) <= 0 {
		return false
	}
	skippedF4++
	return true
}

func applyOp(w interface {
	ethdb.KeyValueWriter
	ethdb.KeyValueRangeDeleter
}, o op) error {
	switch o.T {
	case "put":
		return w.Put(intsToBytes(o.K), intsToBytes(o.V))
	case "del":
		return w.Delete(intsToBytes(o.K))
	case "rng":
		return w.DeleteRange(intsToBytes(o.K), intsToBytes(o.E))
	}
	tl.Fatal("bad op %v", o)
	return nil
}

// ---------------------------------------------------------------- world = store + batch + iterator

type world struct {
	t     *target
	batch ethdb.Batch
	it    ethdb.Iterator
}

type pstate struct {
	Store  []kvpair
	Batch  []op
	BState string
	VSize  int
	ItOpen bool
	Rest   []kvpair
}

func parseState(m map[string]any) pstate {
	return pstate{Store: parsePairs(m["store"]), Batch: parseOps(m["batch"]), BState: m["bstate"].(string),
		VSize: int(m["vsize"].(float64)), ItOpen: m["itopen"].(bool), Rest: parsePairs(m["rest"])}
}

func (w *world) release() {
	if w.it != nil {
		w.it.Release()
		w.it = nil
	}
	if w.batch != nil {
		w.batch.Close()
		w.batch = nil
	}
}

// set puts the real objects into the model state.
func (w *world) set(s pstate) error {
	w.release()
	kv := w.t.kv
	if s.ItOpen {
		// an iterator whose remaining items are s.Rest: snapshot of an earlier content
		if err := setStore(kv, s.Rest); err != nil {
			return err
		}
		w.it = kv.NewIterator(nil, nil)
	}
	w.batch = kv.NewBatch()
	for _, o := range s.Batch {
		if o.T == "rng" && invertedOnLeveldb(w.t, intsToBytes(o.K), intsToBytes(o.E)) {
			continue // an inverted range buffers nothing that matters (and panics on leveldb: C23-F4)
		}
		if err := applyOp(w.batch, o); err != nil {
			return fmt.Errorf("batch %v: %v", o, err)
		}
	}
	if s.BState == "written" {
		if err := w.batch.Write(); err != nil {
			return fmt.Errorf("batch write: %v", err)
		}
	}
	return setStore(kv, s.Store)
}

// observe reads the complete observable state (drains the iterator).
func (w *world) observe() (st pstate, replayErr bool) {
	st.Store = dump(w.t.kv)
	st.VSize = w.batch.ValueSize()
	rec := &recorder{}
	if err := w.batch.Replay(rec); err != nil {
		replayErr = true
	}
	st.Batch = rec.ops
	st.Rest = []kvpair{}
	if w.it != nil {
		st.ItOpen = true
		for w.it.Next() {
			st.Rest = append(st.Rest, kvpair{bytes.Clone(w.it.Key()), bytes.Clone(w.it.Value())})
		}
	}
	return
}

// do executes one model action; returns a description of a result mismatch ("" if none).
func (w *world) do(act map[string]any, from pstate) string {
	kv := w.t.kv
	b := func(k string) []byte { return toBytes(act[k]) }
	switch act["op"].(string) {
	case "Put":
		must(kv.Put(b("k"), b("v")))
	case "Delete":
		must(kv.Delete(b("k")))
	case "DeleteRange":
		must(kv.DeleteRange(b("a"), b("e")))
	case "Reads":
		for _, e := range act["res"].([]any) {
			r := e.(map[string]any)
			k := toBytes(r["k"])
			has, err := kv.Has(k)
			must(err)
			v, gerr := kv.Get(k)
			if has != r["found"].(bool) || (gerr == nil) != has || (has && !bytes.Equal(v, toBytes(r["v"]))) {
				return fmt.Sprintf("Has/Get(%v) = %v,%v (err %v), specification: found=%v value=%v", fromBytes(k), has, fromBytes(v), gerr, r["found"], r["v"])
			}
		}
	case "BPut":
		must(w.batch.Put(b("k"), b("v")))
	case "BDelete":
		must(w.batch.Delete(b("k")))
	case "BDeleteRange":
		if !invertedOnLeveldb(w.t, b("a"), b("e")) {
			must(w.batch.DeleteRange(b("a"), b("e")))
		}
	case "BWrite":
		must(w.batch.Write())
	case "BReset":
		w.batch.Reset()
	case "BReplay":
		var err error
		if act["viaBatch"].(bool) {
			b2 := kv.NewBatch()
			err = w.batch.Replay(b2)
			must(b2.Write())
			b2.Close()
		} else {
			err = w.batch.Replay(kv)
		}
		if (err != nil) != act["err"].(bool) {
			return fmt.Sprintf("Replay error = %v, specification: error=%v", err, act["err"])
		}
	case "IterNew":
		w.it = kv.NewIterator(b("p"), b("st"))
	case "IterNext":
		ok := w.it.Next()
		if ok != act["ok"].(bool) {
			return fmt.Sprintf("Next() = %v, specification %v", ok, act["ok"])
		}
		if ok && (!bytes.Equal(w.it.Key(), from.Rest[0].K) || !bytes.Equal(w.it.Value(), from.Rest[0].V)) {
			return fmt.Sprintf("iterator at %v=%v, specification %v=%v", fromBytes(w.it.Key()), fromBytes(w.it.Value()), fromBytes(from.Rest[0].K), fromBytes(from.Rest[0].V))
		}
	case "IterRelease":
		w.it.Release()
		w.it = nil
	case "Reopen":
		w.release()
		w.t.reopen()
		w.batch = w.t.kv.NewBatch()
	default:
		tl.Fatal("unknown op %v", act["op"])
	}
	return ""
}

func must(err error) {
	if err != nil {
		panic(fmt.Sprintf("unexpected error from the store: %v", err))
	}
}

// expectedBatch: what Replay into a recorder shows for the model batch on this target.
func expectedBatch(t *target, ops []op) ([]op, bool) {
	if t.variant == "replayrange" {
		for i, o := range ops {
			if o.T == "rng" {
				return ops[:i], true
			}
		}
	}
	return ops, false
}

// normOps: a nil range start is the empty string and a nil range end is the 32x0xff
// "largest key" marker (ethdb.MaximumKey) - backends may buffer either spelling.
func normOps(ops []op) []op {
	out := make([]op, len(ops))
	for i, o := range ops {
		if o.T == "rng" {
			if len(o.K) == 1 && o.K[0] == -1 {
				o.K = bs{}
			}
			if bytes.Equal(intsToBytes(o.E), ethdb.MaximumKey) {
				o.E = bs{-1}
			}
		}
		out[i] = o
	}
	return out
}

func compare(t *target, got pstate, gotErr bool, want pstate) string {
	if !pairsEqual(got.Store, want.Store) {
		return fmt.Sprintf("store content %v, specification %v", pairsJSON(got.Store), pairsJSON(want.Store))
	}
	wb, werr := expectedBatch(t, want.Batch)
	if !opsEqual(normOps(got.Batch), normOps(wb)) || gotErr != werr {
		return fmt.Sprintf("batch content (by Replay) %v err=%v, specification %v err=%v", got.Batch, gotErr, wb, werr)
	}
	// a table view buffers the translated (prefixed) keys: its ValueSize counts the prefix once per operation
	if wv := want.VSize + len(t.prefix)*len(want.Batch); want.VSize >= 0 && got.VSize != wv {
		return fmt.Sprintf("ValueSize %d, specification %d", got.VSize, wv)
	}
	if got.ItOpen != want.ItOpen || !pairsEqual(got.Rest, want.Rest) {
		return fmt.Sprintf("iterator yields %v, specification %v", pairsJSON(got.Rest), pairsJSON(want.Rest))
	}
	if t.prefix != nil {
		if f := t.foreignNow(); !pairsEqual(f, t.foreign) {
			return fmt.Sprintf("keys outside the table prefix changed: %v, were %v", pairsJSON(f), pairsJSON(t.foreign))
		}
	}
	return ""
}

// pendingFinding classifies a mismatch of a target against the CONTRACT (all Q* constants FALSE).
//
// KNOWN-FINDING (tolerated only through ctx.known_finding in the check) (C23-F1, C23-F2, C23-F3; spec/store/NOTES.md): three backends deviate from the
// ethdb contract exactly as the QEmptyDel / QEager / QReplayRange constants of KV.tla describe.  Those
// backends are bound to the module *with* their constant set (any other deviation is a VIOLATION);
// when the contract edges are replayed on them (-pending) a mismatch is reported as pending only if
// the edge involves the construct of the finding, everything else stays a violation.
func pendingFinding(t *target, e edge) string {
	hasOp := func(x any, pred func(m map[string]any) bool) bool {
		for _, o := range x.([]any) {
			if pred(o.(map[string]any)) {
				return true
			}
		}
		return false
	}
	isRng := func(m map[string]any) bool { return m["t"] == "rng" }
	emptyDel := func(m map[string]any) bool { return m["t"] == "del" && len(m["k"].([]any)) == 0 }
	op := e.Act["op"].(string)
	switch {
	case t.name == "mem":
		if (op == "BDelete" && len(e.Act["k"].([]any)) == 0) || hasOp(e.From["batch"], emptyDel) {
			return "C23-F1 memorydb batch.Delete(empty key) is buffered as DeleteRange(nil,nil)"
		}
	case strings.HasSuffix(t.name, "leveldb"):
		if op == "BDeleteRange" || hasOp(e.From["batch"], isRng) {
			return "C23-F2 leveldb batch.DeleteRange is evaluated at call time"
		}
	case t.prefix != nil:
		if op == "BDeleteRange" || hasOp(e.From["batch"], isRng) {
			return "C23-F3 rawdb table batch cannot Replay a DeleteRange"
		}
	}
	return ""
}

type edge struct {
	From map[string]any `json:"from"`
	Act  map[string]any `json:"act"`
	To   map[string]any `json:"to"`
}

func runEdges(in string, targets []*target, sum *tl.Summary, pending bool) {
	pend := map[string]int{}
	pendSample := map[string]any{}
	f, err := os.Open(in)
	if err != nil {
		tl.Fatal("open %s: %v", in, err)
	}
	defer f.Close()
	sc := bufio.NewScanner(f)
	sc.Buffer(make([]byte, 1<<20), 1<<26)
	distinct := map[string]bool{}
	worlds := make([]*world, len(targets))
	bad := make([]int, len(targets))
	for i, t := range targets {
		worlds[i] = &world{t: t}
	}
	n := 0
	for sc.Scan() {
		if len(sc.Bytes()) == 0 {
			continue
		}
		var e edge
		if err := json.Unmarshal(sc.Bytes(), &e); err != nil {
			tl.Fatal("parse edge: %v", err)
		}
		n++
		from, to := parseState(e.From), parseState(e.To)
		if fmt.Sprint(e.From) != fmt.Sprint(e.To) || e.Act["op"] == "Reads" {
			distinct[compact(e.From)+compact(e.Act)] = true
		}
		for ti, t := range targets {
			w := worlds[ti]
			sum.Evaluations++
			sum.Steps++
			sum.Count(t.name + ":" + e.Act["op"].(string))
			if err := w.set(from); err != nil {
				bad[ti]++
				if bad[ti] <= 3 {
					sum.Violate(fmt.Sprintf("[%s] cannot establish state %s: %v", t.name, compact(e.From), err), tl.M{"target": t.name, "edge": e})
				}
				continue
			}
			diff := w.do(e.Act, from)
			if diff == "" {
				got, gerr := w.observe()
				diff = compare(t, got, gerr, to)
			}
			if diff != "" {
				if pending {
					if f := pendingFinding(t, e); f != "" {
						pend[f]++
						if _, ok := pendSample[f]; !ok {
							pendSample[f] = tl.M{"target": t.name, "edge": e, "diff": diff}
						}
						continue
					}
				}
				bad[ti]++
				if bad[ti] <= 3 {
					sum.Violate(fmt.Sprintf("[%s] %v from %v: %s", t.name, compact(e.Act), compact(e.From), diff), tl.M{"target": t.name, "variant": t.variant, "edge": e, "diff": diff})
				}
			}
		}
		if n%4000 == 7 {
			sum.Sample(tl.M{"edge": e})
		}
		if n%200 == 0 {
			// drop the shadowed versions of the few model keys (keeps iteration cost flat)
			for _, w := range worlds {
				w.release()
				must(w.t.base.Compact(nil, nil))
			}
		}
	}
	for _, w := range worlds {
		w.release()
	}
	sum.Extra["mismatches"] = bad
	if pending {
		sum.Extra["pending_findings"] = pend
		sum.Extra["pending_samples"] = pendSample
	}
	sum.Distinct = len(distinct)
	sum.Rule = "every transition (state, action, successor) of the TLC state graph executed on each target after establishing the from-state through the public API; result, store content (full iteration), batch content (Replay into a recorder), ValueSize, remaining iterator items and untouched foreign keys compared; distinct = distinct state-changing (state, action) pairs and read sets"
}

func compact(v any) string {
	b, _ := json.Marshal(v)
	return string(b)
}

// ---------------------------------------------------------------- record mode

var alphabet = []byte{0x00, 0x61, 0x62, 0xff}

func randKey(r interface{ Intn(int) int }) []byte {
	n := []int{0, 1, 1, 2, 2, 2, 3}[r.Intn(7)]
	k := make([]byte, n)
	for i := range k {
		k[i] = alphabet[r.Intn(len(alphabet))]
	}
	return k
}

func randOpt(r interface{ Intn(int) int }) []byte {
	if r.Intn(5) == 0 {
		return nil
	}
	return randKey(r)
}

func randVal(r interface{ Intn(int) int }) []byte {
	switch r.Intn(5) {
	case 0:
		return []byte{}
	case 1:
		return nil
	case 2:
		return bytes.Repeat([]byte{byte(r.Intn(256))}, 1+r.Intn(40))
	}
	return []byte{byte(r.Intn(4))}
}

func runRecord(prefix string, targets []*target, seed int64, ntraces, steps int, sum *tl.Summary) {
	files := map[string]int{}
	shapes := map[string]bool{}
	for ti, t := range targets {
		path := fmt.Sprintf("%s-%s.ndjson", prefix, t.name)
		tr := tl.NewTrace(path)
		r := tl.Rand(seed*1000 + int64(ti))
		for n := 0; n < ntraces; n++ {
			w := &world{t: t}
			must(setStore(t.kv, nil))
			w.batch = t.kv.NewBatch()
			written := false
			tr.Emit(tl.M{"op": "reset"})
			shape := ""
			emit := func(ev tl.M) {
				tr.Emit(ev)
				sum.Count(ev["op"].(string))
				shape += ev["op"].(string)[:2]
				if n == 0 && ti == 0 && tr.N < 8 {
					sum.Sample(ev)
				}
			}
			for i := 0; i < steps; i++ {
				switch c := r.Intn(100); {
				case c < 14:
					k, v := randKey(r), randVal(r)
					must(t.kv.Put(k, v))
					emit(tl.M{"op": "Put", "k": fromBytes(k), "v": fromBytes(v)})
				case c < 20:
					k := randKey(r)
					must(t.kv.Delete(k))
					emit(tl.M{"op": "Delete", "k": fromBytes(k)})
				case c < 26:
					a, e := randOpt(r), randOpt(r)
					must(t.kv.DeleteRange(a, e))
					emit(tl.M{"op": "DeleteRange", "a": fromOpt(a), "e": fromOpt(e)})
				case c < 38:
					k := randKey(r)
					has, err := t.kv.Has(k)
					must(err)
					v, gerr := t.kv.Get(k)
					emit(tl.M{"op": "Get", "k": fromBytes(k), "has": has, "found": gerr == nil, "v": fromBytes(v)})
				case c < 52 && !written:
					k, v := randKey(r), randVal(r)
					must(w.batch.Put(k, v))
					emit(tl.M{"op": "BPut", "k": fromBytes(k), "v": fromBytes(v), "size": w.batch.ValueSize(), "pfx": len(t.prefix)})
				case c < 58 && !written:
					k := randKey(r)
					must(w.batch.Delete(k))
					emit(tl.M{"op": "BDelete", "k": fromBytes(k), "size": w.batch.ValueSize(), "pfx": len(t.prefix)})
				case c < 64 && !written:
					a, e := randOpt(r), randOpt(r)
					if !invertedOnLeveldb(t, a, e) {
						must(w.batch.DeleteRange(a, e))
					}
					emit(tl.M{"op": "BDeleteRange", "a": fromOpt(a), "e": fromOpt(e)})
				case c < 69 && !written:
					must(w.batch.Write())
					written = true
					emit(tl.M{"op": "BWrite"})
				case c < 74:
					w.batch.Reset()
					written = false
					emit(tl.M{"op": "BReset", "size": w.batch.ValueSize(), "pfx": len(t.prefix)})
				case c < 78:
					via := r.Intn(2) == 0
					var err error
					if via {
						b2 := t.kv.NewBatch()
						err = w.batch.Replay(b2)
						must(b2.Write())
						b2.Close()
					} else {
						err = w.batch.Replay(t.kv)
					}
					emit(tl.M{"op": "BReplay", "viaBatch": via, "err": err != nil})
				case c < 84:
					if w.it != nil {
						w.it.Release()
						w.it = nil
						emit(tl.M{"op": "IterRelease"})
					}
					p, st := randOpt(r), randOpt(r)
					w.it = t.kv.NewIterator(p, st)
					emit(tl.M{"op": "IterNew", "p": fromOpt(p), "st": fromOpt(st)})
				case c < 95:
					if w.it == nil {
						continue
					}
					ok := w.it.Next()
					ev := tl.M{"op": "IterNext", "ok": ok, "k": bs{}, "v": bs{}}
					if ok {
						ev["k"], ev["v"] = fromBytes(w.it.Key()), fromBytes(w.it.Value())
					}
					emit(ev)
				case c < 97:
					if w.it != nil || written {
						continue
					}
					w.batch.Reset()
					emit(tl.M{"op": "BReset", "size": w.batch.ValueSize(), "pfx": len(t.prefix)})
					w.release()
					t.reopen()
					w.batch = t.kv.NewBatch()
					emit(tl.M{"op": "Reopen"})
				default:
					emit(tl.M{"op": "Dump", "store": pairsJSON(dump(t.kv))})
				}
			}
			emit(tl.M{"op": "Dump", "store": pairsJSON(dump(t.kv))})
			if t.prefix != nil {
				if f := t.foreignNow(); !pairsEqual(f, t.foreign) {
					sum.Violate(fmt.Sprintf("[%s] keys outside the table prefix changed: %v, were %v", t.name, pairsJSON(f), pairsJSON(t.foreign)), tl.M{"target": t.name, "trace": path, "index": n})
				}
			}
			w.release()
			sum.Traces++
			sum.Evaluations++
			if !shapes[shape] {
				shapes[shape] = true
				sum.Distinct++
			}
		}
		tr.Close()
		files[t.name] = tr.N
		sum.Steps += tr.N
	}
	sum.Extra["events"] = files
	sum.Rule = "seeded random interface-call sequences (keys over {00,61,62,ff}^<=3, nil/empty bounds, iterators held across writes, batches with replay/reset, reopen) on each target; distinct = distinct operation-name sequences"
}

// runF4 reproduces C23-F4 in a child process: leveldb with a table below level 0, then an inverted
// batch.DeleteRange.
func runF4(dir string, sum *tl.Summary) {
	self, err := os.Executable()
	if err != nil {
		tl.Fatal("executable: %v", err)
	}
	cmd := exec.Command(self, "-mode", "f4child", "-dir", dir)
	var outb bytes.Buffer
	cmd.Stdout, cmd.Stderr = &outb, &outb
	runErr := cmd.Run()
	switch {
	case runErr != nil && strings.Contains(outb.String(), "slice bounds out of range"):
		sum.Extra["f4"] = "panic: slice bounds out of range (goleveldb tFiles.newIndexIterator)"
	case runErr != nil:
		tl.Fatal("f4 child failed differently: %v\n%s", runErr, outb.String())
	default:
		sum.Extra["f4"] = "no panic"
	}
	sum.Evaluations = 1
	sum.Distinct = 1
	sum.Rule = "directed reproduction of C23-F4 in a child process"
	sum.Sample(tl.M{"f4": sum.Extra["f4"]})
}

// runProbe finds out which of the known deviations the code under test has (a fixed tree has none), so that the
// check binds every target to the matching constants of KV.tla.
func runProbe(dir string, sum *tl.Summary) {
	// F1: memorydb batch.Delete(empty key) wipes everything
	m := memorydb.New()
	must(m.Put([]byte("a"), []byte("1")))
	b := m.NewBatch()
	must(b.Delete([]byte{}))
	must(b.Write())
	has, _ := m.Has([]byte("a"))
	sum.Extra["f1"] = !has
	// F3: a table batch cannot replay a range deletion
	t := rawdb.NewTable(rawdb.NewDatabase(memorydb.New()), "t")
	tb := t.NewBatch()
	must(tb.DeleteRange([]byte("a"), []byte("b")))
	sum.Extra["f3"] = tb.Replay(t) != nil
	// F2: leveldb expands a buffered range deletion when it is issued
	ldb, err := leveldb.New(filepath.Join(dir, "probe-f2"), 16, 16, "", false)
	if err != nil {
		tl.Fatal("open leveldb: %v", err)
	}
	lb := ldb.NewBatch()
	must(lb.Put([]byte("k"), []byte("v")))
	must(lb.DeleteRange([]byte("k"), nil))
	must(lb.Write())
	has, _ = ldb.Has([]byte("k"))
	sum.Extra["f2"] = has
	ldb.Close()
	sum.Evaluations = 3
	sum.Distinct = 3
	sum.Rule = "directed probes of the known deviations C23-F1..F3"
	sum.Sample(tl.M{"f1": sum.Extra["f1"], "f2": sum.Extra["f2"], "f3": sum.Extra["f3"]})
}

func runF4Child(dir string) {
	db, err := leveldb.New(filepath.Join(dir, "f4"), 16, 16, "", false)
	if err != nil {
		tl.Fatal("open leveldb: %v", err)
	}
	for _, k := range []string{"a", "b", "c"} {
		must(db.Put([]byte(k), []byte("v")))
	}
	must(db.Compact(nil, nil))
	b := db.NewBatch()
	err = b.DeleteRange([]byte("d"), []byte("a")) // contract: the empty range
	fmt.Println("DeleteRange(d,a) returned", err)
	db.Close()
}

func main() {
	mode := flag.String("mode", "edges", "edges|record|f4")
	in := flag.String("in", "", "edges json")
	tg := flag.String("targets", "mem,pebble,leveldb,tmem,tpebble,tleveldb", "targets")
	dir := flag.String("dir", "", "scratch directory for disk backends")
	prefix := flag.String("trace-prefix", "trace", "trace file prefix (record)")
	out := flag.String("out", "summary.json", "summary output")
	n := flag.Int("n", 10, "traces per target")
	steps := flag.Int("steps", 200, "steps per trace")
	flag.BoolVar(&skipF4, "skip-f4", false, "do not issue batch.DeleteRange(start > end) on leveldb targets (C23-F4: it panics)")
	variant := flag.String("variant", "", "edges: which deviation constants produced the edges (ideal|emptydel|eager|replayrange); default: the target's own")
	pending := flag.Bool("pending", false, "edges are contract edges replayed on deviating targets: classify known deviations as pending findings")
	flag.Parse()
	seed := int64(tl.EnvInt("VERIF_SEED", 1))
	sum := tl.NewSummary("c23", *mode, seed)
	if *dir == "" {
		d, err := os.MkdirTemp("", "c23-")
		if err != nil {
			tl.Fatal("tempdir: %v", err)
		}
		defer os.RemoveAll(d)
		*dir = d
	}
	if *mode == "f4child" {
		runF4Child(*dir)
		return
	}
	var targets []*target
	if *mode != "f4" && *mode != "probe" {
		for _, name := range strings.Split(*tg, ",") {
			t := openTarget(name, *dir)
			if *variant != "" {
				t.variant = *variant // the constants of KV.tla the check binds these targets to
			}
			targets = append(targets, t)
		}
	}
	switch *mode {
	case "f4":
		runF4(*dir, sum)
	case "probe":
		runProbe(*dir, sum)
	case "edges":
		runEdges(*in, targets, sum, *pending)
	case "record":
		runRecord(*prefix, targets, seed, *n, *steps, sum)
	default:
		tl.Fatal("bad mode")
	}
	for _, t := range targets {
		t.close()
	}
	sum.Extra["f4_calls_not_issued"] = skippedF4
	sum.Write(*out)
	if len(sum.Violations) > 0 {
		os.Exit(1)
	}
}
