package main

import (
	"fmt"

	"github.com/ethereum/go-ethereum/ethdb/memorydb"
	tl "verif/harness/tracelib"
	tk "verif/harness/triekit"
)

// randomKV draws a key-value set over 64-nibble keys with shared prefixes (so that
// extension nodes, deep branches and embedded nodes occur) and mixed value sizes.
func randomKV(e *env, n int) []tk.KV {
	prefixes := [][]int{{}, {}, {1}, {1, 2}, {1, 2, 3, 4, 5}, {15}, {15, 15, 0}, {7, 7, 7, 7, 7, 7, 7, 7, 7, 7}}
	seen := map[string]bool{}
	var out []tk.KV
	for len(out) < n {
		p := prefixes[e.r.Intn(len(prefixes))]
		k := append([]int{}, p...)
		for len(k) < 64 {
			k = append(k, e.r.Intn(16))
		}
		if e.r.Intn(4) == 0 && len(out) > 0 {
			// differ from an existing key only in a late nibble
			k = append([]int{}, out[e.r.Intn(len(out))].K...)
			k[40+e.r.Intn(24)] = e.r.Intn(16)
		}
		if seen[fmt.Sprint(k)] {
			continue
		}
		seen[fmt.Sprint(k)] = true
		size := 1 + e.r.Intn(3)
		if e.r.Intn(2) == 0 {
			size = 20 + e.r.Intn(40)
		}
		out = append(out, tk.KV{K: k, V: size*10 + e.r.Intn(10)})
	}
	return out
}

func pathInts(p string) []int {
	out := make([]int, len(p))
	for i := range p {
		out[i] = int(p[i])
	}
	return out
}

func runRecord(e *env, path string, n int) {
	tr := tl.NewTrace(path)
	defer tr.Close()
	for t := 0; t < n; t++ {
		kv := randomKV(e, 1+e.r.Intn(20))
		real, root, nodes := e.genuine(kv, e.r.Intn(2) == 0)
		_, oroot, onodes := e.genuine(randomKV(e, 1+e.r.Intn(6)), false)
		tr.Emit(tl.M{"op": "trie", "kv": kv})
		e.sum.Traces++
		paths := keysOf(nodes)
		for q := 0; q < 12; q++ {
			// key: present, near miss, or random
			var k []int
			switch e.r.Intn(3) {
			case 0:
				k = kv[e.r.Intn(len(kv))].K
			case 1:
				k = append([]int{}, kv[e.r.Intn(len(kv))].K...)
				k[e.r.Intn(64)] = e.r.Intn(16)
			default:
				k = randomKV(e, 1)[0].K
			}
			key := tk.KeyBytes(k, 0)
			// honest proof
			pdb := memorydb.New()
			if err := prove(real, key, pdb); err != nil {
				e.sum.Violate("Prove: "+err.Error(), tl.M{"kv": kv, "k": k})
				continue
			}
			ppaths := [][]int{}
			for _, p := range paths {
				if ok, _ := pdb.Has(keccak(nodes[p])); ok {
					ppaths = append(ppaths, pathInts(p))
				}
			}
			tr.Emit(tl.M{"op": "prove", "key": k, "paths": ppaths, "n": pdb.Len()})
			e.sum.Count("prove")
			// assembled proof set: random omissions of the honest proof / random subset of all
			// nodes, plus foreign nodes
			sel := [][]int{}
			var blobs [][]byte
			mode := e.r.Intn(3)
			for _, p := range paths {
				in := false
				switch mode {
				case 0: // honest proof with one omission at most
					in, _ = pdb.Has(keccak(nodes[p]))
				case 1:
					in = e.r.Intn(4) != 0
				default:
					in = true
				}
				if in {
					sel = append(sel, pathInts(p))
					blobs = append(blobs, nodes[p])
				}
			}
			if mode == 0 && len(sel) > 0 && e.r.Intn(2) == 0 {
				i := e.r.Intn(len(sel))
				sel = append(sel[:i], sel[i+1:]...)
				blobs = append(blobs[:i], blobs[i+1:]...)
			}
			foreign := 0
			own := blobs
			for _, b := range onodes {
				if e.r.Intn(3) == 0 {
					blobs = append(blobs[:len(blobs):len(blobs)], b)
					foreign++
				}
			}
			res, det := verify(root, key, dbOf(blobs...))
			if res == -2 {
				e.sum.Violate("VerifyProof "+det, tl.M{"kv": kv, "k": k, "paths": sel})
				continue
			}
			tr.Emit(tl.M{"op": "verify", "key": k, "paths": sel, "foreign": foreign, "res": res})
			e.sum.Count("verify")
			e.sum.Evaluations++
			if res > 0 {
				e.sum.Distinct++
			}
			// mismatched root: another trie's root over this trie's nodes
			if q == 0 {
				// the other trie's root over this trie's genuine nodes only: its root node is not
				// among them, nothing but an error is sound
				if r2, det := verify(oroot, key, dbOf(own...)); r2 != -1 && oroot != root {
					tr.Emit(tl.M{"op": "verifyother", "key": k, "res": r2, "detail": det})
				}
			}
			if t == 0 && q < 3 {
				e.sum.Sample(tl.M{"op": "verify", "key": k, "paths": sel, "foreign": foreign, "res": res, "entries": len(kv)})
			}
		}
	}
	e.sum.Steps = tr.N
	e.sum.Rule = "seeded random tries over 32-byte keys with shared prefixes; per key (present / near miss / random) the honest proof, and a proof set with omissions, all nodes or a random subset plus foreign nodes; distinct = verifications that returned a value"
}
