// c08 binds spec/trie/Proof.tla (property C08) to trie.Prove / trie.VerifyProof.
//
//	-mode rows -in rows.json     TLC-enumerated rows (key-value set, key, expected Prove node
//	                             set, verdict for every subset of the trie's stored nodes and
//	                             for every substitution of a node by a genuine node of a
//	                             neighbouring trie) executed on the real functions.
//	-mode record -trace t.ndjson seeded random tries over 32-byte keys, random proof sets
//	                             (omissions, foreign nodes), one event per VerifyProof call,
//	                             validated by ProofTrace.tla.
//
// A panic inside Prove / VerifyProof is a violation (the property forbids it), so both are
// called under recover.
package main

import (
	"bytes"
	"flag"
	"fmt"
	"math/rand"
	"os"
	"sort"

	"github.com/ethereum/go-ethereum/common"
	"github.com/ethereum/go-ethereum/crypto"
	"github.com/ethereum/go-ethereum/ethdb/memorydb"
	"github.com/ethereum/go-ethereum/trie"
	tl "verif/harness/tracelib"
	tk "verif/harness/triekit"
)

type pcase struct {
	S []int `json:"s"`
	R int   `json:"r"`
}

type sub struct {
	NK   []tk.KV `json:"nk"`
	Path []int   `json:"path"`
	R    int     `json:"r"`
}

type row struct {
	KV     []tk.KV   `json:"kv"`
	Tree   *tk.SNode `json:"tree"`
	K      []int     `json:"k"`
	Want   int       `json:"want"`
	Stored [][]int   `json:"stored"`
	Proof  [][]int   `json:"proof"`
	Cases  []pcase   `json:"cases"`
	Subs   []sub     `json:"subs"`
}

type env struct {
	pad int
	r   *rand.Rand
	sum *tl.Summary
}

func (e *env) key(k []int) []byte { return tk.KeyBytes(k, e.pad) }

func pathStr(p []int) string {
	b := make([]byte, len(p))
	for i, x := range p {
		b[i] = byte(x)
	}
	return string(b)
}

// genuine builds a real trie of kv and returns it (reopened from a store with seeded
// probability, so that Prove also resolves hash nodes) with its real stored nodes by path.
func (e *env) genuine(kv []tk.KV, reopen bool) (*trie.Trie, common.Hash, map[string][]byte) {
	store := tk.NewPathStore()
	tr := trie.NewEmpty(store)
	for _, i := range e.r.Perm(len(kv)) {
		tr.MustUpdate(e.key(kv[i].K), tk.ValBytes(kv[i].V))
	}
	cp := tr.Copy()
	root, set := cp.Commit(false)
	nodes := map[string][]byte{}
	if set != nil {
		for p, n := range set.Nodes {
			if !n.IsDeleted() {
				nodes[p] = n.Blob
				store.Nodes[p] = n.Blob
			}
		}
	}
	if reopen {
		nt, err := trie.New(trie.TrieID(root), store)
		if err != nil {
			tl.Fatal("reopen: %v", err)
		}
		tr = nt
	}
	return tr, root, nodes
}

// verify runs trie.VerifyProof and classifies: value id, 0 = proven absent, -1 = error,
// -2 = panic, -3 = a value that is not a model value.
func verify(root common.Hash, key []byte, db *memorydb.Database) (res int, detail string) {
	defer func() {
		if x := recover(); x != nil {
			res, detail = -2, fmt.Sprint("panic: ", x)
		}
	}()
	val, err := trie.VerifyProof(root, key, db)
	if err != nil {
		return -1, err.Error()
	}
	if val == nil {
		return 0, ""
	}
	if id := tk.ValID(val); id > 0 {
		return id, ""
	}
	return -3, fmt.Sprintf("value %x", val)
}

func prove(tr *trie.Trie, key []byte, db *memorydb.Database) (err error) {
	defer func() {
		if x := recover(); x != nil {
			err = fmt.Errorf("panic: %v", x)
		}
	}()
	return tr.Prove(key, db)
}

func dbOf(blobs ...[]byte) *memorydb.Database {
	db := memorydb.New()
	for _, b := range blobs {
		db.Put(crypto.Keccak256(b), b)
	}
	return db
}

func runRows(e *env, in string) {
	var rows []row
	tl.ReadJSON(in, &rows)
	distinct := map[string]bool{}
	for ri, rw := range rows {
		fail := func(d string, extra tl.M) {
			extra["kv"], extra["k"], extra["pad"] = rw.KV, rw.K, e.pad
			e.sum.Violate(fmt.Sprintf("trie %v key %v: %s", rw.KV, rw.K, d), extra)
		}
		tr, root, nodes := e.genuine(rw.KV, e.r.Intn(2) == 0)
		ref, refRoot := tk.NewRef(rw.Tree, e.pad)
		if len(ref.SizeMismatch) > 0 {
			tl.Fatal("MPT!RlpSize mismatch: %v", ref.SizeMismatch)
		}
		if root != refRoot {
			fail(fmt.Sprintf("root %x, reference root %x", root, refRoot), tl.M{})
			continue
		}
		key := e.key(rw.K)
		// the model's stored nodes are the genuine nodes
		blobs := make([][]byte, len(rw.Stored))
		ok := len(nodes) == len(rw.Stored)
		for i, p := range rw.Stored {
			blobs[i] = nodes[pathStr(p)]
			ok = ok && blobs[i] != nil
		}
		if !ok {
			fail(fmt.Sprintf("stored nodes of the real trie at paths %x differ from the model's %v", keysOf(nodes), rw.Stored), tl.M{})
			continue
		}
		// Prove: exactly the model's proof nodes
		pdb := memorydb.New()
		if err := prove(tr, key, pdb); err != nil {
			fail("Prove: "+err.Error(), tl.M{})
			continue
		}
		var wantH []string
		for _, p := range rw.Proof {
			wantH = append(wantH, string(crypto.Keccak256(nodes[pathStr(p)])))
		}
		var gotH []string
		it := pdb.NewIterator(nil, nil)
		for it.Next() {
			gotH = append(gotH, string(it.Key()))
			if !bytes.Equal(crypto.Keccak256(it.Value()), it.Key()) {
				fail(fmt.Sprintf("Prove stored blob %x under key %x", it.Value(), it.Key()), tl.M{})
			}
		}
		it.Release()
		sort.Strings(wantH)
		sort.Strings(gotH)
		if fmt.Sprintf("%x", wantH) != fmt.Sprintf("%x", gotH) {
			fail(fmt.Sprintf("Prove emitted nodes %x, specification: nodes at paths %v = %x", gotH, rw.Proof, wantH), tl.M{})
			continue
		}
		e.sum.Count("prove")
		// completeness: the produced proof verifies to the true value (non-empty tries)
		want := rw.Want
		if len(rw.KV) == 0 {
			want = -1
		}
		if got, det := verify(root, key, pdb); got != want {
			fail(fmt.Sprintf("VerifyProof of the produced proof gives %d %s, specification %d", got, det, want), tl.M{})
			continue
		}
		// every subset of the genuine nodes
		for _, c := range rw.Cases {
			var sel [][]byte
			for _, i := range c.S {
				sel = append(sel, blobs[i-1])
			}
			got, det := verify(root, key, dbOf(sel...))
			e.sum.Evaluations++
			e.sum.Count("subset")
			if got != c.R {
				fail(fmt.Sprintf("VerifyProof with nodes at paths %v gives %d %s, specification %d", pick(rw.Stored, c.S), got, det, c.R), tl.M{"subset": c.S})
				break
			}
			dk := fmt.Sprint(rw.KV, rw.K, c.S)
			if c.R != -1 && !distinct[dk] {
				distinct[dk] = true
				e.sum.Distinct++
			}
		}
		// substitution by a genuine node of a neighbouring trie
		for _, s := range rw.Subs {
			_, nroot, nnodes := e.genuine(s.NK, false)
			f := nnodes[pathStr(s.Path)]
			if f == nil {
				tl.Fatal("neighbour %v has no stored node at %v", s.NK, s.Path)
			}
			var sel [][]byte
			for p, b := range nodes {
				if p != pathStr(s.Path) {
					sel = append(sel, b)
				}
			}
			sel = append(sel, f)
			got, det := verify(root, key, dbOf(sel...))
			e.sum.Evaluations++
			e.sum.Count("substitution")
			if got != s.R {
				fail(fmt.Sprintf("VerifyProof with the node at path %v replaced by the one of trie %v gives %d %s, specification %d", s.Path, s.NK, got, det, s.R), tl.M{"sub": s})
				break
			}
			// mismatched root: the neighbour's root over this trie's nodes never verifies to
			// anything but the neighbour's own value
			if got, det := verify(nroot, key, dbOf(blobs...)); got != -1 {
				nv := 0
				for _, x := range s.NK {
					if fmt.Sprint(x.K) == fmt.Sprint(rw.K) {
						nv = x.V
					}
				}
				if got != nv {
					fail(fmt.Sprintf("VerifyProof against the root of trie %v over this trie's nodes gives %d %s", s.NK, got, det), tl.M{"sub": s})
					break
				}
			}
			e.sum.Count("mismatched-root")
		}
		e.sum.Steps++
		if ri%97 == 5 {
			e.sum.Sample(tl.M{"kv": rw.KV, "k": rw.K, "proof": rw.Proof, "cases": len(rw.Cases), "subs": len(rw.Subs), "first_cases": rw.Cases[:min(3, len(rw.Cases))]})
		}
	}
	e.sum.Rule = "TLC rows (key-value set, key): Prove's node set, VerifyProof over every subset of the trie's stored nodes and over every single substitution by a genuine node of a trie differing in one key, mismatched roots; distinct = distinct (set, key, proof subset) that verify successfully"
}

func keccak(b []byte) []byte { return crypto.Keccak256(b) }

func keysOf(m map[string][]byte) []string {
	var out []string
	for k := range m {
		out = append(out, k)
	}
	sort.Strings(out)
	return out
}

func pick(paths [][]int, idx []int) [][]int {
	var out [][]int
	for _, i := range idx {
		out = append(out, paths[i-1])
	}
	return out
}

func main() {
	mode := flag.String("mode", "rows", "rows|record|varlen")
	in := flag.String("in", "", "input json")
	out := flag.String("out", "summary.json", "summary output")
	pad := flag.Int("pad", 0, "zero nibbles appended to model keys")
	trace := flag.String("trace", "trace.ndjson", "output trace (mode record)")
	n := flag.Int("n", 30, "number of tries (mode record)")
	flag.Parse()
	seed := int64(tl.EnvInt("VERIF_SEED", 1))
	sum := tl.NewSummary("c08", *mode, seed)
	e := &env{pad: *pad, r: tl.Rand(seed), sum: sum}
	switch *mode {
	case "rows":
		sum.Mode = "replay"
		runRows(e, *in)
	case "record":
		runRecord(e, *trace, *n)
	case "varlen":
		runVarlen(e, *trace, *n)
	default:
		tl.Fatal("bad mode")
	}
	sum.Write(*out)
	if len(sum.Violations) > 0 {
		os.Exit(1)
	}
}
