package main

import (
	"encoding/hex"
	"sort"

	"github.com/ethereum/go-ethereum/common"
	"github.com/ethereum/go-ethereum/ethdb/memorydb"
	"github.com/ethereum/go-ethereum/trie"
	tl "verif/harness/tracelib"
	tk "verif/harness/triekit"
)

type vkv struct {
	K string `json:"k"`
	V int    `json:"v"`
}

// randomVarKV draws keys of different byte lengths over a two-symbol-heavy alphabet so that
// strict prefixes (values in the value slot of branch nodes), the empty key, extension nodes
// above such branches and embedded nodes all occur.
func randomVarKV(e *env, n int) []vkv {
	alpha := []byte{0x00, 0x01, 0x10, 0x11, 0xab}
	seen := map[string]bool{}
	out := []vkv{}
	for len(out) < n {
		var k []byte
		if len(out) > 0 && e.r.Intn(2) == 0 {
			// extend or truncate an existing key: strict prefixes
			b, _ := hex.DecodeString(out[e.r.Intn(len(out))].K)
			if e.r.Intn(2) == 0 && len(b) > 0 {
				k = append(k, b[:e.r.Intn(len(b))]...)
			} else {
				k = append(append(k, b...), alpha[e.r.Intn(len(alpha))])
			}
		} else {
			for i, m := 0, e.r.Intn(5); i < m; i++ {
				k = append(k, alpha[e.r.Intn(len(alpha))])
			}
		}
		ks := hex.EncodeToString(k)
		if seen[ks] {
			continue
		}
		seen[ks] = true
		size := 1 + e.r.Intn(3)
		if e.r.Intn(2) == 0 {
			size = 20 + e.r.Intn(40)
		}
		out = append(out, vkv{K: ks, V: size*10 + e.r.Intn(10)})
	}
	return out
}

func buildVar(e *env, kv []vkv, reopen bool) (*trie.Trie, common.Hash, [][]byte) {
	store := tk.NewPathStore()
	tr := trie.NewEmpty(store)
	for _, i := range e.r.Perm(len(kv)) {
		k, _ := hex.DecodeString(kv[i].K)
		tr.MustUpdate(k, tk.ValBytes(kv[i].V))
	}
	cp := tr.Copy()
	root, set := cp.Commit(false)
	var blobs [][]byte
	if set != nil {
		var ps []string
		for p := range set.Nodes {
			ps = append(ps, p)
		}
		sort.Strings(ps)
		for _, p := range ps {
			if n := set.Nodes[p]; !n.IsDeleted() {
				blobs = append(blobs, n.Blob)
				store.Nodes[p] = n.Blob
			}
		}
	}
	if reopen && len(kv) > 0 {
		nt, err := trie.New(trie.TrieID(root), store)
		if err != nil {
			tl.Fatal("reopen: %v", err)
		}
		tr = nt
	}
	return tr, root, blobs
}

func runVarlen(e *env, path string, n int) {
	tr := tl.NewTrace(path)
	defer tr.Close()
	for t := 0; t < n; t++ {
		kv := randomVarKV(e, e.r.Intn(14))
		if t == 0 {
			kv = []vkv{{K: "", V: 11}, {K: "00", V: 12}, {K: "0001", V: 213}, {K: "01", V: 14}} // empty key and prefixes, always
		}
		real, root, blobs := buildVar(e, kv, e.r.Intn(2) == 0)
		_, oroot, oblobs := buildVar(e, randomVarKV(e, 1+e.r.Intn(5)), false)
		tr.Emit(tl.M{"op": "trie", "kv": kv})
		e.sum.Traces++
		var keys []string
		for _, x := range kv {
			keys = append(keys, x.K) // every present key
		}
		for q := 0; q < 6; q++ { // absent keys: extensions / truncations of present ones, random
			c := randomVarKV(e, 1)[0].K
			if len(kv) > 0 && e.r.Intn(2) == 0 {
				c = kv[e.r.Intn(len(kv))].K + []string{"", "00", "ab", "1100"}[e.r.Intn(4)]
				if e.r.Intn(3) == 0 && len(c) >= 2 {
					c = c[:len(c)-2]
				}
			}
			keys = append(keys, c)
		}
		for _, ks := range keys {
			key, _ := hex.DecodeString(ks)
			pdb := memorydb.New()
			if err := prove(real, key, pdb); err != nil {
				e.sum.Violate("Prove: "+err.Error(), tl.M{"kv": kv, "k": ks})
				continue
			}
			res, det := verify(root, key, pdb)
			tr.Emit(tl.M{"op": "vfull", "key": ks, "res": res, "detail": det, "n": pdb.Len()})
			e.sum.Count("vfull")
			e.sum.Evaluations++
			if res > 0 {
				e.sum.Distinct++
			}
			if t < 2 {
				e.sum.Sample(tl.M{"op": "vfull", "key": ks, "res": res, "entries": len(kv)})
			}
			// honest proof plus foreign genuine nodes
			xdb := memorydb.New()
			it := pdb.NewIterator(nil, nil)
			for it.Next() {
				xdb.Put(common.CopyBytes(it.Key()), common.CopyBytes(it.Value()))
			}
			it.Release()
			for _, b := range oblobs {
				if e.r.Intn(2) == 0 {
					xdb.Put(keccak(b), b)
				}
			}
			res, det = verify(root, key, xdb)
			tr.Emit(tl.M{"op": "vextra", "key": ks, "res": res, "detail": det})
			e.sum.Count("vextra")
			// subsets of the genuine nodes
			var sub [][]byte
			for _, b := range blobs {
				if e.r.Intn(4) != 0 {
					sub = append(sub, b)
				}
			}
			res, det = verify(root, key, dbOf(sub...))
			tr.Emit(tl.M{"op": "vsub", "key": ks, "res": res, "detail": det, "n": len(sub)})
			e.sum.Count("vsub")
			if oroot != root {
				res, det = verify(oroot, key, dbOf(blobs...))
				if res != -1 {
					tr.Emit(tl.M{"op": "vother", "key": ks, "res": res, "detail": det})
				}
			}
		}
	}
	e.sum.Steps = tr.N
	e.sum.Rule = "seeded random tries over keys of 0..6 bytes with strict prefixes and the empty key (values in branch value slots); every present key and extensions / truncations / random absent keys: honest proof, honest proof plus foreign nodes, random subsets of the genuine nodes, mismatched root"
}
