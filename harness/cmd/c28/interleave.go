package main

import (
	"fmt"
	"time"

	"github.com/ethereum/go-ethereum/common"
	me "verif/harness/minievm"
	tl "verif/harness/tracelib"
)

// runInterleave executes k generated transactions in k goroutines, blocked before every
// opcode and released one at a time in a seeded pseudo-random order (bursts of 1..8 opcodes),
// all sharing the process pools and the jumpdest / precompile caches.  Frame entries and
// exits - where arenas, memory buffers and cache entries change hands - therefore interleave
// at arbitrary points of the other executions.  Every result must equal the pristine one.
func runInterleave(seed int64, n, k int, sum *tl.Summary) {
	r := tl.Rand(seed)
	sh := newShared()
	seen := map[uint64]bool{}
	for i := 0; i < n; i++ {
		scs := make([]*me.Scenario, k)
		refs := make([]obs, k)
		for j := range scs {
			scs[j] = me.GenScenario(r)
			me.ChooseGas(r, scs[j])
			if j > 0 && r.Intn(3) == 0 {
				// a pool-dirtying neighbour instead of a generated one
				scs[j], _ = dirtyScenario(r.Intn(6), scs[0].Tx.Fork)
				if scs[j].Data == nil && r.Intn(2) == 0 {
					scs[j].Data = make([]byte, 32)
				}
			}
			refs[j] = reference(scs[j])
			if !seen[refs[j].Digest] {
				seen[refs[j].Digest] = true
				sum.Distinct++
			}
		}
		type lane struct {
			arrive chan bool
			goOn   chan struct{}
			done   bool
			got    obs
		}
		lanes := make([]*lane, k)
		for j := range lanes {
			l := &lane{arrive: make(chan bool), goOn: make(chan struct{})}
			lanes[j] = l
			sc := scs[j]
			go func() {
				<-l.goOn
				res := me.ExecuteWith(sc.W, sc.Tx, sc.Data, &me.ExecOpts{JumpCache: sh.jump, PreCache: sh.pre,
					Gate: func(t *me.Tracer, op byte, addr common.Address) {
						l.arrive <- true
						<-l.goOn
					}})
				l.got = observe(sc, res)
				l.arrive <- false
			}()
		}
		live := k
		for live > 0 {
			j := r.Intn(k)
			if lanes[j].done {
				continue
			}
			burst := 1 + r.Intn(8)
			for b := 0; b < burst && !lanes[j].done; b++ {
				lanes[j].goOn <- struct{}{}
				select {
				case at := <-lanes[j].arrive:
					if !at {
						lanes[j].done = true
						live--
					}
				case <-time.After(gateTimeout):
					tl.Fatal("interleave gate timed out (case %d lane %d)", i, j)
				}
				sum.Steps++
			}
		}
		for j := range lanes {
			sum.Evaluations++
			if d := differs(refs[j], lanes[j].got); d != "" {
				sum.Violate(fmt.Sprintf("case %d lane %d (%s, %s): %s differs between pristine resources and the opcode-interleaved run", i, j, scs[j].Kind, scs[j].Tx.Fork, d),
					tl.M{"case": i, "lane": j, "seed": seed, "tx": scs[j].Tx, "accts": me.AcctsOf(scs[j].W), "pristine": refs[j], "got": lanes[j].got})
			}
		}
		if i < 2 {
			sum.Sample(tl.M{"lanes": k, "ops": refs[0].NOps, "kind": scs[0].Kind})
		}
		sum.Traces++
	}
	sum.Rule = "k generated transactions in k goroutines gated before every opcode and released in a seeded order, sharing pools and caches; distinct = distinct pristine opcode-trace digests"
}
