package main

import (
	"sync"
	"sync/atomic"

	me "verif/harness/minievm"
	tl "verif/harness/tracelib"
)

// runRecord traces transactions at opcode granularity while background goroutines keep
// dirtying the pools and sharing the caches; the trace is validated by MiniEVMTrace.tla,
// whose semantics knows nothing about pools: any leak of earlier data is a rejected step.
func runRecord(path string, seed int64, n, par int, sum *tl.Summary) {
	r := tl.Rand(seed)
	tr := tl.NewTrace(path)
	defer tr.Close()
	sh := newShared()
	var stop atomic.Bool
	var wg sync.WaitGroup
	for g := 0; g < par-1; g++ {
		wg.Add(1)
		go func(g int) {
			defer wg.Done()
			for k := 0; !stop.Load(); k++ {
				d, data := dirtyScenario(g+k, me.Forks[(g+k)%3])
				me.ExecuteWith(d.W, d.Tx, data, &me.ExecOpts{JumpCache: sh.jump, PreCache: sh.pre})
			}
		}(g)
	}
	for i := 0; i < n; i++ {
		sc := me.GenScenario(r)
		me.ChooseGas(r, sc)
		d, data := dirtyScenario(r.Intn(6), sc.Tx.Fork)
		me.ExecuteWith(d.W, d.Tx, data, &me.ExecOpts{JumpCache: sh.jump, PreCache: sh.pre})
		res := me.ExecuteWith(sc.W, sc.Tx, sc.Data, &me.ExecOpts{Traced: true, JumpCache: sh.jump, PreCache: sh.pre})
		sum.Evaluations++
		if res.Tr.Unmodeled != "" || res.Tr.NOps > 400 || (res.Valid && sc.Tx.Gas > 4_200_000) {
			sum.Count("skipped")
			continue
		}
		sc.Tx.DataW = res.Tr.In.Words(sc.Data)
		p, fits := me.Post(res, sc.W, sc.Tx)
		if !fits {
			sum.Count("skipped")
			continue
		}
		tr.Emit(tl.M{"op": "tx", "tx": sc.Tx, "accts": me.AcctsOf(sc.W)})
		for _, e := range res.Tr.Events {
			tr.Emit(e)
		}
		if !res.Valid {
			tr.Emit(tl.M{"op": "txend", "valid": false, "ok": false, "gasUsed": 0, "post": []tl.M{}, "logs": []tl.M{}})
		} else {
			tr.Emit(tl.M{"op": "txend", "valid": true, "ok": res.Ok, "gasUsed": res.GasUsed, "post": p, "logs": me.LogsOf(res)})
		}
		sum.Steps += res.Tr.NOps
		sum.Traces++
		if sum.Traces <= 2 {
			sum.Sample(tl.M{"kind": sc.Kind, "fork": sc.Tx.Fork, "ops": res.Tr.NOps, "ok": res.Ok})
		}
	}
	stop.Store(true)
	wg.Wait()
	sum.Distinct = sum.Traces
	sum.Rule = "transactions traced while background goroutines dirty the pools and share the caches; one trace per transaction"
}
